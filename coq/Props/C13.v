(* C13 -- EKF / UKF = Kalman filter on linear-Gaussian systems; covariances valid.
   Statements only (over R, every dimension); proofs in Proofs/Filter.v, Filter2.v .. Filter10.v, model in
   Model/Filter.v, matrix algebra in Base/Mat.v.

   Oracles and their contracts (hypotheses, never axioms):
     pinv_ok m pinv       torch.linalg.pinv is the inverse on symmetric positive definite m x m input
     cholesky_ok n msqrt  UKF.msqrt (default torch.linalg.cholesky): lower triangular, positive
                          diagonal, L L^T = M on SPD input
     factor_ok n msqrt    only L L^T = M  (implied by cholesky_ok; what the positive UKF theorems need)
   The user's system is an arbitrary record (f, h, Jacobians A, C at the reference point).

   The model is the code after the repairs 8375f2f (EKF), 7981b02 (UKF), b057b94 (PF):
     PROVED   EKF = Kalman filter on every linear system, every dimension
     PROVED   EKF = the five documented equations on every (nonlinear) system
     PROVED   UKF = Kalman filter on every linear system, every dimension, every k > -n
              (also: predicted mean / covariance = Kalman prediction)
     PROVED   EKF covariance symmetric PSD; UKF covariance symmetric positive definite whenever the
              centre weight is non-negative (and the call returns); PF covariance symmetric PSD --
              every dimension, every nonlinear system, every run length
     PROVED   a run is the fold of the one-step map
     PROVED   EKF = the Kalman step of the affine system that linearises f at the prior mean and passes
              through (x, f(x,u)), (f(x,u), h(f(x,u),u)); positive definite Q gives a positive DEFINITE
              EKF covariance (one step and every run length)
     PROVED   on a linear system an EKF run and a UKF run (every k > -n) ARE the Kalman run, every length
     PROVED   the UKF condition "centre weight >= 0" is sharp (1-d witness, k = -1/2: predicted
              covariance -1)
     PROVED   PF.forward returns (no IndexError) for uniforms <= 1 and >= 1 particle, with a symmetric PSD
              (positive definite when Q is) covariance -- every system, every run length; its weights
              are the normalised Gaussian likelihoods at the observed propagated particles; resampling
              is the inverse-CDF rule (index i iff c_(i-1) < r <= c_i), keeps the particle count, is
              unbiased (integral over r of g(index) = sum_i q_i g(i)); the estimate is the mean of the
              resampled particles = the weighted mean with the empirical weights count_i / N; the
              particles are x + L eps_t with scatter L (eps^T eps) L^T, L L^T = n P
     PROVED   the oracle contracts are satisfiable in EVERY dimension (explicit Cholesky factor and
              inverse by recursion on the dimension)
     PROVED   the specification itself: the mean of [kf_update] is the UNIQUE minimiser of the negative log
              posterior (z-xm)^T Pm^-1 (z-xm) + (y-Cz-Du-c2)^T R^-1 (y-Cz-Du-c2) and its covariance is the
              inverse of the Hessian Pm^-1 + C^T R^-1 C (information form)
     PROVED   the Monte-Carlo rate of the RESAMPLING stage: over N independent uniform draws (N-fold iterated
              Riemann integral) the estimate PF.forward returns is unbiased for sum_i q_i xs_i and its variance
              is sigma^2 / N, conditional on the propagated particles and their weights
     PROVED   the UKF sigma points reproduce (x, P): weights sum to 1, weighted mean x, weighted covariance P
     NOT PROVED (tie only): the first stage of the PF (the N normal draws: convergence of sum_i q_i xs_i to the
              posterior mean of the documented particle model at the Monte-Carlo rate);
              the measure theory behind "Kalman = Bayes" (a Gaussian's mean is its mode, its covariance the
              inverse Hessian; the prediction step is the push-forward of a Gaussian)
   History (the [_old] definitions = the code before the repairs), kept as regression documentation:
     REFUTED  old EKF = KF / = documented recursion (innovation at the pre-transition state)
     REFUTED  old UKF = KF (1-d witness: Pxy paired two different sigma sets; 2-d witness: rows of
              the lower Cholesky factor)
     REFUTED  old PF weights = likelihood at the propagated particles (1-d witness: f(x) = -x; the old code
              weighted by the observation of the particles before the transition) *)
From Coq Require Import Reals List ZArith.
From Coquelicot Require Import Coquelicot.
From PV Require Import Base.Num Base.Mat Model.Filter Proofs.Filter Proofs.Filter2 Proofs.Filter3 Proofs.Filter4
  Proofs.Filter5 Proofs.Filter6 Proofs.Filter7 Proofs.Filter8 Proofs.Filter9 Proofs.Filter10.
Import ListNotations.
Local Open Scope R_scope.
#[local] Remove Hints NumQ NumZ : typeclass_instances.

(* ------------------------------------------------------------------ EKF *)
(* forall n m p pinv A B C D c1 c2 Q R x y u P, contracts, shapes, SPD Q R P ->
     ekf_forward pinv (lin_system A B C D c1 c2) Q R x y u P = kf_step pinv A B C D c1 c2 Q R x y u P *)
Theorem C13_ekf_linear_is_kf :
  forall (n m p : nat) (pinv : matR -> matR) (A B C D : matR) (c1 c2 : list R) (Q Rm : matR)
         (x y u : list R) (P : matR),
    pinv_ok m pinv -> wf n n A -> wf n p B -> wf m n C -> wf m p D -> length c1 = n -> length c2 = m ->
    SPD n Q -> SPD m Rm -> SPD n P -> length x = n -> length y = m -> length u = p ->
    ekf_forward pinv (lin_system A B C D c1 c2) Q Rm x y u P = kf_step pinv A B C D c1 c2 Q Rm x y u P.
Proof. exact ekf_linear_is_kf_holds. Qed.

(* nonlinear systems: the code is the documented recursion (linearisation at the prior mean, innovation
   at the predicted state), [ekf_documented] = the five equations of the docstring *)
Theorem C13_ekf_nonlinear_is_documented_recursion :
  forall (pinv : matR -> matR) (s : @system R) Q Rm x y u P,
  ekf_forward pinv s Q Rm x y u P = ekf_documented pinv s Q Rm x y u P.
Proof. exact ekf_nonlinear_is_documented_recursion. Qed.

(* the same with only the shapes that are needed (no definiteness, no contract on pinv) *)
Theorem C13_ekf_linear_is_kf_shapes_only :
  forall (pinv : matR -> matR) (A B C D : matR) (c1 c2 : list R) (Q Rm : matR) (x y u : list R) (P : matR) (n : nat),
  wf n n A -> wf n n P ->
  ekf_forward pinv (lin_system A B C D c1 c2) Q Rm x y u P = kf_step pinv A B C D c1 c2 Q Rm x y u P.
Proof. exact ekf_documented_linear_is_kf. Qed.

(* "EKF = that recursion applied to the linearisation at the prior mean, innovation at the predicted state":
   EKF.forward on ANY system IS the Kalman step of the affine system with Jacobians A = sA(x,u), C = sC(x,u)
   (both at the prior mean: where the code sets the reference point) whose transition passes through
   (x, f(x,u)) and whose observation passes through (f(x,u), h(f(x,u),u)); B, D arbitrary *)
Theorem C13_ekf_is_kf_of_linearisation :
  forall (pinv : matR -> matR) (n m : nat) (s : @system R) (B D Q Rm : matR) (x y u : list R) (P : matR),
  length x = n -> wf n n (sA s x u) -> wf m n (sC s x u) -> wf n n P ->
  length (sf s x u) = n -> length (sh s (sf s x u) u) = m ->
  let A := sA s x u in let C := sC s x u in
  let xm := sf s x u in
  let c1 := lin_offset A B xm x u in                (* xm - (A x + B u) *)
  let c2 := lin_offset C D (sh s xm u) xm u in      (* h(xm,u) - (C xm + D u) *)
  ekf_forward pinv s Q Rm x y u P = kf_step pinv A B C D c1 c2 Q Rm x y u P.
Proof. exact ekf_is_kf_of_linearisation. Qed.

(* covariance validity: every dimension, every system (A, C arbitrary well-formed matrices) *)
Theorem C13_ekf_cov_symmetric_psd :
  forall (pinv : matR -> matR) (n m : nat) (s : @system R) (Q Rm : matR) (x y u : list R) (P : matR) (at_pred : bool),
  pinv_ok m pinv ->
  wf n n (sA s x u) -> wf m n (sC s x u) ->
  wf n n P -> wf n n Q -> wf m m Rm -> msym P -> msym Q -> msym Rm -> PSD n P -> PSD n Q -> PD m Rm ->
  let P' := snd (ekf_forward_gen pinv at_pred s Q Rm x y u P) in
  wf n n P' /\ msym P' /\ PSD n P'.
Proof. exact ekf_cov_symmetric_psd. Qed.

(* positive definite process noise: the covariance is symmetric positive DEFINITE (P only PSD) *)
Theorem C13_ekf_cov_symmetric_pd :
  forall (pinv : matR -> matR) (n m : nat) (s : @system R) (Q Rm : matR) (x y u : list R) (P : matR) (at_pred : bool),
  pinv_ok m pinv ->
  wf n n (sA s x u) -> wf m n (sC s x u) ->
  wf n n P -> msym P -> PSD n P -> SPD n Q -> SPD m Rm ->
  SPD n (snd (ekf_forward_gen pinv at_pred s Q Rm x y u P)).
Proof. exact ekf_cov_spd. Qed.

(* ------------------------------------------------------------------ UKF *)
Theorem C13_ukf_linear_is_kf :
  forall (n m p : nat) (pinv msqrt : matR -> matR) (A B C D : matR) (c1 c2 : list R) (Q Rm : matR)
         (x y u : list R) (P : matR) (k : R),
    pinv_ok m pinv -> cholesky_ok n msqrt ->
    wf n n A -> wf n p B -> wf m n C -> wf m p D -> length c1 = n -> length c2 = m ->
    SPD n Q -> SPD m Rm -> SPD n P -> length x = n -> length y = m -> length u = p ->
    - IZR (Z.of_nat n) < k ->
    ukf_forward pinv msqrt (lin_system A B C D c1 c2) Q Rm x y u P k =
    Some (kf_step pinv A B C D c1 c2 Q Rm x y u P).
Proof. exact ukf_linear_is_kf_holds. Qed.

(* the same for ANY factor oracle with L L^T = M (user-supplied msqrt) *)
Theorem C13_ukf_linear_is_kf_any_factor :
  forall (n m p : nat) (pinv msqrt : matR -> matR) (A B C D : matR) (c1 c2 : list R)
         (Q Rm : matR) (x y u : list R) (P : matR) (k : R),
  pinv_ok m pinv -> factor_ok n msqrt ->
  wf n n A -> wf n p B -> wf m n C -> wf m p D -> length c1 = n -> length c2 = m ->
  SPD n Q -> SPD m Rm -> SPD n P -> length x = n -> length u = p ->
  0 < IZR (Z.of_nat n) + k ->
  ukf_forward_gen pinv msqrt true true (lin_system A B C D c1 c2) Q Rm x y u P k =
  Some (kf_step pinv A B C D c1 c2 Q Rm x y u P).
Proof. exact ukf_repaired_linear_is_kf. Qed.

(* predicted mean and covariance (first half of forward) = Kalman prediction *)
Theorem C13_ukf_predict_linear_is_kf_predict :
  forall (n m p : nat) (msqrt : matR -> matR) (A B C D : matR) (c1 c2 : list R) (Q : matR)
         (x u : list R) (P : matR) (k : R),
    cholesky_ok n msqrt -> wf n n A -> wf n p B -> wf m n C -> wf m p D -> length c1 = n -> length c2 = m ->
    SPD n Q -> SPD n P -> length x = n -> length u = p -> - IZR (Z.of_nat n) < k ->
    ukf_predict msqrt (lin_system A B C D c1 c2) Q x u P k = Some (kf_predict A B c1 Q x u P).
Proof. exact ukf_predict_linear_is_kf_predict_holds. Qed.

(* the sigma points of sigma_weight_points reproduce the moments they are built from: 2n+1 points and weights,
   weights sum to 1, weighted mean = x, weighted covariance about x = P; every k > -n, any factor oracle *)
Theorem C13_ukf_sigma_points_reproduce_moments :
  forall (msqrt : matR -> matR) (n : nat) (x : list R) (P : matR) (k : R),
  factor_ok n msqrt -> (0 < n)%nat -> SPD n P -> length x = n -> 0 < IZR (Z.of_nat n) + k ->
  exists pts w, sigma_points_gen msqrt true x P k = Some (pts, w) /\
    length pts = S (n + n) /\ length w = S (n + n) /\
    sumn (S (n + n)) (vget w) = 1 /\
    wsum_rows w pts = x /\
    wcov (dev_rows x pts) (dev_rows x pts) w None = P.
Proof. exact ukf_sigma_points_reproduce_moments. Qed.

(* covariance validity whenever the centre weight k/(n+k) is non-negative: every dimension, every
   (nonlinear) system; the call returns (no assert fails) and the result is symmetric positive definite *)
Theorem C13_ukf_cov_symmetric_pd :
  forall (pinv msqrt : matR -> matR) (n m : nat),
  pinv_ok m pinv -> factor_ok n msqrt -> (0 < n)%nat -> (0 < m)%nat ->
  forall (s : @system R) (u : list R),
  (forall p, length p = n -> length (sf s p u) = n) -> (forall p, length p = n -> length (sh s p u) = m) ->
  forall Q Rm : matR, SPD n Q -> SPD m Rm ->
  forall (x y : list R) (P : matR) (k : R),
  SPD n P -> length x = n -> 0 <= k -> 0 < IZR (Z.of_nat n) + k ->
  exists x' P', ukf_forward pinv msqrt s Q Rm x y u P k = Some (x', P') /\ length x' = n /\ SPD n P'.
Proof. exact ukf_cov_spd. Qed.

(* on LINEAR systems the UKF covariance is symmetric positive definite for EVERY k > -n (negative centre
   weights included), and the call returns *)
Theorem C13_ukf_linear_cov_spd_any_k :
  forall (n m p : nat) (pinv msqrt : matR -> matR) (A B C D : matR) (c1 c2 : list R)
         (Q Rm : matR) (x y u : list R) (P : matR) (k : R),
  pinv_ok m pinv -> factor_ok n msqrt ->
  wf n n A -> wf n p B -> wf m n C -> wf m p D -> length c1 = n -> length c2 = m ->
  SPD n Q -> SPD m Rm -> SPD n P -> length x = n -> length u = p ->
  0 < IZR (Z.of_nat n) + k ->
  exists x' P', ukf_forward pinv msqrt (lin_system A B C D c1 c2) Q Rm x y u P k = Some (x', P') /\
                length x' = n /\ SPD n P'.
Proof. exact ukf_linear_cov_spd_any_k. Qed.

(* the condition "centre weight non-negative" is sharp: n = 1, k = -1/2 (> -n, centre weight -1), f(x) = x^2,
   x = 0, P = 2, Q = 1: the predicted covariance handed to the second sigma_weight_points is -1
   (torch.linalg.cholesky raises there) *)
Theorem C13_ukf_negative_centre_weight_cov_refuted :
  exists (s : @system R) (Q P : matR) (x u : list R) (k : R),
    SPD 1 Q /\ SPD 1 P /\ length x = 1%nat /\ - 1 < k < 0 /\
    (forall p u, length p = 1%nat -> length (sf s p u) = 1%nat) /\
    forall msqrt, cholesky_ok 1 msqrt ->
      exists xe Pm, ukf_predict msqrt s Q x u P k = Some (xe, Pm) /\ ~ PSD 1 Pm.
Proof. exact ukf_negative_centre_weight_cov_refuted. Qed.
Theorem C13_ukf_negative_centre_weight_witness :
  forall msqrt, cholesky_ok 1 msqrt ->
  ukf_predict msqrt sq_system [[1]] [0] [0] [[2]] (-1/2) = Some ([2], [[-1]]).
Proof. exact ukf_negative_centre_weight_witness. Qed.

(* ------------------------------------------------------------------ PF *)
Theorem C13_pf_cov_symmetric_psd :
  forall n (q : list R) (xs : matR) (r : list R) (Q : matR) x' P',
  (forall p, In p xs -> length p = n) -> (0 < n)%nat -> r <> [] ->
  wf n n Q -> msym Q -> PSD n Q ->
  pf_estimate q xs r Q = Some (x', P') -> wf n n P' /\ msym P' /\ PSD n P'.
Proof. exact pf_estimate_cov_valid. Qed.

(* importance weights: positive, sum to one, independent of the normalising constant of log_prob *)
Theorem C13_pf_weights_normalised :
  forall l : list R, l <> [] ->
  (forall a, In a (softmax l) -> 0 < a) /\ fold_left add (softmax l) zero = 1.
Proof. exact softmax_positive_sums_to_one. Qed.
Theorem C13_pf_lognorm_irrelevant :
  forall (pinv msqrt : matR -> matR) (ln1 ln2 : matR -> R) (s : @system R) Q Rm x y u P eps r,
  pf_forward pinv msqrt ln1 s Q Rm x y u P eps r = pf_forward pinv msqrt ln2 s Q Rm x y u P eps r.
Proof. intros. exact (pf_forward_lognorm_irrelevant pinv msqrt ln1 ln2 true s Q Rm x y u P eps r). Qed.

(* PF.forward itself: >= 1 particle (eps, r non-empty), uniforms <= 1 (torch.rand draws from [0,1)), f keeps the
   state dimension.  The call returns (no index reaches the particle count), the estimate has the state
   dimension, the covariance is symmetric PSD, and positive definite when Q is.  Nothing is assumed of
   pinv, msqrt, R, P (the real Cholesky needs P positive definite: that is what a run feeds back). *)
Theorem C13_pf_forward_returns_valid :
  forall (pinv msqrt : matR -> matR) (lognorm : matR -> R) (n : nat), (0 < n)%nat ->
  forall (s : @system R) (Q Rm : matR), wf n n Q -> msym Q -> PSD n Q ->
  forall (x y u : list R) (P eps : matR) (r : list R),
  length x = n -> (forall p, length p = n -> length (sf s p u) = n) ->
  eps <> [] -> r <> [] -> (forall ri, In ri r -> ri <= 1) ->
  exists x' P', pf_forward pinv msqrt lognorm s Q Rm x y u P eps r = Some (x', P') /\
                length x' = n /\ wf n n P' /\ msym P' /\ PSD n P' /\ (PD n Q -> SPD n P').
Proof. exact pf_forward_returns_valid. Qed.

(* the weights PF.forward resamples with are the Gaussian likelihoods of y at the observed PROPAGATED
   particles, normalised:  q_i = exp(-1/2 d_i^T pinv(R) d_i) / sum_j exp(-1/2 d_j^T pinv(R) d_j),
   d_i = y - h(f(xp_i, u), u)   ([gauss_kernel Ri y yi] = exp (- (1/2) * qform Ri (vminus y yi))) *)
Theorem C13_pf_weights_are_normalised_likelihoods :
  forall (pinv msqrt : matR -> matR) (lognorm : matR -> R) (s : @system R) (Q Rm : matR)
         (x y u : list R) (P : matR) (eps : matR) (r : list R),
  let xs := map (fun p => sf s p u) (pf_particles msqrt x P eps) in
  let ye := map (fun p => sh s p u) xs in
  let q := map (fun yi => gauss_kernel (pinv Rm) y yi / fold_left add (map (gauss_kernel (pinv Rm) y) ye) 0) ye in
  pf_forward pinv msqrt lognorm s Q Rm x y u P eps r = pf_estimate q xs r Q.
Proof. exact pf_forward_weights. Qed.

(* resampling is the inverse-CDF rule: for non-negative weights, torch.searchsorted(cumsum q, r) = i exactly when
   q_0 + .. + q_(i-1) < r <= q_0 + .. + q_i  (no lower condition for i = 0);  [psum q i] = q_0 + .. + q_(i-1) *)
Theorem C13_pf_resampling_rule :
  forall (q : list R) (r : R) (i : nat), (forall b, In b q -> 0 <= b) -> (i < length q)%nat ->
  (searchsorted (cumsum q) r = i <-> (i = 0%nat \/ psum q i < r) /\ r <= psum q (S i)).
Proof. exact searchsorted_cumsum_spec. Qed.

(* resampling is unbiased: for r uniform on [0, total weight] and ANY function g of the selected index,
   E[g(index)] = sum_i q_i g(i); particle i is selected with probability q_i; with the weights of PF.forward
   (a softmax: total 1) the expected resampled particle is the weighted mean sum_i q_i xs_i *)
Theorem C13_pf_resampling_unbiased :
  (forall (q : list R) (g : nat -> R), (forall b, In b q -> 0 <= b) ->
     is_RInt (fun r => g (searchsorted (cumsum q) r)) 0 (fold_left add q 0)
             (sumn (length q) (fun i => vget q i * g i))) /\
  (forall (q : list R) (i : nat), (forall b, In b q -> 0 <= b) -> (i < length q)%nat ->
     is_RInt (fun r => if Nat.eqb (searchsorted (cumsum q) r) i then 1 else 0) 0 (fold_left add q 0) (vget q i)) /\
  (forall (l : list R) (xs : matR) (j : nat), l <> [] ->
     is_RInt (fun r => mget xs (searchsorted (cumsum (softmax l)) r) j) 0 1
             (sumn (length l) (fun i => vget (softmax l) i * mget xs i j))).
Proof.
  split; [exact resample_expectation | split; [exact resample_probability | exact resample_expected_particle]].
Qed.

(* the Monte-Carlo rate of the resampling stage.  [isEN N F v]: the N-fold iterated Riemann integral of F over
   [0,1]^N (the expectation over N independent uniform draws) exists and equals v (unique: isEN_unique);
   [pf_estimate_component q xs Q j l] = component j of the estimate pf_estimate returns for the uniforms l.
   For non-negative weights of total 1 (PF.forward: a softmax) the estimate is unbiased for the weighted mean
   mu = sum_i q_i xs_i[j] and its variance is sigma^2 / N, sigma^2 = sum_i q_i (xs_i[j] - mu)^2 *)
Theorem C13_pf_estimate_mc_rate :
  forall n (q : list R) (xs Q : matR) (j N : nat),
  (forall b, In b q -> 0 <= b) -> fold_left add q 0 = 1 -> q <> [] -> length q = length xs ->
  (forall p, In p xs -> length p = n) -> (0 < n)%nat -> wf n n Q -> (j < n)%nat -> (0 < N)%nat ->
  let mu := sumn (length q) (fun i => vget q i * mget xs i j) in
  let var := sumn (length q) (fun i => vget q i * ((mget xs i j - mu) * (mget xs i j - mu))) in
  isEN N (pf_estimate_component q xs Q j) mu /\
  isEN N (fun l => (pf_estimate_component q xs Q j l - mu) * (pf_estimate_component q xs Q j l - mu)) (var / INR N).
Proof. exact pf_estimate_mc_rate. Qed.
Theorem C13_pf_expectation_well_defined :
  forall N F v1 v2, isEN N F v1 -> isEN N F v2 -> v1 = v2.
Proof. exact isEN_unique. Qed.

(* what pf_estimate returns: resampling keeps the particle count N = number of uniforms and returns existing
   particles only; the estimate is the mean of the resampled particles, i.e. the weighted mean of ALL
   propagated particles with the empirical weights count_i / N (which sum to 1); the covariance is
   Q + the mean outer product of the deviations from the estimate *)
Theorem C13_pf_estimate_is_weighted_mean :
  forall n (q : list R) (xs : matR) (r : list R) (Q : matR) x' P',
  (forall p, In p xs -> length p = n) -> (0 < n)%nat -> r <> [] -> wf n n Q ->
  pf_estimate q xs r Q = Some (x', P') ->
  let N := length r in
  let idx := map (searchsorted (cumsum q)) r in
  let xr := map (fun i => nth i xs []) idx in
  let cnt := fun i => INR (count_occ Nat.eq_dec idx i) in
  length xr = N /\ (forall p, In p xr -> In p xs) /\
  (forall j, (j < n)%nat -> vget x' j = 1 / INR N * sumn N (fun t => mget xr t j)) /\
  (forall j, (j < n)%nat -> vget x' j = sumn (length xs) (fun i => cnt i / INR N * mget xs i j)) /\
  sumn (length xs) (fun i => cnt i / INR N) = 1 /\
  (forall a b, (a < n)%nat -> (b < n)%nat ->
     mget P' a b = mget Q a b + 1 / INR N * sumn N (fun t => (mget xr t a - vget x' a) * (mget xr t b - vget x' b))).
Proof. exact pf_estimate_spec. Qed.

(* generate_particles: the particles are x + L eps_t with L L^T = n P (any factor oracle): their deviations from
   x are eps L^T, their scatter L (eps^T eps) L^T; draws with eps^T eps = c I give the scatter c n P, i.e.
   the documented prior N(x, nP) *)
Theorem C13_pf_particles_prior :
  forall (msqrt : matR -> matR) (n N : nat), factor_ok n msqrt ->
  forall (x : list R) (P eps : matR), length x = n -> SPD n P -> wf N n eps ->
  let L := msqrt (mscale (ofnat n) P) in
  let D := map (fun p => vminus p x) (pf_particles msqrt x P eps) in
  mmul L (mtr L) = mscale (ofnat n) P /\
  D = mmul eps (mtr L) /\
  mmul (mtr D) D = mmul (mmul L (mmul (mtr eps) eps)) (mtr L) /\
  (forall c, mmul (mtr eps) eps = mscale c (mid n) -> mmul (mtr D) D = mscale (c * ofnat n) P).
Proof.
  intros msqrt n N Hs x P eps Hx HP He. cbv zeta.
  split; [exact (proj2 (part_L msqrt n Hs P HP))|].
  split; [exact (particle_deviations msqrt n N Hs x P eps Hx HP He)|].
  split; [exact (particle_scatter msqrt n N Hs x P eps Hx HP He)|].
  exact (particle_scatter_identity msqrt n N Hs x P eps Hx HP He).
Qed.

(* ------------------------------------------------------------------ runs *)
Theorem C13_run_is_fold :
  (forall (pinv : matR -> matR) (s : @system R) Q Rm st l1 l2,
     ekf_run pinv s Q Rm st (l1 ++ l2) = ekf_run pinv s Q Rm (ekf_run pinv s Q Rm st l1) l2) /\
  (forall (pinv : matR -> matR) (s : @system R) Q Rm st yu l,
     ekf_run pinv s Q Rm st (yu :: l) =
     ekf_run pinv s Q Rm (ekf_forward pinv s Q Rm (fst st) (fst yu) (snd yu) (snd st)) l) /\
  (forall (pinv msqrt : matR -> matR) (s : @system R) Q Rm k st l1 l2,
     ukf_run pinv msqrt s Q Rm k st (l1 ++ l2) = ukf_run pinv msqrt s Q Rm k (ukf_run pinv msqrt s Q Rm k st l1) l2).
Proof. split; [exact ekf_run_app | split; [exact ekf_run_cons | exact ukf_run_app]]. Qed.

Theorem C13_ekf_run_cov_valid :
  forall (pinv : matR -> matR) n m (s : @system R) Q Rm,
  pinv_ok m pinv ->
  (forall x u, wf n n (sA s x u)) -> (forall x u, wf m n (sC s x u)) ->
  wf n n Q -> wf m m Rm -> msym Q -> msym Rm -> PSD n Q -> PD m Rm ->
  forall steps x P, wf n n P -> msym P -> PSD n P ->
  let P' := snd (ekf_run pinv s Q Rm (x, P) steps) in wf n n P' /\ msym P' /\ PSD n P'.
Proof. exact ekf_run_cov_valid. Qed.

Theorem C13_ukf_run_cov_valid :
  forall (pinv msqrt : matR -> matR) n m (s : @system R) Q Rm k,
  pinv_ok m pinv -> factor_ok n msqrt -> (0 < n)%nat -> (0 < m)%nat ->
  (forall p u, length p = n -> length (sf s p u) = n) -> (forall p u, length p = n -> length (sh s p u) = m) ->
  SPD n Q -> SPD m Rm -> 0 <= k -> 0 < IZR (Z.of_nat n) + k ->
  forall steps x P, SPD n P -> length x = n ->
  exists x' P', ukf_run pinv msqrt s Q Rm k (Some (x, P)) steps = Some (x', P') /\ length x' = n /\ SPD n P'.
Proof. exact ukf_run_cov_valid. Qed.

(* positive definite Q: the EKF covariance stays symmetric positive DEFINITE along every run *)
Theorem C13_ekf_run_cov_spd :
  forall (pinv : matR -> matR) n m (s : @system R) Q Rm,
  pinv_ok m pinv ->
  (forall x u, wf n n (sA s x u)) -> (forall x u, wf m n (sC s x u)) ->
  SPD n Q -> SPD m Rm ->
  forall steps x P, SPD n P -> SPD n (snd (ekf_run pinv s Q Rm (x, P) steps)).
Proof. exact ekf_run_cov_spd. Qed.

(* histories on linear systems: [kf_run] = the fold of [kf_step].  One Kalman step keeps (length x = n, P SPD);
   an EKF run IS the Kalman run, a UKF run (every k > -n, any factor oracle) IS the Kalman run -- every length *)
Theorem C13_kf_step_invariant :
  forall (pinv : matR -> matR) (n m p : nat) (A B C D : matR) (c1 c2 : list R) (Q Rm : matR) (x y u : list R) (P : matR),
  pinv_ok m pinv -> wf n n A -> wf m n C -> SPD n Q -> SPD m Rm -> SPD n P ->
  length (fst (kf_step pinv A B C D c1 c2 Q Rm x y u P)) = n /\
  SPD n (snd (kf_step pinv A B C D c1 c2 Q Rm x y u P)).
Proof. exact kf_step_invariant. Qed.

Theorem C13_ekf_run_linear_is_kf_run :
  forall (pinv : matR -> matR) (n m : nat) (A B C D : matR) (c1 c2 : list R) (Q Rm : matR),
  pinv_ok m pinv -> wf n n A -> wf m n C -> SPD n Q -> SPD m Rm ->
  forall steps x P, SPD n P ->
  ekf_run pinv (lin_system A B C D c1 c2) Q Rm (x, P) steps = kf_run pinv A B C D c1 c2 Q Rm (x, P) steps.
Proof. exact ekf_run_linear_is_kf_run. Qed.

Theorem C13_ukf_run_linear_is_kf_run :
  forall (pinv msqrt : matR -> matR) (n m p : nat) (A B C D : matR) (c1 c2 : list R) (Q Rm : matR) (k : R),
  pinv_ok m pinv -> factor_ok n msqrt ->
  wf n n A -> wf n p B -> wf m n C -> wf m p D -> length c1 = n -> length c2 = m ->
  SPD n Q -> SPD m Rm -> 0 < IZR (Z.of_nat n) + k ->
  forall steps x P, SPD n P -> length x = n -> Forall (fun yu => length (snd yu) = p) steps ->
  ukf_run pinv msqrt (lin_system A B C D c1 c2) Q Rm k (Some (x, P)) steps =
  Some (kf_run pinv A B C D c1 c2 Q Rm (x, P) steps).
Proof. exact ukf_run_linear_is_kf_run. Qed.

Theorem C13_ekf_ukf_runs_agree_linear :
  forall (pinv msqrt : matR -> matR) (n m p : nat) (A B C D : matR) (c1 c2 : list R) (Q Rm : matR) (k : R),
  pinv_ok m pinv -> factor_ok n msqrt ->
  wf n n A -> wf n p B -> wf m n C -> wf m p D -> length c1 = n -> length c2 = m ->
  SPD n Q -> SPD m Rm -> 0 < IZR (Z.of_nat n) + k ->
  forall steps x P, SPD n P -> length x = n -> Forall (fun yu => length (snd yu) = p) steps ->
  ukf_run pinv msqrt (lin_system A B C D c1 c2) Q Rm k (Some (x, P)) steps =
  Some (ekf_run pinv (lin_system A B C D c1 c2) Q Rm (x, P) steps).
Proof. exact ekf_ukf_runs_agree_linear. Qed.

(* particle-filter runs ([pf_run] = the fold of pf_forward over (y, u, normal draws, uniform draws);
   [pf_input_ok] = >= 1 particle, uniforms <= 1): every run of any length returns, and the covariance stays
   symmetric positive definite (so the next MultivariateNormal(x, nP) is well defined) *)
Theorem C13_pf_run_cov_valid :
  forall (pinv msqrt : matR -> matR) (lognorm : matR -> R) n (s : @system R) (Q Rm : matR),
  (0 < n)%nat -> (forall p u, length p = n -> length (sf s p u) = n) -> SPD n Q ->
  forall steps x P, length x = n -> SPD n P -> Forall pf_input_ok steps ->
  exists x' P', pf_run pinv msqrt lognorm s Q Rm (Some (x, P)) steps = Some (x', P') /\ length x' = n /\ SPD n P'.
Proof. exact pf_run_cov_valid. Qed.

(* ------------------------------------------------------------------ the specification [kf_update] *)
(* [map_cost Pmi Ri C D c2 xm y u z] = (z - xm)^T Pmi (z - xm) + (y - (C z + D u + c2))^T Ri (y - (C z + D u + c2)):
   the negative log posterior of the linear-Gaussian model (up to constants).  The mean returned by kf_update
   is its unique minimiser and the covariance is the inverse Hessian ([pinvn] = any inverse oracle for n x n) *)
Theorem C13_kf_update_is_map_estimate :
  forall (pinv pinvn : matR -> matR) (n m p : nat) (Pm C D Rm : matR) (c2 xm y u : list R),
  pinv_ok m pinv -> pinv_ok n pinvn -> SPD n Pm -> wf m n C -> wf m p D -> length c2 = m -> SPD m Rm ->
  length xm = n -> length y = m -> length u = p ->
  let x' := fst (kf_update pinv C D c2 Rm xm Pm u y) in
  let P' := snd (kf_update pinv C D c2 Rm xm Pm u y) in
  let J := map_cost (pinvn Pm) (pinv Rm) C D c2 xm y u in
  length x' = n /\
  (forall z, length z = n -> J x' <= J z) /\
  (forall z, length z = n -> J z = J x' -> z = x') /\
  mmul P' (madd (pinvn Pm) (mmul (mmul (mtr C) (pinv Rm)) C)) = mid n.
Proof. exact kf_update_is_map. Qed.

(* ------------------------------------------------------------------ history: the code before the repairs *)
(* old EKF (innovation at the pre-transition state): n = 2, m = 1, A = [[1,1],[0,1]], B = [[0],[1]],
   C = [[1,0]], D = 0, Q = [[1,1/2],[1/2,1]], R = [[1]], P = [[2,1],[1,2]], x = (1,1), u = 0, y = 0:
   old code (9/8, 9/16), Kalman filter (1/4, 1/8), for EVERY pinv satisfying the contract *)
Theorem C13_ekf_old_linear_is_kf_refuted : ~ ekf_old_linear_is_kf.
Proof. exact ekf_old_linear_is_kf_refuted. Qed.
Theorem C13_ekf_old_linear_witness :
  wf 2 2 AW /\ wf 2 1 BW /\ wf 1 2 CW /\ wf 1 1 DW /\ SPD 2 QW /\ SPD 1 RW /\ SPD 2 PW /\
  forall pinv, pinv_ok 1 pinv ->
    fst (ekf_forward_old pinv (lin_system AW BW CW DW c1W c2W) QW RW xW yW uW PW) = [9/8; 9/16] /\
    fst (kf_step pinv AW BW CW DW c1W c2W QW RW xW yW uW PW) = [1/4; 1/8].
Proof. exact ekf_old_linear_witness. Qed.
Theorem C13_ekf_old_is_documented_recursion_refuted : ~ ekf_old_is_documented_recursion.
Proof. exact ekf_old_is_documented_recursion_refuted. Qed.

(* old UKF, witness 1 (n = m = 1: isolates the mixed sigma sets): A = C = 1, B = D = 0, Q = 3, R = 1,
   P = 1, x = 0, u = 0, y = 1, k = 3: old code (2/5, 16/5), Kalman filter (4/5, 4/5) *)
Theorem C13_ukf_old_linear_is_kf_refuted : ~ ukf_old_linear_is_kf.
Proof. exact ukf_old_linear_is_kf_refuted. Qed.
Theorem C13_ukf_old_linear_witness :
  forall pinv msqrt, pinv_ok 1 pinv -> cholesky_ok 1 msqrt ->
  ukf_forward_old pinv msqrt (lin_system A1 B1 A1 B1 z1 z1) Q1 R1 z1 y1 z1 P1 3 = Some ([2/5], [[16/5]]) /\
  kf_step pinv A1 B1 A1 B1 z1 z1 Q1 R1 z1 y1 z1 P1 = ([4/5], [[4/5]]).
Proof. exact ukf_witness1_values. Qed.
(* old UKF, witness 2 (n = 2, non-diagonal P: rows of the lower Cholesky factor): A = I, B = 0,
   Q = [[1,1/2],[1/2,1]], P = [[1,1/2],[1/2,1/2]], k = 2: old predicted covariance
   [[9/4,3/4],[3/4,5/4]], Kalman P + Q = [[2,1],[1,3/2]] *)
Theorem C13_ukf_old_sigma_points_witness :
  forall msqrt, cholesky_ok 2 msqrt ->
  ukf_predict_old msqrt (lin_system I2 B2 I2 B2 z2 z2) Q2 z2 [0] P2 2 = Some ([0; 0], [[9/4; 3/4]; [3/4; 5/4]]) /\
  kf_predict I2 B2 z2 Q2 z2 [0] P2 = ([0; 0], [[2; 1]; [1; 3/2]]).
Proof. exact ukf_witness2_values. Qed.
Theorem C13_ukf_old_predict_linear_is_kf_predict_refuted : ~ ukf_old_predict_linear_is_kf_predict.
Proof. exact ukf_old_predict_linear_is_kf_predict_refuted. Qed.

(* old PF (before b057b94: the propagated particles weighted by the likelihood at the observation of the particles
   BEFORE the transition): f(x) = -x, h(x) = x, x = 0, P = Q = R = 1, y = 1, normal draws (1, -1), uniform draw 1/2:
   the code as it is returns the estimate 1 (the propagated particle that explains y), the old code -1;
   for every pinv / Cholesky oracle satisfying the contracts *)
Theorem C13_pf_old_witness :
  forall (pinv msqrt : matR -> matR) (lognorm : matR -> R), pinv_ok 1 pinv -> cholesky_ok 1 msqrt ->
  (exists P1, pf_forward pinv msqrt lognorm neg_system [[1]] [[1]] [0] [1] [0] [[1]] [[1]; [-1]] [1/2] = Some ([1], P1)) /\
  (exists P2, pf_forward_old pinv msqrt lognorm neg_system [[1]] [[1]] [0] [1] [0] [[1]] [[1]; [-1]] [1/2] = Some ([-1], P2)).
Proof. exact pf_old_witness. Qed.
Theorem C13_pf_old_weights_at_propagated_refuted :
  pf_weights_at_propagated_for (fun pinv msqrt ln => pf_forward pinv msqrt ln) /\
  ~ pf_weights_at_propagated_for (fun pinv msqrt ln => pf_forward_old pinv msqrt ln).
Proof. split; [exact pf_weights_at_propagated_holds | exact pf_old_weights_at_propagated_refuted]. Qed.

(* ------------------------------------------------------------------ the contracts are satisfiable *)
Example C13_pinv_contract_satisfiable : pinv_ok 1 (fun M => [[1 / mget M 0 0]]).
Proof. exact pinv_ok_1_satisfiable. Qed.
Example C13_cholesky_contract_satisfiable :
  cholesky_ok 1 (fun M => [[sqrt (mget M 0 0)]]) /\ cholesky_ok 2 chol2.
Proof. split; [exact cholesky_ok_1_satisfiable | exact cholesky_ok_2_satisfiable]. Qed.

Example C13_pinv_contract_satisfiable_2 : pinv_ok 2 inv2.
Proof. exact pinv_ok_2_satisfiable. Qed.
(* one concrete nonlinear instance (n = m = 2: f(p) = (p0 + p1^2, p1), h(p) = (p0 p1, p1)) satisfies every
   hypothesis of the covariance / run theorems above at once *)
Example C13_hypotheses_jointly_satisfiable :
  pinv_ok 2 inv2 /\ cholesky_ok 2 chol2 /\ factor_ok 2 chol2 /\
  (forall x u, wf 2 2 (sA nl2_system x u)) /\ (forall x u, wf 2 2 (sC nl2_system x u)) /\
  (forall p u, length p = 2%nat -> length (sf nl2_system p u) = 2%nat) /\
  (forall p u, length p = 2%nat -> length (sh nl2_system p u) = 2%nat) /\
  SPD 2 Q2 /\ SPD 2 I2 /\ SPD 2 P2 /\ 0 <= 1 /\ 0 < IZR (Z.of_nat 2) + 1 /\
  pf_input_ok ([0; 0], [0], [[1; 0]; [0; 1]], [1/2; 1/3]).
Proof. exact C13_hypotheses_satisfiable. Qed.

(* EVERY dimension: an explicit inverse [invR n] and an explicit lower Cholesky factor [cholR n] (recursion on the
   dimension through the Schur complement) satisfy the contracts, and the identity is SPD: no theorem above
   that assumes pinv_ok / cholesky_ok / factor_ok / SPD is vacuous in any dimension *)
Theorem C13_contracts_satisfiable_every_dimension :
  forall n, (0 < n)%nat ->
  pinv_ok n (invR n) /\ cholesky_ok n (cholR n) /\ factor_ok n (cholR n) /\ SPD n (mid n).
Proof.
  intros n Hn. split; [apply pinv_ok_all | split; [apply cholesky_ok_all | split; [apply factor_ok_all | now apply SPD_mid]]].
Qed.

(* the weight hypotheses of the PF theorems are exactly what a softmax provides; a concrete instance *)
Example C13_pf_weight_hypotheses_satisfiable :
  (forall l : list R, l <> [] ->
     (forall b, In b (softmax l) -> 0 <= b) /\ fold_left add (softmax l) 0 = 1 /\ softmax l <> [] /\
     length (softmax l) = length l) /\
  ((forall b, In b [1/2; 1/2] -> 0 <= b) /\ fold_left add [1/2; 1/2] 0 = 1 /\ [1/2; 1/2] <> [] /\
   length [1/2; 1/2] = length [[0]; [1]] /\ (forall p, In p [[0]; [1]] -> length p = 1%nat) /\ wf 1 1 [[1]]).
Proof. split; [exact softmax_weights_ok | exact mc_rate_hypotheses_satisfiable]. Qed.

Print Assumptions C13_ekf_linear_is_kf.
Print Assumptions C13_ekf_nonlinear_is_documented_recursion.
Print Assumptions C13_ekf_cov_symmetric_psd.
Print Assumptions C13_ukf_linear_is_kf.
Print Assumptions C13_ukf_linear_is_kf_any_factor.
Print Assumptions C13_ukf_predict_linear_is_kf_predict.
Print Assumptions C13_ukf_cov_symmetric_pd.
Print Assumptions C13_pf_cov_symmetric_psd.
Print Assumptions C13_pf_weights_normalised.
Print Assumptions C13_pf_lognorm_irrelevant.
Print Assumptions C13_run_is_fold.
Print Assumptions C13_ekf_run_cov_valid.
Print Assumptions C13_ukf_run_cov_valid.
Print Assumptions C13_ekf_old_linear_is_kf_refuted.
Print Assumptions C13_ekf_old_linear_witness.
Print Assumptions C13_ekf_old_is_documented_recursion_refuted.
Print Assumptions C13_ukf_old_linear_is_kf_refuted.
Print Assumptions C13_ukf_old_linear_witness.
Print Assumptions C13_ukf_old_sigma_points_witness.
Print Assumptions C13_ukf_old_predict_linear_is_kf_predict_refuted.
Print Assumptions C13_pinv_contract_satisfiable.
Print Assumptions C13_cholesky_contract_satisfiable.
Print Assumptions C13_ekf_linear_is_kf_shapes_only.
Print Assumptions C13_ekf_is_kf_of_linearisation.
Print Assumptions C13_ekf_cov_symmetric_pd.
Print Assumptions C13_ukf_negative_centre_weight_cov_refuted.
Print Assumptions C13_ukf_negative_centre_weight_witness.
Print Assumptions C13_pf_forward_returns_valid.
Print Assumptions C13_pf_weights_are_normalised_likelihoods.
Print Assumptions C13_pf_resampling_rule.
Print Assumptions C13_pf_resampling_unbiased.
Print Assumptions C13_pf_estimate_is_weighted_mean.
Print Assumptions C13_pf_particles_prior.
Print Assumptions C13_ekf_run_cov_spd.
Print Assumptions C13_kf_step_invariant.
Print Assumptions C13_ekf_run_linear_is_kf_run.
Print Assumptions C13_ukf_run_linear_is_kf_run.
Print Assumptions C13_ekf_ukf_runs_agree_linear.
Print Assumptions C13_pf_run_cov_valid.
Print Assumptions C13_pinv_contract_satisfiable_2.
Print Assumptions C13_hypotheses_jointly_satisfiable.
Print Assumptions C13_contracts_satisfiable_every_dimension.
Print Assumptions C13_ukf_linear_cov_spd_any_k.
Print Assumptions C13_kf_update_is_map_estimate.
Print Assumptions C13_ukf_sigma_points_reproduce_moments.
Print Assumptions C13_pf_estimate_mc_rate.
Print Assumptions C13_pf_expectation_well_defined.
Print Assumptions C13_pf_weight_hypotheses_satisfiable.
Print Assumptions C13_pf_old_witness.
Print Assumptions C13_pf_old_weights_at_propagated_refuted.
