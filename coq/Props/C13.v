(* C13 -- EKF / UKF = Kalman filter on linear-Gaussian systems; covariances valid.
   Statements only (over R, every dimension); proofs in Proofs/Filter.v, model in Model/Filter.v,
   matrix algebra in Base/Mat.v.

   Oracles and their contracts (hypotheses, never axioms):
     pinv_ok m pinv       torch.linalg.pinv is the inverse on symmetric positive definite m x m input
     cholesky_ok n msqrt  UKF.msqrt (default torch.linalg.cholesky): lower triangular, positive
                          diagonal, L L^T = M on SPD input
     factor_ok n msqrt    only L L^T = M  (implied by cholesky_ok; what the positive UKF theorems need)
   The user's system is an arbitrary record (f, h, Jacobians A, C at the reference point).

   The model is the code after the repairs 8375f2f (EKF), 7981b02 (UKF), b057b94 (PF):
     PROVED   EKF = Kalman filter on every linear system, every dimension
     PROVED   EKF = the five documented equations on every (nonlinear) system
     PROVED   UKF = Kalman filter on every linear system, every dimension, every k > -n
              (also: predicted mean / covariance = Kalman prediction)
     PROVED   EKF covariance symmetric PSD; UKF covariance symmetric positive definite whenever the
              centre weight is non-negative (and the call returns); PF covariance symmetric PSD --
              every dimension, every nonlinear system, every run length
     PROVED   a run is the fold of the one-step map
   History (the [_old] definitions = the code before the repairs), kept as regression documentation:
     REFUTED  old EKF = KF / = documented recursion (innovation at the pre-transition state)
     REFUTED  old UKF = KF (1-d witness: Pxy paired two different sigma sets; 2-d witness: rows of
              the lower Cholesky factor) *)
From Coq Require Import Reals List ZArith.
From PV Require Import Base.Num Base.Mat Model.Filter Proofs.Filter.
Import ListNotations.
Local Open Scope R_scope.
#[local] Remove Hints NumQ NumZ : typeclass_instances.

(* ------------------------------------------------------------------ EKF *)
(* forall n m p pinv A B C D c1 c2 Q R x y u P, contracts, shapes, SPD Q R P ->
     ekf_forward pinv (lin_system A B C D c1 c2) Q R x y u P = kf_step pinv A B C D c1 c2 Q R x y u P *)
Theorem C13_ekf_linear_is_kf :
  forall (n m p : nat) (pinv : matR -> matR) (A B C D : matR) (c1 c2 : list R) (Q Rm : matR)
         (x y u : list R) (P : matR),
    pinv_ok m pinv -> wf n n A -> wf n p B -> wf m n C -> wf m p D -> length c1 = n -> length c2 = m ->
    SPD n Q -> SPD m Rm -> SPD n P -> length x = n -> length y = m -> length u = p ->
    ekf_forward pinv (lin_system A B C D c1 c2) Q Rm x y u P = kf_step pinv A B C D c1 c2 Q Rm x y u P.
Proof. exact ekf_linear_is_kf_holds. Qed.

(* nonlinear systems: the code is the documented recursion (linearisation at the prior mean, innovation
   at the predicted state), [ekf_documented] = the five equations of the docstring *)
Theorem C13_ekf_nonlinear_is_documented_recursion :
  forall (pinv : matR -> matR) (s : @system R) Q Rm x y u P,
  ekf_forward pinv s Q Rm x y u P = ekf_documented pinv s Q Rm x y u P.
Proof. exact ekf_nonlinear_is_documented_recursion. Qed.

(* covariance validity: every dimension, every system (A, C arbitrary well-formed matrices) *)
Theorem C13_ekf_cov_symmetric_psd :
  forall (pinv : matR -> matR) (n m : nat) (s : @system R) (Q Rm : matR) (x y u : list R) (P : matR) (at_pred : bool),
  pinv_ok m pinv ->
  wf n n (sA s x u) -> wf m n (sC s x u) ->
  wf n n P -> wf n n Q -> wf m m Rm -> msym P -> msym Q -> msym Rm -> PSD n P -> PSD n Q -> PD m Rm ->
  let P' := snd (ekf_forward_gen pinv at_pred s Q Rm x y u P) in
  wf n n P' /\ msym P' /\ PSD n P'.
Proof. exact ekf_cov_symmetric_psd. Qed.

(* ------------------------------------------------------------------ UKF *)
Theorem C13_ukf_linear_is_kf :
  forall (n m p : nat) (pinv msqrt : matR -> matR) (A B C D : matR) (c1 c2 : list R) (Q Rm : matR)
         (x y u : list R) (P : matR) (k : R),
    pinv_ok m pinv -> cholesky_ok n msqrt ->
    wf n n A -> wf n p B -> wf m n C -> wf m p D -> length c1 = n -> length c2 = m ->
    SPD n Q -> SPD m Rm -> SPD n P -> length x = n -> length y = m -> length u = p ->
    - IZR (Z.of_nat n) < k ->
    ukf_forward pinv msqrt (lin_system A B C D c1 c2) Q Rm x y u P k =
    Some (kf_step pinv A B C D c1 c2 Q Rm x y u P).
Proof. exact ukf_linear_is_kf_holds. Qed.

(* the same for ANY factor oracle with L L^T = M (user-supplied msqrt) *)
Theorem C13_ukf_linear_is_kf_any_factor :
  forall (n m p : nat) (pinv msqrt : matR -> matR) (A B C D : matR) (c1 c2 : list R)
         (Q Rm : matR) (x y u : list R) (P : matR) (k : R),
  pinv_ok m pinv -> factor_ok n msqrt ->
  wf n n A -> wf n p B -> wf m n C -> wf m p D -> length c1 = n -> length c2 = m ->
  SPD n Q -> SPD m Rm -> SPD n P -> length x = n -> length u = p ->
  0 < IZR (Z.of_nat n) + k ->
  ukf_forward_gen pinv msqrt true true (lin_system A B C D c1 c2) Q Rm x y u P k =
  Some (kf_step pinv A B C D c1 c2 Q Rm x y u P).
Proof. exact ukf_repaired_linear_is_kf. Qed.

(* predicted mean and covariance (first half of forward) = Kalman prediction *)
Theorem C13_ukf_predict_linear_is_kf_predict :
  forall (n m p : nat) (msqrt : matR -> matR) (A B C D : matR) (c1 c2 : list R) (Q : matR)
         (x u : list R) (P : matR) (k : R),
    cholesky_ok n msqrt -> wf n n A -> wf n p B -> wf m n C -> wf m p D -> length c1 = n -> length c2 = m ->
    SPD n Q -> SPD n P -> length x = n -> length u = p -> - IZR (Z.of_nat n) < k ->
    ukf_predict msqrt (lin_system A B C D c1 c2) Q x u P k = Some (kf_predict A B c1 Q x u P).
Proof. exact ukf_predict_linear_is_kf_predict_holds. Qed.

(* covariance validity whenever the centre weight k/(n+k) is non-negative: every dimension, every
   (nonlinear) system; the call returns (no assert fails) and the result is symmetric positive definite *)
Theorem C13_ukf_cov_symmetric_pd :
  forall (pinv msqrt : matR -> matR) (n m : nat),
  pinv_ok m pinv -> factor_ok n msqrt -> (0 < n)%nat -> (0 < m)%nat ->
  forall (s : @system R) (u : list R),
  (forall p, length p = n -> length (sf s p u) = n) -> (forall p, length p = n -> length (sh s p u) = m) ->
  forall Q Rm : matR, SPD n Q -> SPD m Rm ->
  forall (x y : list R) (P : matR) (k : R),
  SPD n P -> length x = n -> 0 <= k -> 0 < IZR (Z.of_nat n) + k ->
  exists x' P', ukf_forward pinv msqrt s Q Rm x y u P k = Some (x', P') /\ length x' = n /\ SPD n P'.
Proof. exact ukf_cov_spd. Qed.

(* ------------------------------------------------------------------ PF *)
Theorem C13_pf_cov_symmetric_psd :
  forall n (q : list R) (xs : matR) (r : list R) (Q : matR) x' P',
  (forall p, In p xs -> length p = n) -> (0 < n)%nat -> r <> [] ->
  wf n n Q -> msym Q -> PSD n Q ->
  pf_estimate q xs r Q = Some (x', P') -> wf n n P' /\ msym P' /\ PSD n P'.
Proof. exact pf_estimate_cov_valid. Qed.

(* importance weights: positive, sum to one, independent of the normalising constant of log_prob *)
Theorem C13_pf_weights_normalised :
  forall l : list R, l <> [] ->
  (forall a, In a (softmax l) -> 0 < a) /\ fold_left add (softmax l) zero = 1.
Proof. exact softmax_positive_sums_to_one. Qed.
Theorem C13_pf_lognorm_irrelevant :
  forall (pinv msqrt : matR -> matR) (ln1 ln2 : matR -> R) (s : @system R) Q Rm x y u P eps r,
  pf_forward pinv msqrt ln1 s Q Rm x y u P eps r = pf_forward pinv msqrt ln2 s Q Rm x y u P eps r.
Proof. intros. exact (pf_forward_lognorm_irrelevant pinv msqrt ln1 ln2 true s Q Rm x y u P eps r). Qed.

(* ------------------------------------------------------------------ runs *)
Theorem C13_run_is_fold :
  (forall (pinv : matR -> matR) (s : @system R) Q Rm st l1 l2,
     ekf_run pinv s Q Rm st (l1 ++ l2) = ekf_run pinv s Q Rm (ekf_run pinv s Q Rm st l1) l2) /\
  (forall (pinv : matR -> matR) (s : @system R) Q Rm st yu l,
     ekf_run pinv s Q Rm st (yu :: l) =
     ekf_run pinv s Q Rm (ekf_forward pinv s Q Rm (fst st) (fst yu) (snd yu) (snd st)) l) /\
  (forall (pinv msqrt : matR -> matR) (s : @system R) Q Rm k st l1 l2,
     ukf_run pinv msqrt s Q Rm k st (l1 ++ l2) = ukf_run pinv msqrt s Q Rm k (ukf_run pinv msqrt s Q Rm k st l1) l2).
Proof. split; [exact ekf_run_app | split; [exact ekf_run_cons | exact ukf_run_app]]. Qed.

Theorem C13_ekf_run_cov_valid :
  forall (pinv : matR -> matR) n m (s : @system R) Q Rm,
  pinv_ok m pinv ->
  (forall x u, wf n n (sA s x u)) -> (forall x u, wf m n (sC s x u)) ->
  wf n n Q -> wf m m Rm -> msym Q -> msym Rm -> PSD n Q -> PD m Rm ->
  forall steps x P, wf n n P -> msym P -> PSD n P ->
  let P' := snd (ekf_run pinv s Q Rm (x, P) steps) in wf n n P' /\ msym P' /\ PSD n P'.
Proof. exact ekf_run_cov_valid. Qed.

Theorem C13_ukf_run_cov_valid :
  forall (pinv msqrt : matR -> matR) n m (s : @system R) Q Rm k,
  pinv_ok m pinv -> factor_ok n msqrt -> (0 < n)%nat -> (0 < m)%nat ->
  (forall p u, length p = n -> length (sf s p u) = n) -> (forall p u, length p = n -> length (sh s p u) = m) ->
  SPD n Q -> SPD m Rm -> 0 <= k -> 0 < IZR (Z.of_nat n) + k ->
  forall steps x P, SPD n P -> length x = n ->
  exists x' P', ukf_run pinv msqrt s Q Rm k (Some (x, P)) steps = Some (x', P') /\ length x' = n /\ SPD n P'.
Proof. exact ukf_run_cov_valid. Qed.

(* ------------------------------------------------------------------ history: the code before the repairs *)
(* old EKF (innovation at the pre-transition state): n = 2, m = 1, A = [[1,1],[0,1]], B = [[0],[1]],
   C = [[1,0]], D = 0, Q = [[1,1/2],[1/2,1]], R = [[1]], P = [[2,1],[1,2]], x = (1,1), u = 0, y = 0:
   old code (9/8, 9/16), Kalman filter (1/4, 1/8), for EVERY pinv satisfying the contract *)
Theorem C13_ekf_old_linear_is_kf_refuted : ~ ekf_old_linear_is_kf.
Proof. exact ekf_old_linear_is_kf_refuted. Qed.
Theorem C13_ekf_old_linear_witness :
  wf 2 2 AW /\ wf 2 1 BW /\ wf 1 2 CW /\ wf 1 1 DW /\ SPD 2 QW /\ SPD 1 RW /\ SPD 2 PW /\
  forall pinv, pinv_ok 1 pinv ->
    fst (ekf_forward_old pinv (lin_system AW BW CW DW c1W c2W) QW RW xW yW uW PW) = [9/8; 9/16] /\
    fst (kf_step pinv AW BW CW DW c1W c2W QW RW xW yW uW PW) = [1/4; 1/8].
Proof. exact ekf_old_linear_witness. Qed.
Theorem C13_ekf_old_is_documented_recursion_refuted : ~ ekf_old_is_documented_recursion.
Proof. exact ekf_old_is_documented_recursion_refuted. Qed.

(* old UKF, witness 1 (n = m = 1: isolates the mixed sigma sets): A = C = 1, B = D = 0, Q = 3, R = 1,
   P = 1, x = 0, u = 0, y = 1, k = 3: old code (2/5, 16/5), Kalman filter (4/5, 4/5) *)
Theorem C13_ukf_old_linear_is_kf_refuted : ~ ukf_old_linear_is_kf.
Proof. exact ukf_old_linear_is_kf_refuted. Qed.
Theorem C13_ukf_old_linear_witness :
  forall pinv msqrt, pinv_ok 1 pinv -> cholesky_ok 1 msqrt ->
  ukf_forward_old pinv msqrt (lin_system A1 B1 A1 B1 z1 z1) Q1 R1 z1 y1 z1 P1 3 = Some ([2/5], [[16/5]]) /\
  kf_step pinv A1 B1 A1 B1 z1 z1 Q1 R1 z1 y1 z1 P1 = ([4/5], [[4/5]]).
Proof. exact ukf_witness1_values. Qed.
(* old UKF, witness 2 (n = 2, non-diagonal P: rows of the lower Cholesky factor): A = I, B = 0,
   Q = [[1,1/2],[1/2,1]], P = [[1,1/2],[1/2,1/2]], k = 2: old predicted covariance
   [[9/4,3/4],[3/4,5/4]], Kalman P + Q = [[2,1],[1,3/2]] *)
Theorem C13_ukf_old_sigma_points_witness :
  forall msqrt, cholesky_ok 2 msqrt ->
  ukf_predict_old msqrt (lin_system I2 B2 I2 B2 z2 z2) Q2 z2 [0] P2 2 = Some ([0; 0], [[9/4; 3/4]; [3/4; 5/4]]) /\
  kf_predict I2 B2 z2 Q2 z2 [0] P2 = ([0; 0], [[2; 1]; [1; 3/2]]).
Proof. exact ukf_witness2_values. Qed.
Theorem C13_ukf_old_predict_linear_is_kf_predict_refuted : ~ ukf_old_predict_linear_is_kf_predict.
Proof. exact ukf_old_predict_linear_is_kf_predict_refuted. Qed.

(* ------------------------------------------------------------------ the contracts are satisfiable *)
Example C13_pinv_contract_satisfiable : pinv_ok 1 (fun M => [[1 / mget M 0 0]]).
Proof. exact pinv_ok_1_satisfiable. Qed.
Example C13_cholesky_contract_satisfiable :
  cholesky_ok 1 (fun M => [[sqrt (mget M 0 0)]]) /\ cholesky_ok 2 chol2.
Proof. split; [exact cholesky_ok_1_satisfiable | exact cholesky_ok_2_satisfiable]. Qed.

Print Assumptions C13_ekf_linear_is_kf.
Print Assumptions C13_ekf_nonlinear_is_documented_recursion.
Print Assumptions C13_ekf_cov_symmetric_psd.
Print Assumptions C13_ukf_linear_is_kf.
Print Assumptions C13_ukf_linear_is_kf_any_factor.
Print Assumptions C13_ukf_predict_linear_is_kf_predict.
Print Assumptions C13_ukf_cov_symmetric_pd.
Print Assumptions C13_pf_cov_symmetric_psd.
Print Assumptions C13_pf_weights_normalised.
Print Assumptions C13_pf_lognorm_irrelevant.
Print Assumptions C13_run_is_fold.
Print Assumptions C13_ekf_run_cov_valid.
Print Assumptions C13_ukf_run_cov_valid.
Print Assumptions C13_ekf_old_linear_is_kf_refuted.
Print Assumptions C13_ekf_old_linear_witness.
Print Assumptions C13_ekf_old_is_documented_recursion_refuted.
Print Assumptions C13_ukf_old_linear_is_kf_refuted.
Print Assumptions C13_ukf_old_linear_witness.
Print Assumptions C13_ukf_old_sigma_points_witness.
Print Assumptions C13_ukf_old_predict_linear_is_kf_predict_refuted.
Print Assumptions C13_pinv_contract_satisfiable.
Print Assumptions C13_cholesky_contract_satisfiable.
