(* C06 -- batching, broadcasting and views are transparent; pure operations never mutate their
   inputs; the patching done by retain_ltype / func.jacrev is undone on exit.
   Statements only; models in Model/Broadcast.v, Model/Patch.v; proofs in Proofs/Broadcast.v, Proofs/Patch.v. *)
From Coq Require Import String.
From Coq Require Import List Arith Bool PeanoNat ZArith QArith.
Import ListNotations.
From PV Require Import Base.Num Model.LieGroup Model.Broadcast Model.Patch Proofs.Broadcast Proofs.Patch.
Close Scope Q_scope.

(* ---------- 1. flatten-expand, item-wise kernel, un-flatten = the kernel at every multi-index ----------
   For ALL lshapes (any rank, any extents, 0 and rank 0 included) and any item-wise kernel [op]:
   if the lshapes broadcast (PyTorch rule) the result exists, has shape broadcast(lx, ly) ++ [dout],
   and its item at every multi-index i is op (x[bidx lx i]) (y[bidx ly i]) (both source indices in range);
   otherwise the operation raises. *)
Theorem C06_broadcast_inputs_spec :
  forall (A B C : Type) (dA : A) (dB : B) (dC : C) (op : A -> B -> C) (dout : nat) (x : tensor A) (y : tensor B),
  wf x -> wf y -> tdim x <> 0 -> tdim y <> 0 ->
  match broadcast_shapes (tshape x) (tshape y) with
  | Some o =>
      exists r, lie_binop dA dB op dout dout x y = Some r /\
        tshape r = o /\ tdim r = dout /\ wf r /\
        forall i, valid_idx o i ->
          valid_idx (tshape x) (bidx (tshape x) i) /\ valid_idx (tshape y) (bidx (tshape y) i) /\
          tget dC r i = op (tget dA x (bidx (tshape x) i)) (tget dB y (bidx (tshape y) i))
  | None => lie_binop dA dB op dout dout x y = None
  end.
Proof. intros A B C dA dB dC. exact (lie_binop_spec dA dB dC). Qed.

(* the operations as coded (fallback dimension X.shape[-1] / p.shape[-1] / a.shape[-1]), any number type *)
Theorem C06_mul_batched : forall (F : Type) (NF : Num F) g (x y : tensor (list F)),
  wf x -> wf y -> tdim x = gdim g -> tdim y <> 0 ->
  binop_spec [] [] [] (g_mul g) (gdim g) x y (lt_mul g x y).
Proof. intros F NF. exact lt_mul_spec. Qed.
Theorem C06_act_batched : forall (F : Type) (NF : Num F) g (x p : tensor (list F)),
  wf x -> wf p -> tdim x <> 0 ->
  (tdim p = 3 -> binop_spec [] [] [] (g_act g) 3 x p (lt_act g x p)) /\
  (tdim p = 4 -> binop_spec [] [] [] (g_act4 g) 4 x p (lt_act g x p)) /\
  (tdim p <> 3 -> tdim p <> 4 -> lt_act g x p = None).
Proof. intros F NF. exact lt_act_spec. Qed.
Theorem C06_adj_batched : forall (F : Type) (NF : Num F) g tr (x a : tensor (list F)),
  wf x -> wf a -> tdim x <> 0 -> tdim a = adim g ->
  binop_spec [] [] [] (g_adj g tr) (adim g) x a (lt_adj g tr x a).
Proof. intros F NF. exact lt_adj_spec. Qed.
(* unary operations (Inv, Exp, Log, rotation, translation, scale) and the one-argument broadcast_inputs *)
Theorem C06_unary_batched : forall (F : Type) (op : list F -> list F) dout (x : tensor (list F)), wf x ->
  let r := lie_unop op dout x in
  tshape r = tshape x /\ tdim r = dout /\ wf r /\
  forall i, valid_idx (tshape x) i -> tget [] r i = op (tget [] x i).
Proof. intros F. exact lt_unary_spec. Qed.
Theorem C06_broadcast_inputs_one_arg : forall (A : Type) (x : tensor A), tdim x <> 0 ->
  broadcast_inputs1 x = Some (titems x, tshape x).
Proof. exact @broadcast_inputs1_spec. Qed.

(* hypotheses are satisfiable, ranks 2 x 1 with a broadcast dimension, and the empty batch *)
Example C06_broadcast_example :
  bcast_map [2; 1] [3] = Some ([2; 3], [(0, 0); (0, 1); (0, 2); (1, 0); (1, 1); (1, 2)]) /\
  bcast_map [] [] = Some ([], [(0, 0)]) /\ bcast_map [0] [1] = Some ([0], []) /\ bcast_map [2] [3] = None /\
  wf (idx_tensor [2; 1]) /\ wf (idx_tensor [0]).
Proof. repeat split; reflexivity. Qed.

(* ---------- 2. LieTensor.__torch_function__ ---------- *)
(* handled name, lt = ltype of the first LieTensor among the flattened (positional, then keyword) arguments:
   every plain tensor of the result becomes a LieTensor of ltype lt (with a warning exactly when the last
   dimension is not the ltype's), everything else is returned as it is; not handled: nothing is wrapped;
   data None: None. *)
Theorem C06_wrap_decision : forall name,
  (handled name = true ->
     forall lt rest lts kws leaves, lts ++ kws = lt :: rest -> exists out warn,
        torch_function (Some name) (Some leaves) lts kws = TFData out warn /\
        length out = length leaves /\ length warn = length leaves /\
        forall n, n < length leaves ->
          match nth n leaves LOther with
          | LPlain shp => nth n out LOther = LLie (Some lt) shp /\
                          nth n warn false = negb (last_is shp (dimension lt))
          | l => nth n out LOther = l /\ nth n warn false = false
          end) /\
  (handled name = false ->
     forall leaves lts kws, torch_function (Some name) (Some leaves) lts kws = TFData leaves (map (fun _ => false) leaves)) /\
  (forall lts kws, torch_function (Some name) None lts kws = TFNone).
Proof. exact wrap_decision. Qed.
(* history (before fix 613c139): a handled function that received its LieTensors by keyword only raised *)
Theorem C06_wrap_kwargs_old_refuted :
  exists name leaves kws, kws <> [] /\ handled name = true /\
    torch_function_old (Some name) (Some leaves) [] kws = TFIndexError.
Proof. exists "index_select"%string, [LPlain [1; 4]], [SO3_t]. split; [discriminate|split; reflexivity]. Qed.

(* ---------- 3. retain_ltype ---------- *)
(* every behaviour of the wrapped body -- calls through the patched attributes, further retain_ltype contexts
   nested to any depth, normal return or an exception at any point -- from every state in which the three
   patched attributes exist: EVERY module attribute and EVERY __module__ is after exit what it was before
   entry, and the context raises exactly when its body does *)
Theorem C06_retain_ltype_restores : forall b s, sites_defined s ->
  let '(s', raised, _) := with_retain_ltype b s in
  (forall k, getattr s' k = getattr s k) /\ (forall f, fmod s' f = fmod s f) /\
  raised = snd (fst (run b (fst (enter s)))).
Proof. exact retain_ltype_restores. Qed.
Example C06_retain_ltype_states : sites_defined pristine.
Proof. exact pristine_defined. Qed.
(* history (before fix 084bc81): the __module__ rewrite of _add_batch_dim (first use) and the attributes named
   `wrapper` that a nested use left in torch._functorch.vmap and pypose.lietensor.lietensor *)
Theorem C06_retain_ltype_module_rewrite_old_refuted :
  exists ord b, let s' := fst (fst (with_retain_ltype_old ord b pristine)) in
  fmod s' (Orig S_add_batch) <> fmod pristine (Orig S_add_batch).
Proof. exists std_ord, BRet. destruct old_module_rewrite_persists as [A B]. simpl in *. rewrite A, B. discriminate. Qed.
Theorem C06_retain_ltype_nested_old_refuted :
  exists ord b k, let s' := fst (fst (with_retain_ltype_old ord b normal)) in getattr s' k <> getattr normal k.
Proof.
  exists std_ord, (BNest BRet BRet), (M_vmap, A_wrapper).
  destruct old_nested_leaks_attributes as (A & _ & B & _). simpl in *. rewrite A, B. discriminate.
Qed.

(* ---------- 4. no function without a trailing underscore writes into its arguments ---------- *)
(* the modelled functions return their arguments unchanged, whatever the kernels compute, for every loop
   count / option combination: binary ops (Mul, Act, Adj, AdjT, Jinvp), unary ops (Inv, Exp, Log), slices
   (rotation / translation / scale), Retr, add, cumops, quat2unit (group and non-group), matching_time_indices,
   ape / rpe (any stamp dtype, either trajectory longer), CG.forward (with and without initial guess and
   preconditioner, every maxiter) *)
Theorem C06_pure_ops_do_not_mutate :
  forall (D : Type) (d0 : D) (K : nat -> list D -> D) (Cnd : nat -> list D -> bool),
  (forall cx cy X Y, post_args D d0 (p_binop D K cx cy) [X; Y] = [X; Y]) /\
  (forall X, post_args D d0 (p_unop D K) [X] = [X]) /\
  (forall X, post_args D d0 (p_slice D) [X] = [X]) /\
  (forall X, post_args D d0 (p_self D) [X] = [X]) /\
  (forall cx cy X a, post_args D d0 (p_retr D K cx cy) [X; a] = [X; a]) /\
  (forall X o, post_args D d0 (p_add D K) [X; o] = [X; o]) /\
  (forall n X, post_args D d0 (p_cumops D K n) [X] = [X]) /\
  (forall X, post_args D d0 (p_quat2unit D K Cnd) [X] = [X]) /\
  (forall X, post_args D d0 (p_quat2unit_other D) [X] = [X]) /\
  (forall s1 s2, post_args D d0 (p_matching D K) [s1; s2] = [s1; s2]) /\
  (forall (e_longer r64 e64 : bool) rs rp es ep,
     post_args D d0 (p_ape D K r64 e64 e_longer) [rs; rp; es; ep] = [rs; rp; es; ep]) /\
  (forall has_x has_M n A b x M, post_args D d0 (p_cg D K Cnd has_x has_M n) [A; b; x; M] = [A; b; x; M]).
Proof. exact pure_ops. Qed.
(* soundness of the write check used for them (any program of the effect language) *)
Theorem C06_unreported_arguments_are_kept :
  forall (D : Type) (d0 : D) (p : prog D) (args : list D) (a : nat),
  a < length args -> ~ In a (may_mutate D (length args) p) ->
  nth a (fst (run_prog D d0 p args)) d0 = nth a args d0.
Proof. exact arg_kept_if_not_reported. Qed.

(* history: before fixes c362486 / 9407769 / 146d9a5 three functions overwrote caller data *)
(* normalize is torch.nn.functional.normalize (external routine); its only assumed property: the quaternion
   (0,0,0,2) is normalised to (0,0,0,1).  Witness: SO3 data [0,0,0,2] *)
Theorem C06_quat2unit_old_refuted :
  forall (normalize : list Q -> list Q) (zero_detected : nat -> list (list Q) -> bool),
  normalize [0%Q; 0%Q; 0%Q; 2%Q] = [0%Q; 0%Q; 0%Q; 1%Q] ->
  exists input, post_args (list Q) [] (p_quat2unit_old (list Q) (K_quat2unit normalize 0 4) zero_detected) [input] <> [input].
Proof. exact quat2unit_old_refuted. Qed.
Theorem C06_matching_time_indices_old_refuted : exists stamps_1 stamps_2 offset,
  post_args (list Q) [] (p_matching_old (list Q) (K_matching offset)) [stamps_1; stamps_2] <> [stamps_1; stamps_2].
Proof. exact matching_old_refuted. Qed.
(* CG()(A = [[1]], b = [1], x = [0]) (1x1 system, tol 1e-5, 10 iterations allowed): the caller's x was [1] afterwards *)
Theorem C06_cg_initial_guess_old_refuted : exists A b x M,
  map (map Qred) (post_args (list Q) [] (p_cg_old (list Q) K_cg1 (C_cg1 (1 # 100000)) true false 10) [A; b; x; M])
  <> map (map Qred) [A; b; x; M].
Proof. exact cg_old_refuted. Qed.
Theorem C06_write_check_old_reports :
  forall (D : Type) (K : nat -> list D -> D) (Cnd : nat -> list D -> bool),
  may_mutate D 1 (p_quat2unit_old D K Cnd) = [0] /\ may_mutate D 2 (p_matching_old D K) = [1] /\
  (forall has_M n, In 2 (may_mutate D 4 (p_cg_old D K Cnd true has_M (S n)))).
Proof. intros D K Cnd. split; [apply quat2unit_old_reported | split; [apply matching_old_reported | intros; apply cg_old_x0_reported]]. Qed.

Print Assumptions C06_broadcast_inputs_spec. Print Assumptions C06_mul_batched. Print Assumptions C06_act_batched.
Print Assumptions C06_adj_batched. Print Assumptions C06_unary_batched. Print Assumptions C06_broadcast_inputs_one_arg.
Print Assumptions C06_wrap_decision. Print Assumptions C06_wrap_kwargs_old_refuted.
Print Assumptions C06_retain_ltype_restores.
Print Assumptions C06_retain_ltype_module_rewrite_old_refuted. Print Assumptions C06_retain_ltype_nested_old_refuted.
Print Assumptions C06_pure_ops_do_not_mutate. Print Assumptions C06_unreported_arguments_are_kept.
Print Assumptions C06_quat2unit_old_refuted. Print Assumptions C06_matching_time_indices_old_refuted.
Print Assumptions C06_cg_initial_guess_old_refuted. Print Assumptions C06_write_check_old_reports.
