(* C06 -- batching, broadcasting and views are transparent; pure operations never mutate their
   inputs; the patching done by retain_ltype / func.jacrev is undone on exit.
   Statements only; models in Model/Broadcast.v, Model/Patch.v; proofs in Proofs/Broadcast.v, Proofs/Patch.v. *)
From Coq Require Import String.
From Coq Require Import List Arith Bool PeanoNat ZArith QArith.
Import ListNotations.
From PV Require Import Base.Num Model.LieGroup Model.Broadcast Model.Patch Proofs.Broadcast Proofs.Patch.
Close Scope Q_scope.

(* ---------- 1. flatten-expand, item-wise kernel, un-flatten = the kernel at every multi-index ----------
   For ALL lshapes (any rank, any extents, 0 and rank 0 included) and any item-wise kernel [op]:
   if the lshapes broadcast (PyTorch rule) the result exists, has shape broadcast(lx, ly) ++ [dout],
   and its item at every multi-index i is op (x[bidx lx i]) (y[bidx ly i]) (both source indices in range);
   otherwise the operation raises. *)
Theorem C06_broadcast_inputs_spec :
  forall (A B C : Type) (dA : A) (dB : B) (dC : C) (op : A -> B -> C) (dout : nat) (x : tensor A) (y : tensor B),
  wf x -> wf y -> tdim x <> 0 -> tdim y <> 0 ->
  match broadcast_shapes (tshape x) (tshape y) with
  | Some o =>
      exists r, lie_binop dA dB op dout dout x y = Some r /\
        tshape r = o /\ tdim r = dout /\ wf r /\
        forall i, valid_idx o i ->
          valid_idx (tshape x) (bidx (tshape x) i) /\ valid_idx (tshape y) (bidx (tshape y) i) /\
          tget dC r i = op (tget dA x (bidx (tshape x) i)) (tget dB y (bidx (tshape y) i))
  | None => lie_binop dA dB op dout dout x y = None
  end.
Proof. intros A B C dA dB dC. exact (lie_binop_spec dA dB dC). Qed.

(* the operations as coded (fallback dimension X.shape[-1] / p.shape[-1] / a.shape[-1]), any number type *)
Theorem C06_mul_batched : forall (F : Type) (NF : Num F) g (x y : tensor (list F)),
  wf x -> wf y -> tdim x = gdim g -> tdim y <> 0 ->
  binop_spec [] [] [] (g_mul g) (gdim g) x y (lt_mul g x y).
Proof. intros F NF. exact lt_mul_spec. Qed.
Theorem C06_act_batched : forall (F : Type) (NF : Num F) g (x p : tensor (list F)),
  wf x -> wf p -> tdim x <> 0 ->
  (tdim p = 3 -> binop_spec [] [] [] (g_act g) 3 x p (lt_act g x p)) /\
  (tdim p = 4 -> binop_spec [] [] [] (g_act4 g) 4 x p (lt_act g x p)) /\
  (tdim p <> 3 -> tdim p <> 4 -> lt_act g x p = None).
Proof. intros F NF. exact lt_act_spec. Qed.
Theorem C06_adj_batched : forall (F : Type) (NF : Num F) g tr (x a : tensor (list F)),
  wf x -> wf a -> tdim x <> 0 -> tdim a = adim g ->
  binop_spec [] [] [] (g_adj g tr) (adim g) x a (lt_adj g tr x a).
Proof. intros F NF. exact lt_adj_spec. Qed.
(* unary operations (Inv, Exp, Log, rotation, translation, scale) and the one-argument broadcast_inputs *)
Theorem C06_unary_batched : forall (F : Type) (op : list F -> list F) dout (x : tensor (list F)), wf x ->
  let r := lie_unop op dout x in
  tshape r = tshape x /\ tdim r = dout /\ wf r /\
  forall i, valid_idx (tshape x) i -> tget [] r i = op (tget [] x i).
Proof. intros F. exact lt_unary_spec. Qed.
Theorem C06_broadcast_inputs_one_arg : forall (A : Type) (x : tensor A), tdim x <> 0 ->
  broadcast_inputs1 x = Some (titems x, tshape x).
Proof. exact @broadcast_inputs1_spec. Qed.

(* hypotheses are satisfiable, ranks 2 x 1 with a broadcast dimension, and the empty batch *)
Example C06_broadcast_example :
  bcast_map [2; 1] [3] = Some ([2; 3], [(0, 0); (0, 1); (0, 2); (1, 0); (1, 1); (1, 2)]) /\
  bcast_map [] [] = Some ([], [(0, 0)]) /\ bcast_map [0] [1] = Some ([0], []) /\ bcast_map [2] [3] = None /\
  wf (idx_tensor [2; 1]) /\ wf (idx_tensor [0]).
Proof. repeat split; reflexivity. Qed.

(* ---------- 2. LieTensor.__torch_function__ ---------- *)
(* handled name + a LieTensor among the positional arguments: every plain tensor of the result becomes a
   LieTensor of the first such argument's ltype (with a warning exactly when the last dimension is not the
   ltype's), everything else is returned as it is; not handled: nothing is wrapped; data None: None. *)
Theorem C06_wrap_decision : forall name,
  (handled name = true ->
     (forall lt lts leaves, exists out warn,
        torch_function (Some name) (Some leaves) (lt :: lts) = TFData out warn /\
        length out = length leaves /\ length warn = length leaves /\
        forall n, n < length leaves ->
          match nth n leaves LOther with
          | LPlain shp => nth n out LOther = LLie (Some lt) shp /\
                          nth n warn false = negb (last_is shp (dimension lt))
          | l => nth n out LOther = l /\ nth n warn false = false
          end) /\
     (forall leaves, torch_function (Some name) (Some leaves) [] = TFIndexError)) /\
  (handled name = false ->
     forall leaves lts, torch_function (Some name) (Some leaves) lts = TFData leaves (map (fun _ => false) leaves)) /\
  (forall lts, torch_function (Some name) None lts = TFNone).
Proof. exact wrap_decision. Qed.
(* the faithful model raises when a handled function receives its LieTensors by keyword only *)
Theorem C06_wrap_kwargs_refuted :
  exists name leaves, handled name = true /\ torch_function (Some name) (Some leaves) [] = TFIndexError.
Proof. exists "index_select"%string, [LPlain [1; 4]]. split; reflexivity. Qed.

(* ---------- 3. retain_ltype ---------- *)
(* every behaviour of the wrapped body -- calls through the patched attributes, further retain_ltype
   contexts nested to any depth, each with any iteration order of its set, normal return or an
   exception at any point -- from every well-formed state: the three patched attributes hold after
   exit what they held before entry, the state is well-formed again, and the context raises exactly
   when its body does *)
Theorem C06_retain_ltype_restores : forall ord b s, wfp s ->
  let '(s', raised, _) := with_retain_ltype ord b s in
  wfp s' /\ (forall x, getattr s' (site_key x) = getattr s (site_key x)) /\
  raised = snd (fst (run b (fst (enter s ord)))).
Proof. exact retain_ltype_restores. Qed.
(* one level (no nesting), any state in which retain_ltype has been used before: every module
   attribute and every __module__ is as before *)
Theorem C06_retain_ltype_restores_everything_one_level : forall ord b s, clean s -> flat b = true ->
  let s' := fst (fst (with_retain_ltype ord b s)) in
  (forall k, getattr s' k = getattr s k) /\ (forall f, fmod s' f = fmod s f).
Proof. exact one_level_restores_everything. Qed.
Example C06_retain_ltype_states : wfp pristine /\ clean normal.
Proof. split; [exact pristine_wfp | exact normal_clean]. Qed.
(* not undone on the faithful model: the __module__ rewrite of _add_batch_dim (first use), and the
   attributes named `wrapper` that a nested use leaves in torch._functorch.vmap and pypose.lietensor.lietensor *)
Theorem C06_retain_ltype_module_rewrite_refuted :
  exists ord b, let s' := fst (fst (with_retain_ltype ord b pristine)) in
  fmod s' (Orig S_add_batch) <> fmod pristine (Orig S_add_batch).
Proof. exists std_ord, BRet. destruct module_rewrite_persists as [A B]. simpl in *. rewrite A, B. discriminate. Qed.
Theorem C06_retain_ltype_nested_refuted :
  exists ord b k, let s' := fst (fst (with_retain_ltype ord b normal)) in getattr s' k <> getattr normal k.
Proof.
  exists std_ord, (BNest std_ord BRet BRet), (M_vmap, A_wrapper).
  destruct nested_leaks_attributes as (A & _ & B & _). simpl in *. rewrite A, B. discriminate.
Qed.

(* ---------- 4. no function without a trailing underscore writes into its arguments ---------- *)
(* the modelled pure functions return their arguments unchanged, whatever the kernels compute, for
   every loop count / option combination: binary ops (Mul, Act, Adj, AdjT, Jinvp), unary ops (Inv,
   Exp, Log), slices (rotation / translation / scale), Retr, add, cumops, quat2unit on a non-group,
   CG.forward without an initial guess, ape / rpe whose longer trajectory has non-float64 stamps *)
Theorem C06_pure_ops_do_not_mutate :
  forall (D : Type) (d0 : D) (K : nat -> list D -> D) (Cnd : nat -> list D -> bool),
  (forall cx cy X Y, post_args D d0 (p_binop D K cx cy) [X; Y] = [X; Y]) /\
  (forall X, post_args D d0 (p_unop D K) [X] = [X]) /\
  (forall X, post_args D d0 (p_slice D) [X] = [X]) /\
  (forall X, post_args D d0 (p_self D) [X] = [X]) /\
  (forall cx cy X a, post_args D d0 (p_retr D K cx cy) [X; a] = [X; a]) /\
  (forall X o, post_args D d0 (p_add D K) [X; o] = [X; o]) /\
  (forall n X, post_args D d0 (p_cumops D K n) [X] = [X]) /\
  (forall X, post_args D d0 (p_quat2unit_other D) [X] = [X]) /\
  (forall has_M n A b x M, post_args D d0 (p_cg D K Cnd false has_M n) [A; b; x; M] = [A; b; x; M]) /\
  (forall (e_longer r64 e64 : bool) rs rp es ep, (if e_longer then e64 else r64) = false ->
     post_args D d0 (p_ape D K r64 e64 e_longer) [rs; rp; es; ep] = [rs; rp; es; ep]).
Proof. exact pure_ops. Qed.
(* soundness of the write check used for them (any program of the effect language) *)
Theorem C06_unreported_arguments_are_kept :
  forall (D : Type) (d0 : D) (p : prog D) (args : list D) (a : nat),
  a < length args -> ~ In a (may_mutate D (length args) p) ->
  nth a (fst (run_prog D d0 p args)) d0 = nth a args d0.
Proof. exact arg_kept_if_not_reported. Qed.

(* refuted on the faithful model: three functions without a trailing underscore overwrite caller data *)
(* quat2unit: the caller's tensor holds the normalised quaternion afterwards (any normalize, any slice a:b) *)
Theorem C06_quat2unit_writes_argument :
  forall (normalize : list Q -> list Q) (zero_detected : nat -> list (list Q) -> bool) (a b : nat) (input : list Q),
  post_args (list Q) [] (p_quat2unit (list Q) (K_quat2unit normalize a b) zero_detected) [input]
  = [firstn a input ++ normalize (firstn (b - a) (skipn a input)) ++ skipn b input].
Proof. exact quat2unit_witness. Qed.
(* normalize is torch.nn.functional.normalize (external routine); its only assumed property: the quaternion
   (0,0,0,2) is normalised to (0,0,0,1).  Witness: SO3 data [0,0,0,2] *)
Theorem C06_quat2unit_refuted :
  forall (normalize : list Q -> list Q) (zero_detected : nat -> list (list Q) -> bool),
  normalize [0%Q; 0%Q; 0%Q; 2%Q] = [0%Q; 0%Q; 0%Q; 1%Q] ->
  exists input, post_args (list Q) [] (p_quat2unit (list Q) (K_quat2unit normalize 0 4) zero_detected) [input] <> [input].
Proof. exact quat2unit_refuted. Qed.
(* matching_time_indices([0], [0], offset_2 = 1): stamps_2 is [1] afterwards (ape / rpe reach the same statement
   with the caller's float64 stamps: p_ape) *)
Theorem C06_matching_time_indices_refuted : exists stamps_1 stamps_2 offset,
  post_args (list Q) [] (p_matching (list Q) (K_matching offset)) [stamps_1; stamps_2] <> [stamps_1; stamps_2].
Proof. exact matching_refuted. Qed.
(* CG()(A = [[1]], b = [1], x = [0]) (1x1 system, tol 1e-5, 10 iterations allowed): the caller's x is [1] afterwards *)
Theorem C06_cg_initial_guess_refuted : exists A b x M,
  map (map Qred) (post_args (list Q) [] (p_cg (list Q) K_cg1 (C_cg1 (1 # 100000)) true false 10) [A; b; x; M])
  <> map (map Qred) [A; b; x; M].
Proof. exact cg_refuted. Qed.
(* and the write check reports exactly these *)
Theorem C06_write_check_reports :
  forall (D : Type) (K : nat -> list D -> D) (Cnd : nat -> list D -> bool),
  may_mutate D 1 (p_quat2unit D K Cnd) = [0] /\ may_mutate D 2 (p_matching D K) = [1] /\
  (forall has_M n, In 2 (may_mutate D 4 (p_cg D K Cnd true has_M (S n)))).
Proof. intros D K Cnd. split; [apply quat2unit_reported | split; [apply matching_reported | intros; apply cg_x0_reported]]. Qed.

Print Assumptions C06_broadcast_inputs_spec. Print Assumptions C06_mul_batched. Print Assumptions C06_act_batched.
Print Assumptions C06_adj_batched. Print Assumptions C06_unary_batched. Print Assumptions C06_broadcast_inputs_one_arg.
Print Assumptions C06_wrap_decision. Print Assumptions C06_wrap_kwargs_refuted.
Print Assumptions C06_retain_ltype_restores. Print Assumptions C06_retain_ltype_restores_everything_one_level.
Print Assumptions C06_retain_ltype_module_rewrite_refuted. Print Assumptions C06_retain_ltype_nested_refuted.
Print Assumptions C06_pure_ops_do_not_mutate. Print Assumptions C06_unreported_arguments_are_kept.
Print Assumptions C06_quat2unit_writes_argument. Print Assumptions C06_quat2unit_refuted.
Print Assumptions C06_matching_time_indices_refuted. Print Assumptions C06_cg_initial_guess_refuted.
Print Assumptions C06_write_check_reports.
