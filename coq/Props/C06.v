(* C06 -- batching, broadcasting and views are transparent; pure operations never mutate their
   inputs; the patching done by retain_ltype / func.jacrev is undone on exit.
   Statements only; models in Model/Broadcast.v, Model/Patch.v; proofs in Proofs/Broadcast.v, Proofs/Patch.v,
   Proofs/Broadcast2.v (index/position bijection, broadcast rule, matrix(), Retr), Proofs/Broadcast3.v (shape-only
   torch functions written as index maps: [raw], [tabulate], [reindex], [t_select] ... [t_stack], [sop]),
   Proofs/Patch2.v (call trace of retain_ltype, views replaced by copies, guarded geometry functions). *)
From Coq Require Import String.
From Coq Require Import List Arith Bool PeanoNat ZArith QArith.
Import ListNotations.
From PV Require Import Base.Num Model.LieGroup Model.Broadcast Model.Patch Proofs.Broadcast Proofs.Patch.
From PV Require Import Proofs.Broadcast2 Proofs.Broadcast3 Proofs.Patch2.
Close Scope Q_scope.

(* ---------- 1. flatten-expand, item-wise kernel, un-flatten = the kernel at every multi-index ----------
   For ALL lshapes (any rank, any extents, 0 and rank 0 included) and any item-wise kernel [op]:
   if the lshapes broadcast (PyTorch rule) the result exists, has shape broadcast(lx, ly) ++ [dout],
   and its item at every multi-index i is op (x[bidx lx i]) (y[bidx ly i]) (both source indices in range);
   otherwise the operation raises. *)
Theorem C06_broadcast_inputs_spec :
  forall (A B C : Type) (dA : A) (dB : B) (dC : C) (op : A -> B -> C) (dout : nat) (x : tensor A) (y : tensor B),
  wf x -> wf y -> tdim x <> 0 -> tdim y <> 0 ->
  match broadcast_shapes (tshape x) (tshape y) with
  | Some o =>
      exists r, lie_binop dA dB op dout dout x y = Some r /\
        tshape r = o /\ tdim r = dout /\ wf r /\
        forall i, valid_idx o i ->
          valid_idx (tshape x) (bidx (tshape x) i) /\ valid_idx (tshape y) (bidx (tshape y) i) /\
          tget dC r i = op (tget dA x (bidx (tshape x) i)) (tget dB y (bidx (tshape y) i))
  | None => lie_binop dA dB op dout dout x y = None
  end.
Proof. intros A B C dA dB dC. exact (lie_binop_spec dA dB dC). Qed.

(* the operations as coded (fallback dimension X.shape[-1] / p.shape[-1] / a.shape[-1]), any number type *)
Theorem C06_mul_batched : forall (F : Type) (NF : Num F) g (x y : tensor (list F)),
  wf x -> wf y -> tdim x = gdim g -> tdim y <> 0 ->
  binop_spec [] [] [] (g_mul g) (gdim g) x y (lt_mul g x y).
Proof. intros F NF. exact lt_mul_spec. Qed.
Theorem C06_act_batched : forall (F : Type) (NF : Num F) g (x p : tensor (list F)),
  wf x -> wf p -> tdim x <> 0 ->
  (tdim p = 3 -> binop_spec [] [] [] (g_act g) 3 x p (lt_act g x p)) /\
  (tdim p = 4 -> binop_spec [] [] [] (g_act4 g) 4 x p (lt_act g x p)) /\
  (tdim p <> 3 -> tdim p <> 4 -> lt_act g x p = None).
Proof. intros F NF. exact lt_act_spec. Qed.
Theorem C06_adj_batched : forall (F : Type) (NF : Num F) g tr (x a : tensor (list F)),
  wf x -> wf a -> tdim x <> 0 -> tdim a = adim g ->
  binop_spec [] [] [] (g_adj g tr) (adim g) x a (lt_adj g tr x a).
Proof. intros F NF. exact lt_adj_spec. Qed.
(* unary operations (Inv, Exp, Log, rotation, translation, scale) and the one-argument broadcast_inputs *)
Theorem C06_unary_batched : forall (F : Type) (op : list F -> list F) dout (x : tensor (list F)), wf x ->
  let r := lie_unop op dout x in
  tshape r = tshape x /\ tdim r = dout /\ wf r /\
  forall i, valid_idx (tshape x) i -> tget [] r i = op (tget [] x i).
Proof. intros F. exact lt_unary_spec. Qed.
Theorem C06_broadcast_inputs_one_arg : forall (A : Type) (x : tensor A), tdim x <> 0 ->
  broadcast_inputs1 x = Some (titems x, tshape x).
Proof. exact @broadcast_inputs1_spec. Qed.

(* hypotheses are satisfiable, ranks 2 x 1 with a broadcast dimension, and the empty batch *)
Example C06_broadcast_example :
  bcast_map [2; 1] [3] = Some ([2; 3], [(0, 0); (0, 1); (0, 2); (1, 0); (1, 1); (1, 2)]) /\
  bcast_map [] [] = Some ([], [(0, 0)]) /\ bcast_map [0] [1] = Some ([0], []) /\ bcast_map [2] [3] = None /\
  wf (idx_tensor [2; 1]) /\ wf (idx_tensor [0]).
Proof. repeat split; reflexivity. Qed.

(* ---------- 2. LieTensor.__torch_function__ ---------- *)
(* handled name, lt = ltype of the first LieTensor among the flattened (positional, then keyword) arguments:
   every plain tensor of the result becomes a LieTensor of ltype lt (with a warning exactly when the last
   dimension is not the ltype's), everything else is returned as it is; not handled: nothing is wrapped;
   data None: None. *)
Theorem C06_wrap_decision : forall name,
  (handled name = true ->
     forall lt rest lts kws leaves, lts ++ kws = lt :: rest -> exists out warn,
        torch_function (Some name) (Some leaves) lts kws = TFData out warn /\
        length out = length leaves /\ length warn = length leaves /\
        forall n, n < length leaves ->
          match nth n leaves LOther with
          | LPlain shp => nth n out LOther = LLie (Some lt) shp /\
                          nth n warn false = negb (last_is shp (dimension lt))
          | l => nth n out LOther = l /\ nth n warn false = false
          end) /\
  (handled name = false ->
     forall leaves lts kws, torch_function (Some name) (Some leaves) lts kws = TFData leaves (map (fun _ => false) leaves)) /\
  (forall lts kws, torch_function (Some name) None lts kws = TFNone).
Proof. exact wrap_decision. Qed.
(* history (before fix 613c139): a handled function that received its LieTensors by keyword only raised *)
Theorem C06_wrap_kwargs_old_refuted :
  exists name leaves kws, kws <> [] /\ handled name = true /\
    torch_function_old (Some name) (Some leaves) [] kws = TFIndexError.
Proof. exists "index_select"%string, [LPlain [1; 4]], [SO3_t]. split; [discriminate|split; reflexivity]. Qed.

(* ---------- 3. retain_ltype ---------- *)
(* every behaviour of the wrapped body -- calls through the patched attributes, further retain_ltype contexts
   nested to any depth, normal return or an exception at any point -- from every state in which the three
   patched attributes exist: EVERY module attribute and EVERY __module__ is after exit what it was before
   entry, and the context raises exactly when its body does *)
Theorem C06_retain_ltype_restores : forall b s, sites_defined s ->
  let '(s', raised, _) := with_retain_ltype b s in
  (forall k, getattr s' k = getattr s k) /\ (forall f, fmod s' f = fmod s f) /\
  raised = snd (fst (run b (fst (enter s)))).
Proof. exact retain_ltype_restores. Qed.
Example C06_retain_ltype_states : sites_defined pristine.
Proof. exact pristine_defined. Qed.
(* history (before fix 084bc81): the __module__ rewrite of _add_batch_dim (first use) and the attributes named
   `wrapper` that a nested use left in torch._functorch.vmap and pypose.lietensor.lietensor *)
Theorem C06_retain_ltype_module_rewrite_old_refuted :
  exists ord b, let s' := fst (fst (with_retain_ltype_old ord b pristine)) in
  fmod s' (Orig S_add_batch) <> fmod pristine (Orig S_add_batch).
Proof. exists std_ord, BRet. destruct old_module_rewrite_persists as [A B]. simpl in *. rewrite A, B. discriminate. Qed.
Theorem C06_retain_ltype_nested_old_refuted :
  exists ord b k, let s' := fst (fst (with_retain_ltype_old ord b normal)) in getattr s' k <> getattr normal k.
Proof.
  exists std_ord, (BNest BRet BRet), (M_vmap, A_wrapper).
  destruct old_nested_leaks_attributes as (A & _ & B & _). simpl in *. rewrite A, B. discriminate.
Qed.

(* ---------- 4. no function without a trailing underscore writes into its arguments ---------- *)
(* the modelled functions return their arguments unchanged, whatever the kernels compute, for every loop
   count / option combination: binary ops (Mul, Act, Adj, AdjT, Jinvp), unary ops (Inv, Exp, Log), slices
   (rotation / translation / scale), Retr, add, cumops, quat2unit (group and non-group), matching_time_indices,
   ape / rpe (any stamp dtype, either trajectory longer), CG.forward (with and without initial guess and
   preconditioner, every maxiter) *)
Theorem C06_pure_ops_do_not_mutate :
  forall (D : Type) (d0 : D) (K : nat -> list D -> D) (Cnd : nat -> list D -> bool),
  (forall cx cy X Y, post_args D d0 (p_binop D K cx cy) [X; Y] = [X; Y]) /\
  (forall X, post_args D d0 (p_unop D K) [X] = [X]) /\
  (forall X, post_args D d0 (p_slice D) [X] = [X]) /\
  (forall X, post_args D d0 (p_self D) [X] = [X]) /\
  (forall cx cy X a, post_args D d0 (p_retr D K cx cy) [X; a] = [X; a]) /\
  (forall X o, post_args D d0 (p_add D K) [X; o] = [X; o]) /\
  (forall n X, post_args D d0 (p_cumops D K n) [X] = [X]) /\
  (forall X, post_args D d0 (p_quat2unit D K Cnd) [X] = [X]) /\
  (forall X, post_args D d0 (p_quat2unit_other D) [X] = [X]) /\
  (forall s1 s2, post_args D d0 (p_matching D K) [s1; s2] = [s1; s2]) /\
  (forall (e_longer r64 e64 : bool) rs rp es ep,
     post_args D d0 (p_ape D K r64 e64 e_longer) [rs; rp; es; ep] = [rs; rp; es; ep]) /\
  (forall has_x has_M n A b x M, post_args D d0 (p_cg D K Cnd has_x has_M n) [A; b; x; M] = [A; b; x; M]).
Proof. exact pure_ops. Qed.
(* soundness of the write check used for them (any program of the effect language) *)
Theorem C06_unreported_arguments_are_kept :
  forall (D : Type) (d0 : D) (p : prog D) (args : list D) (a : nat),
  a < length args -> ~ In a (may_mutate D (length args) p) ->
  nth a (fst (run_prog D d0 p args)) d0 = nth a args d0.
Proof. exact arg_kept_if_not_reported. Qed.

(* history: before fixes c362486 / 9407769 / 146d9a5 three functions overwrote caller data *)
(* normalize is torch.nn.functional.normalize (external routine); its only assumed property: the quaternion
   (0,0,0,2) is normalised to (0,0,0,1).  Witness: SO3 data [0,0,0,2] *)
Theorem C06_quat2unit_old_refuted :
  forall (normalize : list Q -> list Q) (zero_detected : nat -> list (list Q) -> bool),
  normalize [0%Q; 0%Q; 0%Q; 2%Q] = [0%Q; 0%Q; 0%Q; 1%Q] ->
  exists input, post_args (list Q) [] (p_quat2unit_old (list Q) (K_quat2unit normalize 0 4) zero_detected) [input] <> [input].
Proof. exact quat2unit_old_refuted. Qed.
Theorem C06_matching_time_indices_old_refuted : exists stamps_1 stamps_2 offset,
  post_args (list Q) [] (p_matching_old (list Q) (K_matching offset)) [stamps_1; stamps_2] <> [stamps_1; stamps_2].
Proof. exact matching_old_refuted. Qed.
(* CG()(A = [[1]], b = [1], x = [0]) (1x1 system, tol 1e-5, 10 iterations allowed): the caller's x was [1] afterwards *)
Theorem C06_cg_initial_guess_old_refuted : exists A b x M,
  map (map Qred) (post_args (list Q) [] (p_cg_old (list Q) K_cg1 (C_cg1 (1 # 100000)) true false 10) [A; b; x; M])
  <> map (map Qred) [A; b; x; M].
Proof. exact cg_old_refuted. Qed.
Theorem C06_write_check_old_reports :
  forall (D : Type) (K : nat -> list D -> D) (Cnd : nat -> list D -> bool),
  may_mutate D 1 (p_quat2unit_old D K Cnd) = [0] /\ may_mutate D 2 (p_matching_old D K) = [1] /\
  (forall has_M n, In 2 (may_mutate D 4 (p_cg_old D K Cnd true has_M (S n)))).
Proof. intros D K Cnd. split; [apply quat2unit_old_reported | split; [apply matching_old_reported | intros; apply cg_old_x0_reported]]. Qed.


(* ================================================================================================ *)
(* Second round: clauses that were covered by the tie only, for ALL shapes / bodies / programs      *)
(* ================================================================================================ *)

(* ---------- 1'. batching ---------- *)
(* "the item at every valid multi-index" describes every stored item: flat positions and valid multi-indices
   correspond one to one (so the spec theorems above determine the whole result) *)
Theorem C06_every_position_is_one_index : forall (T : shape) (k : nat), k < numel T ->
  exists i, valid_idx T i /\ ravel T i = k /\ forall j, valid_idx T j -> ravel T j = k -> j = i.
Proof. exact positions_are_indices. Qed.
Theorem C06_tensor_determined_by_items : forall (E : Type) (dE : E) (t u : tensor E), wf t -> wf u ->
  tshape t = tshape u -> tdim t = tdim u ->
  (forall i, valid_idx (tshape t) i -> tget dE t i = tget dE u i) -> t = u.
Proof. exact @tensor_ext. Qed.

(* the property's wording, literally: the batched operation exists, and at every multi-index i of the broadcast lshape
   its item is what the SAME operation (same pipeline: broadcast_inputs, kernel, view) returns on the two un-batched
   LieTensors (lshape ()) holding the items that PyTorch broadcasting pairs at i *)
Theorem C06_batched_is_item_by_item : forall (A B C : Type) (dA : A) (dB : B) (dC : C) (op : A -> B -> C) (d : nat)
    (x : tensor A) (y : tensor B) (o : shape),
  wf x -> wf y -> tdim x <> 0 -> tdim y <> 0 -> broadcast_shapes (tshape x) (tshape y) = Some o ->
  exists r, lie_binop dA dB op d d x y = Some r /\ tshape r = o /\ tdim r = d /\ wf r /\
    forall i, valid_idx o i ->
      lie_binop dA dB op d d (mkT [] (tdim x) [tget dA x (bidx (tshape x) i)]) (mkT [] (tdim y) [tget dB y (bidx (tshape y) i)])
      = Some (mkT [] (tdim r) [tget dC r i]).
Proof. intros A B C dA dB dC. exact (batched_is_itemwise dA dB dC). Qed.

(* torch.broadcast_shapes as modelled IS the documented rule: dimensions are compared from the right (a missing
   dimension counts as 1); the shapes broadcast iff in every dimension the sizes are equal or one of them is 1, and
   the result has the larger rank and in every dimension the size that is not 1 (0 is an ordinary size) *)
Theorem C06_broadcast_shapes_rule : forall a b : shape,
  match broadcast_shapes a b with
  | Some o => length o = Nat.max (length a) (length b) /\
              forall k, let x := nth k (rev a) 1 in let y := nth k (rev b) 1 in
                        (x = y \/ x = 1 \/ y = 1) /\ nth k (rev o) 1 = (if x =? 1 then y else x)
  | None => exists k, let x := nth k (rev a) 1 in let y := nth k (rev b) 1 in ~ (x = y \/ x = 1 \/ y = 1)
  end.
Proof. exact broadcast_shapes_rule. Qed.
Theorem C06_broadcast_shapes_laws : forall a b : shape,
  broadcast_shapes a b = broadcast_shapes b a /\ broadcast_shapes a a = Some a /\
  broadcast_shapes a [] = Some a /\ broadcast_shapes [] a = Some a.
Proof.
  intros a b. split; [apply broadcast_shapes_comm|]. split; [apply broadcast_shapes_same|apply broadcast_shapes_scalar].
Qed.
(* the operand index used for output index i, dimension by dimension: operand dimension k is output dimension
   (rank difference) + k; index 0 where the operand has size 1, the output index otherwise *)
Theorem C06_source_index_by_dimension : forall (s : shape) (i : list nat) (k : nat),
  length s <= length i -> k < length s ->
  nth k (bidx s i) 0 = if nth k s 1 =? 1 then 0 else nth (length i - length s + k) i 0.
Proof. exact bidx_nth. Qed.

(* the table [bcast_map] that the tie evaluates and compares with torch's own broadcasting for every pair of lshapes is,
   in closed form, the pair of flat source positions given by [bidx] -- the index map of the theorems above *)
Theorem C06_tie_table_is_the_index_map : forall lx ly : shape,
  match broadcast_shapes lx ly with
  | Some o => bcast_map lx ly = Some (o, map (fun i => (ravel lx (bidx lx i), ravel ly (bidx ly i))) (indices o))
  | None => bcast_map lx ly = None
  end.
Proof. exact bcast_map_closed_form. Qed.

(* X.matrix() as coded -- X.unsqueeze(-2).Act(I.view([1]*(X.dim()-1) + [n, n])).transpose(-1,-2), n = 3 for SO3
   and 4 otherwise -- is, for EVERY lshape (0 extents and rank 0 included), every group and any number type, the
   item-wise matrix of Model/LieGroup.v applied to every item, same lshape, n*n entries per item *)
Theorem C06_matrix_batched : forall (F : Type) (NF : Num F) (g : nat) (x : tensor (list F)),
  wf x -> tdim x <> 0 ->
  lt_matrix g x = Some (lie_unop (g_matrix g) ((match g with 0 => 3 | _ => 4 end) * (match g with 0 => 3 | _ => 4 end)) x).
Proof. intros F NF. exact lt_matrix_spec. Qed.
(* Retr(X, a) = a.Exp() * X for any item-wise Exp kernel: the product Exp(a[bidx i]) * X[bidx i] at every multi-index *)
Theorem C06_retr_batched : forall (F : Type) (NF : Num F) g (expk : list F -> list F) (x a : tensor (list F)),
  wf x -> wf a -> tdim x <> 0 ->
  binop_spec [] [] [] (fun ai xi => g_mul g (expk ai) xi) (gdim g) a x (lt_mul g (lie_unop expk (gdim g) a) x).
Proof. intros F NF. exact retr_batched. Qed.
(* the last dimension every operation produces is the dimension of the ltype it is documented to return
   (op codes of Model/Broadcast.v; None = plain torch.Tensor) *)
Theorem C06_result_ltype_dimension : forall g,
  option_map dimension (result_ltype g 0) = Some (gdim g) /\ option_map dimension (result_ltype g 1) = Some (gdim g) /\
  option_map dimension (result_ltype g 11) = Some (gdim g) /\ option_map dimension (result_ltype g 12) = Some (gdim g) /\
  option_map dimension (result_ltype g 6) = Some 4 /\
  option_map dimension (result_ltype g 9) = Some (adim g) /\ option_map dimension (result_ltype g 10) = Some (adim g) /\
  option_map dimension (result_ltype g 13) = Some (adim g) /\ option_map dimension (result_ltype g 14) = Some (adim g) /\
  result_ltype g 2 = None /\ result_ltype g 3 = None /\ result_ltype g 4 = None /\
  result_ltype g 7 = None /\ result_ltype g 8 = None.
Proof. exact result_ltype_dimension. Qed.
(* instances: a (2,1) x (3,) product of SO3 items over Q; matrix() of empty batches (the shapes of defect C06-1) *)
Example C06_batched_examples :
  option_map (fun r => (tshape r, tdim r, length (titems r)))
     (lt_mul 0 (mkT [2; 1] 4 [[0; 0; 0; 1]; [1; 0; 0; 0]]%Q) (mkT [3] 4 [[0; 0; 0; 1]; [0; 1; 0; 0]; [0; 0; 1; 0]]%Q))
    = Some ([2; 3], 4, 6) /\
  lt_matrix 1 (mkT [0; 2] 7 ([] : list (list Q))) = Some (mkT [0; 2] 16 []) /\
  lt_matrix 0 (mkT [2; 0] 4 ([] : list (list Q))) = Some (mkT [2; 0] 9 []) /\
  option_map titems (lt_matrix 0 (mkT [] 4 [[0; 0; 0; 1]]%Q)) = Some [[1; 0; 0; 0; 1; 0; 0; 0; 1]%Q].
Proof. repeat split; vm_compute; reflexivity. Qed.

(* ---------- 2'. shape-only torch functions, every shape ---------- *)
(* the wrap rule on results that keep the last dimension: for every handled name, every lshape T (rank 0 and 0
   extents included) and any number of result tensors (split, unbind, chunk ...) every result is a LieTensor of the
   ltype of the FIRST LieTensor among the (positional, then keyword) arguments, same shape, and no warning *)
Theorem C06_wrap_keeps_ltype_every_shape : forall name lt rest lts kws (Ts : list shape),
  handled name = true -> lts ++ kws = lt :: rest ->
  torch_function (Some name) (Some (map (fun T => LPlain (T ++ [dimension lt])) Ts)) lts kws =
  TFData (map (fun T => LLie (Some lt) (T ++ [dimension lt])) Ts) (map (fun _ => false) Ts).
Proof. exact wrap_keeps_ltype. Qed.
(* the 'Tensor Shape Invalid' warning is issued exactly when the last dimension is not the ltype's (or is missing) *)
Theorem C06_wrap_warns_iff_last_dimension_changed : forall name lt rest lts kws shp,
  handled name = true -> lts ++ kws = lt :: rest ->
  torch_function (Some name) (Some [LPlain shp]) lts kws =
  TFData [LLie (Some lt) shp] [match rev shp with [] => true | d :: _ => negb (d =? dimension lt) end].
Proof. exact wrap_warns_iff. Qed.
(* a function object without __name__ is never wrapped *)
Theorem C06_wrap_nameless : forall leaves lts kws,
  torch_function None (Some leaves) lts kws = TFData leaves (map (fun _ => false) leaves).
Proof. reflexivity. Qed.
(* several LieTensors of different ltypes among the arguments: only the first one counts, whatever the others are *)
Theorem C06_wrap_first_lietensor_only : forall name data lt lts kws lts' kws',
  torch_function name data (lt :: lts) kws = torch_function name data (lt :: lts') kws' /\
  torch_function name data [] (lt :: kws) = torch_function name data [lt] kws'.
Proof. exact wrap_first_only. Qed.
Example C06_wrap_mixed_ltypes :
  torch_function (Some "cat"%string) (Some [LPlain [6; 4]]) [SO3_t; rxso3_t] [] = TFData [LLie (Some SO3_t) [6; 4]] [false] /\
  torch_function (Some "cat"%string) (Some [LPlain [6; 4]]) [rxso3_t; SO3_t] [] = TFData [LLie (Some rxso3_t) [6; 4]] [false] /\
  torch_function (Some "view_as"%string) (Some [LPlain [6; 4]]) [SO3_t] [rxso3_t] = TFData [LLie (Some SO3_t) [6; 4]] [false] /\
  torch_function (Some "reshape"%string) (Some [LPlain [24]]) [SO3_t] [] = TFData [LLie (Some SO3_t) [24]] [true] /\
  forallb handled ["__getitem__"; "view"; "reshape"; "permute"; "cat"; "stack"; "split"; "clone"; "detach"; "to";
                   "expand"; "gather"; "scatter"; "index_select"; "unbind"; "transpose"; "squeeze"; "unsqueeze"]%string = true.
Proof. repeat split; reflexivity. Qed.

(* "holding exactly the selected items".  A LieTensor of lshape s and item size d is the torch tensor [raw x] of shape
   s ++ [d].  THE GENERIC STATEMENT: a result of shape T ++ [d] whose entry (i, c) is entry c of an item [it i] of size d
   -- i.e. built by an index map that leaves the last coordinate alone -- is the raw tensor of the LieTensor of lshape T
   with exactly the items [it i]; for any lshape T *)
Theorem C06_last_dimension_intact_selects_items : forall (E : Type) (dE : E) (T : shape) (d : nat)
    (it : list nat -> list E) (g : list nat -> E),
  (forall i, valid_idx T i -> length (it i) = d) ->
  (forall i c, valid_idx T i -> c < d -> g (i ++ [c]) = nth c (it i) dE) ->
  tabulate (T ++ [d]) 1 g = raw (tabulate T d it).
Proof. exact @tabulate_raw. Qed.
(* one source and an index map sigma that acts on the batch part only: the function applied to the raw tensor is the
   raw tensor of the same function applied item-wise, whose item at i is the source item at (phi i) *)
Theorem C06_reindex_selects_items : forall (E : Type) (dE : E) (x : tensor (list E)) (T : shape) (phi sigma : list nat -> list nat),
  items_ok x ->
  (forall i, valid_idx T i -> valid_idx (tshape x) (phi i)) ->
  (forall i c, valid_idx T i -> c < tdim x -> sigma (i ++ [c]) = phi i ++ [c]) ->
  reindex dE (T ++ [tdim x]) sigma (raw x) = raw (reindex [] T phi x) /\
  items_ok (reindex [] T phi x) /\
  forall i, valid_idx T i -> tget [] (reindex [] T phi x) i = tget [] x (phi i).
Proof. exact @reindex_raw. Qed.
(* the torch functions written as index maps (Proofs/Broadcast3.v), dimension arguments addressing batch dimensions:
   integer indexing / select / unbind pieces *)
Theorem C06_select_items : forall (E : Type) (dE : E) (x : tensor (list E)), items_ok x -> forall k m,
  k < length (tshape x) -> m < nth k (tshape x) 0 ->
  t_select dE k m (raw x) = raw (t_select [] k m x) /\ items_ok (t_select [] k m x) /\
  forall i, valid_idx (del_at k (tshape x)) i -> tget [] (t_select [] k m x) i = tget [] x (ins_at k m i).
Proof. exact @select_raw. Qed.
(* narrow / split and chunk pieces / slices with a step / index_select / index tensors / flip / roll / repeat and tile
   along k / gather and take_along_dim with an index constant along the last dimension: position i reads h(i) in dim k *)
Theorem C06_remap_items : forall (E : Type) (dE : E) (x : tensor (list E)), items_ok x -> forall k e (h : list nat -> nat),
  k < length (tshape x) -> (forall i, valid_idx (set_at k e (tshape x)) i -> h i < nth k (tshape x) 0) ->
  t_remap dE k e (fun j => h (removelast j)) (raw x) = raw (t_remap [] k e h x) /\ items_ok (t_remap [] k e h x) /\
  forall i, valid_idx (set_at k e (tshape x)) i -> tget [] (t_remap [] k e h x) i = tget [] x (set_at k (h i) i).
Proof. exact @remap_raw. Qed.
Theorem C06_unsqueeze_items : forall (E : Type) (dE : E) (x : tensor (list E)), items_ok x -> forall k,
  k <= length (tshape x) ->
  t_unsqueeze dE k (raw x) = raw (t_unsqueeze [] k x) /\ items_ok (t_unsqueeze [] k x) /\
  forall i, valid_idx (ins_at k 1 (tshape x)) i -> tget [] (t_unsqueeze [] k x) i = tget [] x (del_at k i).
Proof. exact @unsqueeze_raw. Qed.
(* expand / expand_as to T ++ [d]; its index map is the [bidx] of the broadcast theorems, and it agrees with the
   stride-0 view of Model/Broadcast.v *)
Theorem C06_expand_items : forall (E : Type) (dE : E) (x : tensor (list E)), items_ok x -> forall T,
  length (tshape x) <= length T -> compat (pad (length T) (tshape x)) T ->
  t_expand dE (T ++ [tdim x]) (raw x) = raw (t_expand [] T x) /\ items_ok (t_expand [] T x) /\
  forall i, valid_idx T i -> tget [] (t_expand [] T x) i = tget [] x (bidx (tshape x) i).
Proof. exact @expand_raw. Qed.
Theorem C06_expand_is_the_modelled_view : forall (A : Type) (dA : A) (x : tensor A) T st,
  tdim x <> 0 -> expand_strides (tshape x) T = Some st -> flat_expand dA x T = Some (titems (t_expand dA T x)).
Proof. exact @flat_expand_is_t_expand. Qed.
(* view / reshape / view_as (contiguous data) to T ++ [d]: item number n stays item number n *)
Theorem C06_reshape_items : forall (E : Type) (x : tensor (list E)), items_ok x -> forall T,
  numel T = numel (tshape x) ->
  t_reshape (T ++ [tdim x]) (raw x) = raw (t_reshape T x) /\ items_ok (t_reshape T x) /\
  forall i, valid_idx T i -> tget [] (t_reshape T x) i = tget [] x (unravel (tshape x) (ravel T i)).
Proof. exact @reshape_raw. Qed.
(* permute (transpose, swapaxes, swapdims, movedim, moveaxis) with the last dimension kept last *)
Theorem C06_permute_items : forall (E : Type) (dE : E) (x : tensor (list E)), items_ok x -> forall p,
  is_perm p (length (tshape x)) ->
  t_permute dE (p ++ [length (tshape x)]) (raw x) = raw (t_permute [] p x) /\ items_ok (t_permute [] p x) /\
  forall i, valid_idx (map (fun m => nth m (tshape x) 0) p) i -> tget [] (t_permute [] p x) i = tget [] x (unperm p i).
Proof. exact @permute_raw. Qed.
(* cat / concat along a batch dimension: the items of x followed (in dimension k) by the items of y *)
Theorem C06_cat_items : forall (E : Type) (dE : E) (x y : tensor (list E)) k e2,
  items_ok x -> items_ok y -> tdim y = tdim x -> k < length (tshape x) -> tshape y = set_at k e2 (tshape x) ->
  t_cat dE k (raw x) (raw y) = raw (t_cat [] k x y) /\ items_ok (t_cat [] k x y) /\
  forall i, valid_idx (set_at k (nth k (tshape x) 0 + e2) (tshape x)) i ->
    tget [] (t_cat [] k x y) i =
    if nth k i 0 <? nth k (tshape x) 0 then tget [] x i else tget [] y (set_at k (nth k i 0 - nth k (tshape x) 0) i).
Proof. exact @cat_raw. Qed.
(* stack at a batch position: item (.., j, ..) is the item of operand j *)
Theorem C06_stack_items : forall (E : Type) (dE : E) (x0 : tensor (list E)) (xs : list (tensor (list E))) k,
  Forall (fun x => items_ok x /\ tshape x = tshape x0 /\ tdim x = tdim x0) xs -> k <= length (tshape x0) ->
  t_stack dE k (raw x0) (map raw xs) = raw (t_stack [] k x0 xs) /\ items_ok (t_stack [] k x0 xs) /\
  forall i, valid_idx (ins_at k (length xs) (tshape x0)) i ->
    tget [] (t_stack [] k x0 xs) i = tget [] (nth (nth k i 0) xs x0) (del_at k i).
Proof. exact @stack_raw. Qed.
(* the scatter family (select_scatter, index_copy, index_put, scatter with an index that does not depend on the position
   inside an item): result = src[phi i] where sel i holds, x[i] elsewhere; selection and index map act on the batch part *)
Theorem C06_overwrite_items : forall (E : Type) (dE : E) (x src : tensor (list E)) (sel : list nat -> bool) (phi : list nat -> list nat),
  items_ok x -> items_ok src -> tdim src = tdim x ->
  (forall i, valid_idx (tshape x) i -> sel i = true -> valid_idx (tshape src) (phi i)) ->
  t_overwrite dE (fun j => sel (removelast j)) (fun j => phi (removelast j) ++ [last j 0]) (raw x) (raw src)
    = raw (t_overwrite [] sel phi x src) /\
  items_ok (t_overwrite [] sel phi x src) /\
  forall i, valid_idx (tshape x) i ->
    tget [] (t_overwrite [] sel phi x src) i = if sel i then tget [] src (phi i) else tget [] x i.
Proof. exact @overwrite_raw. Qed.
Theorem C06_select_scatter_items : forall (E : Type) (dE : E) (x src : tensor (list E)) k m,
  items_ok x -> items_ok src -> tdim src = tdim x -> tshape src = del_at k (tshape x) ->
  let sel := fun i => nth k i 0 =? m in
  t_overwrite dE (fun j => sel (removelast j)) (fun j => del_at k (removelast j) ++ [last j 0]) (raw x) (raw src)
    = raw (t_overwrite [] sel (del_at k) x src) /\
  forall i, valid_idx (tshape x) i ->
    tget [] (t_overwrite [] sel (del_at k) x src) i = if nth k i 0 =? m then tget [] src (del_at k i) else tget [] x i.
Proof. exact @select_scatter_raw. Qed.
(* chains of any length of such calls (X[1].unsqueeze(0).expand(4,3).permute(1,0) ...), on every shape, and the wrap
   rule on the result: the raw result is the raw tensor of the item-level result r, which comes back as a LieTensor of
   the argument's ltype with lshape (tshape r) and no warning *)
Theorem C06_shape_only_chain : forall (E : Type) (dE : E) (ops : list sop) (x : tensor (list E)) name lt rest lts kws,
  items_ok x -> ops_ok ops x -> handled name = true -> lts ++ kws = lt :: rest -> tdim x = dimension lt ->
  let r := run_ops [] ops x in
  run_ops dE (lift_ops ops x) (raw x) = raw r /\ items_ok r /\
  torch_function (Some name) (Some [LPlain (tshape (raw r))]) lts kws = TFData [LLie (Some lt) (tshape r ++ [dimension lt])] [false].
Proof.
  intros E dE ops x name lt rest lts kws OK O H El Dx r. destruct (ops_raw dE ops x OK O) as (A & B & C).
  split; [exact A|]. split; [exact B|]. exact (shape_only_result name lt rest lts kws x r H El Dx C).
Qed.
Example C06_shape_only_chain_example :
  let x := tabulate [2; 3] 4 (fun i => map (fun c => 100 * nth 0 i 0 + 10 * nth 1 i 0 + c) (seq 0 4)) in
  let ops := [OSelect 0 1; OUnsqueeze 0; OExpand [4; 3]; OPermute [1; 0]] in
  items_ok x /\ ops_ok ops x /\ tshape (run_ops [] ops x) = [3; 4] /\
  tget [] (run_ops [] ops x) [2; 3] = [120; 121; 122; 123] /\
  run_ops 0 (lift_ops ops x) (raw x) = raw (run_ops [] ops x) /\
  torch_function (Some "permute"%string) (Some [LPlain (tshape (raw (run_ops [] ops x)))]) [SO3_t] [] = TFData [LLie (Some SO3_t) [3; 4; 4]] [false].
Proof. exact chain_example. Qed.

(* instances of the other functions on the same X: X.narrow(1, 1, 2), X.view(3, 2, 4), cat([X, X], 0), stack([X, X], 1),
   X.select_scatter(X[1], 0, 0); raw-tensor results = raw of item-level results, and a selected item *)
Example C06_shape_only_instances :
  let x := tabulate [2; 3] 4 (fun i => map (fun c => 100 * nth 0 i 0 + 10 * nth 1 i 0 + c) (seq 0 4)) in
  let x1 := t_select [] 0 1 x in
  t_remap 0 1 2 (fun j => 1 + nth 1 (removelast j) 0) (raw x) = raw (t_remap [] 1 2 (fun i => 1 + nth 1 i 0) x) /\
  tget [] (t_remap [] 1 2 (fun i => 1 + nth 1 i 0) x) [1; 1] = [120; 121; 122; 123] /\
  t_reshape [3; 2; 4] (raw x) = raw (t_reshape [3; 2] x) /\ tget [] (t_reshape [3; 2] x) [2; 1] = [120; 121; 122; 123] /\
  t_cat 0 0 (raw x) (raw x) = raw (t_cat [] 0 x x) /\ tget [] (t_cat [] 0 x x) [3; 2] = [120; 121; 122; 123] /\
  t_stack 0 1 (raw x) [raw x; raw x] = raw (t_stack [] 1 x [x; x]) /\ tshape (t_stack [] 1 x [x; x]) = [2; 2; 3] /\
  t_overwrite 0 (fun j => nth 0 (removelast j) 0 =? 0) (fun j => del_at 0 (removelast j) ++ [last j 0]) (raw x) (raw x1)
    = raw (t_overwrite [] (fun i => nth 0 i 0 =? 0) (del_at 0) x x1) /\
  tget [] (t_overwrite [] (fun i => nth 0 i 0 =? 0) (del_at 0) x x1) [0; 2] = [120; 121; 122; 123].
Proof. repeat split; vm_compute; reflexivity. Qed.

(* ---------- 3'. retain_ltype: what the calls inside see ---------- *)
(* for EVERY body: each call through a patched attribute goes through exactly (layers before entry) + 1 + (number of
   enclosing nested contexts) wrappers -- in particular after a nested context has been left the calls go through the
   enclosing context's wrapper again, not the torch original; the trace stops at the first exception (in the model's
   body language an exception propagates to the outermost context).  [trace_at] is computed from the body alone. *)
Theorem C06_retain_ltype_call_trace : forall b s, sites_defined s ->
  let '(_, raised, t) := with_retain_ltype b s in
  (t, raised) = trace_at b (fun x => S (layers (site_val s x))).
Proof. exact retain_ltype_trace. Qed.
Example C06_retain_ltype_states2 : sites_defined normal /\
  (forall x, layers (site_val pristine x) = 0 /\ layers (site_val normal x) = 0) /\
  trace_at (BCall S_add_batch (BNest (BCall S_add_batch BRaise) (BCall S_make_dual BRet))) (fun _ => 1)
  = ([(S_add_batch, 1); (S_add_batch, 2)], true) /\
  trace_at (BNest (BCall S_wrap_grad BRet) (BCall S_wrap_grad BRet)) (fun _ => 1) = ([(S_wrap_grad, 2); (S_wrap_grad, 1)], false).
Proof. split; [exact normal_defined|]. split; [exact pristine_depth|]. split; reflexivity. Qed.

(* the body language extended by `try: b except: pass` then k (Proofs/Patch2.v; retain_ltype itself as in the model,
   [embed] = the model's bodies): an exception raised any number of contexts deep may be caught by the user's function at
   any enclosing level and execution goes on -- still every attribute and every __module__ is restored at the end, and
   the calls made after the catch go through the wrappers of the contexts that are still open *)
Theorem C06_retain_ltype_with_caught_exceptions : forall b s, sites_defined s ->
  let '(s', raised, t) := xrun (XNest b XRet) s in
  (forall k, getattr s' k = getattr s k) /\ (forall f, fmod s' f = fmod s f) /\
  (t, raised) = xtrace_at b (fun x => S (layers (site_val s x))).
Proof. exact retain_ltype_catching. Qed.
Theorem C06_caught_exceptions_extend_the_model : forall b s, xrun (embed b) s = run b s.
Proof. exact xrun_embed. Qed.
Example C06_caught_exception_example :
  xtrace_at (XTry (XNest (XNest (XCall S_add_batch XRaise) XRet) XRet) (XCall S_add_batch XRet)) (fun _ => 1)
  = ([(S_add_batch, 3); (S_add_batch, 1)], false).
Proof. reflexivity. Qed.

(* ---------- 4'. non-mutation: views that are copies; guarded functions ---------- *)
(* whether an intermediate is a view or a copy depends on the input (contiguity, dtype, need to expand): a transcription
   proved pure with views everywhere stays pure when any of its views is replaced by a copy (kernels, read sets and
   branch conditions are free) *)
Theorem C06_pure_when_views_become_copies : forall (D : Type) (d0 : D) (p' p : prog D) (args : list D),
  refines D p' p -> may_mutate D (length args) p = [] -> post_args D d0 p' args = args.
Proof. exact pure_under_copies. Qed.
Example C06_refines_instances : forall D K cx cy,
  refines D (p_binop D K cx cy) (p_binop D K false false) /\ refines D (p_retr D K cx cy) (p_retr D K false false).
Proof. intros. split; [apply binop_refines|apply retr_refines]. Qed.
(* stronger than "the values are the same afterwards": [writes] lists the storages written DURING the run, in order
   (it is the write set of the run: any other storage keeps its contents); a function that passes the check never
   writes into an argument's storage at any time -- no write-and-restore, which would still bump the version counter *)
Theorem C06_pure_functions_never_write_arguments : forall (D : Type) (d0 : D) (p : prog D) (args : list D),
  may_mutate D (length args) p = [] ->
  forall id, In id (writes D d0 p (fun v => v) args) -> length args <= id.
Proof. exact never_writes_arguments. Qed.
Theorem C06_write_set_is_the_write_set : forall (D : Type) (d0 : D) (p : prog D) env st id,
  id < length st -> ~ In id (writes D d0 p env st) -> nth id (fst (exec D d0 p env st)) d0 = nth id st d0.
Proof. exact unwritten_kept. Qed.
(* homo2cart (the guard clamp_ writes into the result of abs(), not into the caller's tensor) and point2pixel (with and
   without extrinsics), transcribed in Proofs/Patch2.v: arguments unchanged whatever the kernels compute, i.e. for
   w = 0, signed zeros, subnormals, ... alike.  (These two transcriptions are not in the harness's effect table; the
   purity sweep runs the functions on such special values.) *)
Theorem C06_guarded_geometry_functions_do_not_mutate : forall (D : Type) (d0 : D) (K : nat -> list D -> D),
  (forall X, post_args D d0 (p_homo2cart D K) [X] = [X]) /\
  (forall e P Kc Ex, post_args D d0 (p_point2pixel D K e) [P; Kc; Ex] = [P; Kc; Ex]).
Proof. exact geometry_pure. Qed.
(* functions WITH a trailing underscore write into self only *)
Example C06_underscore_functions_write_self_only : forall (D : Type) (K : nat -> list D -> D) n,
  may_mutate D 2 (p_add_ D K) = [0] /\ (forall a, In a (may_mutate D 1 (p_cumops_ D K n)) -> a = 0).
Proof.
  intros D K n. split; [reflexivity|]. unfold may_mutate, p_cumops_.
  assert (G : forall m T, T 0 = Some 0 -> forall a, In a (mut D (p_cumops_loop D K m 0) T) -> a = 0).
  { induction m; intros T H a Ha; simpl in Ha; [contradiction|].
    assert (E : upd (upd (upd T 10 None) 11 None) 12 None 0 = Some 0) by (unfold upd; simpl; exact H).
    rewrite E in Ha. destruct Ha as [<-|Ha]; [reflexivity|]. eapply IHm; eauto. }
  apply G. reflexivity.
Qed.
(* the check is not blind to that guard: applied to the view itself it is reported, and does overwrite caller data *)
Theorem C06_guard_on_view_is_reported : forall (D : Type) (K : nat -> list D -> D),
  may_mutate D 1 (p_homo2cart_guard_on_view D K) = [0].
Proof. exact homo2cart_guard_on_view_reported. Qed.

Print Assumptions C06_broadcast_inputs_spec. Print Assumptions C06_mul_batched. Print Assumptions C06_act_batched.
Print Assumptions C06_adj_batched. Print Assumptions C06_unary_batched. Print Assumptions C06_broadcast_inputs_one_arg.
Print Assumptions C06_wrap_decision. Print Assumptions C06_wrap_kwargs_old_refuted.
Print Assumptions C06_retain_ltype_restores.
Print Assumptions C06_retain_ltype_module_rewrite_old_refuted. Print Assumptions C06_retain_ltype_nested_old_refuted.
Print Assumptions C06_pure_ops_do_not_mutate. Print Assumptions C06_unreported_arguments_are_kept.
Print Assumptions C06_quat2unit_old_refuted. Print Assumptions C06_matching_time_indices_old_refuted.
Print Assumptions C06_cg_initial_guess_old_refuted. Print Assumptions C06_write_check_old_reports.
Print Assumptions C06_batched_is_item_by_item. Print Assumptions C06_wrap_nameless.
Print Assumptions C06_pure_functions_never_write_arguments. Print Assumptions C06_write_set_is_the_write_set.
Print Assumptions C06_every_position_is_one_index. Print Assumptions C06_tensor_determined_by_items.
Print Assumptions C06_broadcast_shapes_rule. Print Assumptions C06_broadcast_shapes_laws.
Print Assumptions C06_tie_table_is_the_index_map. Print Assumptions C06_source_index_by_dimension. Print Assumptions C06_matrix_batched. Print Assumptions C06_retr_batched.
Print Assumptions C06_result_ltype_dimension.
Print Assumptions C06_wrap_keeps_ltype_every_shape. Print Assumptions C06_wrap_warns_iff_last_dimension_changed.
Print Assumptions C06_wrap_first_lietensor_only.
Print Assumptions C06_last_dimension_intact_selects_items. Print Assumptions C06_reindex_selects_items.
Print Assumptions C06_select_items. Print Assumptions C06_remap_items. Print Assumptions C06_unsqueeze_items.
Print Assumptions C06_expand_items. Print Assumptions C06_expand_is_the_modelled_view. Print Assumptions C06_reshape_items.
Print Assumptions C06_permute_items. Print Assumptions C06_cat_items. Print Assumptions C06_stack_items.
Print Assumptions C06_overwrite_items. Print Assumptions C06_select_scatter_items.
Print Assumptions C06_shape_only_chain.
Print Assumptions C06_retain_ltype_call_trace. Print Assumptions C06_retain_ltype_with_caught_exceptions.
Print Assumptions C06_caught_exceptions_extend_the_model.
Print Assumptions C06_pure_when_views_become_copies. Print Assumptions C06_guarded_geometry_functions_do_not_mutate.
Print Assumptions C06_guard_on_view_is_reported.
