(* C18 -- point-cloud filters and camera helpers match their brute-force definitions.
   Statements only (over R unless a witness is computed over Q); proofs in Proofs/Cloud.v and, for the
   second round at the end of the file, Proofs/Cloud2.v .. Cloud5.v.
   Distances: [Rdist o] / [Rpdist o pd] are the true norms (sqrt for o = L2); the executed model
   decides everything on the measure [dmeas] (squared for L2): C18_norm2_via_squares and
   C18_radius_test_is_norm_test tie the two. *)
From Coq Require Import QArith.
Close Scope Q_scope.
From Coq Require Import ZArith Reals List Permutation Sorted.
Import ListNotations.
From PV Require Import Base.Num Model.LieGroup Model.Cloud Proofs.Cloud Proofs.Cloud2 Proofs.Cloud3 Proofs.Cloud4 Proofs.Cloud5.
Local Open Scope R_scope.
#[local] Remove Hints NumQ NumZ : typeclass_instances.

(* ------------------------------------------------------------------ knn *)
(* for every reference point: k entries, distinct in-range indices, each value is the distance at
   its index, values ascending, every non-selected neighbour is at least as far; raises exactly
   when k exceeds the number of neighbours (all sizes, any distance function, ties allowed) *)
Theorem C18_knn_spec : forall (o : ord) (ref nbr : cloudR) (k : nat),
  ((k <= length nbr)%nat ->
     exists res, knn_gen (Rdist o) ref nbr k = Some res /\
                 Forall2 (fun r row => topk_contract (map (Rdist o r) nbr) k row) ref res) /\
  ((length nbr < k)%nat -> ref <> [] -> knn_gen (Rdist o) ref nbr k = None).
Proof. intros o. exact (knn_spec (Rdist o)). Qed.
Print Assumptions C18_knn_spec.

(* the executed model (squared distances for norm 2) returns the same indices and the squares of
   the values *)
Theorem C18_norm2_via_squares : forall (ref nbr : cloudR) (k : nat),
  knn_gen (Rdist L2) ref nbr k = option_map (map (map sqrt_fst)) (knn_meas L2 ref nbr k).
Proof. exact knn_norm2_via_squares. Qed.
Print Assumptions C18_norm2_via_squares.

Theorem C18_radius_test_is_norm_test : forall o pd r (p q : vecR),
  within o pd r p q = true <-> Rpdist o pd p q <= r.
Proof. exact within_spec. Qed.
Print Assumptions C18_radius_test_is_norm_test.

(* permuting the neighbour cloud leaves the returned distances unchanged (indices follow) *)
Theorem C18_knn_values_perm : forall (o : ord) (ref nbr nbr' : cloudR) (k : nat), Permutation nbr nbr' ->
  option_map (map (map fst)) (knn_gen (Rdist o) ref nbr k) = option_map (map (map fst)) (knn_gen (Rdist o) ref nbr' k).
Proof. intros o. exact (knn_values_perm (Rdist o)). Qed.
Print Assumptions C18_knn_values_perm.

(* ------------------------------------------------------------------ nbr_filter *)
(* output = the kept points in order + the mask; for EVERY position of the cloud the point is kept
   iff at least [nbr] of the other points lie within the radius (true norm) *)
Theorem C18_nbr_filter_spec : forall o pd (pts : cloudR) nbr r,
  nbr_filter o pd pts nbr r = (filter (nbr_keep o pd pts nbr r) pts, map (nbr_keep o pd pts nbr r) pts) /\
  (0 <= r -> forall pre p post, pts = pre ++ p :: post ->
     (nbr_keep o pd pts nbr r p = true <-> (nbr <= Z.of_nat (n_within o pd r p (pre ++ post)))%Z)).
Proof.
  intros o pd pts nbr r. split; [apply nbr_filter_eq|].
  intros Hr pre p post ->. now apply nbr_keep_spec.
Qed.
Print Assumptions C18_nbr_filter_spec.

Theorem C18_nbr_filter_perm : forall o pd (pts pts' : cloudR) nbr r, Permutation pts pts' ->
  Permutation (fst (nbr_filter o pd pts nbr r)) (fst (nbr_filter o pd pts' nbr r)).
Proof. exact nbr_filter_perm. Qed.
Print Assumptions C18_nbr_filter_perm.

(* ------------------------------------------------------------------ voxel_filter (centroid) *)
(* for any [unique] satisfying the contract of torch.unique: one row per occupied voxel, in
   lexicographic order of the integer voxel index, each the centroid (all channels) of the points
   whose index is that key *)
Theorem C18_voxel_filter_spec : forall unique, uniq_contract unique ->
  forall (pts : cloudR) (voxel : vecR), pts <> [] -> Forall (fun v => v <> 0) voxel ->
  let keys := fst (unique (map (vox_of pts voxel) pts)) in
  voxel_filter unique pts voxel =
    Some (map (fun key => vmean (length (hd [] pts)) (vox_members pts voxel key)) keys) /\
  StronglySorted lex_lt keys /\
  (forall key, In key keys <-> exists p, In p pts /\ vox_of pts voxel p = key).
Proof. exact voxel_filter_spec. Qed.
Print Assumptions C18_voxel_filter_spec.

(* channel j of the sum of rows is the sum of channel j *)
Theorem C18_centroid_channels : forall D (rows : cloudR) j, Forall (fun p => length p = D) rows ->
  nth j (vsum D rows) 0 = fold_right Rplus 0 (map (fun p => nth j p 0) rows).
Proof. exact nth_vsum. Qed.
Print Assumptions C18_centroid_channels.

(* the contract is satisfiable: the executable instance used by the tie *)
Theorem C18_unique_contract_satisfiable : uniq_contract unique_sort.
Proof. exact unique_sort_contract. Qed.
Print Assumptions C18_unique_contract_satisfiable.

(* the output does not depend on the order of the points at all *)
Theorem C18_voxel_filter_perm : forall unique, uniq_contract unique ->
  forall (pts pts' : cloudR) (voxel : vecR) D,
  pts <> [] -> Forall (fun v => v <> 0) voxel -> Forall (fun p => length p = D) pts ->
  Permutation pts pts' -> voxel_filter unique pts voxel = voxel_filter unique pts' voxel.
Proof. exact voxel_filter_perm. Qed.
Print Assumptions C18_voxel_filter_perm.

(* HISTORY (source before fix 104c370, model [voxel_filter_random_old]): random=True raised for a
   1-point cloud and returned a bare row of shape (D,) instead of (1, D) when N > 1 points fell into
   a single voxel; the current model returns the 1 x D result (evaluated over Q) *)
Theorem C18_voxel_random_single_voxel_refuted :
  (exists (pts : list (list Q)) (voxel : list Q), length pts = 1%nat /\
      voxel_filter_random_old (NF:=NumQ) unique_sort argsort_ins [0%nat] pts voxel = VRaise /\
      voxel_filter_random (NF:=NumQ) unique_sort argsort_ins [0%nat] pts voxel = Some pts) /\
  (exists (pts : list (list Q)) (voxel : list Q) r, length pts = 2%nat /\
      voxel_filter_random_old (NF:=NumQ) unique_sort argsort_ins [1%nat] pts voxel = VRow r /\
      voxel_filter_random (NF:=NumQ) unique_sort argsort_ins [1%nat] pts voxel = Some [r]).
Proof. exact voxel_random_single_refuted. Qed.
Print Assumptions C18_voxel_random_single_voxel_refuted.

(* random=True, every non-empty cloud: one row per occupied voxel, row k a member of voxel k, for
   any unique / argsort satisfying their contracts and any RNG draws below the voxel counts *)
Theorem C18_voxel_filter_random_spec : forall unique argsort, uniq_contract unique -> argsort_contract argsort ->
  forall (draws : list nat) (pts : cloudR) (voxel : vecR),
  Forall (fun v => v <> 0) voxel -> pts <> [] ->
  let keys := fst (unique (map (vox_of pts voxel) pts)) in
  let inv := snd (unique (map (vox_of pts voxel) pts)) in
  length draws = length keys ->
  (forall k, (k < length keys)%nat -> (nth k draws 0 < length (filter (Nat.eqb k) inv))%nat) ->
  exists sel, voxel_filter_random unique argsort draws pts voxel = Some sel /\ length sel = length keys /\
              forall k, (k < length keys)%nat -> In (nth k sel []) (vox_members pts voxel (nth k keys [])).
Proof. exact voxel_filter_random_spec. Qed.
Print Assumptions C18_voxel_filter_random_spec.

Theorem C18_argsort_contract_satisfiable : argsort_contract argsort_ins.
Proof. exact argsort_ins_contract. Qed.
Print Assumptions C18_argsort_contract_satisfiable.

(* ------------------------------------------------------------------ knn_filter *)
(* no radius, ties excluded: every point is replaced by the mean of the k+1 points with fewer
   than k+1 points strictly closer -- itself and its k nearest neighbours *)
Theorem C18_knn_filter_spec : forall o pd (pts : cloudR) k,
  (S k <= length pts)%nat -> (forall p, In p pts -> NoDup (map (Rpdist o pd p) pts)) ->
  knn_filter o pd pts k None = Some (map (fun p => vmean (length p) (knn_nbhd (Rpdist o pd) k pts p)) pts).
Proof. exact knn_filter_spec_R. Qed.
Print Assumptions C18_knn_filter_spec.

Theorem C18_knn_nbhd_is_self_and_k_nearest : forall o pd (pts : cloudR) k p,
  (S k <= length pts)%nat -> In p pts -> NoDup (map (Rpdist o pd p) pts) ->
  length (knn_nbhd (Rpdist o pd) k pts p) = S k /\ In p (knn_nbhd (Rpdist o pd) k pts p) /\
  (forall q q', In q (knn_nbhd (Rpdist o pd) k pts p) -> In q' pts -> ~ In q' (knn_nbhd (Rpdist o pd) k pts p) ->
                Rpdist o pd p q < Rpdist o pd p q').
Proof. exact knn_nbhd_props. Qed.
Print Assumptions C18_knn_nbhd_is_self_and_k_nearest.

(* ties allowed: every row is the mean of a selection satisfying the topk contract; raises iff
   k + 1 exceeds the number of points *)
Theorem C18_knn_filter_spec_ties : forall o pd (pts : cloudR) k,
  ((S k <= length pts)%nat ->
   exists out, knn_filter o pd pts k None = Some out /\
     Forall2 (fun p row => exists res, topk_contract (map (pdist o pd p) pts) (S k) res /\
                 row = vmean (length p) (map (fun j => nth j pts []) (map snd res))) pts out) /\
  (forall r, (length pts < S k)%nat -> knn_filter o pd pts k r = None).
Proof.
  intros o pd pts k. split.
  - exact (knn_filter_spec_ties (pdist o pd) (meas_le o) pts k).
  - intros r. exact (knn_filter_raises (pdist o pd) (meas_le o) pts k r).
Qed.
Print Assumptions C18_knn_filter_spec_ties.

(* radius branch: the retained points are exactly those with at least k others within the radius
   (C18_nbr_filter_spec, radius >= 0), in order, each replaced by the mean of itself and its k
   nearest neighbours among ALL points *)
Theorem C18_knn_filter_radius_spec : forall o pd (pts : cloudR) k r,
  (S k <= length pts)%nat -> (forall p, In p pts -> NoDup (map (Rpdist o pd p) pts)) ->
  knn_filter o pd pts k (Some r) =
  Some (map (fun p => vmean (length p) (knn_nbhd (Rpdist o pd) k pts p))
            (filter (nbr_keep o pd pts (Z.of_nat k) r) pts)).
Proof. exact knn_filter_radius_spec_R. Qed.
Print Assumptions C18_knn_filter_radius_spec.

(* HISTORY (source before fix c6053fe, model [knn_filter_old]): the indices of the unfiltered cloud
   were used on the filtered one.  With one outlier in front of two inliers the old model raises
   (so did /repo), while the property -- and the current model -- give the two means [1/2] *)
Theorem C18_knn_filter_radius_refuted :
  exists (pts : list (list Q)) (k : nat) (r : Q),
    knn_filter_old (NF:=NumQ) L1 1 pts k (Some r) = None /\
    knn_filter (NF:=NumQ) L1 1 pts k (Some r) = Some [[Qmake 1 2]; [Qmake 1 2]].
Proof. exact knn_filter_radius_refuted. Qed.
Print Assumptions C18_knn_filter_radius_refuted.

Theorem C18_knn_filter_perm : forall o pd (pts pts' : cloudR) k,
  (S k <= length pts)%nat -> (forall p, In p pts -> NoDup (map (Rpdist o pd p) pts)) -> Permutation pts pts' ->
  exists out out', knn_filter o pd pts k None = Some out /\
                   knn_filter o pd pts' k None = Some out' /\ Permutation out out'.
Proof. exact knn_filter_perm_R. Qed.
Print Assumptions C18_knn_filter_perm.

(* the hypotheses are satisfiable *)
Example C18_no_ties_example :
  forall p, In p [[0]; [1]; [3]; [7]] -> NoDup (map (Rpdist L1 1 p) [[0]; [1]; [3]; [7]]).
Proof. exact no_ties_example. Qed.

(* ------------------------------------------------------------------ random_filter *)
(* given the permutation drawn by the RNG: distinct positions of the input, num of them;
   raises iff num exceeds the number of points *)
Theorem C18_random_filter_distinct : forall (perm : list nat) (pts : cloudR) num,
  Permutation perm (seq 0 (length pts)) ->
  ((num <= length pts)%nat ->
     random_filter perm pts num = Some (map (fun i => nth i pts []) (firstn num perm)) /\
     NoDup (firstn num perm) /\ length (firstn num perm) = num /\
     (forall i, In i (firstn num perm) -> (i < length pts)%nat)) /\
  ((length pts < num)%nat -> random_filter perm pts num = None).
Proof. exact random_filter_spec. Qed.
Print Assumptions C18_random_filter_distinct.

Theorem C18_random_filter_equivariant : forall (sigma perm : list nat) (pts : cloudR) num,
  Permutation sigma (seq 0 (length pts)) -> Permutation perm (seq 0 (length pts)) ->
  random_filter perm (map (fun i => nth i pts []) sigma) num =
    random_filter (map (fun i => nth i sigma 0%nat) perm) pts num /\
  Permutation (map (fun i => nth i sigma 0%nat) perm) (seq 0 (length pts)).
Proof. exact random_filter_equiv. Qed.
Print Assumptions C18_random_filter_equivariant.

(* ------------------------------------------------------------------ camera helpers *)
Theorem C18_homo_cart_roundtrip : forall tiny (p : vecR), 0 < tiny <= 1 -> homo2cart tiny (cart2homo p) = p.
Proof. exact homo_cart_roundtrip. Qed.
Print Assumptions C18_homo_cart_roundtrip.

(* pinhole intrinsics with non-zero focal lengths, depths of magnitude >= tiny (the clamp of
   homo2cart): pixel2point and point2pixel are mutually inverse; pixel2point raises iff a focal
   length is zero *)
Theorem C18_pixel_point_inverse : forall tiny fx fy cx cy, 0 < tiny -> fx <> 0 -> fy <> 0 ->
  let K := pinhole fx fy cx cy in
  (forall (pix : cloudR) (depth : vecR),
      Forall (fun px => length px = 2%nat) pix -> length depth = length pix ->
      Forall (fun z => tiny <= Rabs z) depth ->
      exists pts, pixel2point K pix depth = Some pts /\ point2pixel tiny K None pts = pix) /\
  (forall pts : cloudR,
      Forall (fun p => length p = 3%nat /\ tiny <= Rabs (nth 2 p 0)) pts ->
      pixel2point K (point2pixel tiny K None pts) (map (fun p => nth 2 p 0) pts) = Some pts).
Proof. exact pixel_point_inverse. Qed.
Print Assumptions C18_pixel_point_inverse.

Theorem C18_pixel2point_raises : forall fx fy cx cy (pix : cloudR) (depth : vecR), fx = 0 \/ fy = 0 ->
  pixel2point (pinhole fx fy cx cy) pix depth = None.
Proof. exact pixel2point_raises. Qed.
Print Assumptions C18_pixel2point_raises.

(* extrinsics only move the points *)
Theorem C18_point2pixel_extrinsics : forall tiny K X (pts : cloudR),
  point2pixel tiny K (Some X) pts = point2pixel tiny K None (map (extr_act (Some X)) pts).
Proof. exact point2pixel_extr. Qed.
Print Assumptions C18_point2pixel_extrinsics.

(* any intrinsics, any extrinsics: zero on the pixels produced by point2pixel, and only on them
   (all three reductions) *)
Theorem C18_reprojerr_zero : forall tiny K T (pts : cloudR),
  let pix := point2pixel tiny K T pts in
  Forall (Forall (fun x => x = 0)) (reprojerr_none tiny K T pts pix) /\
  Forall (fun x => x = 0) (reprojerr_sum tiny K T pts pix) /\
  Forall (fun x => x = 0) (reprojerr_norm tiny K T pts pix).
Proof. exact reprojerr_zero. Qed.
Print Assumptions C18_reprojerr_zero.

Theorem C18_reprojerr_zero_only : forall tiny K T (pts pix : cloudR),
  Forall2 (fun p px => length px = length (point2pixel1 tiny K T p)) pts pix ->
  (Forall (Forall (fun x => x = 0)) (reprojerr_none tiny K T pts pix) -> pix = point2pixel tiny K T pts) /\
  (Forall (fun x => x = 0) (reprojerr_sum tiny K T pts pix) -> pix = point2pixel tiny K T pts) /\
  (Forall (fun x => x = 0) (reprojerr_norm tiny K T pts pix) -> pix = point2pixel tiny K T pts).
Proof. exact reprojerr_zero_only. Qed.
Print Assumptions C18_reprojerr_zero_only.

(* HISTORY (source before fix 9117fdb, [reproj_sum1_old]): reduction='sum' (documented as the L1
   norm) was a signed sum, zero on non-matching pixels *)
Theorem C18_reprojerr_sum_refuted : forall tiny, 0 < tiny <= 1 ->
  exists (K : cloudR) (p px : vecR), px <> point2pixel1 tiny K None p /\ reproj_sum1_old tiny K None p px = 0.
Proof. exact reproj_sum_refuted. Qed.
Print Assumptions C18_reprojerr_sum_refuted.

(* ==================================================================================================
   Second round (Proofs/Cloud2.v, Cloud3.v, Cloud4.v): weaker hypotheses, all-input forms, guards.
   ================================================================================================== *)

(* ------------------------------------------------------------------ knn: the contract pins the answer *)
(* without ties in the row the topk contract has exactly one solution: whatever torch returns (the
   tie checks it against the contract) is the model's answer, indices included *)
Theorem C18_topk_contract_unique : forall (row : vecR) k (res res' : list (R * nat)),
  NoDup row -> topk_contract row k res -> topk_contract row k res' -> res = res'.
Proof. exact topk_contract_unique. Qed.
Print Assumptions C18_topk_contract_unique.

(* ties allowed: a valid selection for the permuted row, with its indices mapped through the
   permutation, is a valid selection for the original row *)
Theorem C18_topk_contract_perm : forall (row : vecR) (sigma : list nat) k (res' : list (R * nat)),
  Permutation sigma (seq 0 (length row)) ->
  topk_contract (map (fun i => nth i row 0) sigma) k res' ->
  topk_contract row k (map (fun vj => (fst vj, nth (snd vj) sigma 0%nat)) res').
Proof. exact topk_contract_perm. Qed.
Print Assumptions C18_topk_contract_perm.

(* knn on a permuted neighbour cloud nbr' = nbr[sigma], no ties: the same distances, and the index
   returned into nbr' is carried by sigma to the index returned into nbr *)
Theorem C18_knn_index_equivariant : forall (o : ord) (ref nbr : cloudR) (sigma : list nat) k,
  Permutation sigma (seq 0 (length nbr)) -> (k <= length nbr)%nat ->
  (forall r, In r ref -> NoDup (map (Rdist o r) nbr)) ->
  exists res res', knn_gen (Rdist o) ref nbr k = Some res /\
    knn_gen (Rdist o) ref (map (fun i => nth i nbr []) sigma) k = Some res' /\
    Forall2 (fun row row' => row = map (fun vj => (fst vj, nth (snd vj) sigma 0%nat)) row') res res'.
Proof. intros o. exact (knn_index_equivariant (Rdist o)). Qed.
Print Assumptions C18_knn_index_equivariant.

Example C18_knn_index_example : forall r, In r [[0]] -> NoDup (map (Rdist L1 r) [[1]; [3]]).
Proof. exact knn_index_example. Qed.

(* ------------------------------------------------------------------ nbr_filter, remaining cases *)
(* order-preserving equivariance: on a permuted cloud the same predicate decides every point, the
   kept rows keep the order of the permuted cloud and the mask is permuted like the input *)
Theorem C18_nbr_filter_equivariant : forall o pd (pts pts' : cloudR) nbr r, Permutation pts pts' ->
  nbr_filter o pd pts' nbr r = (filter (nbr_keep o pd pts nbr r) pts', map (nbr_keep o pd pts nbr r) pts').
Proof. exact nbr_filter_equiv. Qed.
Print Assumptions C18_nbr_filter_equivariant.

Theorem C18_nbr_filter_mask_equivariant : forall o pd (pts : cloudR) (sigma : list nat) nbr r,
  Permutation sigma (seq 0 (length pts)) ->
  snd (nbr_filter o pd (map (fun i => nth i pts []) sigma) nbr r) =
  map (fun i => nth i (snd (nbr_filter o pd pts nbr r)) false) sigma.
Proof. exact nbr_filter_mask_equiv. Qed.
Print Assumptions C18_nbr_filter_mask_equivariant.

(* thresholds outside 1..N-1: nbr >= N removes everything (any radius, also the empty cloud);
   nbr <= 0 with radius >= 0 keeps everything *)
Theorem C18_nbr_filter_degenerate : forall o pd (pts : cloudR) nbr r,
  ((Z.of_nat (length pts) <= nbr)%Z -> nbr_filter o pd pts nbr r = ([], map (fun _ => false) pts)) /\
  (0 <= r -> (nbr <= 0)%Z -> nbr_filter o pd pts nbr r = (pts, map (fun _ => true) pts)).
Proof. intros. split; [apply nbr_filter_all_removed | apply nbr_filter_all_kept]. Qed.
Print Assumptions C18_nbr_filter_degenerate.

(* radius < 0 (outside the hypothesis of C18_nbr_filter_spec): no point is within the radius of
   itself, the count is -1 for every point ... *)
Theorem C18_nbr_filter_negative_radius : forall o pd (pts : cloudR) nbr r p, r < 0 ->
  nbr_keep o pd pts nbr r p = (nbr <=? -1)%Z.
Proof. exact nbr_keep_neg_radius. Qed.
Print Assumptions C18_nbr_filter_negative_radius.
(* ... so the clause "kept iff at least nbr OTHER points within the radius" is false there: the
   single point of a 1-point cloud has 0 >= nbr = 0 others within radius -1 but is removed *)
Theorem C18_nbr_filter_negative_radius_refuted :
  exists (pts : cloudR) (nbr : Z) (r : R) (p : vecR),
    pts = [] ++ p :: [] /\ (nbr <= Z.of_nat (n_within L2 1 r p ([] ++ [])))%Z /\
    nbr_filter L2 1 pts nbr r = ([], [false]).
Proof. exact nbr_filter_neg_radius_refuted. Qed.
Print Assumptions C18_nbr_filter_negative_radius_refuted.

(* ------------------------------------------------------------------ voxel_filter: guards, geometry *)
(* raises exactly on the empty cloud or a zero voxel size (both variants raise there; for the other
   inputs C18_voxel_filter_spec / C18_voxel_filter_random_spec give the result) *)
Theorem C18_voxel_filter_raises : forall unique argsort draws (pts : cloudR) (voxel : vecR),
  (voxel_filter unique pts voxel = None <-> pts = [] \/ Exists (fun v => v = 0) voxel) /\
  (pts = [] \/ Exists (fun v => v = 0) voxel -> voxel_filter_random unique argsort draws pts voxel = None).
Proof. intros. split; [apply voxel_filter_none | apply voxel_filter_random_raises]. Qed.
Print Assumptions C18_voxel_filter_raises.

(* the shift is the coordinate-wise minimum of the cloud (a lower bound that is attained) *)
Theorem C18_voxel_origin_is_min : forall (pts : cloudR) (voxel : vecR) j,
  pts <> [] -> Forall (fun p => (length voxel <= length p)%nat) pts -> (j < length voxel)%nat ->
  length (vox_minp pts voxel) = length voxel /\
  (forall p, In p pts -> nth j (vox_minp pts voxel) 0 <= nth j p 0) /\
  (exists p, In p pts /\ nth j (vox_minp pts voxel) 0 = nth j p 0).
Proof. exact vox_minp_spec. Qed.
Print Assumptions C18_voxel_origin_is_min.

(* what "voxel" means: coordinate j of the integer index of p is c iff p lies in the |c|-th
   half-open cell of width |voxel_j| above the minimum; c has the sign of voxel_j.  (Truncation
   toward zero of a non-negative quotient; negative sizes mirror the numbering.) *)
Theorem C18_voxel_cell : forall (pts : cloudR) (voxel : vecR) (p : vecR) j (c : Z),
  Forall (fun q => (length voxel <= length q)%nat) pts -> Forall (fun v => v <> 0) voxel ->
  In p pts -> (j < length voxel)%nat ->
  let m := nth j (vox_minp pts voxel) 0 in
  let v := nth j voxel 0 in
  nth j (vox_of pts voxel p) 0%Z = c <->
  ((if Rlt_dec v 0 then (c <= 0)%Z else (0 <= c)%Z) /\
   IZR (Z.abs c) * Rabs v <= nth j p 0 - m < (IZR (Z.abs c) + 1) * Rabs v).
Proof. exact vox_cell. Qed.
Print Assumptions C18_voxel_cell.

(* every reported voxel is occupied (the centroid never divides by 0), every point belongs to
   exactly one reported voxel, and the count reported for voxel k is its number of members *)
Theorem C18_voxel_partition : forall unique, uniq_contract unique ->
  forall (pts : cloudR) (voxel : vecR),
  let keys := fst (unique (map (vox_of pts voxel) pts)) in
  let inv := snd (unique (map (vox_of pts voxel) pts)) in
  (forall key, In key keys -> vox_members pts voxel key <> []) /\
  (forall p, In p pts -> exists key, In key keys /\ In p (vox_members pts voxel key) /\
                                     forall key', In p (vox_members pts voxel key') -> key' = key) /\
  (forall k, (k < length keys)%nat ->
     length (filter (Nat.eqb k) inv) = length (vox_members pts voxel (nth k keys []))).
Proof.
  intros unique Hu pts voxel. split; [|split].
  - apply vox_members_nonempty, Hu.
  - apply vox_members_cover, Hu.
  - apply (vox_count_members unique Hu).
Qed.
Print Assumptions C18_voxel_partition.

(* random=True over every possible random choice, the bound on the draws stated on the members:
   whatever randint returns below the size of voxel k, row k is a member of voxel k *)
Theorem C18_voxel_filter_random_spec_members : forall unique argsort, uniq_contract unique -> argsort_contract argsort ->
  forall (draws : list nat) (pts : cloudR) (voxel : vecR),
  Forall (fun v => v <> 0) voxel -> pts <> [] ->
  let keys := fst (unique (map (vox_of pts voxel) pts)) in
  length draws = length keys ->
  (forall k, (k < length keys)%nat -> (nth k draws 0 < length (vox_members pts voxel (nth k keys [])))%nat) ->
  exists sel, voxel_filter_random unique argsort draws pts voxel = Some sel /\ length sel = length keys /\
              forall k, (k < length keys)%nat -> In (nth k sel []) (vox_members pts voxel (nth k keys [])).
Proof. intros unique argsort Hu Ha. exact (voxel_filter_random_spec_members unique Hu argsort Ha). Qed.
Print Assumptions C18_voxel_filter_random_spec_members.

(* the hypotheses on the draws are satisfiable for EVERY admissible cloud (all-zero draws) *)
Theorem C18_voxel_filter_random_nonvacuous : forall unique argsort, uniq_contract unique -> argsort_contract argsort ->
  forall (pts : cloudR) (voxel : vecR), Forall (fun v => v <> 0) voxel -> pts <> [] ->
  let keys := fst (unique (map (vox_of pts voxel) pts)) in
  exists sel, voxel_filter_random unique argsort (repeat 0%nat (length keys)) pts voxel = Some sel /\
              length sel = length keys /\
              forall k, (k < length keys)%nat -> In (nth k sel []) (vox_members pts voxel (nth k keys [])).
Proof. intros unique argsort Hu Ha. exact (voxel_filter_random_zero_draws unique Hu argsort Ha). Qed.
Print Assumptions C18_voxel_filter_random_nonvacuous.

(* ------------------------------------------------------------------ knn_filter, weakest no-tie hypothesis *)
(* both branches under "no tie at the k-th neighbour" only: exactly k+1 points have fewer than k+1
   points strictly closer.  Duplicate points and ties elsewhere are allowed (C18_boundary_example);
   the pairwise-different hypothesis of C18_knn_filter_spec implies this one. *)
Theorem C18_knn_filter_spec_boundary : forall o pd (pts : cloudR) k radius,
  (S k <= length pts)%nat ->
  (forall p, In p pts -> length (knn_nbhd (Rpdist o pd) k pts p) = S k) ->
  knn_filter o pd pts k radius =
  Some (map (fun p => vmean (length p) (knn_nbhd (Rpdist o pd) k pts p))
            (match radius with None => pts | Some r => filter (nbr_keep o pd pts (Z.of_nat k) r) pts end)).
Proof. exact knn_filter_spec_bd_R. Qed.
Print Assumptions C18_knn_filter_spec_boundary.

(* with no hypothesis on ties at all: the neighbourhood has at least k+1 points, contains p, and
   every point in it is strictly closer to p than every point outside *)
Theorem C18_knn_nbhd_props_boundary : forall o pd (pts : cloudR) k p,
  (S k <= length pts)%nat -> In p pts ->
  (S k <= length (knn_nbhd (Rpdist o pd) k pts p))%nat /\ In p (knn_nbhd (Rpdist o pd) k pts p) /\
  (forall q q', In q (knn_nbhd (Rpdist o pd) k pts p) -> In q' pts -> ~ In q' (knn_nbhd (Rpdist o pd) k pts p) ->
                Rpdist o pd p q < Rpdist o pd p q').
Proof. exact knn_nbhd_props_bd. Qed.
Print Assumptions C18_knn_nbhd_props_boundary.

Theorem C18_no_ties_implies_boundary : forall o pd (pts : cloudR) k p,
  (S k <= length pts)%nat -> NoDup (map (Rpdist o pd p) pts) ->
  length (knn_nbhd (Rpdist o pd) k pts p) = S k.
Proof. exact nodup_implies_bd. Qed.
Print Assumptions C18_no_ties_implies_boundary.

Example C18_boundary_example :
  let pts := [[0]; [0]; [5]; [5]] in
  (forall p, In p pts -> length (knn_nbhd (Rpdist L1 1) 1 pts p) = 2%nat) /\
  ~ NoDup (map (Rpdist L1 1 [0]) pts).
Proof. exact boundary_example. Qed.

(* the radius branch for EVERY input (ties, duplicates, k + 1 > N): the rows of the no-radius
   output selected by nbr_filter's mask with threshold k *)
Theorem C18_knn_filter_radius_decomposition : forall o pd (pts : cloudR) k r,
  knn_filter o pd pts k (Some r) =
  option_map (fun out => mask_select out (map (nbr_keep o pd pts (Z.of_nat k) r) pts))
             (knn_filter o pd pts k None).
Proof. exact knn_filter_radius_decomp. Qed.
Print Assumptions C18_knn_filter_radius_decomposition.

(* radius branch, ties allowed: one row per retained point, the mean of a selection satisfying the
   topk contract on that point's distance row *)
Theorem C18_knn_filter_radius_spec_ties : forall o pd (pts : cloudR) k r, (S k <= length pts)%nat ->
  exists out, knn_filter o pd pts k (Some r) = Some out /\
    Forall2 (fun p row => exists res, topk_contract (map (pdist o pd p) pts) (S k) res /\
                row = vmean (length p) (map (fun j => nth j pts []) (map snd res)))
            (filter (nbr_keep o pd pts (Z.of_nat k) r) pts) out.
Proof. exact knn_filter_radius_spec_ties. Qed.
Print Assumptions C18_knn_filter_radius_spec_ties.

(* permutation equivariance, both branches, boundary hypothesis: row-wise (the output row of a
   point and whether it is retained do not depend on the order) and as multisets *)
Theorem C18_knn_filter_equivariant : forall o pd (pts pts' : cloudR) k radius,
  (S k <= length pts)%nat ->
  (forall p, In p pts -> length (knn_nbhd (Rpdist o pd) k pts p) = S k) -> Permutation pts pts' ->
  knn_filter o pd pts' k radius =
  Some (map (fun p => vmean (length p) (knn_nbhd (Rpdist o pd) k pts p))
            (match radius with None => pts' | Some r => filter (nbr_keep o pd pts (Z.of_nat k) r) pts' end)).
Proof. exact knn_filter_equiv_bd. Qed.
Print Assumptions C18_knn_filter_equivariant.

Theorem C18_knn_filter_perm_boundary : forall o pd (pts pts' : cloudR) k radius,
  (S k <= length pts)%nat ->
  (forall p, In p pts -> length (knn_nbhd (Rpdist o pd) k pts p) = S k) -> Permutation pts pts' ->
  exists out out', knn_filter o pd pts k radius = Some out /\
                   knn_filter o pd pts' k radius = Some out' /\ Permutation out out'.
Proof. exact knn_filter_perm_bd. Qed.
Print Assumptions C18_knn_filter_perm_boundary.

(* ------------------------------------------------------------------ camera helpers at the guards *)
(* homo2cart for every last coordinate: division by w when |w| >= tiny, otherwise by -tiny (w < 0)
   or +tiny (w >= 0, in particular w = 0) *)
Theorem C18_homo2cart_spec : forall tiny (xs : vecR) (w : R),
  homo2cart tiny (xs ++ [w]) =
  map (fun x => x / (if Rle_dec tiny (Rabs w) then w else if Rlt_dec w 0 then - tiny else tiny)) xs.
Proof. exact homo2cart_spec. Qed.
Print Assumptions C18_homo2cart_spec.

Theorem C18_cart_homo_normalise : forall tiny (xs : vecR) (w : R), 0 < tiny -> tiny <= Rabs w ->
  cart2homo (homo2cart tiny (xs ++ [w])) = map (fun x => x / w) (xs ++ [w]).
Proof. exact cart_homo_normalise. Qed.
Print Assumptions C18_cart_homo_normalise.

(* the depth guard of C18_pixel_point_inverse is needed: at depth 0 every pixel unprojects to the
   origin, which projects to pixel (0, 0); a point with z = 0 comes back as the origin *)
Theorem C18_pixel_point_depth_zero_refuted : forall tiny, 0 < tiny ->
  (exists fx fy cx cy (pix : cloudR) (depth : vecR) pts, fx <> 0 /\ fy <> 0 /\
     Forall (fun px => length px = 2%nat) pix /\ length depth = length pix /\
     pixel2point (pinhole fx fy cx cy) pix depth = Some pts /\
     point2pixel tiny (pinhole fx fy cx cy) None pts <> pix) /\
  (exists fx fy cx cy (p : vecR), fx <> 0 /\ fy <> 0 /\ length p = 3%nat /\
     pixel2point (pinhole fx fy cx cy) (point2pixel tiny (pinhole fx fy cx cy) None [p]) [nth 2 p 0]
     = Some [[0; 0; 0]] /\ p <> [0; 0; 0]).
Proof.
  intros tiny Ht. split; [now apply pixel_point_depth_zero_refuted | now apply point_pixel_depth_zero_refuted].
Qed.
Print Assumptions C18_pixel_point_depth_zero_refuted.

(* the pinhole form is needed: pixel2point reads only fx, fy, cx, cy, so with a skew entry
   K[0][1] <> 0 (non-zero focal lengths, last row 0 0 1, depth 1) the round trip fails *)
Theorem C18_pixel_point_skew_refuted : forall tiny, 0 < tiny <= 1 ->
  exists (K : cloudR) (p p' : vecR), kij K 0 0 <> 0 /\ kij K 1 1 <> 0 /\ nth 2 K [] = [0; 0; 1] /\
    length p = 3%nat /\ tiny <= Rabs (nth 2 p 0) /\
    pixel2point K (point2pixel tiny K None [p]) [nth 2 p 0] = Some [p'] /\ p' <> p.
Proof. exact pixel_point_skew_refuted. Qed.
Print Assumptions C18_pixel_point_skew_refuted.

(* all extrinsics: projecting with extrinsics X and unprojecting with the camera-frame depths
   returns the points in the camera frame *)
Theorem C18_pixel_point_inverse_extrinsics : forall tiny fx fy cx cy X (pts : cloudR),
  0 < tiny -> fx <> 0 -> fy <> 0 ->
  let K := pinhole fx fy cx cy in
  Forall (fun p => tiny <= Rabs (nth 2 (extr_act (Some X) p) 0)) pts ->
  pixel2point K (point2pixel tiny K (Some X) pts) (map (fun p => nth 2 (extr_act (Some X) p) 0) pts)
  = Some (map (extr_act (Some X)) pts).
Proof. exact pixel_point_inverse_extr. Qed.
Print Assumptions C18_pixel_point_inverse_extrinsics.

(* the centroid returned for a voxel lies in that voxel's cell on every voxel coordinate (it would
   be assigned the same integer index): rectangular N x D cloud, any non-zero sizes *)
Theorem C18_voxel_centroid_in_cell : forall unique, uniq_contract unique ->
  forall (pts : cloudR) (voxel : vecR) D key j,
  Forall (fun p => length p = D) pts -> (length voxel <= D)%nat -> Forall (fun v => v <> 0) voxel ->
  In key (fst (unique (map (vox_of pts voxel) pts))) -> (j < length voxel)%nat ->
  let c := nth j key 0%Z in
  let m := nth j (vox_minp pts voxel) 0 in
  let v := nth j voxel 0 in
  IZR (Z.abs c) * Rabs v <= nth j (vmean D (vox_members pts voxel key)) 0 - m < (IZR (Z.abs c) + 1) * Rabs v.
Proof. exact centroid_in_cell. Qed.
Print Assumptions C18_voxel_centroid_in_cell.

(* pixel2point raises exactly when K[0][0] or K[1][1] is zero -- any intrinsics, pixels, depths *)
Theorem C18_pixel2point_raises_iff : forall (K pix : cloudR) (depth : vecR),
  pixel2point K pix depth = None <-> kij K 0 0 = 0 \/ kij K 1 1 = 0.
Proof. exact pixel2point_none_iff. Qed.
Print Assumptions C18_pixel2point_raises_iff.

(* knn_filter, BOTH branches, NO hypothesis on ties, true norm: one output row per retained point
   (all points / those with at least k others within the radius), each the mean of the rows at k+1
   distinct indices forming a valid k+1-nearest selection for that point; raises iff k + 1 > N
   (C18_knn_filter_spec_ties) *)
Theorem C18_knn_filter_spec_ties_true_norm : forall o pd (pts : cloudR) k radius, (S k <= length pts)%nat ->
  exists out, knn_filter o pd pts k radius = Some out /\
    Forall2 (fun p row => exists res, topk_contract (map (Rpdist o pd p) pts) (S k) res /\
                row = vmean (length p) (map (fun j => nth j pts []) (map snd res)))
            (match radius with None => pts | Some r => filter (nbr_keep o pd pts (Z.of_nat k) r) pts end) out.
Proof. exact knn_filter_spec_ties_R. Qed.
Print Assumptions C18_knn_filter_spec_ties_true_norm.
