(* C18 -- point-cloud filters and camera helpers match their brute-force definitions.
   Statements only (over R unless a witness is computed over Q); proofs in Proofs/Cloud.v.
   Distances: [Rdist o] / [Rpdist o pd] are the true norms (sqrt for o = L2); the executed model
   decides everything on the measure [dmeas] (squared for L2): C18_norm2_via_squares and
   C18_radius_test_is_norm_test tie the two. *)
From Coq Require Import QArith.
Close Scope Q_scope.
From Coq Require Import ZArith Reals List Permutation Sorted.
Import ListNotations.
From PV Require Import Base.Num Model.LieGroup Model.Cloud Proofs.Cloud.
Local Open Scope R_scope.
#[local] Remove Hints NumQ NumZ : typeclass_instances.

(* ------------------------------------------------------------------ knn *)
(* for every reference point: k entries, distinct in-range indices, each value is the distance at
   its index, values ascending, every non-selected neighbour is at least as far; raises exactly
   when k exceeds the number of neighbours (all sizes, any distance function, ties allowed) *)
Theorem C18_knn_spec : forall (o : ord) (ref nbr : cloudR) (k : nat),
  ((k <= length nbr)%nat ->
     exists res, knn_gen (Rdist o) ref nbr k = Some res /\
                 Forall2 (fun r row => topk_contract (map (Rdist o r) nbr) k row) ref res) /\
  ((length nbr < k)%nat -> ref <> [] -> knn_gen (Rdist o) ref nbr k = None).
Proof. intros o. exact (knn_spec (Rdist o)). Qed.
Print Assumptions C18_knn_spec.

(* the executed model (squared distances for norm 2) returns the same indices and the squares of
   the values *)
Theorem C18_norm2_via_squares : forall (ref nbr : cloudR) (k : nat),
  knn_gen (Rdist L2) ref nbr k = option_map (map (map sqrt_fst)) (knn_meas L2 ref nbr k).
Proof. exact knn_norm2_via_squares. Qed.
Print Assumptions C18_norm2_via_squares.

Theorem C18_radius_test_is_norm_test : forall o pd r (p q : vecR),
  within o pd r p q = true <-> Rpdist o pd p q <= r.
Proof. exact within_spec. Qed.
Print Assumptions C18_radius_test_is_norm_test.

(* permuting the neighbour cloud leaves the returned distances unchanged (indices follow) *)
Theorem C18_knn_values_perm : forall (o : ord) (ref nbr nbr' : cloudR) (k : nat), Permutation nbr nbr' ->
  option_map (map (map fst)) (knn_gen (Rdist o) ref nbr k) = option_map (map (map fst)) (knn_gen (Rdist o) ref nbr' k).
Proof. intros o. exact (knn_values_perm (Rdist o)). Qed.
Print Assumptions C18_knn_values_perm.

(* ------------------------------------------------------------------ nbr_filter *)
(* output = the kept points in order + the mask; for EVERY position of the cloud the point is kept
   iff at least [nbr] of the other points lie within the radius (true norm) *)
Theorem C18_nbr_filter_spec : forall o pd (pts : cloudR) nbr r,
  nbr_filter o pd pts nbr r = (filter (nbr_keep o pd pts nbr r) pts, map (nbr_keep o pd pts nbr r) pts) /\
  (0 <= r -> forall pre p post, pts = pre ++ p :: post ->
     (nbr_keep o pd pts nbr r p = true <-> (nbr <= Z.of_nat (n_within o pd r p (pre ++ post)))%Z)).
Proof.
  intros o pd pts nbr r. split; [apply nbr_filter_eq|].
  intros Hr pre p post ->. now apply nbr_keep_spec.
Qed.
Print Assumptions C18_nbr_filter_spec.

Theorem C18_nbr_filter_perm : forall o pd (pts pts' : cloudR) nbr r, Permutation pts pts' ->
  Permutation (fst (nbr_filter o pd pts nbr r)) (fst (nbr_filter o pd pts' nbr r)).
Proof. exact nbr_filter_perm. Qed.
Print Assumptions C18_nbr_filter_perm.

(* ------------------------------------------------------------------ voxel_filter (centroid) *)
(* for any [unique] satisfying the contract of torch.unique: one row per occupied voxel, in
   lexicographic order of the integer voxel index, each the centroid (all channels) of the points
   whose index is that key *)
Theorem C18_voxel_filter_spec : forall unique, uniq_contract unique ->
  forall (pts : cloudR) (voxel : vecR), pts <> [] -> Forall (fun v => v <> 0) voxel ->
  let keys := fst (unique (map (vox_of pts voxel) pts)) in
  voxel_filter unique pts voxel =
    Some (map (fun key => vmean (length (hd [] pts)) (vox_members pts voxel key)) keys) /\
  StronglySorted lex_lt keys /\
  (forall key, In key keys <-> exists p, In p pts /\ vox_of pts voxel p = key).
Proof. exact voxel_filter_spec. Qed.
Print Assumptions C18_voxel_filter_spec.

(* channel j of the sum of rows is the sum of channel j *)
Theorem C18_centroid_channels : forall D (rows : cloudR) j, Forall (fun p => length p = D) rows ->
  nth j (vsum D rows) 0 = fold_right Rplus 0 (map (fun p => nth j p 0) rows).
Proof. exact nth_vsum. Qed.
Print Assumptions C18_centroid_channels.

(* the contract is satisfiable: the executable instance used by the tie *)
Theorem C18_unique_contract_satisfiable : uniq_contract unique_sort.
Proof. exact unique_sort_contract. Qed.
Print Assumptions C18_unique_contract_satisfiable.

(* the output does not depend on the order of the points at all *)
Theorem C18_voxel_filter_perm : forall unique, uniq_contract unique ->
  forall (pts pts' : cloudR) (voxel : vecR) D,
  pts <> [] -> Forall (fun v => v <> 0) voxel -> Forall (fun p => length p = D) pts ->
  Permutation pts pts' -> voxel_filter unique pts voxel = voxel_filter unique pts' voxel.
Proof. exact voxel_filter_perm. Qed.
Print Assumptions C18_voxel_filter_perm.

(* HISTORY (source before fix 104c370, model [voxel_filter_random_old]): random=True raised for a
   1-point cloud and returned a bare row of shape (D,) instead of (1, D) when N > 1 points fell into
   a single voxel; the current model returns the 1 x D result (evaluated over Q) *)
Theorem C18_voxel_random_single_voxel_refuted :
  (exists (pts : list (list Q)) (voxel : list Q), length pts = 1%nat /\
      voxel_filter_random_old (NF:=NumQ) unique_sort argsort_ins [0%nat] pts voxel = VRaise /\
      voxel_filter_random (NF:=NumQ) unique_sort argsort_ins [0%nat] pts voxel = Some pts) /\
  (exists (pts : list (list Q)) (voxel : list Q) r, length pts = 2%nat /\
      voxel_filter_random_old (NF:=NumQ) unique_sort argsort_ins [1%nat] pts voxel = VRow r /\
      voxel_filter_random (NF:=NumQ) unique_sort argsort_ins [1%nat] pts voxel = Some [r]).
Proof. exact voxel_random_single_refuted. Qed.
Print Assumptions C18_voxel_random_single_voxel_refuted.

(* random=True, every non-empty cloud: one row per occupied voxel, row k a member of voxel k, for
   any unique / argsort satisfying their contracts and any RNG draws below the voxel counts *)
Theorem C18_voxel_filter_random_spec : forall unique argsort, uniq_contract unique -> argsort_contract argsort ->
  forall (draws : list nat) (pts : cloudR) (voxel : vecR),
  Forall (fun v => v <> 0) voxel -> pts <> [] ->
  let keys := fst (unique (map (vox_of pts voxel) pts)) in
  let inv := snd (unique (map (vox_of pts voxel) pts)) in
  length draws = length keys ->
  (forall k, (k < length keys)%nat -> (nth k draws 0 < length (filter (Nat.eqb k) inv))%nat) ->
  exists sel, voxel_filter_random unique argsort draws pts voxel = Some sel /\ length sel = length keys /\
              forall k, (k < length keys)%nat -> In (nth k sel []) (vox_members pts voxel (nth k keys [])).
Proof. exact voxel_filter_random_spec. Qed.
Print Assumptions C18_voxel_filter_random_spec.

Theorem C18_argsort_contract_satisfiable : argsort_contract argsort_ins.
Proof. exact argsort_ins_contract. Qed.
Print Assumptions C18_argsort_contract_satisfiable.

(* ------------------------------------------------------------------ knn_filter *)
(* no radius, ties excluded: every point is replaced by the mean of the k+1 points with fewer
   than k+1 points strictly closer -- itself and its k nearest neighbours *)
Theorem C18_knn_filter_spec : forall o pd (pts : cloudR) k,
  (S k <= length pts)%nat -> (forall p, In p pts -> NoDup (map (Rpdist o pd p) pts)) ->
  knn_filter o pd pts k None = Some (map (fun p => vmean (length p) (knn_nbhd (Rpdist o pd) k pts p)) pts).
Proof. exact knn_filter_spec_R. Qed.
Print Assumptions C18_knn_filter_spec.

Theorem C18_knn_nbhd_is_self_and_k_nearest : forall o pd (pts : cloudR) k p,
  (S k <= length pts)%nat -> In p pts -> NoDup (map (Rpdist o pd p) pts) ->
  length (knn_nbhd (Rpdist o pd) k pts p) = S k /\ In p (knn_nbhd (Rpdist o pd) k pts p) /\
  (forall q q', In q (knn_nbhd (Rpdist o pd) k pts p) -> In q' pts -> ~ In q' (knn_nbhd (Rpdist o pd) k pts p) ->
                Rpdist o pd p q < Rpdist o pd p q').
Proof. exact knn_nbhd_props. Qed.
Print Assumptions C18_knn_nbhd_is_self_and_k_nearest.

(* ties allowed: every row is the mean of a selection satisfying the topk contract; raises iff
   k + 1 exceeds the number of points *)
Theorem C18_knn_filter_spec_ties : forall o pd (pts : cloudR) k,
  ((S k <= length pts)%nat ->
   exists out, knn_filter o pd pts k None = Some out /\
     Forall2 (fun p row => exists res, topk_contract (map (pdist o pd p) pts) (S k) res /\
                 row = vmean (length p) (map (fun j => nth j pts []) (map snd res))) pts out) /\
  (forall r, (length pts < S k)%nat -> knn_filter o pd pts k r = None).
Proof.
  intros o pd pts k. split.
  - exact (knn_filter_spec_ties (pdist o pd) (meas_le o) pts k).
  - intros r. exact (knn_filter_raises (pdist o pd) (meas_le o) pts k r).
Qed.
Print Assumptions C18_knn_filter_spec_ties.

(* radius branch: the retained points are exactly those with at least k others within the radius
   (C18_nbr_filter_spec, radius >= 0), in order, each replaced by the mean of itself and its k
   nearest neighbours among ALL points *)
Theorem C18_knn_filter_radius_spec : forall o pd (pts : cloudR) k r,
  (S k <= length pts)%nat -> (forall p, In p pts -> NoDup (map (Rpdist o pd p) pts)) ->
  knn_filter o pd pts k (Some r) =
  Some (map (fun p => vmean (length p) (knn_nbhd (Rpdist o pd) k pts p))
            (filter (nbr_keep o pd pts (Z.of_nat k) r) pts)).
Proof. exact knn_filter_radius_spec_R. Qed.
Print Assumptions C18_knn_filter_radius_spec.

(* HISTORY (source before fix c6053fe, model [knn_filter_old]): the indices of the unfiltered cloud
   were used on the filtered one.  With one outlier in front of two inliers the old model raises
   (so did /repo), while the property -- and the current model -- give the two means [1/2] *)
Theorem C18_knn_filter_radius_refuted :
  exists (pts : list (list Q)) (k : nat) (r : Q),
    knn_filter_old (NF:=NumQ) L1 1 pts k (Some r) = None /\
    knn_filter (NF:=NumQ) L1 1 pts k (Some r) = Some [[Qmake 1 2]; [Qmake 1 2]].
Proof. exact knn_filter_radius_refuted. Qed.
Print Assumptions C18_knn_filter_radius_refuted.

Theorem C18_knn_filter_perm : forall o pd (pts pts' : cloudR) k,
  (S k <= length pts)%nat -> (forall p, In p pts -> NoDup (map (Rpdist o pd p) pts)) -> Permutation pts pts' ->
  exists out out', knn_filter o pd pts k None = Some out /\
                   knn_filter o pd pts' k None = Some out' /\ Permutation out out'.
Proof. exact knn_filter_perm_R. Qed.
Print Assumptions C18_knn_filter_perm.

(* the hypotheses are satisfiable *)
Example C18_no_ties_example :
  forall p, In p [[0]; [1]; [3]; [7]] -> NoDup (map (Rpdist L1 1 p) [[0]; [1]; [3]; [7]]).
Proof. exact no_ties_example. Qed.

(* ------------------------------------------------------------------ random_filter *)
(* given the permutation drawn by the RNG: distinct positions of the input, num of them;
   raises iff num exceeds the number of points *)
Theorem C18_random_filter_distinct : forall (perm : list nat) (pts : cloudR) num,
  Permutation perm (seq 0 (length pts)) ->
  ((num <= length pts)%nat ->
     random_filter perm pts num = Some (map (fun i => nth i pts []) (firstn num perm)) /\
     NoDup (firstn num perm) /\ length (firstn num perm) = num /\
     (forall i, In i (firstn num perm) -> (i < length pts)%nat)) /\
  ((length pts < num)%nat -> random_filter perm pts num = None).
Proof. exact random_filter_spec. Qed.
Print Assumptions C18_random_filter_distinct.

Theorem C18_random_filter_equivariant : forall (sigma perm : list nat) (pts : cloudR) num,
  Permutation sigma (seq 0 (length pts)) -> Permutation perm (seq 0 (length pts)) ->
  random_filter perm (map (fun i => nth i pts []) sigma) num =
    random_filter (map (fun i => nth i sigma 0%nat) perm) pts num /\
  Permutation (map (fun i => nth i sigma 0%nat) perm) (seq 0 (length pts)).
Proof. exact random_filter_equiv. Qed.
Print Assumptions C18_random_filter_equivariant.

(* ------------------------------------------------------------------ camera helpers *)
Theorem C18_homo_cart_roundtrip : forall tiny (p : vecR), 0 < tiny <= 1 -> homo2cart tiny (cart2homo p) = p.
Proof. exact homo_cart_roundtrip. Qed.
Print Assumptions C18_homo_cart_roundtrip.

(* pinhole intrinsics with non-zero focal lengths, depths of magnitude >= tiny (the clamp of
   homo2cart): pixel2point and point2pixel are mutually inverse; pixel2point raises iff a focal
   length is zero *)
Theorem C18_pixel_point_inverse : forall tiny fx fy cx cy, 0 < tiny -> fx <> 0 -> fy <> 0 ->
  let K := pinhole fx fy cx cy in
  (forall (pix : cloudR) (depth : vecR),
      Forall (fun px => length px = 2%nat) pix -> length depth = length pix ->
      Forall (fun z => tiny <= Rabs z) depth ->
      exists pts, pixel2point K pix depth = Some pts /\ point2pixel tiny K None pts = pix) /\
  (forall pts : cloudR,
      Forall (fun p => length p = 3%nat /\ tiny <= Rabs (nth 2 p 0)) pts ->
      pixel2point K (point2pixel tiny K None pts) (map (fun p => nth 2 p 0) pts) = Some pts).
Proof. exact pixel_point_inverse. Qed.
Print Assumptions C18_pixel_point_inverse.

Theorem C18_pixel2point_raises : forall fx fy cx cy (pix : cloudR) (depth : vecR), fx = 0 \/ fy = 0 ->
  pixel2point (pinhole fx fy cx cy) pix depth = None.
Proof. exact pixel2point_raises. Qed.
Print Assumptions C18_pixel2point_raises.

(* extrinsics only move the points *)
Theorem C18_point2pixel_extrinsics : forall tiny K X (pts : cloudR),
  point2pixel tiny K (Some X) pts = point2pixel tiny K None (map (extr_act (Some X)) pts).
Proof. exact point2pixel_extr. Qed.
Print Assumptions C18_point2pixel_extrinsics.

(* any intrinsics, any extrinsics: zero on the pixels produced by point2pixel, and only on them
   (all three reductions) *)
Theorem C18_reprojerr_zero : forall tiny K T (pts : cloudR),
  let pix := point2pixel tiny K T pts in
  Forall (Forall (fun x => x = 0)) (reprojerr_none tiny K T pts pix) /\
  Forall (fun x => x = 0) (reprojerr_sum tiny K T pts pix) /\
  Forall (fun x => x = 0) (reprojerr_norm tiny K T pts pix).
Proof. exact reprojerr_zero. Qed.
Print Assumptions C18_reprojerr_zero.

Theorem C18_reprojerr_zero_only : forall tiny K T (pts pix : cloudR),
  Forall2 (fun p px => length px = length (point2pixel1 tiny K T p)) pts pix ->
  (Forall (Forall (fun x => x = 0)) (reprojerr_none tiny K T pts pix) -> pix = point2pixel tiny K T pts) /\
  (Forall (fun x => x = 0) (reprojerr_sum tiny K T pts pix) -> pix = point2pixel tiny K T pts) /\
  (Forall (fun x => x = 0) (reprojerr_norm tiny K T pts pix) -> pix = point2pixel tiny K T pts).
Proof. exact reprojerr_zero_only. Qed.
Print Assumptions C18_reprojerr_zero_only.

(* HISTORY (source before fix 9117fdb, [reproj_sum1_old]): reduction='sum' (documented as the L1
   norm) was a signed sum, zero on non-matching pixels *)
Theorem C18_reprojerr_sum_refuted : forall tiny, 0 < tiny <= 1 ->
  exists (K : cloudR) (p px : vecR), px <> point2pixel1 tiny K None p /\ reproj_sum1_old tiny K None p px = 0.
Proof. exact reproj_sum_refuted. Qed.
Print Assumptions C18_reprojerr_sum_refuted.
