(* C10 — Linear solvers and sparse products return correct solutions or fail loudly.
   Statements only; proofs in Proofs/Solver.v, Proofs/Solver2.v (linear dependence), Proofs/Solver3.v
   (conjugate gradients: orthogonality, conjugacy, finite termination), Proofs/Solver4.v (direct
   solvers: contract instances, Cholesky on non-symmetric input), Proofs/Solver5.v (2 x 2 Cholesky
   oracles), Proofs/BSR.v, Proofs/BSR2.v.  Real arithmetic (exact), vectors are
   lists, matrices lists of rows.  torch.linalg.{pinv, lstsq, cholesky_ex}, Tensor.cholesky_solve are
   arbitrary functions constrained by the displayed contracts (hypotheses about torch: measured by the
   correspondence, not proved). *)
From Coq Require Import Reals List Arith ZArith Bool.
Import ListNotations.
From PV Require Import Base.Num Model.Solver Model.BSR Proofs.Solver Proofs.BSR Proofs.Solver3 Proofs.Solver4 Proofs.Solver5 Proofs.BSR2.
Local Open Scope R_scope.
#[local] Remove Hints NumQ NumZ : typeclass_instances.

(* ---------------------------------------------------------------------------------------------
   Cholesky (source after the repair /repo 3f16d24: forward() asserts no NaN in L AND info = 0).
   Contract of the oracles (n x n systems):
     chol_ex_contract n cholesky_ex   : A SPD  -> cholesky_ex up A = (L, 0), L triangular with non-zero
                                         diagonal, NaN-free, L L^T = A (U^T U = A for upper);
                                        A not SPD -> info <> 0   (nothing is promised about L)
     chol_solve_contract n solve      : for such a triangular L, solve up b L = X with (L L^T) X = b.  *)
(* MAIN: returns the solution for every SPD A and raises for every A that is not SPD (any n, any number
   of right-hand sides, lower / upper) *)
Theorem C10_cholesky_wrapper : forall n cholesky_ex cholesky_solve,
  chol_ex_contract n cholesky_ex -> chol_solve_contract n cholesky_solve ->
  forall up (A b : mat (F:=R)) k, wf_mat n n A -> wf_mat n k b ->
  (SPD n A -> exists X, Cholesky cholesky_ex cholesky_solve up A b = Some (inject X) /\ wf_mat n k X /\ mm A X = b) /\
  (~ SPD n A -> Cholesky cholesky_ex cholesky_solve up A b = None).
Proof. exact cholesky_wrapper. Qed.
(* whenever forward() returns at all, the factorisation reported success; NaN in the factor raises *)
Theorem C10_cholesky_returns_only_on_success : forall cholesky_ex cholesky_solve up (A b : mat (F:=R)) X,
  Cholesky cholesky_ex cholesky_solve up A b = Some X ->
  snd (cholesky_ex up A) = 0%Z /\ has_nan (fst (cholesky_ex up A)) = false.
Proof. exact cholesky_returns_only_on_success. Qed.
Theorem C10_cholesky_nan_raises : forall cholesky_ex cholesky_solve up (A b : mat (F:=R)),
  has_nan (fst (cholesky_ex up A)) = true -> Cholesky cholesky_ex cholesky_solve up A b = None.
Proof. exact cholesky_wrapper_nan. Qed.
(* batched: all SPD -> every item solved; one member not SPD -> the whole call raises *)
Theorem C10_cholesky_batch_spd : forall n k cholesky_ex cholesky_solve,
  chol_ex_contract n cholesky_ex -> chol_solve_contract n cholesky_solve ->
  forall up (As bs : list (mat (F:=R))), Forall (SPD n) As -> Forall (wf_mat n k) bs -> length As = length bs ->
  exists Xs, Cholesky_batch cholesky_ex cholesky_solve up As bs = Some (map inject Xs) /\ length Xs = length As /\
    forall i, (i < length As)%nat -> mm (nth i As []) (nth i Xs []) = nth i bs [].
Proof. exact cholesky_batch_spd. Qed.
Theorem C10_cholesky_batch_raises : forall n cholesky_ex cholesky_solve,
  chol_ex_contract n cholesky_ex ->
  forall up (As bs : list (mat (F:=R))), Forall (wf_mat n n) As -> Exists (fun A => ~ SPD n A) As ->
  Cholesky_batch cholesky_ex cholesky_solve up As bs = None.
Proof. intros n ce cs H. exact (cholesky_batch_raises n ce cs H). Qed.
(* the contracts are satisfiable (1 x 1 systems: sqrt / division) *)
Example C10_cholesky_contract_satisfiable : chol_ex_contract 1 chol1 /\ chol_solve_contract 1 solve1.
Proof. exact (conj chol1_contract solve1_contract). Qed.

(* ... and at n = 2, the first size where triangularity, lower / upper and the transposes in the
   contract mean something: chol2 = the textbook 2 x 2 factor (info <> 0 unless symmetric, a > 0,
   det > 0), solve2 = Cramer's rule on L L^T (U^T U), any number of right-hand sides *)
Example C10_cholesky_contract_satisfiable_2x2 :
  chol_ex_contract 2 chol2 /\ chol_solve_contract 2 solve2 /\
  forall up, exists X, Cholesky chol2 solve2 up A2 [[1]; [0]] = Some (inject X) /\ wf_mat 2 1 X /\ mm A2 X = [[1]; [0]].
Proof. exact (conj chol2_contract (conj solve2_contract cholesky_2x2_example)). Qed.
(* The contract above asks "A not SPD -> info <> 0" of EVERY square A.  LAPACK (behind cholesky_ex)
   reads one triangle only, so on non-symmetric A it offers less; what it offers is the same contract
   for SYMMETRIC A (chol_ex_contract_sym).  The wrapper theorem needs no more, for symmetric A: *)
Theorem C10_cholesky_wrapper_sym : forall n cholesky_ex cholesky_solve,
  chol_ex_contract_sym n cholesky_ex -> chol_solve_contract n cholesky_solve ->
  forall up (A b : mat (F:=R)) k, wf_mat n n A -> symmetric n A -> wf_mat n k b ->
  (SPD n A -> exists X, Cholesky cholesky_ex cholesky_solve up A b = Some (inject X) /\ wf_mat n k X /\ mm A X = b) /\
  (~ SPD n A -> Cholesky cholesky_ex cholesky_solve up A b = None).
Proof. exact cholesky_wrapper_sym. Qed.
Example C10_cholesky_contract_sym_satisfiable :
  chol_ex_contract_sym 1 chol1 /\ forall n ce, chol_ex_contract n ce -> chol_ex_contract_sym n ce.
Proof. exact (conj chol1_contract_sym chol_ex_contract_weaken). Qed.
(* REFUTED for non-symmetric A (not part of the property's "symmetric positive-definite" success clause,
   but part of "raises ... when A is not positive definite" if read for arbitrary square A):
   from any oracles satisfying the symmetric contract, the oracle that reads only the lower triangle
   satisfies it too, and with it forward() returns X = (1,1) for A = [[1,5],[0,1]], b = (1,1) although
   x^T A x = -3 at x = (1,-1) and A X - b = (5,0).  Replayed on the implementation (float64,
   Cholesky()(A, b)): returns (1., 1.), no exception. *)
Theorem C10_cholesky_nonsymmetric_refuted : forall cholesky_ex cholesky_solve,
  chol_ex_contract_sym 2 cholesky_ex -> chol_solve_contract 2 cholesky_solve ->
  exists cholesky_ex',
    chol_ex_contract_sym 2 cholesky_ex' /\
    (forall A, wf_mat 2 2 A -> cholesky_ex' false A = cholesky_ex' false (lower_sym 2 A)) /\
    wf_mat 2 2 Ans /\ ~ PD 2 Ans /\ ~ SPD 2 Ans /\
    exists X, Cholesky cholesky_ex' cholesky_solve false Ans bns = Some (inject X) /\
              X = [[1]; [1]] /\ mm Ans X <> bns.
Proof. exact cholesky_nonsymmetric_refuted. Qed.

(* HISTORY (source before the repair = Cholesky_old: only NaN was asserted, [info] bound and never
   read).  The failure clause was refuted on that faithful model; the witnesses were replayed on the
   implementation and recorded, now `fixed:` in known_findings.txt. *)
Theorem C10_cholesky_old_raises_refuted :
  exists (n : nat) cholesky_ex cholesky_solve, chol_ex_contract n cholesky_ex /\ chol_solve_contract n cholesky_solve /\
    exists (A b X : mat (F:=R)), wf_mat n n A /\ wf_mat n 1 b /\ ~ SPD n A /\ snd (cholesky_ex false A) <> 0%Z /\
      Cholesky_old cholesky_ex cholesky_solve false A b = Some (inject X) /\ mm A X <> b.
Proof. exact cholesky_raise_refuted. Qed.
Theorem C10_cholesky_old_raises_refuted_witness : forall cholesky_ex cholesky_solve,
  chol_ex_contract 2 cholesky_ex -> chol_solve_contract 2 cholesky_solve ->
  exists cholesky_ex', chol_ex_contract 2 cholesky_ex' /\
    cholesky_ex' false Awit = (inject Lwit, 2%Z) /\ ~ SPD 2 Awit /\
    exists X, Cholesky_old cholesky_ex' cholesky_solve false Awit bwit = Some (inject X) /\ mm Awit X <> bwit.
Proof. exact cholesky_raise_refuted_witness. Qed.
Theorem C10_cholesky_old_ignores_info : forall (ce1 ce2 : bool -> mat (F:=R) -> xmat (F:=R) * Z) cholesky_solve up (A b : mat (F:=R)),
  fst (ce1 up A) = fst (ce2 up A) -> Cholesky_old ce1 cholesky_solve up A b = Cholesky_old ce2 cholesky_solve up A b.
Proof. exact cholesky_old_ignores_info. Qed.
(* the repair changes nothing where the factorisation succeeds *)
Theorem C10_cholesky_old_same_on_success : forall cholesky_ex cholesky_solve up (A b : mat (F:=R)),
  snd (cholesky_ex up A) = 0%Z ->
  Cholesky cholesky_ex cholesky_solve up A b = Cholesky_old cholesky_ex cholesky_solve up A b.
Proof. exact cholesky_old_same_on_success. Qed.

(* ---------------------------------------------------------------------------------------------
   PINV.  Contract: pinv c A is a Moore-Penrose pseudo-inverse P of A (A P A = A, P A P = P, A P and
   P A symmetric; stated on the linear maps).  Then every column of PINV(A, b) = P @ b is THE
   minimum-norm least-squares solution for the corresponding column of b — for every m x n, A of any
   rank, any number of right-hand sides. *)
Theorem C10_pinv_wrapper : forall m n (pinv : pinv_cfg (F:=R) -> mat (F:=R) -> mat (F:=R)),
  (forall c A, wf_mat m n A -> penrose m n A (pinv c A)) ->
  forall c (A b : mat (F:=R)) k j, wf_mat m n A -> wf_mat m k b -> (j < ncols b)%nat ->
  is_min_norm_lsq n A (col j b) (col j (PINV pinv c A b)).
Proof. exact pinv_wrapper. Qed.
(* the same with the contract in matrix form - the four Penrose equations exactly as the correspondence
   measures them on torch.linalg.pinv:  A P A = A,  P A P = P,  (A P)^T = A P,  (P A)^T = P A *)
Theorem C10_pinv_wrapper_penrose : forall m n (pinv : pinv_cfg (F:=R) -> mat (F:=R) -> mat (F:=R)),
  (0 < m)%nat -> (0 < n)%nat ->
  (forall c A, wf_mat m n A ->
     let P := pinv c A in
     wf_mat n m P /\ mm A (mm P A) = A /\ mm P (mm A P) = P /\
     transpose (mm A P) = mm A P /\ transpose (mm P A) = mm P A) ->
  forall c (A b : mat (F:=R)) k j, wf_mat m n A -> wf_mat m k b -> (j < ncols b)%nat ->
  is_min_norm_lsq n A (col j b) (col j (PINV pinv c A b)).
Proof.
  intros m n pinv Hm Hn H. apply pinv_wrapper. intros c A HA. apply penrose_mat_op; auto. exact (H c A HA).
Qed.
(* LSTSQ.  Contract: lstsq returns a NaN-free least-squares solution of every column.  The wrapper
   returns it unchanged; a NaN anywhere in the solution raises. *)
Theorem C10_lstsq_wrapper : forall m n (lstsq : lstsq_cfg (F:=R) -> mat (F:=R) -> mat (F:=R) -> xmat (F:=R)),
  (forall c A b k, wf_mat m n A -> wf_mat m k b ->
     exists X, lstsq c A b = inject X /\ forall j, (j < ncols b)%nat -> is_lsq n A (col j b) (col j X)) ->
  forall c (A b : mat (F:=R)) k, wf_mat m n A -> wf_mat m k b ->
  exists X, LSTSQ lstsq c A b = Some X /\ forall j, (j < ncols b)%nat -> is_lsq n A (col j b) (col j X).
Proof. exact lstsq_wrapper. Qed.
Theorem C10_lstsq_nan_raises : forall (lstsq : lstsq_cfg (F:=R) -> mat (F:=R) -> mat (F:=R) -> xmat (F:=R)) c (A b : mat (F:=R)),
  has_nan (lstsq c A b) = true -> LSTSQ lstsq c A b = None.
Proof. exact lstsq_wrapper_nan. Qed.

(* batched calls (any batch size; batch shapes are flattened): the torch routines act per matrix, the
   NaN assertions are taken over the whole batch *)
Theorem C10_pinv_batch_item : forall (pinv : pinv_cfg (F:=R) -> mat (F:=R) -> mat (F:=R)) c (As bs : list (mat (F:=R))) i,
  (i < length As)%nat -> (i < length bs)%nat ->
  nth i (PINV_batch pinv c As bs) [] = PINV pinv c (nth i As []) (nth i bs []).
Proof. exact pinv_batch_item. Qed.
Theorem C10_lstsq_batch : forall m n k (lstsq : lstsq_cfg (F:=R) -> mat (F:=R) -> mat (F:=R) -> xmat (F:=R)),
  (forall c A b k, wf_mat m n A -> wf_mat m k b ->
     exists X, lstsq c A b = inject X /\ forall j, (j < ncols b)%nat -> is_lsq n A (col j b) (col j X)) ->
  forall c (As bs : list (mat (F:=R))), Forall (wf_mat m n) As -> Forall (wf_mat m k) bs -> length As = length bs ->
  exists Xs, LSTSQ_batch lstsq c As bs = Some Xs /\ length Xs = length As /\
    forall i, (i < length As)%nat -> forall j, (j < ncols (nth i bs []))%nat ->
      is_lsq n (nth i As []) (col j (nth i bs [])) (col j (nth i Xs [])).
Proof. exact lstsq_batch. Qed.

(* "THE": the minimum-norm least-squares solution is unique - whatever vector has that property IS the
   column PINV returns *)
Theorem C10_pinv_wrapper_unique : forall m n (pinv : pinv_cfg (F:=R) -> mat (F:=R) -> mat (F:=R)),
  (forall c A, wf_mat m n A -> penrose m n A (pinv c A)) ->
  forall c (A b : mat (F:=R)) k j y, wf_mat m n A -> wf_mat m k b -> (j < ncols b)%nat ->
  is_min_norm_lsq n A (col j b) y -> y = col j (PINV pinv c A b).
Proof. exact pinv_wrapper_unique. Qed.
(* batched PINV, the clause itself: every column of every item of the batched result is THE
   minimum-norm least-squares solution of its system (any batch size, m x n, rank, number of columns) *)
Theorem C10_pinv_batch : forall m n k (pinv : pinv_cfg (F:=R) -> mat (F:=R) -> mat (F:=R)),
  (forall c A, wf_mat m n A -> penrose m n A (pinv c A)) ->
  forall c (As bs : list (mat (F:=R))), Forall (wf_mat m n) As -> Forall (wf_mat m k) bs ->
  forall i, (i < length As)%nat -> (i < length bs)%nat -> forall j, (j < ncols (nth i bs []))%nat ->
  is_min_norm_lsq n (nth i As []) (col j (nth i bs [])) (col j (nth i (PINV_batch pinv c As bs) [])).
Proof. exact pinv_batch. Qed.
(* the contracts are satisfiable, on rectangular and rank-deficient input: pinv21 [[a],[b]] =
   [[a, b]] / (a^2 + b^2) (zero for the zero matrix) satisfies the four Penrose equations for EVERY
   2 x 1 matrix; lstsq11 [[a]] b = b / a (0 when a = 0) is a least-squares solution for EVERY 1 x 1
   system with any number of right-hand sides *)
Example C10_pinv_contract_satisfiable :
  (forall c A, wf_mat 2 1 A -> penrose_mat 2 1 A (pinv21 c A)) /\
  (forall c A, wf_mat 2 1 A -> penrose 2 1 A (pinv21 c A)).
Proof. exact (conj pinv21_penrose_mat pinv21_contract). Qed.
Example C10_lstsq_contract_satisfiable : forall c A b k, wf_mat 1 1 A -> wf_mat 1 k b ->
  exists X, lstsq11 c A b = inject X /\ forall j, (j < ncols b)%nat -> is_lsq 1 A (col j b) (col j X).
Proof. exact lstsq11_contract. Qed.

(* POINTWISE forms: the three wrapper theorems need the oracle contracts only at the call that is made
   (what the correspondence measures: torch's answers on the sampled inputs), not for every matrix;
   for Cholesky not even triangularity of the factor is needed once the solve answered correctly *)
Theorem C10_pinv_wrapper_pointwise : forall m n (pinv : pinv_cfg (F:=R) -> mat (F:=R) -> mat (F:=R)) c (A b : mat (F:=R)) k j,
  wf_mat m n A -> wf_mat m k b -> (j < ncols b)%nat -> penrose m n A (pinv c A) ->
  is_min_norm_lsq n A (col j b) (col j (PINV pinv c A b)) /\
  forall y, is_min_norm_lsq n A (col j b) y -> y = col j (PINV pinv c A b).
Proof. exact pinv_wrapper_pointwise. Qed.
Theorem C10_lstsq_wrapper_pointwise : forall (lstsq : lstsq_cfg (F:=R) -> mat (F:=R) -> mat (F:=R) -> xmat (F:=R)) c (A b X : mat (F:=R)),
  lstsq c A b = inject X -> LSTSQ lstsq c A b = Some X.
Proof. exact lstsq_wrapper_pointwise. Qed.
Theorem C10_cholesky_wrapper_pointwise : forall n cholesky_ex cholesky_solve up (A b : mat (F:=R)) k,
  (SPD n A -> exists L, cholesky_ex up A = (inject L, 0%Z) /\ llt up L = A /\
                exists X, cholesky_solve up b L = inject X /\ wf_mat n k X /\ mm (llt up L) X = b) ->
  (~ SPD n A -> snd (cholesky_ex up A) <> 0%Z) ->
  (SPD n A -> exists X, Cholesky cholesky_ex cholesky_solve up A b = Some (inject X) /\ wf_mat n k X /\ mm A X = b) /\
  (~ SPD n A -> Cholesky cholesky_ex cholesky_solve up A b = None).
Proof. exact cholesky_wrapper_pointwise. Qed.

(* ---------------------------------------------------------------------------------------------
   CG (norm2 v = sqrt (v . v), the norm the code uses).  A any n x n list-of-rows matrix (symmetry /
   definiteness are not needed for these clauses), optional preconditioner M, optional guess x0. *)
(* residual invariant: after k iterations, for every n and k, the recursively updated r is b - A x *)
Theorem C10_cg_residual_inv : forall n (A : mat (F:=R)) M (b : vec (F:=R)),
  length A = n -> length b = n -> (forall Mm, M = Some Mm -> length Mm = n) ->
  forall conv x0 k x r prev, (forall x, x0 = Some x -> length x = n) ->
  cg_iter A M conv k (cg_x0 b x0, cg_r0 A b x0, None) = Some (x, r, prev) ->
  r = vsub b (mv A x) /\ length x = n.
Proof. exact cg_residual_inv. Qed.
(* every way out of forward(): b itself, a tolerance exit, or maxiter — with the true residual *)
Theorem C10_cg_returns : forall n (A : mat (F:=R)) M (b : vec (F:=R)),
  length A = n -> length b = n -> (forall Mm, M = Some Mm -> length Mm = n) ->
  forall tol maxiter x0, (forall x, x0 = Some x -> length x = n) ->
  match cg norm2 tol maxiter A b x0 M with
  | RetB v => v = b
  | RetLoop (CgExit x r k) => r = vsub b (mv A x) /\ Rltb (norm2 r) (tol * norm2 b) = true /\ length x = n
  | RetLoop (CgMaxIter x r) => r = vsub b (mv A x) /\ length x = n
  | RetLoop CgNonFinite => True
  end.
Proof.
  intros n A M b HA Hb HM tol maxiter x0 Hx0.
  exact (cg_returned_residual n A M b HA Hb HM (fun b => eqb (norm2 b) zero) (fun b r => ltb (norm2 r) (mul tol (norm2 b))) maxiter x0 Hx0).
Qed.
(* exit soundness: a return through the tolerance test satisfies |b - A x| < tol |b| *)
Theorem C10_cg_exit_sound : forall n (A : mat (F:=R)) M (b : vec (F:=R)),
  length A = n -> length b = n -> (forall Mm, M = Some Mm -> length Mm = n) ->
  forall tol maxiter x0 x r k, (forall x, x0 = Some x -> length x = n) ->
  cg norm2 tol maxiter A b x0 M = RetLoop (CgExit x r k) ->
  norm2 (vsub b (mv A x)) < tol * norm2 b /\ length x = n.
Proof. exact cg_exit_sound. Qed.
(* zero right-hand side: the zero vector b is returned, for any A, x0, M, maxiter, tol *)
Theorem C10_cg_zero_rhs : forall (A : mat (F:=R)) M (b : vec (F:=R)) tol maxiter x0,
  Forall (fun t => t = 0) b -> cg norm2 tol maxiter A b x0 M = RetB b.
Proof. exact cg_zero_rhs. Qed.
(* ---- finite termination in exact arithmetic (Proofs/Solver3.v).  A symmetric positive definite,
   the preconditioner absent or symmetric positive definite, any n, optional guess.
   Mop M r = M r (r when M is absent).  The classical invariants hold on the states the modelled loop
   visits, for every tolerance test and every pair of iterations i < j: *)
Theorem C10_cg_iterates_orthogonal : forall n (A : mat (F:=R)) M (b : vec (F:=R)),
  SPD n A -> (forall Mm, M = Some Mm -> SPD n Mm) -> length b = n ->
  forall conv x0 i j xi ri pvi xj rj pvj, (forall x, x0 = Some x -> length x = n) -> (i < j)%nat ->
  cg_iter A M conv i (cg_x0 b x0, cg_r0 A b x0, None) = Some (xi, ri, pvi) ->
  cg_iter A M conv j (cg_x0 b x0, cg_r0 A b x0, None) = Some (xj, rj, pvj) ->
  dot rj (Mop M ri) = 0 /\ ~ Forall (fun t => t = 0) ri.
Proof. exact cg_iterates_orthogonal. Qed.
Theorem C10_cg_directions_conjugate : forall n (A : mat (F:=R)) M (b : vec (F:=R)),
  SPD n A -> (forall Mm, M = Some Mm -> SPD n Mm) -> length b = n ->
  forall conv x0 i j xi ri di rhoi xj rj dj rhoj, (forall x, x0 = Some x -> length x = n) -> (i < j)%nat ->
  cg_iter A M conv (S i) (cg_x0 b x0, cg_r0 A b x0, None) = Some (xi, ri, Some (di, rhoi)) ->
  cg_iter A M conv (S j) (cg_x0 b x0, cg_r0 A b x0, None) = Some (xj, rj, Some (dj, rhoj)) ->
  dot dj (mv A di) = 0 /\ 0 < dot di (mv A di).
Proof. exact cg_directions_conjugate. Qed.
(* MAIN: b <> 0, tol > 0, an iteration budget > n (the default 10 n is one): no division by zero
   occurs and forward() returns THROUGH THE TOLERANCE TEST, at an iteration k <= n, an x with
   |b - A x| < tol |b|.  (n + 1 non-zero pairwise M-orthogonal residuals do not fit into R^n.) *)
Theorem C10_cg_terminates_exact : forall n (A : mat (F:=R)) M (b : vec (F:=R)),
  SPD n A -> (forall Mm, M = Some Mm -> SPD n Mm) -> length b = n ->
  forall tol maxiter x0, ~ Forall (fun t => t = 0) b -> 0 < tol ->
  (forall x, x0 = Some x -> length x = n) -> (forall mi, maxiter = Some mi -> (n < mi)%nat) ->
  exists x r k, cg norm2 tol maxiter A b x0 M = RetLoop (CgExit x r k) /\ (k <= n)%nat /\
    r = vsub b (mv A x) /\ length x = n /\ norm2 (vsub b (mv A x)) < tol * norm2 b.
Proof. exact cg_terminates_exact. Qed.
(* the clause of the property, b zero or not: a finite x with |b - A x| <= tol |b| is returned; here a
   budget of n iterations is enough (the loop may then end by exhaustion - with the zero residual) *)
Theorem C10_cg_tolerance : forall n (A : mat (F:=R)) M (b : vec (F:=R)),
  SPD n A -> (forall Mm, M = Some Mm -> SPD n Mm) -> length b = n ->
  forall tol maxiter x0, 0 < tol ->
  (forall x, x0 = Some x -> length x = n) -> (forall mi, maxiter = Some mi -> (n <= mi)%nat) ->
  exists x, cg_value (cg norm2 tol maxiter A b x0 M) = Some x /\ length x = n /\
    norm2 (vsub b (mv A x)) <= tol * norm2 b.
Proof. exact cg_tolerance_n. Qed.
(* the statement that earlier versions of this file could only display *)
Definition C10_cg_tolerance_full : Prop := forall n (A : mat (F:=R)) (b : vec (F:=R)) tol, SPD n A -> length b = n -> 0 < tol ->
  exists x, cg_value (cg norm2 tol None A b None None) = Some x /\ norm2 (vsub b (mv A x)) <= tol * norm2 b.
Theorem C10_cg_tolerance_full_holds : C10_cg_tolerance_full.
Proof.
  intros n A b tol HA Hb Ht.
  destruct (cg_tolerance n A None b HA (precond_none n) Hb tol None None Ht) as (x & E & _ & H);
    [intros ? ?; discriminate|intros ? ?; discriminate|]. exists x. auto.
Qed.
(* all hypotheses at once: SPD A = [[2,1],[1,2]], SPD preconditioner diag(1/2,1/2), guess (1,1),
   b = (1,0), default budget *)
Example C10_cg_terminates_satisfiable :
  SPD 2 A2 /\ SPD 2 M2 /\
  exists x r k, cg norm2 (1 / 100000) None A2 [1; 0] (Some [1; 1]) (Some M2) = RetLoop (CgExit x r k) /\ (k <= 2)%nat /\
    r = vsub [1; 0] (mv A2 x) /\ length x = 2%nat /\ norm2 (vsub [1; 0] (mv A2 x)) < 1 / 100000 * norm2 [1; 0].
Proof. exact (conj A2_SPD (conj M2_SPD cg_terminates_example)). Qed.
(* executable variant used by the correspondence: same function for tol >= 0; one-pass trace *)
Theorem C10_cg_sq_equiv : forall tol maxiter (A : mat (F:=R)) b x0 M,
  0 <= tol -> cg norm2 tol maxiter A b x0 M = cg_sq tol maxiter A b x0 M.
Proof. exact cg_sq_equiv. Qed.
Theorem C10_cg_values_spec : forall (F : Type) (NF : Num F) bzero conv K ks (A : mat (F:=F)) b x0 M,
  Forall (fun k => (k <= K)%nat) ks ->
  cg_core_values bzero conv K ks A b x0 M = map (fun k => cg_value (cg_core bzero conv (Some k) A b x0 M)) ks.
Proof. exact @cg_values_spec. Qed.

(* ---------------------------------------------------------------------------------------------
   block-sparse product *)
(* the two-pointer merge: for strictly increasing index lists the matches of block row i with block
   column j are exactly the pairs of stored positions holding a common inner index *)
Theorem C10_merge_join_correct : forall (crow col ccol row : list nat) (i j : nat),
  let lo1 := nth i crow O in let hi1 := nth (S i) crow O in
  let lo2 := nth j ccol O in let hi2 := nth (S j) ccol O in
  (lo1 <= hi1)%nat -> (lo2 <= hi2)%nat -> sinc col lo1 hi1 -> sinc row lo2 hi2 ->
  cell_matches crow col ccol row i j = join_spec col row (seq lo1 (hi1 - lo1)) lo2 hi2 /\
  forall k1 k2, In (k1, k2) (cell_matches crow col ccol row i j) <->
                ((lo1 <= k1 < hi1)%nat /\ (lo2 <= k2 < hi2)%nat /\ nth k1 col O = nth k2 row O).
Proof. exact merge_join_correct. Qed.
Example C10_merge_join_satisfiable :
  let crow := [0; 2]%nat in let col := [0; 2]%nat in let ccol := [0; 2]%nat in let row := [1; 2]%nat in
  (nth 0 crow 0 <= nth 1 crow 0)%nat /\ (nth 0 ccol 0 <= nth 1 ccol 0)%nat /\
  sinc col (nth 0 crow O) (nth 1 crow O) /\ sinc row (nth 0 ccol O) (nth 1 ccol O) /\
  cell_matches crow col ccol row 0 0 = [(1, 1)]%nat.
Proof. exact merge_join_example. Qed.
(* bsr_matmul_dense: for every block grid sm x sn x sp, every block shape dm x dn x dp (>= 1) and every
   pair of sparsity patterns - including empty block rows / columns, empty operands and explicitly
   stored zero blocks - the call succeeds and the result, densified, IS the dense product.
   wf_bs so si X is the validity of a block-compressed tensor as torch constructs it: the compressed
   pointer is monotone and bounded by nnz, the plain indices are strictly increasing inside every
   segment and < si, there is one bh x bw block per stored index. *)
Theorem C10_bsr_matmul_dense : forall (A B : bs (F:=R)) (sm sn sp : nat),
  wf_bs sm sn A -> wf_bs sp sn B -> s_bw A = s_bh B ->
  s_bh A <> O -> s_bw A <> O -> s_bw B <> O ->
  s_rows A = (sm * s_bh A)%nat -> s_cols A = (sn * s_bw A)%nat ->
  s_rows B = (sn * s_bw A)%nat -> s_cols B = (sp * s_bw B)%nat -> (0 < sn)%nat ->
  exists C, bsr_bsc_matmul A B = Some C /\ bsr_to_dense C = mm (bsr_to_dense A) (bsc_to_dense B).
Proof. exact bsr_matmul_dense_thm. Qed.
Example C10_bsr_matmul_dense_satisfiable :
  wf_bs 2%nat 2%nat exA /\ wf_bs 1%nat 2%nat exB /\
  exists C, bsr_bsc_matmul exA exB = Some C /\ bsr_to_dense C = mm (bsr_to_dense exA) (bsc_to_dense exB).
Proof. exact (conj exA_wf (conj exB_wf bsr_matmul_dense_example)). Qed.
(* layout dispatch of _sparse_csr_mm: which callee ends every layout pair *)
Theorem C10_dispatch_table : forall l1 l2,
  snd (dispatch 3 l1 l2) =
  Some (match l1, l2 with
        | Bsr, Bsc => TBsrBsc
        | Bsc, Bsr => TNotImpl
        | (Csr | Csc), (Csr | Csc) => TAddmm Csr
        | _, Strided => TAddmm Strided
        | l, _ => TTuple l
        end)
  /\ (length (fst (dispatch 3 l1 l2)) <= 2)%nat.
Proof. exact dispatch_table. Qed.

Print Assumptions C10_cholesky_wrapper. Print Assumptions C10_cholesky_returns_only_on_success.
Print Assumptions C10_cholesky_nan_raises. Print Assumptions C10_cholesky_batch_spd. Print Assumptions C10_cholesky_batch_raises.
Print Assumptions C10_cholesky_contract_satisfiable. Print Assumptions C10_cholesky_old_raises_refuted.
Print Assumptions C10_cholesky_old_raises_refuted_witness. Print Assumptions C10_cholesky_old_ignores_info.
Print Assumptions C10_cholesky_old_same_on_success.
Print Assumptions C10_pinv_wrapper. Print Assumptions C10_pinv_wrapper_penrose. Print Assumptions C10_lstsq_wrapper. Print Assumptions C10_lstsq_nan_raises.
Print Assumptions C10_pinv_batch_item. Print Assumptions C10_lstsq_batch.
Print Assumptions C10_cg_residual_inv. Print Assumptions C10_cg_returns. Print Assumptions C10_cg_exit_sound.
Print Assumptions C10_cg_zero_rhs. Print Assumptions C10_cg_sq_equiv. Print Assumptions C10_cg_values_spec.
Print Assumptions C10_merge_join_correct. Print Assumptions C10_bsr_matmul_dense.
Print Assumptions C10_bsr_matmul_dense_satisfiable. Print Assumptions C10_dispatch_table.
Print Assumptions C10_cholesky_contract_satisfiable_2x2. Print Assumptions C10_cholesky_wrapper_sym. Print Assumptions C10_cholesky_contract_sym_satisfiable.
Print Assumptions C10_cholesky_nonsymmetric_refuted.
Print Assumptions C10_pinv_wrapper_pointwise. Print Assumptions C10_lstsq_wrapper_pointwise.
Print Assumptions C10_cholesky_wrapper_pointwise. Print Assumptions C10_pinv_wrapper_unique. Print Assumptions C10_pinv_batch. Print Assumptions C10_pinv_contract_satisfiable. Print Assumptions C10_lstsq_contract_satisfiable.
Print Assumptions C10_cg_iterates_orthogonal. Print Assumptions C10_cg_directions_conjugate.
Print Assumptions C10_cg_terminates_exact. Print Assumptions C10_cg_tolerance. Print Assumptions C10_cg_tolerance_full_holds.
Print Assumptions C10_cg_terminates_satisfiable. Print Assumptions C10_merge_join_satisfiable.
