(* C14 — LQR returns the feasible global minimiser of the LQ problem; MPC agrees with it.
   Statements only; proofs in Proofs/LQR.v, LQR2.v, LQR3.v (tied scalar model) and Proofs/LQRMat1..6.v
   (arbitrary dimensions).

   PART 1 - the tied model Model/LQR.v: the scalar instance (state and input dimension 1, one batch
   item) of lqr.py / mpc.py / runsys AS CODED after the two C14 `fix:` commits (system.reset() before
   the nominal roll-out and before the forward pass; squeeze(-2) only for NLS Jacobians), with the
   system's time counter of Model/Dynamics.v.  Notation:
     lqr_solve s dt prob x0 un tm = Some (xs, us, c, tm')   one LQR.forward(x0, dt, un) on the system
         object s whose counter is tm: states, inputs, cost, counter afterwards (None: it raises);
     traj s t x us        states visited by calling the system from x at time t with inputs us;
     Jcost s t x prob us  sum_t 1/2 tau_t^T Q_t tau_t + p_t^T tau_t along that trajectory;
     sys_ok s             the object is an LTV object or has constant coefficients (LTI);
     coherent s dt        (LTV object and dt = 1) or constant coefficients (any dt): the coefficients the
                          backward pass reads after set_refpoint(t*dt) are those of the system's t-th call;
     pd st                Q_t symmetric positive definite;   nominal_ok prob un   u_traj None or of length T.
   For every horizon, history, nominal trajectory: the solve returns (C14_lqr_returns_pd), is feasible,
   reports the sum of the stage costs, is THE minimiser (C14_lqr_optimal_unique_scalar: no sequence is
   cheaper and every sequence that is as cheap equals it), has zero gradient (C14_lqr_gradient_zero_scalar),
   is independent of nominal trajectory and counter as a whole (C14_lqr_nominal_independent_scalar);
   MPC returns exactly it, its loop ending by the stepper after 1..max(1,max_steps) iterations
   (C14_mpc_linear_is_lqr_full_scalar).  REFUTED: optimality for dt <> 1 on an LTV object
   (C14_lqr_optimal_dt_refuted; confirmed on the implementation: LQR(x_init, dt=2) on the LTV object of
   the witness returns cost 7/8, the optimum is 3/4).
   The `_scalar_partial` theorems of the first build are kept; they are subsumed by the ones above.

   PART 2 - arbitrary state / input dimensions ns, nc >= 1 (Proofs/LQRMat2.v): lqrN_solve is the same
   recursion with the matrices of Base/Mat.v in place of scalars (block form Q_t = [[Nxx Nxu][Nux Nuu]],
   p_t = (npx, npu); F^T V F, Cholesky solve, K, k, V, v, forward pass and cost as coded); the Cholesky
   factorisation and the two cholesky_solve calls are parameters (chol, csm, csv) with the contract
     chol_sound_c     when chol Quu succeeds, csm / csv return solutions of Quu X = M / Quu y = b;
     chol_complete_c  chol succeeds on every symmetric positive-definite matrix.
   pdN ns nc st : Q_t symmetric, positive SEMIdefinite and positive definite in the input block (weaker
   than Q_t positive definite: C14_pd_implies_pdN); wfsys: shapes of A_t, B_t, c1_t; coherentN as above.
   This transcription is NOT a Model file: it is tied to the code through its instance at ns = nc = 1,
   which is proved to compute exactly what Model/LQR.v computes (C14_matrix_dim1_is_model) - for
   dimensions > 1 the tie is the property oracle of the harness.  Its hypotheses are satisfiable in
   dimension 1 (the model's own 1x1 routines) and in dimension 2 (C14_matrix_hypotheses_dim2,
   C14_matrix_dim2_example).  Zero gradient in any dimension: C14_lqr_gradient_zero_matrix.
   Not proved: batching inside one call, float rounding, MPC on NONLINEAR systems beyond the structure
   of the forward pass (C14_forward_pass_any_dynamics_partial: feasibility and cost consistency hold for
   any transition function and any gains; the linearisation itself is not modelled).
   The `_old_refuted` theorems are about the code BEFORE the fix commits (Model/LQR.v:
   lqr_solve_old, mpc_forward_old, lqr_shape_raises_old); their witnesses are regression cases of
   the check. *)
From Coq Require Import ZArith QArith List Bool Reals.
Import ListNotations.
From Coquelicot Require Import Coquelicot.
From PV Require Import Base.Num Base.Mat Model.Dynamics Model.Controller Model.LQR.
From PV Require Import Proofs.LQRMat1 Proofs.LQRMat2 Proofs.LQRMat3 Proofs.LQRMat4 Proofs.LQRMat5 Proofs.LQRMat6 Proofs.LQRMat7 Proofs.LQRMat8.
From PV Require Import Proofs.LQR Proofs.LQR2 Proofs.LQR3.
Close Scope Q_scope.

(* feasibility, for every history (any number type, any dt, any nominal trajectory, any counter):
   x_0 = x_init and x_{t+1} = system(x_t, u_t), the t-th call being made at time t *)
Theorem C14_lqr_feasible : forall (F : Type) (NF : Num F) (s : ssys (F:=F)) dt prob x0 un tm xs us c tm',
  lqr_solve s dt prob x0 un tm = Some (xs, us, c, tm') ->
  length us = length prob /\ xs = x0 :: traj s 0 x0 us.
Proof. intros F NF. exact lqr_feasible. Qed.

(* system time after a solve: the horizon T, whatever it was before *)
Theorem C14_lqr_time_bookkeeping : forall (F : Type) (NF : Num F) (s : ssys (F:=F)) dt prob x0 un tm xs us c tm',
  lqr_solve s dt prob x0 un tm = Some (xs, us, c, tm') -> tm' = Z.of_nat (length prob).
Proof. intros F NF. exact lqr_time_bookkeeping. Qed.

(* the reported cost is the sum of the stage costs along the returned trajectory *)
Theorem C14_lqr_cost_is_sum : forall (s : ssys (F:=R)) dt prob x0 un tm xs us c tm',
  lqr_solve s dt prob x0 un tm = Some (xs, us, c, tm') -> c = Jcost s 0 x0 prob us.
Proof. exact lqr_cost_is_sum. Qed.

(* optimality: ANY horizon, any A_t, B_t, c1_t (time-varying too), PD Q_t, any p_t, any nominal input
   trajectory, ANY time counter (any earlier calls): the returned trajectory is the trajectory of
   the returned inputs, the cost is its cost, and no input sequence has a lower cost *)
Theorem C14_lqr_optimal_scalar_partial : forall (s : ssys (F:=R)) prob x0 un tm xs us c tm',
  Forall pd prob -> sys_ok s ->
  lqr_solve s 1 prob x0 un tm = Some (xs, us, c, tm') ->
  length us = length prob /\ xs = x0 :: traj s 0 x0 us /\ c = Jcost s 0 x0 prob us /\
  forall us', length us' = length prob -> (c <= Jcost s 0 x0 prob us')%R.
Proof. exact lqr_optimal_scalar. Qed.
(* independence of the nominal input trajectory supplied and of the counters (for the optimal cost) *)
Theorem C14_lqr_nominal_independent_partial :
  forall (s : ssys (F:=R)) prob x0 un un' tm tm0 xs us c tm' xs2 us2 c2 tm2,
  Forall pd prob -> sys_ok s ->
  lqr_solve s 1 prob x0 un tm = Some (xs, us, c, tm') ->
  lqr_solve s 1 prob x0 un' tm0 = Some (xs2, us2, c2, tm2) -> c = c2.
Proof. exact lqr_cost_nominal_independent. Qed.

(* history clause: the whole result of a solve (states, inputs, cost, time afterwards, raising or
   not) does not depend on the time counter it finds - for every system (time-varying too), number
   type, dt, cost; hence not on any sequence of earlier solves on the same object *)
Theorem C14_lqr_history_independent : forall (F : Type) (NF : Num F) (s : ssys (F:=F)) dt prob x0 un tm tm',
  lqr_solve s dt prob x0 un tm = lqr_solve s dt prob x0 un tm'.
Proof. intros F NF. exact lqr_history_independent. Qed.
Theorem C14_lqr_after_any_history : forall (F : Type) (NF : Num F) (s : ssys (F:=F)) h dt prob x0 un tm,
  lqr_solve s dt prob x0 un (after_history s tm h) = lqr_solve s dt prob x0 un 0%Z.
Proof. intros F NF. exact lqr_after_any_history. Qed.

(* MPC on a linear system - time-invariant or time-varying - returns the LQR optimum, whatever the
   stepper does, whatever the counter *)
Theorem C14_mpc_linear_is_lqr_scalar_partial : forall (s : ssys (F:=R)) prob x0 cfg st u0 tm xs us c tm' st' n,
  sys_ok s -> Forall pd prob ->
  mpc_forward s 1 prob x0 cfg st u0 tm = Some (xs, us, c, tm', st', n) ->
  length us = length prob /\ xs = x0 :: traj s 0 x0 us /\ c = Jcost s 0 x0 prob us /\
  (forall us', length us' = length prob -> (c <= Jcost s 0 x0 prob us')%R) /\
  (forall un tm0 xs0 us0 c0 tm0', lqr_solve s 1 prob x0 un tm0 = Some (xs0, us0, c0, tm0') -> c = c0).
Proof. exact mpc_linear_is_lqr_scalar. Qed.

(* no shape of the property's range makes LQR raise (model of the shape handling of A, B: the predicate
   is constant after the fix commit - this is a statement about the shape grid of the tie, the
   theorem that the solve returns is C14_lqr_returns_pd below) *)
Theorem C14_lqr_returns : forall nb ns T, lqr_shape_raises nb ns T = false.
Proof. exact shape_never_raises. Qed.

(* ---------------------------------------------------------------- before the fix commits
   (recorded as `fixed:` in known_findings.txt).  Witness (Proofs/LQR.v): LTV object
   A_t = (1,0,2)[t mod 3], B = 1, Q = I, p = 0, x_init = 1, T = 2. *)
(* Proofs/LQR.v:  lqr_history_independent_old := forall (s : ssys (F:=Q)) prob x0 un tm tm',
     drop4 (lqr_solve_old s 1 prob x0 un tm) = drop4 (lqr_solve_old s 1 prob x0 un tm')  *)
Theorem C14_lqr_history_independent_old_refuted : ~ lqr_history_independent_old.
Proof. exact history_independent_old_refuted. Qed.
(* two consecutive solves on one object: optimum 3/4, then - rolled out from the stale time 2 - cost 1 *)
Theorem C14_lqr_second_solve_suboptimal_old_refuted :
  exists (s : ssys (F:=Q)) prob x0 xs1 us1 c1 t1 xs2 us2 c2 t2,
    sk s = KLTV /\
    lqr_solve_old s 1 prob x0 None 0%Z = Some (xs1, us1, c1, t1) /\
    lqr_solve_old s 1 prob x0 None t1 = Some (xs2, us2, c2, t2) /\ (c1 < c2)%Q.
Proof. exact second_solve_suboptimal_old. Qed.
(* horizon 1 at a stale time: the returned final state was computed with A_2 instead of A_0 *)
Theorem C14_lqr_stale_final_state_old_refuted :
  exists (s : ssys (F:=Q)) prob x0 xs1 us1 c1 t1 xs2 us2 c2 t2,
    lqr_solve_old s 1 prob x0 None 0%Z = Some (xs1, us1, c1, t1) /\
    lqr_solve_old s 1 prob x0 None 2%Z = Some (xs2, us2, c2, t2) /\ xs1 <> xs2.
Proof. exact stale_final_state_old. Qed.
(* MPC on the fresh LTV object (default stepper): LQR returned 3/4, MPC returned 1 *)
Theorem C14_mpc_linear_is_lqr_ltv_old_refuted :
  exists (s : ssys (F:=Q)) prob x0 cfg xs1 us1 c1 t1 xs2 us2 c2 t2 st n,
    sk s = KLTV /\
    lqr_solve_old s 1 prob x0 None 0%Z = Some (xs1, us1, c1, t1) /\
    mpc_forward_old s 1 prob x0 cfg rtb_init None 0%Z = Some (xs2, us2, c2, t2, st, n) /\ (c1 < c2)%Q.
Proof. exact mpc_ltv_suboptimal_old. Qed.
(* state dimension 1 with a batch and a horizon >= 2 raised (`system.A.squeeze(-2)`) *)
Theorem C14_lqr_returns_old_refuted :
  exists nb ns T, (1 <= nb <= 3)%nat /\ (1 <= ns <= 6)%nat /\ (1 <= T <= 20)%nat /\ lqr_shape_raises_old nb ns T = true.
Proof. exact shape_raises_old_witness. Qed.

(* hypotheses are satisfiable *)
Theorem C14_hypotheses_satisfiable :
  pd {| qxx := 1%R; qxu := (1 / 2)%R; qux := (1 / 2)%R; quu := 2%R; px := 3%R; pu := (-1)%R |} /\
  sys_ok {| sk := KLTI; scoef := fun _ => ((3 / 2)%R, 1%R, Some (1 / 4)%R) |} /\
  sys_ok {| sk := KLTV; scoef := fun t => (IZR t, 1%R, None) |}.
Proof. split; [exact pd_example|split; [exact sys_ok_example_lti|exact sys_ok_example_ltv]]. Qed.


(* ================================================================ second round: the tied scalar model *)
(* LQR.forward RETURNS (the Cholesky factorisation never fails) for every positive-definite cost, every
   system object (LTI, LTV, even an LTI-class object with varying coefficients), every dt, counter and
   nominal trajectory of length T; and it raises exactly when the nominal trajectory has another length *)
Theorem C14_lqr_returns_pd : forall (s : ssys (F:=R)) dt prob x0 un tm,
  Forall pd prob -> nominal_ok prob un ->
  exists xs us c tm', lqr_solve s dt prob x0 un tm = Some (xs, us, c, tm').
Proof. exact lqr_solve_returns. Qed.
Theorem C14_lqr_raises_iff : forall (s : ssys (F:=R)) dt prob x0 un tm, Forall pd prob ->
  (lqr_solve s dt prob x0 un tm = None <-> ~ nominal_ok prob un).
Proof. exact lqr_solve_raises_iff. Qed.

(* optimality WITH UNIQUENESS, any horizon, any coherent (system, dt) - dt is arbitrary on
   constant-coefficient systems -: no input sequence is cheaper, and one that is as cheap is the returned one *)
Theorem C14_lqr_optimal_unique_scalar : forall (s : ssys (F:=R)) dt prob x0 un tm xs us c tm',
  Forall pd prob -> coherent s dt ->
  lqr_solve s dt prob x0 un tm = Some (xs, us, c, tm') ->
  length us = length prob /\ xs = x0 :: traj s 0 x0 us /\ c = Jcost s 0 x0 prob us /\
  (forall us', length us' = length prob -> (c <= Jcost s 0 x0 prob us')%R) /\
  (forall us', length us' = length prob -> (Jcost s 0 x0 prob us' <= c)%R -> us' = us).
Proof. exact lqr_optimal_unique. Qed.

(* independence of the nominal input trajectory and of the counter found, for the WHOLE result
   (states, inputs, cost, time afterwards) *)
Theorem C14_lqr_nominal_independent_scalar : forall (s : ssys (F:=R)) dt prob x0 un un' tm tm0,
  Forall pd prob -> coherent s dt -> nominal_ok prob un -> nominal_ok prob un' ->
  lqr_solve s dt prob x0 un tm = lqr_solve s dt prob x0 un' tm0.
Proof. exact lqr_nominal_independent. Qed.

(* zero gradient with respect to every input: along EVERY direction d of the input space the cost is
   c + h e^2 with h >= 0 (no first-order term), so its derivative at the returned inputs is 0;
   d = unit_dir T i is the partial derivative with respect to u_i.  line us d e = us + e d *)
Theorem C14_lqr_no_first_order_scalar : forall (s : ssys (F:=R)) dt prob x0 un tm xs us c tm',
  Forall pd prob -> coherent s dt ->
  lqr_solve s dt prob x0 un tm = Some (xs, us, c, tm') ->
  forall d, length d = length prob -> exists h, (0 <= h)%R /\
    forall e, Jcost s 0 x0 prob (line us d e) = (c + h * (e * e))%R.
Proof. exact lqr_no_first_order. Qed.
Theorem C14_lqr_gradient_zero_scalar : forall (s : ssys (F:=R)) dt prob x0 un tm xs us c tm',
  Forall pd prob -> coherent s dt ->
  lqr_solve s dt prob x0 un tm = Some (xs, us, c, tm') ->
  forall d, length d = length prob ->
    is_derive (fun e => Jcost s 0 x0 prob (line us d e)) 0%R 0%R.
Proof. exact lqr_gradient_zero. Qed.

(* MPC.forward on a linear system: it returns; what it returns is exactly what LQR returns from any
   nominal trajectory and counter; the loop ends because the stepper stops (the fuel of the model loop is
   never exhausted) after between 1 and max(1, max_steps) iterations - whatever the stepper
   configuration and state, i.e. for every iteration count *)
Theorem C14_mpc_linear_returns_scalar : forall (s : ssys (F:=R)) dt prob x0 cfg st u0 tm,
  Forall pd prob -> nominal_ok prob u0 ->
  exists xs us c tm' st' n, mpc_forward s dt prob x0 cfg st u0 tm = Some (xs, us, c, tm', st', n).
Proof. exact mpc_linear_returns. Qed.
Theorem C14_mpc_linear_is_lqr_full_scalar : forall (s : ssys (F:=R)) dt prob x0 cfg st u0 tm xs us c tm' st' n,
  Forall pd prob -> coherent s dt ->
  mpc_forward s dt prob x0 cfg st u0 tm = Some (xs, us, c, tm', st', n) ->
  (forall un tm0, nominal_ok prob un -> lqr_solve s dt prob x0 un tm0 = Some (xs, us, c, tm')) /\
  (forall us', length us' = length prob -> (c <= Jcost s 0 x0 prob us')%R) /\
  rtb_cont st' = false /\ (1 <= n)%nat /\ (Z.of_nat n <= Z.max 1 (rtb_max cfg))%Z.
Proof. exact mpc_linear_is_lqr. Qed.
Theorem C14_mpc_loop_ends : forall (F : Type) (NF : Num F) (s : ssys (F:=F)) dt prob x0 cfg st u0 tm xs us c tm' st' n,
  mpc_forward s dt prob x0 cfg st u0 tm = Some (xs, us, c, tm', st', n) ->
  rtb_cont st' = false /\ (1 <= n)%nat /\ (Z.of_nat n <= Z.max 1 (rtb_max cfg))%Z.
Proof. intros F NF. exact mpc_forward_ends. Qed.

(* REFUTED: optimality with dt <> 1 on an LTV object.  Witness (Proofs/LQR2.v): the LTV object
   A_t = (1,0,2)[t mod 3], B = 1, Q_t = I, p = 0, x_init = 1, T = 3, dt = 2: returned inputs
   (-1/4, 1/4, 0) of cost 7/8, while (-1/2, 0, 0) costs 3/4: lqr_backward reads A, B after
   set_refpoint(t*dt), the system itself advances its counter by 1 per call *)
Theorem C14_lqr_optimal_dt_refuted :
  exists (s : ssys (F:=Q)) dt prob x0 xs us c tm' us',
    sk s = KLTV /\ prob = w_prob3 /\
    lqr_solve s dt prob x0 None 0%Z = Some (xs, us, c, tm') /\
    length us' = length prob /\ (Jcost s 0%Z x0 prob us' < c)%Q.
Proof. exact lqr_optimal_dt_refuted. Qed.

(* the forward pass for ANY transition function f (what MPC runs on a nonlinear system) and ANY gains
   and nominal trajectory: the returned states follow f from x, one call per step at times tm, tm+1, ...,
   and the returned cost is the accumulated sum of the stage costs along them; on a linear system it is
   the model's forward pass.  Partial: the NLS linearisation that produces the gains is not modelled *)
Theorem C14_forward_pass_any_dynamics_partial : forall (F : Type) (NF : Num F) (f : Z -> F -> F -> F) l tm x c xs us cf tmf,
  fwdG f tm x l c = (xs, us, cf, tmf) ->
  xs = trajG f tm x us /\ length us = length l /\ tmf = (tm + Z.of_nat (length l))%Z /\
  cf = JaccG f tm x (map (fun it => fst (fst (fst it))) l) us c.
Proof. intros F NF. exact fwdG_spec. Qed.
Theorem C14_forward_pass_linear_is_model : forall (F : Type) (NF : Num F) (s : ssys (F:=F)) l tm x c,
  fwd s tm x l c = fwdG (s_next s) tm x l c.
Proof. intros F NF. exact fwd_is_fwdG. Qed.

(* ================================================================ arbitrary dimensions ns, nc >= 1 *)
(* optimality with uniqueness, feasibility, cost, time: every horizon, every time-varying A_t, B_t,
   c1_t of the right shapes, every nominal trajectory and counter, every Cholesky routine that solves
   when it succeeds (the contract is spelled out here; it is chol_sound_c) *)
Theorem C14_lqr_optimal_matrix :
  forall (ns nc : nat) (Lt : Type) (chol : matR -> option Lt) (csm : Lt -> matR -> matR) (csv : Lt -> list R -> list R),
  (forall Quu L, wf nc nc Quu -> chol Quu = Some L ->
     (forall m M, wf nc m M -> wf nc m (csm L M) /\ mmul Quu (csm L M) = M) /\
     (forall b, length b = nc -> length (csv L b) = nc /\ mapply Quu (csv L b) = b)) ->
  forall s dt prob x0 un tm xs us c tm',
  wfsys ns nc s -> coherentN s dt -> Forall (pdN ns nc) prob -> length x0 = ns -> nominalN_ok nc prob un ->
  lqrN_solve nc Lt chol csm csv s dt prob x0 un tm = Some (xs, us, c, tm') ->
  length us = length prob /\ Forall (lenc nc) us /\ xs = x0 :: trajN s 0 x0 us /\ tm' = Z.of_nat (length prob) /\
  c = JcostN s 0 x0 prob us /\
  (forall us', length us' = length prob -> Forall (lenc nc) us' -> (c <= JcostN s 0 x0 prob us')%R) /\
  (forall us', length us' = length prob -> Forall (lenc nc) us' -> (JcostN s 0 x0 prob us' <= c)%R -> us' = us).
Proof. exact lqrN_optimal. Qed.
(* zero gradient in any dimension: along every line us + e ds through the returned inputs the cost is
   c + h e^2, h >= 0, so every directional derivative (ds = a unit vector at one component of one input:
   that partial derivative) is 0.  lineN us ds e = the sequence u_t + e d_t *)
Theorem C14_lqr_no_first_order_matrix : forall ns nc Lt chol csm csv,
  chol_sound_c nc Lt chol csm csv ->
  forall s dt prob x0 un tm xs us c tm',
  wfsys ns nc s -> coherentN s dt -> Forall (pdN ns nc) prob -> length x0 = ns -> nominalN_ok nc prob un ->
  lqrN_solve nc Lt chol csm csv s dt prob x0 un tm = Some (xs, us, c, tm') ->
  forall ds, length ds = length prob -> Forall (lenc nc) ds -> exists h, (0 <= h)%R /\
    forall e, JcostN s 0 x0 prob (lineN us ds e) = (c + h * (e * e))%R.
Proof. exact lqrN_no_first_order. Qed.
Theorem C14_lqr_gradient_zero_matrix : forall ns nc Lt chol csm csv,
  chol_sound_c nc Lt chol csm csv ->
  forall s dt prob x0 un tm xs us c tm',
  wfsys ns nc s -> coherentN s dt -> Forall (pdN ns nc) prob -> length x0 = ns -> nominalN_ok nc prob un ->
  lqrN_solve nc Lt chol csm csv s dt prob x0 un tm = Some (xs, us, c, tm') ->
  forall ds, length ds = length prob -> Forall (lenc nc) ds ->
    is_derive (fun e => JcostN s 0 x0 prob (lineN us ds e)) 0%R 0%R.
Proof. exact lqrN_gradient_zero. Qed.
(* the solve returns: every system of the right shapes (no coherence needed), every dt *)
Theorem C14_lqr_returns_matrix : forall ns nc Lt chol csm csv,
  chol_sound_c nc Lt chol csm csv -> chol_complete_c nc Lt chol ->
  forall s dt prob x0 un tm,
  wfsys ns nc s -> Forall (pdN ns nc) prob -> length x0 = ns -> nominalN_ok nc prob un ->
  exists xs us c tm', lqrN_solve nc Lt chol csm csv s dt prob x0 un tm = Some (xs, us, c, tm').
Proof. exact lqrN_returns. Qed.
(* independent of the nominal trajectory (whole result) and - unconditionally - of the counter found *)
Theorem C14_lqr_nominal_independent_matrix : forall ns nc Lt chol csm csv,
  chol_sound_c nc Lt chol csm csv -> chol_complete_c nc Lt chol ->
  forall s dt prob x0 un un' tm tm0,
  wfsys ns nc s -> coherentN s dt -> Forall (pdN ns nc) prob -> length x0 = ns ->
  nominalN_ok nc prob un -> nominalN_ok nc prob un' ->
  lqrN_solve nc Lt chol csm csv s dt prob x0 un tm = lqrN_solve nc Lt chol csm csv s dt prob x0 un' tm0.
Proof. exact lqrN_nominal_independent. Qed.
Theorem C14_lqr_history_independent_matrix : forall nc Lt chol csm csv s dt prob x0 un tm tm',
  lqrN_solve nc Lt chol csm csv s dt prob x0 un tm = lqrN_solve nc Lt chol csm csv s dt prob x0 un tm'.
Proof. exact lqrN_history_independent. Qed.
(* MPC.forward (the loop of the model, C14_mpc_model_loop_is_generic_loop, over the matrix LQR) on a
   linear system of any dimension: returns, and returns exactly the LQR result - feasible, optimal -
   after 1..max(1,max_steps) iterations, whatever the stepper configuration and state *)
Theorem C14_mpc_linear_is_lqr_matrix : forall ns nc Lt chol csm csv,
  chol_sound_c nc Lt chol csm csv -> chol_complete_c nc Lt chol ->
  forall s dt prob x0 cfg st u0 tm,
  wfsys ns nc s -> coherentN s dt -> Forall (pdN ns nc) prob -> length x0 = ns -> nominalN_ok nc prob u0 ->
  exists xs us c tm' st' n,
    mpcN_forward nc Lt chol csm csv s dt prob x0 cfg st u0 tm = Some (xs, us, c, tm', st', n) /\
    (forall un tm0, nominalN_ok nc prob un ->
       lqrN_solve nc Lt chol csm csv s dt prob x0 un tm0 = Some (xs, us, c, tm')) /\
    xs = x0 :: trajN s 0 x0 us /\ c = JcostN s 0 x0 prob us /\
    (forall us', length us' = length prob -> Forall (lenc nc) us' -> (c <= JcostN s 0 x0 prob us')%R) /\
    rtb_cont st' = false /\ (1 <= n)%nat /\ (Z.of_nat n <= Z.max 1 (rtb_max cfg))%Z.
Proof. exact mpcN_linear_is_lqr. Qed.
Theorem C14_mpc_model_loop_is_generic_loop : forall (F : Type) (NF : Num F) (solve : solver (F:=F)) s dt prob x0 cfg st u0 tm,
  mpc_forward_gen solve s dt prob x0 cfg st u0 tm =
  gforward (list F) (list F) (fun u tm => solve s dt prob x0 u tm) cfg st u0 tm.
Proof. intros F NF. exact mpc_forward_is_gforward. Qed.

(* the forward pass for vector states and ANY transition function f, any gains, any nominal trajectory
   (MPC on a nonlinear system of any dimension): states follow f, cost = accumulated stage costs; on a
   linear system it is the forward pass of lqrN_solve.  Partial: the NLS linearisation is not modelled *)
Theorem C14_forward_pass_any_dynamics_matrix_partial : forall (f : Z -> list R -> list R -> list R) l tm x c xs us cf tmf,
  fwdNG f tm x l c = (xs, us, cf, tmf) ->
  xs = trajNG f tm x us /\ length us = length l /\ tmf = (tm + Z.of_nat (length l))%Z /\
  cf = JaccNG f tm x (map stage_ofN l) us c.
Proof. exact fwdNG_spec. Qed.
Theorem C14_forward_pass_linear_is_matrix_model : forall s l tm x c, fwdN s tm x l c = fwdNG (sN_next s) tm x l c.
Proof. exact fwdN_is_fwdNG. Qed.

(* a positive-definite Q_t (jointly in state and input) satisfies pdN *)
Theorem C14_pd_implies_pdN : forall ns nc st, pdQ ns nc st -> pdN ns nc st.
Proof. exact pdQ_pdN. Qed.

(* the anchor: at ns = nc = 1, with the 1x1 Cholesky routines of Model/LQR.v (raise unless Quu > 0, else
   divide), the matrix transcription computes exactly what the tied model computes - result or raise.
   e1 x = [x], embst / embsys / embo / embf: the 1x1 embeddings of stages, system, nominal inputs, result *)
Theorem C14_matrix_dim1_is_model : forall (s : ssys (F:=R)) dt prob x0 un tm,
  lqrN_solve 1 R chol1 csm1 csv1 (embsys s) dt (map embst prob) (e1 x0) (embo un) tm =
  option_map embf (lqr_solve s dt prob x0 un tm).
Proof. exact lqrN_dim1_is_model. Qed.
Theorem C14_matrix_hypotheses_dim1 :
  chol_sound_c 1 R chol1 csm1 csv1 /\ chol_complete_c 1 R chol1 /\
  (forall s : ssys (F:=R), wfsys 1 1 (embsys s)) /\ (forall st, pd st -> pdN 1 1 (embst st)).
Proof. exact (conj chol1_sound (conj chol1_complete (conj wfsys_1 pdN_1))). Qed.
(* non-vacuity in a dimension > 1: a 2x2 routine (leading-minor test + Cramer's rule) satisfying both
   halves of the contract, a 2-state 2-input time-varying system with affine term, a PD cost; the
   theorems applied to it for every horizon, initial state, nominal trajectory and counter *)
Theorem C14_matrix_hypotheses_dim2 :
  chol_sound_c 2 matR chol2 csm2 csv2 /\ chol_complete_c 2 matR chol2 /\
  wfsys 2 2 ex_sys /\ pdN 2 2 ex_stage /\ coherentN ex_sys 1.
Proof. exact (conj chol2_sound (conj chol2_complete (conj ex_wfsys (conj ex_pd ex_coherent)))). Qed.
Theorem C14_matrix_dim2_example : forall T x0 un tm, length x0 = 2%nat -> nominalN_ok 2 (repeat ex_stage T) un ->
  exists xs us c tm',
    lqrN_solve 2 matR chol2 csm2 csv2 ex_sys 1 (repeat ex_stage T) x0 un tm = Some (xs, us, c, tm') /\
    xs = x0 :: trajN ex_sys 0 x0 us /\ c = JcostN ex_sys 0 x0 (repeat ex_stage T) us /\
    (forall us', length us' = T -> Forall (lenc 2) us' -> (c <= JcostN ex_sys 0 x0 (repeat ex_stage T) us')%R).
Proof. exact ex_dim2_solved. Qed.

(* hypotheses of the second-round scalar theorems are satisfiable *)
Theorem C14_hypotheses_satisfiable_2 :
  coherent {| sk := KLTI; scoef := fun _ => ((3 / 2)%R, 1%R, Some (1 / 4)%R) |} 2 /\
  coherent {| sk := KLTV; scoef := fun t => (IZR t, 1%R, None) |} 1 /\
  (forall s : ssys (F:=R), sys_ok s <-> coherent s 1).
Proof. exact (conj coherent_example_lti (conj coherent_example_ltv sys_ok_coherent)). Qed.

Print Assumptions C14_lqr_feasible. Print Assumptions C14_lqr_time_bookkeeping.
Print Assumptions C14_lqr_cost_is_sum. Print Assumptions C14_lqr_optimal_scalar_partial.
Print Assumptions C14_lqr_nominal_independent_partial. Print Assumptions C14_lqr_history_independent.
Print Assumptions C14_lqr_after_any_history. Print Assumptions C14_mpc_linear_is_lqr_scalar_partial.
Print Assumptions C14_lqr_returns. Print Assumptions C14_lqr_history_independent_old_refuted.
Print Assumptions C14_lqr_second_solve_suboptimal_old_refuted. Print Assumptions C14_lqr_stale_final_state_old_refuted.
Print Assumptions C14_mpc_linear_is_lqr_ltv_old_refuted. Print Assumptions C14_lqr_returns_old_refuted.
Print Assumptions C14_hypotheses_satisfiable.
Print Assumptions C14_lqr_returns_pd. Print Assumptions C14_lqr_raises_iff.
Print Assumptions C14_lqr_optimal_unique_scalar. Print Assumptions C14_lqr_nominal_independent_scalar.
Print Assumptions C14_lqr_no_first_order_scalar. Print Assumptions C14_lqr_gradient_zero_scalar.
Print Assumptions C14_mpc_linear_returns_scalar. Print Assumptions C14_mpc_linear_is_lqr_full_scalar.
Print Assumptions C14_mpc_loop_ends. Print Assumptions C14_lqr_optimal_dt_refuted.
Print Assumptions C14_forward_pass_any_dynamics_partial. Print Assumptions C14_forward_pass_linear_is_model.
Print Assumptions C14_lqr_optimal_matrix. Print Assumptions C14_lqr_returns_matrix.
Print Assumptions C14_lqr_nominal_independent_matrix. Print Assumptions C14_lqr_history_independent_matrix.
Print Assumptions C14_mpc_linear_is_lqr_matrix. Print Assumptions C14_mpc_model_loop_is_generic_loop.
Print Assumptions C14_pd_implies_pdN. Print Assumptions C14_matrix_dim1_is_model.
Print Assumptions C14_matrix_hypotheses_dim1. Print Assumptions C14_matrix_hypotheses_dim2.
Print Assumptions C14_matrix_dim2_example. Print Assumptions C14_hypotheses_satisfiable_2.
Print Assumptions C14_forward_pass_any_dynamics_matrix_partial. Print Assumptions C14_forward_pass_linear_is_matrix_model.
Print Assumptions C14_lqr_no_first_order_matrix. Print Assumptions C14_lqr_gradient_zero_matrix.
