(* C14 — LQR returns the feasible global minimiser of the LQ problem; MPC agrees with it.
   Statements only; proofs in Proofs/LQR.v; the model (Model/LQR.v) is the scalar instance
   (state and input dimension 1, one batch item) of lqr.py / mpc.py / runsys AS CODED after the two
   C14 `fix:` commits (system.reset() before the nominal roll-out and before the forward pass;
   squeeze(-2) only for NLS Jacobians), with the system's time counter of Model/Dynamics.v.

   Notation of the statements:
     lqr_solve s dt prob x0 un tm = Some (xs, us, c, tm')   one LQR.forward(x0, dt, un) on the system
         object s whose counter is tm: states, inputs, cost, counter afterwards (None: it raises);
     traj s t x us        states visited by calling the system from x at time t with inputs us;
     Jcost s t x prob us  sum_t 1/2 tau_t^T Q_t tau_t + p_t^T tau_t along that trajectory;
     sys_ok s             the object is an LTV object or has constant coefficients (LTI);
     pd st                Q_t symmetric positive definite.
   Partial (suffix _partial): state / input dimension 1 and dt = 1 only; arbitrary dimensions are
   covered by the correspondence check against the property's own oracle, not by a theorem.
   The `_old_refuted` theorems are about the code BEFORE the fix commits (Model/LQR.v:
   lqr_solve_old, mpc_forward_old, lqr_shape_raises_old); their witnesses are regression cases of
   the check. *)
From Coq Require Import ZArith QArith List Bool Reals.
Import ListNotations.
From PV Require Import Base.Num Model.Dynamics Model.Controller Model.LQR Proofs.LQR.
Close Scope Q_scope.

(* feasibility, for every history (any number type, any dt, any nominal trajectory, any counter):
   x_0 = x_init and x_{t+1} = system(x_t, u_t), the t-th call being made at time t *)
Theorem C14_lqr_feasible : forall (F : Type) (NF : Num F) (s : ssys (F:=F)) dt prob x0 un tm xs us c tm',
  lqr_solve s dt prob x0 un tm = Some (xs, us, c, tm') ->
  length us = length prob /\ xs = x0 :: traj s 0 x0 us.
Proof. intros F NF. exact lqr_feasible. Qed.

(* system time after a solve: the horizon T, whatever it was before *)
Theorem C14_lqr_time_bookkeeping : forall (F : Type) (NF : Num F) (s : ssys (F:=F)) dt prob x0 un tm xs us c tm',
  lqr_solve s dt prob x0 un tm = Some (xs, us, c, tm') -> tm' = Z.of_nat (length prob).
Proof. intros F NF. exact lqr_time_bookkeeping. Qed.

(* the reported cost is the sum of the stage costs along the returned trajectory *)
Theorem C14_lqr_cost_is_sum : forall (s : ssys (F:=R)) dt prob x0 un tm xs us c tm',
  lqr_solve s dt prob x0 un tm = Some (xs, us, c, tm') -> c = Jcost s 0 x0 prob us.
Proof. exact lqr_cost_is_sum. Qed.

(* optimality: ANY horizon, any A_t, B_t, c1_t (time-varying too), PD Q_t, any p_t, any nominal input
   trajectory, ANY time counter (any earlier calls): the returned trajectory is the trajectory of
   the returned inputs, the cost is its cost, and no input sequence has a lower cost *)
Theorem C14_lqr_optimal_scalar_partial : forall (s : ssys (F:=R)) prob x0 un tm xs us c tm',
  Forall pd prob -> sys_ok s ->
  lqr_solve s 1 prob x0 un tm = Some (xs, us, c, tm') ->
  length us = length prob /\ xs = x0 :: traj s 0 x0 us /\ c = Jcost s 0 x0 prob us /\
  forall us', length us' = length prob -> (c <= Jcost s 0 x0 prob us')%R.
Proof. exact lqr_optimal_scalar. Qed.
(* independence of the nominal input trajectory supplied and of the counters (for the optimal cost) *)
Theorem C14_lqr_nominal_independent_partial :
  forall (s : ssys (F:=R)) prob x0 un un' tm tm0 xs us c tm' xs2 us2 c2 tm2,
  Forall pd prob -> sys_ok s ->
  lqr_solve s 1 prob x0 un tm = Some (xs, us, c, tm') ->
  lqr_solve s 1 prob x0 un' tm0 = Some (xs2, us2, c2, tm2) -> c = c2.
Proof. exact lqr_cost_nominal_independent. Qed.

(* history clause: the whole result of a solve (states, inputs, cost, time afterwards, raising or
   not) does not depend on the time counter it finds - for every system (time-varying too), number
   type, dt, cost; hence not on any sequence of earlier solves on the same object *)
Theorem C14_lqr_history_independent : forall (F : Type) (NF : Num F) (s : ssys (F:=F)) dt prob x0 un tm tm',
  lqr_solve s dt prob x0 un tm = lqr_solve s dt prob x0 un tm'.
Proof. intros F NF. exact lqr_history_independent. Qed.
Theorem C14_lqr_after_any_history : forall (F : Type) (NF : Num F) (s : ssys (F:=F)) h dt prob x0 un tm,
  lqr_solve s dt prob x0 un (after_history s tm h) = lqr_solve s dt prob x0 un 0%Z.
Proof. intros F NF. exact lqr_after_any_history. Qed.

(* MPC on a linear system - time-invariant or time-varying - returns the LQR optimum, whatever the
   stepper does, whatever the counter *)
Theorem C14_mpc_linear_is_lqr_scalar_partial : forall (s : ssys (F:=R)) prob x0 cfg st u0 tm xs us c tm' st' n,
  sys_ok s -> Forall pd prob ->
  mpc_forward s 1 prob x0 cfg st u0 tm = Some (xs, us, c, tm', st', n) ->
  length us = length prob /\ xs = x0 :: traj s 0 x0 us /\ c = Jcost s 0 x0 prob us /\
  (forall us', length us' = length prob -> (c <= Jcost s 0 x0 prob us')%R) /\
  (forall un tm0 xs0 us0 c0 tm0', lqr_solve s 1 prob x0 un tm0 = Some (xs0, us0, c0, tm0') -> c = c0).
Proof. exact mpc_linear_is_lqr_scalar. Qed.

(* no shape of the property's range makes LQR raise (model of the shape handling of A, B) *)
Theorem C14_lqr_returns : forall nb ns T, lqr_shape_raises nb ns T = false.
Proof. exact shape_never_raises. Qed.

(* ---------------------------------------------------------------- before the fix commits
   (recorded as `fixed:` in known_findings.txt).  Witness (Proofs/LQR.v): LTV object
   A_t = (1,0,2)[t mod 3], B = 1, Q = I, p = 0, x_init = 1, T = 2. *)
(* Proofs/LQR.v:  lqr_history_independent_old := forall (s : ssys (F:=Q)) prob x0 un tm tm',
     drop4 (lqr_solve_old s 1 prob x0 un tm) = drop4 (lqr_solve_old s 1 prob x0 un tm')  *)
Theorem C14_lqr_history_independent_old_refuted : ~ lqr_history_independent_old.
Proof. exact history_independent_old_refuted. Qed.
(* two consecutive solves on one object: optimum 3/4, then - rolled out from the stale time 2 - cost 1 *)
Theorem C14_lqr_second_solve_suboptimal_old_refuted :
  exists (s : ssys (F:=Q)) prob x0 xs1 us1 c1 t1 xs2 us2 c2 t2,
    sk s = KLTV /\
    lqr_solve_old s 1 prob x0 None 0%Z = Some (xs1, us1, c1, t1) /\
    lqr_solve_old s 1 prob x0 None t1 = Some (xs2, us2, c2, t2) /\ (c1 < c2)%Q.
Proof. exact second_solve_suboptimal_old. Qed.
(* horizon 1 at a stale time: the returned final state was computed with A_2 instead of A_0 *)
Theorem C14_lqr_stale_final_state_old_refuted :
  exists (s : ssys (F:=Q)) prob x0 xs1 us1 c1 t1 xs2 us2 c2 t2,
    lqr_solve_old s 1 prob x0 None 0%Z = Some (xs1, us1, c1, t1) /\
    lqr_solve_old s 1 prob x0 None 2%Z = Some (xs2, us2, c2, t2) /\ xs1 <> xs2.
Proof. exact stale_final_state_old. Qed.
(* MPC on the fresh LTV object (default stepper): LQR returned 3/4, MPC returned 1 *)
Theorem C14_mpc_linear_is_lqr_ltv_old_refuted :
  exists (s : ssys (F:=Q)) prob x0 cfg xs1 us1 c1 t1 xs2 us2 c2 t2 st n,
    sk s = KLTV /\
    lqr_solve_old s 1 prob x0 None 0%Z = Some (xs1, us1, c1, t1) /\
    mpc_forward_old s 1 prob x0 cfg rtb_init None 0%Z = Some (xs2, us2, c2, t2, st, n) /\ (c1 < c2)%Q.
Proof. exact mpc_ltv_suboptimal_old. Qed.
(* state dimension 1 with a batch and a horizon >= 2 raised (`system.A.squeeze(-2)`) *)
Theorem C14_lqr_returns_old_refuted :
  exists nb ns T, (1 <= nb <= 3)%nat /\ (1 <= ns <= 6)%nat /\ (1 <= T <= 20)%nat /\ lqr_shape_raises_old nb ns T = true.
Proof. exact shape_raises_old_witness. Qed.

(* hypotheses are satisfiable *)
Theorem C14_hypotheses_satisfiable :
  pd {| qxx := 1%R; qxu := (1 / 2)%R; qux := (1 / 2)%R; quu := 2%R; px := 3%R; pu := (-1)%R |} /\
  sys_ok {| sk := KLTI; scoef := fun _ => ((3 / 2)%R, 1%R, Some (1 / 4)%R) |} /\
  sys_ok {| sk := KLTV; scoef := fun t => (IZR t, 1%R, None) |}.
Proof. split; [exact pd_example|split; [exact sys_ok_example_lti|exact sys_ok_example_ltv]]. Qed.

Print Assumptions C14_lqr_feasible. Print Assumptions C14_lqr_time_bookkeeping.
Print Assumptions C14_lqr_cost_is_sum. Print Assumptions C14_lqr_optimal_scalar_partial.
Print Assumptions C14_lqr_nominal_independent_partial. Print Assumptions C14_lqr_history_independent.
Print Assumptions C14_lqr_after_any_history. Print Assumptions C14_mpc_linear_is_lqr_scalar_partial.
Print Assumptions C14_lqr_returns. Print Assumptions C14_lqr_history_independent_old_refuted.
Print Assumptions C14_lqr_second_solve_suboptimal_old_refuted. Print Assumptions C14_lqr_stale_final_state_old_refuted.
Print Assumptions C14_mpc_linear_is_lqr_ltv_old_refuted. Print Assumptions C14_lqr_returns_old_refuted.
Print Assumptions C14_hypotheses_satisfiable.
