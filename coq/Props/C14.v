(* C14 — LQR returns the feasible global minimiser of the LQ problem; MPC agrees with it.
   Statements only; proofs in Proofs/LQR.v; the model (Model/LQR.v) is the scalar instance
   (state and input dimension 1, one batch item) of lqr.py / mpc.py / runsys AS CODED, with the
   system's time counter of Model/Dynamics.v.

   Notation of the statements:
     lqr_solve s dt prob x0 un tm = Some (xs, us, c, tm')   one LQR.forward(x0, dt, un) on the system
         object s whose counter is tm: states, inputs, cost, counter afterwards (None: it raises);
     traj s t x us        states visited by calling the system from x at time t with inputs us;
     Jcost s t x prob us  sum_t 1/2 tau_t^T Q_t tau_t + p_t^T tau_t along that trajectory;
     fwd_start k tm T     the time at which the forward pass runs: 0 on an LTV object when T >= 2
                          (the last set_refpoint), otherwise tm + T - 1 (after the nominal roll-out);
     coef_ok s tm T       the coefficients the object shows at times tm .. tm+T-1 are those of times
                          0 .. T-1 (LTV: e.g. a fresh / reset object), or the system is time-invariant;
     pd st                Q_t symmetric positive definite.
   Partial (suffix _partial): state / input dimension 1 and dt = 1 only; arbitrary dimensions are
   covered by the correspondence check against the property's own oracle, not by a theorem. *)
From Coq Require Import ZArith QArith List Bool Reals.
Import ListNotations.
From PV Require Import Base.Num Model.Dynamics Model.Controller Model.LQR Proofs.LQR.
Close Scope Q_scope.

(* feasibility, for every history (any number type, any dt, any nominal trajectory, any counter):
   x_0 = x_init and x_{t+1} = system(x_t, u_t), the t-th call being made at time fwd_start + t *)
Theorem C14_lqr_feasible : forall (F : Type) (NF : Num F) (s : ssys (F:=F)) dt prob x0 un tm xs us c tm',
  lqr_solve s dt prob x0 un tm = Some (xs, us, c, tm') ->
  length us = length prob /\ xs = x0 :: traj s (fwd_start (sk s) tm (length prob)) x0 us.
Proof. intros F NF s dt prob x0 un tm xs us c tm' H. destruct (lqr_structure _ _ _ _ _ _ _ _ _ _ H) as (A & B & _). now split. Qed.

(* system time after a solve: T calls after the start of the forward pass
   (LTI: tm + 2T - 1; LTV: T when T >= 2, tm + 1 when T = 1; T = 0: unchanged) *)
Theorem C14_lqr_time_bookkeeping : forall (F : Type) (NF : Num F) (s : ssys (F:=F)) dt prob x0 un tm xs us c tm',
  lqr_solve s dt prob x0 un tm = Some (xs, us, c, tm') -> tm' = lqr_time (sk s) tm (length prob).
Proof. intros F NF s dt prob x0 un tm xs us c tm' H. exact (proj2 (proj2 (lqr_structure _ _ _ _ _ _ _ _ _ _ H))). Qed.

(* the reported cost is the sum of the stage costs along the returned trajectory, for every history *)
Theorem C14_lqr_cost_is_sum : forall (s : ssys (F:=R)) dt prob x0 un tm xs us c tm',
  lqr_solve s dt prob x0 un tm = Some (xs, us, c, tm') ->
  c = Jcost s (fwd_start (sk s) tm (length prob)) x0 prob us.
Proof. exact lqr_cost_is_sum. Qed.

(* optimality: ANY horizon, any A_t, B_t, c1_t, PD Q_t, any p_t, any nominal input trajectory; the
   returned trajectory is the fresh-object trajectory of the returned inputs, the cost is its cost,
   and no input sequence has a lower cost *)
Theorem C14_lqr_optimal_scalar_partial : forall (s : ssys (F:=R)) prob x0 un tm xs us c tm',
  Forall pd prob -> coef_ok s tm (length prob) ->
  lqr_solve s 1 prob x0 un tm = Some (xs, us, c, tm') ->
  length us = length prob /\ xs = x0 :: traj s 0 x0 us /\ c = Jcost s 0 x0 prob us /\
  forall us', length us' = length prob -> (c <= Jcost s 0 x0 prob us')%R.
Proof. exact lqr_optimal_scalar. Qed.
(* ... in particular on a fresh LTV object and on an LTI object whatever its time counter *)
Theorem C14_lqr_optimal_fresh_ltv_partial : forall (s : ssys (F:=R)) prob x0 un xs us c tm',
  sk s = KLTV -> Forall pd prob -> lqr_solve s 1 prob x0 un 0%Z = Some (xs, us, c, tm') ->
  c = Jcost s 0 x0 prob us /\ forall us', length us' = length prob -> (c <= Jcost s 0 x0 prob us')%R.
Proof. exact lqr_optimal_fresh. Qed.
Theorem C14_lqr_optimal_lti_any_history_partial : forall (s : ssys (F:=R)) prob x0 un tm xs us c tm',
  (forall t, scoef s t = scoef s 0%Z) -> Forall pd prob ->
  lqr_solve s 1 prob x0 un tm = Some (xs, us, c, tm') ->
  c = Jcost s 0 x0 prob us /\ forall us', length us' = length prob -> (c <= Jcost s 0 x0 prob us')%R.
Proof. exact lqr_optimal_lti. Qed.
(* independence of the nominal input trajectory supplied (stated for the optimal cost) *)
Theorem C14_lqr_nominal_independent_partial : forall (s : ssys (F:=R)) prob x0 un un' tm xs us c tm' xs2 us2 c2 tm2,
  Forall pd prob -> coef_ok s tm (length prob) ->
  lqr_solve s 1 prob x0 un tm = Some (xs, us, c, tm') ->
  lqr_solve s 1 prob x0 un' tm = Some (xs2, us2, c2, tm2) -> c = c2.
Proof. exact lqr_cost_nominal_independent. Qed.

(* history clause.  On a time-invariant system the result does not depend on the time counter,
   i.e. on earlier calls (any number type, any dt, PD or not) ... *)
Theorem C14_lqr_history_independent_lti : forall (F : Type) (NF : Num F) (s : ssys (F:=F)) dt prob x0 un tm tm',
  (forall t, scoef s t = scoef s 0%Z) ->
  drop4 (lqr_solve s dt prob x0 un tm) = drop4 (lqr_solve s dt prob x0 un tm').
Proof. intros F NF. exact lqr_history_independent_const. Qed.
(* ... on a time-varying system it is REFUTED on the faithful model: two consecutive solves of the
   same problem on one LTV object (witness Proofs/LQR.v: A_t = (1,0,2)[t mod 3], B = 1, Q = I, p = 0,
   x_init = 1, T = 2): the first returns the optimum 3/4, the second - rolled out from the stale
   time 2 - returns inputs of cost 1.  Known finding, replayed by the check on every run. *)
Definition lqr_history_independent : Prop :=
  forall (s : ssys (F:=Q)) prob x0 un tm tm',
    drop4 (lqr_solve s 1 prob x0 un tm) = drop4 (lqr_solve s 1 prob x0 un tm').
Theorem C14_lqr_history_independent_refuted : ~ lqr_history_independent.
Proof.
  intros H. specialize (H w_sys w_prob 1%Q None 0%Z 2%Z). rewrite w_first, w_second in H. discriminate H.
Qed.
Theorem C14_lqr_second_solve_suboptimal_refuted :
  exists (s : ssys (F:=Q)) prob x0 xs1 us1 c1 t1 xs2 us2 c2 t2,
    sk s = KLTV /\
    lqr_solve s 1 prob x0 None 0%Z = Some (xs1, us1, c1, t1) /\
    lqr_solve s 1 prob x0 None t1 = Some (xs2, us2, c2, t2) /\ (c1 < c2)%Q.
Proof.
  exists w_sys, w_prob, 1%Q. do 8 eexists. split; [reflexivity|]. split; [exact w_first|]. split; [exact w_second|].
  reflexivity.
Qed.
(* horizon 1 at a stale time: the returned final state is computed with A_2 instead of A_0 *)
Theorem C14_lqr_stale_final_state_refuted :
  exists (s : ssys (F:=Q)) prob x0 xs1 us1 c1 t1 xs2 us2 c2 t2,
    lqr_solve s 1 prob x0 None 0%Z = Some (xs1, us1, c1, t1) /\
    lqr_solve s 1 prob x0 None 2%Z = Some (xs2, us2, c2, t2) /\ xs1 <> xs2.
Proof.
  exists w_sys, (firstn 1 w_prob), 1%Q. do 8 eexists. split; [exact w_T1_fresh|]. split; [exact w_T1_stale|]. discriminate.
Qed.

(* MPC on a time-invariant linear system returns the LQR optimum (whatever the stepper does) *)
Theorem C14_mpc_linear_is_lqr_scalar_partial : forall (s : ssys (F:=R)) prob x0 cfg st u0 tm xs us c tm' st' n,
  (forall t, scoef s t = scoef s 0%Z) -> Forall pd prob ->
  mpc_forward s 1 prob x0 cfg st u0 tm = Some (xs, us, c, tm', st', n) ->
  length us = length prob /\ xs = x0 :: traj s 0 x0 us /\ c = Jcost s 0 x0 prob us /\
  (forall us', length us' = length prob -> (c <= Jcost s 0 x0 prob us')%R) /\
  (forall un tm0 xs0 us0 c0 tm0', lqr_solve s 1 prob x0 un tm0 = Some (xs0, us0, c0, tm0') -> c = c0).
Proof. exact mpc_linear_is_lqr_scalar. Qed.
(* ... on a time-varying linear system it is REFUTED even on a fresh object: every solve of the loop
   after the first, and the final one, start at the stale time (same witness, default stepper):
   LQR returns 3/4, MPC returns 1.  Known finding. *)
Theorem C14_mpc_linear_is_lqr_ltv_refuted :
  exists (s : ssys (F:=Q)) prob x0 cfg xs1 us1 c1 t1 xs2 us2 c2 t2 st n,
    sk s = KLTV /\
    lqr_solve s 1 prob x0 None 0%Z = Some (xs1, us1, c1, t1) /\
    mpc_forward s 1 prob x0 cfg rtb_init None 0%Z = Some (xs2, us2, c2, t2, st, n) /\ (c1 < c2)%Q.
Proof.
  destruct w_mpc as [st [n H]].
  exists w_sys, w_prob, 1%Q, w_cfg. do 8 eexists. exists st, n.
  split; [reflexivity|]. split; [exact w_first|]. split; [exact H|]. reflexivity.
Qed.

(* "LQR returns ..." for every batch size 1..3, dimensions 1..6, horizon 1..20: REFUTED on the
   faithful model of the shapes (`system.A.squeeze(-2)`): state dimension 1 with a batch and a
   horizon >= 2 raises.  Known finding. *)
Theorem C14_lqr_returns_refuted :
  exists nb ns T, (1 <= nb <= 3)%nat /\ (1 <= ns <= 6)%nat /\ (1 <= T <= 20)%nat /\ lqr_shape_raises nb ns T = true.
Proof. exists 2%nat, 1%nat, 2%nat. repeat split; auto with arith. Qed.

(* hypotheses are satisfiable *)
Theorem C14_hypotheses_satisfiable :
  pd {| qxx := 1%R; qxu := (1 / 2)%R; qux := (1 / 2)%R; quu := 2%R; px := 3%R; pu := (-1)%R |} /\
  coef_ok {| sk := KLTI; scoef := fun _ => ((3 / 2)%R, 1%R, Some (1 / 4)%R) |} 7%Z 5.
Proof. split; [exact pd_example|exact coef_ok_example]. Qed.

Print Assumptions C14_lqr_feasible. Print Assumptions C14_lqr_time_bookkeeping.
Print Assumptions C14_lqr_cost_is_sum. Print Assumptions C14_lqr_optimal_scalar_partial.
Print Assumptions C14_lqr_optimal_fresh_ltv_partial. Print Assumptions C14_lqr_optimal_lti_any_history_partial.
Print Assumptions C14_lqr_nominal_independent_partial. Print Assumptions C14_lqr_history_independent_lti.
Print Assumptions C14_lqr_history_independent_refuted. Print Assumptions C14_lqr_second_solve_suboptimal_refuted.
Print Assumptions C14_lqr_stale_final_state_refuted. Print Assumptions C14_mpc_linear_is_lqr_scalar_partial.
Print Assumptions C14_mpc_linear_is_lqr_ltv_refuted. Print Assumptions C14_lqr_returns_refuted.
Print Assumptions C14_hypotheses_satisfiable.
