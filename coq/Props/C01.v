(* C01 — Exp is the matrix exponential on so3, se3, rxso3, sim3.  Statements only (over R);
   proofs in Proofs/LieExp.v, ExpODE.v, ExpODE2.v, ExpODE3.v (closed-form branches), ExpODE4.v (degenerate
   generators, every-generator uniqueness, mixed regime), ExpTaylor.v (Taylor branches, distance to the exponential,
   the former condition3 defect of rxso3_Ws).  [eps] is the dtype's machine epsilon (any 0 <= eps <= 2^-10). *)
From Coq Require Import Reals List Lra.
From Coquelicot Require Import Coquelicot.
From PV Require Import Base.Num Model.LieGroup Model.LieExp Proofs.LieGroup Proofs.LieExp Proofs.ExpODE Proofs.ExpODE2 Proofs.ExpODE3 Proofs.ExpODE4 Proofs.ExpTaylor.
Local Open Scope R_scope.
#[local] Remove Hints NumQ NumZ : typeclass_instances.

(* the rotation part of Exp is a unit quaternion: exactly on the closed-form branch ... *)
Theorem C01_so3_exp_unit_closed_form : forall (eps : R) (x : vec3R), 0 <= eps -> eps < vnorm x ->
  qnorm2 (so3_exp eps x) = 1.
Proof. exact so3_exp_unit_closed. Qed.
(* ... and within theta^6/20000 (< eps^6) on the small-angle (Taylor) branch *)
Theorem C01_so3_exp_unit_taylor : forall (eps : R) (x : vec3R), vnorm x <= eps -> eps <= 1/1024 ->
  Rabs (qnorm2 (so3_exp eps x) - 1) <= (vnorm x)^6 / 20000.
Proof. exact so3_exp_unit_taylor_bound. Qed.

(* closed-form branch: the library's matrix of Exp(x) is Rodrigues' formula, for every angle *)
Theorem C01_so3_matrix_is_rodrigues : forall (eps : R) (x : vec3R), 0 <= eps -> eps < vnorm x ->
  SO3_matrix (so3_exp eps x) = rodrigues x.
Proof. exact so3_matrix_rodrigues. Qed.

(* "E is the matrix exponential of [x]x" is the defining initial value problem:
     is_mexp_so3 x E  :=  exists Y, Y 0 = I /\ (forall t, Y'(t) = [x]x Y(t) entrywise) /\ Y 1 = E.
   Existence AND uniqueness: the only such E is Rodrigues' matrix, for every x <> 0 of any magnitude *)
Theorem C01_rodrigues_is_the_matrix_exponential : forall (x : vec3R) (E : @mat3 R), vnorm x <> 0 ->
  (is_mexp_so3 x E <-> E = rodrigues x).
Proof. exact rodrigues_is_the_exponential. Qed.
(* hence, on the closed-form branch (every angle above eps, also beyond pi), the matrix the library
   builds from the modelled Exp(x) IS the matrix exponential of the generator of x *)
Theorem C01_so3_exp_is_matrix_exponential : forall (eps : R) (x : vec3R) (E : @mat3 R), 0 <= eps -> eps < vnorm x ->
  (is_mexp_so3 x E <-> E = SO3_matrix (so3_exp eps x)).
Proof.
  intros eps x E He Hx. rewrite (so3_matrix_rodrigues eps x He Hx). apply rodrigues_is_the_exponential.
  pose proof (vnorm_nonneg x). lra.
Qed.

(* se3: the 4x4 matrix [[E, p],[0,1]] is the matrix exponential of the generator [[ [phi]x, tau],[0,0]] iff
   E' = [phi]x E, E(0) = I and p' = [phi]x p + tau, p(0) = 0 (block form of Y' = G Y, Y(0) = I).
   Existence and uniqueness: the only such pair is (rodrigues phi, V1 phi tau) ... *)
Theorem C01_se3_exponential_unique : forall (tau phi : vec3R) (E : @mat3 R) (p : vec3R), vnorm phi <> 0 ->
  (is_mexp_se3 tau phi E p <-> E = rodrigues phi /\ p = mvmul (V1 phi) tau).
Proof. exact se3_exponential. Qed.
(* ... and on the closed-form branch that is exactly the matrix the library builds from the modelled se3 Exp *)
Theorem C01_se3_exp_is_matrix_exponential : forall (eps : R) (tau phi : vec3R), 0 <= eps -> eps < vnorm phi ->
  matrix4 SE3_act4 (se3_exp eps (tau, phi)) = block4 (rodrigues phi) (mvmul (V1 phi) tau) /\
  is_mexp_se3 tau phi (rodrigues phi) (mvmul (V1 phi) tau).
Proof.
  intros eps tau phi He H. split; [now apply se3_exp_matrix|].
  apply se3_exponential; [pose proof (vnorm_nonneg phi); lra | split; reflexivity].
Qed.

(* rxso3: generator [phi]x + sigma I.  is_mexp_rxso3 phi sigma E := exists Y, Y 0 = I /\ Y' = ([phi]x + sigma I) Y /\ Y 1 = E.
   Existence and uniqueness, for every sigma: the only such E is exp(sigma) Rodrigues(phi) ... *)
Theorem C01_rxso3_exponential_unique : forall (phi : vec3R) (sg : R) (E : @mat3 R), vnorm phi <> 0 ->
  (is_mexp_rxso3 phi sg E <-> E = mscale3 (exp sg) (rodrigues phi)).
Proof. exact rxso3_exponential. Qed.
(* ... which is the matrix the library builds from the modelled rxso3 Exp (closed-form rotation branch) *)
Theorem C01_rxso3_exp_is_matrix_exponential : forall (eps : R) (phi : vec3R) (sg : R) (E : @mat3 R), 0 <= eps -> eps < vnorm phi ->
  (is_mexp_rxso3 phi sg E <-> E = RxSO3_matrix (rxso3_exp eps (phi, sg))).
Proof.
  intros eps phi sg E He H. rewrite (rxso3_exp_matrix eps phi sg He H). apply rxso3_exponential.
  pose proof (vnorm_nonneg phi). lra.
Qed.

(* sim3: generator [[ [phi]x + sigma I, tau],[0,0]]; block form E' = G E, E(0) = I, p' = G p + tau, p(0) = 0.
   Existence and uniqueness (theta <> 0, sigma <> 0): the only such pair is (exp(sigma) Rodrigues(phi), Ws1 phi sigma tau),
   Ws1 = A K + B K^2 + C I with the closed-form coefficients of rxso3_Ws ... *)
Theorem C01_sim3_exponential_unique : forall (tau phi : vec3R) (sg : R) (E : @mat3 R) (p : vec3R), vnorm phi <> 0 -> sg <> 0 ->
  (is_mexp_sim3 tau phi sg E p <-> E = mscale3 (exp sg) (rodrigues phi) /\ p = mvmul (Ws1 phi sg) tau).
Proof. exact sim3_exponential. Qed.
(* ... and on the closed-form branch (theta > eps, |sigma| > eps) that is exactly the 4x4 matrix of the modelled sim3 Exp *)
Theorem C01_sim3_exp_is_matrix_exponential : forall (eps : R) (tau phi : vec3R) (sg : R), 0 <= eps -> eps < vnorm phi -> eps < Rabs sg ->
  matrix4 Sim3_act4 (sim3_exp eps (tau, (phi, sg))) = block4 (mscale3 (exp sg) (rodrigues phi)) (mvmul (Ws1 phi sg) tau) /\
  is_mexp_sim3 tau phi sg (mscale3 (exp sg) (rodrigues phi)) (mvmul (Ws1 phi sg) tau).
Proof.
  intros eps tau phi sg He H Hs. split; [now apply sim3_exp_matrix|].
  apply sim3_exponential; [pose proof (vnorm_nonneg phi); lra | intros ->; rewrite Rabs_R0 in Hs; lra | split; reflexivity].
Qed.

(* ======================= degenerate generators: phi = 0 and / or sigma = 0 ======================= *)
(* phi = 0 (so3, rxso3): the exponential is I resp. exp(sigma) I; existence and uniqueness *)
Theorem C01_so3_exponential_zero_rotation : forall (E : @mat3 R), is_mexp_so3 vzero E <-> E = mid3.
Proof. exact so3_zero_exponential. Qed.
Theorem C01_rxso3_exponential_zero_rotation : forall (sg : R) (E : @mat3 R),
  is_mexp_rxso3 vzero sg E <-> E = mscale3 (exp sg) mid3.
Proof. exact rxso3_zero_exponential. Qed.
(* phi = 0 (se3): E = I, p = tau *)
Theorem C01_se3_exponential_zero_rotation : forall (tau : vec3R) (E : @mat3 R) (p : vec3R),
  is_mexp_se3 tau vzero E p <-> E = mid3 /\ p = tau.
Proof. exact se3_zero_exponential. Qed.
(* phi = 0 (sim3): E = exp(sigma) I, p = ((exp sigma - 1)/sigma) tau for sigma <> 0 and p = tau for sigma = 0 *)
Theorem C01_sim3_exponential_zero_rotation : forall (tau : vec3R) (sg : R) (E : @mat3 R) (p : vec3R),
  (sg <> 0 -> (is_mexp_sim3 tau vzero sg E p <-> E = mscale3 (exp sg) mid3 /\ p = vscale ((exp sg - 1) / sg) tau)) /\
  (is_mexp_sim3 tau vzero 0 E p <-> E = mid3 /\ p = tau).
Proof.
  intros tau sg E p. split; [intros H; rewrite <- (Cex_nz sg H); apply sim3_zero_rotation_exponential|].
  rewrite sim3_zero_rotation_exponential, Cex_0, exp_0, mscale3_one, vscale_one. reflexivity.
Qed.
(* sigma = 0 (any phi): the sim3 / rxso3 initial value problems are the se3 / so3 ones *)
Theorem C01_sim3_exponential_zero_scale_is_se3 : forall (tau phi : vec3R) (E : @mat3 R) (p : vec3R),
  is_mexp_sim3 tau phi 0 E p <-> is_mexp_se3 tau phi E p.
Proof. exact sim3_sigma0_is_se3. Qed.
Theorem C01_rxso3_exponential_zero_scale_is_so3 : forall (phi : vec3R) (E : @mat3 R),
  is_mexp_rxso3 phi 0 E <-> is_mexp_so3 phi E.
Proof. exact rxso3_sigma0_is_so3. Qed.

(* hence the exponential of EVERY generator, in closed form by cases (no hypothesis on phi, sigma):
   rotation block  R(phi) = I if |phi| = 0, Rodrigues otherwise;  translation matrix  W(phi, sigma) =
   Cex(sigma) I if |phi| = 0 (Cex 0 = 1, Cex sigma = (exp sigma - 1)/sigma), V1 phi if sigma = 0, Ws1 phi sigma otherwise *)
Theorem C01_so3_exponential_every_generator : forall (x : vec3R) (E : @mat3 R),
  is_mexp_so3 x E <-> E = (if Req_EM_T (vnorm x) 0 then mid3 else rodrigues x).
Proof. exact so3_exponential_total. Qed.
Theorem C01_rxso3_exponential_every_generator : forall (x : vec3R) (sg : R) (E : @mat3 R),
  is_mexp_rxso3 x sg E <-> E = mscale3 (exp sg) (if Req_EM_T (vnorm x) 0 then mid3 else rodrigues x).
Proof. exact rxso3_exponential_total. Qed.
Theorem C01_se3_exponential_every_generator : forall (tau phi : vec3R) (E : @mat3 R) (p : vec3R),
  is_mexp_se3 tau phi E p <->
  E = (if Req_EM_T (vnorm phi) 0 then mid3 else rodrigues phi) /\
  p = mvmul (if Req_EM_T (vnorm phi) 0 then mid3 else V1 phi) tau.
Proof.
  intros tau phi E p. rewrite se3_exponential_total. unfold mexp_so3, mexp_Vmat.
  destruct (Req_EM_T (vnorm phi) 0); [rewrite Cex_0, mscale3_one; reflexivity|].
  destruct (Req_EM_T 0 0) as [_|Hc]; [reflexivity | contradiction].
Qed.
Theorem C01_sim3_exponential_every_generator : forall (tau phi : vec3R) (sg : R) (E : @mat3 R) (p : vec3R),
  is_mexp_sim3 tau phi sg E p <->
  E = mscale3 (exp sg) (if Req_EM_T (vnorm phi) 0 then mid3 else rodrigues phi) /\
  p = mvmul (if Req_EM_T (vnorm phi) 0 then mscale3 (if Req_EM_T sg 0 then 1 else (exp sg - 1) / sg) mid3
             else if Req_EM_T sg 0 then V1 phi else Ws1 phi sg) tau.
Proof. exact sim3_exponential_total. Qed.
(* existence and uniqueness without any hypothesis on the generator *)
Theorem C01_so3_exponential_exists_unique : forall (x : vec3R), exists! E : @mat3 R, is_mexp_so3 x E.
Proof. exact so3_exponential_exists_unique. Qed.
Theorem C01_rxso3_exponential_exists_unique : forall (x : vec3R) (sg : R), exists! E : @mat3 R, is_mexp_rxso3 x sg E.
Proof. exact rxso3_exponential_exists_unique. Qed.
Theorem C01_se3_exponential_exists_unique : forall (tau phi : vec3R),
  exists! Ep : @mat3 R * vec3R, is_mexp_se3 tau phi (fst Ep) (snd Ep).
Proof. exact se3_exponential_exists_unique. Qed.
Theorem C01_sim3_exponential_exists_unique : forall (tau phi : vec3R) (sg : R),
  exists! Ep : @mat3 R * vec3R, is_mexp_sim3 tau phi sg (fst Ep) (snd Ep).
Proof. exact sim3_exponential_exists_unique. Qed.

(* what the model returns at phi = 0 (the Taylor branch at theta = 0): the identity quaternion, Jl = I, Ws = C I;
   the library's matrix of the modelled Exp IS the exponential there *)
Theorem C01_so3_exp_at_zero_is_matrix_exponential : forall (eps : R) (x : vec3R) (E : @mat3 R), 0 <= eps -> vnorm x = 0 ->
  so3_exp eps x = SO3_id /\ so3_Jl eps x = mid3 /\ (is_mexp_so3 x E <-> E = SO3_matrix (so3_exp eps x)).
Proof.
  intros eps x E He H. split; [now apply so3_exp_zero|]. split; [now apply so3_Jl_zero|].
  rewrite so3_exp_matrix_zero by assumption. rewrite (vnorm_zero x H). apply so3_zero_exponential.
Qed.
Theorem C01_se3_exp_at_zero_rotation_is_matrix_exponential : forall (eps : R) (tau phi : vec3R), 0 <= eps -> vnorm phi = 0 ->
  matrix4 SE3_act4 (se3_exp eps (tau, phi)) = block4 mid3 tau /\ is_mexp_se3 tau phi mid3 tau.
Proof.
  intros eps tau phi He H. split; [now apply se3_exp_matrix_zero|].
  rewrite (vnorm_zero phi H). apply se3_zero_exponential. split; reflexivity.
Qed.
Theorem C01_rxso3_exp_at_zero_rotation_is_matrix_exponential : forall (eps : R) (phi : vec3R) (sg : R) (E : @mat3 R),
  0 <= eps -> vnorm phi = 0 -> (is_mexp_rxso3 phi sg E <-> E = RxSO3_matrix (rxso3_exp eps (phi, sg))).
Proof.
  intros eps phi sg E He H. rewrite rxso3_exp_matrix_zero by assumption. rewrite (vnorm_zero phi H). apply rxso3_zero_exponential.
Qed.
(* rxso3_Ws at theta = 0 is C I with the code's C: the closed form (exp sigma - 1)/sigma for |sigma| > eps, 1 otherwise *)
Theorem C01_rxso3_Ws_at_zero_rotation : forall (eps : R) (x : vec3R) (sg : R), 0 <= eps -> vnorm x = 0 ->
  rxso3_Ws eps (x, sg) = mscale3 (if Rlt_dec eps (Rabs sg) then (exp sg - 1) / sg else 1) mid3.
Proof. exact rxso3_Ws_zero_rotation. Qed.
(* sim3 at phi = 0: exact for sigma = 0 and for |sigma| > eps (for 0 < |sigma| <= eps the model uses C = 1: see
   C01_sim3_exp_translation_close) *)
Theorem C01_sim3_exp_at_zero_rotation_is_matrix_exponential : forall (eps : R) (tau phi : vec3R) (sg : R),
  0 <= eps -> vnorm phi = 0 -> sg = 0 \/ eps < Rabs sg ->
  matrix4 Sim3_act4 (sim3_exp eps (tau, (phi, sg))) = block4 (mscale3 (exp sg) mid3) (vscale (Cex sg) tau) /\
  is_mexp_sim3 tau phi sg (mscale3 (exp sg) mid3) (vscale (Cex sg) tau).
Proof.
  intros eps tau phi sg He H Hs. split; [rewrite sim3_exp_matrix_zero, Ws_C_model_exact by assumption; reflexivity|].
  rewrite (vnorm_zero phi H). apply sim3_zero_rotation_exponential. split; reflexivity.
Qed.

(* ======================= mixed regime |sigma| <= eps < theta of rxso3_Ws ======================= *)
(* the code uses the se3 coefficients: Ws = V1 exactly, i.e. the translation of the modelled sim3 Exp is that of the
   exponential of the generator with sigma replaced by 0 (the scale block still uses exp sigma) ... *)
Theorem C01_sim3_exp_small_sigma_uses_se3_translation : forall (eps : R) (tau phi : vec3R) (sg : R),
  0 <= eps -> eps < vnorm phi -> Rabs sg <= eps ->
  rxso3_Ws eps (phi, sg) = V1 phi /\
  matrix4 Sim3_act4 (sim3_exp eps (tau, (phi, sg))) = block4 (mscale3 (exp sg) (rodrigues phi)) (mvmul (V1 phi) tau) /\
  is_mexp_sim3 tau phi 0 (rodrigues phi) (mvmul (V1 phi) tau).
Proof.
  intros eps tau phi sg He H Hs. split; [now apply rxso3_Ws_small_sigma|]. split; [now apply sim3_exp_matrix_small_sigma|].
  apply sim3_sigma0_is_se3. apply se3_exponential; [pose proof (vnorm_nonneg phi); lra | split; reflexivity].
Qed.
(* ... and every entry of it is within 8|sigma| of the true translation matrix W(phi, sigma), for every angle *)
Theorem C01_sim3_Ws_small_sigma_close : forall (eps : R) (phi : vec3R) (sg : R),
  0 <= eps -> eps < vnorm phi -> Rabs sg <= eps -> eps <= 1/2 ->
  forall i j, (i < 3)%nat -> (j < 3)%nat ->
  Rabs (m3get (rxso3_Ws eps (phi, sg)) i j - m3get (mexp_Vmat phi sg) i j) <= 8 * Rabs sg.
Proof. exact rxso3_Ws_small_sigma_close. Qed.

(* ======================= regime theta <= eps < |sigma| (condition3 of rxso3_Ws) ======================= *)
(* at theta = 0 it is exact (above).  For 0 < theta <= eps the model (after the repair "fix: rxso3_Ws B coefficient" in
   /repo) is  A3 K + B3 K^2 + C I  whose coefficients are the theta -> 0 limits of the true ones, i.e. the integrals
   over [0,1] of  s e^{s sigma},  s^2/2 e^{s sigma},  e^{s sigma} ... *)
Theorem C01_rxso3_Ws_condition3_form : forall (eps : R) (phi : vec3R) (sg : R), vnorm phi <= eps -> eps < Rabs sg ->
  rxso3_Ws eps (phi, sg) =
  madd3 (madd3 (mscale3 (A3 sg) (skew phi)) (mscale3 (B3 sg) (mmul3 (skew phi) (skew phi)))) (mscale3 ((exp sg - 1) / sg) mid3).
Proof. exact rxso3_Ws_regime3_abc. Qed.
Theorem C01_rxso3_Ws_condition3_coefficients_are_integrals : forall sg : R, sg <> 0 ->
  is_RInt (fun s => exp (s * sg) * s) 0 1 (A3 sg) /\
  is_RInt (fun s => exp (s * sg) * (s * s / 2)) 0 1 (B3 sg) /\
  is_RInt (fun s => exp (s * sg)) 0 1 ((exp sg - 1) / sg).
Proof. intros sg H. split; [now apply A3_is_integral | split; [now apply B3_is_integral | now apply C3_is_integral]]. Qed.
(* ... and every entry of it is within exp|sigma| (theta^3/6 + theta^4/24) of the true translation matrix W(phi, sigma) *)
Theorem C01_sim3_Ws_small_angle_large_sigma_close : forall (eps : R) (phi : vec3R) (sg : R),
  0 < vnorm phi <= eps -> eps < Rabs sg -> eps <= 1 ->
  forall i j, (i < 3)%nat -> (j < 3)%nat ->
  Rabs (m3get (rxso3_Ws eps (phi, sg)) i j - m3get (mexp_Vmat phi sg) i j)
    <= exp (Rabs sg) * ((vnorm phi)^3 / 6 + (vnorm phi)^4 / 24).
Proof. exact rxso3_Ws_regime3_close. Qed.

(* history (defect found by these proofs, repaired in /repo): before the repair the K^2 coefficient of this branch was
   rxso3_Ws_B3_old sigma = (sigma^2 e^sigma/2 + e^sigma - 1 - sigma^2 e^sigma)/sigma^3 (sigma^2 e^sigma where B3 has
   sigma e^sigma); Ws_old_regime3 phi sigma = A3 K + B3_old K^2 + C I is the matrix rxso3_Ws returned then.  Its part
   A3 K + C I is within exp|sigma| (theta^3/6 + theta^2/2) of the exponential, so its error WAS B3_old K^2 up to that ... *)
Theorem C01_sim3_Ws_old_B3_error : forall (phi : vec3R) (sg : R), 0 < vnorm phi <= 1 -> sg <> 0 ->
  forall i j, (i < 3)%nat -> (j < 3)%nat ->
  Rabs (m3get (Ws_old_regime3 phi sg) i j - m3get (mexp_Vmat phi sg) i j
        - rxso3_Ws_B3_old sg * m3get (mmul3 (skew phi) (skew phi)) i j)
    <= exp (Rabs sg) * ((vnorm phi)^3 / 6 + (vnorm phi)^2 / 2).
Proof. exact rxso3_Ws_old_regime3_error. Qed.
(* ... and B3_old was not small: B3_old sigma^2 >= 1/2 for 0 < |sigma| <= 1/8 (B3 tends to 1/6): a relative translation
   error of (theta/sigma)^2 / 2 or more *)
Theorem C01_sim3_Ws_old_B3_coefficient_large : forall sg : R, sg <> 0 -> Rabs sg <= 1/8 ->
  1/2 <= rxso3_Ws_B3_old sg * (sg * sg).
Proof. exact B3_old_large. Qed.
(* a concrete input, for every 0 < eps <= 1/16 (in particular the eps of float64 and of float32): phi = (eps,0,0),
   sigma = 2 eps, tau = (0,1,0): the y-component of the old translation differed from that of the matrix exponential (~1)
   by more than 1/10 (the clause "Exp is the matrix exponential" was FALSE of the old code in exact arithmetic); the
   repaired model is within eps^3 on the same input *)
Theorem C01_sim3_Ws_old_B3_refuted : forall eps : R, 0 < eps <= 1/16 ->
  exists (tau phi : vec3R) (sg : R), vnorm phi <= eps /\ eps < Rabs sg /\
    forall (E : @mat3 R) (p : vec3R), is_mexp_sim3 tau phi sg E p ->
      Rabs (vc 1 (mvmul (Ws_old_regime3 phi sg) tau) - vc 1 p) > 1/10 /\
      Rabs (vc 1 (fst (sim3_exp eps (tau, (phi, sg)))) - vc 1 p) <= eps ^ 3.
Proof. exact sim3_old_regime3_refuted. Qed.

(* ======================= Taylor branches: coefficient bounds ======================= *)
Theorem C01_so3_exp_coef_taylor_close : forall (eps th : R), 0 < th <= eps -> eps <= 1 ->
  Rabs (fst (so3_exp_coef eps th) - sin (th / 2) / th) <= th ^ 6 / 645120 /\
  Rabs (snd (so3_exp_coef eps th) - cos (th / 2)) <= th ^ 6 / 46080.
Proof. exact so3_exp_coef_taylor_close. Qed.
Theorem C01_so3_Jl_coef_taylor_close : forall (eps th : R), 0 < th <= eps -> eps <= 1 ->
  Rabs (fst (so3_Jl_coef eps th) - (1 - cos th) / (th * th)) <= th ^ 4 / 720 /\
  Rabs (snd (so3_Jl_coef eps th) - (th - sin th) / (th * (th * th))) <= th ^ 4 / 5040.
Proof. exact so3_Jl_coef_taylor_close. Qed.
(* rxso3_Ws with theta <= eps and |sigma| <= eps: the constants 1/2, 1/6, 1 against the closed-form coefficients
   At, Bt, Cs (at t = 1) of the true translation matrix Ws1 *)
Theorem C01_rxso3_Ws_coef_taylor_close : forall (eps th sg : R), 0 < th <= eps -> sg <> 0 -> Rabs sg <= eps -> eps <= 1/2 ->
  let c := rxso3_Ws_coef eps th sg in
  Rabs (fst (fst c) - At sg th 1) <= 2 * Rabs sg + th * th / 6 /\
  Rabs (snd (fst c) - Bt sg th 1) <= Rabs sg + th * th / 24 /\
  Rabs (snd c - Cs sg 1) <= 2 * Rabs sg.
Proof. exact rxso3_Ws_coef_taylor_close. Qed.

(* ======================= distance of the modelled Exp to THE exponential, every generator ======================= *)
(* (E resp. (E, p) is the unique exponential of the generator, see the exists_unique theorems; the 4x4 matrix of the
   modelled Exp is block4 (s R) t by SE3_matrix_blocks / Sim3_matrix_blocks, its last row is exact.)
   so3: 0 above eps and at 0, at most theta^7/3000 on the Taylor branch *)
Theorem C01_so3_exp_close_to_exponential : forall (eps : R) (x : vec3R) (E : @mat3 R), 0 <= eps <= 1 -> is_mexp_so3 x E ->
  forall i j, (i < 3)%nat -> (j < 3)%nat ->
  Rabs (m3get (SO3_matrix (so3_exp eps x)) i j - m3get E i j) <= (Rmin (vnorm x) eps) ^ 7 / 3000.
Proof. exact so3_exp_close_to_exponential. Qed.
Theorem C01_rxso3_exp_close_to_exponential : forall (eps : R) (phi : vec3R) (sg : R) (E : @mat3 R), 0 <= eps <= 1 ->
  is_mexp_rxso3 phi sg E ->
  forall i j, (i < 3)%nat -> (j < 3)%nat ->
  Rabs (m3get (RxSO3_matrix (rxso3_exp eps (phi, sg))) i j - m3get E i j) <= exp sg * ((Rmin (vnorm phi) eps) ^ 7 / 3000).
Proof. exact rxso3_exp_close_to_exponential. Qed.
(* se3: rotation block as so3, translation within min(theta,eps)^5/600 |tau|_1 *)
Theorem C01_se3_exp_close_to_exponential : forall (eps : R) (tau phi : vec3R) (E : @mat3 R) (p : vec3R), 0 <= eps <= 1 ->
  is_mexp_se3 tau phi E p ->
  (forall i j, (i < 3)%nat -> (j < 3)%nat ->
     Rabs (m3get (SO3_matrix (snd (se3_exp eps (tau, phi)))) i j - m3get E i j) <= (Rmin (vnorm phi) eps) ^ 7 / 3000) /\
  (forall i, (i < 3)%nat ->
     Rabs (vc i (fst (se3_exp eps (tau, phi))) - vc i p) <= (Rmin (vnorm phi) eps) ^ 5 / 600 * norm1 tau).
Proof. exact se3_exp_close_to_exponential. Qed.
(* sim3: rotation-scale block as rxso3; translation: |sigma| <= eps (any angle) within (8|sigma| + min(theta,eps)^3/5)|tau|_1,
   |sigma| > eps with theta = 0 or theta > eps exact, 0 < theta <= eps < |sigma| within exp|sigma| theta^3/5 |tau|_1;
   in one statement for EVERY generator: C01_sim3_exp_translation_close_every_generator *)
Theorem C01_sim3_exp_rotation_close : forall (eps : R) (tau phi : vec3R) (sg : R) (E : @mat3 R) (p : vec3R), 0 <= eps <= 1 ->
  is_mexp_sim3 tau phi sg E p ->
  forall i j, (i < 3)%nat -> (j < 3)%nat ->
  Rabs (m3get (RxSO3_matrix (snd (sim3_exp eps (tau, (phi, sg))))) i j - m3get E i j) <= exp sg * ((Rmin (vnorm phi) eps) ^ 7 / 3000).
Proof. exact sim3_exp_rotation_close. Qed.
Theorem C01_sim3_exp_translation_close : forall (eps : R) (tau phi : vec3R) (sg : R) (E : @mat3 R) (p : vec3R),
  0 <= eps <= 1/4 -> Rabs sg <= eps -> is_mexp_sim3 tau phi sg E p ->
  forall i, (i < 3)%nat ->
  Rabs (vc i (fst (sim3_exp eps (tau, (phi, sg)))) - vc i p) <= (8 * Rabs sg + (Rmin (vnorm phi) eps) ^ 3 / 5) * norm1 tau.
Proof. exact sim3_exp_translation_close. Qed.
Theorem C01_sim3_exp_translation_close_every_generator :
  forall (eps : R) (tau phi : vec3R) (sg : R) (E : @mat3 R) (p : vec3R), 0 <= eps <= 1/4 -> is_mexp_sim3 tau phi sg E p ->
  forall i, (i < 3)%nat ->
  Rabs (vc i (fst (sim3_exp eps (tau, (phi, sg)))) - vc i p)
    <= (8 * Rmin (Rabs sg) eps + exp (Rabs sg) * ((Rmin (vnorm phi) eps) ^ 3 / 5)) * norm1 tau.
Proof. exact sim3_exp_translation_close_total. Qed.
Theorem C01_sim3_exp_translation_exact : forall (eps : R) (tau phi : vec3R) (sg : R) (E : @mat3 R) (p : vec3R),
  0 <= eps -> eps < Rabs sg -> vnorm phi = 0 \/ eps < vnorm phi -> is_mexp_sim3 tau phi sg E p ->
  fst (sim3_exp eps (tau, (phi, sg))) = p.
Proof. exact sim3_exp_translation_exact. Qed.


Print Assumptions C01_rxso3_exponential_unique. Print Assumptions C01_rxso3_exp_is_matrix_exponential.
Print Assumptions C01_sim3_exponential_unique. Print Assumptions C01_sim3_exp_is_matrix_exponential.
Print Assumptions C01_se3_exponential_unique. Print Assumptions C01_se3_exp_is_matrix_exponential.
Print Assumptions C01_so3_exp_unit_closed_form. Print Assumptions C01_so3_exp_unit_taylor.
Print Assumptions C01_so3_matrix_is_rodrigues. Print Assumptions C01_rodrigues_is_the_matrix_exponential. Print Assumptions C01_so3_exp_is_matrix_exponential.
Print Assumptions C01_so3_exponential_zero_rotation.
Print Assumptions C01_rxso3_exponential_zero_rotation.
Print Assumptions C01_se3_exponential_zero_rotation.
Print Assumptions C01_sim3_exponential_zero_rotation.
Print Assumptions C01_sim3_exponential_zero_scale_is_se3.
Print Assumptions C01_rxso3_exponential_zero_scale_is_so3.
Print Assumptions C01_so3_exponential_every_generator.
Print Assumptions C01_rxso3_exponential_every_generator.
Print Assumptions C01_se3_exponential_every_generator.
Print Assumptions C01_sim3_exponential_every_generator.
Print Assumptions C01_so3_exponential_exists_unique.
Print Assumptions C01_rxso3_exponential_exists_unique.
Print Assumptions C01_se3_exponential_exists_unique.
Print Assumptions C01_sim3_exponential_exists_unique.
Print Assumptions C01_so3_exp_at_zero_is_matrix_exponential.
Print Assumptions C01_se3_exp_at_zero_rotation_is_matrix_exponential.
Print Assumptions C01_rxso3_exp_at_zero_rotation_is_matrix_exponential.
Print Assumptions C01_sim3_exp_at_zero_rotation_is_matrix_exponential.
Print Assumptions C01_sim3_exp_small_sigma_uses_se3_translation.
Print Assumptions C01_sim3_Ws_small_sigma_close.
Print Assumptions C01_so3_exp_coef_taylor_close.
Print Assumptions C01_so3_Jl_coef_taylor_close.
Print Assumptions C01_rxso3_Ws_coef_taylor_close.
Print Assumptions C01_so3_exp_close_to_exponential.
Print Assumptions C01_rxso3_exp_close_to_exponential.
Print Assumptions C01_se3_exp_close_to_exponential.
Print Assumptions C01_sim3_exp_rotation_close.
Print Assumptions C01_sim3_exp_translation_close.
Print Assumptions C01_sim3_exp_translation_exact.
Print Assumptions C01_rxso3_Ws_at_zero_rotation.
Print Assumptions C01_rxso3_Ws_condition3_form.
Print Assumptions C01_rxso3_Ws_condition3_coefficients_are_integrals.
Print Assumptions C01_sim3_Ws_small_angle_large_sigma_close.
Print Assumptions C01_sim3_Ws_old_B3_error.
Print Assumptions C01_sim3_Ws_old_B3_coefficient_large.
Print Assumptions C01_sim3_Ws_old_B3_refuted.
Print Assumptions C01_sim3_exp_translation_close_every_generator.
