(* C01 — Exp is the matrix exponential on so3, se3, rxso3, sim3.  Statements only (over R);
   proofs in Proofs/LieExp.v.  [eps] is the dtype's machine epsilon (any 0 <= eps <= 2^-10). *)
From Coq Require Import Reals List Lra.
From Coquelicot Require Import Coquelicot.
From PV Require Import Base.Num Model.LieGroup Model.LieExp Proofs.LieGroup Proofs.LieExp Proofs.ExpODE Proofs.ExpODE2 Proofs.ExpODE3.
Local Open Scope R_scope.
#[local] Remove Hints NumQ NumZ : typeclass_instances.

(* the rotation part of Exp is a unit quaternion: exactly on the closed-form branch ... *)
Theorem C01_so3_exp_unit_closed_form : forall (eps : R) (x : vec3R), 0 <= eps -> eps < vnorm x ->
  qnorm2 (so3_exp eps x) = 1.
Proof. exact so3_exp_unit_closed. Qed.
(* ... and within theta^6/20000 (< eps^6) on the small-angle (Taylor) branch *)
Theorem C01_so3_exp_unit_taylor : forall (eps : R) (x : vec3R), vnorm x <= eps -> eps <= 1/1024 ->
  Rabs (qnorm2 (so3_exp eps x) - 1) <= (vnorm x)^6 / 20000.
Proof. exact so3_exp_unit_taylor_bound. Qed.

(* closed-form branch: the library's matrix of Exp(x) is Rodrigues' formula, for every angle *)
Theorem C01_so3_matrix_is_rodrigues : forall (eps : R) (x : vec3R), 0 <= eps -> eps < vnorm x ->
  SO3_matrix (so3_exp eps x) = rodrigues x.
Proof. exact so3_matrix_rodrigues. Qed.

(* "E is the matrix exponential of [x]x" is the defining initial value problem:
     is_mexp_so3 x E  :=  exists Y, Y 0 = I /\ (forall t, Y'(t) = [x]x Y(t) entrywise) /\ Y 1 = E.
   Existence AND uniqueness: the only such E is Rodrigues' matrix, for every x <> 0 of any magnitude *)
Theorem C01_rodrigues_is_the_matrix_exponential : forall (x : vec3R) (E : @mat3 R), vnorm x <> 0 ->
  (is_mexp_so3 x E <-> E = rodrigues x).
Proof. exact rodrigues_is_the_exponential. Qed.
(* hence, on the closed-form branch (every angle above eps, also beyond pi), the matrix the library
   builds from the modelled Exp(x) IS the matrix exponential of the generator of x *)
Theorem C01_so3_exp_is_matrix_exponential : forall (eps : R) (x : vec3R) (E : @mat3 R), 0 <= eps -> eps < vnorm x ->
  (is_mexp_so3 x E <-> E = SO3_matrix (so3_exp eps x)).
Proof.
  intros eps x E He Hx. rewrite (so3_matrix_rodrigues eps x He Hx). apply rodrigues_is_the_exponential.
  pose proof (vnorm_nonneg x). lra.
Qed.

(* se3: the 4x4 matrix [[E, p],[0,1]] is the matrix exponential of the generator [[ [phi]x, tau],[0,0]] iff
   E' = [phi]x E, E(0) = I and p' = [phi]x p + tau, p(0) = 0 (block form of Y' = G Y, Y(0) = I).
   Existence and uniqueness: the only such pair is (rodrigues phi, V1 phi tau) ... *)
Theorem C01_se3_exponential_unique : forall (tau phi : vec3R) (E : @mat3 R) (p : vec3R), vnorm phi <> 0 ->
  (is_mexp_se3 tau phi E p <-> E = rodrigues phi /\ p = mvmul (V1 phi) tau).
Proof. exact se3_exponential. Qed.
(* ... and on the closed-form branch that is exactly the matrix the library builds from the modelled se3 Exp *)
Theorem C01_se3_exp_is_matrix_exponential : forall (eps : R) (tau phi : vec3R), 0 <= eps -> eps < vnorm phi ->
  matrix4 SE3_act4 (se3_exp eps (tau, phi)) = block4 (rodrigues phi) (mvmul (V1 phi) tau) /\
  is_mexp_se3 tau phi (rodrigues phi) (mvmul (V1 phi) tau).
Proof.
  intros eps tau phi He H. split; [now apply se3_exp_matrix|].
  apply se3_exponential; [pose proof (vnorm_nonneg phi); lra | split; reflexivity].
Qed.

(* rxso3: generator [phi]x + sigma I.  is_mexp_rxso3 phi sigma E := exists Y, Y 0 = I /\ Y' = ([phi]x + sigma I) Y /\ Y 1 = E.
   Existence and uniqueness, for every sigma: the only such E is exp(sigma) Rodrigues(phi) ... *)
Theorem C01_rxso3_exponential_unique : forall (phi : vec3R) (sg : R) (E : @mat3 R), vnorm phi <> 0 ->
  (is_mexp_rxso3 phi sg E <-> E = mscale3 (exp sg) (rodrigues phi)).
Proof. exact rxso3_exponential. Qed.
(* ... which is the matrix the library builds from the modelled rxso3 Exp (closed-form rotation branch) *)
Theorem C01_rxso3_exp_is_matrix_exponential : forall (eps : R) (phi : vec3R) (sg : R) (E : @mat3 R), 0 <= eps -> eps < vnorm phi ->
  (is_mexp_rxso3 phi sg E <-> E = RxSO3_matrix (rxso3_exp eps (phi, sg))).
Proof.
  intros eps phi sg E He H. rewrite (rxso3_exp_matrix eps phi sg He H). apply rxso3_exponential.
  pose proof (vnorm_nonneg phi). lra.
Qed.

(* sim3: generator [[ [phi]x + sigma I, tau],[0,0]]; block form E' = G E, E(0) = I, p' = G p + tau, p(0) = 0.
   Existence and uniqueness (theta <> 0, sigma <> 0): the only such pair is (exp(sigma) Rodrigues(phi), Ws1 phi sigma tau),
   Ws1 = A K + B K^2 + C I with the closed-form coefficients of rxso3_Ws ... *)
Theorem C01_sim3_exponential_unique : forall (tau phi : vec3R) (sg : R) (E : @mat3 R) (p : vec3R), vnorm phi <> 0 -> sg <> 0 ->
  (is_mexp_sim3 tau phi sg E p <-> E = mscale3 (exp sg) (rodrigues phi) /\ p = mvmul (Ws1 phi sg) tau).
Proof. exact sim3_exponential. Qed.
(* ... and on the closed-form branch (theta > eps, |sigma| > eps) that is exactly the 4x4 matrix of the modelled sim3 Exp *)
Theorem C01_sim3_exp_is_matrix_exponential : forall (eps : R) (tau phi : vec3R) (sg : R), 0 <= eps -> eps < vnorm phi -> eps < Rabs sg ->
  matrix4 Sim3_act4 (sim3_exp eps (tau, (phi, sg))) = block4 (mscale3 (exp sg) (rodrigues phi)) (mvmul (Ws1 phi sg) tau) /\
  is_mexp_sim3 tau phi sg (mscale3 (exp sg) (rodrigues phi)) (mvmul (Ws1 phi sg) tau).
Proof.
  intros eps tau phi sg He H Hs. split; [now apply sim3_exp_matrix|].
  apply sim3_exponential; [pose proof (vnorm_nonneg phi); lra | intros ->; rewrite Rabs_R0 in Hs; lra | split; reflexivity].
Qed.

Print Assumptions C01_rxso3_exponential_unique. Print Assumptions C01_rxso3_exp_is_matrix_exponential.
Print Assumptions C01_sim3_exponential_unique. Print Assumptions C01_sim3_exp_is_matrix_exponential.
Print Assumptions C01_se3_exponential_unique. Print Assumptions C01_se3_exp_is_matrix_exponential.
Print Assumptions C01_so3_exp_unit_closed_form. Print Assumptions C01_so3_exp_unit_taylor.
Print Assumptions C01_so3_matrix_is_rodrigues. Print Assumptions C01_rodrigues_is_the_matrix_exponential. Print Assumptions C01_so3_exp_is_matrix_exponential.
