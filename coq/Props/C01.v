(* C01 — Exp is the matrix exponential on so3, se3, rxso3, sim3.  Statements only (over R);
   proofs in Proofs/LieExp.v.  [eps] is the dtype's machine epsilon (any 0 <= eps <= 2^-10). *)
From Coq Require Import Reals List.
From Coquelicot Require Import Coquelicot.
From PV Require Import Base.Num Model.LieGroup Model.LieExp Proofs.LieGroup Proofs.LieExp.
Local Open Scope R_scope.
#[local] Remove Hints NumQ NumZ : typeclass_instances.

(* the rotation part of Exp is a unit quaternion: exactly on the closed-form branch ... *)
Theorem C01_so3_exp_unit_closed_form : forall (eps : R) (x : vec3R), 0 <= eps -> eps < vnorm x ->
  qnorm2 (so3_exp eps x) = 1.
Proof. exact so3_exp_unit_closed. Qed.
(* ... and within theta^6/20000 (< eps^6) on the small-angle (Taylor) branch *)
Theorem C01_so3_exp_unit_taylor : forall (eps : R) (x : vec3R), vnorm x <= eps -> eps <= 1/1024 ->
  Rabs (qnorm2 (so3_exp eps x) - 1) <= (vnorm x)^6 / 20000.
Proof. exact so3_exp_unit_taylor_bound. Qed.

(* closed-form branch: the library's matrix of Exp(x) is Rodrigues' formula, for every angle *)
Theorem C01_so3_matrix_is_rodrigues : forall (eps : R) (x : vec3R), 0 <= eps -> eps < vnorm x ->
  SO3_matrix (so3_exp eps x) = rodrigues x.
Proof. exact so3_matrix_rodrigues. Qed.

(* Rodrigues' formula is a solution of the initial value problem defining exp(t [x]_x):
   Y(0) = I, Y'(t) = [x]_x Y(t) entrywise, Y(1) = rodrigues x  — for every x <> 0, any magnitude *)
Theorem C01_so3_rodrigues_solves_exp_ode_partial : forall x : vec3R, vnorm x <> 0 ->
  rod_t x 0 = mid3 /\ rod_t x 1 = rodrigues x /\
  forall t i j, (i < 3)%nat -> (j < 3)%nat ->
    is_derive (fun t => m3get (rod_t x t) i j) t (m3get (mmul3 (skew x) (rod_t x t)) i j).
Proof. intros x H. split; [now apply rod_t_0|]. split; [apply rod_t_1|]. now apply rod_t_ode. Qed.

Print Assumptions C01_so3_exp_unit_closed_form. Print Assumptions C01_so3_exp_unit_taylor.
Print Assumptions C01_so3_matrix_is_rodrigues. Print Assumptions C01_so3_rodrigues_solves_exp_ode_partial.
