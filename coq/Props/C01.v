(* C01 — Exp is the matrix exponential on so3, se3, rxso3, sim3.  Statements only (over R);
   proofs in Proofs/LieExp.v.  [eps] is the dtype's machine epsilon (any 0 <= eps <= 2^-10). *)
From Coq Require Import Reals List Lra.
From Coquelicot Require Import Coquelicot.
From PV Require Import Base.Num Model.LieGroup Model.LieExp Proofs.LieGroup Proofs.LieExp Proofs.ExpODE Proofs.ExpODE2.
Local Open Scope R_scope.
#[local] Remove Hints NumQ NumZ : typeclass_instances.

(* the rotation part of Exp is a unit quaternion: exactly on the closed-form branch ... *)
Theorem C01_so3_exp_unit_closed_form : forall (eps : R) (x : vec3R), 0 <= eps -> eps < vnorm x ->
  qnorm2 (so3_exp eps x) = 1.
Proof. exact so3_exp_unit_closed. Qed.
(* ... and within theta^6/20000 (< eps^6) on the small-angle (Taylor) branch *)
Theorem C01_so3_exp_unit_taylor : forall (eps : R) (x : vec3R), vnorm x <= eps -> eps <= 1/1024 ->
  Rabs (qnorm2 (so3_exp eps x) - 1) <= (vnorm x)^6 / 20000.
Proof. exact so3_exp_unit_taylor_bound. Qed.

(* closed-form branch: the library's matrix of Exp(x) is Rodrigues' formula, for every angle *)
Theorem C01_so3_matrix_is_rodrigues : forall (eps : R) (x : vec3R), 0 <= eps -> eps < vnorm x ->
  SO3_matrix (so3_exp eps x) = rodrigues x.
Proof. exact so3_matrix_rodrigues. Qed.

(* "E is the matrix exponential of [x]x" is the defining initial value problem:
     is_mexp_so3 x E  :=  exists Y, Y 0 = I /\ (forall t, Y'(t) = [x]x Y(t) entrywise) /\ Y 1 = E.
   Existence AND uniqueness: the only such E is Rodrigues' matrix, for every x <> 0 of any magnitude *)
Theorem C01_rodrigues_is_the_matrix_exponential : forall (x : vec3R) (E : @mat3 R), vnorm x <> 0 ->
  (is_mexp_so3 x E <-> E = rodrigues x).
Proof. exact rodrigues_is_the_exponential. Qed.
(* hence, on the closed-form branch (every angle above eps, also beyond pi), the matrix the library
   builds from the modelled Exp(x) IS the matrix exponential of the generator of x *)
Theorem C01_so3_exp_is_matrix_exponential : forall (eps : R) (x : vec3R) (E : @mat3 R), 0 <= eps -> eps < vnorm x ->
  (is_mexp_so3 x E <-> E = SO3_matrix (so3_exp eps x)).
Proof.
  intros eps x E He Hx. rewrite (so3_matrix_rodrigues eps x He Hx). apply rodrigues_is_the_exponential.
  pose proof (vnorm_nonneg x). lra.
Qed.

(* se3: the 4x4 matrix [[E, p],[0,1]] is the matrix exponential of the generator [[ [phi]x, tau],[0,0]] iff
   E' = [phi]x E, E(0) = I and p' = [phi]x p + tau, p(0) = 0 (block form of Y' = G Y, Y(0) = I).
   Existence and uniqueness: the only such pair is (rodrigues phi, V1 phi tau) ... *)
Theorem C01_se3_exponential_unique : forall (tau phi : vec3R) (E : @mat3 R) (p : vec3R), vnorm phi <> 0 ->
  (is_mexp_se3 tau phi E p <-> E = rodrigues phi /\ p = mvmul (V1 phi) tau).
Proof. exact se3_exponential. Qed.
(* ... and on the closed-form branch that is exactly the matrix the library builds from the modelled se3 Exp *)
Theorem C01_se3_exp_is_matrix_exponential : forall (eps : R) (tau phi : vec3R), 0 <= eps -> eps < vnorm phi ->
  matrix4 SE3_act4 (se3_exp eps (tau, phi)) = block4 (rodrigues phi) (mvmul (V1 phi) tau) /\
  is_mexp_se3 tau phi (rodrigues phi) (mvmul (V1 phi) tau).
Proof.
  intros eps tau phi He H. split; [now apply se3_exp_matrix|].
  apply se3_exponential; [pose proof (vnorm_nonneg phi); lra | split; reflexivity].
Qed.

Print Assumptions C01_se3_exponential_unique. Print Assumptions C01_se3_exp_is_matrix_exponential.
Print Assumptions C01_so3_exp_unit_closed_form. Print Assumptions C01_so3_exp_unit_taylor.
Print Assumptions C01_so3_matrix_is_rodrigues. Print Assumptions C01_rodrigues_is_the_matrix_exponential. Print Assumptions C01_so3_exp_is_matrix_exponential.
