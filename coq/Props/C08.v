(* C08 — LM never accepts a worse loss, restores rejected trials, reports the true loss.
   Statements only (over R); proofs in Proofs/LM.v.  The parameter space, its loss, the retraction
   (with retract (retract t d) (-d) = t), the predicted decrease and the linear solver are arbitrary. *)
From Coq Require Import Reals List Arith.
Import ListNotations.
From PV Require Import Base.Num Model.LM Proofs.LM.
Local Open Scope R_scope.
#[local] Remove Hints NumQ NumZ : typeclass_instances.

Section C08.
Variables Theta Delta : Type.
Variable loss : Theta -> R.
Variable retract : Theta -> Delta -> Theta.
Variable negd : Delta -> Delta.
Variable pred : Theta -> Delta -> R.
Variable solve : nat -> option Delta.
Hypothesis retract_undo : forall t d, retract (retract t d) (negd d) = t.

(* One LM call from any state whose cached loss is exact (or absent): it terminates and
   - returns (and caches) the true loss of the parameters it leaves behind,
   - that loss is <= the loss it was given unless the rejection budget was exhausted in this call,
   - it makes at most reject+1 solves, records the previous loss in `last`,
   - the parameters are either exactly those it was given (every trial rejected, or the solver
     raised: loss unchanged too) or those of the single last trial. *)
Theorem C08_lm_step : forall (c : scfg) (reject : nat) (s : ost Theta), cache_ok Theta loss s ->
  exists s' r, lm_step Theta Delta loss retract negd pred solve c reject s = Some (s', r) /\
    cached s' = Some r /\ cache_ok Theta loss s' /\
    Post Theta Delta loss retract solve reject (loss (th s)) (th s) (nsolve s) s' r.
Proof. exact (lm_step_spec Theta Delta loss retract negd pred solve retract_undo). Qed.

(* a rejected trial leaves the parameters as before the trial; a raising solver ends the loop
   with parameters and loss as they were before that trial *)
Theorem C08_rejected_trial_restores : forall c reject th0 (s : ost Theta) l s' l',
  lm_body Theta Delta loss retract negd pred solve c reject th0 s l = (s', l', true) ->
  th s' = th s /\ l' = last s /\ rej s' = S (rej s) /\ nsolve s' = S (nsolve s).
Proof. exact (body_rejected Theta Delta loss retract negd pred solve retract_undo). Qed.
Theorem C08_solver_raises : forall c reject th0 (s : ost Theta) l,
  solve (nsolve s) = None ->
  exists s', lm_body Theta Delta loss retract negd pred solve c reject th0 s l = (s', l, false) /\
             th s' = th s /\ cached s' = cached s /\ last s' = last s /\ rej s' = rej s /\ ss s' = ss s.
Proof. exact (body_solver_raises Theta Delta loss retract negd pred solve). Qed.

(* GaussNewton.step returns the loss at the new parameters and records the previous one *)
Theorem C08_gn_step : forall (s : ost Theta) d, cache_ok Theta loss s -> solve (nsolve s) = Some d ->
  exists s' r, gn_step Theta Delta loss retract solve s = Some (s', r) /\ th s' = retract (th s) d /\
    r = loss (th s') /\ cached s' = Some r /\ last s' = loss (th s) /\ cache_ok Theta loss s'.
Proof. exact (gn_step_spec Theta Delta loss retract solve). Qed.

(* any number of step() calls on the same data (any mix of LM configurations and GN): every value
   returned is the true loss of the parameters left behind *)
Theorem C08_repeated_calls : forall ks (s s' : ost Theta) vs, cache_ok Theta loss s ->
  run_calls Theta Delta loss retract negd pred solve s ks = Some (s', vs) ->
  cache_ok Theta loss s' /\ (vs <> [] -> List.last vs 0 = loss (th s')).
Proof. exact (calls_return_true_loss Theta Delta loss retract negd pred solve retract_undo). Qed.
End C08.

(* strategies: documented transition tables and bounds after every update of any history *)
Theorem C08_constant : forall (c : scfg (F:=R)) s l1 l2 p, kind c = SConstant -> supdate c s l1 l2 p = s.
Proof. exact constant_unchanged. Qed.
Theorem C08_adaptive : forall (c : scfg (F:=R)) s l1 l2 p, kind c = SAdaptive ->
  damping (supdate c s l1 l2 p) =
    clampF (smin c) (smax c)
      (if qual_gt l1 l2 p (high c) then damping s * down s
       else if qual_gt l1 l2 p (low c) then damping s else damping s * up c)
  /\ down (supdate c s l1 l2 p) = down s.
Proof. exact adaptive_transition. Qed.
Theorem C08_trust_region : forall (c : scfg (F:=R)) s l1 l2 p, kind c = STrust ->
  let r0 := 1 / damping s in
  radius (supdate c s l1 l2 p) =
    clampF (smin c) (smax c)
      (if qual_gt l1 l2 p (high c) then up c * r0 else if qual_gt l1 l2 p (low c) then r0 else r0 * down s)
  /\ down (supdate c s l1 l2 p) =
    clampF (smin c) (smax c)
      (if qual_gt l1 l2 p (high c) then down0 c else if qual_gt l1 l2 p (low c) then down0 c else down s * factor c)
  /\ damping (supdate c s l1 l2 p) = 1 / radius (supdate c s l1 l2 p).
Proof. exact trust_transition. Qed.
Theorem C08_quality_means_ratio : forall l1 l2 p h : R, p <> 0 -> qual_gt l1 l2 p h = true <-> h < (l1 - l2) / p.
Proof. exact qual_gt_spec. Qed.
Theorem C08_strategy_bounds : forall (c : scfg (F:=R)), smin c <= smax c -> kind c <> SConstant ->
  forall (upd : list (R * R * R)) s, upd <> [] ->
  let s' := fold_left (fun s u => match u with (a, b, p) => supdate c s a b p end) upd s in
  match kind c with
  | SAdaptive => smin c <= damping s' <= smax c
  | STrust => smin c <= radius s' <= smax c /\ smin c <= down s' <= smax c
  | SConstant => True end.
Proof. exact strategy_bounds_history. Qed.

Print Assumptions C08_lm_step. Print Assumptions C08_rejected_trial_restores. Print Assumptions C08_solver_raises.
Print Assumptions C08_gn_step. Print Assumptions C08_repeated_calls. Print Assumptions C08_constant.
Print Assumptions C08_adaptive. Print Assumptions C08_trust_region. Print Assumptions C08_quality_means_ratio.
Print Assumptions C08_strategy_bounds.
