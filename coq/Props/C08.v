(* C08 — LM never accepts a worse loss, restores rejected trials, reports the true loss.
   Statements only (over R); proofs in Proofs/LM.v.  The parameter space, its loss, the retraction
   (with retract (retract t d) (-d) = t), the predicted decrease and the linear solver are arbitrary. *)
From Coq Require Import Reals List Arith Sorted.
Import ListNotations.
From PV Require Import Base.Num Model.LieGroup Model.LieExp Model.LM Proofs.LieGroup Proofs.LM Proofs.LM2 Proofs.LM3.
Local Open Scope R_scope.
#[local] Remove Hints NumQ NumZ : typeclass_instances.

Section C08.
Variables Theta Delta : Type.
Variable loss : Theta -> R.
Variable retract : Theta -> Delta -> Theta.
Variable negd : Delta -> Delta.
Variable pred : Theta -> Delta -> R.
Variable solve : nat -> option Delta.
Hypothesis retract_undo : forall t d, retract (retract t d) (negd d) = t.

(* One LM call from any state whose cached loss is exact (or absent): it terminates and
   - returns (and caches) the true loss of the parameters it leaves behind,
   - that loss is <= the loss it was given unless the rejection budget was exhausted in this call,
   - it makes at most reject+1 solves, records the previous loss in `last`,
   - the parameters are either exactly those it was given (every trial rejected, or the solver
     raised: loss unchanged too) or those of the single last trial. *)
Theorem C08_lm_step : forall (c : scfg) (reject : nat) (s : ost Theta), cache_ok Theta loss s ->
  exists s' r, lm_step Theta Delta loss retract negd pred solve c reject s = Some (s', r) /\
    cached s' = Some r /\ cache_ok Theta loss s' /\
    Post Theta Delta loss retract solve reject (loss (th s)) (th s) (nsolve s) s' r.
Proof. exact (lm_step_spec Theta Delta loss retract negd pred solve retract_undo). Qed.

(* a rejected trial leaves the parameters as before the trial; a raising solver ends the loop
   with parameters and loss as they were before that trial *)
Theorem C08_rejected_trial_restores : forall c reject th0 (s : ost Theta) l s' l',
  lm_body Theta Delta loss retract negd pred solve c reject th0 s l = (s', l', true) ->
  th s' = th s /\ l' = last s /\ rej s' = S (rej s) /\ nsolve s' = S (nsolve s).
Proof. exact (body_rejected Theta Delta loss retract negd pred solve retract_undo). Qed.
Theorem C08_solver_raises : forall c reject th0 (s : ost Theta) l,
  solve (nsolve s) = None ->
  exists s', lm_body Theta Delta loss retract negd pred solve c reject th0 s l = (s', l, false) /\
             th s' = th s /\ cached s' = cached s /\ last s' = last s /\ rej s' = rej s /\ ss s' = ss s.
Proof. exact (body_solver_raises Theta Delta loss retract negd pred solve). Qed.

(* GaussNewton.step returns the loss at the new parameters and records the previous one *)
Theorem C08_gn_step : forall (s : ost Theta) d, cache_ok Theta loss s -> solve (nsolve s) = Some d ->
  exists s' r, gn_step Theta Delta loss retract solve s = Some (s', r) /\ th s' = retract (th s) d /\
    r = loss (th s') /\ cached s' = Some r /\ last s' = loss (th s) /\ cache_ok Theta loss s'.
Proof. exact (gn_step_spec Theta Delta loss retract solve). Qed.

(* any number of step() calls on the same data (any mix of LM configurations and GN): every value
   returned is the true loss of the parameters left behind *)
Theorem C08_repeated_calls : forall ks (s s' : ost Theta) vs, cache_ok Theta loss s ->
  run_calls Theta Delta loss retract negd pred solve s ks = Some (s', vs) ->
  cache_ok Theta loss s' /\ (vs <> [] -> List.last vs 0 = loss (th s')).
Proof. exact (calls_return_true_loss Theta Delta loss retract negd pred solve retract_undo). Qed.
End C08.

(* strategies: documented transition tables and bounds after every update of any history *)
Theorem C08_constant : forall (c : scfg (F:=R)) s l1 l2 p, kind c = SConstant -> supdate c s l1 l2 p = s.
Proof. exact constant_unchanged. Qed.
Theorem C08_adaptive : forall (c : scfg (F:=R)) s l1 l2 p, kind c = SAdaptive ->
  damping (supdate c s l1 l2 p) =
    clampF (smin c) (smax c)
      (if qual_gt l1 l2 p (high c) then damping s * down s
       else if qual_gt l1 l2 p (low c) then damping s else damping s * up c)
  /\ down (supdate c s l1 l2 p) = down s.
Proof. exact adaptive_transition. Qed.
Theorem C08_trust_region : forall (c : scfg (F:=R)) s l1 l2 p, kind c = STrust ->
  let r0 := 1 / damping s in
  radius (supdate c s l1 l2 p) =
    clampF (smin c) (smax c)
      (if qual_gt l1 l2 p (high c) then up c * r0 else if qual_gt l1 l2 p (low c) then r0 else r0 * down s)
  /\ down (supdate c s l1 l2 p) =
    clampF (smin c) (smax c)
      (if qual_gt l1 l2 p (high c) then down0 c else if qual_gt l1 l2 p (low c) then down0 c else down s * factor c)
  /\ damping (supdate c s l1 l2 p) = 1 / radius (supdate c s l1 l2 p).
Proof. exact trust_transition. Qed.
Theorem C08_quality_means_ratio : forall l1 l2 p h : R, p <> 0 -> qual_gt l1 l2 p h = true <-> h < (l1 - l2) / p.
Proof. exact qual_gt_spec. Qed.
Theorem C08_strategy_bounds : forall (c : scfg (F:=R)), smin c <= smax c -> kind c <> SConstant ->
  forall (upd : list (R * R * R)) s, upd <> [] ->
  let s' := fold_left (fun s u => match u with (a, b, p) => supdate c s a b p end) upd s in
  match kind c with
  | SAdaptive => smin c <= damping s' <= smax c
  | STrust => smin c <= radius s' <= smax c /\ smin c <= down s' <= smax c
  | SConstant => True end.
Proof. exact strategy_bounds_history. Qed.


(* ================= strengthening round (Proofs/LM2.v, LM3.v) ================= *)
Section C08b.
Variables Theta Delta : Type.
Variable loss : Theta -> R.
Variable retract : Theta -> Delta -> Theta.
Variable negd : Delta -> Delta.
Variable pred : Theta -> Delta -> R.
Variable solve : nat -> option Delta.

(* EXACT outcome of one LevenbergMarquardt.step for every solver behaviour (fault sequences included).
   Let the first j = |ds| <= reject solves of the call return the steps ds, each giving a worse loss than the
   loss l0 the call was given (worse_trials), and let the retraction undo be exact on these rejected steps.
   - If the solver raises at solve j: parameters, loss and `last` as given, reject_count = j, exactly j
     strategy updates were made (one per completed trial, none for the raise), j+1 solves.
   - If solve j returns d and the trial is not worse, or j = reject (budget exhausted): exactly that trial is
     kept, its true loss is returned and cached, reject_count = j, j+1 strategy updates, j+1 solves.
   No global retract_undo hypothesis: only the rejected steps must be undone exactly. *)
Theorem C08_lm_step_exact_outcome : forall (c : scfg) (reject : nat) (s : ost Theta) (ds : list Delta),
  cache_ok Theta loss s ->
  (forall d, In d ds -> retract (retract (th s) d) (negd d) = th s) ->
  (forall i d, nth_error ds i = Some d -> solve (nsolve s + i) = Some d /\ loss (th s) < loss (retract (th s) d)) ->
  (length ds <= reject)%nat ->
  let stj := fold_left (fun st d => supdate c st (loss (th s)) (loss (retract (th s) d)) (pred (th s) d)) ds (ss s) in
  (solve (nsolve s + length ds) = None ->
     lm_step Theta Delta loss retract negd pred solve c reject s =
       Some ({| th := th s; cached := Some (loss (th s)); last := loss (th s); rej := length ds; ss := stj;
                nsolve := S (nsolve s + length ds) |}, loss (th s))) /\
  (forall d, solve (nsolve s + length ds) = Some d -> loss (retract (th s) d) <= loss (th s) \/ length ds = reject ->
     lm_step Theta Delta loss retract negd pred solve c reject s =
       Some ({| th := retract (th s) d; cached := Some (loss (retract (th s) d)); last := loss (th s); rej := length ds;
                ss := supdate c stj (loss (th s)) (loss (retract (th s) d)) (pred (th s) d);
                nsolve := S (nsolve s + length ds) |}, loss (retract (th s) d))).
Proof. exact (lm_step_exact Theta Delta loss retract negd pred solve). Qed.
(* ... and every solver behaviour is covered: such a prefix of worse trials always exists, ending with
   budget exhausted / a raise / a trial that is not worse *)
Theorem C08_lm_step_cases_exhaustive : forall (th0 : Theta) (l0 : R) (n0 reject : nat),
  exists ds, worse_trials Theta Delta loss retract solve th0 l0 n0 ds /\ (length ds <= reject)%nat /\
    (length ds = reject \/ solve (n0 + length ds) = None \/
     exists d, solve (n0 + length ds) = Some d /\ loss (retract th0 d) <= l0).
Proof. exact (worse_prefix_exists Theta Delta loss retract solve). Qed.

Hypothesis retract_undo : forall t d, retract (retract t d) (negd d) = t.
(* sequences of calls on the same data (any mix of LM configurations and GN):
   EVERY returned value is the true and cached loss of the parameters its own call left behind *)
Theorem C08_every_call_returns_true_loss : forall ks (s : ost Theta) tr, cache_ok Theta loss s ->
  run_trace Theta Delta loss retract negd pred solve s ks = Some tr ->
  Forall (fun p => snd p = loss (th (fst p)) /\ cached (fst p) = Some (snd p) /\ cache_ok Theta loss (fst p)) tr.
Proof. exact (all_calls_return_true_loss Theta Delta loss retract negd pred solve retract_undo). Qed.
(* run_trace is run_calls with the intermediate states kept *)
Theorem C08_trace_is_run : forall ks (s : ost Theta),
  run_calls Theta Delta loss retract negd pred solve s ks =
    match run_trace Theta Delta loss retract negd pred solve s ks with
    | Some tr => Some (List.last (map fst tr) s, map snd tr) | None => None end.
Proof. exact (run_trace_calls Theta Delta loss retract negd pred solve). Qed.
(* any sequence of LM calls runs to completion whatever the solver does (raises included) *)
Theorem C08_lm_calls_terminate : forall ks (s : ost Theta), cache_ok Theta loss s -> Forall is_lm ks ->
  exists tr, run_trace Theta Delta loss retract negd pred solve s ks = Some tr /\ length tr = length ks.
Proof. exact (lm_calls_terminate Theta Delta loss retract negd pred solve retract_undo). Qed.
(* while no call exhausts its rejection budget the returned losses never increase: l0 >= v1 >= v2 >= ... *)
Theorem C08_lm_calls_monotone : forall ks (s : ost Theta) tr, cache_ok Theta loss s ->
  run_trace Theta Delta loss retract negd pred solve s ks = Some tr ->
  Forall2 (fun k p => match k with CallLM _ r => rej (fst p) <> r | CallGN => False end) ks tr ->
  Sorted (fun a b => b <= a) (loss (th s) :: map snd tr).
Proof. exact (lm_calls_monotone Theta Delta loss retract negd pred solve retract_undo). Qed.
End C08b.

(* the retraction-undo hypothesis for pypose's own SO3 parameters (retract X d = Exp(d) @ X):
   exact on the closed-form branch of so3_Exp and for the zero step; for a small-angle step the restored
   quaternion is X scaled by a factor within theta^6/20000 of 1 - and it is not exact there *)
Theorem C08_so3_retract_undo : forall (eps : R) (X : quatR) (d : vec3R),
  (0 <= eps -> eps < vnorm d -> SO3_mul (so3_exp eps (vneg d)) (SO3_mul (so3_exp eps d) X) = X) /\
  (0 <= eps -> SO3_mul (so3_exp eps (vneg vzero)) (SO3_mul (so3_exp eps vzero) X) = X) /\
  (vnorm d <= eps -> eps <= 1 / 1024 ->
     exists k, SO3_mul (so3_exp eps (vneg d)) (SO3_mul (so3_exp eps d) X) = (vscale k (qv X), k * qw X) /\
               Rabs (k - 1) <= (vnorm d) ^ 6 / 20000).
Proof.
  intros eps X d. split; [exact (so3_retract_undo_closed eps X d) | split; [exact (so3_retract_undo_zero eps X) |
    exact (so3_retract_undo_small eps X d)]].
Qed.
Theorem C08_so3_retract_undo_small_step_refuted : forall (eps : R) (X : quatR) (d : vec3R),
  0 < vnorm d -> vnorm d <= eps -> eps <= 1 / 1024 -> qnorm2 X <> 0 ->
  SO3_mul (so3_exp eps (vneg d)) (SO3_mul (so3_exp eps d) X) <> X.
Proof. exact so3_retract_undo_small_inexact. Qed.

(* strategies: the quality comparison at zero predicted decrease (the code's quality is +-inf or nan) *)
Theorem C08_quality_at_zero_prediction : forall l1 l2 h : R, qual_gt l1 l2 0 h = true <-> l2 < l1.
Proof. exact qual_gt_zero_pred. Qed.
(* TrustRegion with 0 < min <= max and a non-zero damping on entry: along ANY history of updates every state has
   a positive damping (1/damping is a true quotient at each update, never the totalised 1/0), and after the
   first update radius, down in [min,max], damping * radius = 1 *)
Theorem C08_trust_region_wellformed : forall (c : scfg (F:=R)), kind c = STrust -> 0 < smin c <= smax c ->
  forall (upd : list (R * R * R)) s, 0 < damping s ->
  (forall k, 0 < damping (fold_left (fun s u => match u with (a, b, p) => supdate c s a b p end) (firstn k upd) s)) /\
  (upd <> [] ->
   let s' := fold_left (fun s u => match u with (a, b, p) => supdate c s a b p end) upd s in
   smin c <= radius s' <= smax c /\ smin c <= down s' <= smax c /\ damping s' * radius s' = 1 /\ 0 < damping s').
Proof. exact trust_history_ok. Qed.
(* the documented TrustRegion moves in terms of the previous radius *)
Theorem C08_trust_region_moves_radius : forall (c : scfg (F:=R)) s l1 l2 p, kind c = STrust ->
  damping s * radius s = 1 ->
  radius (supdate c s l1 l2 p) =
    clampF (smin c) (smax c)
      (if qual_gt l1 l2 p (high c) then up c * radius s else if qual_gt l1 l2 p (low c) then radius s
       else radius s * down s).
Proof. exact trust_moves_radius. Qed.
(* non-vacuity of the hypotheses of C08_lm_step_exact_outcome: loss t^2, additive retraction, first trial worse,
   then the solver raises / returns an improving step *)
Theorem C08_exact_outcome_hypotheses_satisfiable :
  worse_trials R R (fun t => t * t) Rplus ex_solve_raise 1 1 0 [1] /\
  worse_trials R R (fun t => t * t) Rplus ex_solve_ok 1 1 0 [1] /\
  ex_solve_raise (0 + 1) = None /\ ex_solve_ok (0 + 1) = Some (-1) /\ (1 + -1) * (1 + -1) <= 1.
Proof. exact ex_worse_trials. Qed.

Print Assumptions C08_lm_step. Print Assumptions C08_rejected_trial_restores. Print Assumptions C08_solver_raises.
Print Assumptions C08_gn_step. Print Assumptions C08_repeated_calls. Print Assumptions C08_constant.
Print Assumptions C08_adaptive. Print Assumptions C08_trust_region. Print Assumptions C08_quality_means_ratio.
Print Assumptions C08_strategy_bounds.
Print Assumptions C08_lm_step_exact_outcome. Print Assumptions C08_lm_step_cases_exhaustive.
Print Assumptions C08_every_call_returns_true_loss. Print Assumptions C08_trace_is_run. Print Assumptions C08_lm_calls_terminate.
Print Assumptions C08_lm_calls_monotone. Print Assumptions C08_so3_retract_undo. Print Assumptions C08_so3_retract_undo_small_step_refuted.
Print Assumptions C08_quality_at_zero_prediction. Print Assumptions C08_trust_region_wellformed.
Print Assumptions C08_trust_region_moves_radius. Print Assumptions C08_exact_outcome_hypotheses_satisfiable.
