(* C03 — group product, inverse, identity and point action obey the group laws; matrix() is a
   homomorphism with the documented blocks; validity is preserved over any history.
   Statements only (over R); proofs in Proofs/LieGroup.v. *)
From Coq Require Import Reals List.
From PV Require Import Base.Num Model.LieGroup Proofs.LieGroup.
Local Open Scope R_scope.
#[local] Remove Hints NumQ NumZ : typeclass_instances.

(* --- associativity *)
Theorem C03_SO3_assoc : forall X Y Z : quatR, SO3_mul (SO3_mul X Y) Z = SO3_mul X (SO3_mul Y Z).
Proof. exact SO3_mul_assoc. Qed.
Theorem C03_SE3_assoc : forall X Y Z : se3R, valid_SE3 X -> valid_SE3 Y ->
  SE3_mul (SE3_mul X Y) Z = SE3_mul X (SE3_mul Y Z).
Proof. exact SE3_mul_assoc. Qed.
Theorem C03_RxSO3_assoc : forall X Y Z : rxso3R, RxSO3_mul (RxSO3_mul X Y) Z = RxSO3_mul X (RxSO3_mul Y Z).
Proof. exact RxSO3_mul_assoc. Qed.
Theorem C03_Sim3_assoc : forall X Y Z : sim3R, unitq (fst (snd X)) -> unitq (fst (snd Y)) ->
  Sim3_mul (Sim3_mul X Y) Z = Sim3_mul X (Sim3_mul Y Z).
Proof. exact Sim3_mul_assoc. Qed.

(* --- two-sided inverse *)
Theorem C03_SO3_inverse : forall X : quatR, unitq X ->
  SO3_mul X (SO3_inv X) = SO3_id /\ SO3_mul (SO3_inv X) X = SO3_id.
Proof. intros X H; split; [exact (SO3_inv_r X H) | exact (SO3_inv_l X H)]. Qed.
Theorem C03_SE3_inverse : forall X : se3R, valid_SE3 X ->
  SE3_mul X (SE3_inv X) = SE3_id /\ SE3_mul (SE3_inv X) X = SE3_id.
Proof. intros X H; split; [exact (SE3_inv_r X H) | exact (SE3_inv_l X H)]. Qed.
Theorem C03_RxSO3_inverse : forall X : rxso3R, unitq (fst X) -> snd X <> 0 ->
  RxSO3_mul X (RxSO3_inv X) = RxSO3_id /\ RxSO3_mul (RxSO3_inv X) X = RxSO3_id.
Proof. intros X H Hs; split; [exact (RxSO3_inv_r X H Hs) | exact (RxSO3_inv_l X H Hs)]. Qed.
Theorem C03_Sim3_inverse : forall X : sim3R, unitq (fst (snd X)) -> snd (snd X) <> 0 ->
  Sim3_mul X (Sim3_inv X) = Sim3_id /\ Sim3_mul (Sim3_inv X) X = Sim3_id.
Proof. intros X H Hs; split; [exact (Sim3_inv_r X H Hs) | exact (Sim3_inv_l X H Hs)]. Qed.

(* --- identity is neutral (no hypotheses) *)
Theorem C03_identity_neutral :
  (forall X : quatR, SO3_mul SO3_id X = X /\ SO3_mul X SO3_id = X) /\
  (forall X : se3R, SE3_mul SE3_id X = X /\ SE3_mul X SE3_id = X) /\
  (forall X : rxso3R, RxSO3_mul RxSO3_id X = X /\ RxSO3_mul X RxSO3_id = X) /\
  (forall X : sim3R, Sim3_mul Sim3_id X = X /\ Sim3_mul X Sim3_id = X).
Proof.
  split; [intros X; split; [apply SO3_id_l | apply SO3_id_r]|].
  split; [intros X; split; [apply SE3_id_l | apply SE3_id_r]|].
  split; [intros X; split; [apply RxSO3_id_l | apply RxSO3_id_r]|].
  intros X; split; [apply Sim3_id_l | apply Sim3_id_r].
Qed.

(* --- matrix(): documented blocks, equals the action, homomorphism *)
Theorem C03_matrix_blocks :
  (forall X : se3R, matrix4 SE3_act4 X = block4 (SO3_matrix (snd X)) (fst X)) /\
  (forall X : sim3R, matrix4 Sim3_act4 X = block4 (mscale3 (snd (snd X)) (SO3_matrix (fst (snd X)))) (fst X)) /\
  (forall X : rxso3R, matrix4 RxSO3_act4 X = block4 (mscale3 (snd X) (SO3_matrix (fst X))) vzero).
Proof. split; [exact SE3_matrix_blocks | split; [exact Sim3_matrix_blocks | exact RxSO3_matrix4_blocks]]. Qed.

Theorem C03_act_is_matrix :
  (forall (X : quatR) p, SO3_act X p = mvmul (SO3_matrix X) p) /\
  (forall (X : rxso3R) p, RxSO3_act X p = mvmul (RxSO3_matrix X) p) /\
  (forall (X : se3R) p, SE3_act4 X p = mv4 (matrix4 SE3_act4 X) p) /\
  (forall (X : sim3R) p, Sim3_act4 X p = mv4 (matrix4 Sim3_act4 X) p) /\
  (forall (X : quatR) p, SO3_act4 X p = (mvmul (SO3_matrix X) (fst p), snd p)) /\
  (forall (X : rxso3R) p, RxSO3_act4 X p = mv4 (matrix4 RxSO3_act4 X) p) /\
  (forall (X : se3R) p, (SE3_act X p, 1) = SE3_act4 X (p, 1)) /\
  (forall (X : sim3R) p, (Sim3_act X p, 1) = Sim3_act4 X (p, 1)).
Proof. split; [exact SO3_act_is_matrix | split; [exact RxSO3_act_is_matrix | split; [exact SE3_act4_is_matrix | split; [exact Sim3_act4_is_matrix | split; [exact SO3_act4_is_matrix | split; [exact RxSO3_act4_is_matrix4 | split; [exact SE3_act_is_act4 | exact Sim3_act_is_act4]]]]]]]. Qed.

Theorem C03_matrix_homomorphism :
  (forall X Y : quatR, unitq X -> unitq Y -> SO3_matrix (SO3_mul X Y) = mmul3 (SO3_matrix X) (SO3_matrix Y)) /\
  (forall X Y : rxso3R, unitq (fst X) -> unitq (fst Y) -> matrix4 RxSO3_act4 (RxSO3_mul X Y) = mm4 (matrix4 RxSO3_act4 X) (matrix4 RxSO3_act4 Y)) /\
  (forall X Y : se3R, valid_SE3 X -> valid_SE3 Y -> matrix4 SE3_act4 (SE3_mul X Y) = mm4 (matrix4 SE3_act4 X) (matrix4 SE3_act4 Y)) /\
  (forall X Y : sim3R, unitq (fst (snd X)) -> unitq (fst (snd Y)) -> matrix4 Sim3_act4 (Sim3_mul X Y) = mm4 (matrix4 Sim3_act4 X) (matrix4 Sim3_act4 Y)).
Proof. split; [exact SO3_matrix_mul | split; [exact RxSO3_matrix4_mul | split; [exact SE3_matrix_mul | exact Sim3_matrix_mul]]]. Qed.

Theorem C03_act_of_product :
  (forall (X Y : quatR) p, unitq X -> unitq Y -> SO3_act (SO3_mul X Y) p = SO3_act X (SO3_act Y p)) /\
  (forall (X Y : se3R) p, valid_SE3 X -> valid_SE3 Y -> SE3_act (SE3_mul X Y) p = SE3_act X (SE3_act Y p)) /\
  (forall (X Y : rxso3R) p, unitq (fst X) -> unitq (fst Y) -> RxSO3_act (RxSO3_mul X Y) p = RxSO3_act X (RxSO3_act Y p)) /\
  (forall (X Y : sim3R) p, unitq (fst (snd X)) -> unitq (fst (snd Y)) -> Sim3_act (Sim3_mul X Y) p = Sim3_act X (Sim3_act Y p)).
Proof. split; [exact SO3_act_mul | split; [exact SE3_act_mul | split; [exact RxSO3_act_mul | exact Sim3_act_mul]]]. Qed.

(* the SO3_Matrix / SO3_Adj closed form used by the autograd code equals matrix() on unit quaternions *)
Theorem C03_SO3_Adj_is_matrix : forall X : quatR, unitq X -> SO3_Adj X = SO3_matrix X.
Proof. exact SO3_Adj_is_matrix. Qed.

(* --- validity (unit quaternion, positive scale) after ANY sequence of products and inverses *)
Theorem C03_valid_history_SO3 : forall ops X, valid_SO3 X ->
  Forall (valid_op quatR valid_SO3) ops -> valid_SO3 (fold_left (hstep quatR SO3_mul SO3_inv) ops X).
Proof. exact history_SO3. Qed.
Theorem C03_valid_history_SE3 : forall ops X, valid_SE3 X ->
  Forall (valid_op se3R valid_SE3) ops -> valid_SE3 (fold_left (hstep se3R SE3_mul SE3_inv) ops X).
Proof. exact history_SE3. Qed.
Theorem C03_valid_history_RxSO3 : forall ops X, valid_RxSO3 X ->
  Forall (valid_op rxso3R valid_RxSO3) ops -> valid_RxSO3 (fold_left (hstep rxso3R RxSO3_mul RxSO3_inv) ops X).
Proof. exact history_RxSO3. Qed.
Theorem C03_valid_history_Sim3 : forall ops X, valid_Sim3 X ->
  Forall (valid_op sim3R valid_Sim3) ops -> valid_Sim3 (fold_left (hstep sim3R Sim3_mul Sim3_inv) ops X).
Proof. exact history_Sim3. Qed.
(* drift law: |q|^2 after a history = |q0|^2 times the product of the factors' |.|^2 *)
Theorem C03_norm_drift : forall ops (X : quatR),
  qnorm2 (fold_left (hstep quatR SO3_mul SO3_inv) ops X) = qnorm2 X * norm_prod ops.
Proof. exact qnorm2_history. Qed.

Print Assumptions C03_SO3_assoc. Print Assumptions C03_SE3_assoc. Print Assumptions C03_Sim3_assoc.
Print Assumptions C03_SO3_inverse. Print Assumptions C03_SE3_inverse. Print Assumptions C03_RxSO3_inverse.
Print Assumptions C03_Sim3_inverse. Print Assumptions C03_identity_neutral. Print Assumptions C03_matrix_blocks.
Print Assumptions C03_act_is_matrix. Print Assumptions C03_matrix_homomorphism. Print Assumptions C03_act_of_product.
Print Assumptions C03_SO3_Adj_is_matrix. Print Assumptions C03_valid_history_Sim3. Print Assumptions C03_norm_drift.
