(* C03 — group product, inverse, identity and point action obey the group laws; matrix() is a
   homomorphism with the documented blocks; validity is preserved over any history.
   Statements only (over R); proofs in Proofs/LieGroup.v, LieGroup2.v (homogeneous action of products,
   identity / inverse under matrix(), accessor blocks and identity constructors on tensor rows),
   LieGroup3.v (histories with Retr / add_ / +: exact validity and the drift bound in exact arithmetic),
   LieGroup4.v (round-off under the standard model of floating-point arithmetic). *)
From Coq Require Import Reals List.
Import ListNotations.
From PV Require Import Base.Num Model.LieGroup Model.LieExp Model.LieLog Model.LieJac Model.LieTangent
  Proofs.LieGroup Proofs.LieExp Proofs.LieGroup2 Proofs.LieGroup3 Proofs.LieGroup4.
Local Open Scope R_scope.
#[local] Remove Hints NumQ NumZ : typeclass_instances.

(* --- associativity *)
Theorem C03_SO3_assoc : forall X Y Z : quatR, SO3_mul (SO3_mul X Y) Z = SO3_mul X (SO3_mul Y Z).
Proof. exact SO3_mul_assoc. Qed.
Theorem C03_SE3_assoc : forall X Y Z : se3R, valid_SE3 X -> valid_SE3 Y ->
  SE3_mul (SE3_mul X Y) Z = SE3_mul X (SE3_mul Y Z).
Proof. exact SE3_mul_assoc. Qed.
Theorem C03_RxSO3_assoc : forall X Y Z : rxso3R, RxSO3_mul (RxSO3_mul X Y) Z = RxSO3_mul X (RxSO3_mul Y Z).
Proof. exact RxSO3_mul_assoc. Qed.
Theorem C03_Sim3_assoc : forall X Y Z : sim3R, unitq (fst (snd X)) -> unitq (fst (snd Y)) ->
  Sim3_mul (Sim3_mul X Y) Z = Sim3_mul X (Sim3_mul Y Z).
Proof. exact Sim3_mul_assoc. Qed.

(* --- two-sided inverse *)
Theorem C03_SO3_inverse : forall X : quatR, unitq X ->
  SO3_mul X (SO3_inv X) = SO3_id /\ SO3_mul (SO3_inv X) X = SO3_id.
Proof. intros X H; split; [exact (SO3_inv_r X H) | exact (SO3_inv_l X H)]. Qed.
Theorem C03_SE3_inverse : forall X : se3R, valid_SE3 X ->
  SE3_mul X (SE3_inv X) = SE3_id /\ SE3_mul (SE3_inv X) X = SE3_id.
Proof. intros X H; split; [exact (SE3_inv_r X H) | exact (SE3_inv_l X H)]. Qed.
Theorem C03_RxSO3_inverse : forall X : rxso3R, unitq (fst X) -> snd X <> 0 ->
  RxSO3_mul X (RxSO3_inv X) = RxSO3_id /\ RxSO3_mul (RxSO3_inv X) X = RxSO3_id.
Proof. intros X H Hs; split; [exact (RxSO3_inv_r X H Hs) | exact (RxSO3_inv_l X H Hs)]. Qed.
Theorem C03_Sim3_inverse : forall X : sim3R, unitq (fst (snd X)) -> snd (snd X) <> 0 ->
  Sim3_mul X (Sim3_inv X) = Sim3_id /\ Sim3_mul (Sim3_inv X) X = Sim3_id.
Proof. intros X H Hs; split; [exact (Sim3_inv_r X H Hs) | exact (Sim3_inv_l X H Hs)]. Qed.

(* --- identity is neutral (no hypotheses) *)
Theorem C03_identity_neutral :
  (forall X : quatR, SO3_mul SO3_id X = X /\ SO3_mul X SO3_id = X) /\
  (forall X : se3R, SE3_mul SE3_id X = X /\ SE3_mul X SE3_id = X) /\
  (forall X : rxso3R, RxSO3_mul RxSO3_id X = X /\ RxSO3_mul X RxSO3_id = X) /\
  (forall X : sim3R, Sim3_mul Sim3_id X = X /\ Sim3_mul X Sim3_id = X).
Proof.
  split; [intros X; split; [apply SO3_id_l | apply SO3_id_r]|].
  split; [intros X; split; [apply SE3_id_l | apply SE3_id_r]|].
  split; [intros X; split; [apply RxSO3_id_l | apply RxSO3_id_r]|].
  intros X; split; [apply Sim3_id_l | apply Sim3_id_r].
Qed.

(* --- matrix(): documented blocks, equals the action, homomorphism *)
Theorem C03_matrix_blocks :
  (forall X : se3R, matrix4 SE3_act4 X = block4 (SO3_matrix (snd X)) (fst X)) /\
  (forall X : sim3R, matrix4 Sim3_act4 X = block4 (mscale3 (snd (snd X)) (SO3_matrix (fst (snd X)))) (fst X)) /\
  (forall X : rxso3R, matrix4 RxSO3_act4 X = block4 (mscale3 (snd X) (SO3_matrix (fst X))) vzero).
Proof. split; [exact SE3_matrix_blocks | split; [exact Sim3_matrix_blocks | exact RxSO3_matrix4_blocks]]. Qed.

Theorem C03_act_is_matrix :
  (forall (X : quatR) p, SO3_act X p = mvmul (SO3_matrix X) p) /\
  (forall (X : rxso3R) p, RxSO3_act X p = mvmul (RxSO3_matrix X) p) /\
  (forall (X : se3R) p, SE3_act4 X p = mv4 (matrix4 SE3_act4 X) p) /\
  (forall (X : sim3R) p, Sim3_act4 X p = mv4 (matrix4 Sim3_act4 X) p) /\
  (forall (X : quatR) p, SO3_act4 X p = (mvmul (SO3_matrix X) (fst p), snd p)) /\
  (forall (X : rxso3R) p, RxSO3_act4 X p = mv4 (matrix4 RxSO3_act4 X) p) /\
  (forall (X : se3R) p, (SE3_act X p, 1) = SE3_act4 X (p, 1)) /\
  (forall (X : sim3R) p, (Sim3_act X p, 1) = Sim3_act4 X (p, 1)).
Proof. split; [exact SO3_act_is_matrix | split; [exact RxSO3_act_is_matrix | split; [exact SE3_act4_is_matrix | split; [exact Sim3_act4_is_matrix | split; [exact SO3_act4_is_matrix | split; [exact RxSO3_act4_is_matrix4 | split; [exact SE3_act_is_act4 | exact Sim3_act_is_act4]]]]]]]. Qed.

Theorem C03_matrix_homomorphism :
  (forall X Y : quatR, unitq X -> unitq Y -> SO3_matrix (SO3_mul X Y) = mmul3 (SO3_matrix X) (SO3_matrix Y)) /\
  (forall X Y : rxso3R, unitq (fst X) -> unitq (fst Y) -> matrix4 RxSO3_act4 (RxSO3_mul X Y) = mm4 (matrix4 RxSO3_act4 X) (matrix4 RxSO3_act4 Y)) /\
  (forall X Y : se3R, valid_SE3 X -> valid_SE3 Y -> matrix4 SE3_act4 (SE3_mul X Y) = mm4 (matrix4 SE3_act4 X) (matrix4 SE3_act4 Y)) /\
  (forall X Y : sim3R, unitq (fst (snd X)) -> unitq (fst (snd Y)) -> matrix4 Sim3_act4 (Sim3_mul X Y) = mm4 (matrix4 Sim3_act4 X) (matrix4 Sim3_act4 Y)).
Proof. split; [exact SO3_matrix_mul | split; [exact RxSO3_matrix4_mul | split; [exact SE3_matrix_mul | exact Sim3_matrix_mul]]]. Qed.

Theorem C03_act_of_product :
  (forall (X Y : quatR) p, unitq X -> unitq Y -> SO3_act (SO3_mul X Y) p = SO3_act X (SO3_act Y p)) /\
  (forall (X Y : se3R) p, valid_SE3 X -> valid_SE3 Y -> SE3_act (SE3_mul X Y) p = SE3_act X (SE3_act Y p)) /\
  (forall (X Y : rxso3R) p, unitq (fst X) -> unitq (fst Y) -> RxSO3_act (RxSO3_mul X Y) p = RxSO3_act X (RxSO3_act Y p)) /\
  (forall (X Y : sim3R) p, unitq (fst (snd X)) -> unitq (fst (snd Y)) -> Sim3_act (Sim3_mul X Y) p = Sim3_act X (Sim3_act Y p)).
Proof. split; [exact SO3_act_mul | split; [exact SE3_act_mul | split; [exact RxSO3_act_mul | exact Sim3_act_mul]]]. Qed.

(* the SO3_Matrix / SO3_Adj closed form used by the autograd code equals matrix() on unit quaternions *)
Theorem C03_SO3_Adj_is_matrix : forall X : quatR, unitq X -> SO3_Adj X = SO3_matrix X.
Proof. exact SO3_Adj_is_matrix. Qed.

(* --- validity (unit quaternion, positive scale) after ANY sequence of products and inverses *)
Theorem C03_valid_history_SO3 : forall ops X, valid_SO3 X ->
  Forall (valid_op quatR valid_SO3) ops -> valid_SO3 (fold_left (hstep quatR SO3_mul SO3_inv) ops X).
Proof. exact history_SO3. Qed.
Theorem C03_valid_history_SE3 : forall ops X, valid_SE3 X ->
  Forall (valid_op se3R valid_SE3) ops -> valid_SE3 (fold_left (hstep se3R SE3_mul SE3_inv) ops X).
Proof. exact history_SE3. Qed.
Theorem C03_valid_history_RxSO3 : forall ops X, valid_RxSO3 X ->
  Forall (valid_op rxso3R valid_RxSO3) ops -> valid_RxSO3 (fold_left (hstep rxso3R RxSO3_mul RxSO3_inv) ops X).
Proof. exact history_RxSO3. Qed.
Theorem C03_valid_history_Sim3 : forall ops X, valid_Sim3 X ->
  Forall (valid_op sim3R valid_Sim3) ops -> valid_Sim3 (fold_left (hstep sim3R Sim3_mul Sim3_inv) ops X).
Proof. exact history_Sim3. Qed.
(* drift law: |q|^2 after a history = |q0|^2 times the product of the factors' |.|^2 *)
Theorem C03_norm_drift : forall ops (X : quatR),
  qnorm2 (fold_left (hstep quatR SO3_mul SO3_inv) ops X) = qnorm2 X * norm_prod ops.
Proof. exact qnorm2_history. Qed.


(* ================= strengthening round (Proofs/LieGroup2.v, LieGroup3.v) ================= *)

(* --- (X@Y).Act(p) = X.Act(Y.Act(p)) on homogeneous 4-vectors, EVERY weight w (points w = 1, directions w = 0,
   any other w) *)
Theorem C03_act4_of_product :
  (forall (X Y : quatR) (p : vec4R), unitq X -> unitq Y -> SO3_act4 (SO3_mul X Y) p = SO3_act4 X (SO3_act4 Y p)) /\
  (forall (X Y : se3R) (p : vec4R), valid_SE3 X -> valid_SE3 Y -> SE3_act4 (SE3_mul X Y) p = SE3_act4 X (SE3_act4 Y p)) /\
  (forall (X Y : rxso3R) (p : vec4R), unitq (fst X) -> unitq (fst Y) -> RxSO3_act4 (RxSO3_mul X Y) p = RxSO3_act4 X (RxSO3_act4 Y p)) /\
  (forall (X Y : sim3R) (p : vec4R), unitq (fst (snd X)) -> unitq (fst (snd Y)) -> Sim3_act4 (Sim3_mul X Y) p = Sim3_act4 X (Sim3_act4 Y p)).
Proof. split; [exact SO3_act4_mul | split; [exact SE3_act4_mul | split; [exact RxSO3_act4_mul | exact Sim3_act4_mul]]]. Qed.

(* Act on 3-vectors is the 4x4 matrix() applied to (p, 1) (RxSO3: any w); a direction (w = 0) is not translated;
   for a general weight the translation enters w times *)
Theorem C03_act3_is_matrix4 :
  (forall (X : se3R) (p : vec3R), (SE3_act X p, 1) = mv4 (matrix4 SE3_act4 X) (p, 1)) /\
  (forall (X : sim3R) (p : vec3R), (Sim3_act X p, 1) = mv4 (matrix4 Sim3_act4 X) (p, 1)) /\
  (forall (X : rxso3R) (p : vec3R) (w : R), (RxSO3_act X p, w) = mv4 (matrix4 RxSO3_act4 X) (p, w)) /\
  (forall (X : se3R) (d : vec3R), SE3_act4 X (d, 0) = (SO3_act (snd X) d, 0)) /\
  (forall (X : sim3R) (d : vec3R), Sim3_act4 X (d, 0) = (RxSO3_act (snd X) d, 0)) /\
  (forall (X : se3R) (p : vec3R) (w : R), SE3_act4 X (p, w) = (vadd (SO3_act (snd X) p) (vscale w (fst X)), w)) /\
  (forall (X : sim3R) (p : vec3R) (w : R), Sim3_act4 X (p, w) = (vadd (RxSO3_act (snd X) p) (vscale w (fst X)), w)).
Proof.
  split; [exact SE3_act_is_matrix4 | split; [exact Sim3_act_is_matrix4 | split; [exact RxSO3_act_is_matrix4 |
  split; [exact SE3_act4_direction | split; [exact Sim3_act4_direction | split; [exact SE3_act4_weight | exact Sim3_act4_weight]]]]]].
Qed.

(* --- the homomorphism maps the identity to the unit matrix and Inv to the inverse matrix *)
Theorem C03_matrix_of_identity :
  SO3_matrix SO3_id = mid3 /\ matrix4 SE3_act4 SE3_id = block4 mid3 vzero /\
  matrix4 RxSO3_act4 RxSO3_id = block4 mid3 vzero /\ matrix4 Sim3_act4 Sim3_id = block4 mid3 vzero.
Proof. split; [exact SO3_matrix_id | split; [exact SE3_matrix_id | split; [exact RxSO3_matrix_id | exact Sim3_matrix_id]]]. Qed.
Theorem C03_matrix_of_inverse :
  (forall X : quatR, SO3_matrix (SO3_inv X) = mtrans (SO3_matrix X)) /\
  (forall X : se3R, valid_SE3 X ->
     mm4 (matrix4 SE3_act4 X) (matrix4 SE3_act4 (SE3_inv X)) = block4 mid3 vzero /\
     mm4 (matrix4 SE3_act4 (SE3_inv X)) (matrix4 SE3_act4 X) = block4 mid3 vzero) /\
  (forall X : rxso3R, valid_RxSO3 X ->
     mm4 (matrix4 RxSO3_act4 X) (matrix4 RxSO3_act4 (RxSO3_inv X)) = block4 mid3 vzero /\
     mm4 (matrix4 RxSO3_act4 (RxSO3_inv X)) (matrix4 RxSO3_act4 X) = block4 mid3 vzero) /\
  (forall X : sim3R, valid_Sim3 X ->
     mm4 (matrix4 Sim3_act4 X) (matrix4 Sim3_act4 (Sim3_inv X)) = block4 mid3 vzero /\
     mm4 (matrix4 Sim3_act4 (Sim3_inv X)) (matrix4 Sim3_act4 X) = block4 mid3 vzero).
Proof. split; [exact SO3_matrix_inv | split; [exact SE3_matrix_inv | split; [exact RxSO3_matrix_inv | exact Sim3_matrix_inv]]]. Qed.
(* the rotation block of a valid element is a rotation matrix: R R^T = R^T R = I, det R = 1 *)
Theorem C03_rotation_block_is_rotation : forall X : quatR, unitq X ->
  mmul3 (SO3_matrix X) (mtrans (SO3_matrix X)) = mid3 /\ mmul3 (mtrans (SO3_matrix X)) (SO3_matrix X) = mid3 /\
  mdet3 (SO3_matrix X) = 1.
Proof. intros X H. split; [exact (SO3_matrix_orth X H) | split; [exact (SO3_matrix_orth' X H) | exact (SO3_matrix_det X H)]]. Qed.

(* --- Inv undoes Act on 3- and 4-vectors; Inv is an involution and reverses products *)
Theorem C03_inverse_undoes_action :
  (forall (X : quatR) p, unitq X -> SO3_act (SO3_inv X) (SO3_act X p) = p /\ SO3_act X (SO3_act (SO3_inv X) p) = p) /\
  (forall (X : se3R) p, valid_SE3 X -> SE3_act (SE3_inv X) (SE3_act X p) = p /\ SE3_act X (SE3_act (SE3_inv X) p) = p) /\
  (forall (X : sim3R) p, valid_Sim3 X -> Sim3_act (Sim3_inv X) (Sim3_act X p) = p /\ Sim3_act X (Sim3_act (Sim3_inv X) p) = p) /\
  (forall (X : se3R) (p : vec4R), valid_SE3 X -> SE3_act4 (SE3_inv X) (SE3_act4 X p) = p /\ SE3_act4 X (SE3_act4 (SE3_inv X) p) = p) /\
  (forall (X : sim3R) (p : vec4R), valid_Sim3 X -> Sim3_act4 (Sim3_inv X) (Sim3_act4 X p) = p /\ Sim3_act4 X (Sim3_act4 (Sim3_inv X) p) = p).
Proof.
  split; [intros X p H; split; [exact (SO3_act_inv X p H) | exact (SO3_act_inv' X p H)]|].
  split; [exact SE3_act_inv | split; [exact Sim3_act_inv | split; [exact SE3_act4_inv | exact Sim3_act4_inv]]].
Qed.
Theorem C03_inverse_of_product :
  (forall X Y : quatR, SO3_inv (SO3_mul X Y) = SO3_mul (SO3_inv Y) (SO3_inv X)) /\
  (forall X Y : se3R, valid_SE3 X -> valid_SE3 Y -> SE3_inv (SE3_mul X Y) = SE3_mul (SE3_inv Y) (SE3_inv X)) /\
  (forall X Y : rxso3R, snd X <> 0 -> snd Y <> 0 -> RxSO3_inv (RxSO3_mul X Y) = RxSO3_mul (RxSO3_inv Y) (RxSO3_inv X)) /\
  (forall X Y : sim3R, valid_Sim3 X -> valid_Sim3 Y -> Sim3_inv (Sim3_mul X Y) = Sim3_mul (Sim3_inv Y) (Sim3_inv X)) /\
  (forall X : quatR, SO3_inv (SO3_inv X) = X) /\ (forall X : se3R, valid_SE3 X -> SE3_inv (SE3_inv X) = X) /\
  (forall X : rxso3R, snd X <> 0 -> RxSO3_inv (RxSO3_inv X) = X) /\ (forall X : sim3R, valid_Sim3 X -> Sim3_inv (Sim3_inv X) = X).
Proof.
  split; [exact SO3_inv_mul | split; [exact SE3_inv_mul | split; [exact RxSO3_inv_mul | split; [exact Sim3_inv_mul |
  split; [exact SO3_inv_inv | split; [exact SE3_inv_inv | split; [exact RxSO3_inv_inv | exact Sim3_inv_inv]]]]]]].
Qed.

(* --- the unit-quaternion hypothesis of the product laws cannot be dropped: for the non-unit quaternion
   ((1,0,0),1) the library's Act formula is not multiplicative and SE3 products are not associative *)
Theorem C03_product_laws_need_unit_quaternion :
  (exists (X Y : quatR) p, SO3_act (SO3_mul X Y) p <> SO3_act X (SO3_act Y p)) /\
  (exists X Y Z : se3R, SE3_mul (SE3_mul X Y) Z <> SE3_mul X (SE3_mul Y Z)).
Proof.
  split; [exists q_nonunit, q_nonunit, (0, 1, 0); exact act_mul_needs_unit |
          exists (vzero, q_nonunit), (vzero, q_nonunit), ((0, 1, 0), SO3_id); exact SE3_assoc_needs_unit].
Qed.

(* --- tensor-row level (what the API returns), all four groups g = 0 SO3, 1 SE3, 2 RxSO3, 3 Sim3:
   matrix() is exactly the documented block matrix [[s R(rotation()), translation()],[0, 1]] (3x3 R for SO3)
   built from what rotation(), translation(), scale() return; shapes and layout of the accessors *)
Theorem C03_matrix_blocks_are_the_accessors : forall (g : nat) (x : list R), (g < 4)%nat -> length x = gdim g ->
  g_matrix g x =
    match g with
    | 0%nat => m3_l (SO3_matrix (l_q (g_rotation g x)))
    | _ => m4_l (block4 (mscale3 (nth 0 (g_scale g x) 0) (SO3_matrix (l_q (g_rotation g x)))) (l_v3 (g_translation g x)))
    end.
Proof. exact matrix_accessor_blocks. Qed.
Theorem C03_accessor_layout : forall (g : nat) (x : list R), (g < 4)%nat -> length x = gdim g ->
  length (g_rotation g x) = 4%nat /\ length (g_translation g x) = 3%nat /\ length (g_scale g x) = 1%nat /\
  x = (match g with 1%nat | 3%nat => g_translation g x | _ => [] end) ++ g_rotation g x ++
      (match g with 2%nat | 3%nat => g_scale g x | _ => [] end).
Proof. exact accessor_layout. Qed.
(* identity constructors (identity, identity_like, identity_ all produce this row): the rows, and neutrality for
   product, inverse, matrix and both actions on rows *)
Theorem C03_identity_rows :
  g_id (F:=R) 0 = [0; 0; 0; 1] /\ g_id (F:=R) 1 = [0; 0; 0; 0; 0; 0; 1] /\ g_id (F:=R) 2 = [0; 0; 0; 1; 1] /\
  g_id (F:=R) 3 = [0; 0; 0; 0; 0; 0; 1; 1].
Proof. exact identity_rows. Qed.
Theorem C03_identity_rows_neutral : forall (g : nat) (x : list R), (g < 4)%nat -> length x = gdim g ->
  g_mul g (g_id g) x = x /\ g_mul g x (g_id g) = x /\ g_inv g (g_id g) = g_id g /\
  g_matrix g (g_id g) = doc_matrix g [0; 0; 0; 1] [0; 0; 0] [1] /\
  (forall p, length p = 3%nat -> g_act g (g_id g) p = p) /\
  (forall p, length p = 4%nat -> g_act4 g (g_id g) p = p).
Proof. exact identity_neutral_rows. Qed.

(* --- histories that mix @ (both sides), Inv and Retr / add_ / + (X := Exp(a) @ X), ANY length.
   [eps] is the dtype's machine epsilon (so3_Exp switches to its Taylor branch for |phi| <= eps).
   (1) exact validity when every retraction increment is on the closed-form branch (eps < |phi|) *)
Theorem C03_valid_retr_history_SO3 : forall (eps : R) ops X, 0 <= eps -> valid_SO3 X ->
  Forall (valid_rop quatR vec3R (fun q => q) ptrue) ops -> Forall (closed_rop quatR vec3R (fun a => a) eps) ops ->
  valid_SO3 (fold_left (rstep quatR vec3R SO3_mul SO3_inv (so3_exp eps)) ops X).
Proof. exact so3_valid_rhistory. Qed.
Theorem C03_valid_retr_history_SE3 : forall (eps : R) ops X, 0 <= eps -> valid_SE3 X ->
  Forall (valid_rop se3R (vec3R * vec3R) snd ptrue) ops -> Forall (closed_rop se3R (vec3R * vec3R) snd eps) ops ->
  valid_SE3 (fold_left (rstep se3R (vec3R * vec3R) SE3_mul SE3_inv (se3_exp eps)) ops X).
Proof. exact se3_valid_rhistory. Qed.
Theorem C03_valid_retr_history_RxSO3 : forall (eps : R) ops X, 0 <= eps -> valid_RxSO3 X ->
  Forall (valid_rop rxso3R (vec3R * R) fst pos_RxSO3) ops -> Forall (closed_rop rxso3R (vec3R * R) fst eps) ops ->
  valid_RxSO3 (fold_left (rstep rxso3R (vec3R * R) RxSO3_mul RxSO3_inv (rxso3_exp eps)) ops X).
Proof. exact rxso3_valid_rhistory. Qed.
Theorem C03_valid_retr_history_Sim3 : forall (eps : R) ops X, 0 <= eps -> valid_Sim3 X ->
  Forall (valid_rop sim3R (vec3R * (vec3R * R)) (fun X => fst (snd X)) pos_Sim3) ops ->
  Forall (closed_rop sim3R (vec3R * (vec3R * R)) (fun a => fst (snd a)) eps) ops ->
  valid_Sim3 (fold_left (rstep sim3R (vec3R * (vec3R * R)) Sim3_mul Sim3_inv (sim3_exp eps)) ops X).
Proof. exact sim3_valid_rhistory. Qed.
(* (2) the scale stays positive after every history, whatever the increments *)
Theorem C03_positive_scale_retr_history :
  (forall (eps : R) ops (X : rxso3R), 0 < snd X -> Forall (valid_rop rxso3R (vec3R * R) fst pos_RxSO3) ops ->
     0 < snd (fold_left (rstep rxso3R (vec3R * R) RxSO3_mul RxSO3_inv (rxso3_exp eps)) ops X)) /\
  (forall (eps : R) ops (X : sim3R), 0 < snd (snd X) ->
     Forall (valid_rop sim3R (vec3R * (vec3R * R)) (fun X => fst (snd X)) pos_Sim3) ops ->
     0 < snd (snd (fold_left (rstep sim3R (vec3R * (vec3R * R)) Sim3_mul Sim3_inv (sim3_exp eps)) ops X))).
Proof. split; [exact rxso3_pos_rhistory | exact sim3_pos_rhistory]. Qed.
(* (3) drift of the unit-norm invariant in exact arithmetic, whatever the increments: starting within e0 of unit
   norm, after any history | |q|^2 - 1 | <= (1 + e0) (1 + eps^6/20000)^k - 1 with k the number of retractions
   whose increment is on the Taylor branch (C01: closed-form branch exact, Taylor branch within theta^6/20000) *)
Theorem C03_drift_retr_history_SO3 : forall (eps : R) ops (X : quatR) (e0 : R), 0 <= eps <= 1 / 1024 -> 0 <= e0 ->
  Rabs (qnorm2 X - 1) <= e0 -> Forall (valid_rop quatR vec3R (fun q => q) ptrue) ops ->
  Rabs (qnorm2 (fold_left (rstep quatR vec3R SO3_mul SO3_inv (so3_exp eps)) ops X) - 1)
    <= (1 + e0) * (1 + eps ^ 6 / 20000) ^ count_small quatR vec3R (fun a => a) eps ops - 1.
Proof. exact so3_drift_rhistory. Qed.
Theorem C03_drift_retr_history_SE3 : forall (eps : R) ops (X : se3R) (e0 : R), 0 <= eps <= 1 / 1024 -> 0 <= e0 ->
  Rabs (qnorm2 (snd X) - 1) <= e0 -> Forall (valid_rop se3R (vec3R * vec3R) snd ptrue) ops ->
  Rabs (qnorm2 (snd (fold_left (rstep se3R (vec3R * vec3R) SE3_mul SE3_inv (se3_exp eps)) ops X)) - 1)
    <= (1 + e0) * (1 + eps ^ 6 / 20000) ^ count_small se3R (vec3R * vec3R) snd eps ops - 1.
Proof. exact se3_drift_rhistory. Qed.
Theorem C03_drift_retr_history_RxSO3 : forall (eps : R) ops (X : rxso3R) (e0 : R), 0 <= eps <= 1 / 1024 -> 0 <= e0 ->
  Rabs (qnorm2 (fst X) - 1) <= e0 -> Forall (valid_rop rxso3R (vec3R * R) fst pos_RxSO3) ops ->
  Rabs (qnorm2 (fst (fold_left (rstep rxso3R (vec3R * R) RxSO3_mul RxSO3_inv (rxso3_exp eps)) ops X)) - 1)
    <= (1 + e0) * (1 + eps ^ 6 / 20000) ^ count_small rxso3R (vec3R * R) fst eps ops - 1.
Proof. exact rxso3_drift_rhistory. Qed.
Theorem C03_drift_retr_history_Sim3 : forall (eps : R) ops (X : sim3R) (e0 : R), 0 <= eps <= 1 / 1024 -> 0 <= e0 ->
  Rabs (qnorm2 (fst (snd X)) - 1) <= e0 ->
  Forall (valid_rop sim3R (vec3R * (vec3R * R)) (fun X => fst (snd X)) pos_Sim3) ops ->
  Rabs (qnorm2 (fst (snd (fold_left (rstep sim3R (vec3R * (vec3R * R)) Sim3_mul Sim3_inv (sim3_exp eps)) ops X))) - 1)
    <= (1 + e0) * (1 + eps ^ 6 / 20000) ^ count_small sim3R (vec3R * (vec3R * R)) (fun a => fst (snd a)) eps ops - 1.
Proof. exact sim3_drift_rhistory. Qed.
(* (3') linear form from a valid start: | |q_n|^2 - 1 | <= k eps^6 / 10000 <= n eps^6 / 10000 for every history
   of length n with n eps^6 <= 10000 (n <= 10^4 and far beyond, both dtypes) *)
Theorem C03_drift_retr_history_linear :
  (forall (eps : R) ops (X : quatR), 0 <= eps <= 1 / 1024 -> valid_SO3 X ->
     Forall (valid_rop quatR vec3R (fun q => q) ptrue) ops -> INR (length ops) * eps ^ 6 <= 10000 ->
     Rabs (qnorm2 (fold_left (rstep quatR vec3R SO3_mul SO3_inv (so3_exp eps)) ops X) - 1)
       <= INR (count_small quatR vec3R (fun a => a) eps ops) * eps ^ 6 / 10000) /\
  (forall (eps : R) ops (X : se3R), 0 <= eps <= 1 / 1024 -> valid_SE3 X ->
     Forall (valid_rop se3R (vec3R * vec3R) snd ptrue) ops -> INR (length ops) * eps ^ 6 <= 10000 ->
     Rabs (qnorm2 (snd (fold_left (rstep se3R (vec3R * vec3R) SE3_mul SE3_inv (se3_exp eps)) ops X)) - 1)
       <= INR (count_small se3R (vec3R * vec3R) snd eps ops) * eps ^ 6 / 10000) /\
  (forall (eps : R) ops (X : rxso3R), 0 <= eps <= 1 / 1024 -> valid_RxSO3 X ->
     Forall (valid_rop rxso3R (vec3R * R) fst pos_RxSO3) ops -> INR (length ops) * eps ^ 6 <= 10000 ->
     Rabs (qnorm2 (fst (fold_left (rstep rxso3R (vec3R * R) RxSO3_mul RxSO3_inv (rxso3_exp eps)) ops X)) - 1)
       <= INR (count_small rxso3R (vec3R * R) fst eps ops) * eps ^ 6 / 10000) /\
  (forall (eps : R) ops (X : sim3R), 0 <= eps <= 1 / 1024 -> valid_Sim3 X ->
     Forall (valid_rop sim3R (vec3R * (vec3R * R)) (fun X => fst (snd X)) pos_Sim3) ops ->
     INR (length ops) * eps ^ 6 <= 10000 ->
     Rabs (qnorm2 (fst (snd (fold_left (rstep sim3R (vec3R * (vec3R * R)) Sim3_mul Sim3_inv (sim3_exp eps)) ops X))) - 1)
       <= INR (count_small sim3R (vec3R * (vec3R * R)) (fun a => fst (snd a)) eps ops) * eps ^ 6 / 10000).
Proof.
  split; [exact so3_drift_rhistory_linear | split; [exact se3_drift_rhistory_linear |
  split; [exact rxso3_drift_rhistory_linear | exact sim3_drift_rhistory_linear]]].
Qed.
(* the number of Taylor-branch retractions is at most the length; it is 0 when all increments are closed-form *)
Theorem C03_count_small_bounds : forall (eps : R) (ops : list (rop sim3R (vec3R * (vec3R * R)))),
  (count_small sim3R (vec3R * (vec3R * R)) (fun a => fst (snd a)) eps ops <= length ops)%nat /\
  (Forall (closed_rop sim3R (vec3R * (vec3R * R)) (fun a => fst (snd a)) eps) ops ->
   count_small sim3R (vec3R * (vec3R * R)) (fun a => fst (snd a)) eps ops = 0%nat).
Proof.
  intros eps ops. split; [apply count_small_le_length | apply count_small_closed].
Qed.
(* the RRetr step of these histories IS the modelled Retr(X, a) / X.add_(a ++ tail) / X + (a ++ tail)
   (Model/LieTangent.v, the functions tied to the code), components beyond the algebra dimension ignored *)
Theorem C03_retr_step_is_the_modelled_Retr : forall (eps : R) (X : sim3R) (a : vec3R * (vec3R * R)) (tail : list R),
  retr_l eps 3 (Sim3_l X) (sim3_alg_l a) =
    Sim3_l (rstep sim3R (vec3R * (vec3R * R)) Sim3_mul Sim3_inv (sim3_exp eps) X (RRetr _ _ a)) /\
  add_group_l eps 3 (Sim3_l X) (sim3_alg_l a ++ tail) =
    Sim3_l (rstep sim3R (vec3R * (vec3R * R)) Sim3_mul Sim3_inv (sim3_exp eps) X (RRetr _ _ a)).
Proof. exact retr_rows_Sim3. Qed.
(* non-vacuity: a valid Sim3 element and a history using every kind of update (closed-form, small-angle and
   zero increments) satisfy the hypotheses; two of its retractions are on the Taylor branch *)
Theorem C03_retr_history_hypotheses_satisfiable :
  valid_Sim3 ex_X /\ Forall (valid_rop sim3R (vec3R * (vec3R * R)) (fun X => fst (snd X)) pos_Sim3) ex_ops /\
  count_small sim3R (vec3R * (vec3R * R)) (fun a => fst (snd a)) (1 / 1024) ex_ops = 2%nat /\
  Forall (valid_rop sim3R (vec3R * (vec3R * R)) (fun X => fst (snd X)) pos_Sim3) ex_ops_closed /\
  Forall (closed_rop sim3R (vec3R * (vec3R * R)) (fun a => fst (snd a)) (1 / 1024)) ex_ops_closed.
Proof.
  split; [exact ex_X_valid | split; [exact ex_ops_valid | split; [exact ex_ops_small | exact ex_ops_closed_ok]]].
Qed.


(* --- "up to accumulated round-off" under the standard model of floating-point arithmetic.
   [SO3_mul_fl d X Y] (Proofs/LieGroup4.v) is the Hamilton product evaluated in the order of SO3_Mul.forward
   (Zv = Xw*Yv + Xv*Yw + cross(Xv,Yv), Zw = Xw*Yw - sum(Xv*Yv)) where the result of the k-th of its 28 arithmetic
   operations is multiplied by (1 + d k); with d = 0 it is the model's product.  For ANY errors |d k| <= u
   (any rounding mode, fused multiply-add included) the squared norm of the computed product is within the
   relative error 4g + 4g^2, g = (1+u)^4 - 1, of |X|^2 |Y|^2 - about 16 u, at most 17 u for u <= 2^-10.
   It is a statement about this arithmetic model, not about the tied model: IEEE rounding itself stays tie-only. *)
Theorem C03_rounded_product_is_exact_without_errors : forall X Y : quatR, SO3_mul_fl (fun _ => 0) X Y = SO3_mul X Y.
Proof. exact SO3_mul_fl_exact. Qed.
Theorem C03_rounded_product_norm : forall (u : R) (d : nat -> R) (X Y : quatR), 0 <= u -> (forall k, Rabs (d k) <= u) ->
  Rabs (qnorm2 (SO3_mul_fl d X Y) - qnorm2 X * qnorm2 Y)
    <= (4 * ((1 + u) ^ 4 - 1) + 4 * (((1 + u) ^ 4 - 1) * ((1 + u) ^ 4 - 1))) * (qnorm2 X * qnorm2 Y).
Proof. exact SO3_mul_fl_norm. Qed.
(* histories of n rounded products (either side, fresh errors in every product) and exact inverses, factors within
   e of unit norm, start within e0:  | |q_n|^2 - 1 | <= (1+e0) ((1+e)(1+c))^n - 1,  c = 4g + 4g^2 <= 17 u *)
Theorem C03_rounded_history_drift : forall (u e : R), 0 <= u -> 0 <= e -> forall (ops : list fop) (X : quatR) (e0 : R),
  0 <= e0 -> Rabs (qnorm2 X - 1) <= e0 -> Forall (fop_ok u e) ops ->
  Rabs (qnorm2 (fold_left fstep ops X) - 1) <= (1 + e0) * ((1 + e) * (1 + cc u)) ^ count_mul ops - 1.
Proof. exact fl_history_drift. Qed.
Theorem C03_rounding_constant_small : forall u : R, 0 <= u <= 1 / 1024 ->
  cc u = 4 * ((1 + u) ^ 4 - 1) + 4 * (((1 + u) ^ 4 - 1) * ((1 + u) ^ 4 - 1)) /\ cc u <= 17 * u.
Proof. intros u Hu. split; [reflexivity | exact (cc_small u Hu)]. Qed.
Theorem C03_rounded_history_hypotheses_satisfiable : forall u e : R, 0 <= u -> 0 <= e ->
  Forall (fop_ok u e) [FMulL ((3/5, 0, 0), 4/5) (fun _ => 0); FInv; FMulR ((0, 1, 0), 0) (fun k => if Nat.even k then u else - u)].
Proof. exact fop_ok_example. Qed.

Print Assumptions C03_SO3_assoc. Print Assumptions C03_SE3_assoc. Print Assumptions C03_Sim3_assoc.
Print Assumptions C03_SO3_inverse. Print Assumptions C03_SE3_inverse. Print Assumptions C03_RxSO3_inverse.
Print Assumptions C03_Sim3_inverse. Print Assumptions C03_identity_neutral. Print Assumptions C03_matrix_blocks.
Print Assumptions C03_act_is_matrix. Print Assumptions C03_matrix_homomorphism. Print Assumptions C03_act_of_product.
Print Assumptions C03_SO3_Adj_is_matrix. Print Assumptions C03_valid_history_Sim3. Print Assumptions C03_norm_drift.
Print Assumptions C03_act4_of_product. Print Assumptions C03_act3_is_matrix4. Print Assumptions C03_matrix_of_identity.
Print Assumptions C03_matrix_of_inverse. Print Assumptions C03_rotation_block_is_rotation. Print Assumptions C03_inverse_undoes_action.
Print Assumptions C03_inverse_of_product. Print Assumptions C03_product_laws_need_unit_quaternion.
Print Assumptions C03_matrix_blocks_are_the_accessors. Print Assumptions C03_accessor_layout. Print Assumptions C03_identity_rows.
Print Assumptions C03_identity_rows_neutral. Print Assumptions C03_valid_retr_history_SO3. Print Assumptions C03_valid_retr_history_SE3.
Print Assumptions C03_valid_retr_history_RxSO3. Print Assumptions C03_valid_retr_history_Sim3. Print Assumptions C03_positive_scale_retr_history.
Print Assumptions C03_drift_retr_history_SO3. Print Assumptions C03_drift_retr_history_SE3. Print Assumptions C03_drift_retr_history_RxSO3.
Print Assumptions C03_drift_retr_history_Sim3. Print Assumptions C03_drift_retr_history_linear. Print Assumptions C03_count_small_bounds.
Print Assumptions C03_retr_step_is_the_modelled_Retr. Print Assumptions C03_retr_history_hypotheses_satisfiable.
Print Assumptions C03_rounded_product_is_exact_without_errors. Print Assumptions C03_rounded_product_norm.
Print Assumptions C03_rounded_history_drift. Print Assumptions C03_rounding_constant_small.
Print Assumptions C03_rounded_history_hypotheses_satisfiable.
