(* C15 — dynamics follow their equations; the NLS linearisation is exact at the reference point.
   Statements only; proofs in Proofs/Dynamics.v, Proofs/Dynamics2.v (histories of any shape, reference
   point after several set_refpoint, Jacobian entries), Proofs/Dynamics3.v (explicit, direction-uniform
   second-order constant); model in Model/Dynamics.v. *)
From Coq Require Import Reals ZArith List Bool.
From Coquelicot Require Import Coquelicot.
Import ListNotations.
From PV Require Import Base.Num Model.Dynamics Proofs.Dynamics Proofs.Dynamics2 Proofs.Dynamics3.
#[local] Remove Hints NumQ NumZ : typeclass_instances.

(* ---------------------------------------------------------------- the time counter
   For every kind of system, every start time and EVERY history of operations (calls, direct calls of
   forward / state_transition / observation / property reads, reset(t), systime = t, set_refpoint):
   either nothing assigned the time and it is the start time plus the number of calls, or it is the
   value of the last assignment plus the number of calls made since.  (assigns: reset, systime
   assignment, and LTV.set_refpoint(t) with t given.) *)
Theorem C15_time_after_ops : forall (k : kind) (t0 : Z) (ops : list op),
  (no_assign k ops /\ run_time k t0 ops = (t0 + count_calls ops)%Z) \/
  (exists pre a v post, ops = pre ++ a :: post /\ assigns k a = Some v /\ no_assign k post /\
                        run_time k t0 ops = (v + count_calls post)%Z).
Proof. exact time_after_ops. Qed.

(* the LTV and NLS objects (with states, inputs, reference points) carry exactly this counter *)
Theorem C15_ltv_time_is_counter : forall (s : ltv (F:=R)) (ops : list (lop (F:=R))) (t : Z) (x : list R),
  fst (ltv_run s (t, x) ops) = run_time KLTV t (map lop_erase ops).
Proof. intros s. exact (ltv_run_time s). Qed.
Theorem C15_nls_time_is_counter : forall (fs gs : list (fexpr (F:=R))) (ops : list (nop (F:=R))) (st : nst (F:=R)),
  n_t (nls_run fs gs st ops) = run_time KNLS (n_t st) (map nop_erase ops).
Proof. exact nls_run_time. Qed.

(* no modelled operation raises; in particular LTV.set_refpoint() with the documented default
   t=None ("the most recent timestamp is taken") keeps the time *)
Theorem C15_ops_do_not_raise : forall (k : kind) (t : Z) (o : op), exists t', step_time k t o = Some t'.
Proof. exact step_time_total. Qed.
Theorem C15_ltv_setref_default_keeps_time : forall t : Z, step_time KLTV t (SetRef None) = Some t.
Proof. exact ltv_setref_default_keeps_time. Qed.
(* history (before /repo 6b6eb73): it raised *)
Theorem C15_ltv_setref_default_old_refuted : exists t : Z, step_time_old KLTV t (SetRef None) = None.
Proof. exists 0%Z. exact (ltv_setref_default_old_raises 0%Z). Qed.

(* ---------------------------------------------------------------- LTI / LTV equations
   every component of the next state / observation, any dimensions, with or without c1, c2 *)
Theorem C15_lti_equations : forall (s : lti (F:=R)) (x u : list R), lti_wf s ->
  (forall i, (i < length (sA s))%nat ->
     nth i (lti_next s x u) 0%R = (dot (nth i (sA s) []) x + dot (nth i (sB s) []) u
                                + match sc1 s with Some c => nth i c 0 | None => 0 end)%R) /\
  (forall i, (i < length (sC s))%nat ->
     nth i (lti_obs s x u) 0%R = (dot (nth i (sC s) []) x + dot (nth i (sD s) []) u
                               + match sc2 s with Some c => nth i c 0 | None => 0 end)%R).
Proof. exact lti_equations. Qed.
(* LTV: the k-th of any number of consecutive calls from time t0 applies the matrices of time
   t0 + k (index (t0 + k) mod T) to the previous state; the calls end at time t0 + (number of calls) *)
Theorem C15_ltv_equations : forall (s : ltv (F:=R)) (us : list (list R)) (t0 : Z) (x0 : list R) (k : nat),
  (k < length us)%nat ->
  nth k (ltv_traj s t0 x0 us) [] =
    lti_next (ltv_at s (t0 + Z.of_nat k)%Z)
             (match k with O => x0 | S k' => nth k' (ltv_traj s t0 x0 us) [] end) (nth k us []).
Proof. exact ltv_traj_step. Qed.
Theorem C15_ltv_calls : forall (s : ltv (F:=R)) (us : list (list R)) (t0 : Z) (x0 : list R),
  ltv_run s (t0, x0) (map (@LCall R) us) =
    ((t0 + Z.of_nat (length us))%Z, List.last (ltv_traj s t0 x0 us) x0).
Proof. exact ltv_run_calls. Qed.
(* bvmv computes the bilinear form l^T (M r); bvv the outer product *)
Theorem C15_bvmv_bilinear : forall (l : list R) (M : list (list R)) (r : list R),
  Forall (fun row => length row = length r) M -> length l = length M ->
  bvmv_m l M r = dot l (mv M r).
Proof. exact bvmv_bilinear. Qed.
Theorem C15_bvv_outer : forall (l r : list R) (i j : nat),
  nth j (nth i (bvv_m l r) []) 0%R = (nth i l 0 * nth j r 0)%R.
Proof. exact nth_bvv. Qed.

(* ---------------------------------------------------------------- the symbolic derivative is the derivative
   for every expression (induction on the tree), every point, every component: as a function of the
   i-th state (j-th input) component alone, e has derivative eval (deriv e x_i) *)
Theorem C15_deriv_correct_x : forall (e : fexpr (F:=R)) (x u : list R) (t : R) (i : nat), (i < length x)%nat ->
  forall s, is_derive (fun s => eval e (upd x i s) u t) s (eval (deriv e (VX i)) (upd x i s) u t).
Proof. exact deriv_correct_x. Qed.
Theorem C15_deriv_correct_x_at : forall (e : fexpr (F:=R)) (x u : list R) (t : R) (i : nat), (i < length x)%nat ->
  is_derive (fun s => eval e (upd x i s) u t) (nth i x 0%R) (eval (deriv e (VX i)) x u t).
Proof. exact deriv_correct_x_at. Qed.
Theorem C15_deriv_correct_u : forall (e : fexpr (F:=R)) (x u : list R) (t : R) (j : nat), (j < length u)%nat ->
  forall s, is_derive (fun s => eval e x (upd u j s) t) s (eval (deriv e (VU j)) x (upd u j s) t).
Proof. exact deriv_correct_u. Qed.
(* chain rule along any line (x + s dx, u + s du): derivative = A-row . dx + B-row . du *)
Theorem C15_deriv_along_line : forall (e : fexpr (F:=R)) (x u dx du : list R) (t : R),
  length dx = length x -> length du = length u ->
  forall s, is_derive (fun s => eval e (xl x dx s) (xl u du s) t) s
                      (dot (grad e (xvars x) (xl x dx s) (xl u du s) t) dx +
                       dot (grad e (uvars u) (xl x dx s) (xl u du s) t) du)%R.
Proof.
  intros e x u dx du t Hx Hu s. rewrite grad_xvars, grad_uvars, <- Hx, <- Hu.
  exact (is_derive_line e x u dx du t Hx Hu s).
Qed.

(* ---------------------------------------------------------------- the linearisation
   A xr + B ur + c1 = f(xr, ur, tr)   and   C xr + D ur + c2 = g(xr, ur, tr)   at the reference point (xr, ur, tr), any f, g, dimensions *)
Theorem C15_nls_affine_reproduces : forall (fs gs : list (fexpr (F:=R))) (x u : list R) (t : R),
  affine_model fs x u t x u = evals fs x u t /\ affine_model gs x u t x u = evals gs x u t.
Proof. intros. split; apply nls_affine_reproduces. Qed.

(* along every line through the reference point, every component of the affine model's error is at
   most M s^2 / 2, M any bound of the second directional derivative between the two points ... *)
Theorem C15_nls_second_order : forall (fs : list (fexpr (F:=R))) (x u : list R) (t : R) (dx du : list R) (s M : R) (i : nat),
  (i < length fs)%nat -> length dx = length x -> length du = length u ->
  (forall r, Rmin 0 s <= r <= Rmax 0 s -> Rabs (d2 (nth i fs ET) (xl x dx r) (xl u du r) dx du t) <= M)%R ->
  (Rabs (nth i (evals fs (xl x dx s) (xl u du s) t) 0 - nth i (affine_model fs x u t (xl x dx s) (xl u du s)) 0)
    <= M * s ^ 2 / 2)%R.
Proof. exact nls_second_order. Qed.
(* ... and such a bound exists on every bounded part of the line: the error is O(s^2) *)
Theorem C15_nls_second_order_exists : forall (fs : list (fexpr (F:=R))) (x u : list R) (t : R) (dx du : list R) (rho : R) (i : nat),
  (i < length fs)%nat -> length dx = length x -> length du = length u -> (0 <= rho)%R ->
  exists M, (0 <= M)%R /\ forall s, (Rabs s <= rho)%R ->
    (Rabs (nth i (evals fs (xl x dx s) (xl u du s) t) 0 - nth i (affine_model fs x u t (xl x dx s) (xl u du s)) 0)
      <= M * s ^ 2 / 2)%R.
Proof. exact nls_second_order_exists. Qed.
(* the hypotheses are satisfiable with an explicit constant: f = sin x0, M = 1 *)
Example C15_second_order_example : forall x s : R,
  (Rabs (nth 0 (evals [ESin (EX 0)] (xl [x] [1] s) (xl [] [] s) 0) 0
         - nth 0 (affine_model [ESin (EX 0)] [x] [] 0 (xl [x] [1] s) (xl [] [] s)) 0) <= 1 * s ^ 2 / 2)%R.
Proof. exact second_order_example. Qed.

(* ---------------------------------------------------------------- the NLS object and its bookkeeping
   after set_refpoint(x, u, t) - state / input given or taken from the last call, t given or, by
   default, the time at that moment - for EVERY later history without another set_refpoint (calls,
   resets, time assignments, direct calls, reads), reading A, B, C, D, c1, c2 gives the linearisation
   at (x, u, t): Jacobians of f and g there, c1, c2 from the values there *)
Theorem C15_nls_read_after_setref : forall (fs gs : list (fexpr (F:=R))) (st : nst (F:=R)) ox ou (ot : option R) x u ops,
  ref_arg ox (option_map fst (n_last st)) = Some x ->
  ref_arg ou (option_map snd (n_last st)) = Some u ->
  no_setref ops ->
  let st2 := nls_run fs gs (nls_step' fs gs st (NSetRef ox ou ot)) ops in
  nls_step fs gs st2 NRead = Some (st2, nls_lin_l fs gs x u (ref_time st ot)).
Proof. exact nls_read_fixed. Qed.
(* history (before /repo 6b6eb73): with t=None `_ref_t` was the live time buffer, so a later call moved
   the point at which the Jacobians were taken while c1, c2 still used the old f, g values.
   Witness: f = t * x0, set_refpoint([1],[0]) at time 1, one call, A read [[2]], Jacobian is [[1]]. *)
Theorem C15_nls_default_t_old_refuted :
  exists (fs gs : list (fexpr (F:=R))) (st : nst (F:=R)) (x u : list R) (ops : list (nop (F:=R))),
    no_setref ops /\
    let st2 := nls_run_old fs gs (nls_step'_old fs gs st (NSetRef (Some x) (Some u) None)) ops in
    exists out, nls_step_old fs gs st2 NRead = Some (st2, out) /\
                out <> nls_lin_l fs gs x u (IZR (n_t st)).
Proof. exact nls_default_t_old_refuted. Qed.

(* ================================================================== second part (Proofs/Dynamics2.v, Proofs/Dynamics3.v)

   ---------------------------------------------------------------- per-operation clauses and the trace
   a call advances the time by exactly one; reset / systime assignment set it; direct calls and reads
   keep it; set_refpoint assigns it only on LTV with t given - for every kind of system *)
Theorem C15_step_clauses : forall (k : kind) (t v : Z) (ot : option Z),
  step_time k t Call = Some (t + 1)%Z /\ step_time k t Direct = Some t /\
  step_time k t (Reset v) = Some v /\ step_time k t (SetTime v) = Some v /\
  step_time k t (SetRef ot) = Some (match k, ot with KLTV, Some w => w | _, _ => t end).
Proof.
  intros. split; [apply step_call|]. split; [apply step_direct|]. split; [apply step_reset|].
  split; [apply step_settime|apply step_setref].
Qed.
(* entry n of the time trace (what the tie compares with the real object after every operation) is the
   time after the first n+1 operations - to which C15_time_after_ops applies - and nothing raised *)
Theorem C15_time_trace_entry : forall (k : kind) (ops : list op) (t : Z) (n : nat) (d : Z * bool),
  (n < length ops)%nat -> nth n (time_trace k t ops) d = (run_time k t (firstn (S n) ops), false).
Proof. exact time_trace_nth. Qed.

(* ---------------------------------------------------------------- LTV / LTI: histories of ANY shape
   a call made after ANY operations [pre] (calls, direct calls, resets, time assignments, set_refpoint)
   applies the matrices of the time reached by [pre] (by C15_time_after_ops: last assigned value +
   calls since) to the state reached by [pre], ends at that time + 1 and returns next state ++
   observation; whatever follows ([post]) does not matter for this entry of the trace *)
Theorem C15_ltv_history_call : forall (s : ltv (F:=R)) (t0 : Z) (x0 : list R) (pre : list (lop (F:=R)))
    (u : list R) (post : list (lop (F:=R))) (d : Z * bool * list R),
  let t := run_time KLTV t0 (map lop_erase pre) in
  let x := snd (ltv_run s (t0, x0) pre) in
  let m := ltv_at s t in
  ltv_run s (t0, x0) (pre ++ [LCall u]) = ((t + 1)%Z, lti_next m x u) /\
  nth (length pre) (ltv_trace s (t0, x0) (pre ++ LCall u :: post)) d =
    ((t + 1)%Z, false, lti_next m x u ++ lti_obs m x u).
Proof. exact ltv_history_call. Qed.
(* forward / state_transition / observation called directly: same matrices, time and state untouched *)
Theorem C15_ltv_history_direct : forall (s : ltv (F:=R)) (t0 : Z) (x0 : list R) (pre : list (lop (F:=R)))
    (u : list R) (post : list (lop (F:=R))) (d : Z * bool * list R),
  let t := run_time KLTV t0 (map lop_erase pre) in
  let x := snd (ltv_run s (t0, x0) pre) in
  let m := ltv_at s t in
  ltv_run s (t0, x0) (pre ++ [LDirect u]) = (t, x) /\
  nth (length pre) (ltv_trace s (t0, x0) (pre ++ LDirect u :: post)) d =
    (t, false, lti_next m x u ++ lti_obs m x u).
Proof. exact ltv_history_direct. Qed.
(* the state a call is applied to is the result of the most recent call (or the initial state): resets,
   time assignments, set_refpoint and direct calls never change it *)
Theorem C15_ltv_state_is_last_call : forall (s : ltv (F:=R)) (t0 : Z) (x0 : list R) (ops : list (lop (F:=R))),
  ((forall o, In o ops -> lop_is_call o = false) /\ snd (ltv_run s (t0, x0) ops) = x0) \/
  (exists pre u post, ops = pre ++ LCall u :: post /\ (forall o, In o post -> lop_is_call o = false) /\
     snd (ltv_run s (t0, x0) ops) =
       lti_next (ltv_at s (run_time KLTV t0 (map lop_erase pre))) (snd (ltv_run s (t0, x0) pre)) u).
Proof. exact ltv_state_is_last_call. Qed.
(* the matrices depend on the time modulo the period only; period 1 = LTI: in every history every
   call applies the same A, B, C, D, c1, c2 *)
Theorem C15_ltv_periodic : forall (s : ltv (F:=R)) (t k : Z),
  ltv_at s (t + k * vT s)%Z = ltv_at s t /\ ltv_at s (t mod vT s)%Z = ltv_at s t.
Proof. intros. split; [apply ltv_at_periodic|apply ltv_at_mod]. Qed.
Theorem C15_lti_history_call : forall (s : ltv (F:=R)) (t0 : Z) (x0 : list R) (pre : list (lop (F:=R)))
    (u : list R) (post : list (lop (F:=R))) (d : Z * bool * list R),
  vT s = 1%Z ->
  let x := snd (ltv_run s (t0, x0) pre) in
  let m := ltv_at s 0 in
  nth (length pre) (ltv_trace s (t0, x0) (pre ++ LCall u :: post)) d =
    ((run_time KLTV t0 (map lop_erase pre) + 1)%Z, false, lti_next m x u ++ lti_obs m x u).
Proof. exact lti_history_call. Qed.
(* guard against the totalised [nth]: with a positive period and T stacked matrices (what the docstring's
   subclass needs for `_A[..., _t % T, :, :]` not to raise) the selected index is always in range, for
   negative times too (torch remainder = Z.modulo: -t selects T - t); so no theorem above reads a default
   matrix on such a system.  Periods T <= 0 are outside the model (torch raises / indexes from the end). *)
Theorem C15_ltv_index_in_range : forall (s : ltv (F:=R)) (t : Z), ltv_wf s ->
  let i := tidx (vT s) t in
  (i < length (vA s))%nat /\ (i < length (vB s))%nat /\ (i < length (vC s))%nat /\ (i < length (vD s))%nat /\
  (forall c, vc1 s = Some c -> (i < length c)%nat) /\ (forall c, vc2 s = Some c -> (i < length c)%nat).
Proof. exact ltv_wf_index. Qed.
Theorem C15_ltv_negative_time : forall T t : Z, (0 < T)%Z -> (0 < t <= T)%Z -> tidx T (- t) = Z.to_nat (T - t).
Proof. exact tidx_negative. Qed.
Example C15_ltv_wf_example :
  ltv_wf {| vT := 2; vA := [[[1]]; [[2]]]; vB := [[[1]]; [[0]]]; vC := [[[1]]; [[1]]]; vD := [[[0]]; [[0]]];
            vc1 := Some [[1]; [0]]; vc2 := None |}%R.
Proof. exact ltv_wf_example. Qed.
(* shapes (guard against the truncating vadd): next state has one entry per row of A, the observation
   one per row of C; lti_wf is satisfiable *)
Theorem C15_lti_shapes : forall (s : lti (F:=R)) (x u : list R), lti_wf s ->
  length (lti_next s x u) = length (sA s) /\ length (lti_obs s x u) = length (sC s).
Proof. exact lti_shapes. Qed.
(* [dot] (a row of bmv) is the finite sum of products when the lengths agree - the shape the real code
   insists on; on other shapes the model's dot truncates where torch raises *)
Theorem C15_dot_is_sum : forall (a b : list R), length a = length b ->
  dot a b = fold_right Rplus 0%R (map (fun p => (fst p * snd p)%R) (combine a b)).
Proof. exact dot_as_sum. Qed.
Example C15_lti_wf_example :
  lti_wf {| sA := [[1; 2]; [0; 1]]; sB := [[1]; [0]]; sC := [[1; 0]]; sD := [[0]]; sc1 := Some [1; 1]; sc2 := None |}%R.
Proof. exact lti_wf_example. Qed.

(* ---------------------------------------------------------------- NLS: histories of ANY shape
   system(x, u) after ANY operations [pre] returns f and g evaluated at (x, u, time reached by pre),
   ends at that time + 1 and remembers (x, u) as the most recent state / input *)
Theorem C15_nls_history_call : forall (fs gs : list (fexpr (F:=R))) (st : nst (F:=R)) (pre : list (nop (F:=R)))
    (x u : list R) (post : list (nop (F:=R))) (d : Z * bool * list R),
  let t := run_time KNLS (n_t st) (map nop_erase pre) in
  nth (length pre) (nls_trace fs gs st (pre ++ NCall x u :: post)) d =
    ((t + 1)%Z, false, evals fs x u (IZR t) ++ evals gs x u (IZR t)) /\
  n_last (nls_run fs gs st (pre ++ [NCall x u])) = Some (x, u) /\
  n_t (nls_run fs gs st (pre ++ [NCall x u])) = (t + 1)%Z.
Proof. exact nls_history_call. Qed.
(* every entry of the trace the tie compares is the step taken from the state reached by the prefix *)
Theorem C15_nls_trace_entry : forall (fs gs : list (fexpr (F:=R))) (pre : list (nop (F:=R))) (st : nst (F:=R))
    (o : nop (F:=R)) (post : list (nop (F:=R))) (d : Z * bool * list R),
  nth (length pre) (nls_trace fs gs st (pre ++ o :: post)) d =
    match nls_step fs gs (nls_run fs gs st pre) o with
    | Some (st', out) => (n_t st', false, out)
    | None => (n_t (nls_run fs gs st pre), true, [])
    end.
Proof. exact nls_trace_nth. Qed.

(* "the most recent state / input" that set_refpoint() defaults to: those of the last call of the
   history, whatever resets, time assignments, reads, direct calls or set_refpoint came after it *)
Theorem C15_nls_last_is_last_call : forall (fs gs : list (fexpr (F:=R))) (st : nst (F:=R)) (ops : list (nop (F:=R))),
  ((forall o, In o ops -> nop_is_call o = false) /\ n_last (nls_run fs gs st ops) = n_last st) \/
  (exists pre x u post, ops = pre ++ NCall x u :: post /\ (forall o, In o post -> nop_is_call o = false) /\
     n_last (nls_run fs gs st ops) = Some (x, u)).
Proof. exact nls_last_is_last_call. Qed.

(* invariant of EVERY history from a fresh system - any number of set_refpoint, raising ones included:
   a read of A, B, C, D, c1, c2 that does not raise changes nothing and returns the linearisation at ONE
   stored point (x, u, tr): Jacobians and offsets never belong to different points or times *)
Theorem C15_nls_read_always_consistent : forall (fs gs : list (fexpr (F:=R))) (t0 : Z) (ops : list (nop (F:=R))),
  let st := nls_run fs gs (nst_init t0) ops in
  forall st' out, nls_step fs gs st NRead = Some (st', out) ->
    st' = st /\ exists x u tr, n_ref st = Some {| r_x := x; r_u := u; r_t := TFixed tr;
                                                  r_f := evals fs x u tr; r_g := evals gs x u tr |} /\
                               out = nls_lin_l fs gs x u tr.
Proof. exact nls_read_always_consistent. Qed.
(* when the operations raise: a read iff no set_refpoint has succeeded; set_refpoint iff the state or
   the input is left to default and no call was made yet *)
Theorem C15_nls_raises_iff : forall (fs gs : list (fexpr (F:=R))) (st : nst (F:=R)) ox ou (ot : option R),
  (nls_step fs gs st NRead = None <-> n_ref st = None) /\
  (nls_step fs gs st (NSetRef ox ou ot) = None <-> ((ox = None \/ ou = None) /\ n_last st = None)).
Proof. intros. split; [apply nls_read_raises_iff|apply nls_setref_raises_iff]. Qed.
(* set_refpoint(x, u, t) that does not raise, then ANY history in which no later set_refpoint succeeds
   ([quiet]: raising ones may occur): the read is the linearisation at (x, u, t).  Generalises
   C15_nls_read_after_setref (no_setref implies quiet) *)
Theorem C15_nls_read_last_setref : forall (fs gs : list (fexpr (F:=R))) (st : nst (F:=R)) ox ou (ot : option R) x u post,
  ref_arg ox (option_map fst (n_last st)) = Some x ->
  ref_arg ou (option_map snd (n_last st)) = Some u ->
  let st1 := nls_step' fs gs st (NSetRef ox ou ot) in
  quiet fs gs st1 post ->
  let st2 := nls_run fs gs st1 post in
  nls_step fs gs st2 NRead = Some (st2, nls_lin_l fs gs x u (ref_time st ot)).
Proof. exact nls_read_last_setref. Qed.
Theorem C15_no_setref_quiet : forall (fs gs : list (fexpr (F:=R))) post st, no_setref post -> quiet fs gs st post.
Proof. exact no_setref_quiet. Qed.
(* ... and EVERY history from a fresh system has one of the two shapes: either no set_refpoint has
   succeeded and the read raises, or there is a last one that succeeded and the read is the
   linearisation at its point - state / input given or those of the most recent call before it, t*
   given or the system time when it ran (= last assigned value + calls since, C15_time_after_ops) *)
Theorem C15_nls_read_any_history : forall (fs gs : list (fexpr (F:=R))) (t0 : Z) (ops : list (nop (F:=R))),
  let st2 := nls_run fs gs (nst_init t0) ops in
  (quiet fs gs (nst_init t0) ops /\ nls_step fs gs st2 NRead = None) \/
  (exists pre ox ou ot post x u,
     ops = pre ++ NSetRef ox ou ot :: post /\
     let stp := nls_run fs gs (nst_init t0) pre in
     ref_arg ox (option_map fst (n_last stp)) = Some x /\
     ref_arg ou (option_map snd (n_last stp)) = Some u /\
     quiet fs gs (nls_step' fs gs stp (NSetRef ox ou ot)) post /\
     nls_step fs gs st2 NRead =
       Some (st2, nls_lin_l fs gs x u
                    (match ot with Some v => v
                                 | None => IZR (run_time KNLS t0 (map nop_erase pre)) end))).
Proof. exact nls_read_any_history. Qed.
(* non-vacuity: reference taken from the last call, then reset, call, time assignment, read; and a
   raising set_refpoint in the tail is possible *)
Example C15_nls_read_example :
  let fs := [EMul ET (ESin (EX 0))] in let gs := [EAdd (EX 0) (EU 0)] in
  let ops := [NCall [1] [2]; NSetRef None None None; NReset 7; NCall [3] [4]; NSetTime 0; NRead]%R in
  let st2 := nls_run fs gs (nst_init 5) ops in
  nls_step fs gs st2 NRead = Some (st2, nls_lin_l fs gs [1] [2] 6)%R /\ n_t st2 = 0%Z.
Proof. exact nls_read_example. Qed.
Example C15_quiet_example :
  let fs := [EX 0] in let gs := [EX 0] in
  quiet fs gs (nls_step' fs gs (nst_init 0) (NSetRef (Some [1]) (Some [2]) None)) [NSetRef None None (Some 3)]%R.
Proof. exact quiet_example. Qed.

(* ---------------------------------------------------------------- A, B, C, D ARE the partial Jacobians
   what a read returns: A, B, C, D row-major (C, D: the same functions of the observation gs), c1, c2 *)
Theorem C15_nls_read_layout : forall (fs gs : list (fexpr (F:=R))) (x u : list R) (t : R),
  nls_lin_l fs gs x u t =
    concat (nls_A fs x u t) ++ concat (nls_B fs x u t) ++ concat (nls_A gs x u t) ++ concat (nls_B gs x u t) ++
    nls_c (evals fs x u t) (nls_A fs x u t) (nls_B fs x u t) x u ++
    nls_c (evals gs x u t) (nls_A gs x u t) (nls_B gs x u t) x u.
Proof. exact nls_lin_l_unfold. Qed.
(* shapes: one row per component of f (g), one column per state (input) component *)
Theorem C15_nls_shapes : forall (fs : list (fexpr (F:=R))) (x u : list R) (t : R),
  (length (nls_A fs x u t) = length fs /\
   forall i, (i < length fs)%nat -> length (nth i (nls_A fs x u t) []) = length x) /\
  (length (nls_B fs x u t) = length fs /\
   forall i, (i < length fs)%nat -> length (nth i (nls_B fs x u t) []) = length u).
Proof. intros. split; [apply nls_A_shape|apply nls_B_shape]. Qed.
(* entry (i, j) of A (of C, taking gs for fs) is the derivative of component i of f (g) as a function
   of the j-th state component alone, at the reference point; entry (i, j) of B (D) likewise for the
   j-th input component - every tree, every point, every dimension *)
Theorem C15_nls_A_is_jacobian : forall (fs : list (fexpr (F:=R))) (x u : list R) (t : R) (i j : nat),
  (i < length fs)%nat -> (j < length x)%nat ->
  is_derive (fun s => nth i (evals fs (upd x j s) u t) 0%R) (nth j x 0%R) (nth j (nth i (nls_A fs x u t) []) 0%R).
Proof. exact nls_A_is_jacobian. Qed.
Theorem C15_nls_B_is_jacobian : forall (fs : list (fexpr (F:=R))) (x u : list R) (t : R) (i j : nat),
  (i < length fs)%nat -> (j < length u)%nat ->
  is_derive (fun s => nth i (evals fs x (upd u j s) t) 0%R) (nth j u 0%R) (nth j (nth i (nls_B fs x u t) []) 0%R).
Proof. exact nls_B_is_jacobian. Qed.

(* ---------------------------------------------------------------- second order in the DISTANCE
   one constant for all directions, computed from the tree (B0, B1, B2 of Proofs/Dynamics3.v bound the
   value, the gradient and the Hessian on the box of radius boxr x u rho = |x|_1 + |u|_1 + rho): at every
   point (x + dx, u + du) within l1-distance rho of the reference point, every component of
   A (x+dx) + B (u+du) + c1 differs from f(x+dx, u+du, t) by at most B2 * distance^2 / 2 *)
Theorem C15_nls_second_order_uniform : forall (fs : list (fexpr (F:=R))) (x u : list R) (t rho : R) (i : nat) (dx du : list R),
  (i < length fs)%nat -> (0 <= rho)%R ->
  length dx = length x -> length du = length u -> (norm1 dx + norm1 du <= rho)%R ->
  (Rabs (nth i (evals fs (vadd x dx) (vadd u du) t) 0 - nth i (affine_model fs x u t (vadd x dx) (vadd u du)) 0)
    <= B2 (nth i fs ET) (boxr x u rho) t * (norm1 dx + norm1 du) ^ 2 / 2)%R.
Proof. exact nls_second_order_uniform. Qed.
(* hence A, B are the Frechet derivative of f at the reference point (remainder o(distance)) *)
Theorem C15_nls_frechet : forall (fs : list (fexpr (F:=R))) (x u : list R) (t : R) (i : nat), (i < length fs)%nat ->
  forall eps, (0 < eps)%R -> exists delta, (0 < delta)%R /\
    forall dx du, length dx = length x -> length du = length u -> (norm1 dx + norm1 du <= delta)%R ->
      (Rabs (nth i (evals fs (vadd x dx) (vadd u du) t) 0 - nth i (affine_model fs x u t (vadd x dx) (vadd u du)) 0)
        <= eps * (norm1 dx + norm1 du))%R.
Proof. exact nls_frechet. Qed.
(* first order: f itself moves by at most B1 * distance, and every entry of the Jacobian at the
   displaced point differs from the entry of A (B) read at the reference point by at most B2 * distance *)
Theorem C15_nls_first_order_uniform : forall (fs : list (fexpr (F:=R))) (x u : list R) (t rho : R) (i : nat) (dx du : list R),
  (i < length fs)%nat -> (0 <= rho)%R ->
  length dx = length x -> length du = length u -> (norm1 dx + norm1 du <= rho)%R ->
  (Rabs (nth i (evals fs (vadd x dx) (vadd u du) t) 0 - nth i (evals fs x u t) 0)
    <= B1 (nth i fs ET) (boxr x u rho) t * (norm1 dx + norm1 du))%R.
Proof. exact nls_first_order_uniform. Qed.
Theorem C15_nls_jacobian_drift : forall (e : fexpr (F:=R)) (x u : list R) (t rho : R) (dx du : list R),
  (0 <= rho)%R -> length dx = length x -> length du = length u -> (norm1 dx + norm1 du <= rho)%R ->
  (forall j, (j < length x)%nat ->
     (Rabs (eval (deriv e (VX j)) (vadd x dx) (vadd u du) t - eval (deriv e (VX j)) x u t)
       <= B2 e (boxr x u rho) t * (norm1 dx + norm1 du))%R) /\
  (forall j, (j < length u)%nat ->
     (Rabs (eval (deriv e (VU j)) (vadd x dx) (vadd u du) t - eval (deriv e (VU j)) x u t)
       <= B2 e (boxr x u rho) t * (norm1 dx + norm1 du))%R).
Proof.
  intros e x u t rho dx du Hr HLx HLu HN. split; intros j Hj.
  - now apply nls_jacobian_drift_x.
  - now apply nls_jacobian_drift_u.
Qed.
(* the hypothesis of C15_nls_second_order (a bound M of the second directional derivative on the
   segment) always holds with the explicit M = B2 * distance^2: that theorem is never vacuous *)
Theorem C15_d2_bound_explicit : forall (e : fexpr (F:=R)) (x u : list R) (t rho : R) (dx du : list R),
  (0 <= rho)%R -> length dx = length x -> length du = length u -> (norm1 dx + norm1 du <= rho)%R ->
  forall r, (Rmin 0 1 <= r <= Rmax 0 1)%R ->
    (Rabs (d2 e (xl x dx r) (xl u du r) dx du t) <= B2 e (boxr x u rho) t * (norm1 dx + norm1 du) ^ 2)%R.
Proof. exact d2_bound_explicit. Qed.
(* when the constant vanishes (f affine in (x, u), coefficients may depend on t) the linearisation is
   exact at every point *)
Theorem C15_nls_affine_exact : forall (fs : list (fexpr (F:=R))) (x u : list R) (t : R) (i : nat) (dx du : list R),
  (i < length fs)%nat -> length dx = length x -> length du = length u ->
  B2 (nth i fs ET) (boxr x u (norm1 dx + norm1 du)) t = 0%R ->
  nth i (evals fs (vadd x dx) (vadd u du) t) 0%R = nth i (affine_model fs x u t (vadd x dx) (vadd u du)) 0%R.
Proof. exact nls_affine_exact. Qed.
(* the constant at work: f = x0 * sin(u0) at x = [2], u = [0], radius 1: B2 = 5; and f = 3 x0 + t u0: exact *)
Example C15_second_order_uniform_example : forall dx du : R, (Rabs dx + 0 + (Rabs du + 0) <= 1)%R ->
  (Rabs ((2 + dx) * sin (0 + du) - nth 0 (affine_model [EMul (EX 0) (ESin (EU 0))] [2] [0] 0 [2 + dx] [0 + du]) 0)
    <= 5 * (Rabs dx + 0 + (Rabs du + 0)) ^ 2 / 2)%R.
Proof. exact second_order_uniform_example. Qed.
Example C15_affine_exact_example : forall x0 u0 t dx du : R,
  nth 0 (evals [EAdd (EMul (EConst 3) (EX 0)) (EMul ET (EU 0))] [x0 + dx] [u0 + du] t) 0 =
  nth 0 (affine_model [EAdd (EMul (EConst 3) (EX 0)) (EMul ET (EU 0))] [x0] [u0] t [x0 + dx] [u0 + du]) 0.
Proof. exact affine_exact_example. Qed.

Print Assumptions C15_time_after_ops. Print Assumptions C15_ltv_time_is_counter.
Print Assumptions C15_nls_time_is_counter. Print Assumptions C15_ops_do_not_raise.
Print Assumptions C15_ltv_setref_default_keeps_time. Print Assumptions C15_ltv_setref_default_old_refuted.
Print Assumptions C15_lti_equations. Print Assumptions C15_ltv_equations. Print Assumptions C15_ltv_calls.
Print Assumptions C15_bvmv_bilinear. Print Assumptions C15_bvv_outer.
Print Assumptions C15_deriv_correct_x. Print Assumptions C15_deriv_correct_x_at.
Print Assumptions C15_deriv_correct_u. Print Assumptions C15_deriv_along_line.
Print Assumptions C15_nls_affine_reproduces. Print Assumptions C15_nls_second_order.
Print Assumptions C15_nls_second_order_exists. Print Assumptions C15_second_order_example.
Print Assumptions C15_nls_read_after_setref. Print Assumptions C15_nls_default_t_old_refuted.
Print Assumptions C15_step_clauses. Print Assumptions C15_time_trace_entry.
Print Assumptions C15_ltv_history_call. Print Assumptions C15_ltv_history_direct.
Print Assumptions C15_ltv_state_is_last_call. Print Assumptions C15_ltv_periodic.
Print Assumptions C15_lti_history_call. Print Assumptions C15_ltv_index_in_range.
Print Assumptions C15_ltv_negative_time. Print Assumptions C15_ltv_wf_example.
Print Assumptions C15_lti_shapes. Print Assumptions C15_lti_wf_example.
Print Assumptions C15_nls_history_call. Print Assumptions C15_nls_trace_entry.
Print Assumptions C15_nls_read_always_consistent. Print Assumptions C15_nls_raises_iff.
Print Assumptions C15_nls_read_last_setref. Print Assumptions C15_no_setref_quiet.
Print Assumptions C15_nls_read_any_history. Print Assumptions C15_nls_read_example.
Print Assumptions C15_quiet_example. Print Assumptions C15_nls_read_layout.
Print Assumptions C15_nls_shapes. Print Assumptions C15_nls_A_is_jacobian. Print Assumptions C15_nls_B_is_jacobian.
Print Assumptions C15_nls_second_order_uniform. Print Assumptions C15_nls_frechet.
Print Assumptions C15_nls_first_order_uniform. Print Assumptions C15_nls_jacobian_drift.
Print Assumptions C15_d2_bound_explicit. Print Assumptions C15_nls_affine_exact.
Print Assumptions C15_second_order_uniform_example. Print Assumptions C15_affine_exact_example.
Print Assumptions C15_nls_last_is_last_call. Print Assumptions C15_dot_is_sum.
