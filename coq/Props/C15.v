(* C15 — dynamics follow their equations; the NLS linearisation is exact at the reference point.
   Statements only; proofs in Proofs/Dynamics.v, model in Model/Dynamics.v. *)
From Coq Require Import Reals ZArith List Bool.
From Coquelicot Require Import Coquelicot.
Import ListNotations.
From PV Require Import Base.Num Model.Dynamics Proofs.Dynamics.
#[local] Remove Hints NumQ NumZ : typeclass_instances.

(* ---------------------------------------------------------------- the time counter
   For every kind of system, every start time and EVERY history of operations (calls, direct calls of
   forward / state_transition / observation / property reads, reset(t), systime = t, set_refpoint):
   either nothing assigned the time and it is the start time plus the number of calls, or it is the
   value of the last assignment plus the number of calls made since.  (assigns: reset, systime
   assignment, and LTV.set_refpoint(t) with t given.) *)
Theorem C15_time_after_ops : forall (k : kind) (t0 : Z) (ops : list op),
  (no_assign k ops /\ run_time k t0 ops = (t0 + count_calls ops)%Z) \/
  (exists pre a v post, ops = pre ++ a :: post /\ assigns k a = Some v /\ no_assign k post /\
                        run_time k t0 ops = (v + count_calls post)%Z).
Proof. exact time_after_ops. Qed.

(* the LTV and NLS objects (with states, inputs, reference points) carry exactly this counter *)
Theorem C15_ltv_time_is_counter : forall (s : ltv (F:=R)) (ops : list (lop (F:=R))) (t : Z) (x : list R),
  fst (ltv_run s (t, x) ops) = run_time KLTV t (map lop_erase ops).
Proof. intros s. exact (ltv_run_time s). Qed.
Theorem C15_nls_time_is_counter : forall (fs gs : list (fexpr (F:=R))) (ops : list (nop (F:=R))) (st : nst (F:=R)),
  n_t (nls_run fs gs st ops) = run_time KNLS (n_t st) (map nop_erase ops).
Proof. exact nls_run_time. Qed.

(* no modelled operation raises; in particular LTV.set_refpoint() with the documented default
   t=None ("the most recent timestamp is taken") keeps the time *)
Theorem C15_ops_do_not_raise : forall (k : kind) (t : Z) (o : op), exists t', step_time k t o = Some t'.
Proof. exact step_time_total. Qed.
Theorem C15_ltv_setref_default_keeps_time : forall t : Z, step_time KLTV t (SetRef None) = Some t.
Proof. exact ltv_setref_default_keeps_time. Qed.
(* history (before /repo 6b6eb73): it raised *)
Theorem C15_ltv_setref_default_old_refuted : exists t : Z, step_time_old KLTV t (SetRef None) = None.
Proof. exists 0%Z. exact (ltv_setref_default_old_raises 0%Z). Qed.

(* ---------------------------------------------------------------- LTI / LTV equations
   every component of the next state / observation, any dimensions, with or without c1, c2 *)
Theorem C15_lti_equations : forall (s : lti (F:=R)) (x u : list R), lti_wf s ->
  (forall i, (i < length (sA s))%nat ->
     nth i (lti_next s x u) 0%R = (dot (nth i (sA s) []) x + dot (nth i (sB s) []) u
                                + match sc1 s with Some c => nth i c 0 | None => 0 end)%R) /\
  (forall i, (i < length (sC s))%nat ->
     nth i (lti_obs s x u) 0%R = (dot (nth i (sC s) []) x + dot (nth i (sD s) []) u
                               + match sc2 s with Some c => nth i c 0 | None => 0 end)%R).
Proof. exact lti_equations. Qed.
(* LTV: the k-th of any number of consecutive calls from time t0 applies the matrices of time
   t0 + k (index (t0 + k) mod T) to the previous state; the calls end at time t0 + (number of calls) *)
Theorem C15_ltv_equations : forall (s : ltv (F:=R)) (us : list (list R)) (t0 : Z) (x0 : list R) (k : nat),
  (k < length us)%nat ->
  nth k (ltv_traj s t0 x0 us) [] =
    lti_next (ltv_at s (t0 + Z.of_nat k)%Z)
             (match k with O => x0 | S k' => nth k' (ltv_traj s t0 x0 us) [] end) (nth k us []).
Proof. exact ltv_traj_step. Qed.
Theorem C15_ltv_calls : forall (s : ltv (F:=R)) (us : list (list R)) (t0 : Z) (x0 : list R),
  ltv_run s (t0, x0) (map (@LCall R) us) =
    ((t0 + Z.of_nat (length us))%Z, List.last (ltv_traj s t0 x0 us) x0).
Proof. exact ltv_run_calls. Qed.
(* bvmv computes the bilinear form l^T (M r); bvv the outer product *)
Theorem C15_bvmv_bilinear : forall (l : list R) (M : list (list R)) (r : list R),
  Forall (fun row => length row = length r) M -> length l = length M ->
  bvmv_m l M r = dot l (mv M r).
Proof. exact bvmv_bilinear. Qed.
Theorem C15_bvv_outer : forall (l r : list R) (i j : nat),
  nth j (nth i (bvv_m l r) []) 0%R = (nth i l 0 * nth j r 0)%R.
Proof. exact nth_bvv. Qed.

(* ---------------------------------------------------------------- the symbolic derivative is the derivative
   for every expression (induction on the tree), every point, every component: as a function of the
   i-th state (j-th input) component alone, e has derivative eval (deriv e x_i) *)
Theorem C15_deriv_correct_x : forall (e : fexpr (F:=R)) (x u : list R) (t : R) (i : nat), (i < length x)%nat ->
  forall s, is_derive (fun s => eval e (upd x i s) u t) s (eval (deriv e (VX i)) (upd x i s) u t).
Proof. exact deriv_correct_x. Qed.
Theorem C15_deriv_correct_x_at : forall (e : fexpr (F:=R)) (x u : list R) (t : R) (i : nat), (i < length x)%nat ->
  is_derive (fun s => eval e (upd x i s) u t) (nth i x 0%R) (eval (deriv e (VX i)) x u t).
Proof. exact deriv_correct_x_at. Qed.
Theorem C15_deriv_correct_u : forall (e : fexpr (F:=R)) (x u : list R) (t : R) (j : nat), (j < length u)%nat ->
  forall s, is_derive (fun s => eval e x (upd u j s) t) s (eval (deriv e (VU j)) x (upd u j s) t).
Proof. exact deriv_correct_u. Qed.
(* chain rule along any line (x + s dx, u + s du): derivative = A-row . dx + B-row . du *)
Theorem C15_deriv_along_line : forall (e : fexpr (F:=R)) (x u dx du : list R) (t : R),
  length dx = length x -> length du = length u ->
  forall s, is_derive (fun s => eval e (xl x dx s) (xl u du s) t) s
                      (dot (grad e (xvars x) (xl x dx s) (xl u du s) t) dx +
                       dot (grad e (uvars u) (xl x dx s) (xl u du s) t) du)%R.
Proof.
  intros e x u dx du t Hx Hu s. rewrite grad_xvars, grad_uvars, <- Hx, <- Hu.
  exact (is_derive_line e x u dx du t Hx Hu s).
Qed.

(* ---------------------------------------------------------------- the linearisation
   A xr + B ur + c1 = f(xr, ur, tr)   and   C xr + D ur + c2 = g(xr, ur, tr)   at the reference point (xr, ur, tr), any f, g, dimensions *)
Theorem C15_nls_affine_reproduces : forall (fs gs : list (fexpr (F:=R))) (x u : list R) (t : R),
  affine_model fs x u t x u = evals fs x u t /\ affine_model gs x u t x u = evals gs x u t.
Proof. intros. split; apply nls_affine_reproduces. Qed.

(* along every line through the reference point, every component of the affine model's error is at
   most M s^2 / 2, M any bound of the second directional derivative between the two points ... *)
Theorem C15_nls_second_order : forall (fs : list (fexpr (F:=R))) (x u : list R) (t : R) (dx du : list R) (s M : R) (i : nat),
  (i < length fs)%nat -> length dx = length x -> length du = length u ->
  (forall r, Rmin 0 s <= r <= Rmax 0 s -> Rabs (d2 (nth i fs ET) (xl x dx r) (xl u du r) dx du t) <= M)%R ->
  (Rabs (nth i (evals fs (xl x dx s) (xl u du s) t) 0 - nth i (affine_model fs x u t (xl x dx s) (xl u du s)) 0)
    <= M * s ^ 2 / 2)%R.
Proof. exact nls_second_order. Qed.
(* ... and such a bound exists on every bounded part of the line: the error is O(s^2) *)
Theorem C15_nls_second_order_exists : forall (fs : list (fexpr (F:=R))) (x u : list R) (t : R) (dx du : list R) (rho : R) (i : nat),
  (i < length fs)%nat -> length dx = length x -> length du = length u -> (0 <= rho)%R ->
  exists M, (0 <= M)%R /\ forall s, (Rabs s <= rho)%R ->
    (Rabs (nth i (evals fs (xl x dx s) (xl u du s) t) 0 - nth i (affine_model fs x u t (xl x dx s) (xl u du s)) 0)
      <= M * s ^ 2 / 2)%R.
Proof. exact nls_second_order_exists. Qed.
(* the hypotheses are satisfiable with an explicit constant: f = sin x0, M = 1 *)
Example C15_second_order_example : forall x s : R,
  (Rabs (nth 0 (evals [ESin (EX 0)] (xl [x] [1] s) (xl [] [] s) 0) 0
         - nth 0 (affine_model [ESin (EX 0)] [x] [] 0 (xl [x] [1] s) (xl [] [] s)) 0) <= 1 * s ^ 2 / 2)%R.
Proof. exact second_order_example. Qed.

(* ---------------------------------------------------------------- the NLS object and its bookkeeping
   after set_refpoint(x, u, t) - state / input given or taken from the last call, t given or, by
   default, the time at that moment - for EVERY later history without another set_refpoint (calls,
   resets, time assignments, direct calls, reads), reading A, B, C, D, c1, c2 gives the linearisation
   at (x, u, t): Jacobians of f and g there, c1, c2 from the values there *)
Theorem C15_nls_read_after_setref : forall (fs gs : list (fexpr (F:=R))) (st : nst (F:=R)) ox ou (ot : option R) x u ops,
  ref_arg ox (option_map fst (n_last st)) = Some x ->
  ref_arg ou (option_map snd (n_last st)) = Some u ->
  no_setref ops ->
  let st2 := nls_run fs gs (nls_step' fs gs st (NSetRef ox ou ot)) ops in
  nls_step fs gs st2 NRead = Some (st2, nls_lin_l fs gs x u (ref_time st ot)).
Proof. exact nls_read_fixed. Qed.
(* history (before /repo 6b6eb73): with t=None `_ref_t` was the live time buffer, so a later call moved
   the point at which the Jacobians were taken while c1, c2 still used the old f, g values.
   Witness: f = t * x0, set_refpoint([1],[0]) at time 1, one call, A read [[2]], Jacobian is [[1]]. *)
Theorem C15_nls_default_t_old_refuted :
  exists (fs gs : list (fexpr (F:=R))) (st : nst (F:=R)) (x u : list R) (ops : list (nop (F:=R))),
    no_setref ops /\
    let st2 := nls_run_old fs gs (nls_step'_old fs gs st (NSetRef (Some x) (Some u) None)) ops in
    exists out, nls_step_old fs gs st2 NRead = Some (st2, out) /\
                out <> nls_lin_l fs gs x u (IZR (n_t st)).
Proof. exact nls_default_t_old_refuted. Qed.

Print Assumptions C15_time_after_ops. Print Assumptions C15_ltv_time_is_counter.
Print Assumptions C15_nls_time_is_counter. Print Assumptions C15_ops_do_not_raise.
Print Assumptions C15_ltv_setref_default_keeps_time. Print Assumptions C15_ltv_setref_default_old_refuted.
Print Assumptions C15_lti_equations. Print Assumptions C15_ltv_equations. Print Assumptions C15_ltv_calls.
Print Assumptions C15_bvmv_bilinear. Print Assumptions C15_bvv_outer.
Print Assumptions C15_deriv_correct_x. Print Assumptions C15_deriv_correct_x_at.
Print Assumptions C15_deriv_correct_u. Print Assumptions C15_deriv_along_line.
Print Assumptions C15_nls_affine_reproduces. Print Assumptions C15_nls_second_order.
Print Assumptions C15_nls_second_order_exists. Print Assumptions C15_second_order_example.
Print Assumptions C15_nls_read_after_setref. Print Assumptions C15_nls_default_t_old_refuted.
