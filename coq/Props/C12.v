(* C12 — Cumulative products equal the sequential left/right fold for every length.
   Only statements here; proofs are in Proofs/Cumops.v. *)
From Coq Require Import List Arith ZArith Reals.
Import ListNotations.
From PV Require Import Base.Num Model.Cumops Model.LieGroup Proofs.Cumops Proofs.Cumops2 Proofs.Cumops3 Proofs.LieGroup Proofs.Cumops4.

(* cumops: every length L >= 1, every associative op: position i holds x_0 o ... o x_i *)
Theorem C12_cumops_is_fold :
  forall (A : Type) (op : A -> A -> A), (forall a b c, op (op a b) c = op a (op b c)) ->
  forall (d : A) (x : list A), 1 <= length x ->
  exists r, cumops_model op x = Some r /\ length r = length x /\
            forall i, i < length x -> nth i r d = prefix A op d x i.
Proof. exact cumops_correct. Qed.
Print Assumptions C12_cumops_is_fold.

(* cumprod / cummul with left=True: x_i o ... o x_0 *)
Theorem C12_cumprod_left :
  forall (A : Type) (mul : A -> A -> A), (forall a b c, mul (mul a b) c = mul a (mul b c)) ->
  forall (d : A) (x : list A), 1 <= length x ->
  exists r, cumprod_model mul true x = Some r /\ length r = length x /\
            forall i, i < length x -> nth i r d = lprefix A mul d x i.
Proof. exact cumprod_left_correct. Qed.
Print Assumptions C12_cumprod_left.

(* left=False: x_0 o ... o x_i *)
Theorem C12_cumprod_right :
  forall (A : Type) (mul : A -> A -> A), (forall a b c, mul (mul a b) c = mul a (mul b c)) ->
  forall (d : A) (x : list A), 1 <= length x ->
  exists r, cumprod_model mul false x = Some r /\ length r = length x /\
            forall i, i < length x -> nth i r d = rprefix A mul d x i.
Proof. exact cumprod_right_correct. Qed.
Print Assumptions C12_cumprod_right.

(* every dimension: a tensor scanned along [dim] is a list of L slices of equal width w (w = product of the other
   extents), the operation acts on whole slices item by item (zipop op); the result holds in every fibre j
   (= every multi-index of the other dimensions) the sequential fold of that fibre, for every L >= 1 and every w *)
Theorem C12_cumops_along_any_dim :
  forall (A : Type) (op : A -> A -> A), (forall a b c, op (op a b) c = op a (op b c)) ->
  forall (d : A) (w : nat) (x : list (list A)), 1 <= length x -> Forall (fun s => length s = w) x ->
  exists r, cumops_model (zipop op) x = Some r /\ length r = length x /\
            forall i j, i < length x -> j < w ->
              length (nth i r []) = w /\ nth j (nth i r []) d = prefix A op d (fibre A d x j) i.
Proof. exact cumops_along_dim. Qed.

(* out-of-place variants leave the input untouched; in-place ones overwrite it with the result *)
Theorem C12_pure_keeps_input :
  forall A op (v r a : list A), cumops_pure op v = Some (r, a) -> a = v /\ cumops_model op v = Some r.
Proof. exact cumops_pure_keeps_input. Qed.
Print Assumptions C12_pure_keeps_input.

Theorem C12_inplace_overwrites :
  forall A op (v r a : list A), cumops_inplace op v = Some (r, a) -> a = r /\ cumops_model op v = Some r.
Proof. exact cumops_inplace_overwrites. Qed.
Print Assumptions C12_inplace_overwrites.

(* history: the schedule of the source before the repair raised for L = 3 *)
Theorem C12_old_schedule_refuted :
  exists L, scan seg_op (strides_old L) (seg_input 0%Z L) = None.
Proof. exact cumops_old_refuted. Qed.
Print Assumptions C12_old_schedule_refuted.
Print Assumptions C12_cumops_along_any_dim.

(* ================= strengthening round (Proofs/Cumops3.v, Cumops4.v) ================= *)

(* operations that are associative only on a subset P closed under the operation (e.g. the SE3 / Sim3 products,
   associative on unit-quaternion elements only): every L >= 1, outputs stay in P, position i = ordered product *)
Theorem C12_cumops_is_fold_on_closed_subset :
  forall (A : Type) (op : A -> A -> A) (P : A -> Prop), (forall a b, P a -> P b -> P (op a b)) ->
  (forall a b c, P a -> P b -> P c -> op (op a b) c = op a (op b c)) ->
  forall (d : A), P d -> forall (x : list A), 1 <= length x -> Forall P x ->
  exists r, cumops_model op x = Some r /\ length r = length x /\ Forall P r /\
            forall i, i < length x -> nth i r d = prefix A op d x i.
Proof. exact cumops_correct_on. Qed.
Print Assumptions C12_cumops_is_fold_on_closed_subset.

(* all four group types, both orders, every length: cumprod / cummul of valid elements returns at position i
   x_i o ... o x_0 (left) or x_0 o ... o x_i (right), and every output is a valid element again *)
Theorem C12_cumprod_SO3 : forall (left : bool) (x : list quatR), 1 <= length x -> Forall valid_SO3 x ->
  exists r, cumprod_model SO3_mul left x = Some r /\ length r = length x /\ Forall valid_SO3 r /\
            forall i, i < length x ->
              nth i r SO3_id = (if left then lprefix quatR SO3_mul SO3_id else rprefix quatR SO3_mul SO3_id) x i.
Proof. exact cumprod_SO3. Qed.
Theorem C12_cumprod_SE3 : forall (left : bool) (x : list se3R), 1 <= length x -> Forall valid_SE3 x ->
  exists r, cumprod_model SE3_mul left x = Some r /\ length r = length x /\ Forall valid_SE3 r /\
            forall i, i < length x ->
              nth i r SE3_id = (if left then lprefix se3R SE3_mul SE3_id else rprefix se3R SE3_mul SE3_id) x i.
Proof. exact cumprod_SE3. Qed.
Theorem C12_cumprod_RxSO3 : forall (left : bool) (x : list rxso3R), 1 <= length x -> Forall valid_RxSO3 x ->
  exists r, cumprod_model RxSO3_mul left x = Some r /\ length r = length x /\ Forall valid_RxSO3 r /\
            forall i, i < length x ->
              nth i r RxSO3_id = (if left then lprefix rxso3R RxSO3_mul RxSO3_id else rprefix rxso3R RxSO3_mul RxSO3_id) x i.
Proof. exact cumprod_RxSO3. Qed.
Theorem C12_cumprod_Sim3 : forall (left : bool) (x : list sim3R), 1 <= length x -> Forall valid_Sim3 x ->
  exists r, cumprod_model Sim3_mul left x = Some r /\ length r = length x /\ Forall valid_Sim3 r /\
            forall i, i < length x ->
              nth i r Sim3_id = (if left then lprefix sim3R Sim3_mul Sim3_id else rprefix sim3R Sim3_mul Sim3_id) x i.
Proof. exact cumprod_Sim3. Qed.
(* why the closed-subset form is needed: SE3_mul is not associative on all of R^7 *)
Theorem C12_SE3_product_not_associative_off_the_group :
  ~ (forall a b c : se3R, SE3_mul (SE3_mul a b) c = SE3_mul a (SE3_mul b c)).
Proof. exact SE3_mul_not_associative. Qed.
Print Assumptions C12_cumprod_SO3. Print Assumptions C12_cumprod_SE3. Print Assumptions C12_cumprod_RxSO3.
Print Assumptions C12_cumprod_Sim3. Print Assumptions C12_SE3_product_not_associative_off_the_group.

(* the model's stride count Nat.log2_up L is the source's (L-1).bit_length(); the passes use exactly the strides
   1, 2, 4, ... 2^(k-1), all < L (so arange(i, L) never raises), and 2^k >= L (so the window covers every prefix) *)
Theorem C12_stride_schedule : forall L : nat, 1 <= L ->
  length (strides L) = bit_length (L - 1) /\
  (forall i, i < length (strides L) -> nth i (strides L) 0 = 2 ^ i /\ 2 ^ i < L) /\
  L <= 2 ^ length (strides L).
Proof. exact strides_spec. Qed.
Theorem C12_bit_length_is_the_binary_length : forall n : nat, 0 < n -> 2 ^ (bit_length n - 1) <= n < 2 ^ bit_length n.
Proof. exact bit_length_spec. Qed.
Print Assumptions C12_stride_schedule. Print Assumptions C12_bit_length_is_the_binary_length.

(* associativity cannot be dropped: with subtraction on Z the scan of [1;2;3;4] ends in 0, the fold in -8 *)
Theorem C12_associativity_needed :
  cumops_model Z.sub [1; 2; 3; 4]%Z = Some [1; -1; 2; 0]%Z /\ prefix Z Z.sub 0%Z [1; 2; 3; 4]%Z 3 = (-8)%Z.
Proof. exact assoc_needed. Qed.
Print Assumptions C12_associativity_needed.
