(* C12 — Cumulative products equal the sequential left/right fold for every length.
   Only statements here; proofs are in Proofs/Cumops.v. *)
From Coq Require Import List Arith ZArith.
Import ListNotations.
From PV Require Import Model.Cumops Proofs.Cumops Proofs.Cumops2.

(* cumops: every length L >= 1, every associative op: position i holds x_0 o ... o x_i *)
Theorem C12_cumops_is_fold :
  forall (A : Type) (op : A -> A -> A), (forall a b c, op (op a b) c = op a (op b c)) ->
  forall (d : A) (x : list A), 1 <= length x ->
  exists r, cumops_model op x = Some r /\ length r = length x /\
            forall i, i < length x -> nth i r d = prefix A op d x i.
Proof. exact cumops_correct. Qed.
Print Assumptions C12_cumops_is_fold.

(* cumprod / cummul with left=True: x_i o ... o x_0 *)
Theorem C12_cumprod_left :
  forall (A : Type) (mul : A -> A -> A), (forall a b c, mul (mul a b) c = mul a (mul b c)) ->
  forall (d : A) (x : list A), 1 <= length x ->
  exists r, cumprod_model mul true x = Some r /\ length r = length x /\
            forall i, i < length x -> nth i r d = lprefix A mul d x i.
Proof. exact cumprod_left_correct. Qed.
Print Assumptions C12_cumprod_left.

(* left=False: x_0 o ... o x_i *)
Theorem C12_cumprod_right :
  forall (A : Type) (mul : A -> A -> A), (forall a b c, mul (mul a b) c = mul a (mul b c)) ->
  forall (d : A) (x : list A), 1 <= length x ->
  exists r, cumprod_model mul false x = Some r /\ length r = length x /\
            forall i, i < length x -> nth i r d = rprefix A mul d x i.
Proof. exact cumprod_right_correct. Qed.
Print Assumptions C12_cumprod_right.

(* every dimension: a tensor scanned along [dim] is a list of L slices of equal width w (w = product of the other
   extents), the operation acts on whole slices item by item (zipop op); the result holds in every fibre j
   (= every multi-index of the other dimensions) the sequential fold of that fibre, for every L >= 1 and every w *)
Theorem C12_cumops_along_any_dim :
  forall (A : Type) (op : A -> A -> A), (forall a b c, op (op a b) c = op a (op b c)) ->
  forall (d : A) (w : nat) (x : list (list A)), 1 <= length x -> Forall (fun s => length s = w) x ->
  exists r, cumops_model (zipop op) x = Some r /\ length r = length x /\
            forall i j, i < length x -> j < w ->
              length (nth i r []) = w /\ nth j (nth i r []) d = prefix A op d (fibre A d x j) i.
Proof. exact cumops_along_dim. Qed.

(* out-of-place variants leave the input untouched; in-place ones overwrite it with the result *)
Theorem C12_pure_keeps_input :
  forall A op (v r a : list A), cumops_pure op v = Some (r, a) -> a = v /\ cumops_model op v = Some r.
Proof. exact cumops_pure_keeps_input. Qed.
Print Assumptions C12_pure_keeps_input.

Theorem C12_inplace_overwrites :
  forall A op (v r a : list A), cumops_inplace op v = Some (r, a) -> a = r /\ cumops_model op v = Some r.
Proof. exact cumops_inplace_overwrites. Qed.
Print Assumptions C12_inplace_overwrites.

(* history: the schedule of the source before the repair raised for L = 3 *)
Theorem C12_old_schedule_refuted :
  exists L, scan seg_op (strides_old L) (seg_input 0%Z L) = None.
Proof. exact cumops_old_refuted. Qed.
Print Assumptions C12_old_schedule_refuted.
Print Assumptions C12_cumops_along_any_dim.
