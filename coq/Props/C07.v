(* C07 - A GN/LM step is the documented damped, weighted linear solve on the manifold.
   Statements only; proofs in Proofs/Optim.v, Optim2.v .. Optim5.v, model in Model/Optim.v.
   Sections 1-7: first build.  Sections 8-14: clause-by-clause strengthening (any number of residuals, every
   weight shape, corrector assignment, column layout = split offsets, LM calls as histories, the GN step as a
   weighted least-squares minimiser with derived shapes, minimum norm of the pseudo-inverse solution, the update
   entry by entry in terms of the step vector) and instances showing that the hypotheses are satisfiable.

   What is a hypothesis here (Section variables, never axioms): the linear solver with its contract
   (GN: the answer satisfies the normal equations of the system it was given, i.e. it is a
   least-squares solution; LM: it solves the square system), the correctors (C09), the Jacobian
   blocks J[i][j] (C04).  The group retraction uses the modelled exponential map of Model/LieExp.v.
   Minimum norm of the default GN solver (PINV): proved in section 12 from the four Penrose equations; that
   torch.linalg.pinv returns a pseudo-inverse is a contract (C10) checked on the implementation by the harness.
   Not a theorem anywhere: that modjac's blocks are the true left-perturbation Jacobians (C04), what the
   corrector objects compute (C09), vectorize on/off (autograd internals). *)
From Coq Require Import Reals List Arith.
Import ListNotations.
From PV Require Import Base.Num Base.Mat Model.LieGroup Model.LieExp Model.Optim Proofs.Optim Proofs.Optim2 Proofs.Optim3 Proofs.Optim4 Proofs.Optim5.
#[local] Remove Hints NumQ NumZ : typeclass_instances.
Local Open Scope R_scope.

(* ------------------------------------------------------------------------------------------ *)
(* 1. weight expansion: for every residual shape pre ++ suf ++ [d] and every documented weight shape
      suf ++ [d; d] (R*R, N*R*R, M*N*R*R, ...; d = 1 included) normalize_RWJ builds one d x d block
      per residual item t, namely weight item t mod |suf|: the weight broadcast over the leading
      batch dimensions.  Any number type, any rank, any sizes. *)
Theorem C07_weight_expansion_is_broadcast :
  forall (F : Type) (NF : Num F) (pre suf : list nat) (d : nat) (rdata wdata : list F),
  (0 < d)%nat -> (0 < prodn suf)%nat ->
  expand_weight {| tshape := pre ++ suf ++ [d]; tdata := rdata |}
                {| tshape := suf ++ [d; d]; tdata := wdata |}
  = Some (map (fun t => wblock d wdata (t mod prodn suf)) (seq 0 (prodn pre * prodn suf))).
Proof. intros F NF. exact weight_expansion_is_broadcast. Qed.

(* torch.block_diag acts block by block (any list of blocks, any sizes) ... *)
Theorem C07_block_diag_acts_blockwise : forall (Ms : list (@mat R)) (vs : list (list R)),
  Forall2 blk_ok Ms vs -> mapply (block_diag Ms) (concat vs) = concat (zipw mapply Ms vs).
Proof. intros Ms vs H. exact (proj1 (mapply_block_diag Ms vs H)). Qed.

(* ... hence W @ R multiplies residual item t by weight item t mod |suf| *)
Theorem C07_weighted_residual_is_broadcast :
  forall (pre suf : list nat) (d : nat) (rdata wdata : list R),
  (0 < d)%nat -> (0 < prodn suf)%nat ->
  length wdata = (prodn suf * (d * d))%nat -> length rdata = (prodn pre * prodn suf * d)%nat ->
  exists Ms, expand_weight {| tshape := pre ++ suf ++ [d]; tdata := rdata |}
                           {| tshape := suf ++ [d; d]; tdata := wdata |} = Some Ms /\
    mapply (block_diag Ms) rdata =
    concat (map (fun t => mapply (wblock d wdata (t mod prodn suf)) (chunk d t rdata))
                (seq 0 (prodn pre * prodn suf))).
Proof. exact weighted_residual_is_broadcast. Qed.

(* ... and the same holds for every column of the weighted Jacobian W @ J *)
Theorem C07_weighted_jacobian_columnwise : forall n m (W J : @mat R) i j,
  wf n n W -> wf n m J -> (i < n)%nat -> (j < m)%nat ->
  mget (mmul W J) i j = vget (mapply W (mcol_of j J)) i.
Proof. exact mmul_columns. Qed.

(* ------------------------------------------------------------------------------------------ *)
(* 2. the LM matrix: after k trials of one call (dampings lam_1 .. lam_k, any k, cumulative as coded)
      diag A_k = clamp(diag (J_T J)) * prod (1 + lam_j), off-diagonal entries are those of J_T J *)
Theorem C07_lm_diag_closed_form : forall n (mn mx : R) (JT J : @mat R) (lams : list R) i j,
  wf n n (mmul JT J) -> (i < n)%nat -> (j < n)%nat ->
  mget (lm_A (lm_A0 mn mx JT J) lams) i j =
    if Nat.eqb i j then clampT mn mx (mget (mmul JT J) i i) * prodR (map (fun l => 1 + l) lams)
    else mget (mmul JT J) i j.
Proof. exact lm_diag_closed_form. Qed.

Theorem C07_clamp_is_documented : forall lo hi x : R, lo <= hi ->
  clampT lo hi x = Rmin (Rmax x lo) hi /\ lo <= clampT lo hi x <= hi /\ (lo <= x <= hi -> clampT lo hi x = x).
Proof. exact clampT_spec. Qed.

(* ------------------------------------------------------------------------------------------ *)
Section C07.
Variable corr : cid -> @tensor R -> @mat R -> @tensor R * @mat R.
Variable eps : R.
Variable solver : @mat R -> list R -> option (list R).
Notation gexp := (exp_l eps).

(* 3. GN: the vector handed to update_parameter is the solver's answer for (W J, -W R) resp. (J, -R),
      R, J being the corrected, normalised residual and Jacobian; under the solver's contract it
      satisfies the normal equations of that system *)
Theorem C07_gn_normal_equations :
  (forall A b x, solver A b = Some x -> mapply (mtr A) (mapply A x) = mapply (mtr A) b) ->
  forall (pb : @problem R) o, gn_step corr gexp solver pb = Some o ->
  exists Rv W J, assemble corr pb = Some (Rv, W, J) /\
    tA o = (match W with None => J | Some W => mmul W J end) /\
    tb o = (match W with None => vneg Rv | Some W => mapply (mneg W) Rv end) /\
    (forall W' n m, W = Some W' -> wf n m W' -> tb o = vneg (mapply W' Rv)) /\
    mapply (mtr (tA o)) (mapply (tA o) (tD o)) = mapply (mtr (tA o)) (tb o) /\
    update_parameter gexp (pbP pb) (tD o) = Some (tP o).
Proof.
  intros Hs pb o H. destruct (gn_step_system corr gexp solver pb o H) as (Rv & W & J & Ha & HA & Hb & HD & HU).
  exists Rv, W, J. repeat split; try assumption.
  - intros W' n m -> HW. rewrite Hb. now apply (mapply_mneg n m).
  - now apply Hs.
Qed.

(* the normal equations say: least-squares solution of A x = b *)
Theorem C07_normal_equations_are_least_squares : forall n m (A : @mat R) (b x : list R),
  wf n m A -> length b = n -> length x = m ->
  mapply (mtr A) (mapply A x) = mapply (mtr A) b ->
  forall y, length y = m -> sqn (vminus (mapply A x) b) <= sqn (vminus (mapply A y) b).
Proof. exact normal_eq_minimises. Qed.

(* 4. LM: J_T = J^T W, A_0 = clampdiag(J_T J), and the (k+1)-th trial of a call (dampings lam_1..lam_k
      before it, lam now) hands update_parameter the solution of  A_(k+1) x = -J_T R  with
      A_(k+1) = A_k + lam diag(A_k);  entries of A_k in closed form by C07_lm_diag_closed_form *)
Theorem C07_lm_normal_equations :
  (forall A b x, solver A b = Some x -> mapply A x = b) ->
  forall mn mx (pb : @problem R) A0 JT Rv, lm_init corr mn mx pb = Some (A0, JT, Rv) ->
  (exists W J, assemble corr pb = Some (Rv, W, J) /\
     JT = (match W with None => mtr J | Some W => mmul (mtr J) W end) /\ A0 = lm_A0 mn mx JT J) /\
  forall lams lam ps o, lm_trial gexp solver (lm_A A0 lams) JT Rv lam ps = TDone o ->
    tA o = lm_A A0 (lams ++ [lam]) /\
    tb o = lm_b JT Rv /\ (forall n m, wf n m JT -> tb o = vneg (mapply JT Rv)) /\
    mapply (tA o) (tD o) = tb o /\
    update_parameter gexp ps (tD o) = Some (tP o).
Proof.
  intros Hs mn mx pb A0 JT Rv Hi. split.
  - destruct (lm_init_system corr mn mx pb A0 JT Rv Hi) as (W & J & H1 & H2 & H3). exists W, J. auto.
  - intros lams lam ps o Ht. destruct (lm_trial_system gexp solver _ _ _ _ _ _ Ht) as (HA & Hb & HD & HU).
    repeat split; try assumption.
    + rewrite HA. symmetry. apply lm_A_snoc.
    + intros n m HJT. rewrite Hb. now apply (mapply_mneg n m).
    + now apply Hs.
Qed.

(* 5. MAIN (repaired source, a845d9f).  update_parameter returns exactly when the step has one entry per
      element of the TRAINABLE parameters; then trainable parameter i receives exactly its slice of the
      trainable-only split (offset = elements of the trainable parameters before it) and every parameter
      with requires_grad = False stays untouched ... *)
Theorem C07_update_split : forall (ps : list (@param R)) step,
  length step = sumnat (map (@pnumel R) (filter (@preq R) ps)) ->
  exists ps', update_parameter gexp ps step = Some ps' /\ length ps' = length ps /\
    forall i, (i < length ps)%nat ->
      nth i ps' pdflt =
      if preq (nth i ps pdflt)
      then param_add gexp (nth i ps pdflt) (firstn (pnumel (nth i ps pdflt)) (skipn (toffset ps i) step))
      else nth i ps pdflt.
Proof. exact (update_split gexp). Qed.
Theorem C07_update_returns_iff : forall (ps : list (@param R)) step,
  (exists ps', update_parameter gexp ps step = Some ps') <->
  length step = sumnat (map (@pnumel R) (filter (@preq R) ps)).
Proof. exact (update_returns_iff gexp). Qed.

(* ... and the system that is solved is the one in the trainable columns: the flattened Jacobian of a
   residual is the unfiltered flattening of the blocks of the trainable parameters; the blocks modjac
   returns for frozen parameters do not enter *)
Theorem C07_jacobian_has_trainable_columns : forall (Jr : list (list R)) (ps : list (@param R)),
  length Jr = length ps ->
  flatten_row_jacobian Jr ps = flatten_row_jacobian_old (trainable_blocks Jr ps) (filter (@preq R) ps) /\
  (forall Jr', length Jr' = length ps ->
     (forall i, preq (nth i ps pdflt) = true -> nth i Jr [] = nth i Jr' []) ->
     flatten_row_jacobian Jr ps = flatten_row_jacobian Jr' ps) /\
  (forallb (@preq R) ps = true -> flatten_row_jacobian Jr ps = flatten_row_jacobian_old Jr ps).
Proof.
  intros Jr ps H. split; [now apply flatten_trainable_columns|]. split.
  - intros Jr' H' Hag. now apply flatten_frozen_irrelevant.
  - apply flatten_all_trainable.
Qed.

(* a GN step with frozen parameters: it happens as soon as the solver answers the (trainable-column) system
   with one entry per column, moves every trainable parameter by its slice and leaves the frozen ones *)
Theorem C07_gn_step_with_frozen : forall (pb : @problem R) Rv W J D,
  assemble corr pb = Some (Rv, W, J) ->
  solver (fst (gn_system Rv W J)) (snd (gn_system Rv W J)) = Some D ->
  length D = sumnat (map (@pnumel R) (filter (@preq R) (pbP pb))) ->
  exists o, gn_step corr gexp solver pb = Some o /\ tD o = D /\ length (tP o) = length (pbP pb) /\
    forall i, (i < length (pbP pb))%nat ->
      nth i (tP o) pdflt =
      if preq (nth i (pbP pb) pdflt)
      then param_add gexp (nth i (pbP pb) pdflt)
             (firstn (pnumel (nth i (pbP pb) pdflt)) (skipn (toffset (pbP pb) i) D))
      else nth i (pbP pb) pdflt.
Proof. exact (gn_step_returns corr gexp solver). Qed.

(* ... Euclidean tensors by addition ... *)
Theorem C07_add_euclid : forall (p : @param R) d, pk p = Euclid ->
  pdata (param_add gexp p d) = zipw Rplus (pdata p) d.
Proof. intros p d H. exact (proj1 (param_add_euclid gexp p d H)). Qed.

(* ... LieTensor parameters item by item of the last dimension: algebra items by addition of the
   first manifold-dimension entries, group items by the retraction Exp(delta[:k]) @ X *)
Theorem C07_add_lietensor : forall (p : @param R) d n, pk p <> Euclid ->
  pnumel p = (n * pwidth (pk p))%nat -> length d = (n * pwidth (pk p))%nat ->
  length (pdata (param_add gexp p d)) = pnumel p /\
  forall t, (t < n)%nat ->
    let w := pwidth (pk p) in
    chunk w t (pdata (param_add gexp p d)) =
    match pk p with
    | Euclid => chunk w t (pdata p)
    | Algebra g => zipw Rplus (chunk w t (pdata p)) (firstn (adim g) (chunk w t d))
    | Group g => g_mul g (exp_l eps g (firstn (adim g) (chunk w t d))) (chunk w t (pdata p))
    end.
Proof.
  intros p d n Hk Hn Hd. destruct (param_add_chunks gexp p d n Hk Hn Hd) as [HL HC]. split; [exact HL|].
  intros t Ht w. subst w. rewrite (HC t Ht). destruct (pk p); [congruence | reflexivity | reflexivity].
Qed.

(* the extra (zero-Jacobian) slot of a group item, and anything beyond the manifold dimension, is ignored *)
Theorem C07_extra_slot_ignored : forall g (x d d' : list R),
  firstn (adim g) d = firstn (adim g) d' ->
  add_item gexp (Group g) x d = add_item gexp (Group g) x d' /\
  add_item gexp (Algebra g) x d = add_item gexp (Algebra g) x d'.
Proof.
  intros g x d d' H. split.
  - exact (add_item_extra_ignored gexp (Group g) x d d' H).
  - exact (add_item_extra_ignored gexp (Algebra g) x d d' H).
Qed.

(* 6. parameters with requires_grad = False are untouched by every update that returns, whatever the step
      (kinds and flags of all parameters are kept) *)
Theorem C07_frozen_untouched : forall (ps : list (@param R)) step ps',
  update_parameter gexp ps step = Some ps' ->
  length ps' = length ps /\
  (forall i, preq (nth i ps pdflt) = false -> nth i ps' pdflt = nth i ps pdflt) /\
  map (@pk R) ps' = map (@pk R) ps /\ map (@preq R) ps' = map (@preq R) ps.
Proof. exact (frozen_untouched gexp). Qed.

(* 7. HISTORY (the source before a845d9f, kept as _old definitions): no step ever happened when a parameter
      was frozen: modjac's Jacobian had a column for every parameter, the solver returned one entry per
      column, and the split was given the sizes of the trainable parameters only *)
Theorem C07_old_step_with_frozen_raises : forall (pb : @problem R),
  (exists p, In p (pbP pb) /\ preq p = false /\ (0 < pnumel p)%nat) ->
  (forall A b D, solver A b = Some D -> length D = sumnat (map (@pnumel R) (pbP pb))) ->
  gn_step_old corr gexp solver pb = None /\
  forall Aprev JT Rv lam, exists r, lm_trial_old gexp solver Aprev JT Rv lam (pbP pb) = r /\ (r = TRaise \/ r = TSolverFailed).
Proof.
  intros pb Hex Hlen. split.
  - now apply gn_step_old_frozen_raises.
  - intros Aprev JT Rv lam. eexists. split; [reflexivity|]. now apply lm_trial_old_frozen_raises.
Qed.

(* behind the old raise: zip(params, steps) paired ALL parameters with the slices of the TRAINABLE ones; given
   one slice per trainable parameter, a trainable parameter that followed a frozen one was never updated;
   the repaired update gives it its slice *)
Theorem C07_old_zip_paired_all_params_with_trainable_slices : forall (p q : @param R) step,
  preq p = false -> preq q = true -> length step = pnumel q ->
  update_parameter_old gexp [p; q] step = Some [p; q] /\
  update_parameter gexp [p; q] step = Some [p; param_add gexp q step].
Proof.
  intros p q step Hp Hq Hl. split; [now apply zip_misaligned_old | now apply zip_aligned_new].
Qed.
End C07.

(* the clause "a GN step changes the (trainable) parameters by the least-squares solution while the
   parameters with requires_grad = False are untouched" was REFUTED on the model of the old source: for
   r = a + c with c frozen, GaussNewton.step raised for every corrector table, every Exp and every total
   solver ... *)
Theorem C07_old_gn_step_with_frozen_refuted :
  exists pb : @problem R,
    (exists p, In p (pbP pb) /\ preq p = false) /\
    forall corr gexp solver,
      (forall A b, exists D, solver A b = Some D /\ length D = mcols A) ->
      gn_step_old corr gexp solver pb = None.
Proof.
  exists frozen_pb. split.
  - exists {| pk := Euclid; pdata := [0]; preq := false |}. cbn. auto.
  - exact frozen_pb_old_raises.
Qed.
(* ... and holds on the same witness for the repaired source: the system is the trainable column, a moves by
   the solver's answer, c stays *)
Theorem C07_gn_step_with_frozen_witness : forall corr gexp (solver : @mat R -> list R -> option (list R)) d,
  solver [[1]] (vneg [1]) = Some [d] ->
  exists o, gn_step corr gexp solver frozen_pb = Some o /\ tA o = [[1]] /\ tD o = [d] /\
            map (@pdata R) (tP o) = [[0 + d]; [0]] /\ map (@preq R) (tP o) = [true; false].
Proof. exact frozen_pb_steps. Qed.

(* hypotheses are satisfiable / the step exists when nothing is frozen *)
Example C07_gn_step_without_frozen : forall corr gexp (solver : @mat R -> list R -> option (list R)) d1 d2,
  solver [[1; 1]] (vneg [1]) = Some [d1; d2] ->
  exists o, gn_step corr gexp solver free_pb = Some o /\ tD o = [d1; d2] /\
            map (@pdata R) (tP o) = [[0 + d1]; [0 + d2]].
Proof. exact free_pb_steps. Qed.

Example C07_solver_contract_satisfiable :
  let A := [[1; 1]] in let b := vneg [1] in
  mapply (mtr A) (mapply A [-1/2; -1/2]) = mapply (mtr A) b /\
  mapply (mtr A) (mapply A [-1; 0]) = mapply (mtr A) b.
Proof. exact free_pb_normal_equations. Qed.


(* ========================================================================================== *)
(* 8. WEIGHTS, every shape.  Complete description of the expansion for a weight of shape ws ++ [d; d] against
      a residual of shape rs ++ [d], ANY rs and ws: the |ws| weight matrices, the whole list repeated
      floor(|rs| / |ws|) times (block t = weight item t mod |ws|) *)
Theorem C07_weight_expansion_any_shape :
  forall (F : Type) (NF : Num F) (rs ws : list nat) (d : nat) (rdata wdata : list F),
  (0 < d)%nat -> (0 < prodn ws)%nat ->
  expand_weight {| tshape := rs ++ [d]; tdata := rdata |} {| tshape := ws ++ [d; d]; tdata := wdata |}
  = Some (map (fun t => wblock d wdata (t mod prodn ws)) (seq 0 ((prodn rs / prodn ws) * prodn ws))).
Proof. intros F NF. exact expand_weight_general. Qed.

(* for the documented shapes "t mod |suf|" IS torch's broadcast: torch_bcast_index rs ws t is the flat index of
   the weight item that residual item t meets when ws is broadcast over rs (right-aligned, extents 1 stretched) *)
Theorem C07_weight_expansion_is_torch_broadcast :
  forall (F : Type) (NF : Num F) (pre suf : list nat) (d : nat) (rdata wdata : list F),
  (0 < d)%nat -> (0 < prodn suf)%nat ->
  (forall t, torch_bcast_index (pre ++ suf) suf t = (t mod prodn suf)%nat) /\
  expand_weight {| tshape := pre ++ suf ++ [d]; tdata := rdata |} {| tshape := suf ++ [d; d]; tdata := wdata |}
  = Some (map (fun t => wblock d wdata (torch_bcast_index (pre ++ suf) suf t)) (seq 0 (prodn pre * prodn suf))).
Proof.
  intros F NF pre suf d rdata wdata Hd Hs. split; [intros t; now apply torch_bcast_index_suffix|].
  rewrite (weight_expansion_is_broadcast pre suf d rdata wdata Hd Hs). f_equal. apply map_ext. intros t.
  now rewrite torch_bcast_index_suffix.
Qed.
(* weights with leading extents 1 (1*N*R*R, 1*1*R*R, ...): any batch shape with as many items as a suffix expands
   like it, and for 1*..*1*suf that is again torch's broadcast *)
Theorem C07_weight_expansion_same_count :
  forall (F : Type) (NF : Num F) (pre suf ws : list nat) (d : nat) (rdata wdata : list F),
  (0 < d)%nat -> (0 < prodn suf)%nat -> prodn ws = prodn suf ->
  expand_weight {| tshape := (pre ++ suf) ++ [d]; tdata := rdata |} {| tshape := ws ++ [d; d]; tdata := wdata |}
  = Some (map (fun t => wblock d wdata (t mod prodn suf)) (seq 0 (prodn pre * prodn suf))).
Proof. intros F NF. exact expand_weight_same_count. Qed.
Theorem C07_weight_leading_ones_is_torch_broadcast : forall (pre suf : list nat) k t, (0 < prodn suf)%nat ->
  torch_bcast_index (pre ++ suf) (repeat 1%nat k ++ suf) t = (t mod prodn suf)%nat /\
  prodn (repeat 1%nat k ++ suf) = prodn suf.
Proof. exact torch_bcast_index_leading_ones. Qed.

(* REFUTED beyond the documented forms: "the corresponding residual and weight should be broadcastable" read as
   torch broadcasting allows a weight with an INNER extent 1 (residual B*N*R, weight B*1*R*R).  normalize_RWJ
   accepts it without raising and pairs the wrong items: residual 2*2*1, weight 2*1*1*1 = (1, 2) gives
   diag(1, 2, 1, 2) where torch's broadcast is diag(1, 1, 2, 2) *)
Theorem C07_weight_inner_singleton_refuted :
  exists (rs ws : list nat) (d : nat) (rdata wdata : list R) blocks,
    expand_weight {| tshape := rs ++ [d]; tdata := rdata |} {| tshape := ws ++ [d; d]; tdata := wdata |} = Some blocks /\
    blocks <> map (fun t => wblock d wdata (torch_bcast_index rs ws t)) (seq 0 (prodn rs)).
Proof. exact inner_singleton_refuted. Qed.

(* any number of residuals, each with a weight of a documented shape (wres: residual pre ++ suf ++ [d], weight
   suf ++ [d; d]): normalize_RWJ returns R = the concatenated residual data, W = block_diag of ALL blocks in
   residual order, a square matrix of the size of R, and W @ R multiplies item t of residual k by weight item
   t mod |suf_k| of weight k *)
Theorem C07_weighted_residuals_are_broadcast : forall (specs : list wres) (Js : list (@mat R)),
  Forall wres_ok specs ->
  let Rv := concat (map w_r specs) in
  let Ms := concat (map wres_blocks specs) in
  normalize_RWJ (map wres_R specs) (Some (map wres_W specs)) Js = Some (Rv, Some (block_diag Ms), concat Js) /\
  mapply (block_diag Ms) Rv = concat (map wres_WR specs) /\
  ((0 < length Rv)%nat -> wf (length Rv) (length Rv) (block_diag Ms)).
Proof. exact weighted_residuals_are_broadcast. Qed.

(* ========================================================================================== *)
(* 9. COLUMN LAYOUT = SPLIT OFFSETS.  The flattened Jacobian of a residual with n elements: block i (flat,
      n x numel(p_i), as modjac returns it) of a trainable parameter occupies the columns
      toffset ps i .. toffset ps i + numel(p_i) - 1 -- the positions of the slice C07_update_split hands to
      parameter i.  Guards = what torch enforces (reshape(-1, 0) and cat of different row counts raise). *)
Theorem C07_jacobian_column_layout : forall (Jr : list (list R)) (ps : list (@param R)) n,
  length Jr = length ps -> (0 < n)%nat ->
  (forall k, (k < length ps)%nat -> preq (nth k ps pdflt) = true ->
     (0 < pnumel (nth k ps pdflt))%nat /\ length (nth k Jr []) = (n * pnumel (nth k ps pdflt))%nat) ->
  (exists k, (k < length ps)%nat /\ preq (nth k ps pdflt) = true) ->
  wf n (sumnat (map (@pnumel R) (filter (@preq R) ps))) (flatten_row_jacobian Jr ps) /\
  forall r i c, (r < n)%nat -> (i < length ps)%nat -> preq (nth i ps pdflt) = true -> (c < pnumel (nth i ps pdflt))%nat ->
    mget (flatten_row_jacobian Jr ps) r (toffset ps i + c) =
    nth (r * pnumel (nth i ps pdflt) + c) (nth i Jr []) 0.
Proof. exact flatten_column_layout. Qed.

(* ... hence the linearised model J delta, parameter by parameter: the predicted change of residual element r is
   the sum over the trainable parameters i of (row r of modjac's block i) . (the slice update_parameter hands to
   parameter i); by_param ps g = sum over trainable i, c < numel(p_i) of g i c.  The split of the step and the
   column layout of the Jacobian agree for any number of parameters, any sizes, frozen parameters anywhere *)
Theorem C07_linear_model_by_parameter :
  forall (Jr : list (list R)) (ps : list (@param R)) n (delta : list R) r,
  length Jr = length ps -> (0 < n)%nat ->
  (forall k, (k < length ps)%nat -> preq (nth k ps pdflt) = true ->
     (0 < pnumel (nth k ps pdflt))%nat /\ length (nth k Jr []) = (n * pnumel (nth k ps pdflt))%nat) ->
  (exists k, (k < length ps)%nat /\ preq (nth k ps pdflt) = true) ->
  (r < n)%nat ->
  vget (mapply (flatten_row_jacobian Jr ps) delta) r =
  by_param ps (fun i c => nth (r * pnumel (nth i ps pdflt) + c) (nth i Jr []) 0 * vget (slice_of ps i delta) c) /\
  (forall f, sumn (sumnat (map (@pnumel R) (filter (@preq R) ps))) f = by_param ps (fun i c => f (toffset ps i + c)%nat)).
Proof.
  intros Jr ps n delta r H1 H2 H3 H4 H5. split; [now apply (linear_model_by_parameter Jr ps n) | apply sumn_by_param].
Qed.

(* ========================================================================================== *)
(* 10. CORRECTORS.  __init__: a corrector argument wins over the kernel; a kernel without corrector gives
       FastTriggs(kernel_i) (FastTriggs(Trivial()) for a None entry); None entries of a corrector list are Trivial *)
Theorem C07_init_correctors : forall kernel corrector,
  init_correctors kernel corrector =
  match corrector, kernel with
  | Some cs, _ => map (fun c => match c with Some c => CUser c | None => CTrivial end) cs
  | None, Some ks => map (fun k => CFast k) ks
  | None, None => [CTrivial]
  end.
Proof. exact init_correctors_spec. Qed.

(* the loop returns exactly when there is one corrector or at least as many correctors as residuals; residual t
   and its Jacobian go through corrector[0] when there is one corrector, through corrector[t] otherwise *)
Theorem C07_corrector_assignment :
  forall (corr : cid -> @tensor R -> @mat R -> @tensor R * @mat R) (RJ : list (@tensor R * @mat R)) cs,
  ((exists out, correct_from corr cs 0 RJ = Some out) <-> (length cs = 1%nat \/ (length RJ <= length cs)%nat)) /\
  forall out, correct_from corr cs 0 RJ = Some out ->
    length out = length RJ /\
    forall t dR dJ, (t < length RJ)%nat ->
      nth t out (dR, dJ) =
      apply_corr corr (if Nat.eqb (length cs) 1 then nth 0 cs CTrivial else nth t cs CTrivial)
                 (fst (nth t RJ (dR, dJ))) (snd (nth t RJ (dR, dJ))).
Proof.
  intros corr RJ cs. split; [apply correct_from_returns_iff|]. intros out H. exact (correct_from_items corr RJ out cs H).
Qed.

(* what step() hands to the linear system: every (residual, trainable-column Jacobian) pair through its corrector,
   then R = cat of the residual data, J = cat of the Jacobians (rows), W = block_diag of the expanded weights *)
Theorem C07_assemble_spec :
  forall (corr : cid -> @tensor R -> @mat R -> @tensor R * @mat R) (pb : @problem R) Rv W J,
  assemble corr pb = Some (Rv, W, J) ->
  exists RJ,
    correct_from corr (pbC pb) 0 (combine (pbR pb) (map (fun Jr => flatten_row_jacobian Jr (pbP pb)) (pbJ pb))) = Some RJ /\
    Rv = concat (map (fun rj => tdata (fst rj)) RJ) /\
    J = concat (map snd RJ) /\
    match pbW pb with
    | None => W = None
    | Some Ws => length RJ = length Ws /\
                 exists l, expand_weights (map fst RJ) Ws = Some l /\ W = Some (block_diag l)
    end.
Proof. exact assemble_spec. Qed.

(* for documented shapes the assembled system is well shaped: R of length N, J of N x m, W of N x N -- the guard
   under which the model's (total) matrix products are torch's (which raises on a shape mismatch) *)
Theorem C07_assemble_wellformed :
  forall (corr : cid -> @tensor R -> @mat R -> @tensor R * @mat R) (pb : @problem R) RJ (specs : list wres) m,
  correct_from corr (pbC pb) 0 (combine (pbR pb) (map (fun Jr => flatten_row_jacobian Jr (pbP pb)) (pbJ pb))) = Some RJ ->
  map fst RJ = map wres_R specs -> Forall wres_ok specs ->
  Forall2 (fun n J => wf n m J) (map (fun s => length (w_r s)) specs) (map snd RJ) -> specs <> [] ->
  (pbW pb = None \/ pbW pb = Some (map wres_W specs)) ->
  let Rv := concat (map w_r specs) in
  let N := length Rv in
  exists W, assemble corr pb = Some (Rv, W, concat (map snd RJ)) /\
    wf N m (concat (map snd RJ)) /\
    (pbW pb = None -> W = None) /\
    (pbW pb <> None -> exists W', W = Some W' /\ wf N N W' /\ W' = block_diag (concat (map wres_blocks specs)) /\
                                 mapply W' Rv = concat (map wres_WR specs)).
Proof. exact assemble_wellformed. Qed.

(* ========================================================================================== *)
(* 11. ONE LM CALL AS A HISTORY.  Trial j+1 works on the matrix trial j left (A is modified in place); script =
       (damping at the solve, parameter values the trial starts from -- arbitrary, so every accept / reject
       pattern is covered), any number of trials.  The (k+1)-th trial solves  A_(k+1) x = -J_T R  with
       A_(k+1) = A_0 damped by lam_1 .. lam_(k+1) cumulatively, entries in closed form *)
Theorem C07_lm_call_history :
  forall (gexp : nat -> list R -> list R) (solver : @mat R -> list R -> option (list R)),
  (forall A b x, solver A b = Some x -> mapply A x = b) ->
  forall n mn mx (JT J : @mat R) Rv script outs,
  wf n n (mmul JT J) ->
  lm_chain gexp solver (lm_A0 mn mx JT J) JT Rv script outs ->
  length outs = length script /\
  forall k, (k < length script)%nat ->
    let o := nth k outs odflt in
    let lams := map fst (firstn (S k) script) in
    tA o = lm_A (lm_A0 mn mx JT J) lams /\
    (forall i j, (i < n)%nat -> (j < n)%nat ->
       mget (tA o) i j = if Nat.eqb i j then clampT mn mx (mget (mmul JT J) i i) * prodR (map (fun l => 1 + l) lams)
                         else mget (mmul JT J) i j) /\
    tb o = lm_b JT Rv /\
    mapply (tA o) (tD o) = tb o /\
    update_parameter gexp (snd (nth k script (0, []))) (tD o) = Some (tP o).
Proof.
  intros gexp solver Hs n mn mx JT J Rv script outs Hw Hc.
  destruct (lm_chain_history gexp solver script outs _ JT Rv Hc) as [HL Hk]. split; [exact HL|].
  intros k Hlt. cbv zeta. destruct (Hk k Hlt) as (K1 & K2 & K3 & K4).
  split; [exact K1|]. split; [|split; [exact K2|split; [now apply Hs | exact K4]]].
  intros i j Hi Hj. rewrite K1. now apply (lm_diag_closed_form n).
Qed.

(* when a GN step / an LM trial happens: GN returns exactly when the assembly returns and the solver answers
   with one entry per trainable parameter element; an LM trial breaks the loop when the solver raises, raises
   itself when the answer has another length, and otherwise updates the parameters with the solver's answer *)
Theorem C07_step_outcomes :
  forall (corr : cid -> @tensor R -> @mat R -> @tensor R * @mat R) (gexp : nat -> list R -> list R)
         (solver : @mat R -> list R -> option (list R)),
  (forall pb : @problem R,
     (exists o, gn_step corr gexp solver pb = Some o) <->
     exists Rv W J D, assemble corr pb = Some (Rv, W, J) /\
       solver (fst (gn_system Rv W J)) (snd (gn_system Rv W J)) = Some D /\
       length D = sumnat (map (@pnumel R) (filter (@preq R) (pbP pb)))) /\
  forall Aprev JT Rv lam (ps : list (@param R)),
    let A := lm_damp lam Aprev in let b := lm_b JT Rv in
    let m := sumnat (map (@pnumel R) (filter (@preq R) ps)) in
    (lm_trial gexp solver Aprev JT Rv lam ps = TSolverFailed <-> solver A b = None) /\
    (lm_trial gexp solver Aprev JT Rv lam ps = TRaise <-> exists D, solver A b = Some D /\ length D <> m) /\
    (forall o, lm_trial gexp solver Aprev JT Rv lam ps = TDone o <->
       tA o = A /\ tb o = b /\ solver A b = Some (tD o) /\ length (tD o) = m /\
       update_parameter gexp ps (tD o) = Some (tP o)).
Proof.
  intros corr gexp solver. split; [exact (gn_step_returns_iff corr gexp solver) | exact (lm_trial_outcomes gexp solver)].
Qed.

(* A.diagonal().add_(A.diagonal() * damping) is the documented A <- A + damping * diag(A) *)
Theorem C07_lm_damping_documented : forall n (lam : R) (A : @mat R), wf n n A ->
  lm_damp lam A = madd A (mscale lam (mdiag A)) /\
  forall lams, lm_A A (lams ++ [lam]) = madd (lm_A A lams) (mscale lam (mdiag (lm_A A lams))).
Proof.
  intros n lam A HA. split; [now apply (lm_damp_documented n)|].
  intros lams. rewrite lm_A_snoc. apply (lm_damp_documented n). now apply wf_lm_A.
Qed.

(* ========================================================================================== *)
(* 12. THE GN STEP IS THE WEIGHTED LEAST-SQUARES MINIMISER.  wresid W J R y = W (J y + R)  (J y + R without
       weight).  A GN step that returns, on a well-shaped system (C07_assemble_wellformed), under the
       least-squares contract of the solver: the step has one entry per trainable parameter element and minimises
       |W (J y + R)|^2 over ALL y; that step is what update_parameter applies *)
Theorem C07_gn_step_minimises :
  forall (corr : cid -> @tensor R -> @mat R -> @tensor R * @mat R) (gexp : nat -> list R -> list R)
         (solver : @mat R -> list R -> option (list R)) (pb : @problem R) o Rv W J N,
  (forall A b x, solver A b = Some x -> mapply (mtr A) (mapply A x) = mapply (mtr A) b) ->
  gn_step corr gexp solver pb = Some o -> assemble corr pb = Some (Rv, W, J) ->
  let m := sumnat (map (@pnumel R) (filter (@preq R) (pbP pb))) in
  wf N m J -> length Rv = N -> (forall W', W = Some W' -> wf N N W') ->
  length (tD o) = m /\
  (forall y, length y = m -> sqn (wresid W J Rv (tD o)) <= sqn (wresid W J Rv y)) /\
  update_parameter gexp (pbP pb) (tD o) = Some (tP o).
Proof. exact gn_step_minimises. Qed.

(* the minimisers of |A y - b|^2 are exactly the solutions of the normal equations
   (<- is C07_normal_equations_are_least_squares) *)
Theorem C07_minimisers_solve_normal_equations : forall n m (A : @mat R) (b x y : list R),
  wf n m A -> length b = n -> length x = m ->
  mapply (mtr A) (mapply A x) = mapply (mtr A) b ->
  is_ls_minimiser m A b y -> mapply (mtr A) (mapply A y) = mapply (mtr A) b.
Proof. exact minimiser_normal_eq. Qed.

(* what the weight means in a GN step: the normal equations of (W J, -W R) are J^T (W^T W) J d = -J^T (W^T W) R,
   the weight enters SQUARED; LM's undamped system is J^T W J d = -J^T W R (C07_lm_normal_equations) *)
Theorem C07_gn_weight_enters_squared : forall N m (W J : @mat R) (Rv D : list R),
  wf N N W -> wf N m J -> length Rv = N -> length D = m ->
  mapply (mtr (mmul W J)) (mapply (mmul W J) D) = mapply (mtr (mmul W J)) (mapply (mneg W) Rv) ->
  mapply (mmul (mmul (mtr J) (mmul (mtr W) W)) J) D = vneg (mapply (mmul (mtr J) (mmul (mtr W) W)) Rv).
Proof. exact gn_normal_eq_weight_squared. Qed.
(* witness: residual items r = (x + 1, x), weights (1, 2), J = [1 1]^T: every least-squares answer for the GN
   system is -1/5 (the minimiser of sum w^2 r^2); LM's undamped, unclamped system gives -1/3 (the minimiser of
   sum w r^2, the objective both docstrings state) *)
Theorem C07_gn_lm_weight_witness : forall d : R,
  (mapply (mtr (mmul sqW sqJ)) (mapply (mmul sqW sqJ) [d]) = mapply (mtr (mmul sqW sqJ)) (mapply (mneg sqW) sqR) -> d = -1/5) /\
  (mapply (mmul (mmul (mtr sqJ) sqW) sqJ) [d] = mapply (mneg (mmul (mtr sqJ) sqW)) sqR -> d = -1/3).
Proof. exact gn_lm_weight_witness. Qed.

(* MINIMUM NORM.  For a Moore-Penrose pseudo-inverse P of A (the four Penrose equations), P b is a least-squares
   minimiser and has the smallest norm among ALL minimisers -- any shape, any rank *)
Theorem C07_pinv_min_norm : forall n m (A P : @mat R) (b : list R),
  wf n m A -> penrose n m A P -> length b = n ->
  is_ls_minimiser m A b (mapply P b) /\
  forall y, is_ls_minimiser m A b y -> sqn (mapply P b) <= sqn y.
Proof. exact pinv_min_norm. Qed.

(* ... hence the GN step with the default solver PINV (pinv(A) @ b; contract: pinv returns a pseudo-inverse of
   the system matrix) moves the parameters by THE minimum-norm minimiser of |W (J y + R)|^2 *)
Theorem C07_gn_default_solver_min_norm :
  forall (corr : cid -> @tensor R -> @mat R -> @tensor R * @mat R) (gexp : nat -> list R -> list R)
         (pinv : @mat R -> @mat R) (pb : @problem R) o Rv W J N,
  gn_step corr gexp (pinv_solver pinv) pb = Some o -> assemble corr pb = Some (Rv, W, J) ->
  let m := sumnat (map (@pnumel R) (filter (@preq R) (pbP pb))) in
  wf N m J -> length Rv = N -> (forall W', W = Some W' -> wf N N W') ->
  penrose N m (fst (gn_system Rv W J)) (pinv (fst (gn_system Rv W J))) ->
  tA o = fst (gn_system Rv W J) /\ tb o = snd (gn_system Rv W J) /\ tD o = mapply (pinv (tA o)) (tb o) /\
  is_ls_minimiser m (tA o) (tb o) (tD o) /\
  (forall y, is_ls_minimiser m (tA o) (tb o) y -> sqn (tD o) <= sqn y) /\
  (forall y, length y = m -> vminus (mapply (tA o) y) (tb o) = wresid W J Rv y).
Proof. exact gn_step_pinv_min_norm. Qed.

(* ========================================================================================== *)
(* 13. THE UPDATE IN TERMS OF THE STEP VECTOR (any update that returns; o = offset in the step).
       Euclidean parameter i, entry k:  p[k] <- p[k] + step[toffset + k] *)
Theorem C07_update_euclid_entries : forall eps (ps ps' : list (@param R)) step i,
  update_parameter (exp_l eps) ps step = Some ps' -> (i < length ps)%nat ->
  preq (nth i ps pdflt) = true -> pk (nth i ps pdflt) = Euclid ->
  length (pdata (nth i ps' pdflt)) = pnumel (nth i ps pdflt) /\
  forall k, (k < pnumel (nth i ps pdflt))%nat ->
    vget (pdata (nth i ps' pdflt)) k = vget (pdata (nth i ps pdflt)) k + vget step (toffset ps i + k).
Proof. intros eps. exact (update_euclid_entries (exp_l eps)). Qed.

(* LieTensor parameter i with n items: algebra item t:  x_t <- x_t + step[o : o + manifold dim];
   group item t:  X_t <- Exp(step[o : o + manifold dim]) X_t  (the entry step[o + manifold dim] is not read) *)
Theorem C07_update_lietensor_items : forall eps (ps ps' : list (@param R)) step i n,
  update_parameter (exp_l eps) ps step = Some ps' -> (i < length ps)%nat ->
  preq (nth i ps pdflt) = true -> pk (nth i ps pdflt) <> Euclid ->
  pnumel (nth i ps pdflt) = (n * pwidth (pk (nth i ps pdflt)))%nat ->
  length (pdata (nth i ps' pdflt)) = pnumel (nth i ps pdflt) /\
  forall t, (t < n)%nat ->
    let w := pwidth (pk (nth i ps pdflt)) in
    let o := (toffset ps i + t * w)%nat in
    chunk w t (pdata (nth i ps' pdflt)) =
    match pk (nth i ps pdflt) with
    | Euclid => chunk w t (pdata (nth i ps pdflt))
    | Algebra g => zipw Rplus (chunk w t (pdata (nth i ps pdflt))) (firstn (adim g) (skipn o step))
    | Group g => g_mul g (exp_l eps g (firstn (adim g) (skipn o step))) (chunk w t (pdata (nth i ps pdflt)))
    end.
Proof. intros eps. exact (update_lie_items_kinds (exp_l eps)). Qed.

(* ========================================================================================== *)
(* 14. INSTANCES: the hypotheses of the theorems above are satisfiable on non-trivial inputs.
       LM on free_pb (R = [1], J = [1 1]) with min = 2, max = 3: the clamp is ACTIVE (diag of J^T J is 1),
       two trials with damping 1 (first one rejected or not): A_k = [[2 * 2^k, 1], [1, 2 * 2^k]] *)
Example C07_lm_call_instance :
  forall corr gexp (solver : @mat R -> list R -> option (list R)) (ps1 ps2 : list (@param R)) D1 D2,
  lm_init corr 2 3 free_pb = Some (lmA0, lmJT, [1]) /\ lmA0 = lm_A0 2 3 lmJT lmJ /\ wf 2 2 (mmul lmJT lmJ) /\
  (forall lams i j, (i < 2)%nat -> (j < 2)%nat ->
     mget (lm_A lmA0 lams) i j = if Nat.eqb i j then 2 * prodR (map (fun l => 1 + l) lams) else 1) /\
  mapply (lm_A lmA0 [1; 1]) [-1/9; -1/9] = vneg (mapply lmJT [1]) /\
  (solver (lm_A lmA0 [1]) (lm_b lmJT [1]) = Some D1 -> solver (lm_A lmA0 [1; 1]) (lm_b lmJT [1]) = Some D2 ->
   length D1 = sumnat (map (@pnumel R) (filter (@preq R) ps1)) ->
   length D2 = sumnat (map (@pnumel R) (filter (@preq R) ps2)) ->
   exists outs, lm_chain gexp solver lmA0 lmJT [1] [(1, ps1); (1, ps2)] outs /\ map (@tD R) outs = [D1; D2]).
Proof.
  intros corr gexp solver ps1 ps2 D1 D2.
  split; [apply lm_instance_init|]. split; [reflexivity|]. split; [apply lm_instance_JTJ|].
  split; [intros lams i j; apply lm_instance_entries|]. split; [exact lm_instance_second_system|].
  apply lm_instance_chain.
Qed.

(* a weighted GN step with a group parameter: residual 2*1, weight N*R*R = 2*1*1 = (2, 3), a Euclidean scalar and
   one SO3 item; the assembly, the shapes asked by C07_gn_step_minimises / C07_assemble_wellformed, the retraction *)
Example C07_weighted_group_step_instance :
  forall corr gexp (solver : @mat R -> list R -> option (list R)) r0 r1 a1 a2 a3 b1 b2 b3 d0 d1 d2 d3 d4,
  let J := [[1; a1; a2; a3; 0]; [1; b1; b2; b3; 0]] in
  let W := [[2; 0]; [0; 3]] in
  let pb := wpb r0 r1 a1 a2 a3 b1 b2 b3 in
  assemble corr pb = Some ([r0; r1], Some W, J) /\ wf 2 5 J /\ wf 2 2 W /\
  sumnat (map (@pnumel R) (filter (@preq R) (pbP pb))) = 5%nat /\
  (solver (mmul W J) (mapply (mneg W) [r0; r1]) = Some [d0; d1; d2; d3; d4] ->
   exists o, gn_step corr gexp solver pb = Some o /\
     map (@pdata R) (tP o) = [[0 + d0]; g_mul 0 (gexp 0%nat [d1; d2; d3]) [0; 0; 0; 1]]).
Proof.
  intros. split; [apply wpb_assemble|]. split; [exact (proj1 (wpb_shapes a1 a2 a3 b1 b2 b3))|].
  split; [exact (proj2 (wpb_shapes a1 a2 a3 b1 b2 b3))|]. split; [reflexivity | apply wpb_steps].
Qed.
Example C07_assemble_wellformed_instance : forall corr r0 r1 a1 a2 a3 b1 b2 b3,
  let pb := wpb r0 r1 a1 a2 a3 b1 b2 b3 in
  let specs := [ {| w_pre := []; w_suf := [2%nat]; w_d := 1%nat; w_r := [r0; r1]; w_w := [2; 3] |} ] in
  let RJ := [({| tshape := [2; 1]%nat; tdata := [r0; r1] |}, [[1; a1; a2; a3; 0]; [1; b1; b2; b3; 0]])] in
  correct_from corr (pbC pb) 0 (combine (pbR pb) (map (fun Jr => flatten_row_jacobian Jr (pbP pb)) (pbJ pb))) = Some RJ /\
  map fst RJ = map wres_R specs /\ Forall wres_ok specs /\
  Forall2 (fun n J => wf n 5 J) (map (fun s => length (w_r s)) specs) (map snd RJ) /\ specs <> [] /\
  pbW pb = Some (map wres_W specs).
Proof. exact wpb_wellformed_hyps. Qed.
(* the solver contracts are satisfiable TOGETHER with a returning step: a solver that satisfies the least-squares
   contract on ALL systems and answers the system of the weighted instance (a = b = 0): the step moves only the
   Euclidean scalar, by -(4 r0 + 9 r1) / 13 ... *)
Example C07_gn_step_minimises_instance : forall corr gexp (r0 r1 : R),
  let pb := wpb r0 r1 0 0 0 0 0 0 in
  let x0 := [- (4 * r0 + 9 * r1) / 13; 0; 0; 0; 0] in
  exists solver : @mat R -> list R -> option (list R),
    (forall A b x, solver A b = Some x -> mapply (mtr A) (mapply A x) = mapply (mtr A) b) /\
    exists o, gn_step corr gexp solver pb = Some o /\ tD o = x0.
Proof. exact wpb_full_instance. Qed.
(* ... and an exact solver (contract on ALL systems) under which an LM call on free_pb with the active clamp has
   a first trial: 4 x + y = -1, x + 4 y = -1 *)
Example C07_lm_call_history_instance : forall gexp,
  exists solver : @mat R -> list R -> option (list R),
    (forall A b x, solver A b = Some x -> mapply A x = b) /\
    exists o, lm_chain gexp solver lmA0 lmJT [1] [(1, pbP free_pb)] [o] /\ tD o = [-1/5; -1/5].
Proof. exact lm_full_instance. Qed.
(* the hypotheses of C07_jacobian_column_layout / C07_linear_model_by_parameter on that problem (n = 2) *)
Example C07_column_layout_instance : forall r0 r1 a1 a2 a3 b1 b2 b3 : R,
  let pb := wpb r0 r1 a1 a2 a3 b1 b2 b3 in
  let Jr := [[1; 1]; [a1; a2; a3; 0; b1; b2; b3; 0]] in
  pbJ pb = [Jr] /\ length Jr = length (pbP pb) /\ (0 < 2)%nat /\
  (forall k, (k < length (pbP pb))%nat -> preq (nth k (pbP pb) pdflt) = true ->
     (0 < pnumel (nth k (pbP pb) pdflt))%nat /\ length (nth k Jr []) = (2 * pnumel (nth k (pbP pb) pdflt))%nat) /\
  (exists k, (k < length (pbP pb))%nat /\ preq (nth k (pbP pb) pdflt) = true) /\
  flatten_row_jacobian Jr (pbP pb) = [[1; a1; a2; a3; 0]; [1; b1; b2; b3; 0]] /\
  toffset (pbP pb) 1 = 1%nat.
Proof. exact wpb_layout_hyps. Qed.
Example C07_two_weighted_residuals_instance : forall r0 r1 r2 r3 s0 s1 w0 w1 v0 : R,
  Forall wres_ok [ {| w_pre := [2%nat]; w_suf := [2%nat]; w_d := 1%nat; w_r := [r0; r1; r2; r3]; w_w := [w0; w1] |};
                   {| w_pre := [2%nat]; w_suf := []; w_d := 1%nat; w_r := [s0; s1]; w_w := [v0] |} ].
Proof. exact wres_instance. Qed.

(* the Penrose contract is satisfiable: A = [1 1] (the system of free_pb), pinv A = [1/2 1/2]^T; the default
   solver then moves both parameters by -1/2, the minimum-norm solution of d1 + d2 = -1 *)
Example C07_default_solver_instance : forall corr gexp (pinv : @mat R -> @mat R),
  penrose 1 2 pA pP /\
  (pinv pA = pP ->
   exists o, gn_step corr gexp (pinv_solver pinv) free_pb = Some o /\ tA o = pA /\
             tD o = mapply pP (vneg [1]) /\ vget (tD o) 0 = -1/2 /\ vget (tD o) 1 = -1/2).
Proof. intros. split; [exact pinv_instance_penrose | apply pinv_instance_steps]. Qed.

Print Assumptions C07_weight_expansion_is_broadcast.
Print Assumptions C07_block_diag_acts_blockwise.
Print Assumptions C07_weighted_residual_is_broadcast.
Print Assumptions C07_weighted_jacobian_columnwise.
Print Assumptions C07_lm_diag_closed_form.
Print Assumptions C07_clamp_is_documented.
Print Assumptions C07_gn_normal_equations.
Print Assumptions C07_normal_equations_are_least_squares.
Print Assumptions C07_lm_normal_equations.
Print Assumptions C07_update_split.
Print Assumptions C07_add_euclid.
Print Assumptions C07_add_lietensor.
Print Assumptions C07_extra_slot_ignored.
Print Assumptions C07_frozen_untouched.
Print Assumptions C07_update_returns_iff.
Print Assumptions C07_jacobian_has_trainable_columns.
Print Assumptions C07_gn_step_with_frozen.
Print Assumptions C07_old_step_with_frozen_raises.
Print Assumptions C07_old_zip_paired_all_params_with_trainable_slices.
Print Assumptions C07_old_gn_step_with_frozen_refuted.
Print Assumptions C07_gn_step_with_frozen_witness.
Print Assumptions C07_gn_step_without_frozen.
Print Assumptions C07_solver_contract_satisfiable.
Print Assumptions C07_weight_expansion_any_shape.
Print Assumptions C07_weight_expansion_is_torch_broadcast.
Print Assumptions C07_weight_expansion_same_count.
Print Assumptions C07_weight_leading_ones_is_torch_broadcast.
Print Assumptions C07_weight_inner_singleton_refuted.
Print Assumptions C07_weighted_residuals_are_broadcast.
Print Assumptions C07_jacobian_column_layout.
Print Assumptions C07_linear_model_by_parameter.
Print Assumptions C07_init_correctors.
Print Assumptions C07_corrector_assignment.
Print Assumptions C07_assemble_spec.
Print Assumptions C07_assemble_wellformed.
Print Assumptions C07_lm_call_history.
Print Assumptions C07_step_outcomes.
Print Assumptions C07_lm_damping_documented.
Print Assumptions C07_gn_step_minimises.
Print Assumptions C07_minimisers_solve_normal_equations.
Print Assumptions C07_gn_weight_enters_squared.
Print Assumptions C07_gn_lm_weight_witness.
Print Assumptions C07_pinv_min_norm.
Print Assumptions C07_gn_default_solver_min_norm.
Print Assumptions C07_update_euclid_entries.
Print Assumptions C07_update_lietensor_items.
Print Assumptions C07_lm_call_instance.
Print Assumptions C07_weighted_group_step_instance.
Print Assumptions C07_assemble_wellformed_instance.
Print Assumptions C07_gn_step_minimises_instance.
Print Assumptions C07_lm_call_history_instance.
Print Assumptions C07_column_layout_instance.
Print Assumptions C07_two_weighted_residuals_instance.
Print Assumptions C07_default_solver_instance.
