(* C07 - A GN/LM step is the documented damped, weighted linear solve on the manifold.
   Statements only; proofs in Proofs/Optim.v, model in Model/Optim.v.

   What is a hypothesis here (Section variables, never axioms): the linear solver with its contract
   (GN: the answer satisfies the normal equations of the system it was given, i.e. it is a
   least-squares solution; LM: it solves the square system), the correctors (C09), the Jacobian
   blocks J[i][j] (C04).  The group retraction uses the modelled exponential map of Model/LieExp.v.
   Minimum-norm of the default GN solver (PINV) is a property of the solver (C10) and is checked on the
   implementation by the correspondence harness only. *)
From Coq Require Import Reals List Arith.
Import ListNotations.
From PV Require Import Base.Num Base.Mat Model.LieGroup Model.LieExp Model.Optim Proofs.Optim.
#[local] Remove Hints NumQ NumZ : typeclass_instances.
Local Open Scope R_scope.

(* ------------------------------------------------------------------------------------------ *)
(* 1. weight expansion: for every residual shape pre ++ suf ++ [d] and every documented weight shape
      suf ++ [d; d] (R*R, N*R*R, M*N*R*R, ...; d = 1 included) normalize_RWJ builds one d x d block
      per residual item t, namely weight item t mod |suf|: the weight broadcast over the leading
      batch dimensions.  Any number type, any rank, any sizes. *)
Theorem C07_weight_expansion_is_broadcast :
  forall (F : Type) (NF : Num F) (pre suf : list nat) (d : nat) (rdata wdata : list F),
  (0 < d)%nat -> (0 < prodn suf)%nat ->
  expand_weight {| tshape := pre ++ suf ++ [d]; tdata := rdata |}
                {| tshape := suf ++ [d; d]; tdata := wdata |}
  = Some (map (fun t => wblock d wdata (t mod prodn suf)) (seq 0 (prodn pre * prodn suf))).
Proof. intros F NF. exact weight_expansion_is_broadcast. Qed.

(* torch.block_diag acts block by block (any list of blocks, any sizes) ... *)
Theorem C07_block_diag_acts_blockwise : forall (Ms : list (@mat R)) (vs : list (list R)),
  Forall2 blk_ok Ms vs -> mapply (block_diag Ms) (concat vs) = concat (zipw mapply Ms vs).
Proof. intros Ms vs H. exact (proj1 (mapply_block_diag Ms vs H)). Qed.

(* ... hence W @ R multiplies residual item t by weight item t mod |suf| *)
Theorem C07_weighted_residual_is_broadcast :
  forall (pre suf : list nat) (d : nat) (rdata wdata : list R),
  (0 < d)%nat -> (0 < prodn suf)%nat ->
  length wdata = (prodn suf * (d * d))%nat -> length rdata = (prodn pre * prodn suf * d)%nat ->
  exists Ms, expand_weight {| tshape := pre ++ suf ++ [d]; tdata := rdata |}
                           {| tshape := suf ++ [d; d]; tdata := wdata |} = Some Ms /\
    mapply (block_diag Ms) rdata =
    concat (map (fun t => mapply (wblock d wdata (t mod prodn suf)) (chunk d t rdata))
                (seq 0 (prodn pre * prodn suf))).
Proof. exact weighted_residual_is_broadcast. Qed.

(* ... and the same holds for every column of the weighted Jacobian W @ J *)
Theorem C07_weighted_jacobian_columnwise : forall n m (W J : @mat R) i j,
  wf n n W -> wf n m J -> (i < n)%nat -> (j < m)%nat ->
  mget (mmul W J) i j = vget (mapply W (mcol_of j J)) i.
Proof. exact mmul_columns. Qed.

(* ------------------------------------------------------------------------------------------ *)
(* 2. the LM matrix: after k trials of one call (dampings lam_1 .. lam_k, any k, cumulative as coded)
      diag A_k = clamp(diag (J_T J)) * prod (1 + lam_j), off-diagonal entries are those of J_T J *)
Theorem C07_lm_diag_closed_form : forall n (mn mx : R) (JT J : @mat R) (lams : list R) i j,
  wf n n (mmul JT J) -> (i < n)%nat -> (j < n)%nat ->
  mget (lm_A (lm_A0 mn mx JT J) lams) i j =
    if Nat.eqb i j then clampT mn mx (mget (mmul JT J) i i) * prodR (map (fun l => 1 + l) lams)
    else mget (mmul JT J) i j.
Proof. exact lm_diag_closed_form. Qed.

Theorem C07_clamp_is_documented : forall lo hi x : R, lo <= hi ->
  clampT lo hi x = Rmin (Rmax x lo) hi /\ lo <= clampT lo hi x <= hi /\ (lo <= x <= hi -> clampT lo hi x = x).
Proof. exact clampT_spec. Qed.

(* ------------------------------------------------------------------------------------------ *)
Section C07.
Variable corr : cid -> @tensor R -> @mat R -> @tensor R * @mat R.
Variable eps : R.
Variable solver : @mat R -> list R -> option (list R).
Notation gexp := (exp_l eps).

(* 3. GN: the vector handed to update_parameter is the solver's answer for (W J, -W R) resp. (J, -R),
      R, J being the corrected, normalised residual and Jacobian; under the solver's contract it
      satisfies the normal equations of that system *)
Theorem C07_gn_normal_equations :
  (forall A b x, solver A b = Some x -> mapply (mtr A) (mapply A x) = mapply (mtr A) b) ->
  forall (pb : @problem R) o, gn_step corr gexp solver pb = Some o ->
  exists Rv W J, assemble corr pb = Some (Rv, W, J) /\
    tA o = (match W with None => J | Some W => mmul W J end) /\
    tb o = (match W with None => vneg Rv | Some W => mapply (mneg W) Rv end) /\
    (forall W' n m, W = Some W' -> wf n m W' -> tb o = vneg (mapply W' Rv)) /\
    mapply (mtr (tA o)) (mapply (tA o) (tD o)) = mapply (mtr (tA o)) (tb o) /\
    update_parameter gexp (pbP pb) (tD o) = Some (tP o).
Proof.
  intros Hs pb o H. destruct (gn_step_system corr gexp solver pb o H) as (Rv & W & J & Ha & HA & Hb & HD & HU).
  exists Rv, W, J. repeat split; try assumption.
  - intros W' n m -> HW. rewrite Hb. now apply (mapply_mneg n m).
  - now apply Hs.
Qed.

(* the normal equations say: least-squares solution of A x = b *)
Theorem C07_normal_equations_are_least_squares : forall n m (A : @mat R) (b x : list R),
  wf n m A -> length b = n -> length x = m ->
  mapply (mtr A) (mapply A x) = mapply (mtr A) b ->
  forall y, length y = m -> sqn (vminus (mapply A x) b) <= sqn (vminus (mapply A y) b).
Proof. exact normal_eq_minimises. Qed.

(* 4. LM: J_T = J^T W, A_0 = clampdiag(J_T J), and the (k+1)-th trial of a call (dampings lam_1..lam_k
      before it, lam now) hands update_parameter the solution of  A_(k+1) x = -J_T R  with
      A_(k+1) = A_k + lam diag(A_k);  entries of A_k in closed form by C07_lm_diag_closed_form *)
Theorem C07_lm_normal_equations :
  (forall A b x, solver A b = Some x -> mapply A x = b) ->
  forall mn mx (pb : @problem R) A0 JT Rv, lm_init corr mn mx pb = Some (A0, JT, Rv) ->
  (exists W J, assemble corr pb = Some (Rv, W, J) /\
     JT = (match W with None => mtr J | Some W => mmul (mtr J) W end) /\ A0 = lm_A0 mn mx JT J) /\
  forall lams lam ps o, lm_trial gexp solver (lm_A A0 lams) JT Rv lam ps = TDone o ->
    tA o = lm_A A0 (lams ++ [lam]) /\
    tb o = lm_b JT Rv /\ (forall n m, wf n m JT -> tb o = vneg (mapply JT Rv)) /\
    mapply (tA o) (tD o) = tb o /\
    update_parameter gexp ps (tD o) = Some (tP o).
Proof.
  intros Hs mn mx pb A0 JT Rv Hi. split.
  - destruct (lm_init_system corr mn mx pb A0 JT Rv Hi) as (W & J & H1 & H2 & H3). exists W, J. auto.
  - intros lams lam ps o Ht. destruct (lm_trial_system gexp solver _ _ _ _ _ _ Ht) as (HA & Hb & HD & HU).
    repeat split; try assumption.
    + rewrite HA. symmetry. apply lm_A_snoc.
    + intros n m HJT. rewrite Hb. now apply (mapply_mneg n m).
    + now apply Hs.
Qed.

(* 5. MAIN (repaired source, a845d9f).  update_parameter returns exactly when the step has one entry per
      element of the TRAINABLE parameters; then trainable parameter i receives exactly its slice of the
      trainable-only split (offset = elements of the trainable parameters before it) and every parameter
      with requires_grad = False stays untouched ... *)
Theorem C07_update_split : forall (ps : list (@param R)) step,
  length step = sumnat (map (@pnumel R) (filter (@preq R) ps)) ->
  exists ps', update_parameter gexp ps step = Some ps' /\ length ps' = length ps /\
    forall i, (i < length ps)%nat ->
      nth i ps' pdflt =
      if preq (nth i ps pdflt)
      then param_add gexp (nth i ps pdflt) (firstn (pnumel (nth i ps pdflt)) (skipn (toffset ps i) step))
      else nth i ps pdflt.
Proof. exact (update_split gexp). Qed.
Theorem C07_update_returns_iff : forall (ps : list (@param R)) step,
  (exists ps', update_parameter gexp ps step = Some ps') <->
  length step = sumnat (map (@pnumel R) (filter (@preq R) ps)).
Proof. exact (update_returns_iff gexp). Qed.

(* ... and the system that is solved is the one in the trainable columns: the flattened Jacobian of a
   residual is the unfiltered flattening of the blocks of the trainable parameters; the blocks modjac
   returns for frozen parameters do not enter *)
Theorem C07_jacobian_has_trainable_columns : forall (Jr : list (list R)) (ps : list (@param R)),
  length Jr = length ps ->
  flatten_row_jacobian Jr ps = flatten_row_jacobian_old (trainable_blocks Jr ps) (filter (@preq R) ps) /\
  (forall Jr', length Jr' = length ps ->
     (forall i, preq (nth i ps pdflt) = true -> nth i Jr [] = nth i Jr' []) ->
     flatten_row_jacobian Jr ps = flatten_row_jacobian Jr' ps) /\
  (forallb (@preq R) ps = true -> flatten_row_jacobian Jr ps = flatten_row_jacobian_old Jr ps).
Proof.
  intros Jr ps H. split; [now apply flatten_trainable_columns|]. split.
  - intros Jr' H' Hag. now apply flatten_frozen_irrelevant.
  - apply flatten_all_trainable.
Qed.

(* a GN step with frozen parameters: it happens as soon as the solver answers the (trainable-column) system
   with one entry per column, moves every trainable parameter by its slice and leaves the frozen ones *)
Theorem C07_gn_step_with_frozen : forall (pb : @problem R) Rv W J D,
  assemble corr pb = Some (Rv, W, J) ->
  solver (fst (gn_system Rv W J)) (snd (gn_system Rv W J)) = Some D ->
  length D = sumnat (map (@pnumel R) (filter (@preq R) (pbP pb))) ->
  exists o, gn_step corr gexp solver pb = Some o /\ tD o = D /\ length (tP o) = length (pbP pb) /\
    forall i, (i < length (pbP pb))%nat ->
      nth i (tP o) pdflt =
      if preq (nth i (pbP pb) pdflt)
      then param_add gexp (nth i (pbP pb) pdflt)
             (firstn (pnumel (nth i (pbP pb) pdflt)) (skipn (toffset (pbP pb) i) D))
      else nth i (pbP pb) pdflt.
Proof. exact (gn_step_returns corr gexp solver). Qed.

(* ... Euclidean tensors by addition ... *)
Theorem C07_add_euclid : forall (p : @param R) d, pk p = Euclid ->
  pdata (param_add gexp p d) = zipw Rplus (pdata p) d.
Proof. intros p d H. exact (proj1 (param_add_euclid gexp p d H)). Qed.

(* ... LieTensor parameters item by item of the last dimension: algebra items by addition of the
   first manifold-dimension entries, group items by the retraction Exp(delta[:k]) @ X *)
Theorem C07_add_lietensor : forall (p : @param R) d n, pk p <> Euclid ->
  pnumel p = (n * pwidth (pk p))%nat -> length d = (n * pwidth (pk p))%nat ->
  length (pdata (param_add gexp p d)) = pnumel p /\
  forall t, (t < n)%nat ->
    let w := pwidth (pk p) in
    chunk w t (pdata (param_add gexp p d)) =
    match pk p with
    | Euclid => chunk w t (pdata p)
    | Algebra g => zipw Rplus (chunk w t (pdata p)) (firstn (adim g) (chunk w t d))
    | Group g => g_mul g (exp_l eps g (firstn (adim g) (chunk w t d))) (chunk w t (pdata p))
    end.
Proof.
  intros p d n Hk Hn Hd. destruct (param_add_chunks gexp p d n Hk Hn Hd) as [HL HC]. split; [exact HL|].
  intros t Ht w. subst w. rewrite (HC t Ht). destruct (pk p); [congruence | reflexivity | reflexivity].
Qed.

(* the extra (zero-Jacobian) slot of a group item, and anything beyond the manifold dimension, is ignored *)
Theorem C07_extra_slot_ignored : forall g (x d d' : list R),
  firstn (adim g) d = firstn (adim g) d' ->
  add_item gexp (Group g) x d = add_item gexp (Group g) x d' /\
  add_item gexp (Algebra g) x d = add_item gexp (Algebra g) x d'.
Proof.
  intros g x d d' H. split.
  - exact (add_item_extra_ignored gexp (Group g) x d d' H).
  - exact (add_item_extra_ignored gexp (Algebra g) x d d' H).
Qed.

(* 6. parameters with requires_grad = False are untouched by every update that returns, whatever the step
      (kinds and flags of all parameters are kept) *)
Theorem C07_frozen_untouched : forall (ps : list (@param R)) step ps',
  update_parameter gexp ps step = Some ps' ->
  length ps' = length ps /\
  (forall i, preq (nth i ps pdflt) = false -> nth i ps' pdflt = nth i ps pdflt) /\
  map (@pk R) ps' = map (@pk R) ps /\ map (@preq R) ps' = map (@preq R) ps.
Proof. exact (frozen_untouched gexp). Qed.

(* 7. HISTORY (the source before a845d9f, kept as _old definitions): no step ever happened when a parameter
      was frozen: modjac's Jacobian had a column for every parameter, the solver returned one entry per
      column, and the split was given the sizes of the trainable parameters only *)
Theorem C07_old_step_with_frozen_raises : forall (pb : @problem R),
  (exists p, In p (pbP pb) /\ preq p = false /\ (0 < pnumel p)%nat) ->
  (forall A b D, solver A b = Some D -> length D = sumnat (map (@pnumel R) (pbP pb))) ->
  gn_step_old corr gexp solver pb = None /\
  forall Aprev JT Rv lam, exists r, lm_trial_old gexp solver Aprev JT Rv lam (pbP pb) = r /\ (r = TRaise \/ r = TSolverFailed).
Proof.
  intros pb Hex Hlen. split.
  - now apply gn_step_old_frozen_raises.
  - intros Aprev JT Rv lam. eexists. split; [reflexivity|]. now apply lm_trial_old_frozen_raises.
Qed.

(* behind the old raise: zip(params, steps) paired ALL parameters with the slices of the TRAINABLE ones; given
   one slice per trainable parameter, a trainable parameter that followed a frozen one was never updated;
   the repaired update gives it its slice *)
Theorem C07_old_zip_paired_all_params_with_trainable_slices : forall (p q : @param R) step,
  preq p = false -> preq q = true -> length step = pnumel q ->
  update_parameter_old gexp [p; q] step = Some [p; q] /\
  update_parameter gexp [p; q] step = Some [p; param_add gexp q step].
Proof.
  intros p q step Hp Hq Hl. split; [now apply zip_misaligned_old | now apply zip_aligned_new].
Qed.
End C07.

(* the clause "a GN step changes the (trainable) parameters by the least-squares solution while the
   parameters with requires_grad = False are untouched" was REFUTED on the model of the old source: for
   r = a + c with c frozen, GaussNewton.step raised for every corrector table, every Exp and every total
   solver ... *)
Theorem C07_old_gn_step_with_frozen_refuted :
  exists pb : @problem R,
    (exists p, In p (pbP pb) /\ preq p = false) /\
    forall corr gexp solver,
      (forall A b, exists D, solver A b = Some D /\ length D = mcols A) ->
      gn_step_old corr gexp solver pb = None.
Proof.
  exists frozen_pb. split.
  - exists {| pk := Euclid; pdata := [0]; preq := false |}. cbn. auto.
  - exact frozen_pb_old_raises.
Qed.
(* ... and holds on the same witness for the repaired source: the system is the trainable column, a moves by
   the solver's answer, c stays *)
Theorem C07_gn_step_with_frozen_witness : forall corr gexp (solver : @mat R -> list R -> option (list R)) d,
  solver [[1]] (vneg [1]) = Some [d] ->
  exists o, gn_step corr gexp solver frozen_pb = Some o /\ tA o = [[1]] /\ tD o = [d] /\
            map (@pdata R) (tP o) = [[0 + d]; [0]] /\ map (@preq R) (tP o) = [true; false].
Proof. exact frozen_pb_steps. Qed.

(* hypotheses are satisfiable / the step exists when nothing is frozen *)
Example C07_gn_step_without_frozen : forall corr gexp (solver : @mat R -> list R -> option (list R)) d1 d2,
  solver [[1; 1]] (vneg [1]) = Some [d1; d2] ->
  exists o, gn_step corr gexp solver free_pb = Some o /\ tD o = [d1; d2] /\
            map (@pdata R) (tP o) = [[0 + d1]; [0 + d2]].
Proof. exact free_pb_steps. Qed.

Example C07_solver_contract_satisfiable :
  let A := [[1; 1]] in let b := vneg [1] in
  mapply (mtr A) (mapply A [-1/2; -1/2]) = mapply (mtr A) b /\
  mapply (mtr A) (mapply A [-1; 0]) = mapply (mtr A) b.
Proof. exact free_pb_normal_equations. Qed.

Print Assumptions C07_weight_expansion_is_broadcast.
Print Assumptions C07_block_diag_acts_blockwise.
Print Assumptions C07_weighted_residual_is_broadcast.
Print Assumptions C07_weighted_jacobian_columnwise.
Print Assumptions C07_lm_diag_closed_form.
Print Assumptions C07_clamp_is_documented.
Print Assumptions C07_gn_normal_equations.
Print Assumptions C07_normal_equations_are_least_squares.
Print Assumptions C07_lm_normal_equations.
Print Assumptions C07_update_split.
Print Assumptions C07_add_euclid.
Print Assumptions C07_add_lietensor.
Print Assumptions C07_extra_slot_ignored.
Print Assumptions C07_frozen_untouched.
Print Assumptions C07_update_returns_iff.
Print Assumptions C07_jacobian_has_trainable_columns.
Print Assumptions C07_gn_step_with_frozen.
Print Assumptions C07_old_step_with_frozen_raises.
Print Assumptions C07_old_zip_paired_all_params_with_trainable_slices.
Print Assumptions C07_old_gn_step_with_frozen_refuted.
Print Assumptions C07_gn_step_with_frozen_witness.
Print Assumptions C07_gn_step_without_frozen.
Print Assumptions C07_solver_contract_satisfiable.
