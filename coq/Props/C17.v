(* C17 — svdtf / svdstf return a proper rigid / similarity transform whose sum of squared
   residuals is minimal in its class; exact correspondences are reproduced; an ICP pass does not
   increase the mean squared closest-point distance; the EPnP linear system has the true control
   points in its null space.  Statements only (over R); proofs in Proofs/Align.v.
   Second round (Proofs/Align2.v .. Align10.v): the recovered transform is THE true one for
   non-collinear exact correspondences (and is not determined for collinear ones); ICP over the whole
   loop (every pass, any number of passes, any stepper; ICP.forward never raises, its result applied to
   the source is the last cloud and is not farther from the target than the initial transform; exact
   recovery once the matching is the true one, with an explicit basin: displacement below half the
   target separation); EPnP over all points (null space of the whole M, eigenvalue 0 of M^T M,
   _compute_scale's scale / sign fix, svdtf returns the true pose); batched inputs (lockstep loop
   under one stepper); satisfiability examples for every hypothesis set.

   torch.linalg.svd is an oracle: every theorem quantifies over ALL answers (U, S, Vh) that satisfy
   its contract [svd_ok M U S Vh]  (U, Vh orthogonal, S sorted >= 0, M = U diag(S) Vh).

   The model is the current source (after fix 23d9fa1 in /repo: svdtf flips only the last singular
   direction, R = U diag(1,1,1-2 mask) Vh): every clause of the property is proved for svdtf and
   svdstf as coded, on both branches of the reflection test.  The source before the fix negated the
   whole matrix when det(U Vh) = -1; it is kept as svdtf_old with its refutation
   (C17_svdtf_old_refuted, C17_svdtf_old_reflection_pessimal, C17_svdtf_old_call_refuted) as history;
   the harness replays that witness on every run. *)
From Coq Require Import Reals List.
Import ListNotations.
From PV Require Import Base.Num Model.LieGroup Model.Controller Model.Align Proofs.LieGroup Proofs.Align.
From PV Require Import Proofs.Align2 Proofs.Align3 Proofs.Align4 Proofs.Align5 Proofs.Align6 Proofs.Align7
  Proofs.Align8 Proofs.Align9 Proofs.Align10 Proofs.Align11 Proofs.Align12 Proofs.Convert.
Local Open Scope R_scope.
#[local] Remove Hints NumQ NumZ : typeclass_instances.

(* --- the rotation svdtf hands to mat2SE3 is orthogonal with det = +1, for every oracle answer
   (both branches of the `|det + 1| < 1e-6` test) *)
Theorem C17_svdtf_proper : forall U Vh : mat3R, orth U -> orth Vh -> rot (svdtf_rot U Vh).
Proof. exact svdtf_proper. Qed.

(* --- (1 + tr R)(3 - tr R) = sum_{i<j} (R_ij - R_ji)^2 on SO(3), hence tr R >= -1 *)
Theorem C17_rotation_trace_identity : forall A : mat3R, rot A ->
  let '((a, b, c), (d, e, f), (g, h, i)) := A in
  (1 + (a + e + i)) * (3 - (a + e + i)) = (b - d) * (b - d) + (c - g) * (c - g) + (f - h) * (f - h).
Proof. exact rotation_trace_identity. Qed.
Theorem C17_rotation_trace_ge_m1 : forall A : mat3R, rot A -> -1 <= mtrace3 A.
Proof. exact rotation_trace_ge_m1. Qed.

(* --- Kabsch: R* = U diag(1,1,det(U Vh)) Vh maximises tr(R^T M) over all rotations ... *)
Theorem C17_kabsch_trace_optimal : forall (M U : mat3R) S (Vh A : mat3R),
  svd_ok M U S Vh -> rot A -> dotM A M <= dotM (kabsch_rot U Vh) M.
Proof. exact kabsch_trace_optimal. Qed.
(* ... hence (R*, t* = ct - R* cs) is a proper rigid transform minimising the sum of squared
   residuals over ALL rigid transforms (A, t), for all clouds of any size N >= 1 (planar,
   collinear, duplicated points included: no rank hypothesis) *)
Theorem C17_kabsch_optimal : forall (src tgt : cloudR) U S Vh,
  sizes_ok src tgt = true -> svd_ok (svdtf_M src tgt) U S Vh ->
  rot (fst (kabsch_mat src tgt U Vh)) /\
  forall A t, rot A ->
    resid (rigid_apply (fst (kabsch_mat src tgt U Vh)) (snd (kabsch_mat src tgt U Vh))) src tgt
    <= resid (rigid_apply A t) src tgt.
Proof. exact kabsch_optimal. Qed.

(* --- svdtf as coded: for EVERY oracle answer (both branches of the reflection test) its (R, t)
   minimises the sum of squared residuals over all rigid transforms *)
Theorem C17_svdtf_optimal : forall (src tgt : cloudR) U S Vh,
  sizes_ok src tgt = true -> svd_ok (svdtf_M src tgt) U S Vh ->
  forall A t, rot A ->
    resid (rigid_apply (fst (svdtf_mat src tgt U Vh)) (snd (svdtf_mat src tgt U Vh))) src tgt
    <= resid (rigid_apply A t) src tgt.
Proof. exact svdtf_optimal. Qed.
(* --- history (source before 23d9fa1): in the reflection branch the old rotation was the WORST one
   (every rotation, with its own best translation, has a residual that is not larger) *)
Theorem C17_svdtf_old_reflection_pessimal : forall (src tgt : cloudR) U S Vh,
  sizes_ok src tgt = true -> svd_ok (svdtf_M src tgt) U S Vh -> mdet3 (mmul3 U Vh) = -1 ->
  forall A, rot A ->
    resid (rigid_apply A (vsub (centroid tgt) (mvmul A (centroid src)))) src tgt
    <= resid (rigid_apply (fst (svdtf_mat_old src tgt U Vh)) (snd (svdtf_mat_old src tgt U Vh))) src tgt.
Proof. exact svdtf_old_reflection_pessimal. Qed.
(* --- history: refutation of "the old svdtf is optimal / reproduces exact correspondences":
   three coplanar points, target = source; for the admissible SVD U = I, S = (6,2,0),
   Vh = diag(1,1,-1) the identity has residual 0 and the old answer has residual 32 *)
Theorem C17_svdtf_old_refuted :
  exists (src tgt : cloudR) U S Vh A t,
    sizes_ok src tgt = true /\ svd_ok (svdtf_M src tgt) U S Vh /\ rot A /\
    resid (rigid_apply A t) src tgt = 0 /\
    resid (rigid_apply (fst (svdtf_mat_old src tgt U Vh)) (snd (svdtf_mat_old src tgt U Vh))) src tgt = 32.
Proof. exact svdtf_old_refuted. Qed.

(* --- exact correspondences under a true rigid transform are reproduced point for point (no
   non-collinearity needed for this form), by Kabsch and by svdtf as coded *)
Theorem C17_kabsch_exact_recovery : forall (src tgt : cloudR) U S Vh A0 t0,
  tgt = map (rigid_apply A0 t0) src -> src <> [] -> rot A0 -> svd_ok (svdtf_M src tgt) U S Vh ->
  Forall2 (fun p q => rigid_apply (fst (kabsch_mat src tgt U Vh)) (snd (kabsch_mat src tgt U Vh)) p = q) src tgt.
Proof. exact kabsch_exact_recovery. Qed.
Theorem C17_svdtf_exact_recovery : forall (src tgt : cloudR) U S Vh A0 t0,
  tgt = map (rigid_apply A0 t0) src -> src <> [] -> rot A0 -> svd_ok (svdtf_M src tgt) U S Vh ->
  Forall2 (fun p q => rigid_apply (fst (svdtf_mat src tgt U Vh)) (snd (svdtf_mat src tgt U Vh)) p = q) src tgt.
Proof. exact svdtf_exact_recovery. Qed.

(* --- svdstf (Umeyama), as coded: proper rotation, scale >= 0, and the similarity transform
   minimises the sum of squared residuals over all (c >= 0, rotation A, t); every oracle answer,
   every cloud with a non-degenerate source (not all points equal) *)
Theorem C17_svdstf_proper : forall U V : mat3R, orth U -> orth V -> rot (svdstf_rot U V).
Proof. exact svdstf_proper. Qed.
Theorem C17_svdstf_optimal : forall (src tgt : cloudR) U D V,
  sizes_ok src tgt = true -> svd_ok (svdstf_H src tgt) U D V -> 0 < sumsq (centered src) ->
  let s := fst (fst (svdstf_mat true src tgt U D V)) in
  let Rs := snd (fst (svdstf_mat true src tgt U D V)) in
  let ts := snd (svdstf_mat true src tgt U D V) in
  rot Rs /\ 0 <= s /\
  forall c A t, 0 <= c -> rot A ->
    resid (sim_apply s Rs ts) src tgt <= resid (sim_apply c A t) src tgt.
Proof. exact svdstf_optimal. Qed.
Theorem C17_svdstf_noscale_optimal : forall (src tgt : cloudR) U D V,
  sizes_ok src tgt = true -> svd_ok (svdstf_H src tgt) U D V ->
  let s := fst (fst (svdstf_mat false src tgt U D V)) in
  let Rs := snd (fst (svdstf_mat false src tgt U D V)) in
  let ts := snd (svdstf_mat false src tgt U D V) in
  rot Rs /\ s = 1 /\
  forall A t, rot A -> resid (sim_apply s Rs ts) src tgt <= resid (rigid_apply A t) src tgt.
Proof. exact svdstf_noscale_optimal. Qed.
Theorem C17_svdstf_exact_recovery : forall (src tgt : cloudR) U D V c0 A0 t0,
  tgt = map (sim_apply c0 A0 t0) src -> 0 <= c0 -> rot A0 ->
  svd_ok (svdstf_H src tgt) U D V -> 0 < sumsq (centered src) ->
  Forall2 (fun p q => sim_apply (fst (fst (svdstf_mat true src tgt U D V)))
                                (snd (fst (svdstf_mat true src tgt U D V)))
                                (snd (svdstf_mat true src tgt U D V)) p = q) src tgt.
Proof. exact svdstf_exact_recovery. Qed.

(* --- EPnP: for exact projections (depth <> 0) the true camera-frame control points lie in the
   null space of both rows that _compute_nullv builds for the point; barycentric weights that
   sum to one reproduce the point in every rigidly moved frame *)
Theorem C17_epnp_true_control_points_in_nullspace :
  forall (a : vec4' (F:=R)) (c : ctrl (F:=R)) (fu fv u0 v0 : R),
  vz (ctrl_comb a c) <> 0 ->
  dotl (epnp_row_u a fu u0 (fst (project fu fv u0 v0 (ctrl_comb a c)))) (ctrl_flat c) = 0 /\
  dotl (epnp_row_v a fv v0 (snd (project fu fv u0 v0 (ctrl_comb a c)))) (ctrl_flat c) = 0.
Proof. exact epnp_nullspace. Qed.
Theorem C17_epnp_alpha_reproduces_points :
  forall (a : vec4' (F:=R)) (c : ctrl (F:=R)) (A : mat3R) (t : vec3R),
  (let '(a0, a1, a2, a3) := a in a0 + a1 + a2 + a3 = 1) ->
  ctrl_comb a (let '(c0, c1, c2, c3) := c in
               (rigid_apply A t c0, rigid_apply A t c1, rigid_apply A t c2, rigid_apply A t c3))
  = rigid_apply A t (ctrl_comb a c).
Proof. exact alpha_reproduces_points. Qed.

(* --- the conversion: mat2SO3 never divides by zero (the selected radicand is positive on every
   matrix) and maps a rotation matrix to the unit quaternion of that rotation, in all four regions *)
Theorem C17_mat2SO3_of_rotation : forall m : mat3R, rot m ->
  exists q, mat2SO3 false m = Some q /\ unitq q /\ SO3_matrix q = m.
Proof. exact mat2SO3_rot. Qed.
(* --- svdtf AS CALLED (centroids, SVD oracle, reflection step, mat2SE3): for every oracle whose
   answer on this input meets the contract it returns a valid SE3 element (unit quaternion, proper
   rotation) acting as p |-> R p + t with (R, t) = svdtf_mat: "returns a proper rigid transform" *)
Theorem C17_svdtf_returns_proper_rigid : forall (svd : mat3R -> mat3R * vec3R * mat3R) (src tgt : cloudR),
  sizes_ok src tgt = true -> svd_contract svd (svdtf_M src tgt) ->
  exists T, svdtf svd src tgt = Some T /\ unitq (snd T) /\
    let '(U, _, Vh) := svd (svdtf_M src tgt) in
    rot (SO3_matrix (snd T)) /\
    forall p, SE3_act T p = rigid_apply (fst (svdtf_mat src tgt U Vh)) (snd (svdtf_mat src tgt U Vh)) p.
Proof. exact svdtf_returns. Qed.
(* --- history: the old function as called moved identical clouds apart (residual 32) for an oracle
   answer meeting the contract; the repaired function maps them onto each other (residual 0) *)
Theorem C17_svdtf_old_call_refuted :
  exists (svd : mat3R -> mat3R * vec3R * mat3R) (src tgt : cloudR) T T',
    sizes_ok src tgt = true /\ svd_contract svd (svdtf_M src tgt) /\
    svdtf_old svd src tgt = Some T /\ resid (SE3_act SE3_id) src tgt = 0 /\ resid (SE3_act T) src tgt = 32 /\
    svdtf svd src tgt = Some T' /\ resid (SE3_act T') src tgt = 0.
Proof. exact svdtf_old_call_refuted. Qed.
(* --- svdstf AS CALLED (mat2Sim3 with check=True: cube root of det, "not full rank" test, the ten
   allclose tests): returns a valid Sim3 element acting as p |-> s R p + t whenever the Umeyama
   scale exceeds mat2Sim3's 1e-5 threshold *)
Theorem C17_svdstf_returns_similarity : forall (svd : mat3R -> mat3R * vec3R * mat3R) (ws : bool) (src tgt : cloudR),
  sizes_ok src tgt = true -> svd_contract svd (svdstf_H src tgt) ->
  let '(U, D, V) := svd (svdstf_H src tgt) in
  1 / 100000 < fst (fst (svdstf_mat ws src tgt U D V)) ->
  exists X, svdstf svd ws src tgt = Some X /\ unitq (fst (snd X)) /\
    snd (snd X) = fst (fst (svdstf_mat ws src tgt U D V)) /\
    forall p, Sim3_act X p = sim_apply (fst (fst (svdstf_mat ws src tgt U D V)))
                                       (snd (fst (svdstf_mat ws src tgt U D V)))
                                       (snd (svdstf_mat ws src tgt U D V)) p.
Proof. exact svdstf_returns. Qed.

(* --- ICP: one pass of the loop body (knn oracle with its contract, svdtf as called, any SVD
   answer meeting the contract) does not increase the sum -- hence the mean -- of squared
   closest-point distances, for every cloud (planar included) *)
Theorem C17_icp_pass_monotone :
  forall (svd : mat3R -> mat3R * vec3R * mat3R) (knn : cloudR -> cloudR -> list (R * nat))
         (temporal target temporal' : cloudR) (err : R),
  temporal <> [] ->
  knn_ok temporal target (map snd (knn temporal target)) ->
  knn_ok temporal' target (map snd (knn temporal' target)) ->
  svd_contract svd (svdtf_M temporal (gather3 target (map snd (knn temporal target)))) ->
  icp_body svd knn temporal target = Some (err, temporal') ->
  cpd temporal' target (map snd (knn temporal' target)) <= cpd temporal target (map snd (knn temporal target)).
Proof. exact icp_pass_monotone. Qed.

(* the hypotheses are satisfiable: the witness cloud with its SVD meets the contract *)
Example C17_contract_satisfiable :
  sizes_ok wit_src wit_src = true /\ svd_ok (svdtf_M wit_src wit_src) wit_U wit_S wit_Vh.
Proof. exact wit_contract. Qed.

(* ======================================================================================== *)
(* second round *)

(* --- UNIQUENESS.  [noncollinear l]: l contains three points a, b, c with (b - a) x (c - a) <> 0.
   Two rigid transforms that agree on such a cloud are equal ... *)
Theorem C17_rigid_unique : forall (A B : mat3R) (t u : vec3R) (l : cloudR),
  rot A -> rot B -> noncollinear l ->
  (forall p, In p l -> rigid_apply A t p = rigid_apply B u p) -> A = B /\ t = u.
Proof. exact rigid_unique. Qed.
(* ... hence for exact correspondences of a non-collinear cloud svdtf computes THE true (R, t), for
   every SVD answer meeting the contract ... *)
Theorem C17_svdtf_exact_unique : forall (src tgt : cloudR) U S Vh A0 t0,
  tgt = map (rigid_apply A0 t0) src -> noncollinear src -> rot A0 ->
  svd_ok (svdtf_M src tgt) U S Vh ->
  svdtf_mat src tgt U Vh = (A0, t0).
Proof. exact svdtf_exact_unique. Qed.
(* ... and AS CALLED returns the SE3 element with the true translation and a unit quaternion of the
   true rotation *)
Theorem C17_svdtf_call_exact_unique : forall (svd : mat3R -> mat3R * vec3R * mat3R) (src tgt : cloudR) A0 t0,
  tgt = map (rigid_apply A0 t0) src -> noncollinear src -> rot A0 ->
  svd_contract svd (svdtf_M src tgt) ->
  exists T, svdtf svd src tgt = Some T /\ unitq (snd T) /\ fst T = t0 /\ SO3_matrix (snd T) = A0 /\
            forall p, SE3_act T p = rigid_apply A0 t0 p.
Proof. exact svdtf_call_exact_unique. Qed.
(* for ANY cloud (collinear, duplicated points included) the element returned maps source onto target *)
Theorem C17_svdtf_call_exact_recovery : forall (svd : mat3R -> mat3R * vec3R * mat3R) (src tgt : cloudR) A0 t0,
  tgt = map (rigid_apply A0 t0) src -> src <> [] -> rot A0 ->
  svd_contract svd (svdtf_M src tgt) ->
  exists T, svdtf svd src tgt = Some T /\ unitq (snd T) /\ se3_cloud T src = tgt.
Proof. exact svdtf_call_exact_recovery. Qed.
(* the non-collinearity hypothesis is necessary: "the recovered transform is the true one" is
   REFUTED for collinear clouds (two different rotations give the same correspondences) *)
Theorem C17_collinear_unique_refuted :
  exists (src : cloudR) (A B : mat3R) (t : vec3R),
    (3 <= length src)%nat /\ rot A /\ rot B /\ A <> B /\
    map (rigid_apply A t) src = map (rigid_apply B t) src.
Proof. exact collinear_not_unique. Qed.
(* svdstf: THE true (scale, rotation, translation) for exact similarity correspondences (scale > 0) *)
Theorem C17_svdstf_exact_unique : forall (src tgt : cloudR) U D V c0 A0 t0,
  tgt = map (sim_apply c0 A0 t0) src -> 0 < c0 -> rot A0 -> noncollinear src ->
  svd_ok (svdstf_H src tgt) U D V ->
  svdstf_mat true src tgt U D V = (c0, A0, t0).
Proof. exact svdstf_exact_unique. Qed.
Theorem C17_svdstf_call_exact_unique : forall (svd : mat3R -> mat3R * vec3R * mat3R) (src tgt : cloudR) c0 A0 t0,
  tgt = map (sim_apply c0 A0 t0) src -> 1 / 100000 < c0 -> rot A0 -> noncollinear src ->
  svd_contract svd (svdstf_H src tgt) ->
  exists X, svdstf svd true src tgt = Some X /\ unitq (fst (snd X)) /\
    snd (snd X) = c0 /\ fst X = t0 /\ SO3_matrix (fst (snd X)) = A0 /\
    forall p, Sim3_act X p = sim_apply c0 A0 t0 p.
Proof. exact svdstf_call_exact_unique. Qed.
(* svdstf(with_scale=False) AS CALLED never raises (scale 1 is above mat2Sim3's threshold) and is
   optimal over all rigid transforms *)
Theorem C17_svdstf_noscale_returns : forall (svd : mat3R -> mat3R * vec3R * mat3R) (src tgt : cloudR),
  sizes_ok src tgt = true -> svd_contract svd (svdstf_H src tgt) ->
  exists X, svdstf svd false src tgt = Some X /\ unitq (fst (snd X)) /\ snd (snd X) = 1 /\
    rot (SO3_matrix (fst (snd X))) /\
    forall A t, rot A -> resid (Sim3_act X) src tgt <= resid (rigid_apply A t) src tgt.
Proof. exact svdstf_noscale_returns. Qed.
(* the hypotheses of the svdstf theorems are satisfiable, in the reflection branch (det(U V) = -1) *)
Example C17_svdstf_hyps_satisfiable :
  sizes_ok wit_src wit_src = true /\ svd_ok (svdstf_H wit_src wit_src) wit_U wit_D wit_Vh /\
  0 < sumsq (centered wit_src) /\ mdet3 (mmul3 wit_U wit_Vh) = -1 /\
  1 / 100000 < fst (fst (svdstf_mat true wit_src wit_src wit_U wit_D wit_Vh)).
Proof. exact svdstf_hyps_satisfiable. Qed.
Example C17_noncollinear_satisfiable : noncollinear wit_src.
Proof. exact wit_noncollinear. Qed.

(* --- ICP, THE WHOLE LOOP.  Notions (Proofs/Align3.v), all relative to the oracles svd, knn and the target:
     idxs P            the knn index answer at cloud P;
     cpdk P            sum over P of the squared distance to the closest target point (knn answer);
     pass_ok P         both oracle calls of a pass at P meet their contracts
                       (knn_ok P target (idxs P), svd_contract at the matched pairs);
     icp_reach P Q     Q is obtained from P by finitely many passes of the loop body (icp_body);
     icp_start init s  the cloud the loop starts from (init applied to the source, or the source).
   Hypotheses are only about the oracle calls a run from the initial cloud can make. *)
(* cpdk does not depend on how knn breaks ties *)
Theorem C17_icp_cpd_knn_unique : forall (P tgt : cloudR) idx idx',
  knn_ok P tgt idx -> knn_ok P tgt idx' -> cpd P tgt idx = cpd P tgt idx'.
Proof. exact cpd_knn_unique. Qed.
(* any number of passes: every cloud the loop can reach is not farther from the target *)
Theorem C17_icp_reach_monotone : forall svd knn (target P : cloudR),
  P <> [] -> (forall Q, icp_reach svd knn target P Q -> pass_ok svd knn target Q) ->
  forall Q, icp_reach svd knn target P Q -> cpdk knn target Q <= cpdk knn target P.
Proof. exact reach_monotone. Qed.
(* the loop never raises, whatever the fuel, the stepper configuration and the stepper state *)
Theorem C17_icp_loop_returns : forall svd knn (target P : cloudR),
  P <> [] -> (forall Q, icp_reach svd knn target P Q -> pass_ok svd knn target Q) ->
  forall fuel cfg st Q, icp_reach svd knn target P Q ->
  exists tm st' errs, icp_loop svd knn fuel cfg st Q target = Some (tm, st', errs) /\ icp_reach svd knn target P tm.
Proof. exact loop_returns. Qed.
(* ICP.forward as a whole (init or not, any stepper): returns; the returned SE3 element applied to
   the source is a cloud the loop reached; its sum / mean of squared closest-point distances is not
   larger than that of the initial transform *)
Theorem C17_icp_forward_monotone :
  forall svd knn (target : cloudR) (cfg : rtb_cfg) (st0 : rtb_state) (init : option se3R) (source : cloudR),
  source <> [] ->
  (forall T, init = Some T -> unitq (snd T)) ->
  (forall Q, icp_reach svd knn target (icp_start init source) Q -> pass_ok svd knn target Q) ->
  (forall Q, icp_reach svd knn target (icp_start init source) Q -> svd_contract svd (svdtf_M source Q)) ->
  exists T st errs,
    icp_forward svd knn cfg st0 init source target = Some (T, st, errs) /\ unitq (snd T) /\
    icp_reach svd knn target (icp_start init source) (se3_cloud T source) /\
    cpdk knn target (se3_cloud T source) <= cpdk knn target (icp_start init source).
Proof. exact icp_forward_monotone. Qed.
Theorem C17_icp_forward_mean_monotone :
  forall svd knn (target : cloudR) (cfg : rtb_cfg) (st0 : rtb_state) (init : option se3R) (source : cloudR),
  source <> [] ->
  (forall T, init = Some T -> unitq (snd T)) ->
  (forall Q, icp_reach svd knn target (icp_start init source) Q -> pass_ok svd knn target Q) ->
  (forall Q, icp_reach svd knn target (icp_start init source) Q -> svd_contract svd (svdtf_M source Q)) ->
  exists T st errs,
    icp_forward svd knn cfg st0 init source target = Some (T, st, errs) /\ unitq (snd T) /\
    mean_cpd knn target (se3_cloud T source) <= mean_cpd knn target (icp_start init source).
Proof. exact icp_forward_mean_monotone. Qed.

(* --- ICP RECOVERY.  From a cloud whose closest-point matching is the correspondence of a rigid
   motion, the loop (at least one pass: the stepper continues) ends exactly on the matched points *)
Theorem C17_icp_loop_recovers : forall svd knn (target : cloudR) fuel cfg st (Q : cloudR) A1 t1,
  Q <> [] -> rot A1 -> rtb_cont st = true ->
  pass_ok svd knn target Q -> pass_ok svd knn target (map (rigid_apply A1 t1) Q) ->
  gather3 target (idxs knn target Q) = map (rigid_apply A1 t1) Q ->
  exists st' errs, icp_loop svd knn (S fuel) cfg st Q target = Some (map (rigid_apply A1 t1) Q, st', errs).
Proof. exact icp_loop_recovers. Qed.
(* ICP.forward: when the matching of the initial cloud is the true one the result maps every source
   point onto its true image (distance 0), and for a non-collinear source it IS the true transform *)
Theorem C17_icp_forward_recovers :
  forall svd knn (target : cloudR) (cfg : rtb_cfg) (st0 : rtb_state) (init : option se3R) (source : cloudR) A0 t0,
  source <> [] -> rot A0 ->
  (forall T, init = Some T -> unitq (snd T)) ->
  gather3 target (idxs knn target (icp_start init source)) = map (rigid_apply A0 t0) source ->
  pass_ok svd knn target (icp_start init source) -> pass_ok svd knn target (map (rigid_apply A0 t0) source) ->
  svd_contract svd (svdtf_M source (map (rigid_apply A0 t0) source)) ->
  exists T st errs,
    icp_forward svd knn cfg st0 init source target = Some (T, st, errs) /\ unitq (snd T) /\
    se3_cloud T source = map (rigid_apply A0 t0) source /\
    cpdk knn target (se3_cloud T source) = 0 /\
    (noncollinear source -> fst T = t0 /\ SO3_matrix (snd T) = A0).
Proof. exact icp_forward_recovers. Qed.
(* an explicit basin (a geometric condition, not a condition on the knn answer): target = rigid image
   of the source, every initial point displaced from its own target point by less than half the
   distance from that target point to any other one:  4 |T_i - P_i|^2 < |T_j - T_i|^2 *)
Theorem C17_icp_forward_recovers_basin :
  forall svd knn (cfg : rtb_cfg) (st0 : rtb_state) (init : option se3R) (source : cloudR) A0 t0,
  let target := map (rigid_apply A0 t0) source in
  source <> [] -> rot A0 ->
  (forall T, init = Some T -> unitq (snd T)) ->
  within_half_separation (icp_start init source) target ->
  pass_ok svd knn target (icp_start init source) -> pass_ok svd knn target target ->
  svd_contract svd (svdtf_M source target) ->
  exists T st errs,
    icp_forward svd knn cfg st0 init source target = Some (T, st, errs) /\ unitq (snd T) /\
    se3_cloud T source = target /\
    cpdk knn target (se3_cloud T source) = 0 /\
    (noncollinear source -> fst T = t0 /\ SO3_matrix (snd T) = A0).
Proof. exact icp_forward_recovers_basin. Qed.
(* inside the basin the knn answer is forced (every answer meeting the contract is the identity matching) *)
Theorem C17_icp_knn_forced : forall (P T : cloudR) idx,
  within_half_separation P T -> knn_ok P T idx -> gather3 T idx = T.
Proof. intros P T idx H. exact (knn_forced P T idx (half_sep_own_closest P T H)). Qed.

(* --- satisfiability of the ICP hypotheses: a reference knn meets the contract on EVERY query cloud;
   a concrete run (3 non-collinear points, target = source + (1/10, 0, 0), reference knn, constant SVD
   oracle) satisfies every hypothesis of the theorems above, including the basin condition *)
Theorem C17_knn_contract_satisfiable : forall P T : cloudR, T <> [] -> knn_ok P T (map snd (knn_ref P T)).
Proof. exact knn_ref_ok. Qed.
Example C17_icp_example_monotone :
  ex_src <> [] /\
  (forall Q, icp_reach ex_svd knn_ref ex_tgt (icp_start None ex_src) Q -> pass_ok ex_svd knn_ref ex_tgt Q) /\
  (forall Q, icp_reach ex_svd knn_ref ex_tgt (icp_start None ex_src) Q -> svd_contract ex_svd (svdtf_M ex_src Q)).
Proof. exact icp_example_monotone. Qed.
Example C17_icp_example_recovers :
  ex_src <> [] /\ rot mid3 /\ noncollinear ex_src /\
  gather3 ex_tgt (idxs knn_ref ex_tgt (icp_start None ex_src)) = map (rigid_apply mid3 ex_shift) ex_src /\
  pass_ok ex_svd knn_ref ex_tgt (icp_start None ex_src) /\
  pass_ok ex_svd knn_ref ex_tgt (map (rigid_apply mid3 ex_shift) ex_src) /\
  svd_contract ex_svd (svdtf_M ex_src (map (rigid_apply mid3 ex_shift) ex_src)).
Proof. exact icp_example_recovers. Qed.
Example C17_icp_basin_satisfiable : within_half_separation ex_src ex_tgt.
Proof. exact ex_half_sep. Qed.

(* --- BATCHED inputs.  [icp_loop_batch] (Proofs/Align6.v) is ICP.forward's loop on a batch: all items
   in lockstep under ONE stepper fed with the vector of per-item errors; on a batch of one item it is
   the model's loop *)
Theorem C17_icp_loop_batch_single : forall svd knn fuel cfg st (P tg : cloudR),
  icp_loop_batch svd knn fuel cfg st [P] [tg] =
  match icp_loop svd knn fuel cfg st P tg with
  | Some (tm, st', es) => Some ([tm], st', map (fun e => [e]) es)
  | None => None
  end.
Proof. exact icp_loop_batch_single. Qed.
(* the lockstep loop never raises and EVERY item ends not farther from its target than it started *)
Theorem C17_icp_loop_batch_monotone : forall svd knn fuel cfg st (items : list (cloudR * cloudR)),
  Forall (item_ok svd knn) items ->
  exists tms st' es, icp_loop_batch svd knn fuel cfg st (map fst items) (map snd items) = Some (tms, st', es) /\
    Forall2 (fun it tm => icp_reach svd knn (snd it) (fst it) tm /\
                          cpdk knn (snd it) tm <= cpdk knn (snd it) (fst it)) items tms.
Proof. exact icp_loop_batch_monotone. Qed.
(* svdtf on a batch: every item is returned, is a valid SE3 element and has minimal residual *)
Theorem C17_svdtf_batch_optimal : forall svd (items : list (cloudR * cloudR)),
  Forall (fun it => sizes_ok (fst it) (snd it) = true /\ svd_contract svd (svdtf_M (fst it) (snd it))) items ->
  Forall2 (fun it o => exists T, o = Some T /\ unitq (snd T) /\
                       forall A t, rot A -> resid (SE3_act T) (fst it) (snd it) <= resid (rigid_apply A t) (fst it) (snd it))
          items (svdtf_batch svd (map fst items) (map snd items)).
Proof. exact svdtf_batch_optimal. Qed.

(* --- EPnP over all points.  [alpha_ok cw a p]: contract of _compute_alpha's linear solve for one point
   (weights sum to one and a @ C_w = p); [epnp_M]: the whole 2N x 12 matrix (u-row, v-row per point);
   [ctrl_move A t cw]: the camera-frame control points.  For exact projections (depth <> 0) of ANY
   number of points under ANY affine camera motion, every multiple of the true camera-frame control
   points is in the null space of M, i.e. an eigenvector of M^T M for the eigenvalue 0 *)
Theorem C17_epnp_system_nullspace : forall (fu fv u0 v0 : R) (A : mat3R) (t : vec3R) (cw : ctrlR) alphas points,
  Forall2 (alpha_ok cw) alphas points ->
  Forall (fun p => vz (rigid_apply A t p) <> 0) points ->
  forall k, in_null (epnp_M fu fv u0 v0 alphas (map (fun p => project fu fv u0 v0 (rigid_apply A t p)) points))
                    (map (Rmult k) (ctrl_flat (ctrl_move A t cw))).
Proof. exact epnp_system_nullspace. Qed.
Theorem C17_epnp_gram_eigen0 : forall (fu fv u0 v0 : R) (A : mat3R) (t : vec3R) (cw : ctrlR) alphas points k,
  Forall2 (alpha_ok cw) alphas points -> Forall (fun p => vz (rigid_apply A t p) <> 0) points ->
  gram_apply (epnp_M fu fv u0 v0 alphas (map (fun p => project fu fv u0 v0 (rigid_apply A t p)) points))
             (map (Rmult k) (ctrl_flat (ctrl_move A t cw))) = repeat 0 12.
Proof. exact epnp_gram_eigen0. Qed.
(* _compute_solution on the true control points: transp = alpha @ bases are the camera-frame points
   and svdtf(points, transp) returns the true pose *)
Theorem C17_epnp_pose_from_true_controls :
  forall (svd : mat3R -> mat3R * vec3R * mat3R) (A : mat3R) (t : vec3R) (cw : ctrlR) alphas points,
  Forall2 (alpha_ok cw) alphas points -> points <> [] -> rot A ->
  svd_contract svd (svdtf_M points (map (fun a => ctrl_comb a (ctrl_move A t cw)) alphas)) ->
  exists T, svdtf svd points (map (fun a => ctrl_comb a (ctrl_move A t cw)) alphas) = Some T /\ unitq (snd T) /\
    se3_cloud T points = map (rigid_apply A t) points /\
    (noncollinear points -> fst T = t /\ SO3_matrix (snd T) = A).
Proof. exact epnp_pose_from_true_controls. Qed.
(* _compute_scale (transcribed in Proofs/Align7.v, not tied): from ANY non-zero multiple k of the true
   control points -- the eigenvector comes normalised with an arbitrary sign -- points in front of the
   camera, not all equal: the scaled points are the true camera-frame points, the scale is 1/k *)
Theorem C17_epnp_compute_scale_true : forall (A : mat3R) (t : vec3R) (cw : ctrlR) alphas points (k : R),
  Forall2 (alpha_ok cw) alphas points -> rot A -> k <> 0 ->
  Forall (fun p => 0 < vz (rigid_apply A t p)) points ->
  0 < sumsq (centered points) ->
  snd (fst (epnp_compute_scale alphas (ctrl_scale k (ctrl_move A t cw)) points)) = map (rigid_apply A t) points /\
  snd (epnp_compute_scale alphas (ctrl_scale k (ctrl_move A t cw)) points) = 1 / k.
Proof. exact epnp_compute_scale_true. Qed.
(* ... and svdtf on them returns the true pose: EPnP's candidate built from a one-dimensional null
   space is exact *)
Theorem C17_epnp_solution_true_pose :
  forall (svd : mat3R -> mat3R * vec3R * mat3R) (A : mat3R) (t : vec3R) (cw : ctrlR) alphas points (k : R),
  Forall2 (alpha_ok cw) alphas points -> rot A -> k <> 0 ->
  Forall (fun p => 0 < vz (rigid_apply A t p)) points ->
  noncollinear points ->
  let transp := snd (fst (epnp_compute_scale alphas (ctrl_scale k (ctrl_move A t cw)) points)) in
  svd_contract svd (svdtf_M points transp) ->
  exists T, svdtf svd points transp = Some T /\ unitq (snd T) /\ fst T = t /\ SO3_matrix (snd T) = A.
Proof. exact epnp_solution_true_pose. Qed.
(* the EPnP hypotheses are jointly satisfiable (negative k: the sign fix is exercised) *)
Example C17_epnp_hyps_satisfiable :
  Forall2 (alpha_ok ex_cw) (map ex_alpha wit_src) wit_src /\ rot mid3 /\ -1 / 3 <> 0 /\
  Forall (fun p => 0 < vz (rigid_apply mid3 ex_t p)) wit_src /\ noncollinear wit_src /\
  svd_contract ex_svd (svdtf_M wit_src
     (snd (fst (epnp_compute_scale (map ex_alpha wit_src) (ctrl_scale (-1 / 3) (ctrl_move mid3 ex_t ex_cw)) wit_src)))).
Proof. exact epnp_hyps_satisfiable. Qed.

(* --- the basin for an ARBITRARY target: the target contains the rigid image of the source in any
   order (idx0 names the target point of every source point), possibly with extra points and with
   duplicated points; condition: 4 |T_idx0(k) - P_k|^2 < |T_j - T_idx0(k)|^2 for every target point
   T_j that is a different point *)
Theorem C17_icp_forward_recovers_basin_matched :
  forall svd knn (target : cloudR) (idx0 : list nat)
         (cfg : rtb_cfg) (st0 : rtb_state) (init : option se3R) (source : cloudR) A0 t0,
  source <> [] -> rot A0 ->
  (forall T, init = Some T -> unitq (snd T)) ->
  gather3 target idx0 = map (rigid_apply A0 t0) source ->
  within_half_separation_via (icp_start init source) target idx0 ->
  pass_ok svd knn target (icp_start init source) -> pass_ok svd knn target (map (rigid_apply A0 t0) source) ->
  svd_contract svd (svdtf_M source (map (rigid_apply A0 t0) source)) ->
  exists T st errs,
    icp_forward svd knn cfg st0 init source target = Some (T, st, errs) /\ unitq (snd T) /\
    se3_cloud T source = map (rigid_apply A0 t0) source /\
    cpdk knn target (se3_cloud T source) = 0 /\
    (noncollinear source -> fst T = t0 /\ SO3_matrix (snd T) = A0).
Proof. exact icp_forward_recovers_basin_matched. Qed.
(* satisfiable on a permuted target with an extra far point *)
Example C17_icp_example_matched :
  ex_src <> [] /\ rot mid3 /\ noncollinear ex_src /\
  gather3 ex_tgt2 ex_idx0 = map (rigid_apply mid3 ex_shift) ex_src /\
  within_half_separation_via (icp_start None ex_src) ex_tgt2 ex_idx0 /\
  pass_ok ex_svd knn_ref ex_tgt2 (icp_start None ex_src) /\
  pass_ok ex_svd knn_ref ex_tgt2 (map (rigid_apply mid3 ex_shift) ex_src) /\
  svd_contract ex_svd (svdtf_M ex_src (map (rigid_apply mid3 ex_shift) ex_src)).
Proof. exact icp_example_matched. Qed.

(* --- optimality stated on the element the call returns *)
Theorem C17_svdtf_call_optimal : forall (svd : mat3R -> mat3R * vec3R * mat3R) (src tgt : cloudR),
  sizes_ok src tgt = true -> svd_contract svd (svdtf_M src tgt) ->
  exists T, svdtf svd src tgt = Some T /\ unitq (snd T) /\ rot (SO3_matrix (snd T)) /\
    forall A t, rot A -> resid (SE3_act T) src tgt <= resid (rigid_apply A t) src tgt.
Proof. exact svdtf_call_optimal. Qed.
Theorem C17_svdstf_call_optimal : forall (svd : mat3R -> mat3R * vec3R * mat3R) (src tgt : cloudR),
  sizes_ok src tgt = true -> svd_contract svd (svdstf_H src tgt) -> 0 < sumsq (centered src) ->
  (let '(U, D, V) := svd (svdstf_H src tgt) in 1 / 100000 < fst (fst (svdstf_mat true src tgt U D V))) ->
  exists X, svdstf svd true src tgt = Some X /\ unitq (fst (snd X)) /\ 0 < snd (snd X) /\
    forall c A t, 0 <= c -> rot A -> resid (Sim3_act X) src tgt <= resid (sim_apply c A t) src tgt.
Proof. exact svdstf_call_optimal. Qed.
(* svdtf(points, T0 @ points) returns T0: same translation, same quaternion up to sign
   (qsame q q' := q' = q \/ q' = - q, Proofs/Convert.v) *)
Theorem C17_svdtf_call_returns_T0 : forall (svd : mat3R -> mat3R * vec3R * mat3R) (T0 : se3R) (src : cloudR),
  unitq (snd T0) -> noncollinear src -> svd_contract svd (svdtf_M src (se3_cloud T0 src)) ->
  exists T, svdtf svd src (se3_cloud T0 src) = Some T /\ fst T = fst T0 /\ qsame (snd T0) (snd T).
Proof. exact svdtf_call_returns_T0. Qed.

(* --- EPnP, remaining modelled facts: the residual of the refinement objective (BetaObjective:
   control-point distances in the world minus in the camera frame) is zero at the exact candidate;
   the solve contract of _compute_alpha has exactly one solution when the control points are
   affinely independent, which the control points of _svd_basis are when all three singular values
   are positive (non-coplanar points) *)
Theorem C17_epnp_refine_residual_zero : forall (A : mat3R) (t : vec3R) (cw : ctrlR), rot A ->
  beta_objective cw (ctrl_move A t cw) = repeat 0 6.
Proof. exact epnp_refine_residual_zero. Qed.
Theorem C17_epnp_alpha_unique : forall (cw : ctrlR) (a a' : vec4R) (p : vec3R),
  ctrl_det cw <> 0 -> alpha_ok cw a p -> alpha_ok cw a' p -> a = a'.
Proof. exact alpha_unique. Qed.
Theorem C17_epnp_alpha_exists : forall (cw : ctrlR) (p : vec3R), ctrl_det cw <> 0 -> exists a, alpha_ok cw a p.
Proof. exact alpha_exists. Qed.
Theorem C17_epnp_svd_basis_independent : forall (center s : vec3R) (Vh : mat3R),
  orth Vh -> 0 < vx s -> 0 < vy s -> 0 < vz s -> ctrl_det (svd_basis center s Vh) <> 0.
Proof. exact svd_basis_independent. Qed.

(* --- ICP.forward under GLOBAL contracts (an SVD routine and a knn routine that meet their contracts
   on every input): the reader-friendly corollary of C17_icp_forward_mean_monotone *)
Theorem C17_icp_forward_monotone_global :
  forall svd knn (target : cloudR) (cfg : rtb_cfg) (st0 : rtb_state) (init : option se3R) (source : cloudR),
  source <> [] ->
  (forall T, init = Some T -> unitq (snd T)) ->
  (forall M, svd_contract svd M) ->
  (forall P, knn_ok P target (map snd (knn P target))) ->
  exists T st errs,
    icp_forward svd knn cfg st0 init source target = Some (T, st, errs) /\ unitq (snd T) /\
    mean_cpd knn target (se3_cloud T source) <= mean_cpd knn target (icp_start init source).
Proof. exact icp_forward_monotone_global. Qed.
(* satisfiability: batch items; svdtf(points, T0 @ points) with T0 a translation *)
Example C17_batch_items_satisfiable : Forall (item_ok ex_svd knn_ref) [(ex_src, ex_tgt); (ex_tgt, ex_tgt)].
Proof. exact batch_items_satisfiable. Qed.
Example C17_returns_T0_satisfiable :
  let T0 : se3R := (ex_shift, SO3_id) in
  unitq (snd T0) /\ noncollinear ex_src /\ svd_contract ex_svd (svdtf_M ex_src (se3_cloud T0 ex_src)).
Proof. exact returns_T0_satisfiable. Qed.

Print Assumptions C17_svdtf_proper. Print Assumptions C17_rotation_trace_identity.
Print Assumptions C17_rotation_trace_ge_m1. Print Assumptions C17_kabsch_trace_optimal.
Print Assumptions C17_kabsch_optimal. Print Assumptions C17_svdtf_optimal.
Print Assumptions C17_svdtf_old_reflection_pessimal. Print Assumptions C17_svdtf_old_refuted.
Print Assumptions C17_kabsch_exact_recovery. Print Assumptions C17_svdtf_exact_recovery.
Print Assumptions C17_svdstf_proper. Print Assumptions C17_svdstf_optimal.
Print Assumptions C17_svdstf_noscale_optimal. Print Assumptions C17_svdstf_exact_recovery.
Print Assumptions C17_epnp_true_control_points_in_nullspace.
Print Assumptions C17_epnp_alpha_reproduces_points.
Print Assumptions C17_mat2SO3_of_rotation. Print Assumptions C17_svdtf_returns_proper_rigid.
Print Assumptions C17_svdtf_old_call_refuted. Print Assumptions C17_svdstf_returns_similarity.
Print Assumptions C17_icp_pass_monotone.
Print Assumptions C17_contract_satisfiable.
Print Assumptions C17_rigid_unique.
Print Assumptions C17_svdtf_exact_unique.
Print Assumptions C17_svdtf_call_exact_unique.
Print Assumptions C17_svdtf_call_exact_recovery.
Print Assumptions C17_collinear_unique_refuted.
Print Assumptions C17_svdstf_exact_unique.
Print Assumptions C17_svdstf_call_exact_unique.
Print Assumptions C17_svdstf_noscale_returns.
Print Assumptions C17_svdstf_hyps_satisfiable.
Print Assumptions C17_noncollinear_satisfiable.
Print Assumptions C17_icp_cpd_knn_unique.
Print Assumptions C17_icp_reach_monotone.
Print Assumptions C17_icp_loop_returns.
Print Assumptions C17_icp_forward_monotone.
Print Assumptions C17_icp_forward_mean_monotone.
Print Assumptions C17_icp_loop_recovers.
Print Assumptions C17_icp_forward_recovers.
Print Assumptions C17_icp_forward_recovers_basin.
Print Assumptions C17_icp_knn_forced.
Print Assumptions C17_knn_contract_satisfiable.
Print Assumptions C17_icp_example_monotone.
Print Assumptions C17_icp_example_recovers.
Print Assumptions C17_icp_basin_satisfiable.
Print Assumptions C17_icp_loop_batch_single.
Print Assumptions C17_icp_loop_batch_monotone.
Print Assumptions C17_svdtf_batch_optimal.
Print Assumptions C17_epnp_system_nullspace.
Print Assumptions C17_epnp_gram_eigen0.
Print Assumptions C17_epnp_pose_from_true_controls.
Print Assumptions C17_epnp_compute_scale_true.
Print Assumptions C17_epnp_solution_true_pose.
Print Assumptions C17_epnp_hyps_satisfiable.
Print Assumptions C17_icp_forward_recovers_basin_matched.
Print Assumptions C17_icp_example_matched.
Print Assumptions C17_svdtf_call_optimal.
Print Assumptions C17_svdstf_call_optimal.
Print Assumptions C17_svdtf_call_returns_T0.
Print Assumptions C17_epnp_refine_residual_zero.
Print Assumptions C17_epnp_alpha_unique.
Print Assumptions C17_epnp_alpha_exists.
Print Assumptions C17_epnp_svd_basis_independent.
Print Assumptions C17_icp_forward_monotone_global.
Print Assumptions C17_batch_items_satisfiable.
Print Assumptions C17_returns_T0_satisfiable.
