(* C17 — svdtf / svdstf return a proper rigid / similarity transform whose sum of squared
   residuals is minimal in its class; exact correspondences are reproduced; an ICP pass does not
   increase the mean squared closest-point distance; the EPnP linear system has the true control
   points in its null space.  Statements only (over R); proofs in Proofs/Align.v.

   torch.linalg.svd is an oracle: every theorem quantifies over ALL answers (U, S, Vh) that satisfy
   its contract [svd_ok M U S Vh]  (U, Vh orthogonal, S sorted >= 0, M = U diag(S) Vh).

   The model is the current source (after fix 23d9fa1 in /repo: svdtf flips only the last singular
   direction, R = U diag(1,1,1-2 mask) Vh): every clause of the property is proved for svdtf and
   svdstf as coded, on both branches of the reflection test.  The source before the fix negated the
   whole matrix when det(U Vh) = -1; it is kept as svdtf_old with its refutation
   (C17_svdtf_old_refuted, C17_svdtf_old_reflection_pessimal, C17_svdtf_old_call_refuted) as history;
   the harness replays that witness on every run. *)
From Coq Require Import Reals List.
Import ListNotations.
From PV Require Import Base.Num Model.LieGroup Model.Controller Model.Align Proofs.LieGroup Proofs.Align.
Local Open Scope R_scope.
#[local] Remove Hints NumQ NumZ : typeclass_instances.

(* --- the rotation svdtf hands to mat2SE3 is orthogonal with det = +1, for every oracle answer
   (both branches of the `|det + 1| < 1e-6` test) *)
Theorem C17_svdtf_proper : forall U Vh : mat3R, orth U -> orth Vh -> rot (svdtf_rot U Vh).
Proof. exact svdtf_proper. Qed.

(* --- (1 + tr R)(3 - tr R) = sum_{i<j} (R_ij - R_ji)^2 on SO(3), hence tr R >= -1 *)
Theorem C17_rotation_trace_identity : forall A : mat3R, rot A ->
  let '((a, b, c), (d, e, f), (g, h, i)) := A in
  (1 + (a + e + i)) * (3 - (a + e + i)) = (b - d) * (b - d) + (c - g) * (c - g) + (f - h) * (f - h).
Proof. exact rotation_trace_identity. Qed.
Theorem C17_rotation_trace_ge_m1 : forall A : mat3R, rot A -> -1 <= mtrace3 A.
Proof. exact rotation_trace_ge_m1. Qed.

(* --- Kabsch: R* = U diag(1,1,det(U Vh)) Vh maximises tr(R^T M) over all rotations ... *)
Theorem C17_kabsch_trace_optimal : forall (M U : mat3R) S (Vh A : mat3R),
  svd_ok M U S Vh -> rot A -> dotM A M <= dotM (kabsch_rot U Vh) M.
Proof. exact kabsch_trace_optimal. Qed.
(* ... hence (R*, t* = ct - R* cs) is a proper rigid transform minimising the sum of squared
   residuals over ALL rigid transforms (A, t), for all clouds of any size N >= 1 (planar,
   collinear, duplicated points included: no rank hypothesis) *)
Theorem C17_kabsch_optimal : forall (src tgt : cloudR) U S Vh,
  sizes_ok src tgt = true -> svd_ok (svdtf_M src tgt) U S Vh ->
  rot (fst (kabsch_mat src tgt U Vh)) /\
  forall A t, rot A ->
    resid (rigid_apply (fst (kabsch_mat src tgt U Vh)) (snd (kabsch_mat src tgt U Vh))) src tgt
    <= resid (rigid_apply A t) src tgt.
Proof. exact kabsch_optimal. Qed.

(* --- svdtf as coded: for EVERY oracle answer (both branches of the reflection test) its (R, t)
   minimises the sum of squared residuals over all rigid transforms *)
Theorem C17_svdtf_optimal : forall (src tgt : cloudR) U S Vh,
  sizes_ok src tgt = true -> svd_ok (svdtf_M src tgt) U S Vh ->
  forall A t, rot A ->
    resid (rigid_apply (fst (svdtf_mat src tgt U Vh)) (snd (svdtf_mat src tgt U Vh))) src tgt
    <= resid (rigid_apply A t) src tgt.
Proof. exact svdtf_optimal. Qed.
(* --- history (source before 23d9fa1): in the reflection branch the old rotation was the WORST one
   (every rotation, with its own best translation, has a residual that is not larger) *)
Theorem C17_svdtf_old_reflection_pessimal : forall (src tgt : cloudR) U S Vh,
  sizes_ok src tgt = true -> svd_ok (svdtf_M src tgt) U S Vh -> mdet3 (mmul3 U Vh) = -1 ->
  forall A, rot A ->
    resid (rigid_apply A (vsub (centroid tgt) (mvmul A (centroid src)))) src tgt
    <= resid (rigid_apply (fst (svdtf_mat_old src tgt U Vh)) (snd (svdtf_mat_old src tgt U Vh))) src tgt.
Proof. exact svdtf_old_reflection_pessimal. Qed.
(* --- history: refutation of "the old svdtf is optimal / reproduces exact correspondences":
   three coplanar points, target = source; for the admissible SVD U = I, S = (6,2,0),
   Vh = diag(1,1,-1) the identity has residual 0 and the old answer has residual 32 *)
Theorem C17_svdtf_old_refuted :
  exists (src tgt : cloudR) U S Vh A t,
    sizes_ok src tgt = true /\ svd_ok (svdtf_M src tgt) U S Vh /\ rot A /\
    resid (rigid_apply A t) src tgt = 0 /\
    resid (rigid_apply (fst (svdtf_mat_old src tgt U Vh)) (snd (svdtf_mat_old src tgt U Vh))) src tgt = 32.
Proof. exact svdtf_old_refuted. Qed.

(* --- exact correspondences under a true rigid transform are reproduced point for point (no
   non-collinearity needed for this form), by Kabsch and by svdtf as coded *)
Theorem C17_kabsch_exact_recovery : forall (src tgt : cloudR) U S Vh A0 t0,
  tgt = map (rigid_apply A0 t0) src -> src <> [] -> rot A0 -> svd_ok (svdtf_M src tgt) U S Vh ->
  Forall2 (fun p q => rigid_apply (fst (kabsch_mat src tgt U Vh)) (snd (kabsch_mat src tgt U Vh)) p = q) src tgt.
Proof. exact kabsch_exact_recovery. Qed.
Theorem C17_svdtf_exact_recovery : forall (src tgt : cloudR) U S Vh A0 t0,
  tgt = map (rigid_apply A0 t0) src -> src <> [] -> rot A0 -> svd_ok (svdtf_M src tgt) U S Vh ->
  Forall2 (fun p q => rigid_apply (fst (svdtf_mat src tgt U Vh)) (snd (svdtf_mat src tgt U Vh)) p = q) src tgt.
Proof. exact svdtf_exact_recovery. Qed.

(* --- svdstf (Umeyama), as coded: proper rotation, scale >= 0, and the similarity transform
   minimises the sum of squared residuals over all (c >= 0, rotation A, t); every oracle answer,
   every cloud with a non-degenerate source (not all points equal) *)
Theorem C17_svdstf_proper : forall U V : mat3R, orth U -> orth V -> rot (svdstf_rot U V).
Proof. exact svdstf_proper. Qed.
Theorem C17_svdstf_optimal : forall (src tgt : cloudR) U D V,
  sizes_ok src tgt = true -> svd_ok (svdstf_H src tgt) U D V -> 0 < sumsq (centered src) ->
  let s := fst (fst (svdstf_mat true src tgt U D V)) in
  let Rs := snd (fst (svdstf_mat true src tgt U D V)) in
  let ts := snd (svdstf_mat true src tgt U D V) in
  rot Rs /\ 0 <= s /\
  forall c A t, 0 <= c -> rot A ->
    resid (sim_apply s Rs ts) src tgt <= resid (sim_apply c A t) src tgt.
Proof. exact svdstf_optimal. Qed.
Theorem C17_svdstf_noscale_optimal : forall (src tgt : cloudR) U D V,
  sizes_ok src tgt = true -> svd_ok (svdstf_H src tgt) U D V ->
  let s := fst (fst (svdstf_mat false src tgt U D V)) in
  let Rs := snd (fst (svdstf_mat false src tgt U D V)) in
  let ts := snd (svdstf_mat false src tgt U D V) in
  rot Rs /\ s = 1 /\
  forall A t, rot A -> resid (sim_apply s Rs ts) src tgt <= resid (rigid_apply A t) src tgt.
Proof. exact svdstf_noscale_optimal. Qed.
Theorem C17_svdstf_exact_recovery : forall (src tgt : cloudR) U D V c0 A0 t0,
  tgt = map (sim_apply c0 A0 t0) src -> 0 <= c0 -> rot A0 ->
  svd_ok (svdstf_H src tgt) U D V -> 0 < sumsq (centered src) ->
  Forall2 (fun p q => sim_apply (fst (fst (svdstf_mat true src tgt U D V)))
                                (snd (fst (svdstf_mat true src tgt U D V)))
                                (snd (svdstf_mat true src tgt U D V)) p = q) src tgt.
Proof. exact svdstf_exact_recovery. Qed.

(* --- EPnP: for exact projections (depth <> 0) the true camera-frame control points lie in the
   null space of both rows that _compute_nullv builds for the point; barycentric weights that
   sum to one reproduce the point in every rigidly moved frame *)
Theorem C17_epnp_true_control_points_in_nullspace :
  forall (a : vec4' (F:=R)) (c : ctrl (F:=R)) (fu fv u0 v0 : R),
  vz (ctrl_comb a c) <> 0 ->
  dotl (epnp_row_u a fu u0 (fst (project fu fv u0 v0 (ctrl_comb a c)))) (ctrl_flat c) = 0 /\
  dotl (epnp_row_v a fv v0 (snd (project fu fv u0 v0 (ctrl_comb a c)))) (ctrl_flat c) = 0.
Proof. exact epnp_nullspace. Qed.
Theorem C17_epnp_alpha_reproduces_points :
  forall (a : vec4' (F:=R)) (c : ctrl (F:=R)) (A : mat3R) (t : vec3R),
  (let '(a0, a1, a2, a3) := a in a0 + a1 + a2 + a3 = 1) ->
  ctrl_comb a (let '(c0, c1, c2, c3) := c in
               (rigid_apply A t c0, rigid_apply A t c1, rigid_apply A t c2, rigid_apply A t c3))
  = rigid_apply A t (ctrl_comb a c).
Proof. exact alpha_reproduces_points. Qed.

(* --- the conversion: mat2SO3 never divides by zero (the selected radicand is positive on every
   matrix) and maps a rotation matrix to the unit quaternion of that rotation, in all four regions *)
Theorem C17_mat2SO3_of_rotation : forall m : mat3R, rot m ->
  exists q, mat2SO3 false m = Some q /\ unitq q /\ SO3_matrix q = m.
Proof. exact mat2SO3_rot. Qed.
(* --- svdtf AS CALLED (centroids, SVD oracle, reflection step, mat2SE3): for every oracle whose
   answer on this input meets the contract it returns a valid SE3 element (unit quaternion, proper
   rotation) acting as p |-> R p + t with (R, t) = svdtf_mat: "returns a proper rigid transform" *)
Theorem C17_svdtf_returns_proper_rigid : forall (svd : mat3R -> mat3R * vec3R * mat3R) (src tgt : cloudR),
  sizes_ok src tgt = true -> svd_contract svd (svdtf_M src tgt) ->
  exists T, svdtf svd src tgt = Some T /\ unitq (snd T) /\
    let '(U, _, Vh) := svd (svdtf_M src tgt) in
    rot (SO3_matrix (snd T)) /\
    forall p, SE3_act T p = rigid_apply (fst (svdtf_mat src tgt U Vh)) (snd (svdtf_mat src tgt U Vh)) p.
Proof. exact svdtf_returns. Qed.
(* --- history: the old function as called moved identical clouds apart (residual 32) for an oracle
   answer meeting the contract; the repaired function maps them onto each other (residual 0) *)
Theorem C17_svdtf_old_call_refuted :
  exists (svd : mat3R -> mat3R * vec3R * mat3R) (src tgt : cloudR) T T',
    sizes_ok src tgt = true /\ svd_contract svd (svdtf_M src tgt) /\
    svdtf_old svd src tgt = Some T /\ resid (SE3_act SE3_id) src tgt = 0 /\ resid (SE3_act T) src tgt = 32 /\
    svdtf svd src tgt = Some T' /\ resid (SE3_act T') src tgt = 0.
Proof. exact svdtf_old_call_refuted. Qed.
(* --- svdstf AS CALLED (mat2Sim3 with check=True: cube root of det, "not full rank" test, the ten
   allclose tests): returns a valid Sim3 element acting as p |-> s R p + t whenever the Umeyama
   scale exceeds mat2Sim3's 1e-5 threshold *)
Theorem C17_svdstf_returns_similarity : forall (svd : mat3R -> mat3R * vec3R * mat3R) (ws : bool) (src tgt : cloudR),
  sizes_ok src tgt = true -> svd_contract svd (svdstf_H src tgt) ->
  let '(U, D, V) := svd (svdstf_H src tgt) in
  1 / 100000 < fst (fst (svdstf_mat ws src tgt U D V)) ->
  exists X, svdstf svd ws src tgt = Some X /\ unitq (fst (snd X)) /\
    snd (snd X) = fst (fst (svdstf_mat ws src tgt U D V)) /\
    forall p, Sim3_act X p = sim_apply (fst (fst (svdstf_mat ws src tgt U D V)))
                                       (snd (fst (svdstf_mat ws src tgt U D V)))
                                       (snd (svdstf_mat ws src tgt U D V)) p.
Proof. exact svdstf_returns. Qed.

(* --- ICP: one pass of the loop body (knn oracle with its contract, svdtf as called, any SVD
   answer meeting the contract) does not increase the sum -- hence the mean -- of squared
   closest-point distances, for every cloud (planar included) *)
Theorem C17_icp_pass_monotone :
  forall (svd : mat3R -> mat3R * vec3R * mat3R) (knn : cloudR -> cloudR -> list (R * nat))
         (temporal target temporal' : cloudR) (err : R),
  temporal <> [] ->
  knn_ok temporal target (map snd (knn temporal target)) ->
  knn_ok temporal' target (map snd (knn temporal' target)) ->
  svd_contract svd (svdtf_M temporal (gather3 target (map snd (knn temporal target)))) ->
  icp_body svd knn temporal target = Some (err, temporal') ->
  cpd temporal' target (map snd (knn temporal' target)) <= cpd temporal target (map snd (knn temporal target)).
Proof. exact icp_pass_monotone. Qed.

(* the hypotheses are satisfiable: the witness cloud with its SVD meets the contract *)
Example C17_contract_satisfiable :
  sizes_ok wit_src wit_src = true /\ svd_ok (svdtf_M wit_src wit_src) wit_U wit_S wit_Vh.
Proof. exact wit_contract. Qed.

Print Assumptions C17_svdtf_proper. Print Assumptions C17_rotation_trace_identity.
Print Assumptions C17_rotation_trace_ge_m1. Print Assumptions C17_kabsch_trace_optimal.
Print Assumptions C17_kabsch_optimal. Print Assumptions C17_svdtf_optimal.
Print Assumptions C17_svdtf_old_reflection_pessimal. Print Assumptions C17_svdtf_old_refuted.
Print Assumptions C17_kabsch_exact_recovery. Print Assumptions C17_svdtf_exact_recovery.
Print Assumptions C17_svdstf_proper. Print Assumptions C17_svdstf_optimal.
Print Assumptions C17_svdstf_noscale_optimal. Print Assumptions C17_svdstf_exact_recovery.
Print Assumptions C17_epnp_true_control_points_in_nullspace.
Print Assumptions C17_epnp_alpha_reproduces_points.
Print Assumptions C17_mat2SO3_of_rotation. Print Assumptions C17_svdtf_returns_proper_rigid.
Print Assumptions C17_svdtf_old_call_refuted. Print Assumptions C17_svdstf_returns_similarity.
Print Assumptions C17_icp_pass_monotone.
Print Assumptions C17_contract_satisfiable.
