(* C16 — IMU preintegration equals the documented recursion and is chunking-invariant.
   Statements only; proofs in Proofs/IMU.v.  Model: Model/IMU.v (one batch item = [forward1];
   the batch axis is a map).  Frames carry the rotation increment Exp(gyro*dt) and its right
   Jacobian (external routines); theorems hold for ARBITRARY unit increments.
   [left] is the flag handed to cumprod in propagate_cov: the source uses left=false
   ([code_left]; since /repo 608b3d9 - before it the default left=true, see the history theorem).
   [forward1] = [forward1_gen code_left], [propagate_cov] = [propagate_cov_gen code_left]. *)
From Coq Require Import QArith Reals List.
Import ListNotations.
From PV Require Import Base.Num Base.Mat Model.Cumops Model.LieGroup Model.IMU Proofs.LieGroup Proofs.IMU.
Close Scope Q_scope.
Local Open Scope R_scope.
#[local] Remove Hints NumQ NumZ : typeclass_instances.

(* integrate: for EVERY frame count the parallel-prefix outputs (a, Dp, Dv, Dr, Dt) are the
   documented recursion  dR <- dR Exp(w dt), dv <- dv + dR a dt, dp <- dp + dv dt + 1/2 dR a dt^2
   started from (I, 0, 0, 0); no hypothesis on the increments *)
Theorem C16_integrate_is_recursion :
  forall (g : vec3R) (init_rot : option quatR) (fs : list (iframe R)),
  integrate g init_rot fs = Some (integ_of g (rot_default init_rot) fs).
Proof. exact integrate_is_recursion. Qed.

(* forward (integrate + predict + buffers): the outputs are the recursion composed with the initial
   state, i.e. the sequential world-frame recursion from (rot, vel, pos); the carried state is its
   last element; the carried Rij is the running product of the increments *)
Theorem C16_forward_is_recursion :
  forall (left : bool) (c : cfg R) (st : istate R) (fs : list (iframe R)),
  fs <> [] -> unitq (s_rot st) -> Forall (fun f => unitq (i_inc f)) fs ->
  let W := world_run (c_g c) (st_w st) fs in
  exists o st', forward1_gen left c st fs = Some (o, st') /\
    o_rot o = map w_R W /\ o_vel o = map w_v W /\ o_pos o = map w_p W /\
    (c_prop c = true <-> o_cov o <> None) /\
    (c_reset c = true -> st' = st) /\
    (c_reset c = false -> st_w st' = fold_left (world_step (c_g c)) fs (st_w st) /\
                          rij_val st' = fold_left SO3_mul (map (@i_inc R) fs) (rij_val st) /\
                          (forall C, o_cov o = Some C -> s_cov st' = C)).
Proof. exact forward1_world. Qed.

(* the composition with the initial state used above IS predict applied to the preintegrated fold *)
Theorem C16_compose_is_predict :
  forall g r0 v0 p0 fs s, unitq r0 -> unitq (p_R s) -> Forall (fun f => unitq (i_inc f)) fs ->
  map (compose r0 v0 p0) (pre_run g r0 s fs) = world_run g (compose r0 v0 p0 s) fs.
Proof. exact compose_run. Qed.

(* chunk invariance: every split into consecutive non-empty chunks fed with reset=False gives the
   same rot / vel / pos at every frame and the same carried (pos, rot, vel, Rij) as one call *)
Theorem C16_chunk_invariance :
  forall (left : bool) (c : cfg R) (st : istate R) (chunks : list (list (iframe R))),
  c_reset c = false -> chunks <> [] -> Forall (fun fs => fs <> []) chunks -> Forall unit_frames chunks -> unitq (s_rot st) ->
  exists os st1 o st2,
    run1_gen left c st chunks = Some (os, st1) /\ forward1_gen left c st (concat chunks) = Some (o, st2) /\
    concat (map (@o_rot R) os) = o_rot o /\ concat (map (@o_vel R) os) = o_vel o /\ concat (map (@o_pos R) os) = o_pos o /\
    st_w st1 = st_w st2 /\ rij_val st1 = rij_val st2.
Proof. exact chunk_invariance. Qed.

(* input ranks (H), (F,H), (B,F,H) *)
Theorem C16_rank_equivalence :
  forall (left : bool) (c : cfg R) (st : list (istate R)),
  (forall dt q j a r,
     forward_gen left c st (T1 dt) (T1 q) (T1 j) (T1 a) (option_map T1 r) =
     forward_gen left c st (T3 [[dt]]) (T3 [[q]]) (T3 [[j]]) (T3 [[a]]) (option_map (fun x => T3 [[x]]) r)) /\
  (forall dt q j a r,
     forward_gen left c st (T2 dt) (T2 q) (T2 j) (T2 a) (option_map T2 r) =
     forward_gen left c st (T3 [dt]) (T3 [q]) (T3 [j]) (T3 [a]) (option_map (fun x => T3 [x]) r)).
Proof. exact rank_equivalence. Qed.

(* covariance: for every frame count, any rotations / accelerations / Jacobians, dt > 0 and
   non-negative sensor covariances: propagate_cov returns a symmetric positive semidefinite 9x9 matrix *)
Theorem C16_cov_symmetric_psd :
  forall (left : bool) (cs : list (cframe R)) (init_cov : @mat R) (cg ca : vec3R),
  mvalid init_cov -> nonneg3 cg -> nonneg3 ca -> Forall (fun c => 0 < c_dt c) cs ->
  exists C, propagate_cov_gen left cs init_cov cg ca = Some C /\ wf 9 9 C /\ msym C /\ PSD 9 C.
Proof. exact propagate_cov_valid. Qed.

(* ... and through any history of calls on one object (from the zero matrix of the constructor) *)
Theorem C16_cov_valid_over_histories :
  forall (left : bool) (c : cfg R) (chunks : list (list (iframe R))) pos rot vel os st',
  Forall (cov_inputs_ok c) chunks -> run1_gen left c (init_istate pos rot vel) chunks = Some (os, st') ->
  Forall (fun o => forall C, o_cov o = Some C -> mvalid C) os /\ mvalid (s_cov st').
Proof. intros left c chunks pos rot vel os st' H E. exact (run1_cov_valid left c chunks _ os st' (init_cov_valid pos rot vel) H E). Qed.

(* the covariance is, for EVERY frame count, the documented recursion
   C_0 = init_cov, C_{k+1} = A_k C_k A_k^T + Q_k   (C12 scan theorem applied to the shape-guarded matrix
   product, transported along the well-formedness invariant of the scan) ... *)
Theorem C16_cov_fixed_is_recursion :
  forall (cs : list (cframe R)) (init_cov : @mat R) (cg ca : vec3R), wf 9 9 init_cov ->
  propagate_cov cs init_cov cg ca = Some (cov_rec (map cov_A cs) (map (cov_Q cg ca) cs) init_cov).
Proof. exact cov_is_recursion. Qed.
(* ... hence chunking-invariant: carried and returned covariance of any chunking = one call *)
Theorem C16_cov_chunk_invariance :
  forall (c : cfg R) (st : istate R) (chunks : list (list (iframe R))),
  c_reset c = false -> c_prop c = true -> chunks <> [] -> Forall (fun fs => fs <> []) chunks -> Forall unit_frames chunks ->
  unitq (s_rot st) -> wf 9 9 (s_cov st) ->
  exists os st1 o st2,
    run1_gen code_left c st chunks = Some (os, st1) /\ forward1 c st (concat chunks) = Some (o, st2) /\
    s_cov st1 = s_cov st2 /\ o_cov o = Some (s_cov st1).
Proof. exact cov_chunk_invariance. Qed.

(* history: with the product order of the source before 608b3d9 (cumprod default left=True, [forward1_old])
   the covariance was NOT chunking-invariant: three frames with gyro = 0, dt = 1/2, acc = e_x, e_y, e_z, no
   gravity, unit sensor covariances, zero state; one call vs chunks [2,1] (model evaluated over Q):
   entry (8,8) 141/128 vs 149/128; the present order gives 149/128 both ways *)
Theorem C16_old_cov_chunk_invariance_refuted :
  w_single true <> w_chunked true /\
  entry (w_single true) 8 8 = Some (141 # 128)%Q /\ entry (w_chunked true) 8 8 = Some (149 # 128)%Q.
Proof. split; [exact cov_chunk_invariance_refuted|]. destruct cov_chunks_witness as (A & B & _). now split. Qed.
Theorem C16_cov_chunks_witness : w_single code_left = w_chunked code_left /\ w_chunked code_left = w_chunked true.
Proof. exact cov_chunks_witness_fixed. Qed.

(* the batch axis: a rank-3 call with consistent shapes is the per-item call on every item
   (initial state of size 1 broadcast to B) *)
Theorem C16_forward_per_item :
  forall (left : bool) (c : cfg R) (st : list (istate R)) (items : list (list (iframe R))),
  Forall no_rot items ->
  forward_gen left c st (T3 (map (map (@i_dt R)) items)) (T3 (map (map (@i_inc R)) items)) (T3 (map (map (@i_jr R)) items))
              (T3 (map (map (@i_acc R)) items)) None =
  match bcast (length items) st with
  | Some stB => match opt_all (zip_with (forward1_gen left c) stB items) with
                | Some res => Some (map fst res, map snd res) | None => None end
  | None => None
  end.
Proof. exact forward_per_item. Qed.

(* hypotheses are satisfiable: a unit frame with positive dt, a valid configuration *)
Example C16_hypotheses_satisfiable :
  let f : iframe R := {| i_dt := 1; i_inc := SO3_id; i_acc := (0, 0, 1); i_grot := None; i_jr := mid3 |} in
  let c : cfg R := {| c_g := (0, 0, 1); c_cg := (1, 1, 1); c_ca := (1, 1, 1); c_prop := true; c_reset := false |} in
  unit_frames [f] /\ cov_inputs_ok c [f] /\ unitq (s_rot (init_istate (0, 0, 0) SO3_id (0, 0, 0))) /\
  mvalid (s_cov (init_istate (F:=R) (0, 0, 0) SO3_id (0, 0, 0))).
Proof. exact hypotheses_satisfiable. Qed.

Print Assumptions C16_integrate_is_recursion.
Print Assumptions C16_forward_is_recursion.
Print Assumptions C16_compose_is_predict.
Print Assumptions C16_chunk_invariance.
Print Assumptions C16_rank_equivalence.
Print Assumptions C16_cov_symmetric_psd.
Print Assumptions C16_cov_valid_over_histories.
Print Assumptions C16_old_cov_chunk_invariance_refuted.
Print Assumptions C16_cov_chunks_witness.
Print Assumptions C16_cov_fixed_is_recursion.
Print Assumptions C16_cov_chunk_invariance.
Print Assumptions C16_forward_per_item.
Print Assumptions C16_hypotheses_satisfiable.
