(* C16 — IMU preintegration equals the documented recursion and is chunking-invariant.
   Statements only; proofs in Proofs/IMU.v.  Model: Model/IMU.v (one batch item = [forward1];
   the batch axis is a map).  Frames carry the rotation increment Exp(gyro*dt) and its right
   Jacobian (external routines); theorems hold for ARBITRARY unit increments.
   [left] is the flag handed to cumprod in propagate_cov: the source uses left=false
   ([code_left]; since /repo 608b3d9 - before it the default left=true, see the history theorem).
   [forward1] = [forward1_gen code_left], [propagate_cov] = [propagate_cov_gen code_left].
   Second part (proofs in Proofs/IMU2.v, Proofs/IMU3.v): the statements that need no unit-norm hypothesis, every
   call of a history, identical module state, the batch axis (with and without rot=, histories, chunking,
   covariance), one frame at a time, the supplied rotation vs gravity, the increments of the C01 Exp model. *)
From Coq Require Import QArith Reals List.
Import ListNotations.
From PV Require Import Base.Num Base.Mat Model.Cumops Model.LieGroup Model.LieExp Model.IMU Proofs.LieGroup Proofs.IMU Proofs.IMU2 Proofs.IMU3 Proofs.IMU4.
Close Scope Q_scope.
Local Open Scope R_scope.
#[local] Remove Hints NumQ NumZ : typeclass_instances.

(* integrate: for EVERY frame count the parallel-prefix outputs (a, Dp, Dv, Dr, Dt) are the
   documented recursion  dR <- dR Exp(w dt), dv <- dv + dR a dt, dp <- dp + dv dt + 1/2 dR a dt^2
   started from (I, 0, 0, 0); no hypothesis on the increments *)
Theorem C16_integrate_is_recursion :
  forall (g : vec3R) (init_rot : option quatR) (fs : list (iframe R)),
  integrate g init_rot fs = Some (integ_of g (rot_default init_rot) fs).
Proof. exact integrate_is_recursion. Qed.

(* forward (integrate + predict + buffers): the outputs are the recursion composed with the initial
   state, i.e. the sequential world-frame recursion from (rot, vel, pos); the carried state is its
   last element; the carried Rij is the running product of the increments *)
Theorem C16_forward_is_recursion :
  forall (left : bool) (c : cfg R) (st : istate R) (fs : list (iframe R)),
  fs <> [] -> unitq (s_rot st) -> Forall (fun f => unitq (i_inc f)) fs ->
  let W := world_run (c_g c) (st_w st) fs in
  exists o st', forward1_gen left c st fs = Some (o, st') /\
    o_rot o = map w_R W /\ o_vel o = map w_v W /\ o_pos o = map w_p W /\
    (c_prop c = true <-> o_cov o <> None) /\
    (c_reset c = true -> st' = st) /\
    (c_reset c = false -> st_w st' = fold_left (world_step (c_g c)) fs (st_w st) /\
                          rij_val st' = fold_left SO3_mul (map (@i_inc R) fs) (rij_val st) /\
                          (forall C, o_cov o = Some C -> s_cov st' = C)).
Proof. exact forward1_world. Qed.

(* the composition with the initial state used above IS predict applied to the preintegrated fold *)
Theorem C16_compose_is_predict :
  forall g r0 v0 p0 fs s, unitq r0 -> unitq (p_R s) -> Forall (fun f => unitq (i_inc f)) fs ->
  map (compose r0 v0 p0) (pre_run g r0 s fs) = world_run g (compose r0 v0 p0 s) fs.
Proof. exact compose_run. Qed.

(* chunk invariance: every split into consecutive non-empty chunks fed with reset=False gives the
   same rot / vel / pos at every frame and the same carried (pos, rot, vel, Rij) as one call *)
Theorem C16_chunk_invariance :
  forall (left : bool) (c : cfg R) (st : istate R) (chunks : list (list (iframe R))),
  c_reset c = false -> chunks <> [] -> Forall (fun fs => fs <> []) chunks -> Forall unit_frames chunks -> unitq (s_rot st) ->
  exists os st1 o st2,
    run1_gen left c st chunks = Some (os, st1) /\ forward1_gen left c st (concat chunks) = Some (o, st2) /\
    concat (map (@o_rot R) os) = o_rot o /\ concat (map (@o_vel R) os) = o_vel o /\ concat (map (@o_pos R) os) = o_pos o /\
    st_w st1 = st_w st2 /\ rij_val st1 = rij_val st2.
Proof. exact chunk_invariance. Qed.

(* input ranks (H), (F,H), (B,F,H) *)
Theorem C16_rank_equivalence :
  forall (left : bool) (c : cfg R) (st : list (istate R)),
  (forall dt q j a r,
     forward_gen left c st (T1 dt) (T1 q) (T1 j) (T1 a) (option_map T1 r) =
     forward_gen left c st (T3 [[dt]]) (T3 [[q]]) (T3 [[j]]) (T3 [[a]]) (option_map (fun x => T3 [[x]]) r)) /\
  (forall dt q j a r,
     forward_gen left c st (T2 dt) (T2 q) (T2 j) (T2 a) (option_map T2 r) =
     forward_gen left c st (T3 [dt]) (T3 [q]) (T3 [j]) (T3 [a]) (option_map (fun x => T3 [x]) r)).
Proof. exact rank_equivalence. Qed.

(* covariance: for every frame count, any rotations / accelerations / Jacobians, dt > 0 and
   non-negative sensor covariances: propagate_cov returns a symmetric positive semidefinite 9x9 matrix *)
Theorem C16_cov_symmetric_psd :
  forall (left : bool) (cs : list (cframe R)) (init_cov : @mat R) (cg ca : vec3R),
  mvalid init_cov -> nonneg3 cg -> nonneg3 ca -> Forall (fun c => 0 < c_dt c) cs ->
  exists C, propagate_cov_gen left cs init_cov cg ca = Some C /\ wf 9 9 C /\ msym C /\ PSD 9 C.
Proof. exact propagate_cov_valid. Qed.

(* ... and through any history of calls on one object (from the zero matrix of the constructor) *)
Theorem C16_cov_valid_over_histories :
  forall (left : bool) (c : cfg R) (chunks : list (list (iframe R))) pos rot vel os st',
  Forall (cov_inputs_ok c) chunks -> run1_gen left c (init_istate pos rot vel) chunks = Some (os, st') ->
  Forall (fun o => forall C, o_cov o = Some C -> mvalid C) os /\ mvalid (s_cov st').
Proof. intros left c chunks pos rot vel os st' H E. exact (run1_cov_valid left c chunks _ os st' (init_cov_valid pos rot vel) H E). Qed.

(* the covariance is, for EVERY frame count, the documented recursion
   C_0 = init_cov, C_{k+1} = A_k C_k A_k^T + Q_k   (C12 scan theorem applied to the shape-guarded matrix
   product, transported along the well-formedness invariant of the scan) ... *)
Theorem C16_cov_fixed_is_recursion :
  forall (cs : list (cframe R)) (init_cov : @mat R) (cg ca : vec3R), wf 9 9 init_cov ->
  propagate_cov cs init_cov cg ca = Some (cov_rec (map cov_A cs) (map (cov_Q cg ca) cs) init_cov).
Proof. exact cov_is_recursion. Qed.
(* ... hence chunking-invariant: carried and returned covariance of any chunking = one call *)
Theorem C16_cov_chunk_invariance :
  forall (c : cfg R) (st : istate R) (chunks : list (list (iframe R))),
  c_reset c = false -> c_prop c = true -> chunks <> [] -> Forall (fun fs => fs <> []) chunks -> Forall unit_frames chunks ->
  unitq (s_rot st) -> wf 9 9 (s_cov st) ->
  exists os st1 o st2,
    run1_gen code_left c st chunks = Some (os, st1) /\ forward1 c st (concat chunks) = Some (o, st2) /\
    s_cov st1 = s_cov st2 /\ o_cov o = Some (s_cov st1).
Proof. exact cov_chunk_invariance. Qed.

(* history: with the product order of the source before 608b3d9 (cumprod default left=True, [forward1_old])
   the covariance was NOT chunking-invariant: three frames with gyro = 0, dt = 1/2, acc = e_x, e_y, e_z, no
   gravity, unit sensor covariances, zero state; one call vs chunks [2,1] (model evaluated over Q):
   entry (8,8) 141/128 vs 149/128; the present order gives 149/128 both ways *)
Theorem C16_old_cov_chunk_invariance_refuted :
  w_single true <> w_chunked true /\
  entry (w_single true) 8 8 = Some (141 # 128)%Q /\ entry (w_chunked true) 8 8 = Some (149 # 128)%Q.
Proof. split; [exact cov_chunk_invariance_refuted|]. destruct cov_chunks_witness as (A & B & _). now split. Qed.
Theorem C16_cov_chunks_witness : w_single code_left = w_chunked code_left /\ w_chunked code_left = w_chunked true.
Proof. exact cov_chunks_witness_fixed. Qed.

(* the batch axis: a rank-3 call with consistent shapes is the per-item call on every item
   (initial state of size 1 broadcast to B) *)
Theorem C16_forward_per_item :
  forall (left : bool) (c : cfg R) (st : list (istate R)) (items : list (list (iframe R))),
  Forall no_rot items ->
  forward_gen left c st (T3 (map (map (@i_dt R)) items)) (T3 (map (map (@i_inc R)) items)) (T3 (map (map (@i_jr R)) items))
              (T3 (map (map (@i_acc R)) items)) None =
  match bcast (length items) st with
  | Some stB => match opt_all (zip_with (forward1_gen left c) stB items) with
                | Some res => Some (map fst res, map snd res) | None => None end
  | None => None
  end.
Proof. exact forward_per_item. Qed.

(* hypotheses are satisfiable: a unit frame with positive dt, a valid configuration *)
Example C16_hypotheses_satisfiable :
  let f : iframe R := {| i_dt := 1; i_inc := SO3_id; i_acc := (0, 0, 1); i_grot := None; i_jr := mid3 |} in
  let c : cfg R := {| c_g := (0, 0, 1); c_cg := (1, 1, 1); c_ca := (1, 1, 1); c_prop := true; c_reset := false |} in
  unit_frames [f] /\ cov_inputs_ok c [f] /\ unitq (s_rot (init_istate (0, 0, 0) SO3_id (0, 0, 0))) /\
  mvalid (s_cov (init_istate (F:=R) (0, 0, 0) SO3_id (0, 0, 0))).
Proof. exact hypotheses_satisfiable. Qed.

(* ================================================================== second part *)

(* clause 1 with NO hypothesis on the quaternions: one call returns predict (composition with the initial state)
   applied to the documented pre-integration recursion [pre_run] from (I, 0, 0, 0); carried state = its last element *)
Theorem C16_forward_is_composed_recursion :
  forall (left : bool) (c : cfg R) (st : istate R) (fs : list (iframe R)),
  fs <> [] ->
  let W := map (compose (s_rot st) (s_vel st) (s_pos st)) (pre_run (c_g c) (s_rot st) pre_init fs) in
  exists o st', forward1_gen left c st fs = Some (o, st') /\
    o_rot o = map w_R W /\ o_vel o = map w_v W /\ o_pos o = map w_p W /\
    (c_prop c = true <-> o_cov o <> None) /\
    (c_reset c = true -> st' = st) /\
    (c_reset c = false -> st_w st' = List.last W (st_w st) /\
                          rij_val st' = fold_left SO3_mul (map (@i_inc R) fs) (rij_val st) /\
                          (forall C, o_cov o = Some C -> s_cov st' = C) /\
                          (c_prop c = false -> s_cov st' = s_cov st)).
Proof. exact forward1_composed. Qed.

(* the covariance one call returns is the documented recursion C <- A_k C A_k^T + Q_k over the frames of the
   call, A_k / Q_k built from (carried Rij * increments so far, increment, acceleration without gravity, Jr, dt) *)
Theorem C16_forward_cov_is_recursion :
  forall (c : cfg R) (st : istate R) (fs : list (iframe R)) o st',
  c_prop c = true -> wf 9 9 (s_cov st) -> forward1 c st fs = Some (o, st') ->
  let X := cfr_run (c_g c) (s_rot st) (rij_val st) fs in
  o_cov o = Some (cov_rec (map cov_A X) (map (cov_Q (c_cg c) (c_ca c)) X) (s_cov st)).
Proof. exact forward1_cov_is_recursion. Qed.

(* rotation, carried Rij and covariance are chunking-invariant for ANY quaternions (no unit-norm hypothesis:
   only velocity and position need R(q1 q2) = R(q1) R(q2)) *)
Theorem C16_chunk_invariance_rot_cov_any_quaternions :
  forall (c : cfg R) (st : istate R) (chunks : list (list (iframe R))),
  c_reset c = false -> chunks <> [] -> Forall (fun fs => fs <> []) chunks ->
  exists os st1 o st2,
    run1_gen code_left c st chunks = Some (os, st1) /\ forward1 c st (concat chunks) = Some (o, st2) /\
    concat (map (@o_rot R) os) = o_rot o /\ s_rot st1 = s_rot st2 /\ rij_val st1 = rij_val st2 /\
    (c_prop c = true -> wf 9 9 (s_cov st) -> s_cov st1 = s_cov st2 /\ o_cov o = Some (s_cov st1)).
Proof. exact chunk_invariance_rot_cov. Qed.

(* one call vs any chunking: same outputs at every frame and literally the SAME module state afterwards
   (pos, rot, vel, cov, Rij), so every later call behaves identically as well *)
Theorem C16_chunk_invariance_same_state :
  forall (c : cfg R) (st : istate R) (chunks : list (list (iframe R))),
  c_reset c = false -> chunks <> [] -> Forall (fun fs => fs <> []) chunks -> Forall unit_frames chunks -> unitq (s_rot st) ->
  (c_prop c = true -> wf 9 9 (s_cov st)) ->
  exists os o st',
    run1_gen code_left c st chunks = Some (os, st') /\ forward1 c st (concat chunks) = Some (o, st') /\
    concat (map (@o_rot R) os) = o_rot o /\ concat (map (@o_vel R) os) = o_vel o /\ concat (map (@o_pos R) os) = o_pos o /\
    (c_prop c = true -> o_cov o = Some (s_cov st')) /\ (c_prop c = false -> o_cov o = None).
Proof. exact chunk_invariance_state. Qed.

(* EVERY call of a history (frames [fs] after the chunks [pre], whatever follows) returns the part of ONE call on
   all frames fed so far that belongs to its frames, and the same covariance (covariance at every chunk boundary) *)
Theorem C16_call_in_history :
  forall (c : cfg R) (st : istate R) (pre : list (list (iframe R))) (fs : list (iframe R)) (post : list (list (iframe R))) os st',
  c_reset c = false -> Forall (fun x => x <> []) pre -> fs <> [] -> Forall unit_frames pre -> unit_frames fs -> unitq (s_rot st) ->
  run1_gen code_left c st (pre ++ fs :: post) = Some (os, st') ->
  exists os1 ok os2 o st2,
    os = os1 ++ ok :: os2 /\ length os1 = length pre /\
    forward1 c st (concat pre ++ fs) = Some (o, st2) /\
    o_rot o = concat (map (@o_rot R) os1) ++ o_rot ok /\
    o_vel o = concat (map (@o_vel R) os1) ++ o_vel ok /\
    o_pos o = concat (map (@o_pos R) os1) ++ o_pos ok /\
    (c_prop c = true -> wf 9 9 (s_cov st) -> o_cov o = o_cov ok).
Proof. exact call_in_history. Qed.

(* ---- the batch axis.  [call_B left c st items] is the rank-3 call whose item b has the frames [nth b items]
   (rot= present iff some frame carries a rotation); [runB] a history of such calls on one object *)
Theorem C16_forward_per_item_with_rot :
  forall (left : bool) (c : cfg R) (st : list (istate R)) (items : list (list (iframe R))),
  Forall no_rot items \/ Forall all_rot items ->
  forward_gen left c st (T3 (map (map (@i_dt R)) items)) (T3 (map (map (@i_inc R)) items)) (T3 (map (map (@i_jr R)) items))
              (T3 (map (map (@i_acc R)) items)) (rot_arg items) =
  match bcast (length items) st with
  | Some stB => match opt_all (zip_with (forward1_gen left c) stB items) with
                | Some res => Some (map fst res, map snd res) | None => None end
  | None => None
  end.
Proof. exact forward_per_item_any. Qed.

(* item b of a batched history behaves exactly like a single-IMU object fed item b's frames ... *)
Theorem C16_batch_history_per_item :
  forall (left : bool) (c : cfg R) (B : nat) (dS : istate R) (dO : out1 R) calls st oss st',
  length st = B -> Forall (fun items => length items = B /\ (Forall no_rot items \/ Forall all_rot items)) calls ->
  runB left c st calls = Some (oss, st') ->
  length st' = B /\ Forall (fun os => length os = B) oss /\ length oss = length calls /\
  forall b, (b < B)%nat ->
    run1_gen left c (nth b st dS) (map (fun items => nth b items []) calls) = Some (map (fun os => nth b os dO) oss, nth b st' dS).
Proof. exact runB_item. Qed.
(* ... and the batched history returns whenever every item's history does *)
Theorem C16_batch_history_total :
  forall (left : bool) (c : cfg R) (B : nat) (dS : istate R) calls st,
  length st = B -> Forall (fun items => length items = B /\ (Forall no_rot items \/ Forall all_rot items)) calls ->
  (forall b, (b < B)%nat -> run1_gen left c (nth b st dS) (map (fun items => nth b items []) calls) <> None) ->
  exists oss st', runB left c st calls = Some (oss, st').
Proof. exact runB_total. Qed.
(* [runB] is the model's own history function [run_calls] on the corresponding rank-3 calls; the constructor
   state (one item) is broadcast to the batch size *)
Theorem C16_batch_history_is_run_calls :
  forall (c : cfg R) calls st oss st', runB code_left c st calls = Some (oss, st') ->
  run_calls c st (map call_of_items calls) = map Some oss.
Proof. exact run_calls_runB. Qed.
Theorem C16_batch_broadcast_initial_state :
  forall (left : bool) (c : cfg R) (x : istate R) (items : list (list (iframe R))),
  Forall no_rot items \/ Forall all_rot items -> call_B left c [x] items = call_B left c (repeat x (length items)) items.
Proof. exact call_B_bcast. Qed.

(* chunk invariance for a batch of B IMUs (any B), the frame axis split by any sequence of calls, with or
   without rot=: per item the same rot / vel / pos at every frame, the same carried state and covariance as the
   single call on the item-wise concatenation [catB] *)
Theorem C16_batch_chunk_invariance :
  forall (c : cfg R) (B : nat) (dS : istate R) (dO : out1 R) (st : list (istate R)) (calls : list (list (list (iframe R)))),
  c_reset c = false -> calls <> [] -> length st = B ->
  Forall (fun items => length items = B /\ Forall (fun fs => fs <> []) items /\ Forall unit_frames items) calls ->
  Forall (Forall no_rot) calls \/ Forall (Forall all_rot) calls -> Forall (fun s => unitq (s_rot s)) st ->
  exists oss st1 os st2,
    runB code_left c st calls = Some (oss, st1) /\ call_B code_left c st (catB B calls) = Some (os, st2) /\
    length st1 = B /\ length os = B /\ length st2 = B /\
    forall b, (b < B)%nat ->
      concat (map (@o_rot R) (map (fun os => nth b os dO) oss)) = o_rot (nth b os dO) /\
      concat (map (@o_vel R) (map (fun os => nth b os dO) oss)) = o_vel (nth b os dO) /\
      concat (map (@o_pos R) (map (fun os => nth b os dO) oss)) = o_pos (nth b os dO) /\
      st_w (nth b st1 dS) = st_w (nth b st2 dS) /\ rij_val (nth b st1 dS) = rij_val (nth b st2 dS) /\
      (c_prop c = true -> wf 9 9 (s_cov (nth b st dS)) ->
       s_cov (nth b st1 dS) = s_cov (nth b st2 dS) /\ o_cov (nth b os dO) = Some (s_cov (nth b st1 dS))).
Proof. exact batch_chunk_invariance. Qed.

(* every covariance returned or carried by any history of batched calls is symmetric PSD *)
Theorem C16_batch_cov_valid_over_histories :
  forall (left : bool) (c : cfg R) (B : nat) (st : list (istate R)) (calls : list (list (list (iframe R)))) oss st',
  length st = B -> Forall (fun items => length items = B /\ (Forall no_rot items \/ Forall all_rot items)) calls ->
  Forall (fun s => mvalid (s_cov s)) st -> Forall (Forall (cov_inputs_ok c)) calls -> runB left c st calls = Some (oss, st') ->
  Forall (Forall (fun o => forall C, o_cov o = Some C -> mvalid C)) oss /\ Forall (fun s => mvalid (s_cov s)) st'.
Proof. exact runB_cov_valid. Qed.

(* the real-time use: F calls with inputs of shape (H) (one frame each, reset=False) against one call of shape (F,H) *)
Theorem C16_one_frame_at_a_time :
  forall (c : cfg R) (st : istate R) (fs : list (iframe R)),
  c_reset c = false -> fs <> [] -> unit_frames fs -> unitq (s_rot st) -> no_rot fs \/ all_rot fs ->
  exists oss st1 o st2,
    run_rank1 code_left c [st] fs = Some (map (fun x => [x]) oss, [st1]) /\ call_rank2 code_left c [st] fs = Some ([o], [st2]) /\
    concat (map (@o_rot R) oss) = o_rot o /\ concat (map (@o_vel R) oss) = o_vel o /\ concat (map (@o_pos R) oss) = o_pos o /\
    st_w st1 = st_w st2 /\ rij_val st1 = rij_val st2 /\
    (c_prop c = true -> wf 9 9 (s_cov st) -> s_cov st1 = s_cov st2 /\ o_cov o = Some (s_cov st1)).
Proof. exact one_frame_at_a_time. Qed.

(* rank equivalence through whole histories of calls on one object (outputs of every call, raised calls included) *)
Theorem C16_rank_equivalence_histories :
  forall (c : cfg R),
  (forall l st, run_calls c st (map call_1 l) = run_calls c st (map call_1as3 l)) /\
  (forall l st, run_calls c st (map call_2 l) = run_calls c st (map call_2as3 l)).
Proof. exact rank_equivalence_histories. Qed.

(* ---- gravity and the supplied rotation.  If the supplied rotations take out the same gravity vector as the
   integrated rotation would, the call is exactly the call without rot= (outputs, covariance, carried state) *)
Theorem C16_supplied_rot_irrelevant :
  forall (left : bool) (c : cfg R) (st : istate R) (fs : list (iframe R)),
  rot_agrees (c_g c) (s_rot st) fs -> forward1_gen left c st (map strip_rot fs) = forward1_gen left c st fs.
Proof. exact forward1_rot_irrelevant. Qed.
(* zero gravity: any supplied rotation *)
Theorem C16_zero_gravity_rot_irrelevant :
  forall (left : bool) (c : cfg R) (st : istate R) (fs : list (iframe R)),
  c_g c = vzero -> forward1_gen left c st (map strip_rot fs) = forward1_gen left c st fs.
Proof. intros left c st fs H. apply forward1_rot_irrelevant. rewrite H. apply rot_agrees_zero_g. Qed.
(* supplied rotation = integrated rotation AFTER the frame's increment: the index convention of the code *)
Theorem C16_integrated_rot_irrelevant :
  forall (left : bool) (c : cfg R) (st : istate R) (fs : list (iframe R)),
  rot_is_integrated (s_rot st) fs -> forward1_gen left c st (map strip_rot fs) = forward1_gen left c st fs.
Proof. intros left c st fs H. apply forward1_rot_irrelevant. now apply rot_agrees_integrated. Qed.
(* an accelerometer reading exactly gravity in the frame after the increment (or in the supplied rotation)
   produces no acceleration: velocity constant, position p + T v ... *)
Theorem C16_gravity_only_no_acceleration :
  forall g (fs : list (iframe R)) (s : wstate), reads_gravity g (w_R s) fs ->
  Forall (fun s' => w_v s' = w_v s) (world_run g s fs) /\
  w_v (fold_left (world_step g) fs s) = w_v s /\
  w_p (fold_left (world_step g) fs s) = vadd (w_p s) (vscale (fold_left Rplus (map (@i_dt R) fs) 0) (w_v s)).
Proof. exact gravity_only_no_acceleration. Qed.
(* ... whereas gravity read in the frame BEFORE the increment is not cancelled (half turn about x, g = e_z, dt = 1) *)
Theorem C16_gravity_pre_increment_not_cancelled :
  let g : vec3R := (0, 0, 1) in
  let f : iframe R := {| i_dt := 1; i_inc := ((1, 0, 0), 0); i_acc := SO3_act (SO3_inv SO3_id) g; i_grot := None; i_jr := mid3 |} in
  unitq (i_inc f) /\ w_v (world_step g (SO3_id, vzero, vzero) f) = (0, 0, 2).
Proof. exact gravity_pre_increment_not_cancelled. Qed.

(* ---- gyro level: the increments are so3(gyro*dt).Exp(); with the C01 model of Exp they are exactly unit on the
   closed-form branch and at gyro*dt = 0 (so [unit_frames] is met) - but not on the Taylor branch
   0 < |gyro*dt| <= eps (deviation theta^6 (640 - 60 theta^2 + theta^4)/14745600 over R, ~1e-96 for float64):
   there only the any-quaternion statements above apply exactly *)
Theorem C16_gyro_increments_unit :
  forall (eps : R) (w : vec3R) (d : R), 0 <= eps ->
  eps < vnorm (wdt w d) \/ wdt w d = vzero -> unitq (gyro_inc (so3_exp eps) (w, d)).
Proof. exact gyro_inc_unit. Qed.
Theorem C16_gyro_taylor_increment_not_unit :
  forall (eps : R) (w : vec3R) (d : R), eps <= 1 / 1024 ->
  0 < vnorm (wdt w d) <= eps -> ~ unitq (gyro_inc (so3_exp eps) (w, d)).
Proof. exact gyro_inc_taylor_not_unit. Qed.
Example C16_gyro_unit_example : unitq (gyro_inc (so3_exp (/ 4503599627370496)) ((0, 0, 1), 1)).
Proof. exact gyro_unit_example. Qed.

(* the unit-norm hypothesis of the velocity / position chunk invariance is NEEDED: three frames with the non-unit
   increment (1,0,0 | 1), dt = 1, acc = 0, 0, e_y, no gravity, zero state; one call vs chunks [1, 2] (model over Q) *)
Theorem C16_non_unit_velocity_not_chunk_invariant :
  nu_single = Some (0, -7, 0)%Q /\ nu_chunked = Some (0, -3, -4)%Q /\ nu_single <> nu_chunked.
Proof. exact non_unit_velocity_not_chunk_invariant. Qed.

(* the hypotheses of the batch theorems are satisfiable non-trivially: two IMUs, calls of 2 + 1 frames, half-turn
   increments, supplied rotations, non-identity initial rotation, non-zero gravity *)
Example C16_batch_hypotheses_satisfiable :
  ex_calls <> [] /\ length ex_st = 2%nat /\ Forall (good_call 2) ex_calls /\ Forall (Forall all_rot) ex_calls /\
  Forall (fun s => unitq (s_rot s)) ex_st /\ batch_ok 2 ex_calls /\ Forall (Forall (cov_inputs_ok ex_cfg)) ex_calls /\
  Forall (fun s => mvalid (s_cov s)) ex_st /\ c_reset ex_cfg = false /\
  rot_is_integrated ((0, 1, 0), 0) [{| i_dt := 1; i_inc := ((1, 0, 0), 0); i_acc := (0, 0, 0); i_grot := Some (SO3_mul ((0, 1, 0), 0) ((1, 0, 0), 0)); i_jr := mid3 |}].
Proof. exact batch_hypotheses_satisfiable. Qed.

(* exception safety of the modelled object (Proofs/IMU4.v): a call that raises leaves the carried buffers untouched, so the
   calls of a history that return give exactly what they give in the history without the rejected calls - every
   later call, every output.  (About the model; the implementation is held to it by the tie's oracle
   `changed-by-a-call-that-raised`, added after seeded change C16-9.) *)
Theorem C16_raising_calls_are_transparent :
  forall (c : cfg R) (cs : list (call R)) (st : list (istate R)),
  run_calls c st (returning c st cs) = map Some (somes (run_calls c st cs)).
Proof. exact raising_calls_transparent. Qed.

Theorem C16_rejected_call_in_front_changes_nothing :
  forall (c : cfg R) dt inc jr acc rot (cs : list (call R)) (st : list (istate R)),
  forward c st dt inc jr acc rot = None ->
  run_calls c st ((dt, inc, jr, acc, rot) :: cs) = None :: run_calls c st cs.
Proof. exact rejected_call_in_front. Qed.

Print Assumptions C16_integrate_is_recursion.
Print Assumptions C16_forward_is_recursion.
Print Assumptions C16_compose_is_predict.
Print Assumptions C16_chunk_invariance.
Print Assumptions C16_rank_equivalence.
Print Assumptions C16_cov_symmetric_psd.
Print Assumptions C16_cov_valid_over_histories.
Print Assumptions C16_old_cov_chunk_invariance_refuted.
Print Assumptions C16_cov_chunks_witness.
Print Assumptions C16_cov_fixed_is_recursion.
Print Assumptions C16_cov_chunk_invariance.
Print Assumptions C16_forward_per_item.
Print Assumptions C16_hypotheses_satisfiable.
Print Assumptions C16_forward_is_composed_recursion.
Print Assumptions C16_forward_cov_is_recursion.
Print Assumptions C16_chunk_invariance_rot_cov_any_quaternions.
Print Assumptions C16_chunk_invariance_same_state.
Print Assumptions C16_call_in_history.
Print Assumptions C16_forward_per_item_with_rot.
Print Assumptions C16_batch_history_per_item.
Print Assumptions C16_batch_history_total.
Print Assumptions C16_batch_history_is_run_calls.
Print Assumptions C16_batch_broadcast_initial_state.
Print Assumptions C16_batch_chunk_invariance.
Print Assumptions C16_batch_cov_valid_over_histories.
Print Assumptions C16_one_frame_at_a_time.
Print Assumptions C16_rank_equivalence_histories.
Print Assumptions C16_supplied_rot_irrelevant.
Print Assumptions C16_zero_gravity_rot_irrelevant.
Print Assumptions C16_integrated_rot_irrelevant.
Print Assumptions C16_gravity_only_no_acceleration.
Print Assumptions C16_gravity_pre_increment_not_cancelled.
Print Assumptions C16_gyro_increments_unit.
Print Assumptions C16_gyro_taylor_increment_not_unit.
Print Assumptions C16_gyro_unit_example.
Print Assumptions C16_batch_hypotheses_satisfiable.
Print Assumptions C16_non_unit_velocity_not_chunk_invariant.
Print Assumptions C16_raising_calls_are_transparent.
Print Assumptions C16_rejected_call_in_front_changes_nothing.
