(* C19 — Splines interpolate and are equivariant; APE/RPE statistics and invariances; geodesic loss.
   Statements only (over R); proofs in Proofs/Spline.v and Proofs/Metric.v.

   chspline: [chspline1 k q ys] is one scalar column of pp.chspline(points, interval = q); k is the
   number of samples per unit interval (torch.arange(0,1,q).shape[0]); [chs_kq k q] says that these
   k multiples of q lie in [0,1).  bspline: over ANY group G with algebra A whose operations satisfy
   [group_laws] and [exp_log_laws] (stated in full in Proofs/Spline.v: associativity, identity,
   inverses; Exp(Log X) = X, 1 x = x, Exp(0 x) = id, Exp(a x) Exp(b x) = Exp((a+b) x), Log id = 0,
   c 0 = 0, Exp 0 = id).  Metrics: [sqrt] is the real square root, the SVD alignment [svdstf], the
   matrix->quaternion conversion [m2q] and (in the generic statements) the angle function are
   arbitrary functions; what is assumed of them is written in each statement. *)
From Coq Require Import Reals List ZArith Lra Lia.
Import ListNotations.
From PV Require Import Base.Num Model.LieGroup Model.LieExp Model.LieLog Model.Spline Model.Metric
  Proofs.LieGroup Proofs.LieLog Proofs.Spline Proofs.Metric.
Local Open Scope R_scope.
#[local] Remove Hints NumQ NumZ : typeclass_instances.

(* ------------------------------------------------------------------ chspline *)
(* k = chs_count a b is the number of multiples of the interval a/b that lie in [0, 1) *)
Theorem C19_chspline_k_is_number_of_multiples : forall a b j : Z, (0 < a)%Z -> (0 < b)%Z -> (0 <= j)%Z ->
  (IZR j * (IZR a / IZR b) < 1 <-> (j < chs_count a b)%Z).
Proof. exact chs_count_spec. Qed.

(* (N-1) k + 1 samples, for every N >= 2 *)
Theorem C19_chspline_count : forall (k : nat) (q : R) (ys : list R), chs_kq k q -> (2 <= length ys)%nat ->
  exists out, chspline1 k q ys = Some out /\ length out = ((length ys - 1) * k + 1)%nat.
Proof. exact chspline_count. Qed.

(* sample n k + j is taken at time n + j q (n < N-1, j < k), the last sample at time N-1 *)
Theorem C19_chspline_sample_times : forall (M k1 : nat) (q : R) (d : R),
  (forall n j, (n < M)%nat -> (j < S (S k1))%nat ->
     nth (n * S (S k1) + j) (chs_timeline (S M) (S (S k1)) q) d = IZR (Z.of_nat n) + IZR (Z.of_nat j) * q) /\
  nth (M * S (S k1)) (chs_timeline (S M) (S (S k1)) q) d = IZR (Z.of_nat M).
Proof. intros. split; [intros; now apply nth_chs_timeline_inner|apply nth_chs_timeline_last]. Qed.

(* the spline passes through every input point at the integer times: sample n k is point n *)
Theorem C19_chspline_interpolates : forall (k : nat) (q : R) (ys : list R) (n : nat) (d : R),
  chs_kq k q -> (2 <= length ys)%nat -> (n < length ys)%nat ->
  exists out, chspline1 k q ys = Some out /\ nth (n * k) out d = nth n ys d.
Proof. exact chspline_interpolates. Qed.

(* uniformly sampled straight lines a + n b are reproduced exactly: every sample is the line at its time *)
Theorem C19_chspline_linear_exact : forall (k : nat) (q a b : R) (N : nat), chs_kq k q -> (2 <= N)%nat ->
  chspline1 k q (line_pts a b N) = Some (map (fun v => a + v * b) (chs_timeline N k q)).
Proof. exact chspline_linear_exact. Qed.

(* ------------------------------------------------------------------ bspline *)
Section BsplineStatements.
Context {G A : Type} (gmul : G -> G -> G) (ginv : G -> G) (gid : G) (gexp : A -> G) (glog : G -> A)
  (ascale : R -> A -> A) (azero : A).
Local Notation seg := (bs_seg G A gmul ginv gexp glog ascale).
Local Notation bspl := (bspline G A gmul ginv gexp glog ascale).

(* (N-3) k + 1 samples (no hypothesis on the group) *)
Theorem C19_bspline_count : forall (k : nat) (q : R) (data : list G), q < 1 -> (4 <= length data)%nat ->
  exists out, bspl k q false data = Some out /\ length out = ((length data - 3) * k + 1)%nat.
Proof. exact (bspline_count G A gmul ginv gexp glog ascale). Qed.

(* continuity: the end (u = 1) of segment i is output sample (i+1) k, the first sample of segment
   i+1; the end of the last segment is the final sample (weights = row sums of the basis matrix) *)
Theorem C19_bspline_continuous : group_laws gmul ginv gid -> exp_log_laws gmul gid gexp glog ascale azero ->
  forall (k : nat) (q : R) (data : list G) (d : G), q < 1 -> (4 <= length data)%nat -> (1 <= k)%nat ->
  exists out, bspl k q false data = Some out /\
    (forall i, (i + 4 < length data)%nat ->
       seg (nth i data d, nth (i + 1) data d, nth (i + 2) data d, nth (i + 3) data d) (bs_w 1)
       = nth ((i + 1) * k) out d) /\
    seg (nth (length data - 4) data d, nth (length data - 3) data d, nth (length data - 2) data d,
         nth (length data - 1) data d) (bs_w 1) = nth ((length data - 3) * k) out d.
Proof. intros HG HE. exact (bspline_continuous_b gmul ginv gid gexp glog ascale azero HG HE). Qed.

(* bspline commutes with left multiplication by any fixed pose (with and without extrapolation) *)
Theorem C19_bspline_left_equivariant : group_laws gmul ginv gid ->
  forall (k : nat) (q : R) (ex : bool) (g : G) (data : list G),
  bspl k q ex (map (gmul g) data) = option_map (map (gmul g)) (bspl k q ex data).
Proof. intros HG. exact (bspline_left_equivariant_b gmul ginv gid gexp glog ascale HG). Qed.

(* constant-twist motions: through T0 Exp(n xi), n = 0..N-1, sample (i, j) is T0 Exp((i+1+j q) xi)
   and the final sample is T0 Exp((N-2) xi), whenever Log(Exp xi) = xi *)
Theorem C19_bspline_constant_twist : group_laws gmul ginv gid -> exp_log_laws gmul gid gexp glog ascale azero ->
  forall (k : nat) (q : R) (T0 : G) (xi : A) (N : nat) (d : G), q < 1 -> (4 <= N)%nat -> glog (gexp xi) = xi ->
  exists out, bspl k q false (twist_path G A gmul gexp ascale T0 xi N) = Some out /\
    (forall i j, (i + 3 < N)%nat -> (j < k)%nat ->
       nth (i * k + j) out d = gmul T0 (gexp (ascale (INR i + 1 + INR j * q) xi))) /\
    nth ((N - 3) * k) out d = gmul T0 (gexp (ascale (INR N - 2) xi)).
Proof. intros HG HE. exact (bspline_constant_twist_b gmul ginv gid gexp glog ascale azero HG HE). Qed.

(* extrapolate = True: first sample = first pose, last sample = last pose, any number >= 1 of poses *)
Theorem C19_bspline_extrapolate_endpoints : group_laws gmul ginv gid -> exp_log_laws gmul gid gexp glog ascale azero ->
  forall (k : nat) (q : R) (data : list G) (a : G), q < 1 -> (1 <= k)%nat -> data <> [] ->
  exists out, bspl k q true data = Some out /\ nth 0 out a = hd a data /\ List.last out a = List.last data a.
Proof. intros HG HE. exact (bspline_extrapolate_endpoints_b gmul ginv gid gexp glog ascale azero HG HE). Qed.
End BsplineStatements.

(* ------------------------------------------------------------------ statistics *)
(* Max >= RMSE >= Mean >= Min >= 0 for every non-empty error list (any length) *)
Theorem C19_stats_order : forall err : list R, err <> [] ->
  exists s, compute_stats sqrt err = Some s /\
    st_max s >= st_rmse s /\ st_rmse s >= st_mean s /\ st_mean s >= st_min s /\ st_min s >= 0.
Proof. exact stats_order. Qed.

(* ------------------------------------------------------------------ rpe / ape *)
(* rpe (no alignment) is unchanged when the reference is left-multiplied by gr and the estimate by
   ge (take one of them = identity for "either trajectory"): every error type, association and
   pairing option (frame / distance, all, rpair), any delta, rtol, diff, offset *)
Theorem C19_rpe_left_invariant : forall angleF rad2degF svdstf (gr ge : se3R) rstamp rpose estamp epose
    et diff off bd delta di rtol all rpair,
  valid_SE3 gr -> valid_SE3 ge -> Forall valid_SE3 rpose -> Forall valid_SE3 epose ->
  rpe sqrt angleF rad2degF svdstf rstamp (map (SE3_mul gr) rpose) estamp (map (SE3_mul ge) epose)
      et diff off false false false bd delta di rtol all rpair
  = rpe sqrt angleF rad2degF svdstf rstamp rpose estamp epose et diff off false false false bd delta di rtol all rpair.
Proof. exact rpe_left_invariant. Qed.

(* identical trajectories (distinct stamps): all statistics are 0 (STD: 0, or NaN for one pose).
   The angle of the error types radian/degree is mat2SO3(.).Log().norm() with an arbitrary [m2q]
   that maps the identity matrix to a quaternion with zero vector part *)
Theorem C19_ape_identical_zero : forall eps m2q svdstf st P tr et diff origin,
  qv (m2q mid3) = vzero -> mk_stamped st P = Some tr -> NoDup (map fst tr) -> Forall valid_SE3 P -> 0 < diff ->
  exists s, ape sqrt (angle_of eps m2q) rad2deg svdstf st P st P et diff 0 false false origin = Some s /\ zero_stats s.
Proof. intros. eapply ape_identical_zero; eauto using angle_of_id, rad2deg_0. Qed.
Theorem C19_rpe_identical_zero : forall eps m2q svdstf st P tr et diff origin bd delta di rtol all rpair s,
  qv (m2q mid3) = vzero -> mk_stamped st P = Some tr -> NoDup (map fst tr) -> Forall valid_SE3 P -> 0 < diff ->
  rpe sqrt (angle_of eps m2q) rad2deg svdstf st P st P et diff 0 false false origin bd delta di rtol all rpair = Some s ->
  zero_stats s.
Proof. intros. eapply rpe_identical_zero; eauto using angle_of_id, rad2deg_0. Qed.

(* partial (T2): ape with align (and scale) is unchanged by a similarity S applied to the estimate,
   GIVEN the contract of the SVD oracle (unit quaternion result; transforming the source cloud by S
   composes the solution with S^-1).  Missing: the contract itself (uniqueness of Umeyama's
   solution), which belongs to C17. *)
Theorem C19_ape_align_invariant_partial : forall angleF rad2degF svdstf (S : sim3R) (sc : bool),
  valid_Sim3 S ->
  (forall ets rts, unitq (fst (snd (svdstf ets rts sc)))) ->
  (forall ets rts, svdstf (map (Sim3_act S) ets) rts sc = Sim3_mul (svdstf ets rts sc) (Sim3_inv S)) ->
  forall rstamp rpose estamp epose et diff off al origin, (al || sc)%bool = true ->
  ape sqrt angleF rad2degF svdstf rstamp rpose estamp (map (align_pose S) epose) et diff off al sc origin
  = ape sqrt angleF rad2degF svdstf rstamp rpose estamp epose et diff off al sc origin.
Proof. exact ape_align_invariant_partial. Qed.

(* ------------------------------------------------------------------ geodesic loss *)
(* in [0, pi] entry-wise ('none'), in [0, pi] ('mean'), in [0, n pi] ('sum'); symmetric in its
   arguments under every reduction; eps = the dtype's machine epsilon (any 0 <= eps <= 1/2) *)
Theorem C19_geodesic_range_symmetric : forall (eps : R) red (xs ys : list quatR),
  0 <= eps <= 1 / 2 -> Forall unitq xs -> Forall unitq ys -> combine xs ys <> [] ->
  (forall v, In v (geodesic_loss eps red xs ys) ->
     0 <= v <= match red with Rsum => INR (length (combine xs ys)) * PI | _ => PI end) /\
  geodesic_loss eps red xs ys = geodesic_loss eps red ys xs.
Proof. intros. split; [now apply geodesic_loss_range|apply geodesic_loss_sym]. Qed.

(* the value is the rotation angle between the rotation parts: in [0, pi] (above) with cosine
   (trace(R_x R_y^-1) - 1) / 2, in the generic regime of Log (angle not within eps of 0 or pi) *)
Theorem C19_geodesic_is_rotation_angle : forall (eps : R) (x y : quatR), 0 <= eps -> unitq x -> unitq y ->
  let q := SO3_mul x (SO3_inv y) in eps < vnorm (qv q) -> eps < Rabs (qw q) ->
  cos (geodesic_theta eps x y) = (m3trace (SO3_matrix q) - 1) / 2.
Proof. exact geodesic_theta_is_angle. Qed.

(* ------------------------------------------------------------------ the hypotheses are satisfiable *)
Example C19_chs_kq_example : chs_kq 10 (1 / 10) /\ chs_kq 4 (3 / 10) /\ chs_kq 2 (1 / 2).
Proof. unfold chs_kq. cbn [Nat.sub INR]. repeat split; try lia; lra. Qed.
Example C19_laws_example_reals :
  group_laws Rplus Ropp 0 /\ exp_log_laws Rplus 0 (fun x : R => x) (fun x : R => x) Rmult 0 /\
  (forall xi : R, (fun x : R => x) ((fun x : R => x) xi) = xi).
Proof. exact laws_instance_R. Qed.
Example C19_laws_example_noncommutative :
  group_laws h3_mul h3_inv (0, 0, 0) /\ exp_log_laws h3_mul (0, 0, 0) h3_exp h3_log h3_scale (0, 0, 0) /\
  (forall xi, h3_log (h3_exp xi) = xi) /\ (exists p r, h3_mul p r <> h3_mul r p).
Proof. exact laws_instance_Heisenberg. Qed.

Print Assumptions C19_chspline_k_is_number_of_multiples. Print Assumptions C19_chspline_count.
Print Assumptions C19_chspline_sample_times. Print Assumptions C19_chspline_interpolates.
Print Assumptions C19_chspline_linear_exact. Print Assumptions C19_bspline_count.
Print Assumptions C19_bspline_continuous. Print Assumptions C19_bspline_left_equivariant.
Print Assumptions C19_bspline_constant_twist. Print Assumptions C19_bspline_extrapolate_endpoints.
Print Assumptions C19_stats_order. Print Assumptions C19_rpe_left_invariant.
Print Assumptions C19_ape_identical_zero. Print Assumptions C19_rpe_identical_zero.
Print Assumptions C19_ape_align_invariant_partial. Print Assumptions C19_geodesic_range_symmetric.
Print Assumptions C19_geodesic_is_rotation_angle.
