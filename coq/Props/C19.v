(* C19 — Splines interpolate and are equivariant; APE/RPE statistics and invariances; geodesic loss.
   Statements only (over R); proofs in Proofs/Spline.v, Proofs/Metric.v and (part 2, below the first
   block of Print Assumptions) Proofs/Spline2-4.v, Proofs/Metric2-6.v.
   Part 2 states the bspline clauses on SE3 ITSELF ([bspline_SE3], the instance pypose uses; SE3 as
   modelled satisfies the abstract group / Exp-Log laws only on unit quaternions and outside the Taylor
   and angle-pi regimes of Exp / Log, so the abstract theorems do not apply to it as they stand), the
   sample count k for every real interval, "is the rotation angle" for every pair of rotations, the
   order of the statistics on every ape / rpe output, rpe invariance with origin alignment, and that
   rpe of a trajectory against itself does return; it replaces the alignment-invariance contract of
   part 1 (unsatisfiable for S <> identity, see C19_ape_align_unguarded_contract_forces_identity) by a
   guarded one, proves the exact-copy case of alignment invariance with the svdstf model of C17, and
   records that the zero-statistics clause fails for repeated time stamps.
   Still decided by the tie only: bspline on SE3 when a relative pose or weighted increment falls in the
   Taylor (angle <= eps) or angle-pi regime of Exp / Log (the model is then only eps-close to a group);
   alignment invariance of ape for noisy estimates (needs uniqueness of Umeyama's solution) and for the
   rotation-type errors of exact copies; distance pairing of rpe returning; IEEE rounding.

   chspline: [chspline1 k q ys] is one scalar column of pp.chspline(points, interval = q); k is the
   number of samples per unit interval (torch.arange(0,1,q).shape[0]); [chs_kq k q] says that these
   k multiples of q lie in [0,1).  bspline: over ANY group G with algebra A whose operations satisfy
   [group_laws] and [exp_log_laws] (stated in full in Proofs/Spline.v: associativity, identity,
   inverses; Exp(Log X) = X, 1 x = x, Exp(0 x) = id, Exp(a x) Exp(b x) = Exp((a+b) x), Log id = 0,
   c 0 = 0, Exp 0 = id).  Metrics: [sqrt] is the real square root, the SVD alignment [svdstf], the
   matrix->quaternion conversion [m2q] and (in the generic statements) the angle function are
   arbitrary functions; what is assumed of them is written in each statement. *)
From Coq Require Import Reals List ZArith Lra Lia.
Import ListNotations.
From PV Require Import Base.Num Model.LieGroup Model.LieExp Model.LieLog Model.Spline Model.Metric
  Proofs.LieGroup Proofs.LieLog Proofs.Spline Proofs.Metric
  Proofs.Spline2 Proofs.Spline3 Proofs.Spline4 Proofs.Spline5 Proofs.Metric2 Proofs.Metric3 Proofs.Metric4 Proofs.Metric5 Proofs.Metric6
  Model.Controller Model.Align Proofs.Align Proofs.Metric7 Proofs.Metric8 Proofs.Metric9.
Local Open Scope R_scope.
#[local] Remove Hints NumQ NumZ : typeclass_instances.

(* ------------------------------------------------------------------ chspline *)
(* k = chs_count a b is the number of multiples of the interval a/b that lie in [0, 1) *)
Theorem C19_chspline_k_is_number_of_multiples : forall a b j : Z, (0 < a)%Z -> (0 < b)%Z -> (0 <= j)%Z ->
  (IZR j * (IZR a / IZR b) < 1 <-> (j < chs_count a b)%Z).
Proof. exact chs_count_spec. Qed.

(* (N-1) k + 1 samples, for every N >= 2 *)
Theorem C19_chspline_count : forall (k : nat) (q : R) (ys : list R), chs_kq k q -> (2 <= length ys)%nat ->
  exists out, chspline1 k q ys = Some out /\ length out = ((length ys - 1) * k + 1)%nat.
Proof. exact chspline_count. Qed.

(* sample n k + j is taken at time n + j q (n < N-1, j < k), the last sample at time N-1 *)
Theorem C19_chspline_sample_times : forall (M k1 : nat) (q : R) (d : R),
  (forall n j, (n < M)%nat -> (j < S (S k1))%nat ->
     nth (n * S (S k1) + j) (chs_timeline (S M) (S (S k1)) q) d = IZR (Z.of_nat n) + IZR (Z.of_nat j) * q) /\
  nth (M * S (S k1)) (chs_timeline (S M) (S (S k1)) q) d = IZR (Z.of_nat M).
Proof. intros. split; [intros; now apply nth_chs_timeline_inner|apply nth_chs_timeline_last]. Qed.

(* the spline passes through every input point at the integer times: sample n k is point n *)
Theorem C19_chspline_interpolates : forall (k : nat) (q : R) (ys : list R) (n : nat) (d : R),
  chs_kq k q -> (2 <= length ys)%nat -> (n < length ys)%nat ->
  exists out, chspline1 k q ys = Some out /\ nth (n * k) out d = nth n ys d.
Proof. exact chspline_interpolates. Qed.

(* uniformly sampled straight lines a + n b are reproduced exactly: every sample is the line at its time *)
Theorem C19_chspline_linear_exact : forall (k : nat) (q a b : R) (N : nat), chs_kq k q -> (2 <= N)%nat ->
  chspline1 k q (line_pts a b N) = Some (map (fun v => a + v * b) (chs_timeline N k q)).
Proof. exact chspline_linear_exact. Qed.

(* ------------------------------------------------------------------ bspline *)
Section BsplineStatements.
Context {G A : Type} (gmul : G -> G -> G) (ginv : G -> G) (gid : G) (gexp : A -> G) (glog : G -> A)
  (ascale : R -> A -> A) (azero : A).
Local Notation seg := (bs_seg G A gmul ginv gexp glog ascale).
Local Notation bspl := (bspline G A gmul ginv gexp glog ascale).

(* (N-3) k + 1 samples (no hypothesis on the group) *)
Theorem C19_bspline_count : forall (k : nat) (q : R) (data : list G), q < 1 -> (4 <= length data)%nat ->
  exists out, bspl k q false data = Some out /\ length out = ((length data - 3) * k + 1)%nat.
Proof. exact (bspline_count G A gmul ginv gexp glog ascale). Qed.

(* continuity: the end (u = 1) of segment i is output sample (i+1) k, the first sample of segment
   i+1; the end of the last segment is the final sample (weights = row sums of the basis matrix) *)
Theorem C19_bspline_continuous : group_laws gmul ginv gid -> exp_log_laws gmul gid gexp glog ascale azero ->
  forall (k : nat) (q : R) (data : list G) (d : G), q < 1 -> (4 <= length data)%nat -> (1 <= k)%nat ->
  exists out, bspl k q false data = Some out /\
    (forall i, (i + 4 < length data)%nat ->
       seg (nth i data d, nth (i + 1) data d, nth (i + 2) data d, nth (i + 3) data d) (bs_w 1)
       = nth ((i + 1) * k) out d) /\
    seg (nth (length data - 4) data d, nth (length data - 3) data d, nth (length data - 2) data d,
         nth (length data - 1) data d) (bs_w 1) = nth ((length data - 3) * k) out d.
Proof. intros HG HE. exact (bspline_continuous_b gmul ginv gid gexp glog ascale azero HG HE). Qed.

(* bspline commutes with left multiplication by any fixed pose (with and without extrapolation) *)
Theorem C19_bspline_left_equivariant : group_laws gmul ginv gid ->
  forall (k : nat) (q : R) (ex : bool) (g : G) (data : list G),
  bspl k q ex (map (gmul g) data) = option_map (map (gmul g)) (bspl k q ex data).
Proof. intros HG. exact (bspline_left_equivariant_b gmul ginv gid gexp glog ascale HG). Qed.

(* constant-twist motions: through T0 Exp(n xi), n = 0..N-1, sample (i, j) is T0 Exp((i+1+j q) xi)
   and the final sample is T0 Exp((N-2) xi), whenever Log(Exp xi) = xi *)
Theorem C19_bspline_constant_twist : group_laws gmul ginv gid -> exp_log_laws gmul gid gexp glog ascale azero ->
  forall (k : nat) (q : R) (T0 : G) (xi : A) (N : nat) (d : G), q < 1 -> (4 <= N)%nat -> glog (gexp xi) = xi ->
  exists out, bspl k q false (twist_path G A gmul gexp ascale T0 xi N) = Some out /\
    (forall i j, (i + 3 < N)%nat -> (j < k)%nat ->
       nth (i * k + j) out d = gmul T0 (gexp (ascale (INR i + 1 + INR j * q) xi))) /\
    nth ((N - 3) * k) out d = gmul T0 (gexp (ascale (INR N - 2) xi)).
Proof. intros HG HE. exact (bspline_constant_twist_b gmul ginv gid gexp glog ascale azero HG HE). Qed.

(* extrapolate = True: first sample = first pose, last sample = last pose, any number >= 1 of poses *)
Theorem C19_bspline_extrapolate_endpoints : group_laws gmul ginv gid -> exp_log_laws gmul gid gexp glog ascale azero ->
  forall (k : nat) (q : R) (data : list G) (a : G), q < 1 -> (1 <= k)%nat -> data <> [] ->
  exists out, bspl k q true data = Some out /\ nth 0 out a = hd a data /\ List.last out a = List.last data a.
Proof. intros HG HE. exact (bspline_extrapolate_endpoints_b gmul ginv gid gexp glog ascale azero HG HE). Qed.
End BsplineStatements.

(* ------------------------------------------------------------------ statistics *)
(* Max >= RMSE >= Mean >= Min >= 0 for every non-empty error list (any length) *)
Theorem C19_stats_order : forall err : list R, err <> [] ->
  exists s, compute_stats sqrt err = Some s /\
    st_max s >= st_rmse s /\ st_rmse s >= st_mean s /\ st_mean s >= st_min s /\ st_min s >= 0.
Proof. exact stats_order. Qed.

(* ------------------------------------------------------------------ rpe / ape *)
(* rpe (no alignment) is unchanged when the reference is left-multiplied by gr and the estimate by
   ge (take one of them = identity for "either trajectory"): every error type, association and
   pairing option (frame / distance, all, rpair), any delta, rtol, diff, offset *)
Theorem C19_rpe_left_invariant : forall angleF rad2degF svdstf (gr ge : se3R) rstamp rpose estamp epose
    et diff off bd delta di rtol all rpair,
  valid_SE3 gr -> valid_SE3 ge -> Forall valid_SE3 rpose -> Forall valid_SE3 epose ->
  rpe sqrt angleF rad2degF svdstf rstamp (map (SE3_mul gr) rpose) estamp (map (SE3_mul ge) epose)
      et diff off false false false bd delta di rtol all rpair
  = rpe sqrt angleF rad2degF svdstf rstamp rpose estamp epose et diff off false false false bd delta di rtol all rpair.
Proof. exact rpe_left_invariant. Qed.

(* identical trajectories (distinct stamps): all statistics are 0 (STD: 0, or NaN for one pose).
   The angle of the error types radian/degree is mat2SO3(.).Log().norm() with an arbitrary [m2q]
   that maps the identity matrix to a quaternion with zero vector part *)
Theorem C19_ape_identical_zero : forall eps m2q svdstf st P tr et diff origin,
  qv (m2q mid3) = vzero -> mk_stamped st P = Some tr -> NoDup (map fst tr) -> Forall valid_SE3 P -> 0 < diff ->
  exists s, ape sqrt (angle_of eps m2q) rad2deg svdstf st P st P et diff 0 false false origin = Some s /\ zero_stats s.
Proof. intros. eapply ape_identical_zero; eauto using angle_of_id, rad2deg_0. Qed.
Theorem C19_rpe_identical_zero : forall eps m2q svdstf st P tr et diff origin bd delta di rtol all rpair s,
  qv (m2q mid3) = vzero -> mk_stamped st P = Some tr -> NoDup (map fst tr) -> Forall valid_SE3 P -> 0 < diff ->
  rpe sqrt (angle_of eps m2q) rad2deg svdstf st P st P et diff 0 false false origin bd delta di rtol all rpair = Some s ->
  zero_stats s.
Proof. intros. eapply rpe_identical_zero; eauto using angle_of_id, rad2deg_0. Qed.

(* partial (T2): ape with align (and scale) is unchanged by a similarity S applied to the estimate,
   GIVEN the contract of the SVD oracle (unit quaternion result; transforming the source cloud by S
   composes the solution with S^-1).  Missing: the contract itself (uniqueness of Umeyama's
   solution), which belongs to C17.
   CAUTION (found in the audit): as stated here the contract quantifies over the empty cloud too and
   therefore forces S = identity (C19_ape_align_unguarded_contract_forces_identity below); the
   statement with a satisfiable contract is C19_ape_align_invariant_guarded_partial. *)
Theorem C19_ape_align_invariant_partial : forall angleF rad2degF svdstf (S : sim3R) (sc : bool),
  valid_Sim3 S ->
  (forall ets rts, unitq (fst (snd (svdstf ets rts sc)))) ->
  (forall ets rts, svdstf (map (Sim3_act S) ets) rts sc = Sim3_mul (svdstf ets rts sc) (Sim3_inv S)) ->
  forall rstamp rpose estamp epose et diff off al origin, (al || sc)%bool = true ->
  ape sqrt angleF rad2degF svdstf rstamp rpose estamp (map (align_pose S) epose) et diff off al sc origin
  = ape sqrt angleF rad2degF svdstf rstamp rpose estamp epose et diff off al sc origin.
Proof. exact ape_align_invariant_partial. Qed.

(* ------------------------------------------------------------------ geodesic loss *)
(* in [0, pi] entry-wise ('none'), in [0, pi] ('mean'), in [0, n pi] ('sum'); symmetric in its
   arguments under every reduction; eps = the dtype's machine epsilon (any 0 <= eps <= 1/2) *)
Theorem C19_geodesic_range_symmetric : forall (eps : R) red (xs ys : list quatR),
  0 <= eps <= 1 / 2 -> Forall unitq xs -> Forall unitq ys -> combine xs ys <> [] ->
  (forall v, In v (geodesic_loss eps red xs ys) ->
     0 <= v <= match red with Rsum => INR (length (combine xs ys)) * PI | _ => PI end) /\
  geodesic_loss eps red xs ys = geodesic_loss eps red ys xs.
Proof. intros. split; [now apply geodesic_loss_range|apply geodesic_loss_sym]. Qed.

(* the value is the rotation angle between the rotation parts: in [0, pi] (above) with cosine
   (trace(R_x R_y^-1) - 1) / 2, in the generic regime of Log (angle not within eps of 0 or pi) *)
Theorem C19_geodesic_is_rotation_angle : forall (eps : R) (x y : quatR), 0 <= eps -> unitq x -> unitq y ->
  let q := SO3_mul x (SO3_inv y) in eps < vnorm (qv q) -> eps < Rabs (qw q) ->
  cos (geodesic_theta eps x y) = (m3trace (SO3_matrix q) - 1) / 2.
Proof. exact geodesic_theta_is_angle. Qed.

(* ------------------------------------------------------------------ the hypotheses are satisfiable *)
Example C19_chs_kq_example : chs_kq 10 (1 / 10) /\ chs_kq 4 (3 / 10) /\ chs_kq 2 (1 / 2).
Proof. unfold chs_kq. cbn [Nat.sub INR]. repeat split; try lia; lra. Qed.
Example C19_laws_example_reals :
  group_laws Rplus Ropp 0 /\ exp_log_laws Rplus 0 (fun x : R => x) (fun x : R => x) Rmult 0 /\
  (forall xi : R, (fun x : R => x) ((fun x : R => x) xi) = xi).
Proof. exact laws_instance_R. Qed.
Example C19_laws_example_noncommutative :
  group_laws h3_mul h3_inv (0, 0, 0) /\ exp_log_laws h3_mul (0, 0, 0) h3_exp h3_log h3_scale (0, 0, 0) /\
  (forall xi, h3_log (h3_exp xi) = xi) /\ (exists p r, h3_mul p r <> h3_mul r p).
Proof. exact laws_instance_Heisenberg. Qed.

Print Assumptions C19_chspline_k_is_number_of_multiples. Print Assumptions C19_chspline_count.
Print Assumptions C19_chspline_sample_times. Print Assumptions C19_chspline_interpolates.
Print Assumptions C19_chspline_linear_exact. Print Assumptions C19_bspline_count.
Print Assumptions C19_bspline_continuous. Print Assumptions C19_bspline_left_equivariant.
Print Assumptions C19_bspline_constant_twist. Print Assumptions C19_bspline_extrapolate_endpoints.
Print Assumptions C19_stats_order. Print Assumptions C19_rpe_left_invariant.
Print Assumptions C19_ape_identical_zero. Print Assumptions C19_rpe_identical_zero.
Print Assumptions C19_ape_align_invariant_partial. Print Assumptions C19_geodesic_range_symmetric.
Print Assumptions C19_geodesic_is_rotation_angle.


(* ====================================================================================== part 2 *)
(* ------------------------------------------------------------------ chspline: k for every interval *)
(* for every real interval q in (0,1) there is exactly one k = number of multiples j q in [0,1); it
   satisfies chs_kq (the hypothesis of the chspline theorems above) and k q >= 1 *)
Theorem C19_chspline_k_exists_unique : forall q : R, 0 < q -> q < 1 ->
  exists k, chs_kq k q /\ 1 <= INR k * q /\ (forall j : nat, INR j * q < 1 <-> (j < k)%nat) /\
            (forall k', (forall j : nat, INR j * q < 1 <-> (j < k')%nat) -> k' = k).
Proof.
  intros q H0 H1. destruct (sample_count_exists q H0 H1) as (k & Hkq & Hk1 & Hk). exists k.
  repeat (split; [assumption|]). intros k' Hk'. exact (sample_count_unique k' k q Hk' Hk).
Qed.
(* (N-1) k + 1 samples with k = the number of multiples of the interval in [0,1): every real interval *)
Theorem C19_chspline_count_every_interval : forall (q : R) (ys : list R), 0 < q -> q < 1 -> (2 <= length ys)%nat ->
  exists k out, (forall j : nat, INR j * q < 1 <-> (j < k)%nat) /\
                chspline1 k q ys = Some out /\ length out = ((length ys - 1) * k + 1)%nat.
Proof. exact chspline_count_every_interval. Qed.
(* rational intervals a/b: that k is chs_count a b = ceil(b/a) *)
Theorem C19_chspline_k_rational : forall a b : Z, (0 < a)%Z -> (a < b)%Z ->
  chs_kq (Z.to_nat (chs_count a b)) (IZR a / IZR b) /\
  (forall j : nat, INR j * (IZR a / IZR b) < 1 <-> (j < Z.to_nat (chs_count a b))%nat).
Proof. exact chs_count_is_sample_count. Qed.

(* ------------------------------------------------------------------ bspline on SE3 itself *)
(* [valid_SE3 X] = unit quaternion.  [se3_generic eps Z]: Z is the identity, or its quaternion is in the
   generic regime of SO3_Log (|v| > eps and |w| > eps) - there Exp (Log Z) = Z exactly, up to the sign
   of the quaternion when w < 0.  [se3_same X Y]: X = Y or X = (translation of Y, -quaternion of Y),
   i.e. the same rigid transformation. *)
Theorem C19_bspline_SE3_count : forall (eps : R) (k : nat) (q : R) (data : list se3R), q < 1 -> (4 <= length data)%nat ->
  exists out, bspline_SE3 eps k q false data = Some out /\ length out = ((length data - 3) * k + 1)%nat.
Proof. exact bspline_SE3_count. Qed.

(* left-equivariance: EVERY list of valid poses, every eps, with and without extrapolation *)
Theorem C19_bspline_SE3_left_equivariant : forall (eps : R) (k : nat) (q : R) (ex : bool) (g : se3R) (data : list se3R),
  valid_SE3 g -> Forall valid_SE3 data ->
  bspline_SE3 eps k q ex (map (SE3_mul g) data) = option_map (map (SE3_mul g)) (bspline_SE3 eps k q ex data).
Proof. exact bspline_SE3_left_equivariant. Qed.

(* extrapolate = True: the first sample IS the first pose (every valid list); the last sample is the last
   pose when Z = (second-to-last pose)^-1 (last pose) is generic (same transformation; equal when w(Z) >= 0) *)
Theorem C19_bspline_SE3_extrapolate_endpoints : forall (eps : R) (k : nat) (q : R) (data : list se3R) (a : se3R),
  0 <= eps -> q < 1 -> (1 <= k)%nat -> data <> [] -> Forall valid_SE3 data ->
  exists out, bspline_SE3 eps k q true data = Some out /\
    nth 0 out a = hd a data /\
    let Z := SE3_mul (SE3_inv (nth (length data - 2) data a)) (List.last data a) in
    (se3_generic eps Z -> se3_same (List.last out a) (List.last data a) /\
                          (0 <= qw (snd Z) -> List.last out a = List.last data a)).
Proof. exact bspline_SE3_extrapolate_endpoints. Qed.

(* continuity: when every consecutive relative pose is generic, the end (u = 1) of segment i is the same
   transformation as output sample (i+1) k, the first sample of segment i+1 (equal when w >= 0); the end
   of the last segment is the final sample *)
Theorem C19_bspline_SE3_continuous : forall (eps : R) (k : nat) (q : R) (data : list se3R) (d : se3R),
  0 <= eps -> q < 1 -> (4 <= length data)%nat -> (1 <= k)%nat -> Forall valid_SE3 data ->
  (forall i, (i + 1 < length data)%nat -> se3_generic eps (SE3_mul (SE3_inv (nth i data d)) (nth (i + 1) data d))) ->
  exists out, bspline_SE3 eps k q false data = Some out /\
    (forall i, (i + 4 < length data)%nat ->
       let e := bs_seg_SE3 eps (nth i data d, nth (i + 1) data d, nth (i + 2) data d, nth (i + 3) data d) (bs_w 1) in
       se3_same e (nth ((i + 1) * k) out d) /\
       (0 <= qw (snd (SE3_mul (SE3_inv (nth i data d)) (nth (i + 1) data d))) -> e = nth ((i + 1) * k) out d)) /\
    bs_seg_SE3 eps (nth (length data - 4) data d, nth (length data - 3) data d, nth (length data - 2) data d,
                    nth (length data - 1) data d) (bs_w 1) = nth ((length data - 3) * k) out d.
Proof. exact bspline_SE3_continuous. Qed.
Theorem C19_se3_same_is_same_matrix : forall X Y : se3R, se3_same X Y -> matrix4 SE3_act4 X = matrix4 SE3_act4 Y.
Proof. exact se3_same_matrix. Qed.

(* the model's se3_Exp is a one-parameter subgroup along every twist with rotation part above eps,
   for parameters a, b that are 0 or put a phi on the closed-form branch (a |phi| > eps) *)
Theorem C19_se3_exp_one_parameter_subgroup : forall (eps : R) (phi tau : vec3R) (a b : R), 0 <= eps -> eps < vnorm phi ->
  (a = 0 \/ (0 < a /\ eps < a * vnorm phi)) -> (b = 0 \/ (0 < b /\ eps < b * vnorm phi)) ->
  SE3_mul (se3_exp eps (se3_scale a (tau, phi))) (se3_exp eps (se3_scale b (tau, phi)))
  = se3_exp eps (se3_scale (a + b) (tau, phi)).
Proof. exact se3_exp_one_param. Qed.

(* constant-twist motions on SE3: through T0 Exp(n xi), n = 0..N-1, xi = (tau, phi) with rotation angle
   |phi| < pi in the generic regime and eps < q^3/6 |phi| (so that every weighted increment is on the
   closed-form branch), sample (i, j) is T0 Exp((i + 1 + j q) xi) and the final sample T0 Exp((N-2) xi) *)
Theorem C19_bspline_SE3_constant_twist : forall (eps : R) (k : nat) (q : R) (T0 : se3R) (tau phi : vec3R) (N : nat) (d : se3R),
  0 <= eps -> chs_kq k q -> (4 <= N)%nat -> valid_SE3 T0 ->
  vnorm phi < PI -> eps < sin (vnorm phi / 2) -> eps < cos (vnorm phi / 2) -> eps < q * q * q / 6 * vnorm phi ->
  exists out, bspline_SE3 eps k q false (twist_path_SE3 eps T0 (tau, phi) N) = Some out /\
    (forall i j, (i + 3 < N)%nat -> (j < k)%nat ->
       nth (i * k + j) out d = SE3_mul T0 (se3_exp eps (se3_scale (INR i + 1 + INR j * q) (tau, phi)))) /\
    nth ((N - 3) * k) out d = SE3_mul T0 (se3_exp eps (se3_scale (INR N - 2) (tau, phi))).
Proof. exact bspline_SE3_constant_twist. Qed.

(* ... and for pure translations xi = (tau, 0), the other closed family of se3_Exp: every q < 1, k, N >= 4 *)
Theorem C19_bspline_SE3_constant_translation : forall (eps : R) (k : nat) (q : R) (T0 : se3R) (tau : vec3R) (N : nat) (d : se3R),
  0 <= eps -> q < 1 -> (4 <= N)%nat -> valid_SE3 T0 ->
  exists out, bspline_SE3 eps k q false (twist_path_SE3 eps T0 (tau, vzero) N) = Some out /\
    (forall i j, (i + 3 < N)%nat -> (j < k)%nat ->
       nth (i * k + j) out d = SE3_mul T0 (vscale (INR i + 1 + INR j * q) tau, SO3_id)) /\
    nth ((N - 3) * k) out d = SE3_mul T0 (vscale (INR N - 2) tau, SO3_id).
Proof. exact bspline_SE3_constant_translation. Qed.

(* ------------------------------------------------------------------ statistics on every output *)
Theorem C19_ape_stats_ordered : forall angleF rad2degF svdstf rstamp rpose estamp epose et diff off al sc origin s,
  ape sqrt angleF rad2degF svdstf rstamp rpose estamp epose et diff off al sc origin = Some s ->
  st_max s >= st_rmse s /\ st_rmse s >= st_mean s /\ st_mean s >= st_min s /\ st_min s >= 0.
Proof. exact ape_stats_ordered. Qed.
Theorem C19_rpe_stats_ordered : forall angleF rad2degF svdstf rstamp rpose estamp epose et diff off al sc origin
    bd delta di rtol all rpair s,
  rpe sqrt angleF rad2degF svdstf rstamp rpose estamp epose et diff off al sc origin bd delta di rtol all rpair = Some s ->
  st_max s >= st_rmse s /\ st_rmse s >= st_mean s /\ st_mean s >= st_min s /\ st_min s >= 0.
Proof. exact rpe_stats_ordered. Qed.

(* ------------------------------------------------------------------ rpe / ape, part 2 *)
(* rpe left-invariance also with origin alignment on *)
Theorem C19_rpe_left_invariant_origin : forall angleF rad2degF svdstf (gr ge : se3R) rstamp rpose estamp epose
    et diff off origin bd delta di rtol all rpair,
  valid_SE3 gr -> valid_SE3 ge -> Forall valid_SE3 rpose -> Forall valid_SE3 epose ->
  rpe sqrt angleF rad2degF svdstf rstamp (map (SE3_mul gr) rpose) estamp (map (SE3_mul ge) epose)
      et diff off false false origin bd delta di rtol all rpair
  = rpe sqrt angleF rad2degF svdstf rstamp rpose estamp epose et diff off false false origin bd delta di rtol all rpair.
Proof. exact rpe_left_invariant_origin. Qed.

(* rpe of a trajectory against itself RETURNS for frame pairing with 1 <= delta < number of poses, and
   every statistic is 0 (C19_rpe_identical_zero is not vacuous) *)
Theorem C19_rpe_identical_zero_frames : forall eps m2q svdstf st P tr et diff origin delta di rtol all rpair,
  qv (m2q mid3) = vzero -> mk_stamped st P = Some tr -> NoDup (map fst tr) -> Forall valid_SE3 P -> 0 < diff ->
  (1 <= di)%Z -> (Z.to_nat di < length P)%nat ->
  exists s, rpe sqrt (angle_of eps m2q) rad2deg svdstf st P st P et diff 0 false false origin false delta di rtol all rpair = Some s /\
            zero_stats s.
Proof. intros. eapply rpe_identical_zero_frames; eauto using angle_of_id, rad2deg_0. Qed.

(* identical POSES with JITTERED stamps (and an offset): [closest_same_index s2 s1 diff o] = the two stamp
   vectors have the same length and every s2_i is within diff of s1_i + o and strictly closer to it than to
   every other s1_j + o.  Then association pairs i with i and all statistics are 0 (rpe: whenever it returns) *)
Theorem C19_ape_identical_zero_jitter : forall eps m2q svdstf st1 st2 P tr1 tr2 et diff off origin,
  qv (m2q mid3) = vzero -> mk_stamped st1 P = Some tr1 -> mk_stamped st2 P = Some tr2 ->
  closest_same_index (map fst tr2) (map fst tr1) diff (- off) -> Forall valid_SE3 P ->
  exists s, ape sqrt (angle_of eps m2q) rad2deg svdstf st1 P st2 P et diff off false false origin = Some s /\ zero_stats s.
Proof. intros. eapply ape_identical_zero_jitter; eauto using angle_of_id, rad2deg_0. Qed.
Theorem C19_rpe_identical_zero_jitter : forall eps m2q svdstf st1 st2 P tr1 tr2 et diff off origin bd delta di rtol all rpair s,
  qv (m2q mid3) = vzero -> mk_stamped st1 P = Some tr1 -> mk_stamped st2 P = Some tr2 ->
  closest_same_index (map fst tr2) (map fst tr1) diff (- off) -> Forall valid_SE3 P ->
  rpe sqrt (angle_of eps m2q) rad2deg svdstf st1 P st2 P et diff off false false origin bd delta di rtol all rpair = Some s ->
  zero_stats s.
Proof.
  intros eps m2q svdstf st1 st2 P tr1 tr2 et diff off origin bd delta di rtol all rpair s Hq H1 H2 Hc HP H.
  exact (rpe_identical_zero_jitter _ _ svdstf (angle_of_id eps m2q Hq) rad2deg_0 st1 st2 P tr1 tr2 et diff off origin
           bd delta di rtol all rpair s H1 H2 Hc HP H).
Qed.

(* partial: identical trajectories with SVD alignment on, GIVEN that the oracle aligns a cloud with itself
   by the identity *)
Theorem C19_ape_identical_zero_aligned_partial : forall eps m2q svdstf st P tr et diff al sc origin,
  qv (m2q mid3) = vzero -> mk_stamped st P = Some tr -> NoDup (map fst tr) -> Forall valid_SE3 P -> 0 < diff ->
  svdstf (map fst P) (map fst P) sc = Sim3_id ->
  exists s, ape sqrt (angle_of eps m2q) rad2deg svdstf st P st P et diff 0 al sc origin = Some s /\ zero_stats s.
Proof. intros. eapply ape_identical_zero_aligned; eauto using angle_of_id, rad2deg_0. Qed.

(* REFUTED without the hypothesis of distinct stamps: StampedSE3 accepts repeated (ascending) stamps,
   association pairs both poses of a repeated stamp with the first one, and ape of the trajectory
   [identity; translation by (1,0,0)] with stamps [0; 0] against itself has Max = 1 *)
Theorem C19_ape_identical_duplicate_stamps_refuted : forall (angleF : @mat3 R -> R) (rad2degF : R -> R)
    (svdstf : list vec3R -> list vec3R -> bool -> sim3R),
  exists (st : option (list R)) (P : list se3R) (tr : list (R * se3R)) (s : @stats R),
    mk_stamped st P = Some tr /\ Forall valid_SE3 P /\
    ape sqrt angleF rad2degF svdstf st P st P Etrans 1 0 false false false = Some s /\ st_max s = 1 /\ ~ zero_stats s.
Proof. exact ape_identical_duplicate_stamps_refuted. Qed.

(* with the svdstf MODEL of C17 (Model/Align.v) in place of an abstract oracle: when the estimate is an
   exact similarity copy S . reference, ape with scale = True has all translation-error statistics 0, for
   every similarity S - relative only to the contract of torch.linalg.svd on the one matrix it is called
   with, a non-degenerate cloud and mat2Sim3's scale threshold (no uniqueness assumption) *)
Theorem C19_ape_similarity_copy_zero : forall (svd : mat3R -> mat3R * vec3R * mat3R) angleF rad2degF
    st (P : list se3R) tr (S : sim3R) diff al origin,
  mk_stamped st P = Some tr -> NoDup (map fst tr) -> Forall valid_SE3 P -> 0 < diff -> valid_Sim3 S ->
  let src := map fst (map (align_pose S) P) in
  let tgt := map fst P in
  svd_contract svd (svdstf_H src tgt) -> 0 < Proofs.Align.sumsq (centered src) ->
  (let '(U, D, V) := svd (svdstf_H src tgt) in 1 / 100000 < fst (fst (svdstf_mat true src tgt U D V))) ->
  exists s, ape sqrt angleF rad2degF (svd_oracle svd) st P st (map (align_pose S) P) Etrans diff 0 al true origin = Some s /\
            zero_stats s.
Proof. exact ape_similarity_copy_zero. Qed.

(* the rigid counterpart: align = True, scale = False, the estimate an exact RIGID copy (S of scale 1):
   zero translation-error statistics, relative only to the SVD contract (no non-degeneracy needed) *)
Theorem C19_ape_rigid_copy_zero : forall (svd : mat3R -> mat3R * vec3R * mat3R) angleF rad2degF
    st (P : list se3R) tr (S : sim3R) diff origin,
  mk_stamped st P = Some tr -> NoDup (map fst tr) -> Forall valid_SE3 P -> 0 < diff ->
  unitq (fst (snd S)) -> snd (snd S) = 1 ->
  let src := map fst (map (align_pose S) P) in
  let tgt := map fst P in
  svd_contract svd (svdstf_H src tgt) ->
  exists s, ape sqrt angleF rad2degF (svd_oracle svd) st P st (map (align_pose S) P) Etrans diff 0 true false origin = Some s /\
            zero_stats s.
Proof. exact ape_rigid_copy_zero. Qed.

(* partial: alignment invariance with a satisfiable contract - the oracle's equivariance is assumed only
   on the clouds Q on which its answer is unique, and every associated cloud pair must be in Q *)
Theorem C19_ape_align_invariant_guarded_partial : forall angleF rad2degF svdstf (S : sim3R) (sc : bool)
    (Q : list vec3R -> list vec3R -> Prop),
  valid_Sim3 S ->
  (forall ets rts, unitq (fst (snd (svdstf ets rts sc)))) ->
  (forall ets rts, Q ets rts -> svdstf (map (Sim3_act S) ets) rts sc = Sim3_mul (svdstf ets rts sc) (Sim3_inv S)) ->
  forall rstamp rpose estamp epose et diff off al origin, (al || sc)%bool = true ->
  (forall rt etr rp ep, mk_stamped rstamp rpose = Some rt -> mk_stamped estamp epose = Some etr ->
     associate rt etr diff off = Some (rp, ep) -> Q (map fst ep) (map fst rp)) ->
  ape sqrt angleF rad2degF svdstf rstamp rpose estamp (map (align_pose S) epose) et diff off al sc origin
  = ape sqrt angleF rad2degF svdstf rstamp rpose estamp epose et diff off al sc origin.
Proof. intros angleF rad2degF svdstf S sc Q HS Hv He. exact (ape_align_invariant_guarded angleF rad2degF svdstf S sc Q HS Hv He). Qed.
(* with Q = "non-empty source cloud", which always holds inside ape *)
Theorem C19_ape_align_invariant_nonempty_partial : forall angleF rad2degF svdstf (S : sim3R) (sc : bool),
  valid_Sim3 S ->
  (forall ets rts, unitq (fst (snd (svdstf ets rts sc)))) ->
  (forall ets rts, ets <> [] -> svdstf (map (Sim3_act S) ets) rts sc = Sim3_mul (svdstf ets rts sc) (Sim3_inv S)) ->
  forall rstamp rpose estamp epose et diff off al origin, (al || sc)%bool = true ->
  ape sqrt angleF rad2degF svdstf rstamp rpose estamp (map (align_pose S) epose) et diff off al sc origin
  = ape sqrt angleF rad2degF svdstf rstamp rpose estamp epose et diff off al sc origin.
Proof. exact ape_align_invariant_nonempty. Qed.
(* the unguarded contract of C19_ape_align_invariant_partial only holds for S = identity *)
Theorem C19_ape_align_unguarded_contract_forces_identity :
  forall (svdstf : list vec3R -> list vec3R -> bool -> sim3R) (S : sim3R) (sc : bool),
  valid_Sim3 S ->
  (forall ets rts, unitq (fst (snd (svdstf ets rts sc)))) ->
  (forall ets rts, svdstf (map (Sim3_act S) ets) rts sc = Sim3_mul (svdstf ets rts sc) (Sim3_inv S)) ->
  snd (snd (svdstf [] [] sc)) <> 0 -> S = Sim3_id.
Proof. exact unguarded_contract_forces_identity. Qed.

(* ------------------------------------------------------------------ geodesic loss, part 2 *)
(* [geodesic_angle x y] (= 2 atan(|v| / |w|) of q = x y^-1, pi when w = 0) is THE rotation angle between
   x and y: it lies in [0, pi], its cosine is (trace R(q) - 1) / 2, and it is the only such angle.  The
   loss equals it in the generic regime and is within 3 eps of it for EVERY pair of unit quaternions *)
Theorem C19_geodesic_is_rotation_angle_all : forall (eps : R) (x y : quatR), 0 <= eps <= 1 / 2 -> unitq x -> unitq y ->
  let q := SO3_mul x (SO3_inv y) in
  (0 <= geodesic_angle x y <= PI /\ cos (geodesic_angle x y) = (m3trace (SO3_matrix q) - 1) / 2) /\
  Rabs (geodesic_theta eps x y - geodesic_angle x y) <= 3 * eps /\
  (eps < vnorm (qv q) -> eps < Rabs (qw q) -> geodesic_theta eps x y = geodesic_angle x y).
Proof. exact geodesic_theta_is_angle_all. Qed.
Theorem C19_rotation_angle_unique : forall a b : R, 0 <= a <= PI -> 0 <= b <= PI -> cos a = cos b -> a = b.
Proof. exact angle_unique. Qed.
(* under each reduction: entry-wise ('none'), mean of the angles ('mean'), sum of the angles ('sum') *)
Theorem C19_geodesic_loss_is_angle : forall (eps : R) red (xs ys : list quatR),
  0 <= eps <= 1 / 2 -> Forall unitq xs -> Forall unitq ys -> combine xs ys <> [] ->
  Forall2 (fun v a => Rabs (v - a) <= match red with Rsum => INR (length (combine xs ys)) * (3 * eps) | _ => 3 * eps end)
          (geodesic_loss eps red xs ys) (reduceR red (geodesic_angles xs ys)).
Proof. exact geodesic_loss_is_angle. Qed.
(* on SE3 arguments the loss is the norm of the rotation part of Log (X Y^-1) *)
Theorem C19_geodesic_SE3 : forall (eps : R) (X Y : se3R),
  geodesic_theta eps (snd X) (snd Y) = vnorm (snd (SE3_log eps (SE3_mul X (SE3_inv Y)))).
Proof. exact geodesic_theta_SE3. Qed.

(* ------------------------------------------------------------------ the hypotheses of part 2 are satisfiable *)
(* SE3 path [id; B; id; B; id], B = translation (1,2,3) and rotation 2 atan(3/4) about x: valid, every
   consecutive relative pose generic for the float64 eps (both hemispheres occur) *)
Example C19_bspline_SE3_hyps_example :
  0 <= eps_f64 /\ Forall valid_SE3 demo_path /\
  (forall i, (i + 1 < length demo_path)%nat ->
     se3_generic eps_f64 (SE3_mul (SE3_inv (nth i demo_path SE3_id)) (nth (i + 1) demo_path SE3_id))) /\
  0 <= qw (snd (SE3_mul (SE3_inv (nth 0 demo_path SE3_id)) (nth 1 demo_path SE3_id))).
Proof. exact demo_path_ok. Qed.
Example C19_bspline_SE3_twist_hyps_example :
  let phi : vec3R := (1, 0, 0) in let q := 1 / 10 in
  0 <= eps_f64 /\ chs_kq 10 q /\ valid_SE3 SE3_id /\ vnorm phi < PI /\ eps_f64 < sin (vnorm phi / 2) /\
  eps_f64 < cos (vnorm phi / 2) /\ eps_f64 < q * q * q / 6 * vnorm phi.
Proof. exact twist_hyps_ok. Qed.
(* the guarded alignment contract holds for a non-trivial S (translation) and a toy oracle *)
Example C19_ape_align_contract_example :
  valid_Sim3 shiftS /\ shiftS <> Sim3_id /\
  (forall ets rts sc, unitq (fst (snd (toy_svdstf ets rts sc)))) /\
  (forall ets rts sc, ets <> [] ->
     toy_svdstf (map (Sim3_act shiftS) ets) rts sc = Sim3_mul (toy_svdstf ets rts sc) (Sim3_inv shiftS)).
Proof. exact toy_contract. Qed.
(* six poses on the coordinate axes, the estimate = the copy scaled by 2, the SVD of the diagonal
   cross-covariance: every hypothesis of C19_ape_similarity_copy_zero holds, with S <> identity *)
Example C19_ape_similarity_copy_hyps_example :
  let st := Some [0; 1; 2; 3; 4; 5] in
  let tr := combine [0; 1; 2; 3; 4; 5] P6 in
  let src := map fst (map (align_pose S2) P6) in
  let tgt := map fst P6 in
  mk_stamped st P6 = Some tr /\ NoDup (map fst tr) /\ Forall valid_SE3 P6 /\ valid_Sim3 S2 /\ S2 <> Sim3_id /\
  svd_contract svd6 (svdstf_H src tgt) /\ 0 < Proofs.Align.sumsq (centered src) /\
  (let '(U, D, V) := svd6 (svdstf_H src tgt) in 1 / 100000 < fst (fst (svdstf_mat true src tgt U D V))).
Proof. exact similarity_copy_hyps_ok. Qed.
Example C19_ape_rigid_copy_hyps_example :
  unitq (fst (snd S1)) /\ snd (snd S1) = 1 /\ S1 <> Sim3_id /\
  svd_contract svd6r (svdstf_H (map fst (map (align_pose S1) P6)) (map fst P6)).
Proof. exact rigid_copy_hyps_ok. Qed.
(* reference stamps [0; 1], estimate stamps [1.1; 1.9], offset -1, max_diff 1/2 *)
Example C19_jitter_hyps_example : closest_same_index [11 / 10; 19 / 10] [0; 1] (1 / 2) (- (-1)).
Proof. exact closest_example. Qed.
Example C19_geodesic_angle_examples :
  geodesic_angle ((1, 0, 0), 0) SO3_id = PI /\ geodesic_angle ((3 / 5, 0, 0), 4 / 5) SO3_id = 2 * atan (3 / 4).
Proof. exact geodesic_angle_examples. Qed.
(* default stamps 0, 1, ... are distinct: the hypotheses of the zero-statistics theorems hold *)
Example C19_identical_hyps_example :
  mk_stamped (F:=R) None [SE3_id; SE3_id; SE3_id] = Some [(0, SE3_id); (1, SE3_id); (1 + 1, SE3_id)] /\
  NoDup [0; 1; 1 + 1] /\ Forall valid_SE3 [SE3_id (F:=R); SE3_id; SE3_id].
Proof.
  split; [|split].
  - unfold mk_stamped. cbn [length Nat.eqb negb zrange map sortedb].
    replace (leb (ofZ 0) (ofZ (0 + 1))) with true by (symmetry; cbn; apply Rleb_true; lra).
    replace (leb (ofZ (0 + 1)) (ofZ (0 + 1 + 1))) with true by (symmetry; cbn; apply Rleb_true; lra).
    cbn [andb negb combine]. cbn. repeat f_equal; lra.
  - repeat constructor; cbn; intuition lra.
  - repeat constructor; apply unitq_id.
Qed.

Print Assumptions C19_chspline_k_exists_unique. Print Assumptions C19_chspline_count_every_interval.
Print Assumptions C19_chspline_k_rational. Print Assumptions C19_bspline_SE3_count.
Print Assumptions C19_bspline_SE3_left_equivariant. Print Assumptions C19_bspline_SE3_extrapolate_endpoints.
Print Assumptions C19_bspline_SE3_continuous. Print Assumptions C19_se3_same_is_same_matrix.
Print Assumptions C19_se3_exp_one_parameter_subgroup. Print Assumptions C19_bspline_SE3_constant_twist.
Print Assumptions C19_bspline_SE3_constant_translation.
Print Assumptions C19_ape_stats_ordered. Print Assumptions C19_rpe_stats_ordered.
Print Assumptions C19_rpe_left_invariant_origin. Print Assumptions C19_rpe_identical_zero_frames.
Print Assumptions C19_ape_identical_zero_jitter. Print Assumptions C19_rpe_identical_zero_jitter.
Print Assumptions C19_ape_identical_zero_aligned_partial. Print Assumptions C19_ape_identical_duplicate_stamps_refuted.
Print Assumptions C19_ape_similarity_copy_zero. Print Assumptions C19_ape_rigid_copy_zero. Print Assumptions C19_ape_align_invariant_guarded_partial. Print Assumptions C19_ape_align_invariant_nonempty_partial.
Print Assumptions C19_ape_align_unguarded_contract_forces_identity. Print Assumptions C19_geodesic_is_rotation_angle_all.
Print Assumptions C19_rotation_angle_unique. Print Assumptions C19_geodesic_loss_is_angle. Print Assumptions C19_geodesic_SE3.
