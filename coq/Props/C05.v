(* C05 — Adj, AdjT, Retr, +, Jinvp, Jr satisfy their defining tangent-space identities.
   Statements only (over R); proofs in Proofs/LieTangent.v, LieTangent2.v .. LieTangent7.v.
   Still tie-only: the SE3 / Sim3 Adj identities on the Taylor branches of the translation block (they hold
   only approximately there; the exact defect of SE3 is C05_adj_identity_SE3_taylor_partial), Jinvp as the
   derivative of Log(Exp(tau) @ X) for SE3 / RxSO3 / Sim3 (proved for SO3 in regime 1 of Log; for SE3 / RxSO3 only
   "Jl(Log X) Jinvp(X,p) = p"; Sim3's Jl / Jl_inv are truncated series), the Frechet (o(|d|)) form of the
   right-Jacobian statement (the directional form is proved), dtype / batching (tie). *)
From Coq Require Import Reals List.
From Coquelicot Require Import Coquelicot.
Import ListNotations.
From PV Require Import Base.Num Model.LieGroup Model.LieExp Model.LieLog Model.LieJac Model.LieTangent
  Proofs.LieGroup Proofs.LieExp Proofs.LieLog Proofs.LieTangent
  Proofs.LieJac Proofs.LieTangent2 Proofs.LieTangent3 Proofs.LieTangent4 Proofs.LieTangent5 Proofs.LieTangent6 Proofs.LieTangent7.
Local Open Scope R_scope.
#[local] Remove Hints NumQ NumZ : typeclass_instances.

(* X @ Exp(a) = Exp(Adj(X,a)) @ X and Exp(a) @ X = X @ Exp(AdjT(X,a)), modelled Exp (both branches,
   every magnitude of a incl. zero), every unit X *)
Theorem C05_adj_identity_SO3 : forall (eps : R) (X : quatR) (a : vec3R), unitq X ->
  SO3_mul X (so3_exp eps a) = SO3_mul (so3_exp eps (SO3_AdjXa X a)) X.
Proof. exact adj_identity_SO3. Qed.
Theorem C05_adjT_identity_SO3 : forall (eps : R) (X : quatR) (a : vec3R), unitq X ->
  SO3_mul (so3_exp eps a) X = SO3_mul X (so3_exp eps (SO3_AdjTXa X a)).
Proof. exact adjT_identity_SO3. Qed.
Theorem C05_adj_identity_RxSO3 : forall (eps : R) (X : rxso3R) (a : vec3R * R), unitq (fst X) ->
  RxSO3_mul X (rxso3_exp eps a) = RxSO3_mul (rxso3_exp eps (RxSO3_AdjXa X a)) X.
Proof. exact adj_identity_RxSO3. Qed.
Theorem C05_adjT_identity_RxSO3 : forall (eps : R) (X : rxso3R) (a : vec3R * R), unitq (fst X) ->
  RxSO3_mul (rxso3_exp eps a) X = RxSO3_mul X (rxso3_exp eps (RxSO3_AdjTXa X a)).
Proof. exact adjT_identity_RxSO3. Qed.

(* Retr(X,a) = X + a = Exp(a) @ X; extra trailing components of the added tensor are ignored;
   adding to an algebra element is plain vector addition of the first manifold-dimension components *)
Theorem C05_retr_is_exp_mul : forall (eps : R) g X a, retr_l eps g X a = g_mul g (exp_l eps g a) X.
Proof. exact retr_is_exp_mul. Qed.
Theorem C05_add_group_ignores_tail : forall (eps : R) g X other tail, length other = adim g ->
  add_group_l eps g X (other ++ tail) = retr_l eps g X other.
Proof. exact add_group_ignores_tail. Qed.
Theorem C05_add_algebra_is_vector_add : forall g x other tail, length other = adim g -> length x = adim g ->
  add_alg_l (F:=R) g x (other ++ tail) = ladd x other.
Proof. exact add_alg_ignores_tail. Qed.
(* Exp(-a) = Inv(Exp(a)) exactly, both branches *)
Theorem C05_exp_neg_is_inverse : forall (eps : R) (a : vec3R), so3_exp eps (vneg a) = SO3_inv (so3_exp eps a).
Proof. exact so3_exp_neg. Qed.

(* Jr is the identity at x = 0 and equals Jl(-x) on the closed-form branch *)
Theorem C05_Jr_zero : forall eps : R, 0 <= eps -> so3_Jr eps [0; 0; 0] = lid 3.
Proof. exact Jr_zero. Qed.
Theorem C05_Jr_is_Jl_neg_partial : forall (eps : R) (x : vec3R), 0 <= eps -> eps < vnorm x ->
  so3_Jr eps (v3_l x) = m3rows (so3_Jl eps (vneg x)).
Proof. exact Jr_is_Jl_neg. Qed.

(* ---- SE3: X @ Exp(a) = Exp(Adj(X,a)) @ X and Exp(a) @ X = X @ Exp(AdjT(X,a)) for every unit-rotation X and every
   twist a = (tau, phi) on the closed-form branch of Jl (eps < |phi|) or with phi = 0 (pure translation) *)
Theorem C05_adj_identity_SE3 : forall (eps : R) (X : se3R) (a : vec3R * vec3R), unitq (snd X) -> 0 <= eps ->
  eps < vnorm (snd a) \/ snd a = vzero ->
  SE3_mul X (se3_exp eps a) = SE3_mul (se3_exp eps (SE3_AdjXa X a)) X.
Proof. exact adj_identity_SE3_gen. Qed.
Theorem C05_adjT_identity_SE3 : forall (eps : R) (X : se3R) (a : vec3R * vec3R), unitq (snd X) -> 0 <= eps ->
  eps < vnorm (snd a) \/ snd a = vzero ->
  SE3_mul (se3_exp eps a) X = SE3_mul X (se3_exp eps (SE3_AdjTXa X a)).
Proof. exact adjT_identity_SE3_gen. Qed.
(* Taylor branch (0 < |phi| <= eps): the rotation parts agree exactly, the translation parts differ by the explicit
   defect  s^3 (s - 128)/737280 (psi x t) + s^2 (s^2 - 160 s + 10240)/7372800 (psi x (psi x t)),
   s = |phi|^2, psi = R phi, t = translation of X  (order |phi|^6 |t|; missing: the exact identity, which is false there) *)
Theorem C05_adj_identity_SE3_taylor_partial : forall (eps : R) (X : se3R) (a : vec3R * vec3R),
  unitq (snd X) -> vnorm (snd a) <= eps ->
  snd (SE3_mul X (se3_exp eps a)) = snd (SE3_mul (se3_exp eps (SE3_AdjXa X a)) X) /\
  fst (SE3_mul (se3_exp eps (SE3_AdjXa X a)) X) =
    vadd (fst (SE3_mul X (se3_exp eps a)))
         (let psi := SO3_AdjXa (snd X) (snd a) in let t := fst X in let s := vdot psi psi in
          vadd (vscale (s * s * s * (s - 128) / 737280) (vcross psi t))
               (vscale (s * s * (s * s - 160 * s + 10240) / 7372800) (vcross psi (vcross psi t)))).
Proof. exact adj_identity_SE3_taylor. Qed.

(* ---- Sim3: the same two identities for a = (tau, phi, sigma) with (eps < |phi| or phi = 0) and (eps < |sigma| or
   sigma = 0): the closed-form regime of rxso3_Ws and its exact degenerate regimes; [sim3_arg] only regroups the
   triple (tau, phi, sigma) into the argument shape (tau, (phi, sigma)) of sim3_exp *)
Theorem C05_adj_identity_Sim3 : forall (eps : R) (X : sim3R) (tau phi : vec3R) (sg : R), unitq (fst (snd X)) -> 0 <= eps ->
  eps < vnorm phi \/ phi = vzero -> eps < Rabs sg \/ sg = 0 ->
  Sim3_mul X (sim3_exp eps (tau, (phi, sg))) =
  Sim3_mul (sim3_exp eps (let '(tau', phi', sg') := Sim3_AdjXa X (tau, phi, sg) in (tau', (phi', sg')))) X.
Proof.
  intros eps X tau phi sg Hu He Hb Hs. rewrite (adj_identity_Sim3_gen eps X tau phi sg Hu He Hb Hs).
  unfold sim3_arg. now destruct (Sim3_AdjXa X (tau, phi, sg)) as [[? ?] ?].
Qed.
Theorem C05_adjT_identity_Sim3 : forall (eps : R) (X : sim3R) (tau phi : vec3R) (sg : R),
  unitq (fst (snd X)) -> snd (snd X) <> 0 -> 0 <= eps ->
  eps < vnorm phi \/ phi = vzero -> eps < Rabs sg \/ sg = 0 ->
  Sim3_mul (sim3_exp eps (tau, (phi, sg))) X =
  Sim3_mul X (sim3_exp eps (let '(tau', phi', sg') := Sim3_AdjTXa X (tau, phi, sg) in (tau', (phi', sg')))).
Proof.
  intros eps X tau phi sg Hu Hn He Hb Hs. rewrite (adjT_identity_Sim3_gen eps X tau phi sg Hu Hn He Hb Hs).
  unfold sim3_arg. now destruct (Sim3_AdjTXa X (tau, phi, sg)) as [[? ?] ?].
Qed.

(* ---- every algebra element, all regimes (incl. the Taylor branches): the rotation / scale parts of both sides agree
   exactly and the translation parts differ exactly by the defect of the single-matrix identity
   "Exp(psi) = I + Jl(psi)[psi]x" resp. "exp(sigma) Exp(psi) = I + Ws(psi,sigma)([psi]x + sigma I)" at psi = R phi,
   applied to the translation t of X (missing for the full identity: that defect is non-zero, though tiny, outside
   the regimes of C05_adj_identity_SE3 / _Sim3) *)
Theorem C05_adj_identity_SE3_all_partial : forall (eps : R) (X : se3R) (a : vec3R * vec3R), unitq (snd X) ->
  let psi := SO3_AdjXa (snd X) (snd a) in let t := fst X in
  snd (SE3_mul X (se3_exp eps a)) = snd (SE3_mul (se3_exp eps (SE3_AdjXa X a)) X) /\
  fst (SE3_mul (se3_exp eps (SE3_AdjXa X a)) X) =
    vadd (fst (SE3_mul X (se3_exp eps a)))
         (vsub (SO3_act (so3_exp eps psi) t) (vadd t (mvmul (so3_Jl eps psi) (vcross psi t)))).
Proof. exact adj_identity_SE3_all. Qed.
Theorem C05_adj_identity_Sim3_all_partial : forall (eps : R) (X : sim3R) (tau phi : vec3R) (sg : R), unitq (fst (snd X)) ->
  let psi := SO3_AdjXa (fst (snd X)) phi in let t := fst X in
  let a' := (let '(tau', phi', sg') := Sim3_AdjXa X (tau, phi, sg) in (tau', (phi', sg'))) in
  snd (Sim3_mul X (sim3_exp eps (tau, (phi, sg)))) = snd (Sim3_mul (sim3_exp eps a') X) /\
  fst (Sim3_mul (sim3_exp eps a') X) =
    vadd (fst (Sim3_mul X (sim3_exp eps (tau, (phi, sg)))))
         (vsub (vscale (exp sg) (SO3_act (so3_exp eps psi) t))
               (vadd t (mvmul (rxso3_Ws eps (psi, sg)) (vadd (vcross psi t) (vscale sg t))))).
Proof.
  intros eps X tau phi sg Hu. pose proof (adj_identity_Sim3_all eps X tau phi sg Hu) as H. cbv zeta in H |- *.
  unfold sim3_arg in H. now destruct (Sim3_AdjXa X (tau, phi, sg)) as [[? ?] ?].
Qed.

(* ---- Exp(-a) = Inv(Exp(a)): rxso3 in every regime; se3 and sim3 on the closed-form / exact degenerate regimes *)
Theorem C05_exp_neg_is_inverse_rxso3 : forall (eps : R) (phi : vec3R) (sg : R),
  rxso3_exp eps (vneg phi, - sg) = RxSO3_inv (rxso3_exp eps (phi, sg)).
Proof. exact rxso3_exp_neg. Qed.
Theorem C05_exp_neg_is_inverse_se3 : forall (eps : R) (tau phi : vec3R), 0 <= eps -> eps < vnorm phi \/ phi = vzero ->
  se3_exp eps (vneg tau, vneg phi) = SE3_inv (se3_exp eps (tau, phi)).
Proof. exact se3_exp_neg_gen. Qed.
Theorem C05_exp_neg_is_inverse_sim3 : forall (eps : R) (tau phi : vec3R) (sg : R), 0 <= eps ->
  eps < vnorm phi \/ phi = vzero -> eps < Rabs sg \/ sg = 0 ->
  sim3_exp eps (vneg tau, (vneg phi, - sg)) = Sim3_inv (sim3_exp eps (tau, (phi, sg))).
Proof. exact sim3_exp_neg_gen. Qed.

(* ---- Jr on the small-angle branch is the identity matrix (as coded: where(theta > eps, ., I)); it equals Jl(-x)
   there only at x = 0: the clause "Jr(x) = Jl(-x) for every x" is false of the code for 0 < |x| <= eps
   (deviation of order |x| <= eps, harmless numerically) *)
Theorem C05_Jr_small_is_identity : forall (eps : R) (x : vec3R), vnorm x <= eps -> so3_Jr eps (v3_l x) = lid 3.
Proof. exact Jr_small. Qed.
Theorem C05_Jr_is_Jl_neg_everywhere_refuted : forall eps : R, 0 < eps -> eps <= 1 ->
  exists x : vec3R, vnorm x <= eps /\ so3_Jr eps (v3_l x) <> m3rows (so3_Jl eps (vneg x)).
Proof. exact Jr_is_Jl_neg_small_refuted. Qed.

(* SO3Type.Jr(X) = X.Log().Jr() *)
Theorem C05_SO3_Jr_as_coded : forall (eps : R) (X : list R), SO3_Jr eps X = so3_Jr eps (log_l eps 0 X).
Proof. exact SO3_Jr_def. Qed.
(* on that branch the returned identity is within |x| (<= eps) of Jl(-x) in every entry *)
Theorem C05_Jr_small_close_to_Jl_neg : forall (eps : R) (x : vec3R), vnorm x <= eps -> eps <= 1 ->
  forall i j, (i < 3)%nat -> (j < 3)%nat ->
  Rabs (nth j (nth i (so3_Jr eps (v3_l x)) []) 0 - nth j (nth i (m3rows (so3_Jl eps (vneg x))) []) 0) <= vnorm x.
Proof. exact Jr_small_close. Qed.

(* ---- Jinvp(X, p) = Jl_inv(Log X) p (as coded), and it is the inverse left Jacobian at Log X applied to p:
   Jl(Log X) Jinvp(X, p) = p, for SO3, SE3, RxSO3 whenever the rotation angle theta of Log X satisfies
   eps < theta < 2 pi (closed-form branches of Jl and Jl_inv; Jl is singular at 2 pi).  Sim3: Jl / Jl_inv are
   truncated series (documented), not proved. *)
Theorem C05_jinvp_as_coded : forall (eps : R) g X p, jinvp eps g X p = lmv (Jl_invM eps g (log_l eps g X)) p.
Proof. exact jinvp_def. Qed.
Theorem C05_Jl_Jl_inv_so3 : forall (eps : R) (x : vec3R), 0 <= eps -> eps < vnorm x -> vnorm x < 2 * PI ->
  mmul3 (so3_Jl eps x) (so3_Jl_inv eps x) = mid3.
Proof. exact so3_Jl_Jl_inv. Qed.
Theorem C05_jinvp_inverts_Jl_SO3 : forall (eps : R) (X p : list R), 0 <= eps -> length p = 3%nat ->
  eps < vnorm (SO3_log eps (l_q X)) -> vnorm (SO3_log eps (l_q X)) < 2 * PI ->
  lmv (JlM eps 0 (log_l eps 0 X)) (jinvp eps 0 X p) = p.
Proof. exact jinvp_SO3. Qed.
Theorem C05_jinvp_inverts_Jl_SE3 : forall (eps : R) (X p : list R), 0 <= eps -> length p = 6%nat ->
  eps < vnorm (SO3_log eps (snd (l_SE3 X))) -> vnorm (SO3_log eps (snd (l_SE3 X))) < 2 * PI ->
  lmv (JlM eps 1 (log_l eps 1 X)) (jinvp eps 1 X p) = p.
Proof. exact jinvp_SE3. Qed.
Theorem C05_jinvp_inverts_Jl_RxSO3 : forall (eps : R) (X p : list R), 0 <= eps -> length p = 4%nat ->
  eps < vnorm (SO3_log eps (fst (l_RxSO3 X))) -> vnorm (SO3_log eps (fst (l_RxSO3 X))) < 2 * PI ->
  lmv (JlM eps 2 (log_l eps 2 X)) (jinvp eps 2 X p) = p.
Proof. exact jinvp_RxSO3. Qed.
(* ---- Jr is the right Jacobian of so3 Exp (directional form of Exp(x+d) = Exp(x) @ Exp(Jr(x) d) + o(|d|)), closed-form
   branch: for every direction d the curves e |-> Exp(x + e d) and e |-> Exp(x) @ Exp(e Jr(x) d) agree at e = 0 and have
   the same derivative there, component by component ([qc i] = i-th quaternion component); the common derivative is
   Exp(x) (Jr(x) d / 2, 0) *)
Theorem C05_Jr_is_right_jacobian : forall (eps : R) (x d : vec3R), 0 < eps -> eps < vnorm x ->
  let Jrd := l_v3 (lmv (so3_Jr eps (v3_l x)) (v3_l d)) in
  so3_exp eps (vadd x (vscale 0 d)) = SO3_mul (so3_exp eps x) (so3_exp eps (vscale 0 Jrd)) /\
  forall i, exists D,
    is_derive (fun e => qc i (so3_exp eps (vadd x (vscale e d)))) 0 D /\
    is_derive (fun e => qc i (SO3_mul (so3_exp eps x) (so3_exp eps (vscale e Jrd)))) 0 D.
Proof. exact Jr_is_right_jacobian. Qed.
Theorem C05_exp_right_derivative : forall (eps : R) (x d : vec3R) (i : nat), 0 <= eps -> eps < vnorm x ->
  is_derive (fun e => qc i (so3_exp eps (vadd x (vscale e d)))) 0
            (qc i (SO3_mul (so3_exp eps x) (vscale (1 / 2) (l_v3 (lmv (so3_Jr eps (v3_l x)) (v3_l d))), 0))).
Proof. exact exp_right_derivative. Qed.

(* ---- Jinvp(X, p) is the first-order change of Log(Exp(e p) @ X) at e = 0 in direction p: SO3, every unit X in
   regime 1 of Log (|v| > eps, |w| > eps: every rotation angle strictly between the identity regime and pi, both
   hemispheres) whose Log is on the closed-form branch of Jl_inv; [vc i] = i-th vector component *)
Theorem C05_jinvp_is_log_derivative_SO3 : forall (eps : R) (X : quatR) (p : vec3R) (i : nat), 0 < eps -> unitq X ->
  eps < vnorm (qv X) -> eps < Rabs (qw X) -> eps < vnorm (SO3_log eps X) ->
  is_derive (fun e => vc i (SO3_log eps (SO3_mul (so3_exp eps (vscale e p)) X))) 0
            (vc i (l_v3 (jinvp eps 0 (q_l X) (v3_l p)))).
Proof. exact jinvp_is_log_derivative_SO3. Qed.

(* the hypotheses above are satisfiable at the float64 eps *)
Example C05_log_hypotheses_satisfiable :
  let eps := / 4503599627370496 in let X : quatR := ((3 / 5, 0, 0), 4 / 5) in
  0 < eps /\ unitq X /\ eps < vnorm (qv X) /\ eps < Rabs (qw X) /\
  eps < vnorm (SO3_log eps X) /\ vnorm (SO3_log eps X) < 2 * PI.
Proof. exact log_hypotheses_satisfiable. Qed.
Example C05_adj_hypotheses_satisfiable :
  let eps := / 4503599627370496 in
  0 <= eps /\ unitq (fst (snd (Sim3_id (F:=R)))) /\ snd (snd (Sim3_id (F:=R))) <> 0 /\
  eps < vnorm (F:=R) (1, 0, 0) /\ eps < Rabs 1.
Proof. exact adj_hypotheses_satisfiable. Qed.

Print Assumptions C05_adj_identity_SO3. Print Assumptions C05_adjT_identity_SO3. Print Assumptions C05_adj_identity_RxSO3.
Print Assumptions C05_adjT_identity_RxSO3. Print Assumptions C05_retr_is_exp_mul. Print Assumptions C05_add_group_ignores_tail.
Print Assumptions C05_add_algebra_is_vector_add. Print Assumptions C05_exp_neg_is_inverse. Print Assumptions C05_Jr_zero. Print Assumptions C05_Jr_is_Jl_neg_partial.
Print Assumptions C05_adj_identity_SE3. Print Assumptions C05_adjT_identity_SE3. Print Assumptions C05_adj_identity_SE3_taylor_partial. Print Assumptions C05_adj_identity_Sim3. Print Assumptions C05_adjT_identity_Sim3. Print Assumptions C05_exp_neg_is_inverse_rxso3. Print Assumptions C05_exp_neg_is_inverse_se3. Print Assumptions C05_exp_neg_is_inverse_sim3. Print Assumptions C05_Jr_small_is_identity. Print Assumptions C05_Jr_is_Jl_neg_everywhere_refuted. Print Assumptions C05_jinvp_as_coded. Print Assumptions C05_Jl_Jl_inv_so3. Print Assumptions C05_jinvp_inverts_Jl_SO3. Print Assumptions C05_jinvp_inverts_Jl_SE3. Print Assumptions C05_jinvp_inverts_Jl_RxSO3.
Print Assumptions C05_Jr_small_close_to_Jl_neg. Print Assumptions C05_Jr_is_right_jacobian. Print Assumptions C05_exp_right_derivative. Print Assumptions C05_jinvp_is_log_derivative_SO3. Print Assumptions C05_log_hypotheses_satisfiable. Print Assumptions C05_adj_hypotheses_satisfiable.
Print Assumptions C05_adj_identity_SE3_all_partial. Print Assumptions C05_adj_identity_Sim3_all_partial. Print Assumptions C05_SO3_Jr_as_coded.
