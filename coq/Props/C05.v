(* C05 — Adj, AdjT, Retr, +, Jinvp, Jr satisfy their defining tangent-space identities.
   Statements only (over R); proofs in Proofs/LieTangent.v.  The SE3 / Sim3 versions of the Adj
   identities, Jinvp and the right-Jacobian derivative statement are not proved (tie only). *)
From Coq Require Import Reals List.
Import ListNotations.
From PV Require Import Base.Num Model.LieGroup Model.LieExp Model.LieLog Model.LieJac Model.LieTangent
  Proofs.LieGroup Proofs.LieExp Proofs.LieLog Proofs.LieTangent.
Local Open Scope R_scope.
#[local] Remove Hints NumQ NumZ : typeclass_instances.

(* X @ Exp(a) = Exp(Adj(X,a)) @ X and Exp(a) @ X = X @ Exp(AdjT(X,a)), modelled Exp (both branches,
   every magnitude of a incl. zero), every unit X *)
Theorem C05_adj_identity_SO3 : forall (eps : R) (X : quatR) (a : vec3R), unitq X ->
  SO3_mul X (so3_exp eps a) = SO3_mul (so3_exp eps (SO3_AdjXa X a)) X.
Proof. exact adj_identity_SO3. Qed.
Theorem C05_adjT_identity_SO3 : forall (eps : R) (X : quatR) (a : vec3R), unitq X ->
  SO3_mul (so3_exp eps a) X = SO3_mul X (so3_exp eps (SO3_AdjTXa X a)).
Proof. exact adjT_identity_SO3. Qed.
Theorem C05_adj_identity_RxSO3 : forall (eps : R) (X : rxso3R) (a : vec3R * R), unitq (fst X) ->
  RxSO3_mul X (rxso3_exp eps a) = RxSO3_mul (rxso3_exp eps (RxSO3_AdjXa X a)) X.
Proof. exact adj_identity_RxSO3. Qed.
Theorem C05_adjT_identity_RxSO3 : forall (eps : R) (X : rxso3R) (a : vec3R * R), unitq (fst X) ->
  RxSO3_mul (rxso3_exp eps a) X = RxSO3_mul X (rxso3_exp eps (RxSO3_AdjTXa X a)).
Proof. exact adjT_identity_RxSO3. Qed.

(* Retr(X,a) = X + a = Exp(a) @ X; extra trailing components of the added tensor are ignored;
   adding to an algebra element is plain vector addition of the first manifold-dimension components *)
Theorem C05_retr_is_exp_mul : forall (eps : R) g X a, retr_l eps g X a = g_mul g (exp_l eps g a) X.
Proof. exact retr_is_exp_mul. Qed.
Theorem C05_add_group_ignores_tail : forall (eps : R) g X other tail, length other = adim g ->
  add_group_l eps g X (other ++ tail) = retr_l eps g X other.
Proof. exact add_group_ignores_tail. Qed.
Theorem C05_add_algebra_is_vector_add : forall g x other tail, length other = adim g -> length x = adim g ->
  add_alg_l (F:=R) g x (other ++ tail) = ladd x other.
Proof. exact add_alg_ignores_tail. Qed.
(* Exp(-a) = Inv(Exp(a)) exactly, both branches *)
Theorem C05_exp_neg_is_inverse : forall (eps : R) (a : vec3R), so3_exp eps (vneg a) = SO3_inv (so3_exp eps a).
Proof. exact so3_exp_neg. Qed.

(* Jr is the identity at x = 0 and equals Jl(-x) on the closed-form branch *)
Theorem C05_Jr_zero : forall eps : R, 0 <= eps -> so3_Jr eps [0; 0; 0] = lid 3.
Proof. exact Jr_zero. Qed.
Theorem C05_Jr_is_Jl_neg_partial : forall (eps : R) (x : vec3R), 0 <= eps -> eps < vnorm x ->
  so3_Jr eps (v3_l x) = m3rows (so3_Jl eps (vneg x)).
Proof. exact Jr_is_Jl_neg. Qed.

Print Assumptions C05_adj_identity_SO3. Print Assumptions C05_adjT_identity_SO3. Print Assumptions C05_adj_identity_RxSO3.
Print Assumptions C05_adjT_identity_RxSO3. Print Assumptions C05_retr_is_exp_mul. Print Assumptions C05_add_group_ignores_tail.
Print Assumptions C05_add_algebra_is_vector_add. Print Assumptions C05_exp_neg_is_inverse. Print Assumptions C05_Jr_zero. Print Assumptions C05_Jr_is_Jl_neg_partial.
