(* C04 — autograd through LieTensor ops gives exact left-perturbation Jacobians.
   Statements only (over R); proofs in Proofs/LieJac.v.  Shape of every statement: for the op f, the
   curve e |-> f(Exp(e d) @ X) (group input) or e |-> f(x + e d) (vector input) has, at e = 0, the
   derivative  T_{f X}(L d)  (group-valued f; T_Z v = tangent of e |-> Exp(e v) @ Z)  resp.  L d
   (vector-valued f), where L is the matrix whose transpose the modelled backward() multiplies the
   cotangent by (Model/LieJac.v: mul_bwd, inv_bwd, act_bwd, adj_bwd).  Exp near 0 is the model's
   Taylor branch (C04_exp_near_zero_is_model). *)
From Coq Require Import Reals List QArith.
From Coquelicot Require Import Coquelicot.
Import ListNotations.
From PV Require Import Base.Num Model.LieGroup Model.LieExp Model.LieJac Proofs.LieGroup Proofs.LieExp Proofs.LieJac Proofs.LieJacQ Proofs.LieJacPair.
Close Scope Q_scope.
Local Open Scope R_scope.

Theorem C04_exp_near_zero_is_model : forall (eps : R) (x : vec3R), vnorm x <= eps ->
  so3_exp eps x = exp0 x /\ so3_Jl eps x = Jl0 x.
Proof. intros eps x H. split; [now apply exp0_is_model | now apply Jl0_is_model]. Qed.

(* perturbation curves start at X and have the tangent T_X d *)
Theorem C04_SO3_perturbation : forall d X i,
  pertSO3 d X 0 = X /\ is_derive (fun e => qc i (pertSO3 d X e)) 0 (qc i (tanSO3 d X)).
Proof. intros d X i. split; [apply pertSO3_0 | apply pertSO3_tan]. Qed.
Theorem C04_SE3_perturbation : forall d X i,
  is_derive (fun e => se3c i (pertSE3 d X e)) 0 (se3c i (tanSE3 d X)).
Proof. exact pertSE3_tan. Qed.

(* SO3_Mul: L = I for the first argument (exactly), L = Adj(X) for the second *)
Theorem C04_SO3_Mul_dX : forall (X Y : quatR) d e, SO3_mul (pertSO3 d X e) Y = pertSO3 d (SO3_mul X Y) e.
Proof. exact SO3_mul_dX. Qed.
Theorem C04_SO3_Mul_dY : forall (X Y : quatR) d i, unitq X ->
  is_derive (fun e => qc i (SO3_mul X (pertSO3 d Y e))) 0 (qc i (tanSO3 (mvmul (SO3_Adj X) d) (SO3_mul X Y))).
Proof. exact SO3_mul_dY. Qed.
(* SO3_Inv: L = -Adj(Y), Y = Inv X *)
Theorem C04_SO3_Inv : forall (X : quatR) d i, unitq X ->
  is_derive (fun e => qc i (SO3_inv (pertSO3 d X e))) 0
            (qc i (tanSO3 (vneg (mvmul (SO3_Adj (SO3_inv X)) d)) (SO3_inv X))).
Proof. exact SO3_inv_d. Qed.
(* SO3_Act: L_X = skew(-out) (= SO3_Act_Jacobian(out)), L_p = matrix(X) *)
Theorem C04_SO3_Act_dX : forall (X : quatR) p d i, unitq X ->
  is_derive (fun e => vc i (SO3_act (pertSO3 d X e) p)) 0 (vc i (mvmul (skew (vneg (SO3_act X p))) d)).
Proof. exact SO3_act_dX. Qed.
Theorem C04_SO3_Act_dp : forall (X : quatR) p dp i,
  is_derive (fun e => vc i (SO3_act X (vadd p (vscale e dp)))) 0 (vc i (mvmul (SO3_matrix X) dp)).
Proof. exact SO3_act_dp. Qed.
(* SO3_AdjXa: L_X = -ad(out) = skew(-out), L_a = Adj(X) *)
Theorem C04_SO3_Adj_dX : forall (X : quatR) a d i, unitq X ->
  is_derive (fun e => vc i (SO3_AdjXa (pertSO3 d X e) a)) 0 (vc i (mvmul (skew (vneg (SO3_AdjXa X a))) d)).
Proof. exact SO3_adj_dX. Qed.
Theorem C04_SO3_Adj_da : forall (X : quatR) a da i,
  is_derive (fun e => vc i (SO3_AdjXa X (vadd a (vscale e da)))) 0 (vc i (mvmul (SO3_Adj X) da)).
Proof. exact SO3_adj_da. Qed.

(* SE3: Act (L_X = [I, skew(-out)], L_p = R) and Mul in the first argument (L = I) *)
Theorem C04_SE3_Act_dX : forall (X : se3R) p d i, unitq (snd X) ->
  is_derive (fun e => vc i (SE3_act (pertSE3 d X e) p)) 0
            (vc i (vadd (fst d) (mvmul (skew (vneg (SE3_act X p))) (snd d)))).
Proof. exact SE3_act_dX. Qed.
Theorem C04_SE3_Act_dp : forall (X : se3R) p dp i,
  is_derive (fun e => vc i (SE3_act X (vadd p (vscale e dp)))) 0 (vc i (mvmul (SO3_matrix (snd X)) dp)).
Proof. exact SE3_act_dp. Qed.
Theorem C04_SE3_Mul_dX : forall (X Y : se3R) d i, unitq (snd X) ->
  is_derive (fun e => se3c i (SE3_mul (pertSE3 d X e) Y)) 0 (se3c i (tanSE3 d (SE3_mul X Y))).
Proof. exact SE3_mul_dX. Qed.

(* every modelled backward computes `cotangent @ M` (lvm) with M the list form of the matrix L above;
   that is multiplication by the transpose:  <g @ M, d> = <g, M d>, for any sizes *)
Theorem C04_backward_is_transpose : forall (g : list R) (M : lmat) (d : list R) n,
  Forall (fun r => length r = n) M -> ldot (lvm g M n) d = ldot g (lmv M d).
Proof. exact backward_is_transpose. Qed.
Theorem C04_list_matrices_are_L :
  (forall X d : list R, lmv (AdjM 0 X) d = v3_l (mvmul (SO3_Adj (l_q X)) (l_v3 d)) \/ length d <> 3%nat) /\
  (forall p d : list R, lmv (act_jac 0 p) d = v3_l (mvmul (skew (vneg (l_v3 p))) (l_v3 d)) \/ length d <> 3%nat).
Proof. split; [exact SO3_AdjM_is_Adj | exact act_jac_SO3_is_skew]. Qed.

(* the AdjT backward of the source before repair 16e80b7 was wrong for SE3; the repaired one is exact
   for the gradient w.r.t. a (AdjT is linear in a) *)
Theorem C04_SE3_AdjT_old_refuted : exists X a gz : list Q,
  Qlist_eqb (snd (adjT_bwd_old 1 X a gz)) (adjT_true_a_grad 1 X gz) = false /\
  Qlist_eqb (snd (adjT_bwd 1 X a gz)) (adjT_true_a_grad 1 X gz) = true.
Proof. exact adjT_old_refuted_SE3. Qed.

Print Assumptions C04_exp_near_zero_is_model. Print Assumptions C04_SO3_perturbation. Print Assumptions C04_SE3_perturbation.
Print Assumptions C04_SO3_Mul_dX. Print Assumptions C04_SO3_Mul_dY. Print Assumptions C04_SO3_Inv.
Print Assumptions C04_SO3_Act_dX. Print Assumptions C04_SO3_Act_dp. Print Assumptions C04_SO3_Adj_dX. Print Assumptions C04_SO3_Adj_da.
Print Assumptions C04_SE3_Act_dX. Print Assumptions C04_SE3_Act_dp. Print Assumptions C04_SE3_Mul_dX. Print Assumptions C04_SE3_AdjT_old_refuted. Print Assumptions C04_backward_is_transpose. Print Assumptions C04_list_matrices_are_L.
