(* C04 — autograd through LieTensor ops gives exact left-perturbation Jacobians.
   Statements only (over R); proofs in Proofs/LieJac.v.  Shape of every statement: for the op f, the
   curve e |-> f(Exp(e d) @ X) (group input) or e |-> f(x + e d) (vector input) has, at e = 0, the
   derivative  T_{f X}(L d)  (group-valued f; T_Z v = tangent of e |-> Exp(e v) @ Z)  resp.  L d
   (vector-valued f), where L is the matrix whose transpose the modelled backward() multiplies the
   cotangent by (Model/LieJac.v: mul_bwd, inv_bwd, act_bwd, adj_bwd).  Exp near 0 is the model's
   Taylor branch (C04_exp_near_zero_is_model).
   Added (Proofs/LieJac2.v .. LieJac7.v, LieJacPair2.v, LieJacBwd.v):
   * all remaining SE3 ops, SO3 AdjT, and all ops of RxSO3 and Sim3 (perturbation curve with the scale component);
   * the same statements for ARBITRARY differentiable curves X(e) with X(0) = X, X'(0) = T_X d (..._curve): the form that
     composes over expression trees (d.. predicates: componentwise is_derive at 0, Proofs/LieJac2.v, LieJac3.v, LieJac5.v);
   * Act4 (homogeneous points) for all four groups;
   * so3 Exp: d/dh Exp(x + h dl)|_0 = T_{Exp x}(Jl(x) dl) on the closed-form branch and at x = 0; rxso3 Exp by blocks;
     se3 Exp with se3_Jl = [[Jl, calcQ], [0, Jl]] on the closed-form branch;
     SO3 / RxSO3 Log: d/de Log(Exp(e d) X)|_0 = Jl_inv(Log X) d on the principal closed-form branch;
   * composition: Retr on SO3 (Exp backward then Mul) and the three-op SE3 program Act(Inv(X) @ Y, p), assembled from the
     per-op curve statements;
   * C04_backward_transpose_*: every modelled backward (mul, inv, act, act4, adj, adjT; all four groups) is the transpose
     of the L of the corresponding derivative statement: <backward(g), d> = <g, L d>.
   NOT proved: matrix(), sim3 Exp / SE3 and Sim3 Log backward (se3_Jl_inv, truncated sim3 series), Jinvp, Retr,
   the chain-rule assembly over expression trees (the per-op curve statements are its ingredients). *)
From Coq Require Import Reals List QArith.
From Coquelicot Require Import Coquelicot.
Import ListNotations.
From PV Require Import Base.Num Model.LieGroup Model.LieExp Model.LieLog Model.LieJac Proofs.LieGroup Proofs.LieExp Proofs.LieJac Proofs.LieJacQ Proofs.LieJacPair
  Proofs.LieJac2 Proofs.LieJac3 Proofs.LieJac4 Proofs.LieJac5 Proofs.LieJac6 Proofs.LieJac7 Proofs.LieJacPair2 Proofs.LieJacBwd.
Close Scope Q_scope.
Local Open Scope R_scope.

Theorem C04_exp_near_zero_is_model : forall (eps : R) (x : vec3R), vnorm x <= eps ->
  so3_exp eps x = exp0 x /\ so3_Jl eps x = Jl0 x.
Proof. intros eps x H. split; [now apply exp0_is_model | now apply Jl0_is_model]. Qed.

(* perturbation curves start at X and have the tangent T_X d *)
Theorem C04_SO3_perturbation : forall d X i,
  pertSO3 d X 0 = X /\ is_derive (fun e => qc i (pertSO3 d X e)) 0 (qc i (tanSO3 d X)).
Proof. intros d X i. split; [apply pertSO3_0 | apply pertSO3_tan]. Qed.
Theorem C04_SE3_perturbation : forall d X i,
  is_derive (fun e => se3c i (pertSE3 d X e)) 0 (se3c i (tanSE3 d X)).
Proof. exact pertSE3_tan. Qed.

(* SO3_Mul: L = I for the first argument (exactly), L = Adj(X) for the second *)
Theorem C04_SO3_Mul_dX : forall (X Y : quatR) d e, SO3_mul (pertSO3 d X e) Y = pertSO3 d (SO3_mul X Y) e.
Proof. exact SO3_mul_dX. Qed.
Theorem C04_SO3_Mul_dY : forall (X Y : quatR) d i, unitq X ->
  is_derive (fun e => qc i (SO3_mul X (pertSO3 d Y e))) 0 (qc i (tanSO3 (mvmul (SO3_Adj X) d) (SO3_mul X Y))).
Proof. exact SO3_mul_dY. Qed.
(* SO3_Inv: L = -Adj(Y), Y = Inv X *)
Theorem C04_SO3_Inv : forall (X : quatR) d i, unitq X ->
  is_derive (fun e => qc i (SO3_inv (pertSO3 d X e))) 0
            (qc i (tanSO3 (vneg (mvmul (SO3_Adj (SO3_inv X)) d)) (SO3_inv X))).
Proof. exact SO3_inv_d. Qed.
(* SO3_Act: L_X = skew(-out) (= SO3_Act_Jacobian(out)), L_p = matrix(X) *)
Theorem C04_SO3_Act_dX : forall (X : quatR) p d i, unitq X ->
  is_derive (fun e => vc i (SO3_act (pertSO3 d X e) p)) 0 (vc i (mvmul (skew (vneg (SO3_act X p))) d)).
Proof. exact SO3_act_dX. Qed.
Theorem C04_SO3_Act_dp : forall (X : quatR) p dp i,
  is_derive (fun e => vc i (SO3_act X (vadd p (vscale e dp)))) 0 (vc i (mvmul (SO3_matrix X) dp)).
Proof. exact SO3_act_dp. Qed.
(* SO3_AdjXa: L_X = -ad(out) = skew(-out), L_a = Adj(X) *)
Theorem C04_SO3_Adj_dX : forall (X : quatR) a d i, unitq X ->
  is_derive (fun e => vc i (SO3_AdjXa (pertSO3 d X e) a)) 0 (vc i (mvmul (skew (vneg (SO3_AdjXa X a))) d)).
Proof. exact SO3_adj_dX. Qed.
Theorem C04_SO3_Adj_da : forall (X : quatR) a da i,
  is_derive (fun e => vc i (SO3_AdjXa X (vadd a (vscale e da)))) 0 (vc i (mvmul (SO3_Adj X) da)).
Proof. exact SO3_adj_da. Qed.

(* SE3: Act (L_X = [I, skew(-out)], L_p = R) and Mul in the first argument (L = I) *)
Theorem C04_SE3_Act_dX : forall (X : se3R) p d i, unitq (snd X) ->
  is_derive (fun e => vc i (SE3_act (pertSE3 d X e) p)) 0
            (vc i (vadd (fst d) (mvmul (skew (vneg (SE3_act X p))) (snd d)))).
Proof. exact SE3_act_dX. Qed.
Theorem C04_SE3_Act_dp : forall (X : se3R) p dp i,
  is_derive (fun e => vc i (SE3_act X (vadd p (vscale e dp)))) 0 (vc i (mvmul (SO3_matrix (snd X)) dp)).
Proof. exact SE3_act_dp. Qed.
Theorem C04_SE3_Mul_dX : forall (X Y : se3R) d i, unitq (snd X) ->
  is_derive (fun e => se3c i (SE3_mul (pertSE3 d X e) Y)) 0 (se3c i (tanSE3 d (SE3_mul X Y))).
Proof. exact SE3_mul_dX. Qed.

(* every modelled backward computes `cotangent @ M` (lvm) with M the list form of the matrix L above;
   that is multiplication by the transpose:  <g @ M, d> = <g, M d>, for any sizes *)
Theorem C04_backward_is_transpose : forall (g : list R) (M : lmat) (d : list R) n,
  Forall (fun r => length r = n) M -> ldot (lvm g M n) d = ldot g (lmv M d).
Proof. exact backward_is_transpose. Qed.
Theorem C04_list_matrices_are_L :
  (forall X d : list R, lmv (AdjM 0 X) d = v3_l (mvmul (SO3_Adj (l_q X)) (l_v3 d)) \/ length d <> 3%nat) /\
  (forall p d : list R, lmv (act_jac 0 p) d = v3_l (mvmul (skew (vneg (l_v3 p))) (l_v3 d)) \/ length d <> 3%nat).
Proof. split; [exact SO3_AdjM_is_Adj | exact act_jac_SO3_is_skew]. Qed.

(* the AdjT backward of the source before repair 16e80b7 was wrong for SE3; the repaired one is exact
   for the gradient w.r.t. a (AdjT is linear in a) *)
Theorem C04_SE3_AdjT_old_refuted : exists X a gz : list Q,
  Qlist_eqb (snd (adjT_bwd_old 1 X a gz)) (adjT_true_a_grad 1 X gz) = false /\
  Qlist_eqb (snd (adjT_bwd 1 X a gz)) (adjT_true_a_grad 1 X gz) = true.
Proof. exact adjT_old_refuted_SE3. Qed.

(* ======================= SO3 AdjTXa:  L_X = Adj(X^-1) ad(a),  L_a = Adj(X^-1) ======================= *)
Theorem C04_SO3_AdjT_dX : forall (X : quatR) a d i, unitq X ->
  is_derive (fun e => vc i (SO3_AdjTXa (pertSO3 d X e) a)) 0 (vc i (SO3_AdjTXa X (vcross a d))).
Proof. exact SO3_adjT_dX. Qed.
Theorem C04_SO3_AdjT_da : forall (X : quatR) a da i,
  is_derive (fun e => vc i (SO3_AdjTXa X (vadd a (vscale e da)))) 0 (vc i (SO3_AdjTXa X da)).
Proof. exact SO3_adjT_da. Qed.
Theorem C04_SO3_AdjT_dX_curve : forall (Q : R -> quatR) a d, unitq (Q 0) -> dq4 Q (tanSO3 d (Q 0)) ->
  dv3 (fun e => SO3_AdjTXa (Q e) a) (SO3_AdjTXa (Q 0) (vcross a d)).
Proof. exact SO3_adjT_dX_curve. Qed.

(* ======================= SE3: the remaining operations ======================= *)
Theorem C04_SE3_perturbation_start : forall d X, pertSE3 d X 0 = X.
Proof. exact pertSE3_0. Qed.
(* Mul, second argument: L = Adj(X) *)
Theorem C04_SE3_Mul_dY : forall (X Y : se3R) d i, unitq (snd X) ->
  is_derive (fun e => se3c i (SE3_mul X (pertSE3 d Y e))) 0 (se3c i (tanSE3 (SE3_AdjXa X d) (SE3_mul X Y))).
Proof. exact SE3_mul_dY. Qed.
(* Inv: L = -Adj(X^-1) *)
Theorem C04_SE3_Inv : forall (X : se3R) d i, unitq (snd X) ->
  is_derive (fun e => se3c i (SE3_inv (pertSE3 d X e))) 0
            (se3c i (tanSE3 (v6neg (SE3_AdjXa (SE3_inv X) d)) (SE3_inv X))).
Proof. exact SE3_inv_d. Qed.
(* AdjXa: L_X = -ad(out), out = Adj(X) a;  L_a = Adj(X) *)
Theorem C04_SE3_Adj_dX : forall (X : se3R) a d i, unitq (snd X) ->
  is_derive (fun e => p6c i (SE3_AdjXa (pertSE3 d X e) a)) 0 (p6c i (v6neg (se3_ad (SE3_AdjXa X a) d))).
Proof. exact SE3_adj_dX. Qed.
Theorem C04_SE3_Adj_da : forall (X : se3R) a da i,
  is_derive (fun e => p6c i (SE3_AdjXa X (v6add a (v6scale e da)))) 0 (p6c i (SE3_AdjXa X da)).
Proof. exact SE3_adj_da. Qed.
(* AdjTXa (the repaired adjT_bwd): L_X = Adj(X^-1) ad(a),  L_a = Adj(X^-1) *)
Theorem C04_SE3_AdjT_dX : forall (X : se3R) a d i, unitq (snd X) ->
  is_derive (fun e => p6c i (SE3_AdjTXa (pertSE3 d X e) a)) 0 (p6c i (SE3_AdjTXa X (se3_ad a d))).
Proof. exact SE3_adjT_dX. Qed.
Theorem C04_SE3_AdjT_da : forall (X : se3R) a da i,
  is_derive (fun e => p6c i (SE3_AdjTXa X (v6add a (v6scale e da)))) 0 (p6c i (SE3_AdjTXa X da)).
Proof. exact SE3_adjT_da. Qed.
(* the same along arbitrary curves with X(0) = X, X'(0) = T_X d *)
Theorem C04_SE3_Mul_dX_curve : forall (X : R -> se3R) (Y : se3R) d, unitq (snd (X 0)) -> dse3 X (tanSE3 d (X 0)) ->
  dse3 (fun e => SE3_mul (X e) Y) (tanSE3 d (SE3_mul (X 0) Y)).
Proof. exact SE3_mul_dX_curve. Qed.
Theorem C04_SE3_Mul_dY_curve : forall (X : se3R) (Y : R -> se3R) d, unitq (snd X) -> dse3 Y (tanSE3 d (Y 0)) ->
  dse3 (fun e => SE3_mul X (Y e)) (tanSE3 (SE3_AdjXa X d) (SE3_mul X (Y 0))).
Proof. exact SE3_mul_dY_curve. Qed.
Theorem C04_SE3_Inv_curve : forall (X : R -> se3R) d, unitq (snd (X 0)) -> dse3 X (tanSE3 d (X 0)) ->
  dse3 (fun e => SE3_inv (X e)) (tanSE3 (v6neg (SE3_AdjXa (SE3_inv (X 0)) d)) (SE3_inv (X 0))).
Proof. exact SE3_inv_curve. Qed.
Theorem C04_SE3_Adj_dX_curve : forall (X : R -> se3R) a d, unitq (snd (X 0)) -> dse3 X (tanSE3 d (X 0)) ->
  dv6 (fun e => SE3_AdjXa (X e) a) (v6neg (se3_ad (SE3_AdjXa (X 0) a) d)).
Proof. exact SE3_adj_dX_curve. Qed.
Theorem C04_SE3_Adj_da_curve : forall (X : se3R) (a : R -> v6) a', dv6 a a' -> dv6 (fun e => SE3_AdjXa X (a e)) (SE3_AdjXa X a').
Proof. exact SE3_adj_da_curve. Qed.
Theorem C04_SE3_AdjT_dX_curve : forall (X : R -> se3R) a d, unitq (snd (X 0)) -> dse3 X (tanSE3 d (X 0)) ->
  dv6 (fun e => SE3_AdjTXa (X e) a) (SE3_AdjTXa (X 0) (se3_ad a d)).
Proof. exact SE3_adjT_dX_curve. Qed.
Theorem C04_SE3_AdjT_da_curve : forall (X : se3R) (a : R -> v6) a', dv6 a a' -> dv6 (fun e => SE3_AdjTXa X (a e)) (SE3_AdjTXa X a').
Proof. exact SE3_adjT_da_curve. Qed.
(* the curve predicates are componentwise derivatives at 0 *)
Theorem C04_curve_predicates :
  (forall X X', dse3 X X' <-> forall i, is_derive (fun e => se3c i (X e)) 0 (se3c i X')) /\
  (forall a a', dv6 a a' <-> forall i, is_derive (fun e => p6c i (a e)) 0 (p6c i a')) /\
  (forall X X', drx X X' <-> forall i, is_derive (fun e => rxc i (X e)) 0 (rxc i X')) /\
  (forall a a', dv4 a a' <-> forall i, is_derive (fun e => p4c i (a e)) 0 (p4c i a')) /\
  (forall X X', dsim3 X X' <-> forall i, is_derive (fun e => sim3c i (X e)) 0 (sim3c i X')) /\
  (forall a a', dv7 a a' <-> forall i, is_derive (fun e => p7c i (a e)) 0 (p7c i a')).
Proof. split; [exact dse3_c | split; [exact dv6_c | split; [exact drx_c | split; [exact dv4_c | split; [exact dsim3_c | exact dv7_c]]]]]. Qed.

(* ======================= RxSO3 ======================= *)
Theorem C04_RxSO3_exp_near_zero_is_model : forall (eps : R) (x : v4), vnorm (fst x) <= eps -> rxso3_exp eps x = exp0_rxso3 x.
Proof. exact exp0_rxso3_is_model. Qed.
Theorem C04_RxSO3_perturbation : forall d X i,
  pertRxSO3 d X 0 = X /\ is_derive (fun e => rxc i (pertRxSO3 d X e)) 0 (rxc i (tanRxSO3 d X)).
Proof. intros d X i. split; [apply pertRxSO3_0 | apply pertRxSO3_tan]. Qed.
Theorem C04_RxSO3_Mul_dX : forall (X Y : rxso3R) d e, RxSO3_mul (pertRxSO3 d X e) Y = pertRxSO3 d (RxSO3_mul X Y) e.
Proof. exact RxSO3_mul_dX. Qed.
Theorem C04_RxSO3_Mul_dY : forall (X Y : rxso3R) d i, unitq (fst X) ->
  is_derive (fun e => rxc i (RxSO3_mul X (pertRxSO3 d Y e))) 0 (rxc i (tanRxSO3 (RxSO3_AdjXa X d) (RxSO3_mul X Y))).
Proof. exact RxSO3_mul_dY. Qed.
Theorem C04_RxSO3_Inv : forall (X : rxso3R) d i, unitq (fst X) -> snd X <> 0 ->
  is_derive (fun e => rxc i (RxSO3_inv (pertRxSO3 d X e))) 0
            (rxc i (tanRxSO3 (v4neg (RxSO3_AdjXa (RxSO3_inv X) d)) (RxSO3_inv X))).
Proof. exact RxSO3_inv_d. Qed.
(* Act: L_X = [skew(-out), out] (= RxSO3_Act_Jacobian(out)),  L_p = s R *)
Theorem C04_RxSO3_Act_dX : forall (X : rxso3R) p d i, unitq (fst X) ->
  is_derive (fun e => vc i (RxSO3_act (pertRxSO3 d X e) p)) 0
            (vc i (vadd (mvmul (skew (vneg (RxSO3_act X p))) (fst d)) (vscale (snd d) (RxSO3_act X p)))).
Proof. exact RxSO3_act_dX. Qed.
Theorem C04_RxSO3_Act_dp : forall (X : rxso3R) p dp i, unitq (fst X) ->
  is_derive (fun e => vc i (RxSO3_act X (vadd p (vscale e dp)))) 0 (vc i (mvmul (mscale3 (snd X) (SO3_Adj (fst X))) dp)).
Proof. exact RxSO3_act_dp. Qed.
Theorem C04_RxSO3_Adj_dX : forall (X : rxso3R) a d i, unitq (fst X) ->
  is_derive (fun e => p4c i (RxSO3_AdjXa (pertRxSO3 d X e) a)) 0 (p4c i (v4neg (rxso3_ad (RxSO3_AdjXa X a) d))).
Proof. exact RxSO3_adj_dX. Qed.
Theorem C04_RxSO3_Adj_da : forall (X : rxso3R) a da i,
  is_derive (fun e => p4c i (RxSO3_AdjXa X (v4add a (v4scale e da)))) 0 (p4c i (RxSO3_AdjXa X da)).
Proof. exact RxSO3_adj_da. Qed.
Theorem C04_RxSO3_AdjT_dX : forall (X : rxso3R) a d i, unitq (fst X) ->
  is_derive (fun e => p4c i (RxSO3_AdjTXa (pertRxSO3 d X e) a)) 0 (p4c i (RxSO3_AdjTXa X (rxso3_ad a d))).
Proof. exact RxSO3_adjT_dX. Qed.
Theorem C04_RxSO3_AdjT_da : forall (X : rxso3R) a da i,
  is_derive (fun e => p4c i (RxSO3_AdjTXa X (v4add a (v4scale e da)))) 0 (p4c i (RxSO3_AdjTXa X da)).
Proof. exact RxSO3_adjT_da. Qed.
(* along arbitrary curves *)
Theorem C04_RxSO3_Mul_dX_curve : forall (X : R -> rxso3R) (Y : rxso3R) d, drx X (tanRxSO3 d (X 0)) ->
  drx (fun e => RxSO3_mul (X e) Y) (tanRxSO3 d (RxSO3_mul (X 0) Y)).
Proof. exact RxSO3_mul_dX_curve. Qed.
Theorem C04_RxSO3_Mul_dY_curve : forall (X : rxso3R) (Y : R -> rxso3R) d, unitq (fst X) -> drx Y (tanRxSO3 d (Y 0)) ->
  drx (fun e => RxSO3_mul X (Y e)) (tanRxSO3 (RxSO3_AdjXa X d) (RxSO3_mul X (Y 0))).
Proof. exact RxSO3_mul_dY_curve. Qed.
Theorem C04_RxSO3_Inv_curve : forall (X : R -> rxso3R) d, unitq (fst (X 0)) -> snd (X 0) <> 0 -> drx X (tanRxSO3 d (X 0)) ->
  drx (fun e => RxSO3_inv (X e)) (tanRxSO3 (v4neg (RxSO3_AdjXa (RxSO3_inv (X 0)) d)) (RxSO3_inv (X 0))).
Proof. exact RxSO3_inv_curve. Qed.
Theorem C04_RxSO3_Act_dX_curve : forall (X : R -> rxso3R) p d, unitq (fst (X 0)) -> drx X (tanRxSO3 d (X 0)) ->
  dv3 (fun e => RxSO3_act (X e) p)
      (vadd (mvmul (skew (vneg (RxSO3_act (X 0) p))) (fst d)) (vscale (snd d) (RxSO3_act (X 0) p))).
Proof. exact RxSO3_act_dX_curve. Qed.
Theorem C04_RxSO3_Act_dp_curve : forall (X : rxso3R) (p : R -> vec3R) p', unitq (fst X) -> dv3 p p' ->
  dv3 (fun e => RxSO3_act X (p e)) (mvmul (mscale3 (snd X) (SO3_Adj (fst X))) p').
Proof. exact RxSO3_act_dp_curve. Qed.
Theorem C04_RxSO3_Adj_dX_curve : forall (X : R -> rxso3R) a d, unitq (fst (X 0)) -> drx X (tanRxSO3 d (X 0)) ->
  dv4 (fun e => RxSO3_AdjXa (X e) a) (v4neg (rxso3_ad (RxSO3_AdjXa (X 0) a) d)).
Proof. exact RxSO3_adj_dX_curve. Qed.
Theorem C04_RxSO3_AdjT_dX_curve : forall (X : R -> rxso3R) a d, unitq (fst (X 0)) -> drx X (tanRxSO3 d (X 0)) ->
  dv4 (fun e => RxSO3_AdjTXa (X e) a) (RxSO3_AdjTXa (X 0) (rxso3_ad a d)).
Proof. exact RxSO3_adjT_dX_curve. Qed.

(* ======================= Sim3 ======================= *)
Theorem C04_Sim3_exp_near_zero_is_model : forall (eps : R) (x : v7), Rabs (snd x) <= eps -> vnorm (snd (fst x)) <= eps ->
  sim3_exp eps (fst (fst x), (snd (fst x), snd x)) = exp0_sim3 x.
Proof. exact exp0_sim3_is_model. Qed.
Theorem C04_Sim3_perturbation : forall d X i,
  pertSim3 d X 0 = X /\ is_derive (fun e => sim3c i (pertSim3 d X e)) 0 (sim3c i (tanSim3 d X)).
Proof. intros d X i. split; [apply pertSim3_0 | apply pertSim3_tan]. Qed.
Theorem C04_Sim3_Mul_dX : forall (X Y : sim3R) d i, unitq (fst (snd X)) ->
  is_derive (fun e => sim3c i (Sim3_mul (pertSim3 d X e) Y)) 0 (sim3c i (tanSim3 d (Sim3_mul X Y))).
Proof. exact Sim3_mul_dX. Qed.
Theorem C04_Sim3_Mul_dY : forall (X Y : sim3R) d i, unitq (fst (snd X)) ->
  is_derive (fun e => sim3c i (Sim3_mul X (pertSim3 d Y e))) 0 (sim3c i (tanSim3 (Sim3_AdjXa X d) (Sim3_mul X Y))).
Proof. exact Sim3_mul_dY. Qed.
Theorem C04_Sim3_Inv : forall (X : sim3R) d i, unitq (fst (snd X)) -> snd (snd X) <> 0 ->
  is_derive (fun e => sim3c i (Sim3_inv (pertSim3 d X e))) 0
            (sim3c i (tanSim3 (v7neg (Sim3_AdjXa (Sim3_inv X) d)) (Sim3_inv X))).
Proof. exact Sim3_inv_d. Qed.
(* Act: L_X = [I, skew(-out), out] (= Sim3_Act_Jacobian(out)),  L_p = s R *)
Theorem C04_Sim3_Act_dX : forall (X : sim3R) p d i, unitq (fst (snd X)) ->
  is_derive (fun e => vc i (Sim3_act (pertSim3 d X e) p)) 0
            (vc i (vadd (vadd (fst (fst d)) (mvmul (skew (vneg (Sim3_act X p))) (snd (fst d)))) (vscale (snd d) (Sim3_act X p)))).
Proof. exact Sim3_act_dX. Qed.
Theorem C04_Sim3_Act_dp : forall (X : sim3R) p dp i, unitq (fst (snd X)) ->
  is_derive (fun e => vc i (Sim3_act X (vadd p (vscale e dp)))) 0
            (vc i (mvmul (mscale3 (snd (snd X)) (SO3_Adj (fst (snd X)))) dp)).
Proof. exact Sim3_act_dp. Qed.
Theorem C04_Sim3_Adj_dX : forall (X : sim3R) a d i, unitq (fst (snd X)) ->
  is_derive (fun e => p7c i (Sim3_AdjXa (pertSim3 d X e) a)) 0 (p7c i (v7neg (sim3_ad (Sim3_AdjXa X a) d))).
Proof. exact Sim3_adj_dX. Qed.
Theorem C04_Sim3_Adj_da : forall (X : sim3R) a da i,
  is_derive (fun e => p7c i (Sim3_AdjXa X (v7add a (v7scale e da)))) 0 (p7c i (Sim3_AdjXa X da)).
Proof. exact Sim3_adj_da. Qed.
(* AdjTXa (the repaired adjT_bwd) *)
Theorem C04_Sim3_AdjT_dX : forall (X : sim3R) a d i, unitq (fst (snd X)) -> snd (snd X) <> 0 ->
  is_derive (fun e => p7c i (Sim3_AdjTXa (pertSim3 d X e) a)) 0 (p7c i (Sim3_AdjTXa X (sim3_ad a d))).
Proof. exact Sim3_adjT_dX. Qed.
Theorem C04_Sim3_AdjT_da : forall (X : sim3R) a da i,
  is_derive (fun e => p7c i (Sim3_AdjTXa X (v7add a (v7scale e da)))) 0 (p7c i (Sim3_AdjTXa X da)).
Proof. exact Sim3_adjT_da. Qed.
(* along arbitrary curves *)
Theorem C04_Sim3_Mul_dX_curve : forall (X : R -> sim3R) (Y : sim3R) d, unitq (fst (snd (X 0))) -> dsim3 X (tanSim3 d (X 0)) ->
  dsim3 (fun e => Sim3_mul (X e) Y) (tanSim3 d (Sim3_mul (X 0) Y)).
Proof. exact Sim3_mul_dX_curve. Qed.
Theorem C04_Sim3_Mul_dY_curve : forall (X : sim3R) (Y : R -> sim3R) d, unitq (fst (snd X)) -> dsim3 Y (tanSim3 d (Y 0)) ->
  dsim3 (fun e => Sim3_mul X (Y e)) (tanSim3 (Sim3_AdjXa X d) (Sim3_mul X (Y 0))).
Proof. exact Sim3_mul_dY_curve. Qed.
Theorem C04_Sim3_Inv_curve : forall (X : R -> sim3R) d, unitq (fst (snd (X 0))) -> snd (snd (X 0)) <> 0 -> dsim3 X (tanSim3 d (X 0)) ->
  dsim3 (fun e => Sim3_inv (X e)) (tanSim3 (v7neg (Sim3_AdjXa (Sim3_inv (X 0)) d)) (Sim3_inv (X 0))).
Proof. exact Sim3_inv_curve. Qed.
Theorem C04_Sim3_Act_dX_curve : forall (X : R -> sim3R) p d, unitq (fst (snd (X 0))) -> dsim3 X (tanSim3 d (X 0)) ->
  dv3 (fun e => Sim3_act (X e) p)
      (vadd (vadd (fst (fst d)) (mvmul (skew (vneg (Sim3_act (X 0) p))) (snd (fst d)))) (vscale (snd d) (Sim3_act (X 0) p))).
Proof. exact Sim3_act_dX_curve. Qed.
Theorem C04_Sim3_Act_dp_curve : forall (X : sim3R) (p : R -> vec3R) p', unitq (fst (snd X)) -> dv3 p p' ->
  dv3 (fun e => Sim3_act X (p e)) (mvmul (mscale3 (snd (snd X)) (SO3_Adj (fst (snd X)))) p').
Proof. exact Sim3_act_dp_curve. Qed.
Theorem C04_Sim3_Adj_dX_curve : forall (X : R -> sim3R) a d, unitq (fst (snd (X 0))) -> dsim3 X (tanSim3 d (X 0)) ->
  dv7 (fun e => Sim3_AdjXa (X e) a) (v7neg (sim3_ad (Sim3_AdjXa (X 0) a) d)).
Proof. exact Sim3_adj_dX_curve. Qed.
Theorem C04_Sim3_AdjT_dX_curve : forall (X : R -> sim3R) a d, unitq (fst (snd (X 0))) -> snd (snd (X 0)) <> 0 ->
  dsim3 X (tanSim3 d (X 0)) -> dv7 (fun e => Sim3_AdjTXa (X e) a) (Sim3_AdjTXa (X 0) (sim3_ad a d)).
Proof. exact Sim3_adjT_dX_curve. Qed.
Theorem C04_Sim3_hypotheses_satisfiable : let X : sim3R := ((1, 2, 3), (((3/5, 0, 0), 4/5), 2)) in
  unitq (fst (snd X)) /\ snd (snd X) <> 0.
Proof. exact sim3_hyps_example. Qed.

(* ======================= Act along arbitrary curves (SO3, SE3) and Act4 (all groups) ======================= *)
Theorem C04_SO3_Act_dX_curve : forall (Q : R -> quatR) p d, unitq (Q 0) -> dq4 Q (tanSO3 d (Q 0)) ->
  dv3 (fun e => SO3_act (Q e) p) (mvmul (skew (vneg (SO3_act (Q 0) p))) d).
Proof. exact SO3_act_dX_curve. Qed.
Theorem C04_SO3_Act_dp_curve : forall (X : quatR) (p : R -> vec3R) p', unitq X -> dv3 p p' ->
  dv3 (fun e => SO3_act X (p e)) (mvmul (SO3_Adj X) p').
Proof. exact SO3_act_dp_curve. Qed.
Theorem C04_SE3_Act_dX_curve : forall (X : R -> se3R) p d, unitq (snd (X 0)) -> dse3 X (tanSE3 d (X 0)) ->
  dv3 (fun e => SE3_act (X e) p) (vadd (fst d) (mvmul (skew (vneg (SE3_act (X 0) p))) (snd d))).
Proof. exact SE3_act_dX_curve. Qed.
Theorem C04_SE3_Act_dp_curve : forall (X : se3R) (p : R -> vec3R) p', unitq (snd X) -> dv3 p p' ->
  dv3 (fun e => SE3_act X (p e)) (mvmul (SO3_Adj (snd X)) p').
Proof. exact SE3_act_dp_curve. Qed.
(* Act4(X, (p, w)) = (sR p + w t, w):  L_X = *_Act4_Jacobian(out),  L_p = [[sR, t], [0, 1]] *)
Theorem C04_SO3_Act4_dX_curve : forall (Q : R -> quatR) (P : vec4R) d, unitq (Q 0) -> dq4 Q (tanSO3 d (Q 0)) ->
  dv4h (fun e => SO3_act4 (Q e) P) (mvmul (skew (vneg (fst (SO3_act4 (Q 0) P)))) d, 0).
Proof. exact SO3_act4_dX_curve. Qed.
Theorem C04_SO3_Act4_dp_curve : forall (X : quatR) (P : R -> vec4R) P', unitq X -> dv4h P P' ->
  dv4h (fun e => SO3_act4 X (P e)) (mvmul (SO3_Adj X) (fst P'), snd P').
Proof. exact SO3_act4_dp_curve. Qed.
Theorem C04_SE3_Act4_dX_curve : forall (X : R -> se3R) (P : vec4R) d, unitq (snd (X 0)) -> dse3 X (tanSE3 d (X 0)) ->
  dv4h (fun e => SE3_act4 (X e) P)
       (vadd (vscale (snd P) (fst d)) (mvmul (skew (vneg (fst (SE3_act4 (X 0) P)))) (snd d)), 0).
Proof. exact SE3_act4_dX_curve. Qed.
Theorem C04_SE3_Act4_dp_curve : forall (X : se3R) (P : R -> vec4R) P', unitq (snd X) -> dv4h P P' ->
  dv4h (fun e => SE3_act4 X (P e)) (vadd (mvmul (SO3_Adj (snd X)) (fst P')) (vscale (snd P') (fst X)), snd P').
Proof. exact SE3_act4_dp_curve. Qed.
Theorem C04_RxSO3_Act4_dX_curve : forall (X : R -> rxso3R) (P : vec4R) d, unitq (fst (X 0)) -> drx X (tanRxSO3 d (X 0)) ->
  dv4h (fun e => RxSO3_act4 (X e) P)
       (vadd (mvmul (skew (vneg (fst (RxSO3_act4 (X 0) P)))) (fst d)) (vscale (snd d) (fst (RxSO3_act4 (X 0) P))), 0).
Proof. exact RxSO3_act4_dX_curve. Qed.
Theorem C04_RxSO3_Act4_dp_curve : forall (X : rxso3R) (P : R -> vec4R) P', unitq (fst X) -> dv4h P P' ->
  dv4h (fun e => RxSO3_act4 X (P e)) (mvmul (mscale3 (snd X) (SO3_Adj (fst X))) (fst P'), snd P').
Proof. exact RxSO3_act4_dp_curve. Qed.
Theorem C04_Sim3_Act4_dX_curve : forall (X : R -> sim3R) (P : vec4R) d, unitq (fst (snd (X 0))) -> dsim3 X (tanSim3 d (X 0)) ->
  dv4h (fun e => Sim3_act4 (X e) P)
       (vadd (vadd (vscale (snd P) (fst (fst d))) (mvmul (skew (vneg (fst (Sim3_act4 (X 0) P)))) (snd (fst d))))
             (vscale (snd d) (fst (Sim3_act4 (X 0) P))), 0).
Proof. exact Sim3_act4_dX_curve. Qed.
Theorem C04_Sim3_Act4_dp_curve : forall (X : sim3R) (P : R -> vec4R) P', unitq (fst (snd X)) -> dv4h P P' ->
  dv4h (fun e => Sim3_act4 X (P e))
       (vadd (mvmul (mscale3 (snd (snd X)) (SO3_Adj (fst (snd X)))) (fst P')) (vscale (snd P') (fst X)), snd P').
Proof. exact Sim3_act4_dp_curve. Qed.
(* the perturbation curves themselves are such curves *)
Theorem C04_perturbation_curves :
  (forall d X, dq4 (pertSO3 d X) (tanSO3 d (pertSO3 d X 0))) /\ (forall d X, dse3 (pertSE3 d X) (tanSE3 d (pertSE3 d X 0))) /\
  (forall d X, drx (pertRxSO3 d X) (tanRxSO3 d (pertRxSO3 d X 0))) /\ (forall d X, dsim3 (pertSim3 d X) (tanSim3 d (pertSim3 d X 0))).
Proof. split; [exact pertSO3_curve | split; [exact pertSE3_curve | split; [exact pertRxSO3_curve | exact pertSim3_curve]]]. Qed.

(* ======================= Exp and Log ======================= *)
(* so3_Exp.backward multiplies by so3_Jl(x): d/dh Exp(x + h dl) at 0 is the left perturbation of Exp(x) by Jl(x) dl *)
Theorem C04_so3_Exp_dx : forall (eps : R) (x dl : vec3R) i, 0 <= eps -> eps < vnorm x ->
  is_derive (fun h => qc i (so3_exp eps (vadd x (vscale h dl)))) 0
            (qc i (tanSO3 (mvmul (so3_Jl eps x) dl) (so3_exp eps x))).
Proof. exact so3_exp_dx. Qed.
Theorem C04_so3_Exp_dx_zero : forall (eps : R) (dl : vec3R) i, 0 < eps ->
  is_derive (fun h => qc i (so3_exp eps (vadd vzero (vscale h dl)))) 0
            (qc i (tanSO3 (mvmul (so3_Jl eps vzero) dl) (so3_exp eps vzero))).
Proof. exact so3_exp_dx_zero. Qed.
Theorem C04_rxso3_Exp_dx : forall (eps : R) (x dl : v4) i, 0 <= eps -> eps < vnorm (fst x) ->
  is_derive (fun h => rxc i (rxso3_exp eps (v4add x (v4scale h dl)))) 0
            (rxc i (tanRxSO3 (mvmul (so3_Jl eps (fst x)) (fst dl), snd dl) (rxso3_exp eps x))).
Proof. exact rxso3_exp_dx. Qed.
(* se3_Exp.backward multiplies by se3_Jl(x) = [[Jl, Q], [0, Jl]], Q = calcQ(x) *)
Theorem C04_se3_Exp_dx : forall (eps : R) (x dl : v6) i, 0 <= eps -> eps < vnorm (snd x) ->
  is_derive (fun h => se3c i (se3_exp eps (v6add x (v6scale h dl)))) 0
    (se3c i (tanSE3 (vadd (mvmul (so3_Jl eps (snd x)) (fst dl)) (mvmul (calcQ eps (v6_l x)) (snd dl)),
                     mvmul (so3_Jl eps (snd x)) (snd dl)) (se3_exp eps x))).
Proof. exact se3_exp_dx. Qed.
(* SO3_Log.backward multiplies by so3_Jl_inv(output): principal closed-form branch (eps < |v|, eps < w) *)
Theorem C04_SO3_Log_dX : forall (eps : R) (X : quatR) d i, 0 <= eps -> unitq X ->
  eps < vnorm (qv X) -> eps < qw X -> eps < vnorm (SO3_log eps X) ->
  is_derive (fun e => vc i (SO3_log eps (pertSO3 d X e))) 0 (vc i (mvmul (so3_Jl_inv eps (SO3_log eps X)) d)).
Proof. exact SO3_log_dX. Qed.
Theorem C04_SO3_Log_dX_curve : forall (eps : R) (Q : R -> quatR) d, 0 <= eps -> unitq (Q 0) ->
  eps < vnorm (qv (Q 0)) -> eps < qw (Q 0) -> eps < vnorm (SO3_log eps (Q 0)) -> dq4 Q (tanSO3 d (Q 0)) ->
  dv3 (fun e => SO3_log eps (Q e)) (mvmul (so3_Jl_inv eps (SO3_log eps (Q 0))) d).
Proof. exact SO3_log_dX_curve. Qed.
Theorem C04_RxSO3_Log_dX_curve : forall (eps : R) (X : R -> rxso3R) d, 0 <= eps -> unitq (fst (X 0)) -> 0 < snd (X 0) ->
  eps < vnorm (qv (fst (X 0))) -> eps < qw (fst (X 0)) -> eps < vnorm (SO3_log eps (fst (X 0))) ->
  drx X (tanRxSO3 d (X 0)) ->
  dv4 (fun e => RxSO3_log eps (X e)) (mvmul (so3_Jl_inv eps (fst (RxSO3_log eps (X 0)))) (fst d), snd d).
Proof. exact RxSO3_log_dX_curve. Qed.
Theorem C04_Log_hypotheses_satisfiable : let eps := 1 / 1000 in let X : quatR := ((3/5, 0, 0), 4/5) in
  0 <= eps /\ unitq X /\ eps < vnorm (qv X) /\ eps < qw X /\ eps < vnorm (SO3_log eps X).
Proof. exact SO3_log_hyps_example. Qed.

(* ======================= the per-op statements compose: two composite programs ======================= *)
Theorem C04_SO3_Mul_dX_curve : forall (Q : R -> quatR) (Y : quatR) d, dq4 Q (tanSO3 d (Q 0)) ->
  dq4 (fun e => SO3_mul (Q e) Y) (tanSO3 d (SO3_mul (Q 0) Y)).
Proof. exact SO3_mul_dX_curve. Qed.
Theorem C04_SO3_Mul_dY_curve : forall (X : quatR) (Q : R -> quatR) d, unitq X -> dq4 Q (tanSO3 d (Q 0)) ->
  dq4 (fun e => SO3_mul X (Q e)) (tanSO3 (mvmul (SO3_Adj X) d) (SO3_mul X (Q 0))).
Proof. exact SO3_mul_dY_curve. Qed.
Theorem C04_SO3_Inv_curve : forall (Q : R -> quatR) d, unitq (Q 0) -> dq4 Q (tanSO3 d (Q 0)) ->
  dq4 (fun e => SO3_inv (Q e)) (tanSO3 (vneg (mvmul (SO3_Adj (SO3_inv (Q 0))) d)) (SO3_inv (Q 0))).
Proof. exact SO3_inv_curve. Qed.
(* Retr(X, a) = Exp(a) @ X on SO3: gradient w.r.t. a is Jl(a), w.r.t. X it is Adj(Exp a) *)
Theorem C04_SO3_Retr_da : forall (eps : R) (X : quatR) (a da : vec3R) i, 0 <= eps -> eps < vnorm a ->
  is_derive (fun h => qc i (SO3_mul (so3_exp eps (vadd a (vscale h da))) X)) 0
            (qc i (tanSO3 (mvmul (so3_Jl eps a) da) (SO3_mul (so3_exp eps a) X))).
Proof. exact SO3_retr_da. Qed.
Theorem C04_SO3_Retr_dX : forall (eps : R) (X : quatR) (a d : vec3R) i, 0 <= eps -> eps < vnorm a ->
  is_derive (fun e => qc i (SO3_mul (so3_exp eps a) (pertSO3 d X e))) 0
            (qc i (tanSO3 (mvmul (SO3_Adj (so3_exp eps a)) d) (SO3_mul (so3_exp eps a) X))).
Proof. exact SO3_retr_dX. Qed.
(* X |-> Act(Inv(X) @ Y, p) on SE3: L = act_jac(out) . I . (-Adj(X^-1)) *)
Theorem C04_SE3_composite_inv_mul_act : forall (X : R -> se3R) (Y : se3R) p d,
  unitq (snd (X 0)) -> unitq (snd Y) -> dse3 X (tanSE3 d (X 0)) ->
  let d1 := v6neg (SE3_AdjXa (SE3_inv (X 0)) d) in
  let out := SE3_act (SE3_mul (SE3_inv (X 0)) Y) p in
  dv3 (fun e => SE3_act (SE3_mul (SE3_inv (X e)) Y) p) (vadd (fst d1) (mvmul (skew (vneg out)) (snd d1))).
Proof. exact SE3_inv_mul_act_dX. Qed.

(* ======================= every modelled backward is the transpose of L ======================= *)
Theorem C04_backward_transpose_SO3 :
  (forall X gz d : list R, length X = 4%nat -> length gz = 4%nat -> length d = 3%nat ->
     ldot (firstn 3 (fst (mul_bwd 0 X gz))) d = ldot (firstn 3 gz) d) /\
  (forall X gz d : list R, length X = 4%nat -> length gz = 4%nat -> length d = 3%nat ->
     ldot (firstn 3 (snd (mul_bwd 0 X gz))) d = ldot (firstn 3 gz) (v3_l (SO3_AdjXa (l_q X) (l_v3 d)))) /\
  (forall X gz d : list R, length X = 4%nat -> length gz = 4%nat -> length d = 3%nat ->
     ldot (firstn 3 (inv_bwd 0 X gz)) d = ldot (firstn 3 gz) (v3_l (vneg (SO3_AdjXa (l_q X) (l_v3 d))))) /\
  (forall X o gp d : list R, length X = 4%nat -> length o = 3%nat -> length gp = 3%nat -> length d = 3%nat ->
     ldot (firstn 3 (fst (act_bwd 0 X o gp))) d = ldot gp (v3_l (mvmul (skew (vneg (l_v3 o))) (l_v3 d)))) /\
  (forall X o gp d : list R, length X = 4%nat -> length o = 3%nat -> length gp = 3%nat -> length d = 3%nat ->
     ldot (snd (act_bwd 0 X o gp)) d = ldot gp (v3_l (mvmul (SO3_Adj (l_q X)) (l_v3 d)))) /\
  (forall X o gp d : list R, length X = 4%nat -> length o = 4%nat -> length gp = 4%nat -> length d = 3%nat ->
     ldot (firstn 3 (fst (act4_bwd 0 X o gp))) d = ldot gp (v3_l (mvmul (skew (vneg (l_v3 o))) (l_v3 d)) ++ [0])) /\
  (forall X o gp d : list R, length X = 4%nat -> length o = 4%nat -> length gp = 4%nat -> length d = 4%nat ->
     ldot (snd (act4_bwd 0 X o gp)) d = ldot gp (v3_l (vadd (mvmul (SO3_Adj (l_q X)) (l_v3 d)) (vscale (nth 3 d 0) (vzero))) ++ [nth 3 d 0])) /\
  (forall X o gz d : list R, length X = 4%nat -> length o = 3%nat -> length gz = 3%nat -> length d = 3%nat ->
     ldot (firstn 3 (fst (adj_bwd 0 X o gz))) d = ldot gz (v3_l (vneg (vcross (l_v3 o) (l_v3 d))))) /\
  (forall X o gz d : list R, length X = 4%nat -> length o = 3%nat -> length gz = 3%nat -> length d = 3%nat ->
     ldot (snd (adj_bwd 0 X o gz)) d = ldot gz (v3_l (SO3_AdjXa (l_q X) (l_v3 d)))) /\
  (forall X a gz d : list R, length X = 4%nat -> length a = 3%nat -> length gz = 3%nat -> length d = 3%nat ->
     ldot (firstn 3 (fst (adjT_bwd 0 X a gz))) d = ldot gz (v3_l (SO3_AdjTXa (l_q X) (vcross (l_v3 a) (l_v3 d))))) /\
  (forall X a gz d : list R, length X = 4%nat -> length a = 3%nat -> length gz = 3%nat -> length d = 3%nat ->
     ldot (snd (adjT_bwd 0 X a gz)) d = ldot gz (v3_l (SO3_AdjTXa (l_q X) (l_v3 d)))).
Proof. repeat split; [exact mul_bwd_SO3_X | exact mul_bwd_SO3_Y | exact inv_bwd_SO3 | exact act_bwd_SO3_X | exact act_bwd_SO3_p | exact act4_bwd_SO3_X | exact act4_bwd_SO3_p | exact adj_bwd_SO3_X | exact adj_bwd_SO3_a | exact adjT_bwd_SO3_X | exact adjT_bwd_SO3_a]. Qed.
Theorem C04_backward_transpose_SE3 :
  (forall X gz d : list R, length X = 7%nat -> length gz = 7%nat -> length d = 6%nat ->
     ldot (firstn 6 (fst (mul_bwd 1 X gz))) d = ldot (firstn 6 gz) d) /\
  (forall X gz d : list R, length X = 7%nat -> length gz = 7%nat -> length d = 6%nat ->
     ldot (firstn 6 (snd (mul_bwd 1 X gz))) d = ldot (firstn 6 gz) (v6_l (SE3_AdjXa (l_SE3 X) (l_pair3 d)))) /\
  (forall X gz d : list R, length X = 7%nat -> length gz = 7%nat -> length d = 6%nat ->
     ldot (firstn 6 (inv_bwd 1 X gz)) d = ldot (firstn 6 gz) (v6_l (v6neg (SE3_AdjXa (l_SE3 X) (l_pair3 d))))) /\
  (forall X o gp d : list R, length X = 7%nat -> length o = 3%nat -> length gp = 3%nat -> length d = 6%nat ->
     ldot (firstn 6 (fst (act_bwd 1 X o gp))) d = ldot gp (v3_l (vadd (fst (l_pair3 d)) (mvmul (skew (vneg (l_v3 o))) (snd (l_pair3 d)))))) /\
  (forall X o gp d : list R, length X = 7%nat -> length o = 3%nat -> length gp = 3%nat -> length d = 3%nat ->
     ldot (snd (act_bwd 1 X o gp)) d = ldot gp (v3_l (mvmul (SO3_Adj (snd (l_SE3 X))) (l_v3 d)))) /\
  (forall X o gp d : list R, length X = 7%nat -> length o = 4%nat -> length gp = 4%nat -> length d = 6%nat ->
     ldot (firstn 6 (fst (act4_bwd 1 X o gp))) d = ldot gp (v3_l (vadd (vscale (nth 3 o 0) (fst (l_pair3 d))) (mvmul (skew (vneg (l_v3 o))) (snd (l_pair3 d)))) ++ [0])) /\
  (forall X o gp d : list R, length X = 7%nat -> length o = 4%nat -> length gp = 4%nat -> length d = 4%nat ->
     ldot (snd (act4_bwd 1 X o gp)) d = ldot gp (v3_l (vadd (mvmul (SO3_Adj (snd (l_SE3 X))) (l_v3 d)) (vscale (nth 3 d 0) (fst (l_SE3 X)))) ++ [nth 3 d 0])) /\
  (forall X o gz d : list R, length X = 7%nat -> length o = 6%nat -> length gz = 6%nat -> length d = 6%nat ->
     ldot (firstn 6 (fst (adj_bwd 1 X o gz))) d = ldot gz (v6_l (v6neg (se3_ad (l_pair3 o) (l_pair3 d))))) /\
  (forall X o gz d : list R, length X = 7%nat -> length o = 6%nat -> length gz = 6%nat -> length d = 6%nat ->
     ldot (snd (adj_bwd 1 X o gz)) d = ldot gz (v6_l (SE3_AdjXa (l_SE3 X) (l_pair3 d)))) /\
  (forall X a gz d : list R, length X = 7%nat -> length a = 6%nat -> length gz = 6%nat -> length d = 6%nat ->
     ldot (firstn 6 (fst (adjT_bwd 1 X a gz))) d = ldot gz (v6_l (SE3_AdjTXa (l_SE3 X) (se3_ad (l_pair3 a) (l_pair3 d))))) /\
  (forall X a gz d : list R, length X = 7%nat -> length a = 6%nat -> length gz = 6%nat -> length d = 6%nat ->
     ldot (snd (adjT_bwd 1 X a gz)) d = ldot gz (v6_l (SE3_AdjTXa (l_SE3 X) (l_pair3 d)))).
Proof. repeat split; [exact mul_bwd_SE3_X | exact mul_bwd_SE3_Y | exact inv_bwd_SE3 | exact act_bwd_SE3_X | exact act_bwd_SE3_p | exact act4_bwd_SE3_X | exact act4_bwd_SE3_p | exact adj_bwd_SE3_X | exact adj_bwd_SE3_a | exact adjT_bwd_SE3_X | exact adjT_bwd_SE3_a]. Qed.
Theorem C04_backward_transpose_RxSO3 :
  (forall X gz d : list R, length X = 5%nat -> length gz = 5%nat -> length d = 4%nat ->
     ldot (firstn 4 (fst (mul_bwd 2 X gz))) d = ldot (firstn 4 gz) d) /\
  (forall X gz d : list R, length X = 5%nat -> length gz = 5%nat -> length d = 4%nat ->
     ldot (firstn 4 (snd (mul_bwd 2 X gz))) d = ldot (firstn 4 gz) (v4_l (RxSO3_AdjXa (l_RxSO3 X) (l_v4a d)))) /\
  (forall X gz d : list R, length X = 5%nat -> length gz = 5%nat -> length d = 4%nat ->
     ldot (firstn 4 (inv_bwd 2 X gz)) d = ldot (firstn 4 gz) (v4_l (v4neg (RxSO3_AdjXa (l_RxSO3 X) (l_v4a d))))) /\
  (forall X o gp d : list R, length X = 5%nat -> length o = 3%nat -> length gp = 3%nat -> length d = 4%nat ->
     ldot (firstn 4 (fst (act_bwd 2 X o gp))) d = ldot gp (v3_l (vadd (mvmul (skew (vneg (l_v3 o))) (fst (l_v4a d))) (vscale (snd (l_v4a d)) (l_v3 o))))) /\
  (forall X o gp d : list R, length X = 5%nat -> length o = 3%nat -> length gp = 3%nat -> length d = 3%nat ->
     ldot (snd (act_bwd 2 X o gp)) d = ldot gp (v3_l (mvmul (mscale3 (snd (l_RxSO3 X)) (SO3_Adj (fst (l_RxSO3 X)))) (l_v3 d)))) /\
  (forall X o gp d : list R, length X = 5%nat -> length o = 4%nat -> length gp = 4%nat -> length d = 4%nat ->
     ldot (firstn 4 (fst (act4_bwd 2 X o gp))) d = ldot gp (v3_l (vadd (mvmul (skew (vneg (l_v3 o))) (fst (l_v4a d))) (vscale (snd (l_v4a d)) (l_v3 o))) ++ [0])) /\
  (forall X o gp d : list R, length X = 5%nat -> length o = 4%nat -> length gp = 4%nat -> length d = 4%nat ->
     ldot (snd (act4_bwd 2 X o gp)) d = ldot gp (v3_l (vadd (mvmul (mscale3 (snd (l_RxSO3 X)) (SO3_Adj (fst (l_RxSO3 X)))) (l_v3 d)) (vscale (nth 3 d 0) (vzero))) ++ [nth 3 d 0])) /\
  (forall X o gz d : list R, length X = 5%nat -> length o = 4%nat -> length gz = 4%nat -> length d = 4%nat ->
     ldot (firstn 4 (fst (adj_bwd 2 X o gz))) d = ldot gz (v4_l (v4neg (rxso3_ad (l_v4a o) (l_v4a d))))) /\
  (forall X o gz d : list R, length X = 5%nat -> length o = 4%nat -> length gz = 4%nat -> length d = 4%nat ->
     ldot (snd (adj_bwd 2 X o gz)) d = ldot gz (v4_l (RxSO3_AdjXa (l_RxSO3 X) (l_v4a d)))) /\
  (forall X a gz d : list R, length X = 5%nat -> length a = 4%nat -> length gz = 4%nat -> length d = 4%nat ->
     ldot (firstn 4 (fst (adjT_bwd 2 X a gz))) d = ldot gz (v4_l (RxSO3_AdjTXa (l_RxSO3 X) (rxso3_ad (l_v4a a) (l_v4a d))))) /\
  (forall X a gz d : list R, length X = 5%nat -> length a = 4%nat -> length gz = 4%nat -> length d = 4%nat ->
     ldot (snd (adjT_bwd 2 X a gz)) d = ldot gz (v4_l (RxSO3_AdjTXa (l_RxSO3 X) (l_v4a d)))).
Proof. repeat split; [exact mul_bwd_RxSO3_X | exact mul_bwd_RxSO3_Y | exact inv_bwd_RxSO3 | exact act_bwd_RxSO3_X | exact act_bwd_RxSO3_p | exact act4_bwd_RxSO3_X | exact act4_bwd_RxSO3_p | exact adj_bwd_RxSO3_X | exact adj_bwd_RxSO3_a | exact adjT_bwd_RxSO3_X | exact adjT_bwd_RxSO3_a]. Qed.
Theorem C04_backward_transpose_Sim3 :
  (forall X gz d : list R, length X = 8%nat -> length gz = 8%nat -> length d = 7%nat ->
     ldot (firstn 7 (fst (mul_bwd 3 X gz))) d = ldot (firstn 7 gz) d) /\
  (forall X gz d : list R, length X = 8%nat -> length gz = 8%nat -> length d = 7%nat ->
     ldot (firstn 7 (snd (mul_bwd 3 X gz))) d = ldot (firstn 7 gz) (v7_l (Sim3_AdjXa (l_Sim3 X) (l_v7 d)))) /\
  (forall X gz d : list R, length X = 8%nat -> length gz = 8%nat -> length d = 7%nat ->
     ldot (firstn 7 (inv_bwd 3 X gz)) d = ldot (firstn 7 gz) (v7_l (v7neg (Sim3_AdjXa (l_Sim3 X) (l_v7 d))))) /\
  (forall X o gp d : list R, length X = 8%nat -> length o = 3%nat -> length gp = 3%nat -> length d = 7%nat ->
     ldot (firstn 7 (fst (act_bwd 3 X o gp))) d = ldot gp (v3_l (vadd (vadd (fst (fst (l_v7 d))) (mvmul (skew (vneg (l_v3 o))) (snd (fst (l_v7 d))))) (vscale (snd (l_v7 d)) (l_v3 o))))) /\
  (forall X o gp d : list R, length X = 8%nat -> length o = 3%nat -> length gp = 3%nat -> length d = 3%nat ->
     ldot (snd (act_bwd 3 X o gp)) d = ldot gp (v3_l (mvmul (mscale3 (snd (snd (l_Sim3 X))) (SO3_Adj (fst (snd (l_Sim3 X))))) (l_v3 d)))) /\
  (forall X o gp d : list R, length X = 8%nat -> length o = 4%nat -> length gp = 4%nat -> length d = 7%nat ->
     ldot (firstn 7 (fst (act4_bwd 3 X o gp))) d = ldot gp (v3_l (vadd (vadd (vscale (nth 3 o 0) (fst (fst (l_v7 d)))) (mvmul (skew (vneg (l_v3 o))) (snd (fst (l_v7 d))))) (vscale (snd (l_v7 d)) (l_v3 o))) ++ [0])) /\
  (forall X o gp d : list R, length X = 8%nat -> length o = 4%nat -> length gp = 4%nat -> length d = 4%nat ->
     ldot (snd (act4_bwd 3 X o gp)) d = ldot gp (v3_l (vadd (mvmul (mscale3 (snd (snd (l_Sim3 X))) (SO3_Adj (fst (snd (l_Sim3 X))))) (l_v3 d)) (vscale (nth 3 d 0) (fst (l_Sim3 X)))) ++ [nth 3 d 0])) /\
  (forall X o gz d : list R, length X = 8%nat -> length o = 7%nat -> length gz = 7%nat -> length d = 7%nat ->
     ldot (firstn 7 (fst (adj_bwd 3 X o gz))) d = ldot gz (v7_l (v7neg (sim3_ad (l_v7 o) (l_v7 d))))) /\
  (forall X o gz d : list R, length X = 8%nat -> length o = 7%nat -> length gz = 7%nat -> length d = 7%nat ->
     ldot (snd (adj_bwd 3 X o gz)) d = ldot gz (v7_l (Sim3_AdjXa (l_Sim3 X) (l_v7 d)))) /\
  (forall X a gz d : list R, length X = 8%nat -> length a = 7%nat -> length gz = 7%nat -> length d = 7%nat ->
     ldot (firstn 7 (fst (adjT_bwd 3 X a gz))) d = ldot gz (v7_l (Sim3_AdjTXa (l_Sim3 X) (sim3_ad (l_v7 a) (l_v7 d))))) /\
  (forall X a gz d : list R, length X = 8%nat -> length a = 7%nat -> length gz = 7%nat -> length d = 7%nat ->
     ldot (snd (adjT_bwd 3 X a gz)) d = ldot gz (v7_l (Sim3_AdjTXa (l_Sim3 X) (l_v7 d)))).
Proof. repeat split; [exact mul_bwd_Sim3_X | exact mul_bwd_Sim3_Y | exact inv_bwd_Sim3 | exact act_bwd_Sim3_X | exact act_bwd_Sim3_p | exact act4_bwd_Sim3_X | exact act4_bwd_Sim3_p | exact adj_bwd_Sim3_X | exact adj_bwd_Sim3_a | exact adjT_bwd_Sim3_X | exact adjT_bwd_Sim3_a]. Qed.

(* the list-level matrices of Model/LieJac.v applied to a vector are the tuple-level maps L used above *)
Theorem C04_list_matrices_are_L_groups :
  (forall (X : se3R) (d : list R), length d = 6%nat -> lmv (SE3_AdjM X) d = v6_l (SE3_AdjXa X (l_pair3 d))) /\
  (forall x d : list R, length d = 6%nat -> lmv (se3_adjM x) d = v6_l (se3_ad (l_pair3 x) (l_pair3 d))) /\
  (forall (X : rxso3R) (d : list R), length d = 4%nat -> lmv (RxSO3_AdjM X) d = v4_l (RxSO3_AdjXa X (l_v4a d))) /\
  (forall x d : list R, length d = 4%nat -> lmv (rxso3_adjM x) d = v4_l (rxso3_ad (l_v4a x) (l_v4a d))) /\
  (forall (X : sim3R) (d : list R), length d = 7%nat -> lmv (Sim3_AdjM X) d = v7_l (Sim3_AdjXa X (l_v7 d))) /\
  (forall x d : list R, length d = 7%nat -> lmv (sim3_adjM x) d = v7_l (sim3_ad (l_v7 x) (l_v7 d))).
Proof.
  split; [exact SE3_AdjM_is_Adj | split; [exact se3_adjM_is_ad | split; [exact RxSO3_AdjM_is_Adj | split; [exact rxso3_adjM_is_ad |
  split; [exact Sim3_AdjM_is_Adj | exact sim3_adjM_is_ad]]]]].
Qed.

Print Assumptions C04_exp_near_zero_is_model. Print Assumptions C04_SO3_perturbation. Print Assumptions C04_SE3_perturbation.
Print Assumptions C04_SO3_Mul_dX. Print Assumptions C04_SO3_Mul_dY. Print Assumptions C04_SO3_Inv.
Print Assumptions C04_SO3_Act_dX. Print Assumptions C04_SO3_Act_dp. Print Assumptions C04_SO3_Adj_dX. Print Assumptions C04_SO3_Adj_da.
Print Assumptions C04_SE3_Act_dX. Print Assumptions C04_SE3_Act_dp. Print Assumptions C04_SE3_Mul_dX. Print Assumptions C04_SE3_AdjT_old_refuted. Print Assumptions C04_backward_is_transpose. Print Assumptions C04_list_matrices_are_L.
Print Assumptions C04_SO3_AdjT_dX.
Print Assumptions C04_SO3_AdjT_da.
Print Assumptions C04_SO3_AdjT_dX_curve.
Print Assumptions C04_SE3_perturbation_start.
Print Assumptions C04_SE3_Mul_dY.
Print Assumptions C04_SE3_Inv.
Print Assumptions C04_SE3_Adj_dX.
Print Assumptions C04_SE3_Adj_da.
Print Assumptions C04_SE3_AdjT_dX.
Print Assumptions C04_SE3_AdjT_da.
Print Assumptions C04_SE3_Mul_dX_curve.
Print Assumptions C04_SE3_Mul_dY_curve.
Print Assumptions C04_SE3_Inv_curve.
Print Assumptions C04_SE3_Adj_dX_curve.
Print Assumptions C04_SE3_Adj_da_curve.
Print Assumptions C04_SE3_AdjT_dX_curve.
Print Assumptions C04_SE3_AdjT_da_curve.
Print Assumptions C04_curve_predicates.
Print Assumptions C04_RxSO3_exp_near_zero_is_model.
Print Assumptions C04_RxSO3_perturbation.
Print Assumptions C04_RxSO3_Mul_dX.
Print Assumptions C04_RxSO3_Mul_dY.
Print Assumptions C04_RxSO3_Inv.
Print Assumptions C04_RxSO3_Act_dX.
Print Assumptions C04_RxSO3_Act_dp.
Print Assumptions C04_RxSO3_Adj_dX.
Print Assumptions C04_RxSO3_Adj_da.
Print Assumptions C04_RxSO3_AdjT_dX.
Print Assumptions C04_RxSO3_AdjT_da.
Print Assumptions C04_RxSO3_Mul_dX_curve.
Print Assumptions C04_RxSO3_Mul_dY_curve.
Print Assumptions C04_RxSO3_Inv_curve.
Print Assumptions C04_RxSO3_Act_dX_curve.
Print Assumptions C04_RxSO3_Act_dp_curve.
Print Assumptions C04_RxSO3_Adj_dX_curve.
Print Assumptions C04_RxSO3_AdjT_dX_curve.
Print Assumptions C04_Sim3_exp_near_zero_is_model.
Print Assumptions C04_Sim3_perturbation.
Print Assumptions C04_Sim3_Mul_dX.
Print Assumptions C04_Sim3_Mul_dY.
Print Assumptions C04_Sim3_Inv.
Print Assumptions C04_Sim3_Act_dX.
Print Assumptions C04_Sim3_Act_dp.
Print Assumptions C04_Sim3_Adj_dX.
Print Assumptions C04_Sim3_Adj_da.
Print Assumptions C04_Sim3_AdjT_dX.
Print Assumptions C04_Sim3_AdjT_da.
Print Assumptions C04_Sim3_Mul_dX_curve.
Print Assumptions C04_Sim3_Mul_dY_curve.
Print Assumptions C04_Sim3_Inv_curve.
Print Assumptions C04_Sim3_Act_dX_curve.
Print Assumptions C04_Sim3_Act_dp_curve.
Print Assumptions C04_Sim3_Adj_dX_curve.
Print Assumptions C04_Sim3_AdjT_dX_curve.
Print Assumptions C04_Sim3_hypotheses_satisfiable.
Print Assumptions C04_SO3_Act_dX_curve.
Print Assumptions C04_SO3_Act_dp_curve.
Print Assumptions C04_SE3_Act_dX_curve.
Print Assumptions C04_SE3_Act_dp_curve.
Print Assumptions C04_SO3_Act4_dX_curve.
Print Assumptions C04_SO3_Act4_dp_curve.
Print Assumptions C04_SE3_Act4_dX_curve.
Print Assumptions C04_SE3_Act4_dp_curve.
Print Assumptions C04_RxSO3_Act4_dX_curve.
Print Assumptions C04_RxSO3_Act4_dp_curve.
Print Assumptions C04_Sim3_Act4_dX_curve.
Print Assumptions C04_Sim3_Act4_dp_curve.
Print Assumptions C04_perturbation_curves.
Print Assumptions C04_so3_Exp_dx.
Print Assumptions C04_so3_Exp_dx_zero.
Print Assumptions C04_rxso3_Exp_dx.
Print Assumptions C04_se3_Exp_dx.
Print Assumptions C04_SO3_Log_dX.
Print Assumptions C04_SO3_Log_dX_curve.
Print Assumptions C04_RxSO3_Log_dX_curve.
Print Assumptions C04_Log_hypotheses_satisfiable.
Print Assumptions C04_backward_transpose_SO3.
Print Assumptions C04_backward_transpose_SE3.
Print Assumptions C04_backward_transpose_RxSO3.
Print Assumptions C04_backward_transpose_Sim3.
Print Assumptions C04_list_matrices_are_L_groups.
Print Assumptions C04_SO3_Mul_dX_curve.
Print Assumptions C04_SO3_Mul_dY_curve.
Print Assumptions C04_SO3_Inv_curve.
Print Assumptions C04_SO3_Retr_da.
Print Assumptions C04_SO3_Retr_dX.
Print Assumptions C04_SE3_composite_inv_mul_act.
