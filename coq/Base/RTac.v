(* Tactics for goals over R produced by unfolding the polymorphic models *)
From Coq Require Import Reals Lra Psatz.
From PV Require Import Base.Num.

Lemma pair_eq {A B} (a c : A) (b d : B) : a = c -> b = d -> (a, b) = (c, d).
Proof. intros -> ->. reflexivity. Qed.

(* unfold the Num R instance *)
Ltac num_unfold :=
  cbv [add sub mul div opp zero one ofZ two half frac NumR] in *.

Ltac split_pairs := repeat apply pair_eq.

(* destruct every hypothesis-free tuple variable of the context *)
Ltac destruct_tuples :=
  repeat match goal with
  | x : ?T |- _ =>
      let T' := eval hnf in T in
      match T' with (_ * _)%type => destruct x end
  end.

(* like num_unfold, but leaves occurrences of the instances that are mere arguments of model
   functions (e.g. [@vnorm R NumR TransR x]) untouched *)
Ltac num_simpl :=
  cbn [add sub mul div opp zero one ofZ two half frac tsqrt tsin tcos tatan texp tln tpi NumR TransR] in *.
