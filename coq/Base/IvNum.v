(* A third number instance for the polymorphic models: intervals of arbitrary-precision floats from
   the Interval library (every operation is the library's verified interval operation).  It lets
   vm_compute evaluate models containing sqrt / sin / cos / atan / exp / ln on concrete inputs with
   sharing preserved (no term blow-up), for the correspondence check.  The composition of the
   operations is NOT proved here to enclose the model over R: it is used for validation only.

   Comparisons: an interval comparison can be undecided (overlap); the two instances [NumIvT] /
   [NumIvF] resolve an undecided [a <? b] to true / false, the evaluator runs both. *)
From Coq Require Import ZArith List Bool.
From Interval Require Import Specific_bigint Specific_ops Float_full Xreal Interval Basic.
From PV Require Import Base.Num.
Import ListNotations.

Module IF := SpecificFloat BigIntRadix2.
Module II := FloatIntervalFull IF.
Definition iv := II.type.
Definition ivprec := IF.PtoP 256.

Definition ivZ (z : Z) : iv := II.fromZ ivprec z.
Definition ivq (n d : Z) : iv := II.div ivprec (ivZ n) (ivZ d).

(* tri-state comparison of intervals: Some true = certainly a < b, Some false = certainly b <= a *)
Definition iv_lt (a b : iv) : option bool :=
  match IF.cmp (II.upper a) (II.lower b) with
  | Xlt => Some true
  | _ => match IF.cmp (II.lower a) (II.upper b) with
         | Xgt | Xeq => Some false
         | _ => None
         end
  end.
Definition iv_le (a b : iv) : option bool :=
  match IF.cmp (II.upper a) (II.lower b) with
  | Xlt | Xeq => Some true
  | _ => match IF.cmp (II.lower a) (II.upper b) with
         | Xgt => Some false
         | _ => None
         end
  end.
Definition dflt (d : bool) (o : option bool) : bool := match o with Some b => b | None => d end.
Definition iv_eq (a b : iv) : option bool :=
  match iv_lt a b, iv_lt b a with
  | Some true, _ | _, Some true => Some false
  | _, _ => match IF.cmp (II.lower a) (II.upper a), IF.cmp (II.lower b) (II.upper b), IF.cmp (II.lower a) (II.lower b) with
            | Xeq, Xeq, Xeq => Some true       (* two identical point intervals *)
            | _, _, _ => None end
  end.

Definition mkNumIv (bias : bool) : Num iv := {|
  zero := ivZ 0; one := ivZ 1;
  add := II.add ivprec; sub := II.sub ivprec; mul := II.mul ivprec; div := II.div ivprec;
  opp := II.neg; ofZ := ivZ;
  ltb := fun a b => dflt bias (iv_lt a b);
  leb := fun a b => dflt bias (iv_le a b);
  eqb := fun a b => dflt bias (iv_eq a b) |}.
Definition NumIvT : Num iv := mkNumIv true.
Definition NumIvF : Num iv := mkNumIv false.
Definition TransIv : Trans iv := {|
  tsqrt := II.sqrt ivprec; tsin := II.sin ivprec; tcos := II.cos ivprec; tatan := II.atan ivprec;
  texp := II.exp ivprec; tln := II.ln ivprec; tpi := II.pi ivprec |}.

(* comparison of one model output with the implementation's value:
   0 = |model - impl| <= tol certainly, 1 = certainly > tol, 2 = undecided / not a number *)
Definition iv_check1 (m v tol : iv) : nat :=
  let d := II.abs (II.sub ivprec m v) in
  match IF.cmp (II.upper d) (II.lower tol) with
  | Xlt | Xeq => 0
  | _ => match IF.cmp (II.lower d) (II.upper tol) with
         | Xgt => 1
         | _ => 2
         end
  end.
Definition iv_nan : iv := Float.Inan.
Definition iv_check (r : list iv) (comps : list (nat * iv * iv)) : list nat :=
  map (fun c => match c with (i, v, tol) => iv_check1 (nth i r iv_nan) v tol end) comps.
(* a case is evaluated under both biases; codes are combined: both 0 -> 0; both 1 -> 1; else 2 *)
Definition comb (a b : nat) : nat := if Nat.eqb a b then a else 2.
Fixpoint comb_l (a b : list nat) : list nat :=
  match a, b with x :: a', y :: b' => comb x y :: comb_l a' b' | _, _ => [] end.
Definition worst (l : list nat) : nat := fold_left Nat.max l 0.
