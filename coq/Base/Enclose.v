(* Enclosure route of the correspondence check: goals of the form
     Rabs (model(inputs)_i - impl_i) <= tol_i   (conjunctions of them)
   are proved for concrete inputs by unfolding the model down to real arithmetic, deciding every
   comparison the model makes with [interval], and bounding the result with [interval]. *)
From Coq Require Import Reals Lra List ZArith.
From Interval Require Import Tactic.
From PV Require Import Base.Num.

(* unfold everything except real arithmetic *)
Ltac model_cbv :=
  cbv -[Rplus Rminus Rmult Rdiv Ropp Rinv Rabs Rle Rlt Rge Rgt sqrt sin cos tan atan exp ln PI IZR
        Rlt_dec Rle_dec Req_EM_T Rpower pow INR R0 R1 Rmax Rmin].

Ltac has_dec t :=
  match t with
  | context [Rlt_dec _ _] => idtac
  | context [Rle_dec _ _] => idtac
  | context [Req_EM_T _ _] => idtac
  end.

(* decide comparisons, inner-most first, with fresh names *)
Ltac decide_branches prec :=
  repeat (match goal with
  | |- context [Rlt_dec ?a ?b] =>
      tryif (first [has_dec a | has_dec b]) then fail else
      (let H := fresh "Hb" in destruct (Rlt_dec a b) as [H|H];
       [ try (exfalso; revert H; apply Rle_not_lt; interval with (i_prec prec))
       | try (exfalso; apply H; interval with (i_prec prec)) ])
  | |- context [Rle_dec ?a ?b] =>
      tryif (first [has_dec a | has_dec b]) then fail else
      (let H := fresh "Hb" in destruct (Rle_dec a b) as [H|H];
       [ try (exfalso; revert H; apply Rlt_not_le; interval with (i_prec prec))
       | try (exfalso; apply H; interval with (i_prec prec)) ])
  | |- context [Req_EM_T ?a ?b] =>
      tryif (first [has_dec a | has_dec b]) then fail else
      (let H := fresh "Hb" in destruct (Req_EM_T a b) as [H|H];
       [ try (exfalso; revert H; apply Rlt_not_eq; interval with (i_prec prec));
         try (exfalso; revert H; apply Rgt_not_eq; interval with (i_prec prec))
       | try (exfalso; apply H; lra) ])
  end; cbv iota beta).

Ltac enclose prec :=
  model_cbv; decide_branches prec;
  repeat match goal with |- _ /\ _ => split end;
  interval with (i_prec prec).
