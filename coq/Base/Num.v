(* Number classes: every model is written once against [Num] (field operations and
   comparisons) and, where needed, [Trans] (transcendental functions).  The same
   definition is reasoned about over R and executed over Q with vm_compute. *)
From Coq Require Import ZArith QArith Qreduction Reals Lra.
From Coq Require Export List Bool.
Export ListNotations.

Class Num (F : Type) := {
  zero : F; one : F;
  add : F -> F -> F; sub : F -> F -> F; mul : F -> F -> F; div : F -> F -> F;
  opp : F -> F;
  ofZ : Z -> F;
  ltb : F -> F -> bool; leb : F -> F -> bool; eqb : F -> F -> bool }.

Class Trans (F : Type) := {
  tsqrt : F -> F; tsin : F -> F; tcos : F -> F; tatan : F -> F;
  texp : F -> F; tln : F -> F; tpi : F }.

Declare Scope num_scope.
Delimit Scope num_scope with num.
Infix "+" := add : num_scope.
Infix "-" := sub : num_scope.
Infix "*" := mul : num_scope.
Infix "/" := div : num_scope.
Notation "- x" := (opp x) : num_scope.
Infix "<?" := ltb : num_scope.
Infix "<=?" := leb : num_scope.
Infix "=?" := eqb : num_scope.

(* ---------- R ---------- *)
Definition Rltb (a b : R) : bool := if Rlt_dec a b then true else false.
Definition Rleb (a b : R) : bool := if Rle_dec a b then true else false.
Definition Reqb (a b : R) : bool := if Req_EM_T a b then true else false.

Global Instance NumR : Num R := {|
  zero := 0%R; one := 1%R;
  add := Rplus; sub := Rminus; mul := Rmult; div := Rdiv; opp := Ropp;
  ofZ := IZR;
  ltb := Rltb; leb := Rleb; eqb := Reqb |}.

Global Instance TransR : Trans R := {|
  tsqrt := sqrt; tsin := sin; tcos := cos; tatan := atan; texp := exp; tln := ln; tpi := PI |}.

Lemma Rltb_true a b : Rltb a b = true <-> (a < b)%R.
Proof. unfold Rltb; destruct (Rlt_dec a b); split; auto; discriminate. Qed.
Lemma Rltb_false a b : Rltb a b = false <-> (b <= a)%R.
Proof. unfold Rltb; destruct (Rlt_dec a b); split; try discriminate; auto; lra. Qed.
Lemma Rleb_true a b : Rleb a b = true <-> (a <= b)%R.
Proof. unfold Rleb; destruct (Rle_dec a b); split; auto; discriminate. Qed.
Lemma Rleb_false a b : Rleb a b = false <-> (b < a)%R.
Proof. unfold Rleb; destruct (Rle_dec a b); split; try discriminate; auto; lra. Qed.
Lemma Reqb_true a b : Reqb a b = true <-> a = b.
Proof. unfold Reqb; destruct (Req_EM_T a b); split; auto; discriminate. Qed.
Lemma Reqb_false a b : Reqb a b = false <-> a <> b.
Proof. unfold Reqb; destruct (Req_EM_T a b); split; try discriminate; auto; contradiction. Qed.

(* ---------- Q (execution) ---------- *)
Definition Qltb (a b : Q) : bool := negb (Qle_bool b a).
Global Instance NumQ : Num Q := {|
  zero := 0%Q; one := 1%Q;
  add := fun a b => Qred (a + b); sub := fun a b => Qred (a - b);
  mul := fun a b => Qred (a * b); div := fun a b => Qred (a / b);
  opp := fun a => Qred (- a);
  ofZ := fun z => inject_Z z;
  ltb := Qltb; leb := Qle_bool; eqb := Qeq_bool |}.

(* ---------- Z (execution of integer-valued models) ---------- *)
Global Instance NumZ : Num Z := {|
  zero := 0%Z; one := 1%Z;
  add := Z.add; sub := Z.sub; mul := Z.mul; div := Z.div; opp := Z.opp;
  ofZ := fun z => z;
  ltb := Z.ltb; leb := Z.leb; eqb := Z.eqb |}.

(* constants used by several models *)
Section Consts.
Context {F : Type} {NF : Num F}.
Local Open Scope num_scope.
Definition two : F := ofZ 2.
Definition half : F := one / ofZ 2.
Definition frac (a b : Z) : F := ofZ a / ofZ b.
Definition absF (x : F) : F := if x <? zero then - x else x.
(* pypose.pm: +1 for x >= 0, -1 otherwise *)
Definition pm (x : F) : F := if x <? zero then - one else one.
Definition maxF (a b : F) : F := if a <? b then b else a.
Definition minF (a b : F) : F := if b <? a then b else a.
End Consts.

(* generic comparison of Q results with a tolerance-free equality *)
Definition Qlist_eqb (a b : list Q) : bool :=
  (Nat.eqb (length a) (length b)) && forallb (fun p => Qeq_bool (fst p) (snd p)) (combine a b).
