From Coq Require Import List Arith Lia.
Import ListNotations.

Lemma nth_skipn' {A} (d : A) : forall n (l : list A) i, nth i (skipn n l) d = nth (n + i) l d.
Proof.
  induction n as [|n IH]; intros l i; [reflexivity|].
  destruct l as [|x l]; [now destruct i|]. cbn. apply IH.
Qed.

Lemma nth_firstn' {A} (d : A) : forall n (l : list A) i, i < n -> nth i (firstn n l) d = nth i l d.
Proof.
  induction n as [|n IH]; intros l i Hi; [lia|].
  destruct l as [|x l]; [reflexivity|]. destruct i as [|i]; [reflexivity|]. cbn. apply IH. lia.
Qed.
