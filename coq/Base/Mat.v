(* Generic-dimension matrix algebra over lists (DESIGN.md 3.1).

   Matrices are [list (list F)] (list of rows), vectors [list F], over the [Num] class, so that
   the same definitions are executed over Q (vm_compute) and reasoned about over R.  Every
   operation is an explicit entry formula ([mkmat r c f], [mkvec n f], bounded sums [sumn]); all
   algebra over R is proved through entries + extensionality under the well-formedness predicate
   [wf r c M] (r rows, c columns, both positive).

   Part 1 (any F): definitions, shapes, entries, extensionality.
   Part 2 (R): bounded sums, matrix laws (associativity, transpose of a product, distributivity,
               identity), matrix-vector laws (adjoint, composition), quadratic forms, symmetric /
               PSD / PD, uniqueness of the inverse.
   Part 3 (any F, executable): Gauss-Jordan inverse [minv] and a Cholesky factor [mchol]
               parametrised by a square-root function (used by correspondence evaluators only). *)
From Coq Require Import ZArith QArith Reals Lra Lia List Arith.
From PV Require Import Base.Num.
Close Scope Q_scope.
Import ListNotations.

Section MatDefs.
Context {F : Type} {NF : Num F}.
Local Open Scope num_scope.

Definition mat := list (list F).

Fixpoint sumn (n : nat) (f : nat -> F) : F :=
  match n with O => zero | S k => sumn k f + f k end.

Definition vget (v : list F) (i : nat) : F := nth i v zero.
Definition mget (M : mat) (i j : nat) : F := nth j (nth i M []) zero.
Definition mrows (M : mat) : nat := length M.
Definition mcols (M : mat) : nat := match M with [] => O | r :: _ => length r end.

Definition mkvec (n : nat) (f : nat -> F) : list F := map f (seq 0 n).
Definition mkmat (r c : nat) (f : nat -> nat -> F) : mat := map (fun i => mkvec c (f i)) (seq 0 r).

(* matrices *)
Definition mmul (A B : mat) : mat :=
  mkmat (mrows A) (mcols B) (fun i j => sumn (mcols A) (fun k => mget A i k * mget B k j)).
Definition mtr (A : mat) : mat := mkmat (mcols A) (mrows A) (fun i j => mget A j i).
Definition madd (A B : mat) : mat := mkmat (mrows A) (mcols A) (fun i j => mget A i j + mget B i j).
Definition msub (A B : mat) : mat := mkmat (mrows A) (mcols A) (fun i j => mget A i j - mget B i j).
Definition mscale (a : F) (A : mat) : mat := mkmat (mrows A) (mcols A) (fun i j => a * mget A i j).
Definition mid (n : nat) : mat := mkmat n n (fun i j => if Nat.eqb i j then one else zero).
Definition mzero (r c : nat) : mat := mkmat r c (fun _ _ => zero).
(* scale row i by w_i  ( = diag(w) * A ) *)
Definition rowscale (w : list F) (A : mat) : mat :=
  mkmat (mrows A) (mcols A) (fun i j => vget w i * mget A i j).

(* vectors *)
Definition mapply (A : mat) (v : list F) : list F :=
  mkvec (mrows A) (fun i => sumn (mcols A) (fun k => mget A i k * vget v k)).
Definition vdot (u v : list F) : F := sumn (length u) (fun k => vget u k * vget v k).
Definition vplus (u v : list F) : list F := mkvec (length u) (fun i => vget u i + vget v i).
Definition vminus (u v : list F) : list F := mkvec (length u) (fun i => vget u i - vget v i).
Definition vscal (a : F) (v : list F) : list F := mkvec (length v) (fun i => a * vget v i).
Definition vzero (n : nat) : list F := mkvec n (fun _ => zero).
Definition outer (u v : list F) : mat := mkmat (length u) (length v) (fun i j => vget u i * vget v j).
(* sum_i w_i * row_i  (weighted sum of the rows of A) *)
Definition wsum_rows (w : list F) (A : mat) : list F :=
  mkvec (mcols A) (fun j => sumn (mrows A) (fun i => vget w i * mget A i j)).
(* every row minus / plus a vector *)
Definition rows_of (r : nat) (f : nat -> list F) : mat := map f (seq 0 r).

Definition qform (M : mat) (x : list F) : F := vdot x (mapply M x).

Definition wf (r c : nat) (M : mat) : Prop :=
  (0 < r)%nat /\ (0 < c)%nat /\ length M = r /\ Forall (fun row => length row = c) M.

Definition msym (M : mat) : Prop := mtr M = M.

(* ---------- shapes and entries (any F) ---------- *)
Lemma length_mkvec n f : length (mkvec n f) = n.
Proof. unfold mkvec. now rewrite map_length, seq_length. Qed.

Lemma nth_mkvec n f i d : (i < n)%nat -> nth i (mkvec n f) d = f i.
Proof.
  intros Hi. unfold mkvec.
  rewrite (nth_indep _ d (f 0%nat)) by (now rewrite map_length, seq_length).
  rewrite map_nth. now rewrite seq_nth.
Qed.

Lemma vget_mkvec n f i : (i < n)%nat -> vget (mkvec n f) i = f i.
Proof. apply nth_mkvec. Qed.

Lemma mrows_mkmat r c f : mrows (mkmat r c f) = r.
Proof. unfold mrows, mkmat. now rewrite map_length, seq_length. Qed.

Lemma mcols_mkmat r c f : (0 < r)%nat -> mcols (mkmat r c f) = c.
Proof. destruct r; [lia|]. intros _. unfold mkmat. cbn. apply length_mkvec. Qed.

Lemma mget_mkmat r c f i j : (i < r)%nat -> (j < c)%nat -> mget (mkmat r c f) i j = f i j.
Proof.
  intros Hi Hj. unfold mget, mkmat.
  rewrite (nth_indep _ [] (mkvec c (f 0%nat))) by (now rewrite map_length, seq_length).
  rewrite (map_nth (fun i => mkvec c (f i))). rewrite seq_nth by assumption. cbn.
  now apply nth_mkvec.
Qed.

Lemma wf_mkmat r c f : (0 < r)%nat -> (0 < c)%nat -> wf r c (mkmat r c f).
Proof.
  intros Hr Hc. repeat split; try assumption.
  - apply mrows_mkmat.
  - unfold mkmat. apply Forall_forall. intros row Hin. apply in_map_iff in Hin.
    destruct Hin as [i [<- _]]. apply length_mkvec.
Qed.

Lemma wf_rows r c M : wf r c M -> mrows M = r.
Proof. now intros (_ & _ & H & _). Qed.

Lemma wf_cols r c M : wf r c M -> mcols M = c.
Proof.
  intros (Hr & _ & Hl & Hf). destruct M as [|row M]; [cbn in Hl; lia|].
  cbn. now inversion Hf.
Qed.

Lemma wf_pos_r r c M : wf r c M -> (0 < r)%nat. Proof. now intros (H & _). Qed.
Lemma wf_pos_c r c M : wf r c M -> (0 < c)%nat. Proof. now intros (_ & H & _). Qed.

Lemma wf_row_length r c M i : wf r c M -> (i < r)%nat -> length (nth i M []) = c.
Proof.
  intros (_ & _ & Hl & Hf) Hi. rewrite Forall_forall in Hf. apply Hf. apply nth_In. lia.
Qed.

Lemma vec_ext n (u v : list F) :
  length u = n -> length v = n -> (forall i, (i < n)%nat -> vget u i = vget v i) -> u = v.
Proof.
  intros Hu Hv H. apply (nth_ext u v zero zero); [congruence|].
  intros i Hi. apply H. lia.
Qed.

Lemma mat_ext r c (A B : mat) :
  wf r c A -> wf r c B ->
  (forall i j, (i < r)%nat -> (j < c)%nat -> mget A i j = mget B i j) -> A = B.
Proof.
  intros HA HB H.
  apply (nth_ext A B [] []).
  - destruct HA as (_ & _ & -> & _). now destruct HB as (_ & _ & -> & _).
  - intros i Hi. assert (Hir : (i < r)%nat) by (destruct HA as (_ & _ & <- & _); exact Hi).
    apply (vec_ext c).
    + now apply (wf_row_length r c A).
    + now apply (wf_row_length r c B).
    + intros j Hj. apply (H i j Hir Hj).
Qed.

Lemma mkvec_ext n f g : (forall i, (i < n)%nat -> f i = g i) -> mkvec n f = mkvec n g.
Proof.
  intros H. unfold mkvec. apply map_ext_in. intros i Hi. apply in_seq in Hi. apply H. lia.
Qed.

Lemma mkmat_ext r c f g :
  (forall i j, (i < r)%nat -> (j < c)%nat -> f i j = g i j) -> mkmat r c f = mkmat r c g.
Proof.
  intros H. unfold mkmat. apply map_ext_in. intros i Hi. apply in_seq in Hi.
  apply mkvec_ext. intros j Hj. apply H; lia.
Qed.

Lemma mkmat_mget r c M : wf r c M -> mkmat r c (mget M) = M.
Proof.
  intros HM. apply (mat_ext r c); [apply wf_mkmat; [eapply wf_pos_r|eapply wf_pos_c]; eassumption | assumption |].
  intros i j Hi Hj. now apply mget_mkmat.
Qed.

(* shapes of the operations *)
Lemma wf_mmul n m p A B : wf n m A -> wf m p B -> wf n p (mmul A B).
Proof.
  intros HA HB. unfold mmul. rewrite (wf_rows _ _ _ HA), (wf_cols _ _ _ HB).
  apply wf_mkmat; [eapply wf_pos_r|eapply wf_pos_c]; eassumption.
Qed.
Lemma wf_mtr n m A : wf n m A -> wf m n (mtr A).
Proof.
  intros HA. unfold mtr. rewrite (wf_rows _ _ _ HA), (wf_cols _ _ _ HA).
  apply wf_mkmat; [eapply wf_pos_c|eapply wf_pos_r]; eassumption.
Qed.
Lemma wf_madd n m A B : wf n m A -> wf n m (madd A B).
Proof.
  intros HA. unfold madd. rewrite (wf_rows _ _ _ HA), (wf_cols _ _ _ HA).
  apply wf_mkmat; [eapply wf_pos_r|eapply wf_pos_c]; eassumption.
Qed.
Lemma wf_msub n m A B : wf n m A -> wf n m (msub A B).
Proof.
  intros HA. unfold msub. rewrite (wf_rows _ _ _ HA), (wf_cols _ _ _ HA).
  apply wf_mkmat; [eapply wf_pos_r|eapply wf_pos_c]; eassumption.
Qed.
Lemma wf_mscale n m a A : wf n m A -> wf n m (mscale a A).
Proof.
  intros HA. unfold mscale. rewrite (wf_rows _ _ _ HA), (wf_cols _ _ _ HA).
  apply wf_mkmat; [eapply wf_pos_r|eapply wf_pos_c]; eassumption.
Qed.
Lemma wf_rowscale n m w A : wf n m A -> wf n m (rowscale w A).
Proof.
  intros HA. unfold rowscale. rewrite (wf_rows _ _ _ HA), (wf_cols _ _ _ HA).
  apply wf_mkmat; [eapply wf_pos_r|eapply wf_pos_c]; eassumption.
Qed.
Lemma wf_mid n : (0 < n)%nat -> wf n n (mid n).
Proof. intros H. now apply wf_mkmat. Qed.
Lemma length_mapply n m A v : wf n m A -> length (mapply A v) = n.
Proof. intros HA. unfold mapply. rewrite length_mkvec. eapply wf_rows; eassumption. Qed.
Lemma length_vplus u v : length (vplus u v) = length u. Proof. apply length_mkvec. Qed.
Lemma length_vminus u v : length (vminus u v) = length u. Proof. apply length_mkvec. Qed.
Lemma length_vscal a v : length (vscal a v) = length v. Proof. apply length_mkvec. Qed.

(* entries of the operations *)
Lemma mget_mmul n m p A B i j : wf n m A -> wf m p B -> (i < n)%nat -> (j < p)%nat ->
  mget (mmul A B) i j = sumn m (fun k => mget A i k * mget B k j).
Proof.
  intros HA HB Hi Hj. unfold mmul.
  rewrite (wf_rows _ _ _ HA), (wf_cols _ _ _ HB), (wf_cols _ _ _ HA). now rewrite mget_mkmat by assumption.
Qed.
Lemma mget_mtr n m A i j : wf n m A -> (i < m)%nat -> (j < n)%nat -> mget (mtr A) i j = mget A j i.
Proof.
  intros HA Hi Hj. unfold mtr. rewrite (wf_rows _ _ _ HA), (wf_cols _ _ _ HA). now rewrite mget_mkmat by assumption.
Qed.
Lemma mget_madd n m A B i j : wf n m A -> (i < n)%nat -> (j < m)%nat ->
  mget (madd A B) i j = mget A i j + mget B i j.
Proof.
  intros HA Hi Hj. unfold madd. rewrite (wf_rows _ _ _ HA), (wf_cols _ _ _ HA). now rewrite mget_mkmat by assumption.
Qed.
Lemma mget_msub n m A B i j : wf n m A -> (i < n)%nat -> (j < m)%nat ->
  mget (msub A B) i j = mget A i j - mget B i j.
Proof.
  intros HA Hi Hj. unfold msub. rewrite (wf_rows _ _ _ HA), (wf_cols _ _ _ HA). now rewrite mget_mkmat by assumption.
Qed.
Lemma mget_mscale n m a A i j : wf n m A -> (i < n)%nat -> (j < m)%nat ->
  mget (mscale a A) i j = a * mget A i j.
Proof.
  intros HA Hi Hj. unfold mscale. rewrite (wf_rows _ _ _ HA), (wf_cols _ _ _ HA). now rewrite mget_mkmat by assumption.
Qed.
Lemma mget_rowscale n m w A i j : wf n m A -> (i < n)%nat -> (j < m)%nat ->
  mget (rowscale w A) i j = vget w i * mget A i j.
Proof.
  intros HA Hi Hj. unfold rowscale. rewrite (wf_rows _ _ _ HA), (wf_cols _ _ _ HA). now rewrite mget_mkmat by assumption.
Qed.
Lemma mget_mid n i j : (i < n)%nat -> (j < n)%nat ->
  mget (mid n) i j = if Nat.eqb i j then one else zero.
Proof. intros Hi Hj. unfold mid. now rewrite mget_mkmat by assumption. Qed.
Lemma vget_mapply n m A v i : wf n m A -> (i < n)%nat ->
  vget (mapply A v) i = sumn m (fun k => mget A i k * vget v k).
Proof.
  intros HA Hi. unfold mapply. rewrite (wf_rows _ _ _ HA), (wf_cols _ _ _ HA). now rewrite vget_mkvec by assumption.
Qed.
Lemma vget_vplus u v i : (i < length u)%nat -> vget (vplus u v) i = vget u i + vget v i.
Proof. intros. unfold vplus. now rewrite vget_mkvec by assumption. Qed.
Lemma vget_vminus u v i : (i < length u)%nat -> vget (vminus u v) i = vget u i - vget v i.
Proof. intros. unfold vminus. now rewrite vget_mkvec by assumption. Qed.
Lemma vget_vscal a v i : (i < length v)%nat -> vget (vscal a v) i = a * vget v i.
Proof. intros. unfold vscal. now rewrite vget_mkvec by assumption. Qed.

Lemma sumn_ext n f g : (forall k, (k < n)%nat -> f k = g k) -> sumn n f = sumn n g.
Proof.
  induction n as [|n IH]; intros H; [reflexivity|]. cbn. rewrite IH by (intros; apply H; lia).
  now rewrite H by lia.
Qed.

(* rows of a well-formed matrix as vectors *)
Lemma vget_row (M : mat) i j : vget (nth i M []) j = mget M i j.
Proof. reflexivity. Qed.
Lemma wf_rows_of r c f : (0 < r)%nat -> (0 < c)%nat -> (forall i, (i < r)%nat -> length (f i) = c) ->
  wf r c (rows_of r f).
Proof.
  intros Hr Hc H. repeat split; try assumption.
  - unfold rows_of. now rewrite map_length, seq_length.
  - apply Forall_forall. intros row Hin. unfold rows_of in Hin. apply in_map_iff in Hin.
    destruct Hin as [i [<- Hi]]. apply in_seq in Hi. apply H. lia.
Qed.
Lemma mget_rows_of r f i j : (i < r)%nat -> mget (rows_of r f) i j = vget (f i) j.
Proof.
  intros Hi. unfold mget, rows_of.
  rewrite (nth_indep _ [] (f 0%nat)) by (now rewrite map_length, seq_length).
  rewrite map_nth, seq_nth by assumption. reflexivity.
Qed.

End MatDefs.

#[global] Hint Resolve wf_mmul wf_mtr wf_madd wf_msub wf_mscale wf_rowscale wf_mid : wf.

(* ===================================================================== *)
(*  Part 2: laws over R                                                    *)
(* ===================================================================== *)
#[local] Remove Hints NumQ NumZ : typeclass_instances.
Local Open Scope R_scope.

Notation matR := (@mat R).

Ltac mnum := cbn [add sub mul div opp zero one ofZ NumR] in *.

Lemma sumn_plus n (f g : nat -> R) : sumn n (fun k => f k + g k) = sumn n f + sumn n g.
Proof. induction n as [|n IH]; cbn; mnum; [lra|]. rewrite IH. lra. Qed.
Lemma sumn_minus n (f g : nat -> R) : sumn n (fun k => f k - g k) = sumn n f - sumn n g.
Proof. induction n as [|n IH]; cbn; mnum; [lra|]. rewrite IH. lra. Qed.
Lemma sumn_scal_l n a (f : nat -> R) : sumn n (fun k => a * f k) = a * sumn n f.
Proof. induction n as [|n IH]; cbn; mnum; [lra|]. rewrite IH. lra. Qed.
Lemma sumn_scal_r n a (f : nat -> R) : sumn n (fun k => f k * a) = sumn n f * a.
Proof. induction n as [|n IH]; cbn; mnum; [lra|]. rewrite IH. lra. Qed.
Lemma sumn_zero n (f : nat -> R) : (forall k, (k < n)%nat -> f k = 0) -> sumn n f = 0.
Proof.
  induction n as [|n IH]; intros H; cbn; mnum; [reflexivity|].
  rewrite IH by (intros; apply H; lia). rewrite H by lia. lra.
Qed.
Lemma sumn_swap n m (f : nat -> nat -> R) :
  sumn n (fun i => sumn m (fun j => f i j)) = sumn m (fun j => sumn n (fun i => f i j)).
Proof.
  induction n as [|n IH]; cbn; mnum.
  - symmetry. now apply sumn_zero.
  - rewrite IH. symmetry. apply (sumn_plus m (fun j => sumn n (fun i => f i j)) (fun j => f n j)).
Qed.
Lemma sumn_nonneg n (f : nat -> R) : (forall k, (k < n)%nat -> 0 <= f k) -> 0 <= sumn n f.
Proof.
  induction n as [|n IH]; intros H; cbn; mnum; [lra|].
  assert (0 <= sumn n f) by (apply IH; intros; apply H; lia).
  assert (0 <= f n) by (apply H; lia). lra.
Qed.
Lemma sumn_pos_one n (f : nat -> R) i : (forall k, (k < n)%nat -> 0 <= f k) -> (i < n)%nat -> 0 < f i ->
  0 < sumn n f.
Proof.
  induction n as [|n IH]; intros H Hi Hp; [lia|]. cbn; mnum.
  assert (0 <= sumn n f) by (apply sumn_nonneg; intros; apply H; lia).
  destruct (Nat.eq_dec i n) as [->|Hne]; [lra|].
  assert (0 < sumn n f) by (apply IH; [intros; apply H; lia | lia | assumption]).
  assert (0 <= f n) by (apply H; lia). lra.
Qed.
Lemma sumn_delta_l n i (f : nat -> R) : (i < n)%nat ->
  sumn n (fun k => (if Nat.eqb i k then 1 else 0) * f k) = f i.
Proof.
  induction n as [|n IH]; intros Hi; [lia|]. cbn; mnum.
  destruct (Nat.eq_dec i n) as [->|Hne].
  - rewrite Nat.eqb_refl. rewrite sumn_zero; [lra|].
    intros k Hk. replace (Nat.eqb n k) with false; [lra|]. symmetry. apply Nat.eqb_neq. lia.
  - replace (Nat.eqb i n) with false by (symmetry; apply Nat.eqb_neq; lia). rewrite IH by lia. lra.
Qed.
Lemma sumn_delta_r n j (f : nat -> R) : (j < n)%nat ->
  sumn n (fun k => f k * (if Nat.eqb k j then 1 else 0)) = f j.
Proof.
  intros Hj. rewrite <- (sumn_delta_l n j f Hj). apply sumn_ext. intros k _.
  rewrite (Nat.eqb_sym k j). mnum. lra.
Qed.

Section MatR.

Implicit Types A B C M : matR.
Implicit Types u v x : list R.

(* ---------- matrix laws ---------- *)
Lemma mmul_assoc n m p q A B C : wf n m A -> wf m p B -> wf p q C ->
  mmul (mmul A B) C = mmul A (mmul B C).
Proof.
  intros HA HB HC.
  apply (mat_ext n q); [eauto with wf | eauto with wf |].
  intros i j Hi Hj.
  rewrite (mget_mmul n p q) by eauto with wf.
  rewrite (mget_mmul n m q) by eauto with wf.
  transitivity (sumn p (fun k => sumn m (fun l => mget A i l * mget B l k * mget C k j))).
  - apply sumn_ext. intros k Hk. rewrite (mget_mmul n m p) by assumption. mnum.
    now rewrite <- sumn_scal_r.
  - rewrite sumn_swap. apply sumn_ext. intros l Hl. rewrite (mget_mmul m p q) by assumption. mnum.
    rewrite <- sumn_scal_l. apply sumn_ext. intros k _. lra.
Qed.

Lemma mtr_mmul n m p A B : wf n m A -> wf m p B -> mtr (mmul A B) = mmul (mtr B) (mtr A).
Proof.
  intros HA HB. apply (mat_ext p n); [eauto with wf | eauto with wf |].
  intros i j Hi Hj.
  rewrite (mget_mtr n p) by eauto with wf.
  rewrite (mget_mmul n m p) by assumption.
  rewrite (mget_mmul p m n) by eauto with wf.
  apply sumn_ext. intros k Hk. rewrite (mget_mtr m p), (mget_mtr n m) by assumption. mnum. lra.
Qed.

Lemma mtr_mtr n m A : wf n m A -> mtr (mtr A) = A.
Proof.
  intros HA. apply (mat_ext n m); [eauto with wf | assumption |].
  intros i j Hi Hj. rewrite (mget_mtr m n) by eauto with wf. now rewrite (mget_mtr n m).
Qed.

Lemma mtr_madd n m A B : wf n m A -> wf n m B -> mtr (madd A B) = madd (mtr A) (mtr B).
Proof.
  intros HA HB. apply (mat_ext m n); [eauto with wf | eauto with wf |].
  intros i j Hi Hj. rewrite (mget_mtr n m) by eauto with wf.
  rewrite (mget_madd n m), (mget_madd m n) by eauto with wf.
  now rewrite (mget_mtr n m), (mget_mtr n m) by assumption.
Qed.

Lemma mtr_msub n m A B : wf n m A -> wf n m B -> mtr (msub A B) = msub (mtr A) (mtr B).
Proof.
  intros HA HB. apply (mat_ext m n); [eauto with wf | eauto with wf |].
  intros i j Hi Hj. rewrite (mget_mtr n m) by eauto with wf.
  rewrite (mget_msub n m), (mget_msub m n) by eauto with wf.
  now rewrite (mget_mtr n m), (mget_mtr n m) by assumption.
Qed.

Lemma mtr_mscale n m a A : wf n m A -> mtr (mscale a A) = mscale a (mtr A).
Proof.
  intros HA. apply (mat_ext m n); [eauto with wf | eauto with wf |].
  intros i j Hi Hj. rewrite (mget_mtr n m) by eauto with wf.
  rewrite (mget_mscale n m), (mget_mscale m n) by eauto with wf.
  now rewrite (mget_mtr n m) by assumption.
Qed.

Lemma mtr_mid n : (0 < n)%nat -> mtr (mid n) = mid n.
Proof.
  intros Hn. apply (mat_ext n n); [eauto with wf | eauto with wf |].
  intros i j Hi Hj. rewrite (mget_mtr n n) by eauto with wf.
  rewrite !mget_mid by assumption. now rewrite Nat.eqb_sym.
Qed.

Lemma mmul_madd_r n m p A B C : wf n m A -> wf m p B -> wf m p C ->
  mmul A (madd B C) = madd (mmul A B) (mmul A C).
Proof.
  intros HA HB HC. apply (mat_ext n p); [eauto with wf | eauto with wf |].
  intros i j Hi Hj. rewrite (mget_madd n p) by eauto with wf.
  rewrite !(mget_mmul n m p) by eauto with wf. mnum. rewrite <- sumn_plus.
  apply sumn_ext. intros k Hk. rewrite (mget_madd m p) by assumption. mnum. lra.
Qed.
Lemma mmul_madd_l n m p A B C : wf n m A -> wf n m B -> wf m p C ->
  mmul (madd A B) C = madd (mmul A C) (mmul B C).
Proof.
  intros HA HB HC. apply (mat_ext n p); [eauto with wf | eauto with wf |].
  intros i j Hi Hj. rewrite (mget_madd n p) by eauto with wf.
  rewrite !(mget_mmul n m p) by eauto with wf. mnum. rewrite <- sumn_plus.
  apply sumn_ext. intros k Hk. rewrite (mget_madd n m) by assumption. mnum. lra.
Qed.
Lemma mmul_msub_r n m p A B C : wf n m A -> wf m p B -> wf m p C ->
  mmul A (msub B C) = msub (mmul A B) (mmul A C).
Proof.
  intros HA HB HC. apply (mat_ext n p); [eauto with wf | eauto with wf |].
  intros i j Hi Hj. rewrite (mget_msub n p) by eauto with wf.
  rewrite !(mget_mmul n m p) by eauto with wf. mnum. rewrite <- sumn_minus.
  apply sumn_ext. intros k Hk. rewrite (mget_msub m p) by assumption. mnum. lra.
Qed.
Lemma mmul_msub_l n m p A B C : wf n m A -> wf n m B -> wf m p C ->
  mmul (msub A B) C = msub (mmul A C) (mmul B C).
Proof.
  intros HA HB HC. apply (mat_ext n p); [eauto with wf | eauto with wf |].
  intros i j Hi Hj. rewrite (mget_msub n p) by eauto with wf.
  rewrite !(mget_mmul n m p) by eauto with wf. mnum. rewrite <- sumn_minus.
  apply sumn_ext. intros k Hk. rewrite (mget_msub n m) by assumption. mnum. lra.
Qed.
Lemma mmul_mscale_l n m p a A B : wf n m A -> wf m p B -> mmul (mscale a A) B = mscale a (mmul A B).
Proof.
  intros HA HB. apply (mat_ext n p); [eauto with wf | eauto with wf |].
  intros i j Hi Hj. rewrite (mget_mscale n p) by eauto with wf.
  rewrite !(mget_mmul n m p) by eauto with wf. mnum. rewrite <- sumn_scal_l.
  apply sumn_ext. intros k Hk. rewrite (mget_mscale n m) by assumption. mnum. lra.
Qed.
Lemma mmul_mscale_r n m p a A B : wf n m A -> wf m p B -> mmul A (mscale a B) = mscale a (mmul A B).
Proof.
  intros HA HB. apply (mat_ext n p); [eauto with wf | eauto with wf |].
  intros i j Hi Hj. rewrite (mget_mscale n p) by eauto with wf.
  rewrite !(mget_mmul n m p) by eauto with wf. mnum. rewrite <- sumn_scal_l.
  apply sumn_ext. intros k Hk. rewrite (mget_mscale m p) by assumption. mnum. lra.
Qed.

Lemma mmul_mid_l n m A : wf n m A -> mmul (mid n) A = A.
Proof.
  intros HA. assert (Hn := wf_pos_r _ _ _ HA).
  apply (mat_ext n m); [eauto with wf | assumption |].
  intros i j Hi Hj. rewrite (mget_mmul n n m) by eauto with wf.
  rewrite <- (sumn_delta_l n i (fun k => mget A k j) Hi).
  apply sumn_ext. intros k Hk. now rewrite mget_mid by assumption.
Qed.
Lemma mmul_mid_r n m A : wf n m A -> mmul A (mid m) = A.
Proof.
  intros HA. assert (Hm := wf_pos_c _ _ _ HA).
  apply (mat_ext n m); [eauto with wf | assumption |].
  intros i j Hi Hj. rewrite (mget_mmul n m m) by eauto with wf.
  rewrite <- (sumn_delta_r m j (fun k => mget A i k) Hj).
  apply sumn_ext. intros k Hk. now rewrite mget_mid by assumption.
Qed.

Lemma madd_comm n m A B : wf n m A -> wf n m B -> madd A B = madd B A.
Proof.
  intros HA HB. apply (mat_ext n m); [eauto with wf | eauto with wf |].
  intros i j Hi Hj. rewrite !(mget_madd n m) by assumption. mnum. lra.
Qed.
Lemma madd_assoc n m A B C : wf n m A -> wf n m B -> wf n m C -> madd (madd A B) C = madd A (madd B C).
Proof.
  intros HA HB HC. apply (mat_ext n m); [eauto with wf | eauto with wf |].
  intros i j Hi Hj. rewrite !(mget_madd n m) by eauto with wf. mnum. lra.
Qed.
Lemma msub_madd_cancel n m A B : wf n m A -> wf n m B -> madd (msub A B) B = A.
Proof.
  intros HA HB. apply (mat_ext n m); [eauto with wf | eauto with wf |].
  intros i j Hi Hj. rewrite (mget_madd n m), (mget_msub n m) by eauto with wf. mnum. lra.
Qed.

(* symmetric matrices *)
Lemma msym_mget n A i j : wf n n A -> msym A -> (i < n)%nat -> (j < n)%nat -> mget A i j = mget A j i.
Proof. intros HA Hs Hi Hj. rewrite <- Hs at 1. now apply (mget_mtr n n). Qed.
Lemma msym_of_mget n A : wf n n A -> (forall i j, (i < n)%nat -> (j < n)%nat -> mget A i j = mget A j i) -> msym A.
Proof.
  intros HA H. apply (mat_ext n n); [eauto with wf | assumption |].
  intros i j Hi Hj. rewrite (mget_mtr n n) by assumption. now apply H.
Qed.
Lemma msym_madd n A B : wf n n A -> wf n n B -> msym A -> msym B -> msym (madd A B).
Proof. intros HA HB SA SB. unfold msym. rewrite (mtr_madd n n) by assumption. now rewrite SA, SB. Qed.
Lemma msym_msub n A B : wf n n A -> wf n n B -> msym A -> msym B -> msym (msub A B).
Proof. intros HA HB SA SB. unfold msym. rewrite (mtr_msub n n) by assumption. now rewrite SA, SB. Qed.
Lemma msym_mscale n a A : wf n n A -> msym A -> msym (mscale a A).
Proof. intros HA SA. unfold msym. rewrite (mtr_mscale n n) by assumption. now rewrite SA. Qed.
(* M P M^T is symmetric when P is *)
Lemma msym_congr n m M P : wf n m M -> wf m m P -> msym P -> msym (mmul (mmul M P) (mtr M)).
Proof.
  intros HM HP SP. unfold msym.
  rewrite (mtr_mmul n m n) by eauto with wf.
  rewrite (mtr_mtr n m) by assumption.
  rewrite (mtr_mmul n m m) by assumption. rewrite SP.
  symmetry. apply (mmul_assoc n m m n); eauto with wf.
Qed.
(* A^T A is symmetric *)
Lemma msym_gram n m A : wf n m A -> msym (mmul (mtr A) A).
Proof.
  intros HA. unfold msym. rewrite (mtr_mmul m n m) by eauto with wf.
  now rewrite (mtr_mtr n m) by assumption.
Qed.

(* ---------- matrix-vector laws ---------- *)
Lemma mapply_mmul n m p A B v : wf n m A -> wf m p B ->
  mapply (mmul A B) v = mapply A (mapply B v).
Proof.
  intros HA HB. apply (vec_ext n).
  - apply (length_mapply n p). eauto with wf.
  - now apply (length_mapply n m).
  - intros i Hi. rewrite (vget_mapply n p) by eauto with wf.
    rewrite (vget_mapply n m) by assumption.
    transitivity (sumn p (fun k => sumn m (fun l => mget A i l * mget B l k * vget v k))).
    + apply sumn_ext. intros k Hk. rewrite (mget_mmul n m p) by assumption. mnum.
      now rewrite <- sumn_scal_r.
    + rewrite sumn_swap. apply sumn_ext. intros l Hl. rewrite (vget_mapply m p) by assumption. mnum.
      rewrite <- sumn_scal_l. apply sumn_ext. intros k _. lra.
Qed.

Lemma vdot_comm u v : length u = length v -> vdot u v = vdot v u.
Proof. intros H. unfold vdot. rewrite H. apply sumn_ext. intros. mnum. lra. Qed.

Lemma vdot_adjoint n m A u v : wf n m A -> length u = n -> length v = m ->
  vdot u (mapply A v) = vdot (mapply (mtr A) u) v.
Proof.
  intros HA Hu Hv. unfold vdot. rewrite Hu. rewrite (length_mapply m n) by eauto with wf.
  transitivity (sumn n (fun i => sumn m (fun k => vget u i * mget A i k * vget v k))).
  - apply sumn_ext. intros i Hi. rewrite (vget_mapply n m) by assumption. mnum.
    rewrite <- sumn_scal_l. apply sumn_ext. intros. lra.
  - rewrite sumn_swap. apply sumn_ext. intros k Hk. rewrite (vget_mapply m n) by eauto with wf.
    mnum. rewrite <- sumn_scal_r. apply sumn_ext. intros i Hi. rewrite (mget_mtr n m) by assumption. lra.
Qed.

Lemma mapply_madd n m A B v : wf n m A -> wf n m B -> mapply (madd A B) v = vplus (mapply A v) (mapply B v).
Proof.
  intros HA HB. apply (vec_ext n).
  - apply (length_mapply n m). eauto with wf.
  - rewrite length_vplus. now apply (length_mapply n m).
  - intros i Hi. rewrite vget_vplus by (now rewrite (length_mapply n m)).
    rewrite !(vget_mapply n m) by eauto with wf. mnum. rewrite <- sumn_plus.
    apply sumn_ext. intros k Hk. rewrite (mget_madd n m) by assumption. mnum. lra.
Qed.
Lemma mapply_msub n m A B v : wf n m A -> wf n m B -> mapply (msub A B) v = vminus (mapply A v) (mapply B v).
Proof.
  intros HA HB. apply (vec_ext n).
  - apply (length_mapply n m). eauto with wf.
  - rewrite length_vminus. now apply (length_mapply n m).
  - intros i Hi. rewrite vget_vminus by (now rewrite (length_mapply n m)).
    rewrite !(vget_mapply n m) by eauto with wf. mnum. rewrite <- sumn_minus.
    apply sumn_ext. intros k Hk. rewrite (mget_msub n m) by assumption. mnum. lra.
Qed.
Lemma mapply_mscale n m a A v : wf n m A -> mapply (mscale a A) v = vscal a (mapply A v).
Proof.
  intros HA. apply (vec_ext n).
  - apply (length_mapply n m). eauto with wf.
  - rewrite length_vscal. now apply (length_mapply n m).
  - intros i Hi. rewrite vget_vscal by (now rewrite (length_mapply n m)).
    rewrite !(vget_mapply n m) by eauto with wf. mnum. rewrite <- sumn_scal_l.
    apply sumn_ext. intros k Hk. rewrite (mget_mscale n m) by assumption. mnum. lra.
Qed.
Lemma mapply_mid n v : (0 < n)%nat -> length v = n -> mapply (mid n) v = v.
Proof.
  intros Hn Hv. apply (vec_ext n); [apply (length_mapply n n); eauto with wf | assumption |].
  intros i Hi. rewrite (vget_mapply n n) by eauto with wf.
  rewrite <- (sumn_delta_l n i (vget v) Hi). apply sumn_ext. intros k Hk. now rewrite mget_mid.
Qed.
Lemma mapply_vplus n m A u v : wf n m A -> length u = m -> length v = m ->
  mapply A (vplus u v) = vplus (mapply A u) (mapply A v).
Proof.
  intros HA Hu Hv. apply (vec_ext n).
  - now apply (length_mapply n m).
  - rewrite length_vplus. now apply (length_mapply n m).
  - intros i Hi. rewrite vget_vplus by (now rewrite (length_mapply n m)).
    rewrite !(vget_mapply n m) by assumption. mnum. rewrite <- sumn_plus.
    apply sumn_ext. intros k Hk. rewrite vget_vplus by lia. mnum. lra.
Qed.
Lemma mapply_vminus n m A u v : wf n m A -> length u = m -> length v = m ->
  mapply A (vminus u v) = vminus (mapply A u) (mapply A v).
Proof.
  intros HA Hu Hv. apply (vec_ext n).
  - now apply (length_mapply n m).
  - rewrite length_vminus. now apply (length_mapply n m).
  - intros i Hi. rewrite vget_vminus by (now rewrite (length_mapply n m)).
    rewrite !(vget_mapply n m) by assumption. mnum. rewrite <- sumn_minus.
    apply sumn_ext. intros k Hk. rewrite vget_vminus by lia. mnum. lra.
Qed.

Lemma vdot_vplus_r u v x : length v = length u -> vdot u (vplus v x) = vdot u v + vdot u x.
Proof.
  intros H. unfold vdot. rewrite <- sumn_plus. apply sumn_ext. intros k Hk.
  rewrite vget_vplus by lia. mnum. lra.
Qed.
Lemma vdot_vminus_r u v x : length v = length u -> vdot u (vminus v x) = vdot u v - vdot u x.
Proof.
  intros H. unfold vdot. rewrite <- sumn_minus. apply sumn_ext. intros k Hk.
  rewrite vget_vminus by lia. mnum. lra.
Qed.
Lemma vdot_vplus_l u v x : length v = length u -> vdot (vplus u v) x = vdot u x + vdot v x.
Proof.
  intros H. unfold vdot. rewrite H. rewrite length_vplus. rewrite <- sumn_plus. apply sumn_ext. intros k Hk.
  rewrite vget_vplus by lia. mnum. lra.
Qed.
Lemma vdot_vminus_l u v x : length v = length u -> vdot (vminus u v) x = vdot u x - vdot v x.
Proof.
  intros H. unfold vdot. rewrite H. rewrite length_vminus. rewrite <- sumn_minus. apply sumn_ext. intros k Hk.
  rewrite vget_vminus by lia. mnum. lra.
Qed.
Lemma vdot_vscal_r a u v : length v = length u -> vdot u (vscal a v) = a * vdot u v.
Proof.
  intros H. unfold vdot. rewrite <- sumn_scal_l. apply sumn_ext. intros k Hk.
  rewrite vget_vscal by lia. mnum. lra.
Qed.
Lemma vdot_self_nonneg v : 0 <= vdot v v.
Proof. unfold vdot. apply sumn_nonneg. intros k _. mnum. nra. Qed.
Lemma vdot_self_pos v : (exists i, (i < length v)%nat /\ vget v i <> 0) -> 0 < vdot v v.
Proof.
  intros [i [Hi Hne]]. unfold vdot. apply (sumn_pos_one _ _ i); [intros k _; mnum; nra | assumption |].
  mnum. nra.
Qed.

(* ---------- quadratic forms ---------- *)
Definition PSD (n : nat) (M : matR) : Prop := forall x, length x = n -> 0 <= qform M x.
Definition nonzero (x : list R) : Prop := exists i, (i < length x)%nat /\ vget x i <> 0.
Definition PD (n : nat) (M : matR) : Prop := forall x, length x = n -> nonzero x -> 0 < qform M x.
Definition SPD (n : nat) (M : matR) : Prop := wf n n M /\ msym M /\ PD n M.

Lemma nonzero_dec x : nonzero x \/ (forall i, (i < length x)%nat -> vget x i = 0).
Proof.
  unfold nonzero. induction x as [|a x IH].
  - right. intros i Hi. cbn in Hi. lia.
  - destruct (Req_EM_T a 0) as [Ha|Ha].
    + destruct IH as [[i [Hi Hne]]|Hz].
      * left. exists (S i). split; [cbn; lia | exact Hne].
      * right. intros [|i] Hi; [exact Ha|]. apply Hz. cbn in Hi. lia.
    + left. exists 0%nat. split; [cbn; lia | exact Ha].
Qed.

Lemma qform_zero_vec n M x : wf n n M -> length x = n -> (forall i, (i < length x)%nat -> vget x i = 0) ->
  qform M x = 0.
Proof.
  intros HM Hx Hz. unfold qform, vdot. apply sumn_zero. intros k Hk. rewrite Hz by assumption. mnum. lra.
Qed.

Lemma PD_PSD n M : wf n n M -> PD n M -> PSD n M.
Proof.
  intros HM H x Hx. destruct (nonzero_dec x) as [Hn|Hz].
  - apply Rlt_le. now apply H.
  - rewrite (qform_zero_vec n) by assumption. lra.
Qed.

Lemma qform_madd n A B x : wf n n A -> wf n n B -> length x = n ->
  qform (madd A B) x = qform A x + qform B x.
Proof.
  intros HA HB Hx. unfold qform. rewrite (mapply_madd n n) by assumption.
  apply vdot_vplus_r. now rewrite (length_mapply n n).
Qed.
Lemma qform_msub n A B x : wf n n A -> wf n n B -> length x = n ->
  qform (msub A B) x = qform A x - qform B x.
Proof.
  intros HA HB Hx. unfold qform. rewrite (mapply_msub n n) by assumption.
  apply vdot_vminus_r. now rewrite (length_mapply n n).
Qed.
Lemma qform_mscale n a A x : wf n n A -> length x = n -> qform (mscale a A) x = a * qform A x.
Proof.
  intros HA Hx. unfold qform. rewrite (mapply_mscale n n) by assumption.
  apply vdot_vscal_r. now rewrite (length_mapply n n).
Qed.
(* x^T (M P M^T) x = (M^T x)^T P (M^T x) *)
Lemma qform_congr n m M P x : wf n m M -> wf m m P -> length x = n ->
  qform (mmul (mmul M P) (mtr M)) x = qform P (mapply (mtr M) x).
Proof.
  intros HM HP Hx. unfold qform.
  rewrite (mapply_mmul n m n) by eauto with wf.
  rewrite (mapply_mmul n m m) by eauto with wf.
  apply (vdot_adjoint n m); [assumption | assumption |].
  apply (length_mapply m m). assumption.
Qed.
(* x^T (A^T B) z = (A x) . (B z) *)
Lemma vdot_gram N n m A B x z : wf N n A -> wf N m B -> length x = n -> length z = m ->
  vdot x (mapply (mmul (mtr A) B) z) = vdot (mapply A x) (mapply B z).
Proof.
  intros HA HB Hx Hz. rewrite (mapply_mmul n N m) by eauto with wf.
  rewrite (vdot_adjoint n N) by (eauto with wf; now rewrite (length_mapply N m)).
  now rewrite (mtr_mtr N n).
Qed.

Lemma PSD_madd n A B : wf n n A -> wf n n B -> PSD n A -> PSD n B -> PSD n (madd A B).
Proof.
  intros HA HB PA PB x Hx. rewrite (qform_madd n) by assumption.
  specialize (PA x Hx). specialize (PB x Hx). lra.
Qed.
Lemma PD_madd_r n A B : wf n n A -> wf n n B -> PSD n A -> PD n B -> PD n (madd A B).
Proof.
  intros HA HB PA PB x Hx Hn. rewrite (qform_madd n) by assumption.
  specialize (PA x Hx). specialize (PB x Hx Hn). lra.
Qed.
Lemma PSD_congr n m M P : wf n m M -> wf m m P -> PSD m P -> PSD n (mmul (mmul M P) (mtr M)).
Proof.
  intros HM HP PP x Hx. rewrite (qform_congr n m) by assumption. apply PP.
  apply (length_mapply m n). eauto with wf.
Qed.
Lemma PSD_gram N n A : wf N n A -> PSD n (mmul (mtr A) A).
Proof.
  intros HA x Hx. unfold qform. rewrite (vdot_gram N n n) by assumption. apply vdot_self_nonneg.
Qed.

(* symmetric bilinear form *)
Lemma vdot_msym n P u v : wf n n P -> msym P -> length u = n -> length v = n ->
  vdot u (mapply P v) = vdot v (mapply P u).
Proof.
  intros HP SP Hu Hv. rewrite (vdot_adjoint n n) by assumption. rewrite SP.
  apply vdot_comm. rewrite (length_mapply n n) by assumption. now symmetry.
Qed.

(* ---------- inverses ---------- *)
Lemma minv_unique n S X Y : wf n n S -> wf n n X -> wf n n Y ->
  mmul X S = mid n -> mmul S Y = mid n -> X = Y.
Proof.
  intros HS HX HY H1 H2.
  transitivity (mmul X (mmul S Y)); [rewrite H2; symmetry; now apply (mmul_mid_r n n)|].
  rewrite <- (mmul_assoc n n n n) by assumption. rewrite H1. now apply (mmul_mid_l n n).
Qed.
Lemma minv_sym n S X : wf n n S -> wf n n X -> msym S -> mmul S X = mid n -> mmul X S = mid n -> msym X.
Proof.
  intros HS HX SS H1 H2. unfold msym.
  apply (minv_unique n S); [assumption | eauto with wf | assumption | | assumption].
  rewrite <- SS at 1. rewrite <- (mtr_mmul n n n) by assumption. rewrite H1.
  apply mtr_mid. eapply wf_pos_r; eassumption.
Qed.

End MatR.

(* ===================================================================== *)
(*  Part 3: executable inverse / Cholesky factor (correspondence only)     *)
(* ===================================================================== *)
Section MatExec.
Context {F : Type} {NF : Num F}.
Local Open Scope num_scope.

Fixpoint vmap2 (f : F -> F -> F) (u v : list F) : list F :=
  match u, v with a :: u', b :: v' => f a b :: vmap2 f u' v' | _, _ => [] end.

(* Gauss-Jordan on the augmented matrix [A | I]; pivot = first row (at or below the current one)
   whose entry in the current column is non-zero.  [None] when singular. *)
Fixpoint find_pivot (col : nat) (rows : list (list F)) : option (list F * list (list F)) :=
  match rows with
  | [] => None
  | r :: rest =>
      if nth col r zero =? zero then
        match find_pivot col rest with
        | Some (p, others) => Some (p, r :: others)
        | None => None
        end
      else Some (r, rest)
  end.

Definition eliminate (col : nat) (p : list F) (r : list F) : list F :=
  let f := nth col r zero in vmap2 (fun a b => a - f * b) r p.

Fixpoint gj (fuel col : nat) (done todo : list (list F)) : option (list (list F)) :=
  match fuel with
  | O => Some (done ++ todo)
  | S fuel' =>
      match find_pivot col todo with
      | None => match todo with [] => Some done | _ => None end
      | Some (p, others) =>
          let pv := nth col p zero in
          let p' := map (fun a => a / pv) p in
          gj fuel' (S col) (map (eliminate col p') done ++ [p']) (map (eliminate col p') others)
      end
  end.

Definition minv (A : @mat F) : option (@mat F) :=
  let n := mrows A in
  let aug := map (fun i => nth i A [] ++ nth i (mid n) []) (seq 0 n) in
  match gj n 0 [] aug with
  | Some res => Some (map (skipn n) res)
  | None => None
  end.

(* Cholesky-Banachiewicz, lower factor, with the square root as a parameter *)
Definition chol_entry (sq : F -> F) (A L : @mat F) (i j : nat) : F :=
  let s := sumn j (fun k => mget L i k * mget L j k) in
  if Nat.eqb i j then sq (mget A i i - s) else (mget A i j - s) / mget L j j.

Fixpoint chol_row (sq : F -> F) (A L : @mat F) (i : nat) (js : list nat) (row : list F) : list F :=
  match js with
  | [] => row
  | j :: js' =>
      let v := if Nat.ltb i j then zero else chol_entry sq A (L ++ [row]) i j in
      chol_row sq A L i js' (row ++ [v])
  end.

Fixpoint chol_rows (sq : F -> F) (A : @mat F) (is_ : list nat) (L : @mat F) : @mat F :=
  match is_ with
  | [] => L
  | i :: is' => chol_rows sq A is' (L ++ [chol_row sq A L i (seq 0 (mrows A)) []])
  end.

Definition mchol (sq : F -> F) (A : @mat F) : @mat F := chol_rows sq A (seq 0 (mrows A)) [].

End MatExec.

(* rational square root, rounded down to a multiple of 2^-prec *)
Definition Qsqrt_approx (prec : Z) (q : Q) : Q :=
  let sc := (2 ^ (2 * prec))%Z in
  let v := ((Qnum q * sc) / Zpos (Qden q))%Z in
  Qred (Qmake (Z.sqrt v) (Z.to_pos (2 ^ prec)%Z)).
