(* Model of the group-level (polynomial / rational) part of pypose/lietensor/operation.py and
   of the LieType methods in lietensor.py that dispatch to it:
   *_Mul, *_Inv, *_Act, *_Act4, SO3_Adj / SE3_Adj / RxSO3_Adj / Sim3_Adj, *_AdjXa, *_AdjTXa (forward),
   matrix(), rotation(), translation(), scale(), identity.
   Written once over a [Num] so that it runs over Q and is reasoned about over R. *)
From Coq Require Import ZArith QArith List Bool.
Import ListNotations.
From PV Require Import Base.Num.
Close Scope Q_scope.

Section LieGroup.
Context {F : Type} {NF : Num F}.
Local Open Scope num_scope.

Definition vec3 := (F * F * F)%type.
Definition v3 (x y z : F) : vec3 := (x, y, z).
Definition vx (v : vec3) := fst (fst v).
Definition vy (v : vec3) := snd (fst v).
Definition vz (v : vec3) := snd v.
Definition vadd (a b : vec3) : vec3 := (vx a + vx b, vy a + vy b, vz a + vz b).
Definition vsub (a b : vec3) : vec3 := (vx a - vx b, vy a - vy b, vz a - vz b).
Definition vneg (a : vec3) : vec3 := (- vx a, - vy a, - vz a).
Definition vscale (s : F) (a : vec3) : vec3 := (s * vx a, s * vy a, s * vz a).
Definition vdot (a b : vec3) : F := vx a * vx b + vy a * vy b + vz a * vz b.
Definition vcross (a b : vec3) : vec3 :=
  (vy a * vz b - vz a * vy b, vz a * vx b - vx a * vz b, vx a * vy b - vy a * vx b).
Definition vzero : vec3 := (zero, zero, zero).

(* 3x3 matrices as three rows *)
Definition mat3 := (vec3 * vec3 * vec3)%type.
Definition m3 (r0 r1 r2 : vec3) : mat3 := (r0, r1, r2).
Definition mr0 (m : mat3) := fst (fst m).
Definition mr1 (m : mat3) := snd (fst m).
Definition mr2 (m : mat3) := snd m.
Definition mvmul (m : mat3) (v : vec3) : vec3 := (vdot (mr0 m) v, vdot (mr1 m) v, vdot (mr2 m) v).
Definition mcol (m : mat3) (j : nat) : vec3 :=
  match j with
  | 0 => (vx (mr0 m), vx (mr1 m), vx (mr2 m))
  | 1 => (vy (mr0 m), vy (mr1 m), vy (mr2 m))
  | _ => (vz (mr0 m), vz (mr1 m), vz (mr2 m))
  end.
Definition mtrans (m : mat3) : mat3 := (mcol m 0, mcol m 1, mcol m 2).
Definition mmul3 (a b : mat3) : mat3 :=
  let bt := mtrans b in
  ((vdot (mr0 a) (mr0 bt), vdot (mr0 a) (mr1 bt), vdot (mr0 a) (mr2 bt)),
   (vdot (mr1 a) (mr0 bt), vdot (mr1 a) (mr1 bt), vdot (mr1 a) (mr2 bt)),
   (vdot (mr2 a) (mr0 bt), vdot (mr2 a) (mr1 bt), vdot (mr2 a) (mr2 bt))).
Definition madd3 (a b : mat3) : mat3 := (vadd (mr0 a) (mr0 b), vadd (mr1 a) (mr1 b), vadd (mr2 a) (mr2 b)).
Definition mscale3 (s : F) (a : mat3) : mat3 := (vscale s (mr0 a), vscale s (mr1 a), vscale s (mr2 a)).
Definition mid3 : mat3 := ((one, zero, zero), (zero, one, zero), (zero, zero, one)).
Definition mzero3 : mat3 := (vzero, vzero, vzero).
(* vec2skew *)
Definition skew (v : vec3) : mat3 :=
  ((zero, - vz v, vy v), (vz v, zero, - vx v), (- vy v, vx v, zero)).
Definition mdet3 (m : mat3) : F := vdot (mr0 m) (vcross (mr1 m) (mr2 m)).

(* ---------------- SO3: quaternion (v, w) ---------------- *)
Definition quat := (vec3 * F)%type.
Definition qv (q : quat) : vec3 := fst q.
Definition qw (q : quat) : F := snd q.
Definition qnorm2 (q : quat) : F := vdot (qv q) (qv q) + qw q * qw q.

Definition SO3_mul (X Y : quat) : quat :=
  (vadd (vadd (vscale (qw X) (qv Y)) (vscale (qw Y) (qv X))) (vcross (qv X) (qv Y)),
   qw X * qw Y - vdot (qv X) (qv Y)).
Definition SO3_inv (X : quat) : quat := (vneg (qv X), qw X).
Definition SO3_act (X : quat) (p : vec3) : vec3 :=
  let uv := vcross (qv X) p in
  let uv := vadd uv uv in
  vadd (vadd p (vscale (qw X) uv)) (vcross (qv X) uv).
Definition SO3_id : quat := (vzero, one).
(* SO3_Adj = SO3_Matrix: 2 w (w I + [v]x) - I + 2 v v^T *)
Definition SO3_Adj (X : quat) : mat3 :=
  let v := qv X in let w := qw X in
  let row (i : vec3) (sk : vec3) (vi : F) : vec3 :=
    vadd (vsub (vscale (two * w) (vadd (vscale w i) sk)) i) (vscale (two * vi) v) in
  (row (one, zero, zero) (mr0 (skew v)) (vx v),
   row (zero, one, zero) (mr1 (skew v)) (vy v),
   row (zero, zero, one) (mr2 (skew v)) (vz v)).
(* LieType.matrix for SO3: rows are Act on the basis vectors, then transposed *)
Definition SO3_matrix (X : quat) : mat3 :=
  mtrans (SO3_act X (one, zero, zero), SO3_act X (zero, one, zero), SO3_act X (zero, zero, one)).

(* ---------------- SE3: (t, q) ---------------- *)
Definition se3elt := (vec3 * quat)%type.
Definition SE3_mul (X Y : se3elt) : se3elt :=
  (vadd (fst X) (SO3_act (snd X) (fst Y)), SO3_mul (snd X) (snd Y)).
Definition SE3_inv (X : se3elt) : se3elt :=
  let qi := SO3_inv (snd X) in (vneg (SO3_act qi (fst X)), qi).
Definition SE3_act (X : se3elt) (p : vec3) : vec3 := vadd (fst X) (SO3_act (snd X) p).
Definition SE3_id : se3elt := (vzero, SO3_id).

(* ---------------- RxSO3: (q, s) ---------------- *)
Definition rxso3elt := (quat * F)%type.
Definition RxSO3_mul (X Y : rxso3elt) : rxso3elt := (SO3_mul (fst X) (fst Y), snd X * snd Y).
Definition RxSO3_inv (X : rxso3elt) : rxso3elt := (SO3_inv (fst X), one / snd X).
Definition RxSO3_act (X : rxso3elt) (p : vec3) : vec3 := vscale (snd X) (SO3_act (fst X) p).
Definition RxSO3_id : rxso3elt := (SO3_id, one).

(* ---------------- Sim3: (t, (q, s)) ---------------- *)
Definition sim3elt := (vec3 * rxso3elt)%type.
Definition Sim3_mul (X Y : sim3elt) : sim3elt :=
  (vadd (fst X) (RxSO3_act (snd X) (fst Y)), RxSO3_mul (snd X) (snd Y)).
Definition Sim3_inv (X : sim3elt) : sim3elt :=
  let qi := RxSO3_inv (snd X) in (vneg (RxSO3_act qi (fst X)), qi).
Definition Sim3_act (X : sim3elt) (p : vec3) : vec3 := vadd (fst X) (RxSO3_act (snd X) p).
Definition Sim3_id : sim3elt := (vzero, RxSO3_id).

(* ---------------- homogeneous points (p, w) ---------------- *)
Definition vec4 := (vec3 * F)%type.
Definition SO3_act4 (X : quat) (p : vec4) : vec4 := (SO3_act X (fst p), snd p).
Definition SE3_act4 (X : se3elt) (p : vec4) : vec4 :=
  (vadd (SO3_act (snd X) (fst p)) (vscale (snd p) (fst X)), snd p).
Definition RxSO3_act4 (X : rxso3elt) (p : vec4) : vec4 := (RxSO3_act X (fst p), snd p).
Definition Sim3_act4 (X : sim3elt) (p : vec4) : vec4 :=
  (vadd (RxSO3_act (snd X) (fst p)) (vscale (snd p) (fst X)), snd p).

(* 4x4 matrices as four rows of vec4; LieType.matrix: rows = Act4 on the basis, transposed *)
Definition mat4 := (vec4 * vec4 * vec4 * vec4)%type.
Definition e4 (i : nat) : vec4 :=
  match i with
  | 0 => ((one, zero, zero), zero) | 1 => ((zero, one, zero), zero)
  | 2 => ((zero, zero, one), zero) | _ => ((zero, zero, zero), one) end.
Definition trans4 (a b c d : vec4) : mat4 :=
  (((vx (fst a), vx (fst b), vx (fst c)), vx (fst d)),
   ((vy (fst a), vy (fst b), vy (fst c)), vy (fst d)),
   ((vz (fst a), vz (fst b), vz (fst c)), vz (fst d)),
   ((snd a, snd b, snd c), snd d)).
Definition matrix4 {G} (act4 : G -> vec4 -> vec4) (X : G) : mat4 :=
  trans4 (act4 X (e4 0)) (act4 X (e4 1)) (act4 X (e4 2)) (act4 X (e4 3)).
Definition RxSO3_matrix (X : rxso3elt) : mat3 :=
  mtrans (RxSO3_act X (one, zero, zero), RxSO3_act X (zero, one, zero), RxSO3_act X (zero, zero, one)).
Definition mv4 (m : mat4) (p : vec4) : vec4 :=
  let '(r0, r1, r2, r3) := m in
  let d (r : vec4) := vdot (fst r) (fst p) + snd r * snd p in
  ((d r0, d r1, d r2), d r3).
Definition mm4 (a b : mat4) : mat4 :=
  (* columns of b *)
  let '(b0, b1, b2, b3) := b in
  let col (j : nat) : vec4 :=
    match j with
    | 0 => ((vx (fst b0), vx (fst b1), vx (fst b2)), vx (fst b3))
    | 1 => ((vy (fst b0), vy (fst b1), vy (fst b2)), vy (fst b3))
    | 2 => ((vz (fst b0), vz (fst b1), vz (fst b2)), vz (fst b3))
    | _ => ((snd b0, snd b1, snd b2), snd b3) end in
  trans4 (mv4 a (col 0)) (mv4 a (col 1)) (mv4 a (col 2)) (mv4 a (col 3)).
(* the documented block form [[s R, t],[0, 1]] *)
Definition block4 (sR : mat3) (t : vec3) : mat4 :=
  ((mr0 sR, vx t), (mr1 sR, vy t), (mr2 sR, vz t), (vzero, one)).

(* ---------------- Adjoint matrices applied to algebra vectors (forward of *_AdjXa) *)
(* se3 / sim3 algebra vectors: (tau, phi) and (tau, phi, sigma) *)
Definition SO3_AdjXa (X : quat) (a : vec3) : vec3 := mvmul (SO3_Adj X) a.
Definition SO3_AdjTXa (X : quat) (a : vec3) : vec3 := SO3_AdjXa (SO3_inv X) a.
Definition SE3_AdjXa (X : se3elt) (a : vec3 * vec3) : vec3 * vec3 :=
  let R := SO3_Adj (snd X) in
  (vadd (mvmul R (fst a)) (mvmul (mmul3 (skew (fst X)) R) (snd a)), mvmul R (snd a)).
Definition SE3_AdjTXa (X : se3elt) a := SE3_AdjXa (SE3_inv X) a.
Definition RxSO3_AdjXa (X : rxso3elt) (a : vec3 * F) : vec3 * F := (mvmul (SO3_Adj (fst X)) (fst a), snd a).
Definition RxSO3_AdjTXa (X : rxso3elt) a := RxSO3_AdjXa (RxSO3_inv X) a.
Definition Sim3_AdjXa (X : sim3elt) (a : vec3 * vec3 * F) : vec3 * vec3 * F :=
  let '(tau, phi, sigma) := a in
  let R := SO3_Adj (fst (snd X)) in
  let sR := mscale3 (snd (snd X)) R in
  (vadd (vadd (mvmul sR tau) (mvmul (mmul3 (skew (fst X)) R) phi)) (vscale sigma (vneg (fst X))),
   mvmul R phi, sigma).
Definition Sim3_AdjTXa (X : sim3elt) a := Sim3_AdjXa (Sim3_inv X) a.

(* ---------------- list interface for the correspondence check ---------------- *)
Definition l_v3 (l : list F) : vec3 := (nth 0 l zero, nth 1 l zero, nth 2 l zero).
Definition v3_l (v : vec3) : list F := [vx v; vy v; vz v].
Definition l_q (l : list F) : quat := (l_v3 l, nth 3 l zero).
Definition q_l (q : quat) : list F := v3_l (qv q) ++ [qw q].
Definition l_SE3 (l : list F) : se3elt := (l_v3 l, l_q (skipn 3 l)).
Definition SE3_l (X : se3elt) : list F := v3_l (fst X) ++ q_l (snd X).
Definition l_RxSO3 (l : list F) : rxso3elt := (l_q l, nth 4 l zero).
Definition RxSO3_l (X : rxso3elt) : list F := q_l (fst X) ++ [snd X].
Definition l_Sim3 (l : list F) : sim3elt := (l_v3 l, l_RxSO3 (skipn 3 l)).
Definition Sim3_l (X : sim3elt) : list F := v3_l (fst X) ++ RxSO3_l (snd X).
Definition l_v4 (l : list F) : vec4 := (l_v3 l, nth 3 l zero).
Definition v4_l (p : vec4) : list F := v3_l (fst p) ++ [snd p].
Definition m3_l (m : mat3) : list F := v3_l (mr0 m) ++ v3_l (mr1 m) ++ v3_l (mr2 m).
Definition m4_l (m : mat4) : list F := let '(a, b, c, d) := m in v4_l a ++ v4_l b ++ v4_l c ++ v4_l d.

(* group ids: 0 SO3, 1 SE3, 2 RxSO3, 3 Sim3 *)
Definition g_mul (g : nat) (x y : list F) : list F :=
  match g with
  | 0 => q_l (SO3_mul (l_q x) (l_q y)) | 1 => SE3_l (SE3_mul (l_SE3 x) (l_SE3 y))
  | 2 => RxSO3_l (RxSO3_mul (l_RxSO3 x) (l_RxSO3 y)) | _ => Sim3_l (Sim3_mul (l_Sim3 x) (l_Sim3 y)) end.
Definition g_inv (g : nat) (x : list F) : list F :=
  match g with
  | 0 => q_l (SO3_inv (l_q x)) | 1 => SE3_l (SE3_inv (l_SE3 x))
  | 2 => RxSO3_l (RxSO3_inv (l_RxSO3 x)) | _ => Sim3_l (Sim3_inv (l_Sim3 x)) end.
Definition g_act (g : nat) (x p : list F) : list F :=
  match g with
  | 0 => v3_l (SO3_act (l_q x) (l_v3 p)) | 1 => v3_l (SE3_act (l_SE3 x) (l_v3 p))
  | 2 => v3_l (RxSO3_act (l_RxSO3 x) (l_v3 p)) | _ => v3_l (Sim3_act (l_Sim3 x) (l_v3 p)) end.
Definition g_act4 (g : nat) (x p : list F) : list F :=
  match g with
  | 0 => v4_l (SO3_act4 (l_q x) (l_v4 p)) | 1 => v4_l (SE3_act4 (l_SE3 x) (l_v4 p))
  | 2 => v4_l (RxSO3_act4 (l_RxSO3 x) (l_v4 p)) | _ => v4_l (Sim3_act4 (l_Sim3 x) (l_v4 p)) end.
(* X.matrix(): 3x3 for SO3 (its LieType overrides matrix), 4x4 for SE3, RxSO3 and Sim3 (LieType.matrix) *)
Definition g_matrix (g : nat) (x : list F) : list F :=
  match g with
  | 0 => m3_l (SO3_matrix (l_q x)) | 1 => m4_l (matrix4 SE3_act4 (l_SE3 x))
  | 2 => m4_l (matrix4 RxSO3_act4 (l_RxSO3 x)) | _ => m4_l (matrix4 Sim3_act4 (l_Sim3 x)) end.
Definition g_id (g : nat) : list F :=
  match g with 0 => q_l SO3_id | 1 => SE3_l SE3_id | 2 => RxSO3_l RxSO3_id | _ => Sim3_l Sim3_id end.
Definition g_rotation (g : nat) (x : list F) : list F :=
  match g with 0 => firstn 4 x | 1 => skipn 3 x | 2 => firstn 4 x | _ => firstn 4 (skipn 3 x) end.
Definition g_translation (g : nat) (x : list F) : list F :=
  match g with 0 => [zero; zero; zero] | 1 => firstn 3 x | 2 => [zero; zero; zero] | _ => firstn 3 x end.
Definition g_scale (g : nat) (x : list F) : list F :=
  match g with 0 => [one] | 1 => [one] | 2 => skipn 4 x | _ => skipn 7 x end.
Definition l_pair3 (l : list F) : vec3 * vec3 := (l_v3 l, l_v3 (skipn 3 l)).
Definition g_adj (g : nat) (tr : bool) (x a : list F) : list F :=
  match g with
  | 0 => v3_l ((if tr then SO3_AdjTXa else SO3_AdjXa) (l_q x) (l_v3 a))
  | 1 => let r := (if tr then SE3_AdjTXa else SE3_AdjXa) (l_SE3 x) (l_pair3 a) in v3_l (fst r) ++ v3_l (snd r)
  | 2 => let r := (if tr then RxSO3_AdjTXa else RxSO3_AdjXa) (l_RxSO3 x) (l_v3 a, nth 3 a zero) in v3_l (fst r) ++ [snd r]
  | _ => let r := (if tr then Sim3_AdjTXa else Sim3_AdjXa) (l_Sim3 x) (l_v3 a, l_v3 (skipn 3 a), nth 6 a zero) in
         v3_l (fst (fst r)) ++ v3_l (snd (fst r)) ++ [snd r]
  end.
End LieGroup.

(* ---- exact-route evaluator (Q): op codes
   0 Mul x y | 1 Inv x | 2 Act x p3 | 3 Act4 x p4 | 4 matrix x | 5 identity | 6 rotation x
   7 translation x | 8 scale x | 9 Adj x a | 10 AdjT x a *)
Definition lie_eval (g op : nat) (args : list (list Q)) : list Q :=
  let a0 := nth 0 args [] in let a1 := nth 1 args [] in
  match op with
  | 0 => g_mul g a0 a1 | 1 => g_inv g a0 | 2 => g_act g a0 a1 | 3 => g_act4 g a0 a1
  | 4 => g_matrix g a0 | 5 => g_id g | 6 => g_rotation g a0 | 7 => g_translation g a0
  | 8 => g_scale g a0 | 9 => g_adj g false a0 a1 | _ => g_adj g true a0 a1
  end.
Definition lie_case := (nat * nat * nat * list (list Q) * list Q)%type.
Definition lie_bad (cs : list lie_case) : list nat :=
  map (fun c => match c with (i, _, _, _, _) => i end)
      (filter (fun c => match c with (_, g, op, args, out) => negb (Qlist_eqb (lie_eval g op args) out) end) cs).

(* histories: ops 0 = X := Y @ X, 1 = X := X @ Y, 2 = X := Inv X; compared after every step *)
Definition hist_step (g : nat) (x : list Q) (o : nat * list Q) : list Q :=
  match fst o with 0 => g_mul g (snd o) x | 1 => g_mul g x (snd o) | _ => g_inv g x end.
Fixpoint hist_run (g : nat) (x : list Q) (ops : list (nat * list Q)) : list (list Q) :=
  match ops with [] => [] | o :: r => let x' := hist_step g x o in x' :: hist_run g x' r end.
Definition hist_case := (nat * nat * list Q * list (nat * list Q) * list (list Q))%type.
Definition hist_bad (cs : list hist_case) : list nat :=
  map (fun c => match c with (i, _, _, _, _) => i end)
      (filter (fun c => match c with (_, g, x, ops, out) =>
         negb ((Nat.eqb (length out) (length ops)) &&
               forallb (fun p => Qlist_eqb (fst p) (snd p)) (combine (hist_run g x ops) out)) end) cs).
