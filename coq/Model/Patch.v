(* Side effects of the public API (property C06):

   Part 1 -- pypose/lietensor/lietensor.py : retain_ltype (used by pypose/func/jac.py : jacrev), the
   context manager that monkey-patches three PyTorch internals, as a state machine over the
   table "module attribute -> function object" and the (mutable) __module__ attribute of
   function objects, with a wrapped body that may call the patched functions, nest further
   retain_ltype contexts, return, or raise at any point.

   Part 2 -- which API functions write into the storage of their tensor arguments.  Every
   modelled function is transcribed into a tiny imperative language that keeps exactly the
   alias structure of the Python code (x.tensor(), views, `z = r` are aliases; clone(), a - b,
   kernels produce fresh storage; `x += ..`, `data[..] = ..`, `out=`, copy_, mul_ write in
   place).  Running a program returns the result together with the post-state of the
   arguments. *)
From Coq Require Import List Arith Bool PeanoNat ZArith QArith.
Import ListNotations.
Close Scope Q_scope.

(* ======================================================================================== *)
(* Part 1: retain_ltype                                                                      *)
(* ======================================================================================== *)
Inductive modname := M_forward_ad     (* torch.autograd.forward_ad *)
                   | M_eager          (* torch._functorch.eager_transforms *)
                   | M_vmap           (* torch._functorch.vmap *)
                   | M_predispatch    (* torch._functorch.predispatch (where _add_batch_dim is defined) *)
                   | M_lietensor.     (* pypose.lietensor.lietensor (where `wrapper` is defined) *)
Inductive attr := A_make_dual | A_wrap_grad | A_add_batch_dim | A_wrapper.
Inductive site := S_make_dual | S_wrap_grad | S_add_batch.   (* the three expressions in TO_BE_WRAPPED *)
Definition key := (modname * attr)%type.
Definition site_key (s : site) : key :=
  match s with
  | S_make_dual => (M_forward_ad, A_make_dual)
  | S_wrap_grad => (M_eager, A_wrap_grad)
  | S_add_batch => (M_vmap, A_add_batch_dim)
  end.

(* function objects: the three torch originals and the closures made by wrap_function(func);
   [uid] makes every closure a distinct object *)
Inductive fn := Orig (s : site) | Wrap (uid : nat) (inner : fn).

Definition mod_eqb (a b : modname) : bool :=
  match a, b with
  | M_forward_ad, M_forward_ad | M_eager, M_eager | M_vmap, M_vmap
  | M_predispatch, M_predispatch | M_lietensor, M_lietensor => true
  | _, _ => false end.
Definition attr_eqb (a b : attr) : bool :=
  match a, b with
  | A_make_dual, A_make_dual | A_wrap_grad, A_wrap_grad | A_add_batch_dim, A_add_batch_dim
  | A_wrapper, A_wrapper => true
  | _, _ => false end.
Definition site_eqb (a b : site) : bool :=
  match a, b with
  | S_make_dual, S_make_dual | S_wrap_grad, S_wrap_grad | S_add_batch, S_add_batch => true
  | _, _ => false end.
Definition key_eqb (a b : key) : bool := mod_eqb (fst a) (fst b) && attr_eqb (snd a) (snd b).
Fixpoint fn_eqb (a b : fn) : bool :=
  match a, b with
  | Orig s, Orig s' => site_eqb s s'
  | Wrap u f, Wrap u' f' => (u =? u') && fn_eqb f f'
  | _, _ => false end.

(* func.__name__ ; the __module__ a function object is created with *)
Definition fn_name (f : fn) : attr :=
  match f with
  | Orig S_make_dual => A_make_dual | Orig S_wrap_grad => A_wrap_grad | Orig S_add_batch => A_add_batch_dim
  | Wrap _ _ => A_wrapper end.
Definition default_mod (f : fn) : modname :=
  match f with
  | Orig S_make_dual => M_forward_ad | Orig S_wrap_grad => M_eager | Orig S_add_batch => M_predispatch
  | Wrap _ _ => M_lietensor end.

Record pstate := mkP {
  tbl : list (key * fn);        (* module attributes that hold one of our function objects; first match wins *)
  fmods : list (fn * modname);  (* __module__ assignments made so far; first match wins *)
  next : nat }.                 (* next closure uid *)
Fixpoint lookup (t : list (key * fn)) (k : key) : option fn :=
  match t with [] => None | (k', f) :: r => if key_eqb k' k then Some f else lookup r k end.
Fixpoint lookup_mod (t : list (fn * modname)) (f : fn) : option modname :=
  match t with [] => None | (f', m) :: r => if fn_eqb f' f then Some m else lookup_mod r f end.
Definition getattr (s : pstate) (k : key) : option fn := lookup (tbl s) k.
Definition fmod (s : pstate) (f : fn) : modname :=
  match lookup_mod (fmods s) f with Some m => m | None => default_mod f end.
Definition setattr (s : pstate) (k : key) (f : fn) : pstate := mkP ((k, f) :: tbl s) (fmods s) (next s).
Definition set_module (s : pstate) (f : fn) (m : modname) : pstate := mkP (tbl s) ((f, m) :: fmods s) (next s).
(* (func.__module__, func.__name__): where the loops of retain_ltype write *)
Definition fn_key (s : pstate) (f : fn) : key := (fmod s f, fn_name f).

(* the value of the three TO_BE_WRAPPED expressions (None: AttributeError, cannot happen in a
   state reachable from an imported torch) *)
Definition site_val (s : pstate) (x : site) : fn :=
  match getattr s (site_key x) with Some f => f | None => Orig x end.

(* ---- retain_ltype (after fix 084bc81):
     TO_BE_WRAPPED = [(module, name, getattr(module, name)) for the three (module, name) pairs]
     try:     for module, name, func in TO_BE_WRAPPED: setattr(module, name, wrap_function(func)); yield
     finally: for module, name, func in TO_BE_WRAPPED: setattr(module, name, func)                      *)
Definition all_sites : list site := [S_make_dual; S_wrap_grad; S_add_batch].
Fixpoint patch_sites (s : pstate) (l : list (site * fn)) : pstate :=
  match l with
  | [] => s
  | (x, f) :: r => patch_sites (mkP ((site_key x, Wrap (next s) f) :: tbl s) (fmods s) (S (next s))) r
  end.
Fixpoint restore_sites (s : pstate) (l : list (site * fn)) : pstate :=
  match l with [] => s | (x, f) :: r => restore_sites (setattr s (site_key x) f) r end.
Definition enter (s : pstate) : pstate * list (site * fn) :=
  let saved := map (fun x => (x, site_val s x)) all_sites in (patch_sites s saved, saved).
Definition leave (s : pstate) (saved : list (site * fn)) : pstate := restore_sites s saved.

(* the wrapped body *)
Inductive body :=
| BRet                                (* returns normally *)
| BRaise                              (* raises here *)
| BCall (x : site) (k : body)         (* calls through a patched module attribute, goes on *)
| BNest (inner : body) (k : body).    (* with retain_ltype(): inner ; then k *)

(* number of wrapper layers around the function found at a call site *)
Fixpoint layers (f : fn) : nat := match f with Orig _ => 0 | Wrap _ g => S (layers g) end.

(* (final state, raised?, for every call: site and number of wrapper layers of the callee) *)
Fixpoint run (b : body) (s : pstate) : pstate * bool * list (site * nat) :=
  match b with
  | BRet => (s, false, [])
  | BRaise => (s, true, [])
  | BCall x k => let '(s', r, t) := run k s in (s', r, (x, layers (site_val s x)) :: t)
  | BNest inner k =>
      let '(s1, saved) := enter s in
      let '(s2, r, t) := run inner s1 in
      let s3 := leave s2 saved in                   (* finally: runs on return and on exception *)
      if r then (s3, true, t)                       (* the exception propagates *)
      else let '(s4, r', t') := run k s3 in (s4, r', t ++ t')
  end.
Definition with_retain_ltype (b : body) (s : pstate) := run (BNest b BRet) s.

(* ---- retain_ltype before the fix (history): TO_BE_WRAPPED was the SET of the three current function
   objects, _add_batch_dim.__module__ was assigned 'torch._functorch.vmap' before the try block, and the
   attribute to patch / restore was looked up as (func.__module__, func.__name__).  [ord] is the
   iteration order of the set. *)
Definition funcs_of (s : pstate) (ord : list site) : list fn := map (site_val s) ord.
Fixpoint patch_all_old (s : pstate) (fs : list fn) : pstate :=
  match fs with
  | [] => s
  | f :: r => patch_all_old (mkP ((fn_key s f, Wrap (next s) f) :: tbl s) (fmods s) (S (next s))) r
  end.
Definition enter_old (s : pstate) (ord : list site) : pstate * list fn :=
  let fs := funcs_of s ord in
  let s1 := set_module s (site_val s S_add_batch) M_vmap in
  (patch_all_old s1 fs, fs).
Fixpoint leave_old (s : pstate) (fs : list fn) : pstate :=
  match fs with [] => s | f :: r => leave_old (setattr s (fn_key s f) f) r end.
Fixpoint run_old (ord : list site) (b : body) (s : pstate) : pstate * bool * list (site * nat) :=
  match b with
  | BRet => (s, false, [])
  | BRaise => (s, true, [])
  | BCall x k => let '(s', r, t) := run_old ord k s in (s', r, (x, layers (site_val s x)) :: t)
  | BNest inner k =>
      let '(s1, fs) := enter_old s ord in
      let '(s2, r, t) := run_old ord inner s1 in
      let s3 := leave_old s2 fs in
      if r then (s3, true, t)
      else let '(s4, r', t') := run_old ord k s3 in (s4, r', t ++ t')
  end.
Definition with_retain_ltype_old (ord : list site) (b : body) (s : pstate) := run_old ord (BNest b BRet) s.

(* states: as imported (pristine), and after any earlier use of retain_ltype (normal) *)
Definition base_tbl : list (key * fn) :=
  [(site_key S_make_dual, Orig S_make_dual); (site_key S_wrap_grad, Orig S_wrap_grad);
   (site_key S_add_batch, Orig S_add_batch); ((M_predispatch, A_add_batch_dim), Orig S_add_batch)].
Definition pristine : pstate := mkP base_tbl [] 0.
Definition normal : pstate := mkP base_tbl [(Orig S_add_batch, M_vmap)] 0.

(* what can be observed from outside: every module attribute, and __module__ of its value *)
Definition all_keys : list key :=
  flat_map (fun m => map (fun a => (m, a)) [A_make_dual; A_wrap_grad; A_add_batch_dim; A_wrapper])
           [M_forward_ad; M_eager; M_vmap; M_predispatch; M_lietensor].
Fixpoint fn_shape (f : fn) : fn := match f with Orig s => Orig s | Wrap _ g => Wrap 0 (fn_shape g) end.
Definition observe (s : pstate) : list (option (fn * modname)) :=
  map (fun k => match getattr s k with Some f => Some (fn_shape f, fmod s f) | None => None end) all_keys.

(* ======================================================================================== *)
(* Part 2: which functions write into their arguments                                        *)
(* ======================================================================================== *)
Section Effects.
Variable D : Type.            (* contents of one tensor storage *)
Variable d0 : D.

(* variables are numbers; arguments are variables 0 .. nargs-1 bound to storages 0 .. nargs-1 *)
Inductive prog :=
| Ret (vs : list nat)                                              (* return these tensors *)
| Alias (dst src : nat) (k : prog)                                 (* dst = src / src.tensor() / a view of src *)
| Fresh (dst : nat) (f : list D -> D) (srcs : list nat) (k : prog)   (* dst = f(srcs) in new storage *)
| Inplace (dst : nat) (f : list D -> D) (srcs : list nat) (k : prog) (* storage of dst := f(srcs) *)
| If (c : list D -> bool) (srcs : list nat) (kt ke : prog).

Definition upd {X} (e : nat -> X) (v : nat) (x : X) : nat -> X := fun w => if w =? v then x else e w.
Fixpoint set_nth (l : list D) (n : nat) (x : D) : list D :=
  match l, n with
  | [], _ => []
  | _ :: r, 0 => x :: r
  | a :: r, S n' => a :: set_nth r n' x
  end.
Definition rd (env : nat -> nat) (st : list D) (v : nat) : D := nth (env v) st d0.

(* (final store, storages of the returned tensors) *)
Fixpoint exec (p : prog) (env : nat -> nat) (st : list D) : list D * list nat :=
  match p with
  | Ret vs => (st, map env vs)
  | Alias dst src k => exec k (upd env dst (env src)) st
  | Fresh dst f srcs k => exec k (upd env dst (length st)) (st ++ [f (map (rd env st) srcs)])
  | Inplace dst f srcs k => exec k env (set_nth st (env dst) (f (map (rd env st) srcs)))
  | If c srcs kt ke => if c (map (rd env st) srcs) then exec kt env st else exec ke env st
  end.
Definition run_prog (p : prog) (args : list D) : list D * list nat := exec p (fun v => v) args.
(* post-state of the arguments *)
Definition post_args (p : prog) (args : list D) : list D := firstn (length args) (fst (run_prog p args)).

(* static check: which argument storages may the program write?  [T v] = the argument whose
   storage variable v is bound to, if any *)
Fixpoint mut (p : prog) (T : nat -> option nat) : list nat :=
  match p with
  | Ret _ => []
  | Alias dst src k => mut k (upd T dst (T src))
  | Fresh dst _ _ k => mut k (upd T dst None)
  | Inplace dst _ _ k => match T dst with Some a => a :: mut k T | None => mut k T end
  | If _ _ kt ke => mut kt T ++ mut ke T
  end.
Definition taint0 (nargs : nat) : nat -> option nat := fun v => if v <? nargs then Some v else None.
Definition may_mutate (nargs : nat) (p : prog) : list nat := mut p (taint0 nargs).

(* ---------------- the transcriptions.  Kernels / arithmetic / tests are parameters ([K i],
   [Cnd i], one index per role inside a program): what they compute does not matter for the
   question which storages are written. ---------------- *)
Variable K : nat -> list D -> D.
Variable Cnd : nat -> list D -> bool.

(* X.tensor() / Y.tensor(); broadcast_inputs (expand.reshape.contiguous: a view when nothing has to
   be expanded, a copy otherwise); KERNEL.apply; out.view; LieTensor(out).
   K 0 expand-copy, K 1 kernel *)
Definition p_binop (copy_x copy_y : bool) : prog :=
  Alias 2 0 (Alias 3 1
  ((if copy_x then Fresh 4 (K 0) [2] else Alias 4 2)
  ((if copy_y then Fresh 5 (K 0) [3] else Alias 5 3)
  (Fresh 6 (K 1) [4; 5] (Alias 7 6 (Alias 8 7 (Ret [8]))))))).
(* Inv / Exp / Log: X.tensor(); KERNEL.apply(X); LieTensor(out) *)
Definition p_unop : prog := Alias 1 0 (Fresh 2 (K 0) [1] (Alias 3 2 (Ret [3]))).
(* rotation / translation / scale of SE3, Sim3, RxSO3: LieTensor(input.tensor()[..., a:b]) -- a view *)
Definition p_slice : prog := Alias 1 0 (Alias 2 1 (Alias 3 2 (Ret [3]))).
(* SO3Type.rotation: return input *)
Definition p_self : prog := Ret [0].
(* Retr(X, a) = a.Exp() * X.   K 2 Exp *)
Definition p_retr (copy_x copy_y : bool) : prog :=
  Alias 2 1 (Fresh 3 (K 2) [2] (Alias 4 3
  (Alias 5 4 (Alias 6 0
  ((if copy_x then Fresh 7 (K 0) [5] else Alias 7 5)
  ((if copy_y then Fresh 8 (K 0) [6] else Alias 8 6)
  (Fresh 9 (K 1) [7; 8] (Alias 10 9 (Ret [10]))))))))).
(* LieTensor.add(self, other, alpha) = self.clone().add_(alpha * other);
   add_ of a group: input.copy_(LieTensor(other[..., :k]).Exp() * input).
   K 0 clone, K 1 alpha*other, K 2 Exp, K 3 Mul, K 4 copy_ *)
Definition p_add : prog :=
  Fresh 2 (K 0) [0] (Fresh 3 (K 1) [1] (Alias 4 3 (Fresh 5 (K 2) [4] (Fresh 6 (K 3) [5; 2]
  (Inplace 2 (K 4) [6] (Ret [2])))))).
(* add_ itself (trailing underscore: allowed to write) *)
Definition p_add_ : prog :=
  Fresh 3 (K 1) [1] (Alias 4 3 (Fresh 5 (K 2) [4] (Fresh 6 (K 3) [5; 0] (Inplace 0 (K 4) [6] (Ret [0]))))).
(* cumops_(v, dim, ops): for each of the n doubling steps:
     v.index_copy_(dim, index, ops(v.index_select(dim, index-i), v.index_select(dim, index)))
   K 1 / K 2 index_select, K 3 ops, K 4 index_copy_ *)
Fixpoint p_cumops_loop (n : nat) (v : nat) : prog :=
  match n with
  | 0 => Ret [v]
  | S n' => Fresh 10 (K 1) [v] (Fresh 11 (K 2) [v] (Fresh 12 (K 3) [10; 11]
            (Inplace v (K 4) [v; 12] (p_cumops_loop n' v))))
  end.
Definition p_cumops_ (n : nat) : prog := p_cumops_loop n 0.
(* cumops(input, dim, ops) = cumops_(input.clone(), dim, ops) *)
Definition p_cumops (n : nat) : prog := Fresh 1 (K 0) [0] (p_cumops_loop n 1).

(* quat2unit(input) for a Lie group input (after fix c362486):
     data = input.tensor().clone(); data[..., a:b] = normalize(data[..., a:b]); output = LieTensor(data);
     if (output.rotation().norm() < eps).any(): raise; return output
   K 0 normalize(data[..., a:b]), K 1 data with the slice replaced, K 2 clone, Cnd 0 zero quaternion detected *)
Definition p_quat2unit : prog :=
  Alias 1 0 (Fresh 4 (K 2) [1] (Fresh 2 (K 0) [4] (Inplace 4 (K 1) [4; 2] (Alias 3 4 (If (Cnd 0) [3] (Ret []) (Ret [3])))))).
(* before the fix: data = input.tensor() shared the storage of the argument *)
Definition p_quat2unit_old : prog :=
  Alias 1 0 (Fresh 2 (K 0) [1] (Inplace 1 (K 1) [1; 2] (Alias 3 1 (If (Cnd 0) [3] (Ret []) (Ret [3]))))).
(* quat2unit(input) for anything else: warn and return input *)
Definition p_quat2unit_other : prog := Ret [0].

(* matching_time_indices(stamps_1, stamps_2, max_diff, offset_2) (after fix 9407769):
     stamps_2 = stamps_2 + offset_2; ...
   K 0 stamps_2 + offset_2, K 1 |stamps_1[:,None] - stamps_2[None]|, K 2 min *)
Definition p_matching : prog :=
  Fresh 4 (K 0) [1] (Fresh 2 (K 1) [0; 4] (Fresh 3 (K 2) [2] (Ret []))).
(* before the fix: stamps_2 += offset_2 *)
Definition p_matching_old : prog :=
  Inplace 1 (K 0) [1] (Fresh 2 (K 1) [0; 1] (Fresh 3 (K 2) [2] (Ret []))).
(* ape / rpe (rstamp, rpose, estamp, epose, ..., offset): StampedSE3 keeps
     poses.to(dtype)  and  timestamps.type(torch.float64).to(device)
   which are the caller's tensors themselves when nothing has to be converted; associate_traj
   passes the timestamps of the longer trajectory (the reference one on a tie) as stamps_2.
   K 3 dtype conversion, K 4 the error statistics *)
Definition p_ape_gen (inplace : bool) (r_is_f64 e_is_f64 e_longer : bool) : prog :=
  (if r_is_f64 then Alias 4 0 else Fresh 4 (K 3) [0])
  ((if e_is_f64 then Alias 5 2 else Fresh 5 (K 3) [2])
  (Alias 6 1 (Alias 7 3
  (let long := if e_longer then 5 else 4 in
   let short := if e_longer then 4 else 5 in
   (if inplace then (fun k => Inplace long (K 0) [long] (Alias 11 long k)) else Fresh 11 (K 0) [long])
   (Fresh 8 (K 1) [short; 11] (Fresh 9 (K 2) [8]
   (Fresh 10 (K 4) [6; 7; 9] (Ret [10])))))))).
Definition p_ape := p_ape_gen false.
Definition p_ape_old := p_ape_gen true.

(* CG.forward(A, b, x=None, M=None): arguments 0 A, 1 b, 2 x, 3 M.
   K 0 zeros_like(b), K 1 norm(b), K 2 b - A@x, K 3 clone, K 4 empty_like(b), K 5 M@r, K 6 r^T z,
   K 7 p*beta + z, K 8 A@p, K 9 rho/(p^T q), K 10 x + alpha p, K 11 r - alpha q;
   Cnd 0 (bnrm2 == 0).all(), Cnd 1 x.any(), Cnd 2 (norm(r) < tol*bnrm2).all() *)
Fixpoint p_cg_loop (has_M : bool) (n : nat) (first : bool) : prog :=
  match n with
  | 0 => Ret [4]
  | S n' =>
      If (Cnd 2) [5; 13] (Ret [4])                                     (* ||r|| < atol: return x *)
      ((if has_M then Inplace 7 (K 5) [3; 5] else Alias 7 5)           (* matmul(M, r, out=z)  /  z = r *)
      (Fresh 8 (K 6) [5; 7]                                            (* rho_cur *)
      ((if first then Fresh 9 (K 3) [7]                                (* p = z.clone() *)
        else Inplace 9 (K 7) [9; 8; 11; 7])                            (* p.mul_(beta).add_(z) *)
      (Inplace 6 (K 8) [0; 9]                                          (* matmul(A, p, out=q) *)
      (Fresh 10 (K 9) [8; 9; 6]                                        (* alpha *)
      (Inplace 4 (K 10) [4; 10; 9]                                     (* x += alpha * p *)
      (Inplace 5 (K 11) [5; 10; 6]                                     (* r -= alpha * q *)
      (Alias 11 8                                                      (* rho_prev = rho_cur *)
      (p_cg_loop has_M n' false)))))))))
  end.
(* [clone_x] = after fix 146d9a5: x = torch.zeros_like(b) if x is None else x.clone() *)
Definition p_cg_gen (clone_x : bool) (has_x has_M : bool) (maxiter : nat) : prog :=
  let rest :=
    Fresh 6 (K 4) [12]                                                 (* q = empty_like(b) *)
    ((if has_M then Fresh 7 (K 4) [12] else Fresh 7 (K 3) [5])         (* z = empty_like(b)  /  r.clone() *)
    (p_cg_loop has_M maxiter true)) in
  Alias 12 1                                                           (* b (or b.unsqueeze(-1)) *)
  ((if has_x then (if clone_x then Fresh 4 (K 3) [2] else Alias 4 2)   (* x.clone()  /  x itself (old) *)
    else Fresh 4 (K 0) [12])                                           (* zeros_like(b) *)
  (Fresh 13 (K 1) [12]                                                 (* bnrm2 *)
  (If (Cnd 0) [13] (Ret [12])                                          (* b == 0: return b *)
  (If (Cnd 1) [4] (Fresh 5 (K 2) [12; 0; 4] rest) (Fresh 5 (K 3) [12] rest))))).
Definition p_cg := p_cg_gen true.
Definition p_cg_old := p_cg_gen false.
End Effects.
Arguments Ret {D}. Arguments Alias {D}. Arguments Fresh {D}. Arguments Inplace {D}. Arguments If {D}.

(* ================= evaluators used by the correspondence check (vm_compute) ================= *)
Definition obs_eqb (a b : option (fn * modname)) : bool :=
  match a, b with
  | None, None => true
  | Some (f, m), Some (f', m') => fn_eqb f f' && mod_eqb m m'
  | _, _ => false end.
Fixpoint list_eqb {X} (e : X -> X -> bool) (a b : list X) : bool :=
  match a, b with [] , [] => true | x :: a', y :: b' => e x y && list_eqb e a' b' | _, _ => false end.
(* (index, start pristine?, body, observed: final attributes, raised, call trace) *)
Definition patch_case := (nat * bool * body * (list (option (fn * modname)) * bool * list (site * nat)))%type.
Definition patch_ok (c : patch_case) : bool :=
  match c with (_, pr, b, (obs, raised, trace)) =>
    let '(s, r, t) := with_retain_ltype b (if pr then pristine else normal) in
    list_eqb obs_eqb (observe s) obs && Bool.eqb r raised &&
    list_eqb (fun p q => site_eqb (fst p) (fst q) && (snd p =? snd q)) t trace
  end.
Definition patch_bad (cs : list patch_case) : list nat :=
  map (fun c => match c with (i, _, _, _) => i end) (filter (fun c => negb (patch_ok c)) cs).

(* which arguments may be written: program code, three flags, a count *)
Definition eff_prog (code : nat) (b1 b2 b3 : bool) (n : nat) : nat * prog unit :=
  let K := fun (_ : nat) (_ : list unit) => tt in
  let Cnd := fun (_ : nat) (_ : list unit) => true in
  match code with
  | 0 => (2, p_binop unit K b1 b2)
  | 1 => (1, p_unop unit K)
  | 2 => (1, p_slice unit)
  | 3 => (1, p_self unit)
  | 4 => (2, p_retr unit K b1 b2)
  | 5 => (2, p_add unit K)
  | 6 => (2, p_add_ unit K)
  | 7 => (1, p_cumops_ unit K n)
  | 8 => (1, p_cumops unit K n)
  | 9 => (1, p_quat2unit unit K Cnd)
  | 10 => (1, p_quat2unit_other unit)
  | 11 => (2, p_matching unit K)
  | 12 => (4, p_ape unit K b1 b2 b3)
  | _ => (4, p_cg unit K Cnd b1 b2 n)
  end.
Fixpoint dedup (l : list nat) : list nat :=
  match l with [] => [] | a :: r => if existsb (Nat.eqb a) r then dedup r else a :: dedup r end.
Definition eff_eval (code : nat) (b1 b2 b3 : bool) (n : nat) : list nat :=
  let '(nargs, p) := eff_prog code b1 b2 b3 n in dedup (may_mutate unit nargs p).
(* (index, code, flags, count, exact?, observed: arguments whose values changed): the observed set
   must be contained in the predicted one (equal to it when [exact]) *)
Definition subset (a b : list nat) : bool := forallb (fun x => existsb (Nat.eqb x) b) a.
Definition eff_case := (nat * nat * bool * bool * bool * nat * bool * list nat)%type.
Definition eff_bad (cs : list eff_case) : list nat :=
  map (fun c => match c with (i, _, _, _, _, _, _, _) => i end)
      (filter (fun c => match c with (_, code, b1, b2, b3, n, exact, obs) =>
                 let pred := eff_eval code b1 b2 b3 n in
                 negb (subset obs pred && (negb exact || subset pred obs)) end) cs).
