(* Model of the point-cloud filters and camera helpers of pypose/function/geometry.py:
     knn, nbr_filter, voxel_filter, knn_filter, random_filter,
     cart2homo, homo2cart, point2pixel, pixel2point, reprojerr.
   A cloud is a list of rows (list F); a row has D channels of which the first pdim / vdim are
   coordinates and the rest are features.  Written once over [Num F]: executed over Q
   (vm_compute, exact route of the tie) and reasoned about over R (Proofs/Cloud.v).

   Conventions.
   * Norms: [ord] = L1 | L2 | Linf.  [dmeas] is the quantity the order / the radius test is
     decided on: the norm itself for L1 and Linf, the SQUARED norm for L2 (so that the exact
     route stays rational).  The code compares sqrt(sum of squares) with the radius and sorts by
     it; [meas_le] ( 0 <= r /\ m <= r*r ) and sorting by m are proved equivalent to that over R
     in Proofs/Cloud.v ([meas_le_spec], [isort_map_mono]).  The sorting functions take the
     distance function as a parameter, so the same definition is used with the true norm.
   * dist.topk(k, largest=False, sorted=True) is modelled by a stable insertion sort of the
     (value, index) pairs followed by firstn k; it raises (None) when k exceeds the row length.
     With ties torch's choice is unspecified: the tie checks torch's output against the
     contract ([topk_ok]) instead of against this particular choice.
   * torch.unique(dim=-2, return_inverse) and argsort are parameters of the voxel model
     ([uniq_contract], [argsort_contract] in Proofs/Cloud.v); [unique_sort] / [argsort_ins] are
     executable instances proved to satisfy the contracts.  The RNG is a parameter as well
     (a permutation for random_filter, a list of draws for voxel_filter(random=True)).
   * The model follows the CURRENT source (after the fixes c6053fe, 104c370, 9117fdb); the previous
     behaviour of the three repaired places is kept as [knn_filter_old], [voxel_filter_random_old],
     [reproj_sum1_old] for the historical [_refuted] theorems only.
   * Raising (assert / IndexError / RuntimeError) = None.  Shape asserts on D >= pdim and on the
     tensor rank are preconditions (clouds are rectangular N x D lists), not modelled.
   * knn: only the documented default dim=-1, largest=False, sorted=True is modelled. *)
From Coq Require Import ZArith QArith Qreduction Qabs Reals List Bool Arith Lia.
Import ListNotations.
From PV Require Import Base.Num Model.LieGroup.
Close Scope Q_scope.

Inductive ord := L1 | L2 | Linf.

(* conversion to int64: truncation toward zero *)
Class Trunc (F : Type) := { truncZ : F -> Z }.
Global Instance TruncQ : Trunc Q := {| truncZ := fun q => Z.quot (Qnum q) (Zpos (Qden q)) |}.
Definition Rtrunc (x : R) : Z := if Rlt_dec x 0 then (- Int_part (- x))%Z else Int_part x.
Global Instance TruncR : Trunc R := {| truncZ := Rtrunc |}.

(* ---------- generic list helpers *)
Fixpoint map2 {A B C} (f : A -> B -> C) (a : list A) (b : list B) : list C :=
  match a, b with
  | x :: a', y :: b' => f x y :: map2 f a' b'
  | _, _ => []
  end.

(* boolean-mask selection  t[mask] *)
Fixpoint mask_select {A} (l : list A) (m : list bool) : list A :=
  match l, m with
  | x :: l', b :: m' => if b then x :: mask_select l' m' else mask_select l' m'
  | _, _ => []
  end.

(* t[idx] for an index list; None = index out of bounds (IndexError / gather RuntimeError) *)
Fixpoint gather {A} (l : list A) (idx : list nat) : option (list A) :=
  match idx with
  | [] => Some []
  | i :: t => match nth_error l i, gather l t with
              | Some x, Some r => Some (x :: r)
              | _, _ => None
              end
  end.

Fixpoint all_some {A} (l : list (option A)) : option (list A) :=
  match l with
  | [] => Some []
  | Some x :: t => match all_some t with Some r => Some (x :: r) | None => None end
  | None :: _ => None
  end.

Fixpoint upd {A} (f : A -> A) (j : nat) (l : list A) : list A :=
  match l, j with
  | [], _ => []
  | x :: t, O => f x :: t
  | x :: t, S j' => x :: upd f j' t
  end.

Definition countZ {A} (f : A -> bool) (l : list A) : Z :=
  fold_right (fun x c => if f x then Z.succ c else c) 0%Z l.

(* stable insertion sort w.r.t. a boolean "less or equal" *)
Section Sort.
Variable A : Type.
Variable le : A -> A -> bool.
Fixpoint insert (x : A) (l : list A) : list A :=
  match l with
  | [] => [x]
  | y :: t => if le x y then x :: l else y :: insert x t
  end.
Definition isort (l : list A) : list A := fold_right insert [] l.
End Sort.
Arguments insert {A}. Arguments isort {A}.

(* ---------- torch.unique(dim=-2, return_inverse=True) on integer rows: executable instance *)
Fixpoint lexZ (a b : list Z) : comparison :=
  match a, b with
  | [], [] => Eq
  | [], _ => Lt
  | _, [] => Gt
  | x :: a', y :: b' => match Z.compare x y with Eq => lexZ a' b' | c => c end
  end.
Fixpoint uinsert (x : list Z) (l : list (list Z)) : list (list Z) :=
  match l with
  | [] => [x]
  | y :: t => match lexZ x y with Lt => x :: l | Eq => l | Gt => y :: uinsert x t end
  end.
Definition ukeys (rows : list (list Z)) : list (list Z) := fold_right uinsert [] rows.
Fixpoint index_of (x : list Z) (l : list (list Z)) : nat :=
  match l with
  | [] => 0
  | y :: t => match lexZ x y with Eq => 0 | _ => S (index_of x t) end
  end.
Definition unique_sort (rows : list (list Z)) : list (list Z) * list nat :=
  let ks := ukeys rows in (ks, map (fun r => index_of r ks) rows).
(* torch.argsort: executable instance (stable) *)
Definition argsort_ins (l : list nat) : list nat :=
  map snd (isort (fun a b : nat * nat => Nat.leb (fst a) (fst b)) (combine l (seq 0 (length l)))).

Section Cloud.
Context {F : Type} {NF : Num F}.
Local Open Scope num_scope.

Definition vaddl (a b : list F) : list F := map2 add a b.
Definition vsubl (a b : list F) : list F := map2 sub a b.
Definition sumF (l : list F) : F := fold_right add zero l.
Definition vzeros (D : nat) : list F := repeat zero D.
(* sum of rows (all have D channels) *)
Definition vsum (D : nat) (rows : list (list F)) : list F := fold_left vaddl rows (vzeros D).
Definition vscale_inv (c : F) (v : list F) : list F := map (fun x => x / c) v.
Definition ofN (n : nat) : F := ofZ (Z.of_nat n).
(* tensor.mean over n rows = sum / n *)
Definition vmean (D : nat) (rows : list (list F)) : list F := vscale_inv (ofN (length rows)) (vsum D rows).

(* ---------- distances *)
Definition dmeas (o : ord) (a b : list F) : F :=
  let d := vsubl a b in
  match o with
  | L1 => sumF (map absF d)
  | L2 => sumF (map (fun x => x * x) d)
  | Linf => fold_right maxF zero (map absF d)
  end.
(* norm <= r, decided on the measure *)
Definition meas_le (o : ord) (m r : F) : bool :=
  match o with
  | L2 => (zero <=? r) && (m <=? r * r)
  | _ => m <=? r
  end.
Definition pdist (o : ord) (pd : nat) (p q : list F) : F := dmeas o (firstn pd p) (firstn pd q).
Definition within (o : ord) (pd : nat) (r : F) (p q : list F) : bool := meas_le o (pdist o pd p q) r.

(* ---------- topk(k, largest=False, sorted=True) of one row of distances *)
Definition indexed (row : list F) : list (F * nat) := combine row (seq 0 (length row)).
Definition le_fst (a b : F * nat) : bool := fst a <=? fst b.
Definition sort_row (row : list F) : list (F * nat) := isort le_fst (indexed row).
Definition topk (k : nat) (row : list F) : option (list (F * nat)) :=
  if (length row <? k)%nat then None else Some (firstn k (sort_row row)).

(* ---------- knn(ref, nbr, k, ord): per reference point the (value, index) pairs;
   [d] is the distance function ([dmeas o] on the exact route, the norm itself in the theorems) *)
Definition knn_gen (d : list F -> list F -> F) (ref nbr : list (list F)) (k : nat)
  : option (list (list (F * nat))) :=
  all_some (map (fun r => topk k (map (d r) nbr)) ref).
Definition knn_meas (o : ord) := knn_gen (dmeas o).

(* ---------- nbr_filter(points, nbr, radius, pdim, ord, return_mask=True) *)
Definition nbr_count (o : ord) (pd : nat) (pts : list (list F)) (r : F) (p : list F) : Z :=
  (countZ (within o pd r p) pts - 1)%Z.
Definition nbr_mask (o : ord) (pd : nat) (pts : list (list F)) (nbr : Z) (r : F) : list bool :=
  map (fun p => (nbr <=? nbr_count o pd pts r p)%Z) pts.
Definition nbr_filter (o : ord) (pd : nat) (pts : list (list F)) (nbr : Z) (r : F)
  : list (list F) * list bool :=
  let m := nbr_mask o pd pts nbr r in (mask_select pts m, m).

(* ---------- random_filter(points, num): [perm] is what torch.randperm(N) returned *)
Definition random_filter (perm : list nat) (pts : list (list F)) (num : nat) : option (list (list F)) :=
  if (length pts <? num)%nat then None else gather pts (firstn num perm).

(* ---------- knn_filter(points, k, pdim, radius, ord), current source (after fix c6053fe):
     dist = pairwise distances (N x N)
     _, idx = dist.topk(k+1, largest=False);  output = gather(points, idx).mean   -- on the FULL cloud
     if radius is not None:  output = output[sum(dist <= radius, -1) - 1 >= k]              *)
Definition knn_means (d : list F -> list F -> F) (pts : list (list F)) (k : nat) : option (list (list F)) :=
  if (length pts <? S k)%nat then None      (* topk: selected index k out of range *)
  else all_some (map (fun p =>
         match gather pts (map snd (firstn (S k) (sort_row (map (d p) pts)))) with
         | None => None
         | Some nb => Some (vmean (length p) nb)
         end) pts).
Definition knn_filter_gen (d : list F -> list F -> F) (le_r : F -> F -> bool)
    (pts : list (list F)) (k : nat) (radius : option F) : option (list (list F)) :=
  match knn_means d pts k, radius with
  | Some out, Some r =>
      Some (mask_select out (map (fun p => (Z.of_nat k <=? countZ (fun m => le_r m r) (map (d p) pts) - 1)%Z) pts))
  | res, _ => res
  end.
Definition knn_filter (o : ord) (pd : nat) := knn_filter_gen (pdist o pd) (meas_le o).

(* HISTORY -- the source before c6053fe filtered the ROWS of points / dist by the radius mask first
   and then gathered from the filtered cloud with column indices of the unfiltered one
   (C18_knn_filter_radius_refuted): *)
Definition knn_filter_old_gen (d : list F -> list F -> F) (le_r : F -> F -> bool)
    (pts : list (list F)) (k : nat) (radius : option F) : option (list (list F)) :=
  let rows := map (fun p => (p, map (d p) pts)) pts in
  let kept := match radius with
              | None => rows
              | Some r => mask_select rows
                            (map (fun pr => (Z.of_nat k <=? countZ (fun m => le_r m r) (snd pr) - 1)%Z) rows)
              end in
  let src := map fst kept in
  if (length pts <? S k)%nat then None
  else all_some (map (fun pr =>
         match gather src (map snd (firstn (S k) (sort_row (snd pr)))) with
         | None => None
         | Some nb => Some (vmean (length (fst pr)) nb)
         end) kept).
Definition knn_filter_old (o : ord) (pd : nat) := knn_filter_old_gen (pdist o pd) (meas_le o).

(* ---------- voxel_filter *)
Context {TrF : Trunc F}.
Definition col_min (rows : list (list F)) : list F :=
  match rows with [] => [] | r :: t => fold_left (map2 minF) t r end.
(* ((p[:vdim] - minp) / voxel).to(int64) *)
Definition vox_index (minp voxel p : list F) : list Z :=
  map truncZ (map2 div (vsubl (firstn (length voxel) p) minp) voxel).
Definition vox_keys_of (pts : list (list F)) (voxel : list F) : list (list Z) :=
  let minp := col_min (map (firstn (length voxel)) pts) in map (vox_index minp voxel) pts.
(* tensor.index_add_(0, inv, rows) *)
Fixpoint index_add (acc : list (list F)) (inv : list nat) (rows : list (list F)) : list (list F) :=
  match inv, rows with
  | i :: inv', r :: rows' => index_add (upd (fun s => vaddl s r) i acc) inv' rows'
  | _, _ => acc
  end.
Fixpoint index_count (acc : list F) (inv : list nat) : list F :=
  match inv with
  | i :: inv' => index_count (upd (fun c => c + one) i acc) inv'
  | [] => acc
  end.
Definition voxel_ok (pts : list (list F)) (voxel : list F) : bool :=
  match pts with [] => false | _ => forallb (fun v => negb (v =? zero)) voxel end.

Section Voxel.
Variable unique : list (list Z) -> list (list Z) * list nat.
(* random=False: centroid of every occupied voxel, voxels in the order of [unique] *)
Definition voxel_filter (pts : list (list F)) (voxel : list F) : option (list (list F)) :=
  if negb (voxel_ok pts voxel) then None else
  let D := length (hd [] pts) in
  let '(keys, inv) := unique (vox_keys_of pts voxel) in
  let M := length keys in
  let sums := index_add (repeat (vzeros D) M) inv pts in
  let cnts := index_count (repeat zero M) inv in
  Some (map2 (fun s c => vscale_inv c s) sums cnts).

(* random=True (current source, after fix 104c370): a member of every occupied voxel.
   [argsort] is torch.argsort, [draws] are the values returned by the successive
   torch.randint(0, count_k) calls.
     sorting_indices = argsort(inverse);  sorted_points = points[sorting_indices, :]
     selected = draws + cumsum(counts) - counts;  sorted_points[..., selected, :]          *)
Variable argsort : list nat -> list nat.
Fixpoint offsets (acc : nat) (counts : list nat) : list nat :=
  match counts with [] => [] | c :: t => acc :: offsets (acc + c) t end.
Definition voxel_filter_random (draws : list nat) (pts : list (list F)) (voxel : list F) : option (list (list F)) :=
  if negb (voxel_ok pts voxel) then None else
  let '(keys, inv) := unique (vox_keys_of pts voxel) in
  let counts := map (fun k => length (filter (Nat.eqb k) inv)) (seq 0 (length keys)) in
  match gather pts (argsort inv) with
  | None => None
  | Some sorted_points => gather sorted_points (map2 Nat.add draws (offsets 0 counts))
  end.
(* HISTORY -- before 104c370 both index tensors went through .squeeze(), which turns a 1-element
   index into a 0-dim one:  N = 1 -> sorted_points is 1-D and the final indexing raised IndexError;
   N > 1 with one voxel -> a single row of shape (D,) instead of (1, D)
   (C18_voxel_random_single_voxel_refuted) *)
Inductive vres := VRaise | VRow (r : list F) | VRows (rs : list (list F)).
Definition voxel_filter_random_old (draws : list nat) (pts : list (list F)) (voxel : list F) : vres :=
  match voxel_filter_random draws pts voxel with
  | None => VRaise
  | Some sel => match pts, sel with
                | [_], _ => VRaise
                | _, [r] => VRow r
                | _, _ => VRows sel
                end
  end.
End Voxel.

(* ---------- camera helpers *)
Definition cart2homo (c : list F) : list F := c ++ [one].
(* tiny = finfo(dtype).tiny;  denum = pm(w) * clamp(|w|, min=tiny) *)
Definition homo2cart (tiny : F) (c : list F) : list F :=
  let w := List.last c zero in
  let den := pm w * maxF (absF w) tiny in
  map (fun x => x / den) (removelast c).
Definition dot (a b : list F) : F := sumF (map2 mul a b).
Definition matvec (K : list (list F)) (p : list F) : list F := map (fun row => dot row p) K.
(* extrinsics: an SE3 item tx ty tz qx qy qz qw acting on the point (lietensor Act, Model/LieGroup) *)
Definition extr_act (T : option (list F)) (p : list F) : list F :=
  match T with None => p | Some X => v3_l (SE3_act (l_SE3 X) (l_v3 p)) end.
Definition point2pixel1 (tiny : F) (K : list (list F)) (T : option (list F)) (p : list F) : list F :=
  homo2cart tiny (matvec K (extr_act T p)).
Definition point2pixel (tiny : F) K T (pts : list (list F)) : list (list F) := map (point2pixel1 tiny K T) pts.
Definition kij (K : list (list F)) (i j : nat) : F := nth j (nth i K []) zero.
Definition pixel2point1 (K : list (list F)) (px : list F) (z : F) : list F :=
  let u := nth 0 px zero in let v := nth 1 px zero in
  [ ((u - kij K 0 2) * z) / kij K 0 0 ; ((v - kij K 1 2) * z) / kij K 1 1 ; z ].
Definition pixel2point (K : list (list F)) (pix : list (list F)) (depth : list F) : option (list (list F)) :=
  if (kij K 0 0 =? zero) || (kij K 1 1 =? zero) then None     (* assert fx, fy nonzero *)
  else Some (map2 (pixel2point1 K) pix depth).
(* reprojerr, reduction 'none' | 'sum' | 'norm' (squared for the exact route) *)
Definition reproj_none1 tiny K T (p px : list F) : list F := vsubl (point2pixel1 tiny K T p) px.
(* 'sum' = L1 norm of the error (after fix 9117fdb); before it was the signed sum [reproj_sum1_old] *)
Definition reproj_sum1 tiny K T (p px : list F) : F := sumF (map absF (reproj_none1 tiny K T p px)).
Definition reproj_sum1_old tiny K T (p px : list F) : F := sumF (reproj_none1 tiny K T p px).
Definition reproj_normsq1 tiny K T (p px : list F) : F := sumF (map (fun x => x * x) (reproj_none1 tiny K T p px)).
Definition reproj_norm1 {TF : Trans F} tiny K T (p px : list F) : F := tsqrt (reproj_normsq1 tiny K T p px).
Definition reprojerr_none tiny K T pts pix := map2 (reproj_none1 tiny K T) pts pix.
Definition reprojerr_sum tiny K T pts pix := map2 (reproj_sum1 tiny K T) pts pix.
Definition reprojerr_normsq tiny K T pts pix := map2 (reproj_normsq1 tiny K T) pts pix.
Definition reprojerr_norm {TF : Trans F} tiny K T pts pix := map2 (reproj_norm1 tiny K T) pts pix.
Definition pinhole (fx fy cx cy : F) : list (list F) := [[fx; zero; cx]; [zero; fy; cy]; [zero; zero; one]].
End Cloud.

(* =====================================================================================
   Exact-route evaluators (Q, vm_compute).  Each [..._bad] returns the indices of the cases on
   which the implementation's recorded output disagrees with the model.
   [tol]: relative tolerance for results that went through ONE correctly rounded float64
   division of exact operands (means, centroids, projections); 0 = equality.  *)
Definition Qclose (tol a b : Q) : bool := Qle_bool (Qabs (a - b)) (tol * Qabs b).
Definition Qrow_close (tol : Q) (a b : list Q) : bool :=
  Nat.eqb (length a) (length b) && forallb (fun p => Qclose tol (fst p) (snd p)) (combine a b).
Definition Qrows_close (tol : Q) (a b : list (list Q)) : bool :=
  Nat.eqb (length a) (length b) && forallb (fun p => Qrow_close tol (fst p) (snd p)) (combine a b).
Definition orows_close (tol : Q) (a b : option (list (list Q))) : bool :=
  match a, b with
  | Some x, Some y => Qrows_close tol x y
  | None, None => true
  | _, _ => false
  end.
Fixpoint nodupb (l : list nat) : bool :=
  match l with [] => true | x :: t => negb (existsb (Nat.eqb x) t) && nodupb t end.
Definition boollist_eqb (a b : list bool) : bool :=
  Nat.eqb (length a) (length b) && forallb (fun p => Bool.eqb (fst p) (snd p)) (combine a b).
Definition idx_of {A} (c : nat * A) : nat := fst c.
Definition bad_of {A} (f : A -> bool) (cs : list (nat * A)) : list nat :=
  map fst (filter (fun c => negb (f (snd c))) cs).

(* -- knn: the implementation's (value, index) rows are checked against the topk contract on the
   model's distance row: k entries, distinct in-range indices, each value is the distance at its
   index (L2: value^2 within tol of the squared distance), and the selected distances, in the
   returned order, are the k smallest of the row in ascending order. *)
Definition val_ok (o : ord) (tol m v : Q) : bool :=
  match o with L2 => Qle_bool 0 v && Qclose tol (v * v) m | _ => Qeq_bool v m end.
Definition topk_ok (o : ord) (tol : Q) (row : list Q) (k : nat) (res : list (Q * nat)) : bool :=
  let n := length row in
  Nat.eqb (length res) k && nodupb (map snd res) && forallb (fun vj => Nat.ltb (snd vj) n) res &&
  forallb (fun vj => val_ok o tol (nth (snd vj) row 0%Q) (fst vj)) res &&
  Qlist_eqb (map (fun vj => nth (snd vj) row 0%Q) res) (map fst (firstn k (sort_row row))).
Definition knn_case := (ord * list (list Q) * list (list Q) * nat * option (list (list (Q * nat))))%type.
Definition knn_ok (tol : Q) (c : knn_case) : bool :=
  match c with (o, ref, nbr, k, res) =>
    match res with
    | None => Nat.ltb (length nbr) k
    | Some rows =>
        negb (Nat.ltb (length nbr) k) && Nat.eqb (length rows) (length ref) &&
        forallb (fun rr => topk_ok o tol (map (dmeas o (fst rr)) nbr) k (snd rr)) (combine ref rows)
    end
  end.
Definition knn_bad (tol : Q) := bad_of (knn_ok tol).

(* -- nbr_filter *)
Definition nbr_case := (ord * nat * list (list Q) * Z * Q * list (list Q) * list bool)%type.
Definition nbr_ok (c : nbr_case) : bool :=
  match c with (o, pd, pts, nbr, r, out, mask) =>
    let '(mo, mm) := nbr_filter o pd pts nbr r in
    Qrows_close 0 out mo && boollist_eqb mask mm
  end.
Definition nbr_bad := bad_of nbr_ok.

(* -- voxel_filter, random=False *)
Definition vox_case := (list (list Q) * list Q * option (list (list Q)))%type.
Definition vox_ok (tol : Q) (c : vox_case) : bool :=
  match c with (pts, voxel, out) => orows_close tol out (voxel_filter unique_sort pts voxel) end.
Definition vox_bad (tol : Q) := bad_of (vox_ok tol).
(* -- voxel_filter, random=True: recorded shape (0 raise, 1 bare row, 2 rows) must be 2 on valid
   input (0 iff the model raises) and row k is one of the input rows lying in the k-th occupied voxel *)
Definition rowQ_eqb (a b : list Q) : bool := Qrow_close 0 a b.
Definition voxr_case := (list (list Q) * list Q * nat * list (list Q))%type.
Definition voxr_ok (c : voxr_case) : bool :=
  match c with (pts, voxel, shape, out) =>
    if negb (voxel_ok pts voxel) then Nat.eqb shape 0 else
    let ks := vox_keys_of pts voxel in
    let keys := fst (unique_sort ks) in
    Nat.eqb shape 2 && Nat.eqb (length out) (length keys) &&
    forallb (fun kr => existsb (fun pk => rowQ_eqb (fst pk) (snd kr) &&
                                          match lexZ (snd pk) (fst kr) with Eq => true | _ => false end)
                               (combine pts ks))
            (combine keys out)
  end.
Definition voxr_bad := bad_of voxr_ok.

(* -- knn_filter (both branches) *)
Definition knnf_case := (ord * nat * list (list Q) * nat * option Q * option (list (list Q)))%type.
Definition knnf_ok (tol : Q) (c : knnf_case) : bool :=
  match c with (o, pd, pts, k, r, out) => orows_close tol out (knn_filter o pd pts k r) end.
Definition knnf_bad (tol : Q) := bad_of (knnf_ok tol).

(* -- random_filter *)
Definition rnd_case := (list nat * list (list Q) * nat * option (list (list Q)))%type.
Definition rnd_ok (c : rnd_case) : bool :=
  match c with (perm, pts, num, out) => orows_close 0 out (random_filter perm pts num) end.
Definition rnd_bad := bad_of rnd_ok.

(* -- camera helpers.  op: 0 cart2homo | 1 homo2cart | 2 point2pixel | 3 pixel2point
      | 4 reprojerr none | 5 reprojerr sum | 6 reprojerr norm (recorded value squared vs normsq) *)
Definition tiny64 : Q := Qmake 1 (2 ^ 1022)%positive.
Definition cam_case := (nat * list (list Q) * option (list Q) * list (list Q) * list (list Q) * option (list (list Q)))%type.
Definition cam_eval (op : nat) (K : list (list Q)) (T : option (list Q)) (a b : list (list Q))
  : option (list (list Q)) :=
  match op with
  | 0 => Some (map cart2homo a)
  | 1 => Some (map (homo2cart tiny64) a)
  | 2 => Some (point2pixel tiny64 K T a)
  | 3 => pixel2point K a (map (fun r => nth 0 r 0%Q) b)
  | 4 => Some (reprojerr_none tiny64 K T a b)
  | 5 => Some (map (fun x => [x]) (reprojerr_sum tiny64 K T a b))
  | _ => Some (map (fun x => [x]) (reprojerr_normsq tiny64 K T a b))
  end.
(* the absolute floor [atol] covers results whose exact value is 0 up to rounding (reprojection
   errors of matching pixels) *)
Definition Qclose_abs (tol atol a b : Q) : bool :=
  Qle_bool (Qabs (a - b)) (tol * Qabs b + atol).
Definition Qrows_close_abs (tol atol : Q) (a b : list (list Q)) : bool :=
  Nat.eqb (length a) (length b) &&
  forallb (fun p => Nat.eqb (length (fst p)) (length (snd p)) &&
                    forallb (fun q => Qclose_abs tol atol (fst q) (snd q)) (combine (fst p) (snd p)))
          (combine a b).
Definition cam_ok (c : Q * Q * cam_case) : bool :=
  match c with (tol, atol, (op, K, T, a, b, out)) =>
    match out, cam_eval op K T a b with
    | Some x, Some y => Qrows_close_abs tol atol x y
    | None, None => true
    | _, _ => false
    end
  end.
Definition cam_bad := bad_of cam_ok.
