(* Model of pypose/module/dynamics.py (System, LTI, LTV, NLS) and of the batched products
   bmv / bvv / bvmv of pypose/function/linalg.py (one batch item; the tie applies it per item).

   1. the `_t` buffer as a state machine: which operations advance / assign it, which raise;
   2. LTI / LTV equations with optional c1, c2 (LTV: stacked matrices indexed by `_t % T`, the
      subclass pattern of the LTV docstring; the base class LTV itself is LTI + a set_refpoint that
      assigns the time);
   3. NLS: an expression language for transition / observation functions with [eval] and symbolic
      [deriv]; A, B, C, D = matrices of partial derivatives at the reference point; c1, c2 as coded;
      the reference-point bookkeeping of set_refpoint: with t=None the attribute `_ref_t` is a COPY
      (`systime.clone()`) of the time at that moment.
   History (repaired in /repo 6b6eb73, kept as `_old` definitions for the `_refuted` theorems):
   LTV.set_refpoint(t=None) raised, and NLS.set_refpoint(t=None) stored the `_t` buffer itself
   ([TAlias]), so the reference time moved with the system time while `_ref_f`, `_ref_g` did not. *)
From Coq Require Import ZArith QArith List Bool Arith.
Import ListNotations.
From PV Require Import Base.Num.
Close Scope Q_scope.

(* ------------------------------------------------------------------ 1. the time counter *)
Inductive kind := KLTI | KLTV | KNLS.
(* Call     : system(state, input)  (nn.Module.__call__: forward, then forward_hook: _t.add_(1))
   Direct   : forward(...) / state_transition(...) / observation(...) called directly, reading
              A..c2 / systime: no hook runs, the time is not touched
   Reset t  : reset(t)        (_t.fill_(t))
   SetTime t: systime = t     (_t.copy_(tensor(t)))
   SetRef t : set_refpoint(state, input, t)
                System/LTI: returns self;   NLS: stores the reference point, time untouched;
                LTV: `if t is not None: self.systime = t` - assigns the time when t is given *)
Inductive op := Call | Direct | Reset (t : Z) | SetTime (t : Z) | SetRef (t : option Z).

(* None = the operation raises (state unchanged); no modelled operation raises any more *)
Definition step_time (k : kind) (t : Z) (o : op) : option Z :=
  match o with
  | Call => Some (t + 1)%Z
  | Direct => Some t
  | Reset v => Some v
  | SetTime v => Some v
  | SetRef ot =>
      match k with
      | KLTV => match ot with Some v => Some v | None => Some t end
      | _ => Some t
      end
  end.
(* before 6b6eb73: LTV.set_refpoint did `self.systime = t` unconditionally; torch.tensor(None) raises *)
Definition step_time_old (k : kind) (t : Z) (o : op) : option Z :=
  match k, o with
  | KLTV, SetRef None => None
  | _, _ => step_time k t o
  end.
Definition step_time' (k : kind) (t : Z) (o : op) : Z :=
  match step_time k t o with Some t' => t' | None => t end.
Fixpoint run_time (k : kind) (t : Z) (ops : list op) : Z :=
  match ops with [] => t | o :: r => run_time k (step_time' k t o) r end.
(* after every operation: (time, raised?) *)
Fixpoint time_trace (k : kind) (t : Z) (ops : list op) : list (Z * bool) :=
  match ops with
  | [] => []
  | o :: r => let t' := step_time' k t o in
              (t', match step_time k t o with None => true | Some _ => false end) :: time_trace k t' r
  end.

(* the specification side of "time = last assigned value + number of calls since" *)
Definition assigns (k : kind) (o : op) : option Z :=
  match o with
  | Reset v => Some v
  | SetTime v => Some v
  | SetRef (Some v) => match k with KLTV => Some v | _ => None end
  | _ => None
  end.
Definition is_call (o : op) : bool := match o with Call => true | _ => false end.
Definition count_calls (ops : list op) : Z := Z.of_nat (length (filter is_call ops)).
Definition no_assign (k : kind) (ops : list op) : Prop := forall o, In o ops -> assigns k o = None.

(* ------------------------------------------------------------------ 2. linear algebra, LTI, LTV *)
Section Lin.
Context {F : Type} {NF : Num F}.
Local Open Scope num_scope.

Fixpoint dot (a b : list F) : F :=
  match a, b with x :: a', y :: b' => x * y + dot a' b' | _, _ => zero end.
Definition mv (M : list (list F)) (v : list F) : list F := map (fun r => dot r v) M.
Fixpoint vadd (a b : list F) : list F :=
  match a, b with x :: a', y :: b' => (x + y) :: vadd a' b' | _, _ => [] end.
Fixpoint vsub (a b : list F) : list F :=
  match a, b with x :: a', y :: b' => (x - y) :: vsub a' b' | _, _ => [] end.
Definition vscale (k : F) (v : list F) : list F := map (fun x => k * x) v.
(* bmv(mat, vec) = matmul(mat, vec[..., None])[..., 0] *)
Definition bmv_m := mv.
(* bvv(l, r) = l[..., None] @ r[..., None].mT : the outer product *)
Definition bvv_m (l r : list F) : list (list F) := map (fun a => map (fun b => a * b) r) l.
(* bvmv(l, M, r) = (l^T @ M) @ r : first the row vector l^T M (a combination of the rows of M) *)
Fixpoint vm (l : list F) (M : list (list F)) (n : nat) : list F :=
  match l, M with
  | a :: l', row :: M' => vadd (vscale a row) (vm l' M' n)
  | _, _ => repeat zero n
  end.
Definition bvmv_m (l : list F) (M : list (list F)) (r : list F) : F := dot (vm l M (length r)) r.

Record lti := { sA : list (list F); sB : list (list F); sC : list (list F); sD : list (list F);
                sc1 : option (list F); sc2 : option (list F) }.
Definition addc (v : list F) (c : option (list F)) : list F :=
  match c with None => v | Some c => vadd v c end.
(* z = bmv(A, state) + bmv(B, input); z if c1 is None else z + c1 *)
Definition lti_next (s : lti) (x u : list F) : list F := addc (vadd (mv (sA s) x) (mv (sB s) u)) (sc1 s).
Definition lti_obs (s : lti) (x u : list F) : list F := addc (vadd (mv (sC s) x) (mv (sD s) u)) (sc2 s).

(* LTV: stacked matrices, property A = _A[..., _t % T, :, :] (torch remainder: sign of the divisor,
   as Z.modulo) *)
Record ltv := { vT : Z; vA : list (list (list F)); vB : list (list (list F)); vC : list (list (list F));
                vD : list (list (list F)); vc1 : option (list (list F)); vc2 : option (list (list F)) }.
Definition tidx (T t : Z) : nat := Z.to_nat (t mod T).
Definition ltv_at (s : ltv) (t : Z) : lti :=
  let i := tidx (vT s) t in
  {| sA := nth i (vA s) []; sB := nth i (vB s) []; sC := nth i (vC s) []; sD := nth i (vD s) [];
     sc1 := option_map (fun l => nth i l []) (vc1 s); sc2 := option_map (fun l => nth i l []) (vc2 s) |}.

(* LTV driven by operations; the state x is fed back by LCall.  Output of an operation:
   LCall / LDirect: next state ++ observation, otherwise [] *)
Inductive lop := LCall (u : list F) | LDirect (u : list F) | LReset (t : Z) | LSetTime (t : Z)
               | LSetRef (t : option Z).
Definition lop_erase (o : lop) : op :=
  match o with LCall _ => Call | LDirect _ => Direct | LReset t => Reset t | LSetTime t => SetTime t
             | LSetRef t => SetRef t end.
Definition ltv_step (s : ltv) (st : Z * list F) (o : lop) : option ((Z * list F) * list F) :=
  let '(t, x) := st in
  match o with
  | LCall u => let m := ltv_at s t in let x' := lti_next m x u in
               Some ((t + 1)%Z, x', x' ++ lti_obs m x u)
  | LDirect u => let m := ltv_at s t in Some (t, x, lti_next m x u ++ lti_obs m x u)
  | LReset v => Some (v, x, [])
  | LSetTime v => Some (v, x, [])
  | LSetRef (Some v) => Some (v, x, [])
  | LSetRef None => Some (t, x, [])
  end.
Fixpoint ltv_trace (s : ltv) (st : Z * list F) (ops : list lop) : list (Z * bool * list F) :=
  match ops with
  | [] => []
  | o :: r => match ltv_step s st o with
              | Some (st', out) => (fst st', false, out) :: ltv_trace s st' r
              | None => (fst st, true, []) :: ltv_trace s st r
              end
  end.
Fixpoint ltv_run (s : ltv) (st : Z * list F) (ops : list lop) : Z * list F :=
  match ops with
  | [] => st
  | o :: r => match ltv_step s st o with
              | Some (st', _) => ltv_run s st' r
              | None => ltv_run s st r
              end
  end.
(* the trajectory of k calls from time t0: inputs us *)
Fixpoint ltv_traj (s : ltv) (t0 : Z) (x : list F) (us : list (list F)) : list (list F) :=
  match us with
  | [] => []
  | u :: r => let x' := lti_next (ltv_at s t0) x u in x' :: ltv_traj s (t0 + 1)%Z x' r
  end.
End Lin.

(* ------------------------------------------------------------------ 3. NLS *)
Section NLS.
Context {F : Type} {NF : Num F} {TF : Trans F}.
Local Open Scope num_scope.

(* transition / observation components: constants, state / input components, the time, + * sin cos *)
Inductive fexpr :=
  | EConst (c : F) | EX (i : nat) | EU (j : nat) | ET
  | EAdd (a b : fexpr) | EMul (a b : fexpr) | ESin (a : fexpr) | ECos (a : fexpr).
Inductive var := VX (i : nat) | VU (j : nat).

Fixpoint eval (e : fexpr) (x u : list F) (t : F) : F :=
  match e with
  | EConst c => c
  | EX i => nth i x zero
  | EU j => nth j u zero
  | ET => t
  | EAdd a b => eval a x u t + eval b x u t
  | EMul a b => eval a x u t * eval b x u t
  | ESin a => tsin (eval a x u t)
  | ECos a => tcos (eval a x u t)
  end.
(* symbolic partial derivative (no simplification) *)
Fixpoint deriv (e : fexpr) (v : var) : fexpr :=
  match e with
  | EConst _ => EConst zero
  | EX i => match v with VX k => if Nat.eqb i k then EConst one else EConst zero | _ => EConst zero end
  | EU j => match v with VU k => if Nat.eqb j k then EConst one else EConst zero | _ => EConst zero end
  | ET => EConst zero
  | EAdd a b => EAdd (deriv a v) (deriv b v)
  | EMul a b => EAdd (EMul (deriv a v) b) (EMul a (deriv b v))
  | ESin a => EMul (ECos a) (deriv a v)
  | ECos a => EMul (EMul (EConst (- one)) (ESin a)) (deriv a v)
  end.
Fixpoint is_poly (e : fexpr) : bool :=
  match e with
  | ESin _ | ECos _ => false
  | EAdd a b | EMul a b => is_poly a && is_poly b
  | _ => true
  end.

Definition evals (fs : list fexpr) (x u : list F) (t : F) : list F := map (fun f => eval f x u t) fs.
Definition xvars (x : list F) : list var := map VX (seq 0 (length x)).
Definition uvars (u : list F) : list var := map VU (seq 0 (length u)).
Definition grad (f : fexpr) (vs : list var) (x u : list F) (t : F) : list F :=
  map (fun v => eval (deriv f v) x u t) vs.
(* jacobian(func, ref): one row per output component, one column per input component *)
Definition jac (fs : list fexpr) (vs : list var) (x u : list F) (t : F) : list (list F) :=
  map (fun f => grad f vs x u t) fs.
Definition nls_A fs x u t := jac fs (xvars x) x u t.
Definition nls_B fs x u t := jac fs (uvars u) x u t.
(* c1 = _ref_f - bmv(A, _ref_state) - bmv(B, _ref_input) *)
Definition nls_c (reff : list F) (A B : list (list F)) (x u : list F) : list F :=
  vsub (vsub reff (mv A x)) (mv B u).

(* everything the linearisation exposes, read with reference time [tr], for stored values rf rg *)
Definition lin_read (fs gs : list fexpr) (x u : list F) (tr : F) (rf rg : list F) : list F :=
  let A := nls_A fs x u tr in let B := nls_B fs x u tr in
  let C := nls_A gs x u tr in let D := nls_B gs x u tr in
  concat A ++ concat B ++ concat C ++ concat D ++ nls_c rf A B x u ++ nls_c rg C D x u.
(* the linearisation at a point: reference values taken at the same point *)
Definition nls_lin_l (fs gs : list fexpr) (x u : list F) (t : F) : list F :=
  lin_read fs gs x u t (evals fs x u t) (evals gs x u t).

(* --- the object with its bookkeeping --- *)
(* reference time: a stored value; [TAlias] (the live `_t` buffer) occurs only in the `_old` machine *)
Inductive tref := TAlias | TFixed (v : F).
Record nref := { r_x : list F; r_u : list F; r_t : tref; r_f : list F; r_g : list F }.
(* n_last = (self.state, self.input) of the most recent forward *)
Record nst := { n_t : Z; n_last : option (list F * list F); n_ref : option nref }.
Definition nst_init (t : Z) : nst := {| n_t := t; n_last := None; n_ref := None |}.
Inductive nop :=
  | NCall (x u : list F)                         (* system(x, u) *)
  | NDirect (x u : list F) (t : F)               (* state_transition / observation (x, u, t) directly *)
  | NReset (t : Z) | NSetTime (t : Z)
  | NSetRef (ox ou : option (list F)) (ot : option F)
  | NRead.                                       (* A, B, C, D, c1, c2 *)
Definition nop_erase (o : nop) : op :=
  match o with NCall _ _ => Call | NDirect _ _ _ => Direct | NReset t => Reset t | NSetTime t => SetTime t
             | NSetRef _ _ _ => SetRef None | NRead => Direct end.
Definition tval (now : Z) (r : tref) : F := match r with TAlias => ofZ now | TFixed v => v end.
Definition set_time (st : nst) (v : Z) : nst := {| n_t := v; n_last := n_last st; n_ref := n_ref st |}.

(* [old = false]: the code as it is (t=None stores systime.clone(), i.e. the value);
   [old = true]: before 6b6eb73 (t=None stored the buffer itself) *)
Definition nls_step_gen (old : bool) (fs gs : list fexpr) (st : nst) (o : nop) : option (nst * list F) :=
  match o with
  | NCall x u =>
      let t := ofZ (n_t st) in
      Some ({| n_t := (n_t st + 1)%Z; n_last := Some (x, u); n_ref := n_ref st |},
            evals fs x u t ++ evals gs x u t)
  | NDirect x u t => Some (st, evals fs x u t ++ evals gs x u t)
  | NReset v => Some (set_time st v, [])
  | NSetTime v => Some (set_time st v, [])
  | NSetRef ox ou ot =>
      let rx := match ox with Some x => Some x | None => option_map fst (n_last st) end in
      let ru := match ou with Some u => Some u | None => option_map snd (n_last st) end in
      match rx, ru with
      | Some x, Some u =>
          let rt := match ot with
                    | None => if old then TAlias else TFixed (ofZ (n_t st))
                    | Some v => TFixed v
                    end in
          let t := tval (n_t st) rt in
          Some ({| n_t := n_t st; n_last := n_last st;
                   n_ref := Some {| r_x := x; r_u := u; r_t := rt;
                                    r_f := evals fs x u t; r_g := evals gs x u t |} |}, [])
      | _, _ => None                    (* AttributeError: no self.state / self.input yet *)
      end
  | NRead =>
      match n_ref st with
      | None => None                    (* AttributeError: no _ref_state *)
      | Some r => Some (st, lin_read fs gs (r_x r) (r_u r) (tval (n_t st) (r_t r)) (r_f r) (r_g r))
      end
  end.
Definition nls_step'_gen old fs gs (st : nst) (o : nop) : nst :=
  match nls_step_gen old fs gs st o with Some (st', _) => st' | None => st end.
Fixpoint nls_run_gen old fs gs (st : nst) (ops : list nop) : nst :=
  match ops with [] => st | o :: r => nls_run_gen old fs gs (nls_step'_gen old fs gs st o) r end.
Fixpoint nls_trace_gen old fs gs (st : nst) (ops : list nop) : list (Z * bool * list F) :=
  match ops with
  | [] => []
  | o :: r => match nls_step_gen old fs gs st o with
              | Some (st', out) => (n_t st', false, out) :: nls_trace_gen old fs gs st' r
              | None => (n_t st, true, []) :: nls_trace_gen old fs gs st r
              end
  end.
(* the code as it is *)
Definition nls_step := nls_step_gen false.
Definition nls_step' := nls_step'_gen false.
Definition nls_run := nls_run_gen false.
Definition nls_trace := nls_trace_gen false.
(* history *)
Definition nls_step_old := nls_step_gen true.
Definition nls_step'_old := nls_step'_gen true.
Definition nls_run_old := nls_run_gen true.
End NLS.

(* ------------------------------------------------------------------ exact-route evaluators (Q) *)
Definition pick {A} (l : list (nat * A)) (f : A -> bool) : list nat :=
  map fst (filter (fun c => negb (f (snd c))) l).

Definition zb_eqb (a b : list (Z * bool)) : bool :=
  Nat.eqb (length a) (length b) &&
  forallb (fun p => Z.eqb (fst (fst p)) (fst (snd p)) && Bool.eqb (snd (fst p)) (snd (snd p))) (combine a b).
Definition time_bad (cs : list (nat * (kind * Z * list op * list (Z * bool)))) : list nat :=
  pick cs (fun c => match c with (k, t0, ops, tr) => zb_eqb (time_trace k t0 ops) tr end).

(* products: kind 0 = bmv(M, r), 1 = bvv(l, r) (row-major), 2 = bvmv(l, M, r) *)
Definition lin_bad (cs : list (nat * (nat * list (list Q) * list Q * list Q * list Q))) : list nat :=
  pick cs (fun c => match c with (k, M, l, r, out) =>
    Qlist_eqb (match k with
               | 0%nat => bmv_m M r
               | 1%nat => concat (bvv_m l r)
               | _ => [bvmv_m l M r]
               end) out end).

Definition mk_lti (c : list (list Q) * list (list Q) * list (list Q) * list (list Q) * option (list Q) * option (list Q)) : lti (F:=Q) :=
  let '(a, b, c', d, c1, c2) := c in {| sA := a; sB := b; sC := c'; sD := d; sc1 := c1; sc2 := c2 |}.
Definition lti_bad (cs : list (nat * ((list (list Q) * list (list Q) * list (list Q) * list (list Q) * option (list Q) * option (list Q))
                                        * list Q * list Q * list Q * list Q))) : list nat :=
  pick cs (fun c => match c with (s, x, u, nx, y) =>
    Qlist_eqb (lti_next (mk_lti s) x u) nx && Qlist_eqb (lti_obs (mk_lti s) x u) y end).

Definition tr_eqb (a b : list (Z * bool * list Q)) : bool :=
  Nat.eqb (length a) (length b) &&
  forallb (fun p => match p with ((t1, r1, o1), (t2, r2, o2)) => Z.eqb t1 t2 && Bool.eqb r1 r2 && Qlist_eqb o1 o2 end)
          (combine a b).
Definition mk_ltv (c : Z * list (list (list Q)) * list (list (list Q)) * list (list (list Q)) * list (list (list Q))
                       * option (list (list Q)) * option (list (list Q))) : ltv (F:=Q) :=
  let '(T, a, b, c', d, c1, c2) := c in {| vT := T; vA := a; vB := b; vC := c'; vD := d; vc1 := c1; vc2 := c2 |}.
Definition ltv_bad (cs : list (nat * ((Z * list (list (list Q)) * list (list (list Q)) * list (list (list Q)) * list (list (list Q))
                                         * option (list (list Q)) * option (list (list Q)))
                                        * Z * list Q * list (lop (F:=Q)) * list (Z * bool * list Q)))) : list nat :=
  pick cs (fun c => match c with (s, t0, x0, ops, tr) => tr_eqb (ltv_trace (mk_ltv s) (t0, x0) ops) tr end).

(* polynomial trees only: sin / cos never evaluated (the case is reported when a tree is not polynomial) *)
Definition TransQ_poly : Trans Q :=
  {| tsqrt := fun _ => 0%Q; tsin := fun _ => 0%Q; tcos := fun _ => 0%Q; tatan := fun _ => 0%Q;
     texp := fun _ => 0%Q; tln := fun _ => 0%Q; tpi := 0%Q |}.
Definition nls_bad (cs : list (nat * (list (fexpr (F:=Q)) * list (fexpr (F:=Q)) * Z * list (nop (F:=Q)) * list (Z * bool * list Q)))) : list nat :=
  pick cs (fun c => match c with (fs, gs, t0, ops, tr) =>
    forallb is_poly fs && forallb is_poly gs &&
    tr_eqb (nls_trace (TF:=TransQ_poly) fs gs (nst_init t0) ops) tr end).
