(* exact-route evaluators (Q) for the polynomial backward functions of Model/LieJac.v *)
From Coq Require Import ZArith QArith List Bool.
Import ListNotations.
From PV Require Import Base.Num Model.LieGroup Model.LieJac.
Close Scope Q_scope.

(* op codes: 0 Mul [X; gz] | 1 Inv [Y; gz] | 2 Act [X; out; gp] | 3 Act4 [X; out; gp]
             4 Adj [X; out; gz] | 5 AdjT [X; a; gz]      result = gradients concatenated *)
Definition jac_eval (g op : nat) (args : list (list Q)) : list Q :=
  let a0 := nth 0 args [] in let a1 := nth 1 args [] in let a2 := nth 2 args [] in
  match op with
  | 0 => let r := mul_bwd g a0 a1 in fst r ++ snd r
  | 1 => inv_bwd g a0 a1
  | 2 => let r := act_bwd g a0 a1 a2 in fst r ++ snd r
  | 3 => let r := act4_bwd g a0 a1 a2 in fst r ++ snd r
  | 4 => let r := adj_bwd g a0 a1 a2 in fst r ++ snd r
  | _ => let r := adjT_bwd g a0 a1 a2 in fst r ++ snd r
  end.
Definition jac_case := (nat * nat * nat * list (list Q) * list Q)%type.
Definition jac_bad (cs : list jac_case) : list nat :=
  map (fun c => match c with (i, _, _, _, _) => i end)
      (filter (fun c => match c with (_, g, op, args, out) => negb (Qlist_eqb (jac_eval g op args) out) end) cs).
