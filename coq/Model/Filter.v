(* Model of pypose/module/ekf.py (EKF.forward), ukf.py (UKF.forward, sigma_weight_points,
   compute_cov) and pf.py (PF.forward and its helpers) -- transcribed as coded.

   Oracles (Section variables; contracts are hypotheses of the theorems in Proofs/Filter.v):
     pinv   : torch.linalg.pinv            (contract: the inverse on symmetric positive definite input)
     msqrt  : UKF.msqrt / the factor used by MultivariateNormal (default torch.linalg.cholesky;
              contract: L * L^T = M, used for the "fixed" theorems only)
     lognorm: the normalising constant of MultivariateNormal.log_prob (any function of R)
   The user's system (state_transition / observation and the autograd Jacobians A, C that
   NLS.set_refpoint + the properties A, C return at the reference point) is the record [system].
   The time argument t is not modelled (time-invariant systems).

   History.  Up to /repo commits 8375f2f (EKF), 7981b02 (UKF), b057b94 (PF) the code deviated from the
   textbook; the old behaviour is kept as the [_old] definitions (flags of the [_gen] functions) for the
   refutation theorems of Props/C13.v:
     * EKF.forward took the innovation  y - h(x, u)  at the PRE-transition state x   (at_pred = false);
     * UKF.sigma_weight_points added the ROWS of the lower Cholesky factor             (by_cols = false);
     * UKF.forward paired the state deviations of the FIRST sigma set with the observation
       deviations of the SECOND one in Pxy                                             (same_set = false);
     * PF.forward called self.model(xp, u) (System.forward): observation of the particles BEFORE the
       transition                                                                      (at_prop = false).
   Now: innovation at the predicted state, [msqrt(..).mT] (columns), [ex = xe - xs] recomputed from the
   second sigma set, [xs = state_transition(xp, u, t); ye = observation(xs, u, t)] (PF.forward no longer
   calls model.forward, so the system clock is not advanced -- time is not modelled here anyway). *)
From Coq Require Import ZArith QArith List Bool Arith.
Import ListNotations.
From PV Require Import Base.Num Base.Mat.
Close Scope Q_scope.

Section Filter.
Context {F : Type} {NF : Num F}.
Local Open Scope num_scope.

Variable pinv : @mat F -> @mat F.
Variable msqrt : @mat F -> @mat F.

Record system := {
  sf : list F -> list F -> list F;          (* state_transition(state, input) *)
  sh : list F -> list F -> list F;          (* observation(state, input) *)
  sA : list F -> list F -> @mat F;          (* model.A after set_refpoint(state, input) *)
  sC : list F -> list F -> @mat F }.        (* model.C after set_refpoint(state, input) *)

(* x' = A x + B u + c1,  y = C x + D u + c2 *)
Definition lin_f (A B : @mat F) (c1 : list F) (x u : list F) : list F :=
  vplus (vplus (mapply A x) (mapply B u)) c1.
Definition lin_system (A B C D : @mat F) (c1 c2 : list F) : system :=
  {| sf := lin_f A B c1; sh := lin_f C D c2; sA := fun _ _ => A; sC := fun _ _ => C |}.

(* ------------------------------------------------------------------ Kalman filter (spec) *)
Definition kf_predict (A B : @mat F) (c1 : list F) (Q : @mat F) (x u : list F) (P : @mat F) :=
  (lin_f A B c1 x u, madd (mmul (mmul A P) (mtr A)) Q).
Definition kf_update (C D : @mat F) (c2 : list F) (R : @mat F) (xm : list F) (Pm : @mat F) (u y : list F) :=
  let S := madd (mmul (mmul C Pm) (mtr C)) R in
  let K := mmul (mmul Pm (mtr C)) (pinv S) in
  (vplus xm (mapply K (vminus y (lin_f C D c2 xm u))),
   mmul (msub (mid (mrows Pm)) (mmul K C)) Pm).
Definition kf_step A B C D c1 c2 Q R (x y u : list F) (P : @mat F) : list F * @mat F :=
  let '(xm, Pm) := kf_predict A B c1 Q x u P in kf_update C D c2 R xm Pm u y.

(* ------------------------------------------------------------------ EKF.forward *)
(* at_pred = true  : as coded and documented (innovation at the predicted state x^-)
   at_pred = false : the code before 8375f2f (innovation at the pre-transition state x) *)
Definition ekf_forward_gen (at_pred : bool) (s : system) (Q R : @mat F) (x y u : list F) (P : @mat F)
  : list F * @mat F :=
  let I := mid (mcols P) in                                  (* torch.eye(P.shape[-1]) *)
  let A := sA s x u in
  let C := sC s x u in
  let xm := sf s x u in                                      (* 1. system transition *)
  let Pm := madd (mmul (mmul A P) (mtr A)) Q in              (* 2. A @ P @ A.mT + Q *)
  let K := mmul (mmul Pm (mtr C)) (pinv (madd (mmul (mmul C Pm) (mtr C)) R)) in   (* 3. *)
  let e := vminus y (sh s (if at_pred then xm else x) u) in  (*    y - observation(x, u) *)
  let xp := vplus xm (mapply K e) in                         (* 4. *)
  let P' := mmul (msub I (mmul K C)) Pm in                   (* 5. (I - K C) P *)
  (xp, P').
Definition ekf_forward := ekf_forward_gen true.
Definition ekf_forward_old := ekf_forward_gen false.      (* before 8375f2f *)

Definition ekf_run (s : system) (Q R : @mat F) (st : list F * @mat F) (steps : list (list F * list F))
  : list F * @mat F :=
  fold_left (fun st yu => ekf_forward s Q R (fst st) (fst yu) (snd yu) (snd st)) steps st.

(* ------------------------------------------------------------------ UKF *)
Definition ofnat (n : nat) : F := ofZ (Z.of_nat n).

(* sigma_weight_points(x, P, k).  by_cols = true : as coded (xr = msqrt(...).mT: the columns of the factor are
   added); by_cols = false : the code before 7981b02 (rows).  None = the assert on the shapes fails. *)
Definition sigma_points_gen (by_cols : bool) (x : list F) (P : @mat F) (k : F)
  : option (@mat F * list F) :=
  if negb (Nat.eqb (length x) (mcols P) && Nat.eqb (mcols P) (mrows P)) then None else
  let n := length x in
  let nk := ofnat n + k in
  let xr0 := msqrt (mscale nk P) in
  let xr := if by_cols then mtr xr0 else xr0 in
  let we := k / nk in
  let wr := one / (two * nk) in
  let p := [x] ++ map (fun row => vplus x row) xr ++ map (fun row => vminus x row) xr in
  let w := [we] ++ repeat wr (mrows xr) ++ repeat wr (mrows xr) in
  Some (p, w).

(* compute_cov(a, b, w, Q) = Q + sum_i (w_i a_i) b_i^T ; Q = 0 when omitted *)
Definition wcov (a b : @mat F) (w : list F) (Q : option (@mat F)) : @mat F :=
  let s := mmul (mtr (rowscale w a)) b in
  match Q with Some Q => madd Q s | None => s end.

(* xe - xs : the mean minus every row *)
Definition dev_rows (xe : list F) (xs : @mat F) : @mat F := map (fun p => vminus xe p) xs.

(* by_cols / same_set = true, true : UKF.forward as coded (ex = xe - xs recomputed after the second
   sigma_weight_points); false, false : the code before 7981b02 *)
Definition ukf_forward_gen (by_cols same_set : bool) (s : system) (Q R : @mat F)
  (x y u : list F) (P : @mat F) (k : F) : option (list F * @mat F) :=
  match sigma_points_gen by_cols x P k with
  | None => None
  | Some (xs0, w) =>
    let xs := map (fun p => sf s p u) xs0 in
    let xe := wsum_rows w xs in
    let ex := dev_rows xe xs in
    let Pm := wcov ex ex w (Some Q) in
    match sigma_points_gen by_cols xe Pm k with
    | None => None
    | Some (xs2, w2) =>
      let ex' := if same_set then dev_rows xe xs2 else ex in
      let ys := map (fun p => sh s p u) xs2 in
      let ye := wsum_rows w2 ys in
      let ey := dev_rows ye ys in
      let Py := wcov ey ey w2 (Some R) in
      let Pxy := wcov ex' ey w2 None in
      let K := mmul Pxy (pinv Py) in
      let x' := vplus xe (mapply K (vminus y ye)) in
      let P' := msub Pm (mmul (mmul K Py) (mtr K)) in
      Some (x', P')
    end
  end.
Definition ukf_forward := ukf_forward_gen true true.
Definition ukf_forward_old := ukf_forward_gen false false.      (* before 7981b02 *)
(* the predicted mean / covariance only (first half of forward) *)
Definition ukf_predict_gen (by_cols : bool) (s : system) (Q : @mat F) (x u : list F) (P : @mat F) (k : F)
  : option (list F * @mat F) :=
  match sigma_points_gen by_cols x P k with
  | None => None
  | Some (xs0, w) =>
    let xs := map (fun p => sf s p u) xs0 in
    let xe := wsum_rows w xs in
    let ex := dev_rows xe xs in
    Some (xe, wcov ex ex w (Some Q))
  end.
Definition ukf_predict := ukf_predict_gen true.
Definition ukf_predict_old := ukf_predict_gen false.

Definition ukf_run (s : system) (Q R : @mat F) (k : F) (st : option (list F * @mat F))
  (steps : list (list F * list F)) : option (list F * @mat F) :=
  fold_left (fun st yu => match st with
                          | Some st => ukf_forward s Q R (fst st) (fst yu) (snd yu) (snd st) k
                          | None => None end) steps st.

(* ------------------------------------------------------------------ PF (deterministic parts) *)
(* generate_particles: MultivariateNormal(x, n P).sample = x + L eps_i with L = chol(n P),
   eps_i the standard-normal draws (one row per particle) *)
Definition pf_particles (x : list F) (P : @mat F) (eps : @mat F) : @mat F :=
  let L := msqrt (mscale (ofnat (length x)) P) in
  map (fun e => vplus x (mapply L e)) eps.

(* MultivariateNormal(ye_i, R).log_prob(y) = -1/2 (y-ye_i)^T R^-1 (y-ye_i) - lognorm R *)
Variable lognorm : @mat F -> F.
Definition pf_loglik (R : @mat F) (y : list F) (ye : @mat F) : list F :=
  let Ri := pinv R in
  map (fun yi => let d := vminus y yi in (zero - half * qform Ri d) - lognorm R) ye.

Definition cumsum (q : list F) : list F :=
  snd (fold_left (fun acc a => let s := fst acc + a in (s, snd acc ++ [s])) q (zero, [])).
(* torch.searchsorted(c, r) (right = False): the number of entries < r *)
Definition searchsorted (c : list F) (r : F) : nat := length (filter (fun a => a <? r) c).

(* resample_particles + mean + compute_cov, given the weights q and the uniforms r.
   None = an index equal to the number of particles (IndexError). *)
Definition pf_cov (ex : @mat F) (Q : @mat F) : @mat F :=
  madd Q (mscale (one / ofnat (mrows ex)) (mmul (mtr ex) ex)).
Definition col_mean (X : @mat F) : list F :=
  wsum_rows (repeat (one / ofnat (mrows X)) (mrows X)) X.
Definition pf_estimate (q : list F) (xs : @mat F) (r : list F) (Q : @mat F) : option (list F * @mat F) :=
  let c := cumsum q in
  let idx := map (searchsorted c) r in
  if existsb (fun i => Nat.leb (length xs) i) idx then None else
  let xr := map (fun i => nth i xs []) idx in
  let x := col_mean xr in
  let ex := map (fun p => vminus p x) xr in
  Some (x, pf_cov ex Q).

Section PFTrans.
Context {TF : Trans F}.
Definition softmax (l : list F) : list F :=
  let e := map texp l in
  let s := fold_left add e zero in
  map (fun a => a / s) e.
(* forward(x, y, u, P, Q, R) with the normal draws eps and the uniform draws r replayed.
   at_prop = true : as coded  (xs = state_transition(xp, u, t); ye = observation(xs, u, t));
   at_prop = false: the code before b057b94 (xs, ye = self.model(xp, u): observation of xp) *)
Definition pf_forward_gen (at_prop : bool) (s : system) (Q R : @mat F) (x y u : list F) (P : @mat F)
  (eps : @mat F) (r : list F) : option (list F * @mat F) :=
  let xp := pf_particles x P eps in
  let xs := map (fun p => sf s p u) xp in
  let ye := map (fun p => sh s p u) (if at_prop then xs else xp) in
  let q := softmax (pf_loglik R y ye) in
  pf_estimate q xs r Q.
Definition pf_forward := pf_forward_gen true.
Definition pf_forward_old := pf_forward_gen false.      (* before b057b94 *)
End PFTrans.

End Filter.

(* ===================================================================== *)
(*  Evaluators for the correspondence check                                *)
(*  The model is evaluated by vm_compute in binary fixed-point arithmetic  *)
(*  with 320 fractional bits on Bignums' BigZ (native 63-bit words): every *)
(*  operation is the exact one rounded down to a multiple of 2^-320.       *)
(*  (Exact rationals were tried first: stdlib Q needs minutes and BigQ     *)
(*  half a minute per 4x4 case because of the gcd normalisations.)  The    *)
(*  comparison with the implementation is made with the relative           *)
(*  tolerance the harness passes (1e-6 of the natural scale), some 80      *)
(*  orders of magnitude above the evaluation error.                        *)
(* ===================================================================== *)
From Bignums Require Import BigZ.

Definition fixp : bigZ := 320%bigZ.
(* deliberately not an Instance: passed explicitly, so that type-class resolution elsewhere is unaffected *)
Definition NumFix : Num bigZ := {|
  zero := 0%bigZ; one := BigZ.shiftl 1%bigZ fixp;
  add := BigZ.add; sub := BigZ.sub;
  mul := fun a b => BigZ.shiftr (BigZ.mul a b) fixp;
  div := fun a b => BigZ.div (BigZ.shiftl a fixp) b;
  opp := BigZ.opp;
  ofZ := fun z => BigZ.shiftl (BigZ.of_Z z) fixp;
  ltb := BigZ.ltb; leb := BigZ.leb; eqb := BigZ.eqb |}.
Definition bq (q : Q) : bigZ := BigZ.div (BigZ.shiftl (BigZ.of_Z (Qnum q)) fixp) (BigZ.of_Z (Zpos (Qden q))).
Definition bv (v : list Q) : list bigZ := map bq v.
Definition bm (M : list (list Q)) : list (list bigZ) := map bv M.
(* square root in fixed point: sqrt(a / 2^p) = sqrt(a * 2^p) / 2^p, rounded down *)
Definition fix_sqrt (a : bigZ) : bigZ := BigZ.sqrt (BigZ.shiftl a fixp).
(* literals of the case files: +-m * 2^e with m a primitive 63-bit integer (a float64 mantissa).  Case files
   with the same data as stdlib Q literals spend 1 ms per number in elaboration (binary positives);
   primitive integers are 8 times faster. *)
Definition fp (m : Uint63.int) (e : Z) : bigZ := BigZ.shiftl (BigZ.Pos (BigN.N0 m)) (BigZ.of_Z (e + 320)).
Definition fn (m : Uint63.int) (e : Z) : bigZ := BigZ.opp (fp m e).
Arguments fp m%uint63_scope e%Z_scope.
Arguments fn m%uint63_scope e%Z_scope.
(* back to Q (debugging / replays) *)
Definition fix_to_Q (a : bigZ) : Q := Qred (Qmake (BigZ.to_Z a) (Z.to_pos (2 ^ BigZ.to_Z fixp))).

Section Eval.
Let F := bigZ.
Existing Instance NumFix.
Local Open Scope num_scope.
Definition fmat := list (list F).
Definition fabs (a : F) : F := if a <? zero then - a else a.
Definition vclose (tol : F) (u v : list F) : bool :=
  Nat.eqb (length u) (length v) && forallb (fun p => fabs (fst p - snd p) <=? tol) (combine u v).
Definition mclose (tol : F) (A B : fmat) : bool :=
  Nat.eqb (length A) (length B) && forallb (fun p => vclose tol (fst p) (snd p)) (combine A B).

Definition pinvE (M : fmat) : fmat := match minv M with Some X => X | None => [] end.
Definition msqrtE (M : fmat) : fmat := mchol fix_sqrt M.

(* system family used by the tie:  f(x,u) = A x + B u + c1 + a .* pad_n (x .* x)   (a = 0: linear)
                                   h(x,u) = C x + D u + c2 + b .* pad_m (x .* x)
   pad_d = the first d entries, zero-padded *)
Definition pad (d : nat) (x : list F) : list F := firstn d (x ++ repeat zero d).
Definition quad_f (A B : fmat) (c a : list F) (x u : list F) : list F :=
  vplus (lin_f A B c x u) (vmap2 mul a (pad (mrows A) (vmap2 mul x x))).
Definition quad_jac (A : fmat) (a : list F) (x : list F) : fmat :=
  mkmat (mrows A) (mcols A) (fun i j =>
    mget A i j + (if Nat.eqb i j then (two * vget a i * vget x i) else zero)).
Record qsys := { qA : fmat; qB : fmat; qC : fmat; qD : fmat;
                 qc1 : list F; qc2 : list F; qa : list F; qb : list F }.
Definition qsystem (s : qsys) : @system F :=
  {| sf := quad_f (qA s) (qB s) (qc1 s) (qa s);
     sh := quad_f (qC s) (qD s) (qc2 s) (qb s);
     sA := fun x _ => quad_jac (qA s) (qa s) x;
     sC := fun x _ => quad_jac (qC s) (qb s) x |}.

(* one filter step: (index, system, Q, R, x, y, u, P, k, implementation's x', P', tolx, tolP) *)
Definition fcase := (nat * qsys * fmat * fmat * list F * list F * list F * fmat * F * list F * fmat * F * F)%type.
Definition case_idx (c : fcase) : nat := match c with (i, _, _, _, _, _, _, _, _, _, _, _, _) => i end.
Definition ekf_case_gen (at_pred : bool) (c : fcase) : bool :=
  match c with (_, s, Qm, Rm, x, y, u, P, _, ox, oP, tx, tP) =>
    let '(mx, mP) := ekf_forward_gen pinvE at_pred (qsystem s) Qm Rm x y u P in
    vclose tx mx ox && mclose tP mP oP end.
Definition ukf_case_gen (by_cols same_set : bool) (c : fcase) : bool :=
  match c with (_, s, Qm, Rm, x, y, u, P, k, ox, oP, tx, tP) =>
    match ukf_forward_gen pinvE msqrtE by_cols same_set (qsystem s) Qm Rm x y u P k with
    | Some (mx, mP) => vclose tx mx ox && mclose tP mP oP
    | None => false end end.
Definition ekf_bad (cs : list fcase) : list nat := map case_idx (filter (fun c => negb (ekf_case_gen true c)) cs).
Definition ukf_bad (cs : list fcase) : list nat := map case_idx (filter (fun c => negb (ukf_case_gen true true c)) cs).
(* the old variants (debugging / classification of a regression only) *)
Definition ekf_old_bad (cs : list fcase) : list nat := map case_idx (filter (fun c => negb (ekf_case_gen false c)) cs).
Definition ukf_old_bad (cs : list fcase) : list nat := map case_idx (filter (fun c => negb (ukf_case_gen false false c)) cs).
(* the model's output itself (debugging) *)
Definition to_Qv (v : list F) : list Q := map fix_to_Q v.

(* a run of the implementation (one system, Q, R, k): every step (index, x, y, u, P, x', P', tolx, tolP) is
   checked from the implementation's own previous state *)
Definition rstep := (nat * list F * list F * list F * fmat * list F * fmat * F * F)%type.
Definition run_bad (ukf : bool) (s : qsys) (Qm Rm : fmat) (k : F) (steps : list rstep) : list nat :=
  map (fun st : rstep => match st with (i, _, _, _, _, _, _, _, _) => i end)
      (filter (fun st : rstep => match st with (i, x, y, u, P, ox, oP, tx, tP) =>
         negb (if ukf then ukf_case_gen true true (i, s, Qm, Rm, x, y, u, P, k, ox, oP, tx, tP)
               else ekf_case_gen true (i, s, Qm, Rm, x, y, u, P, k, ox, oP, tx, tP)) end) steps).

(* ---- PF *)
(* particles: (index, x, P, eps, implementation's particles, tol) *)
Definition pf_part_case := (nat * list F * fmat * fmat * fmat * F)%type.
Definition pf_part_ok (c : pf_part_case) : bool :=
  match c with (_, x, P, eps, out, tol) => mclose tol (pf_particles msqrtE x P eps) out end.
Definition pf_part_bad (cs : list pf_part_case) : list nat :=
  map (fun c : pf_part_case => match c with (i, _, _, _, _, _) => i end) (filter (fun c => negb (pf_part_ok c)) cs).
(* log-likelihood differences l_i - l_0 (the normalising constant cancels):
   (index, system, R, y, u, particles xp, implementation's log_prob values, tol) *)
Definition diffs (l : list F) : list F := match l with [] => [] | a :: _ => map (fun b => b - a) l end.
Definition pf_lik_case := (nat * qsys * fmat * list F * list F * fmat * list F * F)%type.
Definition pf_lik_ok (c : pf_lik_case) : bool :=
  match c with (_, s, Rm, y, u, xp, out, tol) =>
    let ye := map (fun p => sh (qsystem s) (sf (qsystem s) p u) u) xp in       (* observation(state_transition(xp)) *)
    vclose tol (diffs (pf_loglik pinvE (fun _ => zero) Rm y ye)) (diffs out) end.
Definition pf_lik_bad (cs : list pf_lik_case) : list nat :=
  map (fun c : pf_lik_case => match c with (i, _, _, _, _, _, _, _) => i end) (filter (fun c => negb (pf_lik_ok c)) cs).
(* resampling + estimate: (index, system, Q, u, particles xp, weights q, uniforms r, impl x', P', tol);
   code 0 = agrees, 1 = disagrees, 2 = some uniform within 1e-9 of a cumulative-sum boundary (float and
   exact cumulative sums may then select different particles: undecided) *)
Definition near_boundary (tol : F) (c : list F) (r : list F) : bool :=
  existsb (fun ri => existsb (fun a => fabs (a - ri) <=? tol) c) r.
Definition pf_est_case := (nat * qsys * fmat * list F * fmat * list F * list F * list F * fmat * F)%type.
Definition pf_est_code (c : pf_est_case) : nat :=
  match c with (_, s, Qm, u, xp, q, r, ox, oP, tol) =>
    if near_boundary (bq (1 # 1000000000)) (cumsum q) r then 2%nat else
    let xs := map (fun p => sf (qsystem s) p u) xp in
    match pf_estimate q xs r Qm with
    | Some (mx, mP) => if vclose tol mx ox && mclose tol mP oP then 0%nat else 1%nat
    | None => 1%nat end end.
Definition pf_est_codes (cs : list pf_est_case) : list (nat * nat) :=
  map (fun c : pf_est_case => match c with (i, _, _, _, _, _, _, _, _, _) => (i, pf_est_code c) end) cs.
End Eval.
