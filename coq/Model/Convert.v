(* Model of pypose/lietensor/convert.py (mat2SO3, mat2SE3, mat2Sim3, mat2RxSO3, from_matrix, euler2SO3)
   and of LieTensor.euler (pypose/lietensor/lietensor.py), exactly as coded.

   Conventions.
   * A batch is the list of its items in row-major order (the code is item-wise apart from the
     all-items tests of check=True and of the rank test; the batch shape [B : list nat] only occurs in
     the [_old] definitions that record the rank test before its repair in /repo 988caf7).
   * [outcome]: the call returns ([Value]) or raises ([Raises]); the ValueError messages are numbered
     in the order of the tests of the code.  An item of a returned batch is [None] when it has
     non-finite entries (division by zero / sqrt or pow of a negative number on the selected branch);
     no exception is raised by the code in that case.
   * rtol / atol are parameters (the code's defaults are 1e-5); NOTE the code re-uses [atol] as the
     threshold of the first mask of the quaternion extraction ([rmat_t[...,2,2] < atol]) - transcribed.
   * Python's literal [1/3] in [torch.pow(det, 1/3)] is the real number 1/3 here (its rounding to a
     double is on the level of the float roundings that are not modelled). *)
From Coq Require Import ZArith QArith List Bool.
Import ListNotations.
From PV Require Import Base.Num Model.LieGroup.
Close Scope Q_scope.

Inductive exn := ValueError (code : nat) | RuntimeError.
Inductive outcome (A : Type) := Value (a : A) | Raises (e : exn).
Arguments Value {A} a.
Arguments Raises {A} e.

(* ValueError messages, in the order of the code *)
Definition E_size : nat := 0.    (* "Input size must be a * x 3 x 3 or * x 3 x 4 or * x 4 x 4 tensor" *)
Definition E_orth : nat := 1.    (* "Input rotation matrices are not all orthogonal matrix" *)
Definition E_det : nat := 2.     (* "Input rotation matrices' determinant are not all equal to 1" *)
Definition E_rank : nat := 3.    (* "Rotation matrix not full rank." *)
Definition E_ltype : nat := 4.   (* "Input ltype must be one of SO3_type, SE3_type, Sim3_type or RxSO3_type" *)

Definition obind {A B} (o : outcome A) (f : A -> outcome B) : outcome B :=
  match o with Value a => f a | Raises e => Raises e end.
Definition omap {A B} (f : A -> B) (o : outcome A) : outcome B :=
  match o with Value a => Value (f a) | Raises e => Raises e end.

(* torch broadcasting of two shapes *)
Fixpoint bcast_rev (a b : list nat) : bool :=
  match a, b with
  | x :: a', y :: b' => (Nat.eqb x y || Nat.eqb x 1 || Nat.eqb y 1) && bcast_rev a' b'
  | _, _ => true
  end.
Definition broadcastable (a b : list nat) : bool := bcast_rev (rev a) (rev b).
Definition accepted (rows cols : nat) : bool :=
  (Nat.eqb rows 3 && Nat.eqb cols 3) || (Nat.eqb rows 3 && Nat.eqb cols 4) || (Nat.eqb rows 4 && Nat.eqb cols 4).

Section Convert.
Context {F : Type} {NF : Num F} {TF : Trans F}.
Local Open Scope num_scope.
Variables rtol atol : F.

(* ---------------- input layouts: * x 3 x 3, * x 3 x 4, * x 4 x 4 *)
Inductive matin :=
| In33 (R : @mat3 F)
| In34 (R : @mat3 F) (t : @vec3 F)
| In44 (R : @mat3 F) (t : @vec3 F) (last : @vec4 F).
(* mat[..., :3, :3] *)
Definition in_rot (m : matin) : mat3 := match m with In33 R => R | In34 R _ => R | In44 R _ _ => R end.
(* zeros if shape[-1] == 3 else mat[..., :3, 3] *)
Definition in_trans (m : matin) : vec3 := match m with In33 _ => vzero | In34 _ t => t | In44 _ t _ => t end.
Definition in33_of_mat4 (m : @mat4 F) : matin := let '(r0, r1, r2, r3) := m in In33 (fst r0, fst r1, fst r2).
Definition in34_of_mat4 (m : @mat4 F) : matin :=
  let '(r0, r1, r2, r3) := m in In34 (fst r0, fst r1, fst r2) (snd r0, snd r1, snd r2).
Definition in44_of_mat4 (m : @mat4 F) : matin :=
  let '(r0, r1, r2, r3) := m in In44 (fst r0, fst r1, fst r2) (snd r0, snd r1, snd r2) r3.

(* ---------------- torch.allclose, one entry: |a - b| <= atol + rtol |b| *)
Definition close (a b : F) : bool := absF (a - b) <=? atol + rtol * absF b.
Definition v3all (f : F -> F -> bool) (a b : vec3) : bool :=
  f (vx a) (vx b) && f (vy a) (vy b) && f (vz a) (vz b).
Definition m3all (f : F -> F -> bool) (a b : mat3) : bool :=
  v3all f (mr0 a) (mr0 b) && v3all f (mr1 a) (mr1 b) && v3all f (mr2 a) (mr2 b).
(* check=True: e0 = mat @ mat.mT close to eye(3); det(mat) close to 1 *)
Definition orth_ok (M : mat3) : bool := m3all close (mmul3 M (mtrans M)) mid3.
Definition det_ok (M : mat3) : bool := close (mdet3 M) one.

(* ---------------- mat2SO3, one item, after the checks *)
Definition b2f (b : bool) : F := if b then one else zero.
Definition e3 (m : mat3) (i j : nat) : F :=
  let r := match i with 0%nat => mr0 m | 1%nat => mr1 m | _ => mr2 m end in
  match j with 0%nat => vx r | 1%nat => vy r | _ => vz r end.

Record so3_sel := { sel_c0 : F; sel_c1 : F; sel_c2 : F; sel_c3 : F }.
(* the four 0/1 masks mask_c0..mask_c3 (as floats) *)
Definition masks (T : mat3) : so3_sel :=
  let mask_d2 := e3 T 2 2 <? atol in                  (* sic: the tolerance is the threshold *)
  let mask_d0_d1 := e3 T 1 1 <? e3 T 0 0 in           (* rmat_t[0,0] > rmat_t[1,1] *)
  let mask_d0_nd1 := e3 T 0 0 <? - e3 T 1 1 in
  {| sel_c0 := b2f (mask_d2 && mask_d0_d1);
     sel_c1 := b2f (mask_d2 && negb mask_d0_d1);
     sel_c2 := b2f (negb mask_d2 && mask_d0_nd1);
     sel_c3 := b2f (negb mask_d2 && negb mask_d0_nd1) |}.
Definition comb (s : so3_sel) (a0 a1 a2 a3 : F) : F :=
  a0 * sel_c0 s + a1 * sel_c1 s + a2 * sel_c2 s + a3 * sel_c3 s.
Definition disc0 (T : mat3) : F := one + e3 T 0 0 - e3 T 1 1 - e3 T 2 2.
Definition disc1 (T : mat3) : F := one - e3 T 0 0 + e3 T 1 1 - e3 T 2 2.
Definition disc2 (T : mat3) : F := one - e3 T 0 0 - e3 T 1 1 + e3 T 2 2.
Definition disc3 (T : mat3) : F := one + e3 T 0 0 + e3 T 1 1 + e3 T 2 2.
(* the radicand t0*mask_c0 + t1*mask_c1 + t2*mask_c2 + t3*mask_c3 of the normaliser *)
Definition mat2SO3_disc (M : mat3) : F :=
  let T := mtrans M in comb (masks T) (disc0 T) (disc1 T) (disc2 T) (disc3 T).

Definition mat2SO3_core (M : mat3) : option quat :=
  let T := mtrans M in                                  (* rmat_t = mat.mT *)
  let s := masks T in
  let t0 := disc0 T in let t1 := disc1 T in let t2 := disc2 T in let t3 := disc3 T in
  (* candidates, components in the order (w, x, y, z) *)
  let q0w := e3 T 1 2 - e3 T 2 1 in let q0x := t0 in
  let q0y := e3 T 0 1 + e3 T 1 0 in let q0z := e3 T 2 0 + e3 T 0 2 in
  let q1w := e3 T 2 0 - e3 T 0 2 in let q1x := e3 T 0 1 + e3 T 1 0 in
  let q1y := t1 in let q1z := e3 T 1 2 + e3 T 2 1 in
  let q2w := e3 T 0 1 - e3 T 1 0 in let q2x := e3 T 2 0 + e3 T 0 2 in
  let q2y := e3 T 1 2 + e3 T 2 1 in let q2z := t2 in
  let q3w := t3 in let q3x := e3 T 1 2 - e3 T 2 1 in
  let q3y := e3 T 2 0 - e3 T 0 2 in let q3z := e3 T 0 1 - e3 T 1 0 in
  let t := comb s t0 t1 t2 t3 in
  if t <=? zero then None                               (* q / (2 sqrt t) is not finite *)
  else
    let d := two * tsqrt t in
    let w := comb s q0w q1w q2w q3w / d in
    let x := comb s q0x q1x q2x q3x / d in
    let y := comb s q0y q1y q2y q3y / d in
    let z := comb s q0z q1z q2z q3z / d in
    Some ((x, y, z), w).                                (* index_select [1,2,3,0]: wxyz -> xyzw *)

Definition lift {A} (f : A -> bool) (o : option A) : bool := match o with Some a => f a | None => false end.
Definition obindo {A B} (o : option A) (f : A -> option B) : option B := match o with Some a => f a | None => None end.

(* mat2SO3 on a batch of 3x3 blocks ([None] = a block with non-finite entries, only produced by the
   division by the scale in mat2Sim3 / mat2RxSO3; allclose is False on it) *)
Definition mat2SO3 (check : bool) (Ms : list (option mat3)) : outcome (list (option quat)) :=
  if check && negb (forallb (lift orth_ok) Ms) then Raises (ValueError E_orth)
  else if check && negb (forallb (lift det_ok) Ms) then Raises (ValueError E_det)
  else Value (map (fun M => obindo M mat2SO3_core) Ms).

(* ---------------- mat2SE3 (a bad last row of a 4x4 input only warns) *)
Definition mat2SE3 (check : bool) (Ms : list matin) : outcome (list (option se3elt)) :=
  omap (fun qs => map (fun mq => option_map (fun q : quat => (in_trans (fst mq), q)) (snd mq)) (combine Ms qs))
       (mat2SO3 check (map (fun m => Some (in_rot m)) Ms)).

(* ---------------- scale: torch.pow(det, 1/3): NaN for a negative determinant *)
Definition cbrt (d : F) : option F :=
  if zero <? d then Some (texp (tln d / ofZ 3)) else if d <? zero then None else Some zero.
Definition mmap3 (f : F -> F) (M : mat3) : mat3 :=
  let v (r : vec3) := (f (vx r), f (vy r), f (vz r)) in (v (mr0 M), v (mr1 M), v (mr2 M)).
(* rot / s *)
Definition mdiv3 (M : mat3) (s : option F) : option mat3 :=
  match s with
  | Some v => if v =? zero then None else Some (mmap3 (fun e => e / v) M)
  | None => None
  end.
(* s = pow(det(rot), 1/3).unsqueeze(-1);
   if s.numel() > 0 and allclose(s, zeros_like(s)): raise          (repaired in 988caf7) *)
Definition scale_stage (Ms : list matin) : outcome (list (option F)) :=
  let ss := map (fun m => cbrt (mdet3 (in_rot m))) Ms in
  if negb (Nat.eqb (length ss) 0) && forallb (lift (fun v => close v zero)) ss then Raises (ValueError E_rank)
  else Value ss.

Definition mat2Sim3 (check : bool) (Ms : list matin) : outcome (list (option sim3elt)) :=
  obind (scale_stage Ms) (fun ss =>
  omap (fun qs => map (fun msq => match msq with (m, s, q) =>
                          obindo s (fun s => option_map (fun q : quat => (in_trans m, (q, s))) q) end)
                      (combine (combine Ms ss) qs))
       (mat2SO3 check (map (fun ms => mdiv3 (in_rot (fst ms)) (snd ms)) (combine Ms ss)))).

Definition mat2RxSO3 (check : bool) (Ms : list matin) : outcome (list (option rxso3elt)) :=
  obind (scale_stage Ms) (fun ss =>
  omap (fun qs => map (fun sq => obindo (fst sq) (fun s => option_map (fun q : quat => (q, s)) (snd sq)))
                      (combine ss qs))
       (mat2SO3 check (map (fun ms => mdiv3 (in_rot (fst ms)) (snd ms)) (combine Ms ss)))).

(* ---- history: the rank test before 988caf7, `allclose(s, zeros(shape[:-2]))`, compared operands of
   shapes B + (1,) and B (B = batch shape) and was vacuously true on an empty batch *)
Definition scale_stage_old (B : list nat) (Ms : list matin) : outcome (list (option F)) :=
  let ss := map (fun m => cbrt (mdet3 (in_rot m))) Ms in
  if negb (broadcastable (B ++ [1%nat]) B) then Raises RuntimeError
  else if forallb (lift (fun v => close v zero)) ss then Raises (ValueError E_rank)
  else Value ss.
Definition mat2Sim3_old (check : bool) (B : list nat) (Ms : list matin) : outcome (list (option sim3elt)) :=
  obind (scale_stage_old B Ms) (fun ss =>
  omap (fun qs => map (fun msq => match msq with (m, s, q) =>
                          obindo s (fun s => option_map (fun q : quat => (in_trans m, (q, s))) q) end)
                      (combine (combine Ms ss) qs))
       (mat2SO3 check (map (fun ms => mdiv3 (in_rot (fst ms)) (snd ms)) (combine Ms ss)))).
Definition mat2RxSO3_old (check : bool) (B : list nat) (Ms : list matin) : outcome (list (option rxso3elt)) :=
  obind (scale_stage_old B Ms) (fun ss =>
  omap (fun qs => map (fun sq => obindo (fst sq) (fun s => option_map (fun q : quat => (q, s)) (snd sq)))
                      (combine ss qs))
       (mat2SO3 check (map (fun ms => mdiv3 (in_rot (fst ms)) (snd ms)) (combine Ms ss)))).

(* ---------------- euler2SO3 (roll, pitch, yaw) *)
Definition euler2SO3 (e : vec3) : quat :=
  let roll := vx e in let pitch := vy e in let yaw := vz e in
  let cy := tcos (yaw * half) in let sy := tsin (yaw * half) in
  let cp := tcos (pitch * half) in let sp := tsin (pitch * half) in
  let cr := tcos (roll * half) in let sr := tsin (roll * half) in
  ((sr * cp * cy - cr * sp * sy,
    cr * sp * cy + sr * cp * sy,
    cr * cp * sy - sr * sp * cy),
   cr * cp * cy + sr * sp * sy).

(* ---------------- LieTensor.euler *)
(* torch.atan2 (signed zeros not modelled: atan2(0, x<0) = +pi) *)
Definition atan2F (y x : F) : F :=
  if zero <? x then tatan (y / x)
  else if x <? zero then (if y <? zero then tatan (y / x) - tpi else tatan (y / x) + tpi)
  else if zero <? y then tpi / two
  else if y <? zero then - (tpi / two)
  else zero.
Definition clampF (lo hi v : F) : F := if v <? lo then lo else if hi <? v then hi else v.
(* torch.asin on [-1, 1] *)
Definition asinF (t : F) : F :=
  if t <=? - one then - (tpi / two)
  else if one <=? t then tpi / two
  else tatan (t / tsqrt (one - t * t)).

Definition euler (eps : F) (q : quat) : option vec3 :=
  let x := vx (qv q) in let y := vy (qv q) in let z := vz (qv q) in let w := qw q in
  let xx := x * x in let yy := y * y in let zz := z * z in let ww := w * w in
  let n := xx + yy + zz + ww in
  if n =? zero then None                                (* 0 / 0 *)
  else
    let t0 := two * (w * x + y * z) in
    let t1 := (ww + zz) - (xx + yy) in
    let t2 := two * (w * y - z * x) / n in
    let t3 := two * (w * z + x * y) in
    let t4 := (ww + xx) - (yy + zz) in
    let roll1 := atan2F t0 t1 in
    let roll2 := zero in
    let flag := absF t2 <? one - eps in
    let yaw1 := atan2F t3 t4 in
    let yaw2 := (- two) * pm t2 * atan2F x w in
    let roll := if flag then roll1 else roll2 in
    let pitch := asinF (clampF (- one) one t2) in
    let yaw := if flag then yaw1 else yaw2 in
    Some (roll, pitch, yaw).

(* ---------------- list interface (the tie): an item is the row-major list of its rows*cols entries *)
Definition parse_in (rows cols : nat) (l : list F) : matin :=
  let e (i j : nat) := nth (i * cols + j)%nat l zero in
  let R := ((e 0 0, e 0 1, e 0 2), (e 1 0, e 1 1, e 1 2), (e 2 0, e 2 1, e 2 2))%nat in
  if Nat.eqb cols 3 then In33 R
  else
    let t := (e 0 3, e 1 3, e 2 3)%nat in
    if Nat.eqb rows 3 then In34 R t else In44 R t ((e 3 0, e 3 1, e 3 2), e 3 3)%nat.

Definition lmap {A} (f : A -> list F) (o : outcome (list (option A))) : outcome (list (option (list F))) :=
  omap (map (option_map f)) o.

(* group ids as in Model/LieGroup.v: 0 SO3, 1 SE3, 2 RxSO3, 3 Sim3 *)
Definition mat2X_l (ltype : nat) (check : bool) (rows cols : nat) (data : list (list F))
  : outcome (list (option (list F))) :=
  if negb (accepted rows cols) then Raises (ValueError E_size)
  else
    let Ms := map (parse_in rows cols) data in
    match ltype with
    | 0%nat => lmap q_l (mat2SO3 check (map (fun m => Some (in_rot m)) Ms))
    | 1%nat => lmap SE3_l (mat2SE3 check Ms)
    | 2%nat => lmap RxSO3_l (mat2RxSO3 check Ms)
    | 3%nat => lmap Sim3_l (mat2Sim3 check Ms)
    | _ => Raises (ValueError E_ltype)
    end.
(* from_matrix: shape test, then dispatch on ltype (every mat2X repeats the shape test) *)
Definition from_matrix_l (ltype : nat) (check : bool) (rows cols : nat) (data : list (list F))
  : outcome (list (option (list F))) :=
  if negb (accepted rows cols) then Raises (ValueError E_size)
  else if Nat.ltb 3 ltype then Raises (ValueError E_ltype)
  else mat2X_l ltype check rows cols data.

(* 0 = returns, 1 + k = ValueError number k, 100 = RuntimeError *)
Definition outcome_code {A} (o : outcome A) : nat :=
  match o with Value _ => 0%nat | Raises (ValueError k) => S k | Raises RuntimeError => 100%nat end.
(* the entries of item [i] of a returned batch ([] when raising / non-finite) *)
Definition outcome_item (o : outcome (list (option (list F)))) (i : nat) : list F :=
  match o with
  | Value l => match nth i l None with Some v => v | None => [] end
  | Raises _ => []
  end.

Definition euler2SO3_l (e : list F) : list F := q_l (euler2SO3 (l_v3 e)).
Definition euler_l (eps : F) (g : nat) (x : list F) : list F :=
  match euler eps (l_q (g_rotation g x)) with Some v => v3_l v | None => [] end.
End Convert.

(* ================= exact route (Q, vm_compute) =================
   Only sqrt is needed, and only on radicands that are squares of rationals (the harness sends
   4^k); any other radicand yields -1, which no implementation output equals. *)
Definition Qsqrt_exact (q : Q) : Q :=
  let r := Qred q in
  let n := Qnum r in let d := Zpos (Qden r) in
  let sn := Z.sqrt n in let sd := Z.sqrt d in
  if (Z.leb 0 n && Z.eqb (sn * sn)%Z n && Z.eqb (sd * sd)%Z d)%bool then Qred (sn # Z.to_pos sd) else (-1 # 1)%Q.
Definition TransQ_sqrt : Trans Q :=
  {| tsqrt := Qsqrt_exact; tsin := fun _ => (-7 # 1)%Q; tcos := fun _ => (-7 # 1)%Q; tatan := fun _ => (-7 # 1)%Q;
     texp := fun _ => (-7 # 1)%Q; tln := fun _ => (-7 # 1)%Q; tpi := (-7 # 1)%Q |}.

(* case = (index, (ltype, check, rows, cols), (rtol, atol), items, (expected code, expected items)) ;
   ltype 0 / 1 (no cube root over Q), and the scaled groups on an empty batch *)
Definition conv_case := (nat * (nat * bool * nat * nat) * (Q * Q) * list (list Q) * (nat * list (list Q)))%type.
Definition conv_agree (c : conv_case) : bool :=
  match c with
  | (_, (ltype, check, rows, cols), (rtol, atol), items, (code, outs)) =>
      let o := @from_matrix_l Q NumQ TransQ_sqrt rtol atol ltype check rows cols items in
      Nat.eqb (outcome_code o) code &&
      match o with
      | Value l => Nat.eqb (length l) (length outs) &&
                   forallb (fun p => match fst p with Some v => Qlist_eqb v (snd p) | None => false end) (combine l outs)
      | Raises _ => true
      end
  end.
Definition conv_bad (cs : list conv_case) : list nat :=
  map (fun c => match c with (i, _, _, _, _) => i end) (filter (fun c => negb (conv_agree c)) cs).

(* raise / no-raise of the check=True predicates alone, rational arithmetic only:
   case = (index, (rtol, atol), 3x3 items, expected code) *)
Definition check_case := (nat * (Q * Q) * list (list Q) * nat)%type.
Definition check_code (rtol atol : Q) (items : list (list Q)) : nat :=
  let Ms := map (fun l => in_rot (@parse_in Q NumQ 3 3 l)) items in
  if negb (forallb (@orth_ok Q NumQ rtol atol) Ms) then S E_orth
  else if negb (forallb (@det_ok Q NumQ rtol atol) Ms) then S E_det else 0%nat.
Definition check_bad (cs : list check_case) : list nat :=
  map (fun c => match c with (i, _, _, _) => i end)
      (filter (fun c => match c with (_, (rtol, atol), items, code) => negb (Nat.eqb (check_code rtol atol items) code) end) cs).
