(* Model of pypose/metric/ape_rpe.py (StampedSE3, matching_time_indices, associate_traj,
   compute_error, pairs_by_frames, pairs_by_dist, pair_id, ape, rpe) and of
   pypose/module/loss.py (geodesic_loss), as coded.

   External routines are Section variables: [svdstf] (Umeyama alignment through an SVD; its
   contract is a hypothesis of the alignment theorem), [sqrtF] (sqrt: R's sqrt in the theorems,
   a 2^-64-accurate rational square root when the model is executed over Q), [angleF]
   (mat2SO3(.).Log().norm(), defined from the Log model and a [mat2SO3] oracle in Section Angle),
   [rad2degF].  None = the call raises. *)
From Coq Require Import ZArith QArith Qabs List Bool.
Import ListNotations.
From PV Require Import Base.Num Model.LieGroup Model.LieExp Model.LieLog Model.Spline.
Close Scope Q_scope.

Section Stats.
Context {F : Type} {NF : Num F}.
Local Open Scope num_scope.
Variable sqrtF : F -> F.

Fixpoint lsum (l : list F) : F := match l with [] => zero | x :: r => x + lsum r end.
Definition lenF (l : list F) : F := ofZ (Z.of_nat (length l)).
Definition lmax (x : F) (l : list F) : F := fold_left maxF l x.
Definition lmin (x : F) (l : list F) : F := fold_left minF l x.
Fixpoint insert (x : F) (l : list F) : list F :=
  match l with [] => [x] | y :: r => if x <=? y then x :: l else y :: insert x r end.
Definition lsort (l : list F) : list F := fold_right insert [] l.

(* Max Min Mean Median RMSE SSE STD;  STD = None stands for NaN (one sample: 0/0) *)
Definition stats := (F * F * F * F * F * F * option F)%type.
Definition st_max (s : stats) : F := match s with (a, _, _, _, _, _, _) => a end.
Definition st_min (s : stats) : F := match s with (_, a, _, _, _, _, _) => a end.
Definition st_mean (s : stats) : F := match s with (_, _, a, _, _, _, _) => a end.
Definition st_median (s : stats) : F := match s with (_, _, _, a, _, _, _) => a end.
Definition st_rmse (s : stats) : F := match s with (_, _, _, _, a, _, _) => a end.
Definition st_sse (s : stats) : F := match s with (_, _, _, _, _, a, _) => a end.
Definition st_std (s : stats) : option F := match s with (_, _, _, _, _, _, a) => a end.

(* the seven entries of compute_error's result (torch.max/min/mean/median/std of error.abs(),
   sqrt(mean(error^2)), sum(error^2)); torch.median returns the LOWER middle element;
   torch.std is the unbiased estimator *)
Definition compute_stats (err : list F) : option stats :=
  match map absF err with
  | [] => None                                     (* torch.max of an empty tensor raises *)
  | (a :: r) as ab =>
      let n := lenF ab in
      let mean := lsum ab / n in
      let sq := map (fun e => e * e) err in
      let std := match r with
                 | [] => None
                 | _ => Some (sqrtF (lsum (map (fun x => (x - mean) * (x - mean)) ab) / (n - one))) end in
      Some (lmax a r, lmin a r, mean, nth ((length ab - 1) / 2) (lsort ab) zero,
            sqrtF (lsum sq / n), lsum sq, std)
  end.
End Stats.

Section Metric.
Context {F : Type} {NF : Num F}.
Local Open Scope num_scope.
Local Notation vec3 := (@LieGroup.vec3 F).
Local Notation mat3 := (@LieGroup.mat3 F).
Local Notation mat4 := (@LieGroup.mat4 F).
Local Notation quat := (@LieGroup.quat F).
Local Notation se3elt := (@LieGroup.se3elt F).
Local Notation sim3elt := (@LieGroup.sim3elt F).
Variable sqrtF : F -> F.
Variable angleF : mat3 -> F.
Variable rad2degF : F -> F.
Variable svdstf : list vec3 -> list vec3 -> bool -> sim3elt.

Definition stamped := (F * se3elt)%type.

(* ---- StampedSE3.__init__: non-empty, one stamp per pose, stamps ascending *)
Fixpoint sortedb (l : list F) : bool :=
  match l with
  | a :: r => match r with b :: _ => (a <=? b) && sortedb r | [] => true end
  | [] => true end.
Definition mk_stamped (st : option (list F)) (poses : list se3elt) : option (list stamped) :=
  match poses with
  | [] => None
  | _ =>
    let ts := match st with Some t => t | None => map ofZ (zrange 0 (length poses)) end in
    if negb (Nat.eqb (length ts) (length poses)) then None
    else if negb (sortedb ts) then None else Some (combine ts poses)
  end.

(* ---- matching_time_indices: for every stamp of the first list the FIRST index of the closest
   stamp of the second one (diff_mat.min(dim=-1)), kept when the distance is < max_diff *)
Fixpoint argmin_from (l : list F) (i bi : nat) (bv : F) : nat * F :=
  match l with
  | [] => (bi, bv)
  | v :: r => if v <? bv then argmin_from r (S i) i v else argmin_from r (S i) bi bv end.
Definition argmin (l : list F) : option (nat * F) :=
  match l with [] => None | v :: r => Some (argmin_from r 1 0 v) end.
Definition matching (s1 s2 : list F) (max_diff off2 : F) : list (nat * nat) :=
  let s2' := map (fun s => s + off2) s2 in
  flat_map (fun p =>
      match argmin (map (fun s => absF (fst p - s)) s2') with
      | Some (j, v) => if v <? max_diff then [(snd p, j)] else []
      | None => [] end) (combine s1 (seq 0 (length s1))).

(* l[ids]; an index out of range raises *)
Fixpoint gather {A} (l : list A) (ids : list nat) : option (list A) :=
  match ids with
  | [] => Some []
  | i :: r => match nth_error l i, gather l r with
              | Some a, Some t => Some (a :: t) | _, _ => None end end.

(* ---- associate_traj: (rtraj_aligned, etraj_aligned) as pose lists *)
Definition associate (rt et : list stamped) (max_diff off2 : F) : option (list se3elt * list se3elt) :=
  let snd_longer := (length rt <? length et)%nat in
  let tlong := if snd_longer then et else rt in
  let tshort := if snd_longer then rt else et in
  let m := matching (map fst tshort) (map fst tlong) max_diff (if snd_longer then off2 else - off2) in
  match m with
  | [] => None                                    (* assert num_matches != 0 / empty StampedSE3 *)
  | _ =>
    match gather (map snd tshort) (map fst m), gather (map snd tlong) (map snd m) with
    | Some s, Some l => Some (if snd_longer then (s, l) else (l, s))
    | _, _ => None end
  end.

(* ---- StampedSE3.align with a Sim3 transformation: lift to Sim3 with scale 1, multiply, keep
   the first seven numbers *)
Definition se3_to_sim3 (X : se3elt) : sim3elt := (fst X, (snd X, one)).
Definition sim3_to_se3 (Y : sim3elt) : se3elt := (fst Y, fst (snd Y)).
Definition align_pose (T : sim3elt) (X : se3elt) : se3elt := sim3_to_se3 (Sim3_mul T (se3_to_sim3 X)).
Definition trans_of (align scale origin : bool) (rp ep : list se3elt) : option sim3elt :=
  if align || scale then Some (svdstf (map fst ep) (map fst rp) scale)
  else if origin then
    match rp, ep with
    | r0 :: _, e0 :: _ => Some (se3_to_sim3 (SE3_mul r0 (SE3_inv e0)))
    | _, _ => None end
  else Some Sim3_id.

(* ---- compute_error: per-pose errors *)
Inductive etype := Etrans | Erot | Epose | Eradian | Edegree.
Definition sumsq (l : list F) : F := lsum (map (fun x => x * x) l).
Definition vnormS (v : vec3) : F := sqrtF (sumsq (v3_l v)).
(* rows of E[:3,:3], the column E[:3,3], E as a flat list *)
Definition m4_R (M : mat4) : mat3 :=
  match M with (a, b, c, _) => (fst a, fst b, fst c) end.
Definition m4_t (M : mat4) : vec3 :=
  match M with (a, b, c, _) => (snd a, snd b, snd c) end.
Definition m3_sub_id (M : mat3) : list F :=
  map (fun p => fst p - snd p) (combine (m3_l M) (m3_l mid3)).
Definition m4_id : mat4 := (((one, zero, zero), zero), ((zero, one, zero), zero), ((zero, zero, one), zero), ((zero, zero, zero), one)).
Definition m4_sub_id (M : mat4) : list F :=
  map (fun p => fst p - snd p) (combine (m4_l M) (m4_l m4_id)).
Definition err_of_E (et : etype) (E : mat4) : F :=
  match et with
  | Etrans => vnormS (m4_t E)
  | Erot => sqrtF (sumsq (m3_sub_id (m4_R E)))
  | Epose => sqrtF (sumsq (m4_sub_id E))
  | Eradian => angleF (m4_R E)
  | Edegree => rad2degF (angleF (m4_R E)) end.
Definition se3_matrix (X : se3elt) : mat4 := matrix4 SE3_act4 X.
Definition ape_error (et : etype) (r e : se3elt) : F :=
  match et with
  | Etrans => vnormS (vsub (fst e) (fst r))
  | _ => err_of_E et (se3_matrix (SE3_mul (SE3_inv e) r)) end.
Definition rpe_error (et : etype) (r e : se3elt) : F :=
  err_of_E et (se3_matrix (SE3_mul (SE3_inv r) e)).
Definition errors (ape : bool) (et : etype) (rp ep : list se3elt) : list F :=
  map (fun p => (if ape then ape_error else rpe_error) et (fst p) (snd p)) (combine rp ep).

(* ---- pairs_by_frames(traj, delta, all): delta = int(delta) *)
Definition pairs_by_frames (n : nat) (delta : Z) (all : bool) : option (list nat * list nat) :=
  if (delta <? 1)%Z then None else
  let d := Z.to_nat delta in
  if all then
    let ids1 := filter (fun i => (i + d <? n)%nat) (seq 0 n) in
    Some (ids1, map (fun i => (i + d)%nat) ids1)
  else
    let ids := map (fun j => (j * d)%nat) (seq 0 ((n + d - 1) / d)) in    (* arange(0, n, d) *)
    Some (removelast ids, tl ids).

(* ---- pairs_by_dist(traj, delta, tol, all) *)
Fixpoint cumsum_from (acc : F) (l : list F) : list F :=
  match l with [] => [] | x :: r => (acc + x) :: cumsum_from (acc + x) r end.
Definition step_norms (ts : list vec3) : list F :=
  map (fun p => vnormS (vsub (fst p) (snd p))) (combine ts (tl ts)).       (* |t[:-1] - t[1:]| *)
Definition acc_distances (ts : list vec3) : list F := zero :: cumsum_from zero (step_norms ts).
Definition pairs_dist_all (ts : list vec3) (delta tol : F) : list nat * list nat :=
  let dist := acc_distances ts in
  let ps := flat_map (fun i =>
      let di := nth i dist zero in
      let dfh := map (fun d => d - di) (skipn (S i) dist) in
      match argmin (map (fun x => absF (x - delta)) dfh) with
      | Some (c, v) => if tol <? v then [] else [(i, (c + S i)%nat)]
      | None => [] end) (seq 0 (length dist - 1)) in
  (map fst ps, map snd ps).
(* the sequential walk: (previous translation, current path, index, indices found so far) *)
Fixpoint walk (ts : list vec3) (prev : vec3) (path : F) (i : nat) (delta : F) : list nat :=
  match ts with
  | [] => []
  | t :: r =>
      let path' := path + vnormS (vsub t prev) in
      if delta <=? path' then i :: walk r t zero (S i) delta else walk r t path' (S i) delta end.
Definition pairs_dist_seq (ts : list vec3) (delta : F) : list nat * list nat :=
  match ts with
  | [] => ([], [])                                 (* not reachable: trajectories are non-empty *)
  | t0 :: _ => let idx := walk ts t0 zero 0 delta in (removelast idx, tl idx) end.

(* pair_id *)
Definition pair_id (traj : list se3elt) (by_dist : bool) (delta : F) (delta_int : Z) (rtol : F) (all : bool)
  : option (list nat * list nat) :=
  if by_dist then
    Some (if all then pairs_dist_all (map fst traj) delta (delta * rtol) else pairs_dist_seq (map fst traj) delta)
  else pairs_by_frames (length traj) delta_int all.

(* relative poses traj[src].Inv() @ traj[tar] *)
Definition rel_poses (traj : list se3elt) (src tar : list nat) : option (list se3elt) :=
  match gather traj src, gather traj tar with
  | Some a, Some b => Some (map (fun p => SE3_mul (SE3_inv (fst p)) (snd p)) (combine a b))
  | _, _ => None end.

Definition ostats := option (@stats F).

(* ---- ape(rstamp, rpose, estamp, epose, etype, diff, offset, align, scale, origin) *)
Definition ape (rstamp : option (list F)) (rpose : list se3elt) (estamp : option (list F)) (epose : list se3elt)
    (et : etype) (diff offset : F) (align scale origin : bool) : ostats :=
  match mk_stamped rstamp rpose, mk_stamped estamp epose with
  | Some rt, Some etr =>
    match associate rt etr diff offset with
    | Some (rp, ep) =>
      match trans_of align scale origin rp ep with
      | Some T => compute_stats sqrtF (errors true et rp (map (align_pose T) ep))
      | None => None end
    | None => None end
  | _, _ => None end.

(* ---- rpe(..., associate, delta, rtol, all, rpair) *)
Definition rpe (rstamp : option (list F)) (rpose : list se3elt) (estamp : option (list F)) (epose : list se3elt)
    (et : etype) (diff offset : F) (align scale origin : bool)
    (by_dist : bool) (delta : F) (delta_int : Z) (rtol : F) (all rpair : bool) : ostats :=
  match mk_stamped rstamp rpose, mk_stamped estamp epose with
  | Some rt, Some etr =>
    match associate rt etr diff offset with
    | Some (rp, ep) =>
      match trans_of align scale origin rp ep with
      | Some T =>
        let ep' := map (align_pose T) ep in
        match pair_id (if rpair then rp else ep') by_dist delta delta_int rtol all with
        | Some (src, tar) =>
          match rel_poses rp src tar, rel_poses ep' src tar with
          | Some rr, Some er => compute_stats sqrtF (errors false et rr er)
          | _, _ => None end
        | None => None end
      | None => None end
    | None => None end
  | _, _ => None end.
End Metric.

(* ------------------------------------------------------------------ angle, geodesic loss *)
Section Angle.
Context {F : Type} {NF : Num F} {TF : Trans F}.
Local Open Scope num_scope.
Local Notation vec3 := (@LieGroup.vec3 F).
Local Notation mat3 := (@LieGroup.mat3 F).
Local Notation mat4 := (@LieGroup.mat4 F).
Local Notation quat := (@LieGroup.quat F).
Local Notation se3elt := (@LieGroup.se3elt F).
Local Notation sim3elt := (@LieGroup.sim3elt F).
Variable eps : F.
Variable mat2SO3 : mat3 -> quat.     (* pp.mat2SO3(M, check=False): oracle, see Proofs/Metric.v *)
Definition angle_of (M : mat3) : F := vnorm (SO3_log eps (mat2SO3 M)).
Definition rad2deg (x : F) : F := x * (ofZ 180 / tpi).

(* geodesic_loss on the rotation parts (unit quaternions) of the two arguments *)
Definition geodesic_theta (x y : quat) : F := vnorm (SO3_log eps (SO3_mul x (SO3_inv y))).
Inductive reduction := Rnone | Rmean | Rsum.
Definition geodesic_loss (red : reduction) (xs ys : list quat) : list F :=
  let th := map (fun p => geodesic_theta (fst p) (snd p)) (combine xs ys) in
  match red with
  | Rnone => th
  | Rmean => [lsum th / lenF th]
  | Rsum => [lsum th] end.
(* list interface for the enclosure route: group ids as in LieGroup (0 SO3, 1 SE3, 2 RxSO3, 3 Sim3) *)
Definition geodesic_l (g : nat) (red : nat) (xs ys : list (list F)) : list F :=
  geodesic_loss (match red with 0 => Rnone | 1 => Rmean | _ => Rsum end)
                (map (fun x => l_q (g_rotation g x)) xs) (map (fun y => l_q (g_rotation g y)) ys).
End Angle.

(* ------------------------------------------------------------------ exact-route evaluator (Q) *)
(* floor(sqrt(x) 2^64) / 2^64: exact on dyadic perfect squares, within 2^-64 otherwise *)
Definition qsqrt (x : Q) : Q :=
  let n := Qnum x in
  if (n <=? 0)%Z then 0%Q
  else Qred (Qmake (Z.sqrt ((n * 2 ^ 128) / Zpos (Qden x))) (2 ^ 64)).

Definition close (tol a b : Q) : bool := Qle_bool (Qabs (a - b)) (tol * (1 + Qabs b))%Q.
(* the implementation's seven numbers (STD: None = NaN) against the model's, each within
   tol (1 + |v|); the model's square roots are 2^-64 accurate, far below tol *)
Definition stats_close (tol : Q) (m : @stats Q) (o : @stats Q) : bool :=
  match m, o with
  | (ma, mi, me, md, mr, ms, mstd), (oa, oi, oe, od, or_, os, ostd) =>
    close tol ma oa && close tol mi oi && close tol me oe && close tol md od && close tol mr or_
    && close tol ms os
    && match mstd, ostd with
       | Some a, Some b => close tol a b
       | None, None => true
       | _, _ => false end end.

(* one metric case: kind 0 = ape, 1 = rpe *)
Record mcase := MkCase {
  mc_idx : nat; mc_rpe : bool;
  mc_rstamp : option (list Q); mc_rpose : list (list Q);
  mc_estamp : option (list Q); mc_epose : list (list Q);
  mc_et : nat;                                   (* 0 translation, 1 rotation, 2 pose *)
  mc_diff : Q; mc_offset : Q; mc_align : bool; mc_scale : bool; mc_origin : bool;
  mc_svd : list Q;                               (* what svdstf returned during the call (oracle) *)
  mc_bydist : bool; mc_delta : Q; mc_deltaint : Z; mc_rtol : Q; mc_all : bool; mc_rpair : bool;
  mc_out : option (@stats Q);                    (* None = the call raised *)
  mc_tol : Q }.
Definition et_of (n : nat) : etype := match n with 0 => Etrans | 1 => Erot | _ => Epose end.
Definition mcase_model (c : mcase) : option (@stats Q) :=
  let svd := fun (_ _ : list (@vec3 Q)) (_ : bool) => l_Sim3 (mc_svd c) in
  let ang := fun (_ : @mat3 Q) => 0%Q in
  let rp := map l_SE3 (mc_rpose c) in
  let ep := map l_SE3 (mc_epose c) in
  if mc_rpe c then
    rpe qsqrt ang (fun x => x) svd (mc_rstamp c) rp (mc_estamp c) ep (et_of (mc_et c)) (mc_diff c) (mc_offset c)
        (mc_align c) (mc_scale c) (mc_origin c) (mc_bydist c) (mc_delta c) (mc_deltaint c) (mc_rtol c) (mc_all c) (mc_rpair c)
  else
    ape qsqrt ang (fun x => x) svd (mc_rstamp c) rp (mc_estamp c) ep (et_of (mc_et c)) (mc_diff c) (mc_offset c)
        (mc_align c) (mc_scale c) (mc_origin c).
Definition mcase_ok (c : mcase) : bool :=
  match mcase_model c, mc_out c with
  | Some m, Some o => stats_close (mc_tol c) m o
  | None, None => true
  | _, _ => false end.
Definition metric_bad (cs : list mcase) : list nat := map mc_idx (filter (fun c => negb (mcase_ok c)) cs).

Fixpoint nat_list_eqb (a b : list nat) : bool :=
  match a, b with
  | [], [] => true
  | x :: r, y :: t => Nat.eqb x y && nat_list_eqb r t
  | _, _ => false end.
(* index pairs only (pairing options on their own): (idx, n, delta, all, src, tar) *)
Definition pf_case := (nat * nat * Z * bool * option (list nat * list nat))%type.
Definition pf_bad (cs : list pf_case) : list nat :=
  map (fun c => match c with (i, _, _, _, _) => i end)
      (filter (fun c => match c with (_, n, d, a, out) =>
         negb match pairs_by_frames n d a, out with
              | Some (s, t), Some (s', t') => nat_list_eqb s s' && nat_list_eqb t t'
              | None, None => true
              | _, _ => false end end) cs).
