(* Model of pypose/optim/scheduler.py (StopOnPlateau) and pypose/utils/stepper.py (ReduceToBason),
   and of the driver loops that consult them (scheduler.optimize, MPC.forward, ICP.forward). *)
From Coq Require Import ZArith QArith List Bool Arith.
Import ListNotations.
From PV Require Import Base.Num.
Close Scope Q_scope.

Section Controller.
Context {F : Type} {NF : Num F}.
Local Open Scope num_scope.

(* ---------------- StopOnPlateau ----------------
   step(): steps += 1; if steps >= max_steps: stop; if last - loss < decreasing: pc += 1 else pc = 0;
           if pc >= patience: stop; if optimizer.reject_count > 0: stop.
   (the loss argument of step() is ignored: optimizer.last / optimizer.loss are read) *)
Record sop_cfg := { sop_max : Z; sop_patience : Z; sop_dec : F }.
Record sop_state := { sop_steps : Z; sop_pc : Z; sop_cont : bool }.
Record sop_in := { in_last : F; in_loss : F; in_reject : nat }.
Definition sop_init : sop_state := {| sop_steps := 0; sop_pc := 0; sop_cont := true |}.
Definition sop_fail (c : sop_cfg) (i : sop_in) : bool := (in_last i - in_loss i) <? sop_dec c.
Definition sop_step (c : sop_cfg) (s : sop_state) (i : sop_in) : sop_state :=
  let steps := (sop_steps s + 1)%Z in
  let pc := if sop_fail c i then (sop_pc s + 1)%Z else 0%Z in
  let stop := (sop_max c <=? steps)%Z || (sop_patience c <=? pc)%Z || negb (Nat.eqb (in_reject i) 0) in
  {| sop_steps := steps; sop_pc := pc; sop_cont := sop_cont s && negb stop |}.

(* ---------------- ReduceToBason ----------------
   losses may be batched: "all" over the batch.  last = None models +inf (the value after reset). *)
Record rtb_cfg := { rtb_max : Z; rtb_patience : Z; rtb_dec : F; rtb_tol : F }.
Record rtb_state := { rtb_steps : Z; rtb_pc : Z; rtb_last : option (list F); rtb_cont : bool }.
Definition rtb_init : rtb_state := {| rtb_steps := 0; rtb_pc := 0; rtb_last := None; rtb_cont := true |}.
(* IEEE semantics of (last - loss)/loss < d, last possibly +inf *)
Definition rel_lt (last : option F) (loss d : F) : bool :=
  match last with
  | None => loss <? zero                    (* (inf - loss)/loss = +inf (loss>0), nan (loss=0 -> inf/0=inf), -inf (loss<0) *)
  | Some l =>
      if loss =? zero then (l <? zero)      (* x/0: +inf, nan or -inf *)
      else ((l - loss) / loss) <? d
  end.
Fixpoint all_rel (last : option (list F)) (loss : list F) (d : F) : bool :=
  match loss with
  | [] => true
  | x :: r =>
      match last with
      | None => rel_lt None x d && all_rel None r d
      | Some [] => true            (* shapes always agree in the implementation *)
      | Some (l :: lr) => rel_lt (Some l) x d && all_rel (Some lr) r d
      end
  end.
Definition rtb_step (c : rtb_cfg) (s : rtb_state) (loss : list F) : rtb_state :=
  let steps := (rtb_steps s + 1)%Z in
  let tolstop := forallb (fun x => x <? rtb_tol c) loss in
  let pc := if all_rel (rtb_last s) loss (rtb_dec c) then (rtb_pc s + 1)%Z else 0%Z in
  let stop := tolstop || (rtb_max c <=? steps)%Z || (rtb_patience c <=? pc)%Z in
  {| rtb_steps := steps; rtb_pc := pc; rtb_last := Some loss; rtb_cont := rtb_cont s && negb stop |}.
(* _Stepper.reset: last, steps, _continual; patience_count is NOT touched *)
(* history: reset() as coded before the repair in /repo ("fix: ReduceToBason.reset() also clears the patience counter"):
   the patience counter survived *)
Definition rtb_reset_old (s : rtb_state) : rtb_state :=
  {| rtb_steps := 0; rtb_pc := rtb_pc s; rtb_last := None; rtb_cont := true |}.
(* reset() as coded now: _Stepper.reset (last = inf, steps = 0, continual) and patience_count = 0 *)
Definition rtb_reset (s : rtb_state) : rtb_state := rtb_init.

(* ---------------- driver loops: while continual(): body; step(loss_k) ----------------
   [losses] is the stream of losses the body would produce; the loop consumes a prefix *)
Fixpoint drive_sop (c : sop_cfg) (s : sop_state) (ins : list sop_in) : nat * sop_state :=
  match ins with
  | [] => (0, s)
  | i :: r => if sop_cont s then let '(n, s') := drive_sop c (sop_step c s i) r in (S n, s') else (0, s)
  end.
Fixpoint drive_rtb (c : rtb_cfg) (s : rtb_state) (ls : list (list F)) : nat * rtb_state :=
  match ls with
  | [] => (0, s)
  | l :: r => if rtb_cont s then let '(n, s') := drive_rtb c (rtb_step c s l) r in (S n, s') else (0, s)
  end.
(* MPC.__init__ decrements the stepper's budget once; MPC.forward / ICP.forward reset, then loop *)
Definition mpc_cfg (c : rtb_cfg) : rtb_cfg :=
  {| rtb_max := rtb_max c - 1; rtb_patience := rtb_patience c; rtb_dec := rtb_dec c; rtb_tol := rtb_tol c |}.
End Controller.

(* ---- exact-route evaluators (Q) ---- *)
Definition sop_trace (c : sop_cfg (F:=Q)) (ins : list (sop_in (F:=Q))) : list (Z * Z * bool) :=
  let fix go s ins := match ins with [] => [] | i :: r =>
     let s' := sop_step c s i in (sop_steps s', sop_pc s', sop_cont s') :: go s' r end in go sop_init ins.
(* ReduceToBason trace with resets: op = inl losses | inr tt (reset) *)
Definition rtb_trace (c : rtb_cfg (F:=Q)) (ops : list (list Q + unit)) : list (Z * Z * bool) :=
  let fix go s ops := match ops with [] => [] | o :: r =>
     let s' := match o with inl l => rtb_step c s l | inr _ => rtb_reset s end in
     (rtb_steps s', rtb_pc s', rtb_cont s') :: go s' r end in go rtb_init ops.
Definition tr_eqb (a b : list (Z * Z * bool)) : bool :=
  Nat.eqb (length a) (length b) &&
  forallb (fun p => match p with ((s1, p1, c1), (s2, p2, c2)) => Z.eqb s1 s2 && Z.eqb p1 p2 && Bool.eqb c1 c2 end) (combine a b).

(* transition-level cases: (index, cfg, state before, input, observed state after) *)
Definition oq_eqb (a b : option (list Q)) : bool :=
  match a, b with Some x, Some y => Qlist_eqb x y | None, None => true | _, _ => false end.
Definition rtb_tcase := (nat * (Z * Z * Q * Q) * (Z * Z * option (list Q) * bool) * list Q * (Z * Z * option (list Q) * bool))%type.
Definition mk_rtb_cfg (t : Z * Z * Q * Q) : rtb_cfg (F:=Q) :=
  let '(m, p, d, tol) := t in {| rtb_max := m; rtb_patience := p; rtb_dec := d; rtb_tol := tol |}.
Definition mk_rtb_state (t : Z * Z * option (list Q) * bool) : rtb_state (F:=Q) :=
  let '(s, p, l, c) := t in {| rtb_steps := s; rtb_pc := p; rtb_last := l; rtb_cont := c |}.
Definition rtb_state_eqb (a : rtb_state (F:=Q)) (t : Z * Z * option (list Q) * bool) : bool :=
  let '(s, p, l, c) := t in
  Z.eqb (rtb_steps a) s && Z.eqb (rtb_pc a) p && oq_eqb (rtb_last a) l && Bool.eqb (rtb_cont a) c.
Definition rtb_trans_bad (cs : list rtb_tcase) : list nat :=
  map (fun c => match c with (i, _, _, _, _) => i end)
      (filter (fun c => match c with (_, cfg, s, l, s') =>
         negb (rtb_state_eqb (rtb_step (mk_rtb_cfg cfg) (mk_rtb_state s) l) s') end) cs).
Definition rtb_reset_bad (cs : list (nat * (Z * Z * option (list Q) * bool) * (Z * Z * option (list Q) * bool))) : list nat :=
  map (fun c => match c with (i, _, _) => i end)
      (filter (fun c => match c with (_, s, s') => negb (rtb_state_eqb (rtb_reset (mk_rtb_state s)) s') end) cs).

Definition sop_tcase := (nat * (Z * Z * Q) * (Z * Z * bool) * (Q * Q * nat) * (Z * Z * bool))%type.
Definition sop_trans_bad (cs : list sop_tcase) : list nat :=
  map (fun c => match c with (i, _, _, _, _) => i end)
      (filter (fun c => match c with (_, (m, p, d), (s, pc, ct), (la, lo, rj), (s', pc', ct')) =>
         let r := sop_step {| sop_max := m; sop_patience := p; sop_dec := d |}
                           {| sop_steps := s; sop_pc := pc; sop_cont := ct |}
                           {| in_last := la; in_loss := lo; in_reject := rj |} in
         negb (Z.eqb (sop_steps r) s' && Z.eqb (sop_pc r) pc' && Bool.eqb (sop_cont r) ct') end) cs).
(* whole traces with resets (ReduceToBason) and driver-loop step counts *)
Definition rtb_trace_bad (cs : list (nat * (Z * Z * Q * Q) * list (list Q + unit) * list (Z * Z * bool))) : list nat :=
  map (fun c => match c with (i, _, _, _) => i end)
      (filter (fun c => match c with (_, cfg, ops, tr) => negb (tr_eqb (rtb_trace (mk_rtb_cfg cfg) ops) tr) end) cs).
Definition sop_trace_bad (cs : list (nat * (Z * Z * Q) * list (Q * Q * nat) * list (Z * Z * bool))) : list nat :=
  map (fun c => match c with (i, _, _, _) => i end)
      (filter (fun c => match c with (_, (m, p, d), ins, tr) =>
         negb (tr_eqb (sop_trace {| sop_max := m; sop_patience := p; sop_dec := d |}
                 (map (fun t => match t with (la, lo, rj) => {| in_last := la; in_loss := lo; in_reject := rj |} end) ins)) tr) end) cs).
(* driver: the recorded loss stream of a real loop with n controller steps; the model loop must
   make exactly n steps on it and end stopped (unless the stream was not cut by the controller) *)
Definition rtb_drive_bad (cs : list (nat * (Z * Z * Q * Q) * list (list Q) * nat)) : list nat :=
  map (fun c => match c with (i, _, _, _) => i end)
      (filter (fun c => match c with (_, cfg, ls, n) =>
         let '(k, s) := drive_rtb (mk_rtb_cfg cfg) (rtb_reset rtb_init) ls in
         negb (Nat.eqb k n && negb (rtb_cont s)) end) cs).
Definition sop_drive_bad (cs : list (nat * (Z * Z * Q) * list (Q * Q * nat) * nat)) : list nat :=
  map (fun c => match c with (i, _, _, _) => i end)
      (filter (fun c => match c with (_, (m, p, d), ins, n) =>
         let '(k, s) := drive_sop {| sop_max := m; sop_patience := p; sop_dec := d |} sop_init
                 (map (fun t => match t with (la, lo, rj) => {| in_last := la; in_loss := lo; in_reject := rj |} end) ins) in
         negb (Nat.eqb k n && negb (sop_cont s)) end) cs).
