(* Model of pypose/module/lqr.py (LQR.forward = lqr_backward + lqr_forward), of runsys
   (pypose/module/dynamics.py) and of pypose/module/mpc.py (MPC.forward), for ONE batch item with
   state dimension 1 and input dimension 1 (lists over the horizon), AS CODED:

   * the system is the state machine of Model/Dynamics.v: a time counter `_t` that every
     `system(x, u)` call advances (forward hook) and that `set_refpoint(t=...)` assigns on an LTV
     system only (LTI / System: set_refpoint returns self); the coefficients A, B, c1 are read at
     the CURRENT value of the counter ([scoef s t]; an LTI system has a constant [scoef]);
   * lqr_backward resets the system time to 0 (`self.system.reset()`, fix commits of C14), then
     runsys makes T-1 calls from the current system time;
   * lqr_backward: nominal roll-out, p = Q tau + p, terminal step without linearisation,
     set_refpoint(t*dt) then F = [A B] for t < T-1, Q_t, q_t, Cholesky solve, K_t, k_t, V, v
     (c1 is not used: the recursion is in the deviation from the nominal trajectory);
   * lqr_forward: resets the system time to 0 again, T calls, cost accumulation;
   * MPC.forward: stepper reset, `while continual` loop with best-so-far, final solve from best u.

   Cholesky factor + cholesky_solve of the 1x1 matrix Quu: raises unless Quu > 0, otherwise the
   solution b / Quu (the mathematical contract of the two LAPACK routines; the tie validates it
   at its tolerance).  A raising solve is [None].
   The operation order of every formula is the order of the code.
   The behaviour BEFORE the fix commits (no resets: roll-out from the stale time, forward pass from
   whatever time the backward pass left; `squeeze(-2)` on every A, B) is kept as [lqr_solve_old],
   [mpc_forward_old], [lqr_shape_raises_old] for the recorded refutations only. *)
From Coq Require Import ZArith QArith Qabs List Bool Arith.
Import ListNotations.
From PV Require Import Base.Num Model.Dynamics Model.Controller.
Close Scope Q_scope.

Section LQR1.
Context {F : Type} {NF : Num F}.
Local Open Scope num_scope.

(* one stage of the cost: Q_t = [[qxx qxu] [qux quu]], p_t = (px, pu); tau = (x, u) *)
Record stage := { qxx : F; qxu : F; qux : F; quu : F; px : F; pu : F }.
(* the system object: its class (decides what set_refpoint does) and (A, B, c1) as read at time t *)
Record ssys := { sk : kind; scoef : Z -> F * F * option F }.

(* LTI.state_transition: z = bmv(A, x) + bmv(B, u); z if c1 is None else z + c1 *)
Definition s_next (s : ssys) (t : Z) (x u : F) : F :=
  let '(a, b, c) := scoef s t in
  let z := a * x + b * u in
  match c with None => z | Some c => z + c end.
(* the two operations on the time counter that LQR performs (Model/Dynamics.v) *)
Definition tick (s : ssys) (t : Z) : Z := step_time' (sk s) t Call.
Definition setref (s : ssys) (t v : Z) : Z := step_time' (sk s) t (SetRef (Some v)).
Definition treset (s : ssys) (t : Z) : Z := step_time' (sk s) t (Reset 0).     (* system.reset() *)

(* runsys: x_traj[i+1] = system(x_traj[i], u_traj[i]) for i in range(T-1), from the current time *)
Fixpoint rollout (s : ssys) (tm : Z) (x : F) (us : list F) : list F * Z :=
  match us with
  | [] => ([], tm)
  | u :: r => let x' := s_next s tm x u in
              let '(xs, tm') := rollout s (tick s tm) x' r in (x' :: xs, tm')
  end.
Definition runsys (s : ssys) (tm : Z) (T : nat) (x : F) (us : list F) : list F * Z :=
  let '(xs, tm') := rollout s tm x (firstn (T - 1) us) in (x :: xs, tm').

(* p = bmv(Q, xut) + p at one step *)
Definition pbar (st : stage) (xb ub : F) : F * F :=
  ((qxx st * xb + qxu st * ub) + px st, (qux st * xb + quu st * ub) + pu st).

(* L = cholesky(Quu); K = -cholesky_solve(Qux, L); k = -cholesky_solve(qu, L);
   V = Qxx + Qxu K + K^T Qux + K^T Quu K;  v = qx + Qxu k + K^T qu + (K^T Quu) k *)
Definition gains (Qxx Qxu Qux Quu qx qu : F) : option (F * F * F * F) :=
  if zero <? Quu then
    let K := - (Qux / Quu) in
    let k := - (qu / Quu) in
    let V := ((Qxx + Qxu * K) + K * Qux) + (K * Quu) * K in
    let v := ((qx + Qxu * k) + K * qu) + (K * Quu) * k in
    Some (K, k, V, v)
  else None.

(* the backward loop on the steps t, t+1, ... (items = (Q_t p_t, nominal x_t, nominal u_t)); the
   later steps run first.  Result: the gains of these steps, (V, v) of step t, the system time *)
Fixpoint bwd (s : ssys) (dt : Z) (t : Z) (tm : Z) (l : list (stage * F * F))
  : option (list (F * F) * F * F * Z) :=
  match l with
  | [] => None
  | (st, xb, ub) :: rest =>
      let '(pbx, pbu) := pbar st xb ub in
      match rest with
      | [] =>                                   (* t == T-1: Qt = Q[t], qt = p[t] *)
          match gains (qxx st) (qxu st) (qux st) (quu st) pbx pbu with
          | Some (K, k, V, v) => Some ([(K, k)], V, v, tm)
          | None => None
          end
      | _ :: _ =>
          match bwd s dt (t + 1)%Z tm rest with
          | None => None
          | Some (Ks, V, v, tm1) =>
              let tm2 := setref s tm1 (t * dt)%Z in          (* set_refpoint(t = t*dt) *)
              let '(a, b, _) := scoef s tm2 in               (* system.A, system.B *)
              (* Qt = Q[t] + F^T V F, qt = p[t] + F^T v *)
              match gains (qxx st + (a * V) * a) (qxu st + (a * V) * b)
                          (qux st + (b * V) * a) (quu st + (b * V) * b)
                          (pbx + a * v) (pbu + b * v) with
              | Some (K, k, V', v') => Some ((K, k) :: Ks, V', v', tm2)
              | None => None
              end
          end
      end
  end.

(* bvmv(xut, Q, xut) = (xut^T Q) xut and vecdot(xut, p) *)
Definition quad (st : stage) (x u : F) : F :=
  (x * qxx st + u * qux st) * x + (x * qxu st + u * quu st) * u.
Definition stage_cost (st : stage) (x u : F) : F :=
  half * quad st x u + (x * px st + u * pu st).

(* the forward loop; items = (Q_t p_t, nominal x_t, nominal u_t, (K_t, k_t)) *)
Fixpoint fwd (s : ssys) (tm : Z) (x : F) (l : list (stage * F * F * (F * F))) (cost : F)
  : list F * list F * F * Z :=
  match l with
  | [] => ([], [], cost, tm)
  | (st, xb, ub, (K, k)) :: r =>
      let dx := x - xb in
      let du := K * dx + k in
      let u := du + ub in
      let x' := s_next s tm x u in
      let c := cost + stage_cost st x u in
      let '(xs, us, cf, tmf) := fwd s (tick s tm) x' r c in
      (x' :: xs, u :: us, cf, tmf)
  end.

(* LQR.forward(x_init, dt, u_traj) on a system whose counter is tm:
   Some (x[0..T], u[0..T-1], cost, system time afterwards) *)
Definition lqr_solve (s : ssys) (dt : Z) (prob : list stage) (x_init : F) (un : option (list F))
  (tm : Z) : option (list F * list F * F * Z) :=
  let T := length prob in
  let ub := match un with None => repeat zero T | Some u => u end in
  if negb (Nat.eqb (length ub) T) then None else
  let tm0 := treset s tm in                                   (* lqr_backward: system.reset() *)
  match prob with
  | [] => Some ([x_init], [], zero, treset s tm0)
  | _ :: _ =>
      let '(xb, tm1) := runsys s tm0 T x_init ub in
      let items := combine (combine prob xb) ub in
      match bwd s dt 0%Z tm1 items with
      | None => None
      | Some (Ks, _, _, tm2) =>
          let '(xs, us, c, tm3) := fwd s (treset s tm2) x_init (combine items Ks) zero in   (* lqr_forward: system.reset() *)
          Some (x_init :: xs, us, c, tm3)
      end
  end.
(* before the fix commits: no resets *)
Definition lqr_solve_old (s : ssys) (dt : Z) (prob : list stage) (x_init : F) (un : option (list F))
  (tm : Z) : option (list F * list F * F * Z) :=
  let T := length prob in
  let ub := match un with None => repeat zero T | Some u => u end in
  if negb (Nat.eqb (length ub) T) then None else
  match prob with
  | [] => Some ([x_init], [], zero, tm)
  | _ :: _ =>
      let '(xb, tm1) := runsys s tm T x_init ub in
      let items := combine (combine prob xb) ub in
      match bwd s dt 0%Z tm1 items with
      | None => None
      | Some (Ks, _, _, tm2) =>
          let '(xs, us, c, tm3) := fwd s tm2 x_init (combine items Ks) zero in
          Some (x_init :: xs, us, c, tm3)
      end
  end.

(* ---------------- MPC.forward ----------------
   best = {x: None, u: u_init, cost: None}; stepper.reset();
   while stepper.continual(): x,u,cost = lqr(x_init, dt, u); stepper.step(cost);
                               if best.cost is None or cost < best.cost: best = (x,u,cost)
   return lqr(x_init, dt, u_traj = best.u)
   [cfg] is the stepper configuration AFTER MPC.__init__ lowered max_steps (Controller.mpc_cfg). *)
Definition better (c : F) (best : option (list F * list F * F)) : bool :=
  match best with None => true | Some (_, _, cb) => c <? cb end.
Definition solver := ssys -> Z -> list stage -> F -> option (list F) -> Z -> option (list F * list F * F * Z).
Fixpoint mpc_loop_gen (solve : solver) (fuel : nat) (s : ssys) (dt : Z) (prob : list stage) (x_init : F) (cfg : rtb_cfg (F:=F))
  (st : rtb_state (F:=F)) (u : option (list F)) (best : option (list F * list F * F)) (tm : Z)
  : option (rtb_state (F:=F) * option (list F * list F * F) * Z * nat) :=
  match fuel with
  | O => Some (st, best, tm, O)
  | S f =>
      if rtb_cont st then
        match solve s dt prob x_init u tm with
        | None => None
        | Some (xs, us, c, tm') =>
            let st' := rtb_step cfg st [c] in
            let best' := if better c best then Some (xs, us, c) else best in
            match mpc_loop_gen solve f s dt prob x_init cfg st' (Some us) best' tm' with
            | Some (a, b, t, n) => Some (a, b, t, S n)
            | None => None
            end
        end
      else Some (st, best, tm, O)
  end.
(* the loop makes at most max(1, max_steps) iterations (C20_mpc_bound); one more unit of fuel *)
Definition mpc_fuel (cfg : rtb_cfg (F:=F)) : nat := S (Z.to_nat (Z.max 1 (rtb_max cfg))).
(* Some (x, u, cost, system time, stepper state, number of loop iterations) *)
Definition mpc_forward_gen (solve : solver) (s : ssys) (dt : Z) (prob : list stage) (x_init : F) (cfg : rtb_cfg (F:=F))
  (st : rtb_state (F:=F)) (u_init : option (list F)) (tm : Z)
  : option (list F * list F * F * Z * rtb_state (F:=F) * nat) :=
  match mpc_loop_gen solve (mpc_fuel cfg) s dt prob x_init cfg (rtb_reset st) u_init None tm with
  | None => None
  | Some (st', best, tm', n) =>
      let bu := match best with Some (_, us, _) => Some us | None => u_init end in
      match solve s dt prob x_init bu tm' with
      | Some (xs, us, c, tm'') => Some (xs, us, c, tm'', st', n)
      | None => None
      end
  end.
(* mpc.py is unchanged by the fix commits; it calls the repaired / the old LQR *)
Definition mpc_forward := mpc_forward_gen lqr_solve.
Definition mpc_forward_old := mpc_forward_gen lqr_solve_old.

(* ---------------- the LQ problem itself (specification side) ----------------
   cost of the input sequence [us] applied from state x at time t, summed along the system's own
   trajectory: sum_t 1/2 tau^T Q_t tau + p_t^T tau *)
Fixpoint Jcost (s : ssys) (t : Z) (x : F) (prob : list stage) (us : list F) : F :=
  match prob, us with
  | st :: pr, u :: ur => stage_cost st x u + Jcost s (t + 1)%Z (s_next s t x u) pr ur
  | _, _ => zero
  end.
(* the states the system visits from x at time t under us *)
Fixpoint traj (s : ssys) (t : Z) (x : F) (us : list F) : list F :=
  match us with
  | [] => []
  | u :: r => let x' := s_next s t x u in x' :: traj s (t + 1)%Z x' r
  end.
End LQR1.

(* ---------------- shapes ----------------
   lqr_backward reads `A, B = system.A, system.B` and squeezes dimension -2 only when
   A.ndim == x_init.ndim + 2 (the [B, ns, 1, ns] Jacobians of an NLS); an LTI/LTV A of shape
   [nb, ns, ns] is used as it is: no shape of the property's range raises.
   Before the fix commits `system.A.squeeze(-2)` was applied to every system: with ns = 1 it removed
   the row dimension, F = cat(A, B) became an [nb, 1+nc] matrix instead of nb row vectors, and for
   nb >= 2 the product F.mT @ V @ F (evaluated for t < T-1, i.e. when T >= 2) raised. *)
Definition lqr_shape_raises (nb ns T : nat) : bool := false.
Definition lqr_shape_raises_old (nb ns T : nat) : bool :=
  Nat.eqb ns 1 && Nat.leb 2 nb && Nat.leb 2 T.

(* ------------------------------------------------------------------ evaluators over Q (tie) *)
(* system description: (is_ltv, period N, table of (A, B, c1)); an LTV object reads row _t mod N
   (the subclass pattern of the LTV docstring), an LTI object has one row *)
Definition sysdesc := (bool * Z * list (Q * Q * option Q))%type.
Definition mk_sys (d : sysdesc) : ssys (F:=Q) :=
  let '(ltv, N, tbl) := d in
  {| sk := if ltv then KLTV else KLTI;
     scoef := fun t => nth (Z.to_nat (t mod N)) tbl (0%Q, 0%Q, None) |}.
Definition mk_stage (c : Q * Q * Q * Q * Q * Q) : stage (F:=Q) :=
  let '(a, b, c', d, e, f) := c in {| qxx := a; qxu := b; qux := c'; quu := d; px := e; pu := f |}.

(* |a - b| <= tol * (1 + |a|) *)
Definition qclose (tol a b : Q) : bool := Qle_bool (Qabs (a - b)) (tol * (1 + Qabs a)).
Definition qlclose (tol : Q) (a b : list Q) : bool :=
  Nat.eqb (length a) (length b) && forallb (fun p => qclose tol (fst p) (snd p)) (combine a b).

(* one solve of a history: dt, stages, x_init, u_traj, what the implementation returned
   (None: it raised) : (x, u, cost, system time after) *)
Definition solve_rec := (Z * list (Q * Q * Q * Q * Q * Q) * Q * option (list Q)
                         * option (list Q * list Q * Q * Z))%type.
(* replay a history of solves on one system object; true iff every solve agrees *)
Fixpoint hist_ok (s : ssys (F:=Q)) (tol : Q) (tm : Z) (h : list solve_rec) : bool :=
  match h with
  | [] => true
  | (dt, prob, x0, un, exp) :: r =>
      match lqr_solve s dt (map mk_stage prob) x0 un tm, exp with
      | Some (xs, us, c, tm'), Some (xs', us', c', tm'') =>
          qlclose tol xs xs' && qlclose tol us us' && qclose tol c c' && Z.eqb tm' tm''
          && hist_ok s tol tm' r
      | None, None => true          (* the time after a raising solve is not modelled: stop *)
      | _, _ => false
      end
  end.
Definition lqr_hist_bad (cs : list (nat * (sysdesc * Z * Q * list solve_rec))) : list nat :=
  pick cs (fun c => match c with (d, t0, tol, h) => hist_ok (mk_sys d) tol t0 h end).

(* MPC: system, t0, tol, (stepper cfg after the constructor, stepper state before), dt, stages,
   x_init, u_init, expected (x, u, cost, time after, (steps, patience_count, continual), iterations) *)
Definition mpc_rec := (sysdesc * Z * Q * ((Z * Z * Q * Q) * (Z * Z * option (list Q) * bool))
                       * Z * list (Q * Q * Q * Q * Q * Q) * Q * option (list Q)
                       * option (list Q * list Q * Q * Z * (Z * Z * bool) * nat))%type.
Definition mpc_ok (c : mpc_rec) : bool :=
  match c with (d, t0, tol, (cfg, st), dt, prob, x0, u0, exp) =>
    match mpc_forward (mk_sys d) dt (map mk_stage prob) x0 (mk_rtb_cfg cfg) (mk_rtb_state st) u0 t0, exp with
    | Some (xs, us, c, tm, st', n), Some (xs', us', c', tm', (steps, pc, cont), n') =>
        qlclose tol xs xs' && qlclose tol us us' && qclose tol c c' && Z.eqb tm tm'
        && Z.eqb (rtb_steps st') steps && Z.eqb (rtb_pc st') pc && Bool.eqb (rtb_cont st') cont
        && Nat.eqb n n'
    | None, None => true
    | _, _ => false
    end
  end.
Definition mpc_bad (cs : list (nat * mpc_rec)) : list nat := pick cs mpc_ok.
