(* Model of pypose/basics/ops.py: cumops_, cumops, cummul(_), cumprod(_).
   The tensor along [dim] is a list; [op] is the user-supplied operation.

   cumops_(input, dim, ops):
     L = input.shape[dim]
     for i in 2 ** arange(<number of strides for L>):
         index = arange(i, L)                         -- raises when i > L
         v.index_copy_(dim, index, ops(v[index - i], v[index]))   -- all reads before writes

   The number of strides is a parameter of the model ([nstr]); the instance [nstrides] is what
   the current source computes, (L-1).bit_length() = log2_up L. *)
From Coq Require Import List Arith Lia PeanoNat ZArith.
Import ListNotations.

Section Cumops.
Variable A : Type.
Variable op : A -> A -> A.

Fixpoint zipop (a b : list A) : list A :=
  match a, b with
  | x :: a', y :: b' => op x y :: zipop a' b'
  | _, _ => []
  end.

(* one pass with stride s; None = the implementation raises (arange(s, L) with s > L) *)
Definition pass (s : nat) (v : list A) : option (list A) :=
  if length v <? s then None
  else Some (firstn s v ++ zipop v (skipn s v)).

Fixpoint scan (strides : list nat) (v : list A) : option (list A) :=
  match strides with
  | [] => Some v
  | s :: rest => match pass s v with None => None | Some v' => scan rest v' end
  end.

Fixpoint pows (k : nat) (s : nat) : list nat :=
  match k with O => [] | S k' => s :: pows k' (2 * s) end.

(* strides as the source derives them from L *)
Definition nstrides (L : nat) : nat := Nat.log2_up L.
Definition strides (L : nat) : list nat := pows (nstrides L) 1.

Definition cumops_model (v : list A) : option (list A) := scan (strides (length v)) v.

(* memory behaviour: (returned value, post-state of the argument) *)
Definition cumops_inplace (v : list A) : option (list A * list A) :=
  match cumops_model v with Some r => Some (r, r) | None => None end.
Definition cumops_pure (v : list A) : option (list A * list A) :=
  match cumops_model v with Some r => Some (r, v) | None => None end.
End Cumops.

Arguments zipop {A}. Arguments pass {A}. Arguments scan {A}. Arguments cumops_model {A}.
Arguments cumops_inplace {A}. Arguments cumops_pure {A}.

(* wrappers: cumprod/cummul(left=True) pass  (fun a b => b o a),  left=False  (fun a b => a o b) *)
Definition flip_op {A} (f : A -> A -> A) : A -> A -> A := fun a b => f b a.
Definition cumprod_model {A} (mul : A -> A -> A) (left : bool) (v : list A) :=
  cumops_model (if left then flip_op mul else mul) v.

(* ---- the free "segment" monoid used by the correspondence check on plain tensors:
   an item is an interval [first,last]; a o b is defined only for adjacent intervals *)
Definition seg := option (Z * Z).
Definition seg_op (a b : seg) : seg :=
  match a, b with
  | Some (a1, a2), Some (b1, b2) => if Z.eqb (a2 + 1) b1 then Some (a1, b2) else None
  | _, _ => None
  end.
Fixpoint seg_input_dir (left : bool) (base : Z) (L : nat) : list seg :=
  match L with O => [] | S n => Some (base, base) :: seg_input_dir left (if left then base - 1 else base + 1)%Z n end.
Definition seg_input := seg_input_dir false.
(* positions whose value differs from the sequential fold, with the value there; the fold at
   position i is [base, base+i] (right order, ascending input) or [base-i, base] (left order,
   descending input, operands swapped); poison is reported as (-1,-1) *)
Fixpoint seg_dev (left : bool) (base : Z) (i : Z) (v : list seg) : list (Z * (Z * Z)) :=
  match v with
  | [] => []
  | x :: r =>
    let rest := seg_dev left base (i + 1) r in
    match x with
    | Some (a, b) =>
        if (if left then Z.eqb a (base - i) && Z.eqb b base else Z.eqb a base && Z.eqb b (base + i))%bool
        then rest else (i, (a, b)) :: rest
    | None => (i, (-1, -1)%Z) :: rest
    end
  end.
Definition seg_run_dir (left : bool) (base : Z) (L : nat) : option (list (Z * (Z * Z))) :=
  match cumops_model (if left then (fun a b => seg_op b a) else seg_op) (seg_input_dir left base L) with
  | Some r => Some (seg_dev left base 0 r) | None => None end.
Definition seg_run := seg_run_dir false.

(* ---- comparison helpers for the correspondence check (executed with vm_compute) *)
Definition dev := list (Z * (Z * Z)).
Fixpoint dev_eqb (a b : dev) : bool :=
  match a, b with
  | [], [] => true
  | (i, (x, y)) :: a', (j, (u, v)) :: b' => (Z.eqb i j && Z.eqb x u && Z.eqb y v && dev_eqb a' b')%bool
  | _, _ => false
  end.
Definition odev_eqb (a b : option dev) : bool :=
  match a, b with
  | Some x, Some y => dev_eqb x y
  | None, None => true
  | _, _ => false
  end.
(* a case: (index, base, L, implementation's deviation list or None when it raised) *)
Definition seg_case := (nat * bool * Z * nat * option dev)%type.
Definition seg_bad (cs : list seg_case) : list nat :=
  map (fun c => match c with (i, _, _, _, _) => i end)
      (filter (fun c => match c with (_, lf, b, L, r) => negb (odev_eqb (seg_run_dir lf b L) r) end) cs).
(* range check: cases (b, L) for L in lo..lo+n-1 whose implementation result was "no deviation" *)
Definition seg_bad_range (lo n : nat) (except : list nat) : list nat :=
  filter (fun L => negb (odev_eqb (seg_run 100000 L) (Some [])) || existsb (Nat.eqb L) except)%bool (seq lo n).

(* memory behaviour on the segment monoid: (post-state = input?, post-state = result?) *)
Fixpoint segl_eqb (a b : list seg) : bool :=
  match a, b with
  | [], [] => true
  | Some (x, y) :: a', Some (u, v) :: b' => (Z.eqb x u && Z.eqb y v && segl_eqb a' b')%bool
  | None :: a', None :: b' => segl_eqb a' b'
  | _, _ => false
  end.
Definition mem_flags (inplace : bool) (L : nat) : option (bool * bool) :=
  let v := seg_input 100000 L in
  match (if inplace then cumops_inplace seg_op v else cumops_pure seg_op v) with
  | Some (r, post) => Some (segl_eqb post v, segl_eqb post r)
  | None => None
  end.
