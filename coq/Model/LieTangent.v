(* Model of the tangent-space API of pypose/lietensor/lietensor.py that C05 speaks about:
   Retr, add / add_ / + (groups: Exp(other[..., :k]) @ X; algebras: plain addition of the first k
   components), Jinvp, Jr.  Adj / AdjT forwards are in Model/LieGroup.v, Jl_inv in Model/LieJac.v. *)
From Coq Require Import ZArith List Bool.
Import ListNotations.
From PV Require Import Base.Num Model.LieGroup Model.LieExp Model.LieLog Model.LieJac.

Section LieTangent.
Context {F : Type} {NF : Num F} {TF : Trans F}.
Variable eps : F.

(* LieType.Retr(X, a) = a.Exp() * X *)
Definition retr_l (g : nat) (X a : list F) : list F := g_mul g (exp_l eps g a) X.
(* <Group>Type.add_(input, other) = input.copy_(LieTensor(other[..., :k], ltype=algebra).Exp() * input) *)
Definition add_group_l (g : nat) (X other : list F) : list F := g_mul g (exp_l eps g (firstn (adim g) other)) X.
(* LieType.add_ for algebra types: input + other[..., :manifold] *)
Definition add_alg_l (g : nat) (x other : list F) : list F := ladd x (firstn (adim g) other).
(* SO3Type.Jr(X) = X.Log().Jr() *)
Definition SO3_Jr (X : list F) : lmat := so3_Jr eps (log_l eps 0 X).
End LieTangent.
