(* Model of the logarithm maps of pypose/lietensor/operation.py:
   SO3_Log, SE3_Log, RxSO3_Log, Sim3_Log (forward) with so3_Jl_inv, exactly as coded. *)
From Coq Require Import ZArith List Bool.
Import ListNotations.
From PV Require Import Base.Num Model.LieGroup Model.LieExp.

Section LieLog.
Context {F : Type} {NF : Num F} {TF : Trans F}.
Local Open Scope num_scope.
Variable eps : F.

(* SO3_Log.forward: factor * v, three regimes *)
Definition SO3_log_factor (vn w : F) : F :=
  if eps <? vn then
    if eps <? absF w then two * tatan (vn / w) / vn
    else pm w * tpi / vn
  else two * (one / w - vn * vn / (ofZ 3 * (w * w * w))).
Definition SO3_log (q : quat) : vec3 :=
  vscale (SO3_log_factor (vnorm (qv q)) (qw q)) (qv q).

(* so3_Jl_inv: I - 1/2 K + coef2 K^2 *)
Definition so3_Jl_inv_coef (theta : F) : F :=
  if eps <? theta
  then (one - theta * tcos (half * theta) / (two * tsin (half * theta))) / (theta * theta)
  else frac 1 12.
Definition so3_Jl_inv (x : vec3) : mat3 :=
  let K := skew x in
  madd3 (madd3 mid3 (mscale3 (- half) K)) (mscale3 (so3_Jl_inv_coef (vnorm x)) (mmul3 K K)).

Definition SE3_log (X : se3elt) : vec3 * vec3 :=
  let phi := SO3_log (snd X) in (mvmul (so3_Jl_inv phi) (fst X), phi).
Definition RxSO3_log (X : rxso3elt) : vec3 * F := (SO3_log (fst X), tln (snd X)).

(* 3x3 inverse (adjugate / determinant): what .inverse() computes in exact arithmetic *)
Definition minv3 (m : mat3) : mat3 :=
  let d := mdet3 m in
  let c0 := vcross (mr1 m) (mr2 m) in
  let c1 := vcross (mr2 m) (mr0 m) in
  let c2 := vcross (mr0 m) (mr1 m) in
  (* inverse = (1/det) * [c0 c1 c2] as columns *)
  mscale3 (one / d) (mtrans (c0, c1, c2)).
Definition Sim3_log (X : sim3elt) : vec3 * (vec3 * F) :=
  let ps := RxSO3_log (snd X) in
  (mvmul (minv3 (rxso3_Ws eps ps)) (fst X), ps).

Definition log_l (g : nat) (x : list F) : list F :=
  match g with
  | 0 => v3_l (SO3_log (l_q x))
  | 1 => let r := SE3_log (l_SE3 x) in v3_l (fst r) ++ v3_l (snd r)
  | 2 => let r := RxSO3_log (l_RxSO3 x) in v3_l (fst r) ++ [snd r]
  | _ => let r := Sim3_log (l_Sim3 x) in v3_l (fst r) ++ v3_l (fst (snd r)) ++ [snd (snd r)]
  end.
End LieLog.
