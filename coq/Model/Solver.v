(* Model of pypose/optim/solver.py: PINV, LSTSQ, Cholesky (wrappers around torch.linalg oracles) and
   CG (transcribed in full).  Vectors are lists, matrices are lists of rows.  A single system is an
   n x n matrix with an n x 1 right-hand side (CG is documented for single systems); the direct
   solvers take (batches of) m x n matrices with m x k right-hand sides.

   What is an oracle here (Section variables in Props/Proofs, never axioms):
     torch.linalg.pinv, torch.linalg.lstsq, torch.linalg.cholesky_ex, Tensor.cholesky_solve,
     torch.linalg.norm (2-norm of a column).
   NaN is modelled only where the code looks at it: oracle results that the code tests with
   torch.isnan have entries of type [option F] (None = NaN). *)
From Coq Require Import ZArith QArith List Bool Arith.
Import ListNotations.
From PV Require Import Base.Num.
Close Scope Q_scope.

Section LinAlg.
Context {F : Type} {NF : Num F}.
Local Open Scope num_scope.

Definition vec := list F.
Definition mat := list (list F).

Fixpoint dot (u v : vec) : F :=
  match u, v with
  | a :: u', b :: v' => a * b + dot u' v'
  | _, _ => zero
  end.
Fixpoint vmap2 (f : F -> F -> F) (u v : vec) : vec :=
  match u, v with
  | a :: u', b :: v' => f a b :: vmap2 f u' v'
  | _, _ => []
  end.
Definition vadd := vmap2 add.
Definition vsub := vmap2 sub.
Definition vscale (a : F) (v : vec) : vec := map (mul a) v.
Definition vzero (n : nat) : vec := repeat zero n.
Definition mv (A : mat) (x : vec) : vec := map (fun row => dot row x) A.
Definition col (j : nat) (B : mat) : vec := map (fun row => nth j row zero) B.
Definition ncols (B : mat) : nat := match B with [] => O | r :: _ => length r end.
(* A @ B *)
Definition mm (A B : mat) : mat :=
  map (fun row => map (fun j => dot row (col j B)) (seq 0 (ncols B))) A.
Definition transpose (A : mat) : mat := map (fun j => col j A) (seq 0 (ncols A)).
Definition sqnorm (v : vec) : F := dot v v.
End LinAlg.

(* ------------------------------------------------------------------------------------------ *)
(* Direct solvers: the wrapper logic.                                                          *)
Section Direct.
Context {F : Type} {NF : Num F}.

(* a tensor whose entries may be NaN *)
Definition xmat := list (list (option F)).
Definition is_nan (o : option F) : bool := match o with None => true | Some _ => false end.
(* torch.any(torch.isnan(X)) *)
Definition has_nan (X : xmat) : bool := existsb (existsb is_nan) X.
(* the values of a tensor known to be NaN-free *)
Definition strip (X : xmat) : mat (F:=F) := map (map (fun o => match o with Some v => v | None => zero end)) X.
Definition inject (X : mat (F:=F)) : xmat := map (map Some) X.

(* ---- PINV.forward:  return pinv(A, atol, rtol, hermitian) @ b   (nothing asserted) ---- *)
Record pinv_cfg := { p_atol : option F; p_rtol : option F; p_hermitian : bool }.
Variable pinv : pinv_cfg -> mat (F:=F) -> mat (F:=F).
Definition PINV (c : pinv_cfg) (A b : mat) : mat := mm (pinv c A) b.

(* ---- LSTSQ.forward:  out = lstsq(A, b, rcond, driver); assert no NaN in out.solution ---- *)
Inductive driver := gels | gelsy | gelsd | gelss.
Record lstsq_cfg := { l_rcond : option F; l_driver : option driver }.
Variable lstsq : lstsq_cfg -> mat (F:=F) -> mat (F:=F) -> xmat.
Definition LSTSQ (c : lstsq_cfg) (A b : mat) : option mat :=
  let sol := lstsq c A b in
  if has_nan sol then None          (* AssertionError *)
  else Some (strip sol).

(* ---- Cholesky.forward (after the repair, /repo 3f16d24):
        L, info = cholesky_ex(A, upper)
        assert not any(isnan(L)) and not any(info != 0)
        return b.cholesky_solve(L, upper) ---- *)
Variable cholesky_ex : bool -> mat (F:=F) -> xmat * Z.
Variable cholesky_solve : bool -> mat (F:=F) -> mat (F:=F) -> xmat.   (* upper, b, L *)
Definition Cholesky (upper : bool) (A b : mat) : option xmat :=
  let '(L, info) := cholesky_ex upper A in
  if has_nan L || negb (info =? 0)%Z then None            (* AssertionError *)
  else Some (cholesky_solve upper b (strip L)).
(* the wrapper before the repair (history: the _refuted theorems are about this one):
        assert not any(isnan(L))     -- [info] was bound and never read *)
Definition Cholesky_old (upper : bool) (A b : mat) : option xmat :=
  let '(L, info) := cholesky_ex upper A in
  if has_nan L then None
  else Some (cholesky_solve upper b (strip L)).

(* ---- batched calls: the torch routines act on every matrix of the batch independently; the
        assertions are taken over the whole batch (torch.any over all entries) ---- *)
Fixpoint map2 {X Y Z} (f : X -> Y -> Z) (xs : list X) (ys : list Y) : list Z :=
  match xs, ys with x :: xs', y :: ys' => f x y :: map2 f xs' ys' | _, _ => [] end.
Definition PINV_batch c (As bs : list mat) : list mat := map2 (PINV c) As bs.
Definition LSTSQ_batch c (As bs : list mat) : option (list mat) :=
  let sols := map2 (lstsq c) As bs in
  if existsb has_nan sols then None else Some (map strip sols).
Definition Cholesky_batch upper (As bs : list mat) : option (list xmat) :=
  let Ls := map (cholesky_ex upper) As in
  if existsb (fun Li => has_nan (fst Li)) Ls || existsb (fun Li => negb (snd Li =? 0)%Z) Ls then None
  else Some (map2 (fun b Li => cholesky_solve upper b (strip (fst Li))) bs Ls).
End Direct.

(* ------------------------------------------------------------------------------------------ *)
(* CG.forward                                                                                  *)
Section CG.
Context {F : Type} {NF : Num F}.
Local Open Scope num_scope.

(* a / b in floating point never raises: a zero divisor yields inf/nan, which then spreads to the
   returned x.  The model stops with [None] (= "the result is not finite") at that point. *)
Definition divo (a b : F) : option F := if b =? zero then None else Some (a / b).

(* state carried around the loop: x, r and, after the first spin, (p, rho_prev) *)
Definition cg_prev := option (vec (F:=F) * F).

(* one loop body (after the tolerance test):
     z = M r | r;  rho_cur = r.z;  p = beta p + z (beta = rho_cur / rho_prev) | p = z;
     q = A p;  alpha = rho_cur / (p.q);  x += alpha p;  r -= alpha q;  rho_prev = rho_cur *)
Definition cg_body (A : mat) (M : option mat) (x r : vec) (prev : cg_prev)
  : option (vec * vec * (vec * F)) :=
  let z := match M with Some Mm => mv Mm r | None => r end in
  let rho_cur := dot r z in
  let po := match prev with
            | Some (p, rho_prev) =>                       (* iteration > 0 *)
                match divo rho_cur rho_prev with
                | Some beta => Some (vadd (vscale beta p) z)
                | None => None
                end
            | None => Some z                              (* first spin *)
            end in
  match po with
  | None => None
  | Some p =>
      let q := mv A p in
      match divo rho_cur (dot p q) with
      | None => None
      | Some alpha => Some (vadd x (vscale alpha p), vsub r (vscale alpha q), (p, rho_cur))
      end
  end.

Inductive cg_out :=
| CgExit (x r : vec (F:=F)) (k : nat)     (* the tolerance test fired before iteration k *)
| CgMaxIter (x r : vec (F:=F))            (* range(maxiter) exhausted *)
| CgNonFinite.                            (* a division by zero occurred *)

(* [conv r] is the tolerance test  (norm(r) < atol).all()  *)
Fixpoint cg_loop (conv : vec -> bool) (fuel : nat) (k : nat) (A : mat) (M : option mat)
                 (x r : vec) (prev : cg_prev) : cg_out :=
  match fuel with
  | O => CgMaxIter x r
  | S f =>
      if conv r then CgExit x r k
      else match cg_body A M x r prev with
           | None => CgNonFinite
           | Some (x', r', pr) => cg_loop conv f (S k) A M x' r' (Some pr)
           end
  end.

Inductive cg_result :=
| RetB (b : vec (F:=F))                   (* bnrm2 == 0: return b *)
| RetLoop (o : cg_out).

(* x.any() *)
Definition vany (x : vec) : bool := existsb (fun v => negb (v =? zero)) x.

(* the skeleton, with the two norm-based decisions as parameters:
     [bzero b]   = (norm(b) == 0)
     [conv b r]  = (norm(r) < tol * norm(b))                                           *)
Definition cg_core (bzero : vec -> bool) (conv : vec -> vec -> bool)
                   (maxiter : option nat) (A : mat) (b : vec) (x0 : option vec) (M : option mat)
  : cg_result :=
  let x := match x0 with Some x => x | None => map (fun _ => zero) b end in   (* zeros_like(b) *)
  if bzero b then RetB b else
  let n := length b in
  let maxit := match maxiter with None => (n * 10)%nat | Some k => k end in
  let r := if vany x then vsub b (mv A x) else b in
  RetLoop (cg_loop (conv b) maxit O A M x r None).

(* CG.forward as coded: bnrm2 = norm(b); atol = tol * bnrm2; test norm(r) < atol *)
Definition cg (nrm : vec -> F) (tol : F) :=
  cg_core (fun b => nrm b =? zero) (fun b r => nrm r <? tol * nrm b).

(* the same decisions on squared norms (no square root: runs over Q).  Proofs/Solver.v shows that
   for tol >= 0 and nrm = the Euclidean norm over R both variants are the same function. *)
Definition cg_sq (tol : F) :=
  cg_core (fun b => dot b b =? zero) (fun b r => dot r r <? (tol * tol) * dot b b).

(* what forward returns: a tensor, or (None) a tensor with non-finite entries *)
Definition cg_value (res : cg_result) : option vec :=
  match res with
  | RetB b => Some b
  | RetLoop (CgExit x _ _) => Some x
  | RetLoop (CgMaxIter x _) => Some x
  | RetLoop CgNonFinite => None
  end.
End CG.

(* ------------------------------------------------------------------------------------------ *)
(* evaluators for the correspondence (Q)                                                        *)
Definition Qabs' (a : Q) : Q := if Qle_bool 0 a then a else Qopp a.
Definition close_vec (eps : Q) (u v : list Q) : bool :=
  Nat.eqb (length u) (length v) && forallb (fun p => Qle_bool (Qabs' (fst p - snd p)) eps) (combine u v).
Definition close_ovec (eps : Q) (u v : option (list Q)) : bool :=
  match u, v with
  | Some a, Some b => close_vec eps a b
  | None, None => true
  | _, _ => false
  end.
(* One pass that yields the value of CG(maxiter = k) for every k <= K: the list of the x visited by
   the loop (it ends where the tolerance test fires, where a division by zero occurs (flag), or after
   K bodies).  Proofs/Solver.v (cg_values_spec) shows that the k-th entry of [cg_sq_values] is
   [cg_value (cg_sq tol (Some k) ...)]. *)
Section Trace.
Context {F : Type} {NF : Num F}.
Fixpoint cg_states (conv : vec -> bool) (fuel : nat) (A : mat) (M : option mat) (x r : vec (F:=F)) (prev : cg_prev)
  : list vec * bool :=
  match fuel with
  | O => ([x], false)
  | S f =>
      if conv r then ([x], false)
      else match cg_body A M x r prev with
           | None => ([x], true)
           | Some (x', r', pr) => let '(l, nf) := cg_states conv f A M x' r' (Some pr) in (x :: l, nf)
           end
  end.
Definition value_at (st : list vec * bool) (k : nat) : option (vec (F:=F)) :=
  let '(l, nf) := st in
  if (k <? length l)%nat then Some (nth k l [])
  else if nf then None else Some (List.last l []).
Definition cg_core_values (bzero : vec -> bool) (conv : vec -> vec -> bool) (K : nat) (ks : list nat)
                          (A : mat) (b : vec) (x0 : option vec) (M : option mat) : list (option vec) :=
  let x := match x0 with Some x => x | None => map (fun _ => zero) b end in
  if bzero b then map (fun _ => Some b) ks else
  let r := if vany x then vsub b (mv A x) else b in
  let st := cg_states (conv b) K A M x r None in
  map (value_at st) ks.
Definition cg_sq_values (tol : F) :=
  cg_core_values (fun b => (dot b b =? zero)%num) (fun b r => (dot r r <? (tol * tol) * dot b b)%num).
End Trace.

(* case: index, A, b, x0, M, tol, K, [(k, value of CG(maxiter = k) in the implementation (None =
   non-finite))] with all k <= K, eps.
   The implementation's values must be eps-close to the model's, where the tolerance test may be
   decided with tol, tol(1+2^-20) or tol(1-2^-20): a float64 run cannot be told apart from the exact
   one when norm(r) is within rounding of atol. *)
Definition cg_case := (nat * list (list Q) * list Q * option (list Q) * option (list (list Q)) * Q * nat
                       * list (nat * option (list Q)) * Q)%type.
Definition cg_case_ok (c : cg_case) : bool :=
  let '(_, A, b, x0, M, tol, K, impl, eps) := c in
  let ok t := forallb (fun p => close_ovec eps (fst p) (snd p)) (combine (cg_sq_values t K (map fst impl) A b x0 M) (map snd impl)) in
  let d := (1 # 1048576)%Q in
  if ok tol then true else if ok (Qred (tol * (1 + d)))%Q then true else ok (Qred (tol * (1 - d)))%Q.
Definition cg_bad (cs : list cg_case) : list nat :=
  map (fun c => let '(i, _, _, _, _, _, _, _, _) := c in i) (filter (fun c => negb (cg_case_ok c)) cs).
(* which way the model leaves: 0 = return b, 1 = tolerance exit, 2 = maxiter, 3 = non-finite;
   together with the iteration count at a tolerance exit *)
Definition cg_kind (tol : Q) (mi : option nat) (A : list (list Q)) (b : list Q) (x0 : option (list Q)) (M : option (list (list Q))) : nat * nat :=
  match cg_sq tol mi A b x0 M with
  | RetB _ => (0, 0)%nat
  | RetLoop (CgExit _ _ k) => (1, k)%nat
  | RetLoop (CgMaxIter _ _) => (2, 0)%nat
  | RetLoop CgNonFinite => (3, 0)%nat
  end.

(* wrapper decision tables: constant oracles that answer what torch answered (NaN anywhere in the
   factor / solution? which info?), compared with whether the implementation raised.
   kind 0 = LSTSQ, 1 = Cholesky (lower), 2 = Cholesky (upper). *)
Definition wrap_raises (kind : nat) (nan : bool) (info : Z) : bool :=
  let X : xmat (F:=Q) := if nan then [[None]] else [[Some 1%Q]] in
  match kind with
  | O => match LSTSQ (fun _ _ _ => X) {| l_rcond := None; l_driver := None |} [[1%Q]] [[1%Q]] with None => true | Some _ => false end
  | S k => match Cholesky (fun _ _ => (X, info)) (fun _ _ _ => [[Some 1%Q]]) (Nat.eqb k 1) [[1%Q]] [[1%Q]] with None => true | Some _ => false end
  end.
Definition wrap_bad (cs : list (nat * nat * bool * Z * bool)) : list nat :=
  map (fun c => let '(i, _, _, _, _) := c in i)
      (filter (fun c => let '(_, kind, nan, info, raised) := c in negb (Bool.eqb (wrap_raises kind nan info) raised)) cs).
