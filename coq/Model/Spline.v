(* Model of pypose/function/spline.py: chspline (cubic Hermite spline with finite-difference
   tangents) and bspline (cumulative cubic B-spline on a Lie group), as coded.

   chspline works coordinate by coordinate (every tensor operation in it is element-wise in the
   last dimension and in the batch dimensions), so the model is a function on ONE scalar sequence
   ([chspline1]); a [..., N, D] tensor is the family of its batch x D columns ([chspline]).
   The number of samples per unit interval, k = torch.arange(0, 1, interval).shape[0], is computed
   by torch from the float quotient 1/interval; it is READ from the implementation and passed to
   the model as [k]; [chs_count] is the real-number value it stands for (number of multiples of
   the interval in [0,1)) and the tie compares the two.

   bspline is written over an abstract group G with algebra A (Section variables gmul, ginv,
   gexp, glog, ascale); [bs_seg_SE3] instantiates it with the SE3 models of LieGroup/LieExp/LieLog. *)
From Coq Require Import ZArith QArith Qabs List Bool.
Import ListNotations.
From PV Require Import Base.Num Model.LieGroup Model.LieExp Model.LieLog.
Close Scope Q_scope.

(* torch.arange(a, a+n) over the integers; counted with Z, recursion on the length *)
Fixpoint zrange (a : Z) (n : nat) : list Z :=
  match n with O => [] | S m => a :: zrange (a + 1) m end.

(* python's l[:-m]  (m = 0 gives the EMPTY list: l[:-0] == l[:0]) *)
Definition drop_last {A} (m : nat) (l : list A) : list A :=
  match m with O => [] | _ => firstn (length l - m) l end.

(* number of integers j >= 0 with j * (a/b) < 1, for a, b > 0:  ceil(b / a) *)
Definition chs_count (a b : Z) : Z := ((b + a - 1) / a)%Z.

Section Chspline.
Context {F : Type} {NF : Num F}.
Local Open Scope num_scope.

(* intervals = torch.arange(0, 1, interval): the k values j * interval, j = 0..k-1 *)
Definition chs_intervals (k : nat) (q : F) : list F := map (fun j => ofZ j * q) (zrange 0 k).

(* timeline = (arange(N)[:, None] + intervals).view(-1)[:-(k-1)] *)
Definition chs_timeline (N k : nat) (q : F) : list F :=
  drop_last (k - 1) (flat_map (fun n => map (fun iv => ofZ n + iv) (chs_intervals k q)) (zrange 0 N)).

(* torch.searchsorted(xs, v) (right=False) on a sorted xs: index of the first element >= v *)
Fixpoint searchsorted (xs : list F) (v : F) : nat :=
  match xs with [] => O | x :: r => if x <? v then S (searchsorted r v) else O end.

(* l[1:] - l[:-1] *)
Definition diffs (l : list F) : list F := map (fun p => snd p - fst p) (combine l (tl l)).

(* m = (p[1:] - p[:-1]) / (x[1:] - x[:-1]);  cat([m[0]], (m[1:] + m[:-1]) / 2, [m[-1]]) *)
Definition chs_slopes (ys xs : list F) : list F :=
  map (fun p => fst p / snd p) (combine (diffs ys) (diffs xs)).
Definition chs_tangents (ys xs : list F) : list F :=
  let m := chs_slopes ys xs in
  [hd zero m] ++ map (fun p => (snd p + fst p) / two) (combine m (tl m)) ++ [List.last m zero].

(* hh = (A @ t ** [0,1,2,3]) with A = [[1,0,-3,2],[0,1,-2,1],[0,0,3,-2],[0,0,-1,1]] *)
Definition chs_row (a b c d : Z) (t : F) : F :=
  ofZ a * one + ofZ b * t + ofZ c * (t * t) + ofZ d * (t * t * t).
Definition chs_hh (t : F) : F * F * F * F :=
  (chs_row 1 0 (-3) 2 t, chs_row 0 1 (-2) 1 t, chs_row 0 0 3 (-2) t, chs_row 0 0 (-1) 1 t).

(* one interpolated value at time v *)
Definition chs_point (ys ms xs : list F) (v : F) : F :=
  let idx := searchsorted (tl xs) v in
  let x0 := nth idx xs zero in
  let x1 := nth (S idx) xs zero in
  let dx := x1 - x0 in
  let t := (v - x0) / dx in
  let '(h0, h1, h2, h3) := chs_hh t in
  h0 * nth idx ys zero + h1 * nth idx ms zero * dx + h2 * nth (S idx) ys zero + h3 * nth (S idx) ms zero * dx.

(* None = the call raises (assert interval < 1; IndexError for fewer than two points) *)
Definition chspline1 (k : nat) (q : F) (ys : list F) : option (list F) :=
  if negb (q <? one) then None else
  let N := length ys in
  if (N <? 2)%nat then None else
  let xs := map ofZ (zrange 0 N) in
  let ms := chs_tangents ys xs in
  Some (map (chs_point ys ms xs) (chs_timeline N k q)).

(* a [..., N, D] tensor given as the list of its (batch x D) columns *)
Definition chspline (k : nat) (q : F) (cols : list (list F)) : list (option (list F)) :=
  map (chspline1 k q) cols.
End Chspline.

(* ------------------------------------------------------------------ bspline *)
Section Bspline.
Context {F : Type} {NF : Num F}.
Local Open Scope num_scope.
Variables G A : Type.
Variable gmul : G -> G -> G.
Variable ginv : G -> G.
Variable gexp : A -> G.
Variable glog : G -> A.
Variable ascale : F -> A -> A.

(* B = [[5,3,-3,1],[1,3,3,-2],[0,0,0,1]] / 6 ;  w = B @ u ** [0,1,2,3] *)
Definition bs_row (a b c d : Z) (u : F) : F :=
  (ofZ a / ofZ 6) * one + (ofZ b / ofZ 6) * u + (ofZ c / ofZ 6) * (u * u) + (ofZ d / ofZ 6) * (u * u * u).
Definition bs_w (u : F) : F * F * F :=
  (bs_row 5 3 (-3) 1 u, bs_row 1 3 3 (-2) u, bs_row 0 0 0 1 u).
(* B.sum(dim=1) *)
Definition bs_rsum (a b c d : Z) : F := ofZ a / ofZ 6 + ofZ b / ofZ 6 + ofZ c / ofZ 6 + ofZ d / ofZ 6.
Definition bs_wend : F * F * F := (bs_rsum 5 3 (-3) 1, bs_rsum 1 3 3 (-2), bs_rsum 0 0 0 1).

Definition win := (G * G * G * G)%type.
(* P = (P[:3].Inv() * P[1:]).Log();  A = (P * w).Exp();  A0 * A1 * A2;  dP * A *)
Definition bs_seg (W : win) (w : F * F * F) : G :=
  let '(P0, P1, P2, P3) := W in
  let '(w0, w1, w2) := w in
  let d1 := glog (gmul (ginv P0) P1) in
  let d2 := glog (gmul (ginv P1) P2) in
  let d3 := glog (gmul (ginv P2) P3) in
  gmul P0 (gmul (gmul (gexp (ascale w0 d1)) (gexp (ascale w1 d2))) (gexp (ascale w2 d3))).

(* index = arange(N-3)[:, None] + arange(4): the windows of four consecutive poses *)
Fixpoint windows4 (l : list G) : list win :=
  match l with
  | a :: r => match r with
              | b :: c :: d :: _ => (a, b, c, d) :: windows4 r
              | _ => [] end
  | [] => [] end.

(* extrapolate: cat(first x 2, data, last x 2) *)
Definition bs_pad (data : list G) : list G :=
  match data with [] => [] | a :: _ => a :: a :: data ++ [List.last data a; List.last data a] end.

(* None = raises (assert interval < 1, fewer than four poses) *)
Definition bspline (k : nat) (q : F) (extrapolate : bool) (data : list G) : option (list G) :=
  if negb (q <? one) then None else
  let data' := if extrapolate then bs_pad data else data in
  match windows4 data' with
  | [] => None
  | (W0 :: _) as ws =>
      Some (flat_map (fun W => map (fun u => bs_seg W (bs_w u)) (chs_intervals k q)) ws
            ++ [bs_seg (List.last ws W0) bs_wend])
  end.
End Bspline.

(* ------------------------------------------------------------------ SE3 instance *)
Section BsplineSE3.
Context {F : Type} {NF : Num F} {TF : Trans F}.
Variable eps : F.
Definition se3_scale (s : F) (x : vec3 * vec3) : vec3 * vec3 := (vscale s (fst x), vscale s (snd x)).
Definition bs_seg_SE3 : win se3elt -> F * F * F -> se3elt :=
  bs_seg se3elt (vec3 * vec3) SE3_mul SE3_inv (se3_exp eps) (SE3_log eps) se3_scale.
Definition bspline_SE3 : nat -> F -> bool -> list se3elt -> option (list se3elt) :=
  bspline se3elt (vec3 * vec3) SE3_mul SE3_inv (se3_exp eps) (SE3_log eps) se3_scale.
(* one output pose for the enclosure route: window of four raw poses, u = Some u | None (the final
   pose, weights = row sums) *)
Definition bs_pose_l (P0 P1 P2 P3 : list F) (u : option F) : list F :=
  SE3_l (bs_seg_SE3 (l_SE3 P0, l_SE3 P1, l_SE3 P2, l_SE3 P3)
                    (match u with Some u => bs_w u | None => bs_wend end)).
End BsplineSE3.

(* ------------------------------------------------------------------ exact-route evaluators (Q) *)
Definition Qabs_le (a b tol : Q) : bool := Qle_bool (Qabs (a - b)) tol.
Definition Qlist_close (tol : Q) (a b : list Q) : bool :=
  Nat.eqb (length a) (length b) && forallb (fun p => Qabs_le (fst p) (snd p) tol) (combine a b).

(* (index, k read from torch.arange, interval, one column of the points, the implementation's
   column of the output or None when it raised, tolerance (0 for dyadic intervals)) *)
Definition chs_case := (nat * nat * Q * list Q * option (list Q) * Q)%type.
Definition chs_ok (c : chs_case) : bool :=
  match c with (_, k, q, ys, out, tol) =>
    match chspline1 k q ys, out with
    | Some r, Some o => Qlist_close tol r o
    | None, None => true
    | _, _ => false end end.
Definition chs_bad (cs : list chs_case) : list nat :=
  map (fun c => match c with (i, _, _, _, _, _) => i end) (filter (fun c => negb (chs_ok c)) cs).

(* (index, a, b, k of the implementation) for interval = a/b *)
Definition cnt_case := (nat * Z * Z * Z)%type.
Definition cnt_bad (cs : list cnt_case) : list nat :=
  map (fun c => match c with (i, _, _, _) => i end)
      (filter (fun c => match c with (_, a, b, k) => negb (Z.eqb (chs_count a b) k) end) cs).

(* the group-independent part of bspline over Q: weights and window structure, run on the
   additive group of Q (gexp = glog = id), where the spline is a polynomial *)
Definition bsq_case := (nat * nat * Q * bool * list Q * option (list Q) * Q)%type.
Definition bspline_Qadd (k : nat) (q : Q) (ex : bool) (data : list Q) : option (list Q) :=
  bspline Q Q (fun a b => Qred (a + b)) (fun a => Qred (- a)) (fun a => a) (fun a => a)
          (fun s a => Qred (s * a)) k q ex data.
Definition bsq_ok (c : bsq_case) : bool :=
  match c with (_, k, q, ex, data, out, tol) =>
    match bspline_Qadd k q ex data, out with
    | Some r, Some o => Qlist_close tol r o
    | None, None => true
    | _, _ => false end end.
Definition bsq_bad (cs : list bsq_case) : list nat :=
  map (fun c => match c with (i, _, _, _, _, _, _) => i end) (filter (fun c => negb (bsq_ok c)) cs).
