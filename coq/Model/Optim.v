(* Model of what ONE Gauss-Newton step / ONE Levenberg-Marquardt trial computes and how the result
   is applied (pypose/optim/optimizer.py), exactly as coded:

     GaussNewton.__init__ / LevenbergMarquardt.__init__   -> [init_correctors]
     RobustModel.flatten_row_jacobian                      -> [flatten_row_jacobian]
     the corrector loop of step()                          -> [correct_from]
     RobustModel.normalize_RWJ                             -> [expand_weight], [block_diag], [normalize_RWJ]
     GaussNewton.step   (A, b = W J, -W R)                 -> [gn_system], [gn_step]
     LevenbergMarquardt.step (J_T, A, clamp_, add_, b)     -> [lm_JT], [lm_A0], [lm_damp], [lm_b], [lm_trial]
     _Optimizer.update_parameter + LieType.add_            -> [update_parameter], [param_add], [add_item]

   The accept / reject loop, the loss bookkeeping and the strategies are Model/LM.v (property C08).

   The model follows /repo after commit a845d9f (frozen parameters: their Jacobian blocks are dropped in
   flatten_row_jacobian, update_parameter splits and zips over the trainable parameters only).  The code
   before that commit is kept as [flatten_row_jacobian_old], [update_parameter_old], [gn_step_old],
   [lm_trial_old] for the history theorems only (it raised whenever a parameter was frozen).

   Abstracted (Section variables, never axioms): the linear solver ([None] = it raises), the
   correctors (by identity: which corrector object is applied to which residual is modelled, what a
   FastTriggs / Triggs object computes is Model/Kernel.v, property C09), the exponential map used
   by the group retraction ([gexp]; instantiated with Model/LieExp.v in the theorems), and the
   Jacobian blocks J[i][j] themselves (torch.autograd through modjac; property C04).

   Tensors are a shape plus row-major data; matrices are lists of rows (Base/Mat.v).  Everything is
   executable over Q.  Partiality: [None] = the Python code raises. *)
From Coq Require Import ZArith QArith List Bool Arith.
Import ListNotations.
From PV Require Import Base.Num Base.Mat Model.LieGroup.
Close Scope Q_scope.

Fixpoint zipw {X Y Z} (f : X -> Y -> Z) (xs : list X) (ys : list Y) : list Z :=
  match xs, ys with x :: xs', y :: ys' => f x y :: zipw f xs' ys' | _, _ => [] end.
Definition prodn (s : list nat) : nat := fold_right Nat.mul 1%nat s.
Definition sumnat (s : list nat) : nat := fold_right Nat.add 0%nat s.

(* parameter kinds; g: 0 so3/SO3, 1 se3/SE3, 2 rxso3/RxSO3, 3 sim3/Sim3 *)
Inductive pkind := Euclid | Algebra (g : nat) | Group (g : nat).
(* ltype.manifold[0] *)
Definition adim (g : nat) : nat := match g with 0 => 3 | 1 => 6 | 2 => 4 | _ => 7 end.
(* last dimension of the parameter tensor (ltype.dimension[0]); Euclidean tensors are treated
   element by element *)
Definition pwidth (k : pkind) : nat :=
  match k with Euclid => 1 | Algebra g => adim g | Group g => S (adim g) end.

(* which corrector object: Trivial(), the FastTriggs(kernel k) built by __init__ (k = None for a
   None entry of the kernel list, i.e. FastTriggs(Trivial())), or the user's c-th corrector *)
Inductive cid := CTrivial | CFast (k : option nat) | CUser (c : nat).

Section Optim.
Context {F : Type} {NF : Num F}.
Local Open Scope num_scope.

Record tensor := { tshape : list nat; tdata : list F }.
Definition tnumel (t : tensor) : nat := prodn (tshape t).
(* x.shape[-1]; a 0-dim tensor raises IndexError *)
Definition last_dim (s : list nat) : option nat := match rev s with [] => None | d :: _ => Some d end.

(* ---------------- reshaping ---------------- *)
Definition chunk (w t : nat) (l : list F) : list F := firstn w (skipn (t * w) l).
Definition chunks (w n : nat) (l : list F) : list (list F) := map (fun t => chunk w t l) (seq 0 n).
(* l.reshape(-1, c) *)
Definition reshape_cols (c : nat) (l : list F) : @mat F := chunks c (length l / c) l.
(* torch.cat([...], 1) *)
Definition hcat (A B : @mat F) : @mat F := zipw (@app F) A B.
Definition hcat_all (Ms : list (@mat F)) : @mat F :=
  match Ms with [] => [] | M :: r => fold_left hcat r M end.

(* ---------------- parameters ---------------- *)
Record param := { pk : pkind; pdata : list F; preq : bool }.
Definition pnumel (p : param) : nat := length (pdata p).

(* RobustModel.flatten_row_jacobian: Jr = the blocks J[i][0..] of one residual (flat, row-major, one per
   named parameter, frozen ones included: that is what modjac returns), zipped with ALL parameters; only
   the blocks of the parameters with requires_grad are kept:
     torch.cat([j.reshape(-1, p.numel()) for j, p in zip(J, params_values) if p.requires_grad], 1) *)
Definition flatten_row_jacobian (Jr : list (list F)) (ps : list param) : @mat F :=
  hcat_all (map (fun jp => reshape_cols (pnumel (snd jp)) (fst jp))
                (filter (fun jp => preq (snd jp)) (combine Jr ps))).
(* before a845d9f: no filter *)
Definition flatten_row_jacobian_old (Jr : list (list F)) (ps : list param) : @mat F :=
  hcat_all (zipw (fun j p => reshape_cols (pnumel p) j) Jr ps).

(* ---------------- correctors ---------------- *)
Variable corr : cid -> tensor -> @mat F -> tensor * @mat F.
Definition apply_corr (c : cid) (R : tensor) (J : @mat F) : tensor * @mat F :=
  match c with CTrivial => (R, J) | _ => corr c R J end.

(* __init__: kernel / corrector already wrapped into lists when they were single objects *)
Definition init_correctors (kernel : option (list (option nat))) (corrector : option (list (option nat)))
  : list cid :=
  let cs := match kernel, corrector with
            | Some ks, None => map (fun k => Some (CFast k)) ks
            | None, None => [Some CTrivial]
            | _, Some cs => map (option_map CUser) cs
            end in
  map (fun c => match c with Some c => c | None => CTrivial end) cs.

(* for i in range(len(R)): R[i], J[i] = corrector[0](..) if len(corrector) == 1 else corrector[i](..) *)
Fixpoint correct_from (cs : list cid) (i : nat) (RJ : list (tensor * @mat F)) : option (list (tensor * @mat F)) :=
  match RJ with
  | [] => Some []
  | (R, J) :: rest =>
      match (if Nat.eqb (length cs) 1 then nth_error cs 0 else nth_error cs i) with
      | None => None                                            (* IndexError *)
      | Some c =>
          match correct_from cs (S i) rest with
          | None => None
          | Some r => Some (apply_corr c R J :: r)
          end
      end
  end.

(* ---------------- normalize_RWJ ---------------- *)
Definition zeros (n : nat) : list F := repeat zero n.
(* torch.block_diag *)
Fixpoint block_diag (Ms : list (@mat F)) : @mat F :=
  match Ms with
  | [] => []
  | M :: rest =>
      let B := block_diag rest in
      map (fun row => row ++ zeros (mcols B)) M ++ map (fun row => zeros (mcols M) ++ row) B
  end.

(* one (w, r) pair of the loop:
     ni = r.numel() * w.shape[-1] / w.numel()
     w = w.view( *w.shape, 1, 1) if r.shape[-1] == 1 else w
     ws = w.view(-1, w.shape[-2], w.shape[-1]).split(1, 0);  weight_diag += ws * int(ni) *)
Definition expand_weight (r w : tensor) : option (list (@mat F)) :=
  match last_dim (tshape r), last_dim (tshape w) with
  | Some rd, Some wd =>
      if Nat.eqb (tnumel w) 0 then None else                     (* ZeroDivisionError *)
      let ni := ((tnumel r * wd) / tnumel w)%nat in
      let wshape := if Nat.eqb rd 1 then tshape w ++ [1; 1]%nat else tshape w in
      match rev wshape with
      | c :: rr :: _ =>
          if Nat.eqb (rr * c) 0 then None else
          let nb := (prodn wshape / (rr * c))%nat in
          let ws := map (fun t => chunks c rr (skipn (t * (rr * c)) (tdata w))) (seq 0 nb) in
          Some (concat (repeat ws ni))
      | _ => None                                               (* w.shape[-2]: IndexError *)
      end
  | _, _ => None
  end.

Fixpoint expand_weights (Rs Ws : list tensor) : option (list (@mat F)) :=
  match Rs, Ws with
  | r :: Rs', w :: Ws' =>
      match expand_weight r w, expand_weights Rs' Ws' with
      | Some a, Some b => Some (a ++ b)
      | _, _ => None
      end
  | _, _ => Some []
  end.

(* weight: None, or the list of weight tensors (a single tensor is wrapped into a list) *)
Definition normalize_RWJ (Rs : list tensor) (weight : option (list tensor)) (Js : list (@mat F))
  : option (list F * option (@mat F) * @mat F) :=
  let Wd := match weight with
            | None => Some None
            | Some Ws => if Nat.eqb (length Rs) (length Ws)       (* assert len(R)==len(weight) *)
                         then match expand_weights Rs Ws with Some l => Some (Some (block_diag l)) | None => None end
                         else None
            end in
  match Wd with
  | None => None
  | Some W => Some (concat (map tdata Rs), W, concat Js)
  end.

(* weight = self.weight if weight is None else weight *)
Definition pick_weight (self_w step_w : option (list tensor)) : option (list tensor) :=
  match step_w with None => self_w | Some w => Some w end.

(* everything step() does before the linear system: R, J[i][j], correctors, normalize_RWJ *)
Record problem := {
  pbR : list tensor;                 (* residual tensors R[i] *)
  pbJ : list (list (list F));        (* modjac blocks J[i][j], flat *)
  pbW : option (list tensor);
  pbC : list cid;
  pbP : list param }.

Definition assemble_gen (flat : list (list F) -> list param -> @mat F) (pb : problem)
  : option (list F * option (@mat F) * @mat F) :=
  let Js := map (fun Jr => flat Jr (pbP pb)) (pbJ pb) in
  match correct_from (pbC pb) 0 (combine (pbR pb) Js) with
  | None => None
  | Some RJ => normalize_RWJ (map fst RJ) (pbW pb) (map snd RJ)
  end.
Definition assemble := assemble_gen flatten_row_jacobian.
Definition assemble_old := assemble_gen flatten_row_jacobian_old.

(* ---------------- the linear systems ---------------- *)
Definition vneg (v : list F) : list F := map opp v.
Definition mneg (A : @mat F) : @mat F := mscale (- one) A.

(* GaussNewton.step: A, b = (J, -R) if weight is None else (weight @ J, -weight @ R) *)
Definition gn_system (R : list F) (W : option (@mat F)) (J : @mat F) : @mat F * list F :=
  match W with
  | None => (J, vneg R)
  | Some W => (mmul W J, mapply (mneg W) R)
  end.

(* torch.clamp(x, lo, hi) = min(max(x, lo), hi) *)
Definition clampT (lo hi x : F) : F :=
  let y := if x <? lo then lo else x in if hi <? y then hi else y.
(* an in-place operation on A.diagonal() *)
Definition map_diag (f : F -> F) (A : @mat F) : @mat F :=
  mkmat (mrows A) (mcols A) (fun i j => if Nat.eqb i j then f (mget A i j) else mget A i j).

(* LevenbergMarquardt.step: J_T = J.T @ weight if weight is not None else J.T;  A = J_T @ J;
   A.diagonal().clamp_(pg['min'], pg['max']) *)
Definition lm_JT (W : option (@mat F)) (J : @mat F) : @mat F :=
  match W with None => mtr J | Some W => mmul (mtr J) W end.
Definition lm_A0 (mn mx : F) (JT J : @mat F) : @mat F := map_diag (clampT mn mx) (mmul JT J).
(* A.diagonal().add_(A.diagonal() * pg['damping'])  -- on the SAME A in every trial *)
Definition lm_damp (lam : F) (A : @mat F) : @mat F := map_diag (fun d => d + d * lam) A.
(* b = -J_T @ R.view(-1, 1) *)
Definition lm_b (JT : @mat F) (R : list F) : list F := mapply (mneg JT) R.
(* the matrix of the k-th trial of a call, dampings lam_1 .. lam_k *)
Definition lm_A (A0 : @mat F) (lams : list F) : @mat F := fold_left (fun A l => lm_damp l A) lams A0.

(* ---------------- update_parameter ---------------- *)
Variable gexp : nat -> list F -> list F.      (* algebra vector -> group element (LieType.Exp) *)

(* LieType.add_ for one item of the last dimension:
     algebra:  input + other[..., :manifold]
     group:    Exp(other[..., :manifold]) * input *)
Definition add_item (k : pkind) (x d : list F) : list F :=
  match k with
  | Euclid => zipw add x d
  | Algebra g => zipw add x (firstn (adim g) d)
  | Group g => g_mul g (gexp g (firstn (adim g) d)) x
  end.
(* p.add_(d.view(p.shape)) *)
Definition param_add (p : param) (d : list F) : param :=
  let w := pwidth (pk p) in
  let n := (pnumel p / w)%nat in
  {| pk := pk p;
     pdata := match pk p with
              | Euclid => zipw add (pdata p) d
              | k => concat (zipw (add_item k) (chunks w n (pdata p)) (chunks w n d))
              end;
     preq := preq p |}.

(* step.split(sizes): raises unless the sizes sum to the length *)
Fixpoint split_go (sizes : list nat) (v : list F) : list (list F) :=
  match sizes with [] => [] | n :: r => firstn n v :: split_go r (skipn n v) end.
Definition split_sizes (sizes : list nat) (v : list F) : option (list (list F)) :=
  if Nat.eqb (sumnat sizes) (length v) then Some (split_go sizes v) else None.

(* params = [p for p in params if p.requires_grad]
   steps = step.split([p.numel() for p in params])
   [p.add_(d.view(p.shape)) for p, d in zip(params, steps)]
   (in place: the frozen parameters stay where they are in the model's parameter list) *)
Fixpoint update_trainable (ps : list param) (steps : list (list F)) : list param :=
  match ps with
  | [] => []
  | p :: ps' =>
      if preq p then
        match steps with
        | d :: steps' => param_add p d :: update_trainable ps' steps'
        | [] => p :: update_trainable ps' []                    (* zip stops at the shorter one *)
        end
      else p :: update_trainable ps' steps
  end.
Definition update_parameter (ps : list param) (step : list F) : option (list param) :=
  match split_sizes (map pnumel (filter preq ps)) step with
  | None => None                                                (* RuntimeError: split_with_sizes *)
  | Some steps => Some (update_trainable ps steps)
  end.

(* before a845d9f:
     steps = step.split([p.numel() for p in params if p.requires_grad])
     [p.add_(d.view(p.shape)) for p, d in zip(params, steps) if p.requires_grad] *)
Fixpoint zip_update_old (ps : list param) (steps : list (list F)) : option (list param) :=
  match ps, steps with
  | p :: ps', d :: steps' =>
      if preq p then
        if Nat.eqb (length d) (pnumel p) then                  (* d.view(p.shape) *)
          match zip_update_old ps' steps' with
          | Some r => Some (param_add p d :: r)
          | None => None
          end
        else None
      else match zip_update_old ps' steps' with Some r => Some (p :: r) | None => None end
  | _, _ => Some ps                                             (* zip stops at the shorter one *)
  end.
Definition update_parameter_old (ps : list param) (step : list F) : option (list param) :=
  match split_sizes (map pnumel (filter preq ps)) step with
  | None => None
  | Some steps => zip_update_old ps steps
  end.

(* ---------------- one GN step / one LM trial ---------------- *)
Variable solver : @mat F -> list F -> option (list F).

Record trial_out := { tA : @mat F; tb : list F; tD : list F; tP : list param }.

(* GaussNewton.step; None = raises (assembly, solver or update_parameter) *)
Definition gn_step_gen (asm : problem -> option (list F * option (@mat F) * @mat F))
                       (upd : list param -> list F -> option (list param)) (pb : problem) : option trial_out :=
  match asm pb with
  | None => None
  | Some (R, W, J) =>
      let '(A, b) := gn_system R W J in
      match solver A b with
      | None => None
      | Some D =>
          match upd (pbP pb) D with
          | None => None
          | Some ps => Some {| tA := A; tb := b; tD := D; tP := ps |}
          end
      end
  end.
Definition gn_step := gn_step_gen assemble update_parameter.
Definition gn_step_old := gn_step_gen assemble_old update_parameter_old.

(* LevenbergMarquardt.step before the loop: (A_0, J_T, R) *)
Definition lm_init (mn mx : F) (pb : problem) : option (@mat F * @mat F * list F) :=
  match assemble pb with
  | None => None
  | Some (R, W, J) => let JT := lm_JT W J in Some (lm_A0 mn mx JT J, JT, R)
  end.

(* one pass of the while loop up to and including update_parameter *)
Inductive tres := TRaise | TSolverFailed | TDone (o : trial_out).
Definition lm_trial_gen (upd : list param -> list F -> option (list param))
    (Aprev JT : @mat F) (R : list F) (lam : F) (ps : list param) : tres :=
  let A := lm_damp lam Aprev in
  let b := lm_b JT R in
  match solver A b with
  | None => TSolverFailed                                       (* except: ... break *)
  | Some D =>
      match upd ps D with
      | None => TRaise                                          (* not inside the try *)
      | Some ps' => TDone {| tA := A; tb := b; tD := D; tP := ps' |}
      end
  end.
Definition lm_trial := lm_trial_gen update_parameter.
Definition lm_trial_old := lm_trial_gen update_parameter_old.

End Optim.

Arguments tshape {F}. Arguments tdata {F}. Arguments pk {F}. Arguments pdata {F}. Arguments preq {F}.
Arguments pbR {F}. Arguments pbJ {F}. Arguments pbW {F}. Arguments pbC {F}. Arguments pbP {F}.
Arguments tA {F}. Arguments tb {F}. Arguments tD {F}. Arguments tP {F}.
Arguments TRaise {F}. Arguments TSolverFailed {F}. Arguments TDone {F}.

(* ============================================================================================ *)
(*  Evaluators of the correspondence check (over Q).                                            *)
(*  The solver is the recorded step of the implementation ("the solver returned D"), correctors  *)
(*  and Exp are tables recorded from the implementation's own corrector / Exp calls, keyed by    *)
(*  identity and exact input.  Comparison |model - impl| <= rel * |impl| + floor; rel = floor = 0 *)
(*  (the exact route) means equality.                                                            *)
(* ============================================================================================ *)
Definition Qabs_ (a : Q) : Q := if Qle_bool 0 a then a else Qopp a.
Definition q_close (rel flo a b : Q) : bool :=
  Qle_bool (Qabs_ (Qred (a - b))) (Qred (rel * Qabs_ b + flo)).
Definition vec_close (rel flo : Q) (u v : list Q) : bool :=
  Nat.eqb (length u) (length v) && forallb (fun p => q_close rel flo (fst p) (snd p)) (combine u v).
(* diagonal entries: relative only; off-diagonal: relative + floor *)
Definition mat_close (rel flo : Q) (A B : list (list Q)) : bool :=
  Nat.eqb (length A) (length B) &&
  forallb (fun ir => let '(i, (ra, rb)) := ir in
             Nat.eqb (length ra) (length rb) &&
             forallb (fun jr => let '(j, (a, b)) := jr in q_close rel (if Nat.eqb i j then 0%Q else flo) a b)
                     (combine (seq 0 (length ra)) (combine ra rb)))
          (combine (seq 0 (length A)) (combine A B)).

(* GN hands the rectangular matrix W J to its solver: no entry of it is a 'diagonal of a normal matrix', the floor applies
   to every entry (a structurally zero entry of W J comes out of the floating product as a cancellation residue) *)
Definition mat_close_rect (rel flo : Q) (A B : list (list Q)) : bool :=
  Nat.eqb (length A) (length B) && forallb (fun r => vec_close rel flo (fst r) (snd r)) (combine A B).

Definition cid_eqb (a b : cid) : bool :=
  match a, b with
  | CTrivial, CTrivial => true
  | CFast None, CFast None => true
  | CFast (Some x), CFast (Some y) => Nat.eqb x y
  | CUser x, CUser y => Nat.eqb x y
  | _, _ => false
  end.
Definition tensorQ := @tensor Q.
Definition paramQ := @param Q.
Definition mk_tensor (t : list nat * list Q) : tensorQ := {| tshape := fst t; tdata := snd t |}.
(* parameter literal: (kind code 0 Euclid / 1 Algebra / 2 Group, g, data, requires_grad) *)
Definition mk_param (t : nat * nat * list Q * bool) : paramQ :=
  let '(k, g, d, r) := t in
  {| pk := match k with 0 => Euclid | 1 => Algebra g | _ => Group g end; pdata := d; preq := r |}.
(* corrector table: (corrector id, input R data, output R tensor, output J) *)
Definition corr_entry := (cid * list Q * (list nat * list Q) * list (list Q))%type.
Definition corr_table (tb : list corr_entry) (c : cid) (R : tensorQ) (J : list (list Q)) : tensorQ * list (list Q) :=
  match find (fun e => let '(c', rin, _, _) := e in cid_eqb c c' && Qlist_eqb rin (tdata R)) tb with
  | Some (_, _, rout, jout) => (mk_tensor rout, jout)
  | None => ({| tshape := []; tdata := [] |}, [])
  end.
(* Exp table: (g, algebra vector, group element) *)
Definition exp_entry := (nat * list Q * list Q)%type.
Definition exp_table (tb : list exp_entry) (g : nat) (x : list Q) : list Q :=
  match find (fun e => let '(g', k, _) := e in Nat.eqb g g' && Qlist_eqb k x) tb with
  | Some (_, _, v) => v
  | None => []
  end.

Definition params_close (rel flo : Q) (a : list paramQ) (b : list (list Q)) : bool :=
  Nat.eqb (length a) (length b) &&
  forallb (fun p => vec_close rel flo (pdata (fst p)) (snd p)) (combine a b).

(* the data common to GN and LM cases *)
Record opt_case := {
  oc_params : list (nat * nat * list Q * bool);
  oc_R : list (list nat * list Q);
  oc_J : list (list (list Q));
  oc_selfW : option (list (list nat * list Q));
  oc_stepW : option (list (list nat * list Q));
  oc_kernel : option (list (option nat));
  oc_corrector : option (list (option nat));
  oc_corr : list corr_entry;
  oc_exp : list exp_entry;
  oc_tolA : Q * Q;          (* rel, floor for A and b *)
  oc_tolP : Q * Q }.        (* rel, floor for parameters *)

Definition oc_problem (c : opt_case) : @problem Q :=
  {| pbR := map mk_tensor (oc_R c); pbJ := oc_J c;
     pbW := pick_weight (option_map (map mk_tensor) (oc_selfW c)) (option_map (map mk_tensor) (oc_stepW c));
     pbC := init_correctors (oc_kernel c) (oc_corrector c);
     pbP := map mk_param (oc_params c) |}.

(* result codes: 0 agree, 1 model raises / implementation did not (or vice versa), 2 A differs,
   3 b differs, 4 parameters after the update differ, 5 parameters after undoing a rejected trial differ *)
(* GN: impl = None (step raised) or Some (A, b, D, parameters after) *)
Definition gn_check (c : opt_case) (impl : option (list (list Q) * list Q * list Q * list (list Q))) : nat :=
  match impl with
  | None =>
      (* the solver that would have been called is irrelevant when the assembly or the update raises;
         a step with one entry per trainable parameter element is supplied so that only those two can make the model raise *)
      let pb := oc_problem c in
      let n := sumnat (map (@pnumel Q) (filter (@preq Q) (pbP pb))) in
      match gn_step (corr_table (oc_corr c)) (exp_table (oc_exp c)) (fun _ _ => Some (repeat 0%Q n)) pb with
      | None => 0 | Some _ => 1 end
  | Some (A, b, D, P) =>
      match gn_step (corr_table (oc_corr c)) (exp_table (oc_exp c)) (fun _ _ => Some D) (oc_problem c) with
      | None => 1
      | Some o =>
          if negb (mat_close_rect (fst (oc_tolA c)) (snd (oc_tolA c)) (tA o) A) then 2
          else if negb (vec_close (fst (oc_tolA c)) (snd (oc_tolA c)) (tb o) b) then 3
          else if negb (params_close (fst (oc_tolP c)) (snd (oc_tolP c)) (tP o) P) then 4
          else 0
      end
  end.

(* LM: trials of one call: (damping at the solve, parameters before, A, b, D, parameters after the
   update, Some (parameters after update_parameter(-D)) for a rejected trial) *)
Definition lm_trial_rec := (Q * list (list Q) * list (list Q) * list Q * list Q * list (list Q) * option (list (list Q)))%type.
Definition with_data (ps : list paramQ) (ds : list (list Q)) : list paramQ :=
  zipw (fun p d => {| pk := pk p; pdata := d; preq := preq p |}) ps ds.
Fixpoint lm_check_trials (c : opt_case) (Aprev JT : list (list Q)) (R : list Q) (ps0 : list paramQ)
   (trials : list lm_trial_rec) : nat :=
  match trials with
  | [] => 0
  | (lam, Pb, A, b, D, Pa, Pr) :: rest =>
      let ps := with_data ps0 Pb in
      match lm_trial (exp_table (oc_exp c)) (fun _ _ => Some D) Aprev JT R lam ps with
      | TDone o =>
          if negb (mat_close (fst (oc_tolA c)) (snd (oc_tolA c)) (tA o) A) then 2
          else if negb (vec_close (fst (oc_tolA c)) (snd (oc_tolA c)) (tb o) b) then 3
          else if negb (params_close (fst (oc_tolP c)) (snd (oc_tolP c)) (tP o) Pa) then 4
          else
            let undo_ok := match Pr with
                           | None => true
                           | Some Pr => match update_parameter (exp_table (oc_exp c)) (with_data ps0 Pa) (vneg D) with
                                        | Some ps' => params_close (fst (oc_tolP c)) (snd (oc_tolP c)) ps' Pr
                                        | None => false end
                           end in
            if undo_ok then lm_check_trials c (tA o) JT R ps0 rest else 5
      | _ => 1
      end
  end.
(* impl = None: the call raised in the first trial's update_parameter (solver step of full length) *)
Definition lm_check (c : opt_case) (mn mx lam0 : Q) (impl : option (list lm_trial_rec)) : nat :=
  let pb := oc_problem c in
  match lm_init (corr_table (oc_corr c)) mn mx pb with
  | None => match impl with None => 0 | Some _ => 1 end
  | Some (A0, JT, R) =>
      match impl with
      | None =>
          let n := sumnat (map (@pnumel Q) (filter (@preq Q) (pbP pb))) in
          match lm_trial (exp_table (oc_exp c)) (fun _ _ => Some (repeat 0%Q n)) A0 JT R lam0 (pbP pb) with
          | TRaise => 0 | _ => 1 end
      | Some trials => lm_check_trials c A0 JT R (pbP pb) trials
      end
  end.

(* a case: (index, common data, GN outcome | LM (min, max, first damping, trials)) *)
Inductive opt_impl :=
| IGN (r : option (list (list Q) * list Q * list Q * list (list Q)))
| ILM (mn mx lam0 : Q) (r : option (list lm_trial_rec)).
Definition optim_check (c : opt_case) (r : opt_impl) : nat :=
  match r with IGN r => gn_check c r | ILM mn mx l r => lm_check c mn mx l r end.
(* pairs (index, code) of the disagreeing cases, flattened to [i1; c1; i2; c2; ...] *)
Definition optim_bad (cs : list (nat * opt_case * opt_impl)) : list nat :=
  flat_map (fun t => let '(i, c, r) := t in
              match optim_check c r with 0 => [] | k => [i; k] end) cs.

(* weight expansion alone (every documented shape, also the undocumented ones that raise):
   (index, r shape, w shape, w data, Some (block-diagonal matrix) | None = normalize_RWJ raised) *)
Definition wexp_bad (cs : list (nat * list nat * (list nat * list Q) * option (list (list Q)))) : list nat :=
  flat_map (fun t => let '(i, rs, w, out) := t in
     let r := {| tshape := rs; tdata := repeat 0%Q (prodn rs) |} in
     let m := match expand_weight r (mk_tensor w) with Some l => Some (block_diag l) | None => None end in
     match m, out with
     | Some M, Some M' => if mat_close 0 0 M M' then [] else [i]
     | None, None => []
     | _, _ => [i]
     end) cs.
