(* Model of pypose/optim/kernel.py (Huber, PseudoHuber, Cauchy, SoftLOne, Arctan, Tolerant, Scale)
   and pypose/optim/corrector.py (FastTriggs, Triggs), exactly as coded (source after the repairs
   e6f8307, 298dcfc, af4d69c; the behaviour before them is kept as the [_old] definitions at the end of
   the section, used only by the [_old_..._refuted] history theorems).

   Kernels.  A kernel is (name, p1, p2): p1 = delta (a for Tolerant), p2 = b (Tolerant only).
     kernel k p1 p2 x : option F
       None  = __init__ asserts (parameter check), forward asserts (input >= 0, all seven kernels), or
               the selected expression divides by zero (Arctan with delta = 0: input / delta**2);
       Some y = the value forward returns for one element x.
   With the assertions passed, no other sqrt / log / division leaves its domain
   (Proofs/Kernel.v, kernel_side_conditions_hold).

   kernel_d1 / kernel_d2 = what torch.autograd returns for rho'(x), rho''(x) on the branch forward
   selects (at the Huber threshold: the "otherwise" branch, as `mask = sqrt(x) < delta` is false).
   Triggs.compute_grads returns g2 = 0 when rho' has no autograd dependence on x (Scale, rho = c x):
   kernel_d2 KScale = 0.
   (In float64 autograd forms Tolerant's rho'' as a difference of two terms of size rho'/|b|; for
   a/|b| >~ 37 and x < a the result is rounding noise of either sign although kernel_d2 < 0 - the tie
   therefore feeds the correctors' model with the g1, g2 the implementation itself computed.)

   Correctors, per residual block i: R_i = list of d numbers, J_i = d rows (lists of width p);
   x = sum R_i^2, g1 = rho'(x), g2 = rho''(x) are arguments (the code gets them from autograd).
     FastTriggs.forward : s = sqrt(g1);  R' = s R,  J' = s J
     Triggs.forward     : se = sqrt(g1); sR = se R; sJ = se J;
                          M = not (x == 0 or g2 <= 0)
                          on M: alpha = 1 - sqrt(clamp(1 + 2 x g2 / g1, min=0))
                                sR[M] = se[M] / (1 - alpha) * R[M]
                                Q = einsum('d,k,kl->dl', R, R, sJ);  sJ[M] = sJ[M] - (alpha / x) Q
   None = the float code produces NaN/Inf for the block (sqrt of a negative g1, division by a zero g1
   or by a zero 1 - alpha).  Shapes are not modelled (J.view raising on a wrong row count). *)
From Coq Require Import ZArith QArith Qreduction List Bool.
Import ListNotations.
From PV Require Import Base.Num.
Close Scope Q_scope.

Inductive kname := KHuber | KPseudoHuber | KCauchy | KSoftLOne | KArctan | KTolerant | KScale.

Definition kname_of_nat (n : nat) : kname :=
  match n with
  | 0 => KHuber | 1 => KPseudoHuber | 2 => KCauchy | 3 => KSoftLOne | 4 => KArctan | 5 => KTolerant
  | _ => KScale
  end%nat.

(* before af4d69c: did autograd's g1 = rho'(x) depend on x in the graph?  (Scale: g1 is the constant delta,
   and Triggs.compute_grads' second `grad(g1.sum(), x)` raised) *)
Definition kernel_d2_graph_old (k : kname) : bool := match k with KScale => false | _ => true end.

Section Kernel.
Context {F : Type} {NF : Num F} {TF : Trans F}.
Local Open Scope num_scope.

(* ------------------------------------------------------------------ kernels *)
(* __init__ assertions *)
Definition kernel_ok (k : kname) (p1 p2 : F) : bool :=
  match k with
  | KHuber | KPseudoHuber | KCauchy | KSoftLOne => zero <? p1
  | KArctan => true
  | KTolerant => (zero <? p1) && (p2 <? zero)
  | KScale => (zero <? p1) && (p1 <=? one)
  end.

(* values of the expressions in forward, one element *)
Definition huber_f (d x : F) : F :=
  if tsqrt x <? d then x else two * d * tsqrt x - d * d.
Definition pseudohuber_f (d x : F) : F := two * (d * d) * (tsqrt (x / (d * d) + one) - one).
Definition cauchy_f (d x : F) : F := (d * d) * tln (x / (d * d) + one).
Definition softlone_f (d x : F) : F := two * (d * tsqrt (one / (d * d) + x) - one).
Definition arctan_f (d x : F) : F := (d * d) * tatan (x / (d * d)).
Definition tolerant_f (a b x : F) : F :=
  b * tln (one + texp ((x - a) / b)) - b * tln (one + texp (- a / b)).
Definition scale_f (d x : F) : F := d * x.

Definition kernel_f (k : kname) (p1 p2 x : F) : F :=
  match k with
  | KHuber => huber_f p1 x | KPseudoHuber => pseudohuber_f p1 x | KCauchy => cauchy_f p1 x
  | KSoftLOne => softlone_f p1 x | KArctan => arctan_f p1 x | KTolerant => tolerant_f p1 p2 x
  | KScale => scale_f p1 x
  end.

Definition kernel (k : kname) (p1 p2 x : F) : option F :=
  if negb (kernel_ok k p1 p2) then None                 (* __init__ assert *)
  else match k with
  | KArctan =>
      if zero <=? x then                                (* assert torch.all(input >= 0) *)
        if p1 * p1 =? zero then None                    (* input / self.delta2 with delta2 = 0 *)
        else Some (arctan_f p1 x)
      else None
  | _ => if zero <=? x then Some (kernel_f k p1 p2 x) else None
  end.

(* rho'(x) as autograd computes it on the selected branch *)
Definition kernel_d1 (k : kname) (p1 p2 x : F) : F :=
  match k with
  | KHuber => if tsqrt x <? p1 then one else p1 / tsqrt x
  | KPseudoHuber => one / tsqrt (x / (p1 * p1) + one)
  | KCauchy => one / (x / (p1 * p1) + one)
  | KSoftLOne => p1 / tsqrt (one / (p1 * p1) + x)
  | KArctan => let u := x / (p1 * p1) in one / (one + u * u)
  | KTolerant => let e := texp ((x - p1) / p2) in e / (one + e)
  | KScale => p1
  end.
(* rho''(x) *)
Definition kernel_d2 (k : kname) (p1 p2 x : F) : F :=
  match k with
  | KHuber => if tsqrt x <? p1 then zero else - (p1 / (two * x * tsqrt x))
  | KPseudoHuber => let w := x / (p1 * p1) + one in - (one / (two * (p1 * p1) * w * tsqrt w))
  | KCauchy => let w := x / (p1 * p1) + one in - (one / ((p1 * p1) * (w * w)))
  | KSoftLOne => let w := one / (p1 * p1) + x in - (p1 / (two * w * tsqrt w))
  | KArctan => let u := x / (p1 * p1) in let w := one + u * u in - (two * u / ((p1 * p1) * (w * w)))
  | KTolerant => let e := texp ((x - p1) / p2) in e / (p2 * ((one + e) * (one + e)))
  | KScale => zero
  end.

(* flat interface for the correspondence: [1; value; rho'; rho''] or [0] when forward raises *)
Definition kernel_l (k : nat) (p1 p2 x : F) : list F :=
  let kn := kname_of_nat k in
  match kernel kn p1 p2 x with
  | Some y => [one; y; kernel_d1 kn p1 p2 x; kernel_d2 kn p1 p2 x]
  | None => [zero]
  end.

(* ------------------------------------------------------------------ correctors *)
Fixpoint dot (a b : list F) : F :=
  match a, b with
  | x :: a', y :: b' => x * y + dot a' b'
  | _, _ => zero
  end.
Definition scale_vec (s : F) (v : list F) : list F := map (mul s) v.
Definition col (J : list (list F)) (l : nat) : list F := map (fun row => nth l row zero) J.
Fixpoint mapi_from {A B : Type} (f : nat -> A -> B) (i : nat) (l : list A) : list B :=
  match l with
  | [] => []
  | a :: l' => f i a :: mapi_from f (S i) l'
  end.

Definition block : Type := (list F * list (list F))%type.

(* FastTriggs.forward on one block *)
Definition fasttriggs_block (g1 : F) (R : list F) (J : list (list F)) : option block :=
  if g1 <? zero then None                               (* jacobian(...).sqrt() = NaN *)
  else let s := tsqrt g1 in Some (scale_vec s R, map (scale_vec s) J).

(* the mask of Triggs.forward *)
Definition triggs_mask (x g2 : F) : bool := negb ((x =? zero) || (g2 <=? zero)).

(* Triggs.forward on one block *)
Definition triggs_block (g1 g2 : F) (R : list F) (J : list (list F)) : option block :=
  if g1 <? zero then None                               (* se = g1.sqrt() = NaN *)
  else
    let x := dot R R in
    let se := tsqrt g1 in
    let sR := scale_vec se R in
    let sJ := map (scale_vec se) J in
    if triggs_mask x g2 then
      if g1 =? zero then None                           (* 2*x*g2/g1 *)
      else
        let alpha := one - tsqrt (maxF zero (one + two * x * g2 / g1)) in
        if one - alpha =? zero then None                (* se / (1 - alpha) *)
        else
          let r' := se / (one - alpha) in
          let c := alpha / x in
          Some (scale_vec r' R,
                map (fun rj => mapi_from (fun l s => s - c * (fst rj * dot R (col sJ l))) 0 (snd rj))
                    (combine R sJ))
    else Some (sR, sJ).

(* whole residual tensor = list of blocks; rho1 / rho2 = autograd's rho', rho'' *)
Fixpoint mapM {A B : Type} (f : A -> option B) (l : list A) : option (list B) :=
  match l with
  | [] => Some []
  | a :: l' => match f a, mapM f l' with Some b, Some r => Some (b :: r) | _, _ => None end
  end.
Definition sqnorm (b : block) : F := dot (fst b) (fst b).
Definition fasttriggs (rho1 : F -> F) (bs : list block) : option (list block) :=
  mapM (fun b => fasttriggs_block (rho1 (sqnorm b)) (fst b) (snd b)) bs.
Definition triggs (rho1 rho2 : F -> F) (bs : list block) : option (list block) :=
  mapM (fun b => triggs_block (rho1 (sqnorm b)) (rho2 (sqnorm b)) (fst b) (snd b)) bs.

(* with a built-in kernel *)
Definition fasttriggs_kernel (k : kname) (p1 p2 : F) := fasttriggs (kernel_d1 k p1 p2).
Definition triggs_kernel (k : kname) (p1 p2 : F) := triggs (kernel_d1 k p1 p2) (kernel_d2 k p1 p2).

(* flat interface for the correspondence: 1 :: R' ++ concat J', or [0] *)
Definition block_l (o : option block) : list F :=
  match o with Some (R, J) => one :: R ++ concat J | None => [zero] end.
Definition fasttriggs_l (g1 : F) (R : list F) (J : list (list F)) := block_l (fasttriggs_block g1 R J).
Definition triggs_l (g1 g2 : F) (R : list F) (J : list (list F)) := block_l (triggs_block g1 g2 R J).

(* ------------------------------------------------------------------ behaviour before the repairs
   (history only: the [_old_..._refuted] theorems of Props/C09.v) *)
(* before e6f8307 Scale.forward had no sign assertion *)
Definition kernel_old (k : kname) (p1 p2 x : F) : option F :=
  match k with
  | KScale => if negb (kernel_ok k p1 p2) then None else Some (scale_f p1 x)
  | _ => kernel k p1 p2 x
  end.
(* before 298dcfc: sR[M] = se[M] / (1 - alpha) - every component, R dropped *)
Definition triggs_block_old (g1 g2 : F) (R : list F) (J : list (list F)) : option block :=
  match triggs_block g1 g2 R J with
  | Some (R', J') =>
      if triggs_mask (dot R R) g2
      then Some (map (fun _ => tsqrt g1 / (one - (one - tsqrt (maxF zero (one + two * dot R R * g2 / g1))))) R, J')
      else Some (R', J')
  | None => None
  end.
(* before af4d69c: [graph] = false (rho' constant in the autograd graph): compute_grads raised *)
Definition triggs_old (graph : bool) (rho1 rho2 : F -> F) (bs : list block) : option (list block) :=
  if graph then mapM (fun b => triggs_block_old (rho1 (sqnorm b)) (rho2 (sqnorm b)) (fst b) (snd b)) bs
  else None.
Definition triggs_kernel_old (k : kname) (p1 p2 : F) :=
  triggs_old (kernel_d2_graph_old k) (kernel_d1 k p1 p2) (kernel_d2 k p1 p2).
End Kernel.

(* ------------------------------------------------------------------ exact route (Q, vm_compute)
   Only kernels whose selected expression is rational on the given input are evaluated over Q:
   Huber on perfect squares (exact rational square root), Scale; for every kernel the cases in
   which forward / __init__ raise.  The other transcendental functions are never called on this
   route ([kernel_exact_bad] refuses such cases). *)
Definition Qsqrt_exact (q : Q) : Q :=
  let q' := Qred q in (Z.sqrt (Qnum q') # Pos.sqrt (Qden q'))%Q.
Definition Qis_square (q : Q) : bool :=
  let s := Qsqrt_exact q in Qeq_bool (s * s)%Q q.
Definition TransQ_exact : Trans Q :=
  {| tsqrt := Qsqrt_exact; tsin := fun x => x; tcos := fun x => x; tatan := fun x => x;
     texp := fun x => x; tln := fun x => x; tpi := 0%Q |}.

(* a case: (index, kernel id, p1, p2, x, expected flat result) *)
Definition kernel_case := (nat * nat * Q * Q * Q * list Q)%type.
Definition kernel_case_admissible (k : nat) (x : Q) (out : list Q) : bool :=
  match out with
  | [_] => true                                        (* raises: no arithmetic involved *)
  | _ => match kname_of_nat k with
         | KHuber => Qle_bool 0%Q x && Qis_square x
         | KScale => true
         | _ => false
         end
  end.
Definition kernel_exact_bad (cs : list kernel_case) : list nat :=
  map (fun c => match c with (i, _, _, _, _, _) => i end)
      (filter (fun c => match c with (_, k, p1, p2, x, out) =>
         negb (kernel_case_admissible k x out &&
               Qlist_eqb (@kernel_l Q NumQ TransQ_exact k p1 p2 x) out) end) cs).
