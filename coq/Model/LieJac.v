(* Model of the hand-written Jacobians of pypose/lietensor/operation.py: the Jacobian helper
   functions (so3_Jl, so3_Jl_inv, calcQ, se3_Jl, se3_Jl_inv, rxso3_Jl(_inv), sim3_adj, sim3_Jl(_inv),
   *_Adj, *_adj, *_Act(4)_Jacobian, *_Matrix4x4) and the backward() of every autograd Function,
   transcribed: which tensor is saved, which slice of the cotangent is used, the trailing zero slot.
   Vectors are lists, matrices lists of rows (sizes 3..7). *)
From Coq Require Import ZArith List Bool.
Import ListNotations.
From PV Require Import Base.Num Model.LieGroup Model.LieExp Model.LieLog.

Section LieJac.
Context {F : Type} {NF : Num F} {TF : Trans F}.
Local Open Scope num_scope.
Variable eps : F.

(* ---- small list linear algebra *)
Definition lzip (f : F -> F -> F) := fix go (a b : list F) : list F :=
  match a, b with x :: a', y :: b' => f x y :: go a' b' | _, _ => [] end.
Definition ladd := lzip add.
Definition lsub := lzip sub.
Definition lscale (k : F) (a : list F) : list F := map (mul k) a.
Definition lneg (a : list F) : list F := map opp a.
Fixpoint ldot (a b : list F) : F :=
  match a, b with x :: a', y :: b' => x * y + ldot a' b' | _, _ => zero end.
Definition lmat := list (list F).
Definition lmv (m : lmat) (v : list F) : list F := map (fun r => ldot r v) m.
Fixpoint lzeros (n : nat) : list F := match n with O => [] | S k => zero :: lzeros k end.
(* row vector times matrix: sum_i g_i * row_i *)
Fixpoint lvm (g : list F) (m : lmat) (n : nat) : list F :=
  match g, m with x :: g', r :: m' => ladd (lscale x r) (lvm g' m' n) | _, _ => lzeros n end.
Definition lcols (m : lmat) (n : nat) : lmat :=
  map (fun j => map (fun r => nth j r zero) m) (seq 0 n).
Definition lmm (a b : lmat) (n : nat) : lmat := map (fun r => lvm r b n) a.
Definition lmadd (a b : lmat) : lmat :=
  (fix go (a b : lmat) := match a, b with r :: a', s :: b' => ladd r s :: go a' b' | _, _ => [] end) a b.
Definition lmscale (k : F) (a : lmat) : lmat := map (lscale k) a.
Definition lid (n : nat) : lmat := map (fun i => map (fun j => if Nat.eqb i j then one else zero) (seq 0 n)) (seq 0 n).
Definition lzm (r c : nat) : lmat := map (fun _ => lzeros c) (seq 0 r).
Definition hcat (a b : lmat) : lmat :=
  (fix go (a b : lmat) := match a, b with r :: a', s :: b' => (r ++ s) :: go a' b' | _, _ => [] end) a b.
Definition m3rows (m : mat3) : lmat := [v3_l (mr0 m); v3_l (mr1 m); v3_l (mr2 m)].
Definition colv (v : list F) : lmat := map (fun x => [x]) v.

(* ---- Adjoint matrices of group elements *)
Definition SO3_AdjM (q : quat) : lmat := m3rows (SO3_Adj q).
Definition SE3_AdjM (X : se3elt) : lmat :=
  let R := SO3_Adj (snd X) in
  hcat (m3rows R) (m3rows (mmul3 (skew (fst X)) R)) ++ hcat (lzm 3 3) (m3rows R).
Definition RxSO3_AdjM (X : rxso3elt) : lmat :=
  hcat (m3rows (SO3_Adj (fst X))) (lzm 3 1) ++ [lzeros 3 ++ [one]].
Definition Sim3_AdjM (X : sim3elt) : lmat :=
  let R := SO3_Adj (fst (snd X)) in
  let sR := mscale3 (snd (snd X)) R in
  hcat (hcat (m3rows sR) (m3rows (mmul3 (skew (fst X)) R))) (colv (v3_l (vneg (fst X))))
  ++ hcat (hcat (lzm 3 3) (m3rows R)) (lzm 3 1)
  ++ [lzeros 6 ++ [one]].

(* ---- ad matrices of algebra elements *)
Definition so3_adjM (x : list F) : lmat := m3rows (skew (l_v3 x)).
Definition se3_adjM (x : list F) : lmat :=
  let Phi := m3rows (skew (l_v3 (skipn 3 x))) in
  hcat Phi (m3rows (skew (l_v3 x))) ++ hcat (lzm 3 3) Phi.
Definition rxso3_adjM (x : list F) : lmat :=
  hcat (m3rows (skew (l_v3 x))) (lzm 3 1) ++ [lzeros 4].
Definition sim3_adjM (x : list F) : lmat :=
  let tau := l_v3 x in let phi := l_v3 (skipn 3 x) in let sigma := nth 6 x zero in
  let Phi := skew phi in
  hcat (hcat (m3rows (madd3 Phi (mscale3 sigma mid3))) (m3rows (skew tau))) (colv (v3_l (vneg tau)))
  ++ hcat (hcat (lzm 3 3) (m3rows Phi)) (lzm 3 1)
  ++ [lzeros 7].

(* ---- left Jacobians of the algebras *)
Definition calcQ (x : list F) : mat3 :=
  let tau := l_v3 x in let phi := l_v3 (skipn 3 x) in
  let Tau := skew tau in let Phi := skew phi in
  let theta := vnorm phi in
  let theta2 := theta * theta in let theta4 := theta2 * theta2 in
  let big := eps <? theta in
  let coef1 := if big then (theta - tsin theta) / (theta2 * theta) else frac 1 6 - frac 1 120 * theta2 in
  let coef2 := if big then (theta2 + two * tcos theta - two) / (two * theta4) else frac 1 24 - frac 1 720 * theta2 in
  let coef3 := if big then (two * theta - ofZ 3 * tsin theta + theta * tcos theta) / (two * theta4 * theta)
               else frac 1 120 - frac 1 2520 * theta2 in
  let PT := mmul3 Phi Tau in let TP := mmul3 Tau Phi in let PTP := mmul3 PT Phi in
  let PPT := mmul3 Phi PT in let TPP := mmul3 TP Phi in
  madd3 (madd3 (madd3 (mscale3 half Tau)
     (mscale3 coef1 (madd3 (madd3 PT TP) PTP)))
     (mscale3 coef2 (madd3 (madd3 PPT TPP) (mscale3 (- ofZ 3) PTP))))
     (mscale3 coef3 (madd3 (mmul3 PTP Phi) (mmul3 Phi PTP))).
Definition so3_JlM (x : list F) : lmat := m3rows (so3_Jl eps (l_v3 x)).
Definition so3_Jl_invM (x : list F) : lmat := m3rows (so3_Jl_inv eps (l_v3 x)).
Definition se3_JlM (x : list F) : lmat :=
  let J := m3rows (so3_Jl eps (l_v3 (skipn 3 x))) in
  hcat J (m3rows (calcQ x)) ++ hcat (lzm 3 3) J.
Definition mneg3 (m : mat3) : mat3 := mscale3 (- one) m.
Definition se3_Jl_invM (x : list F) : lmat :=
  let Ji := so3_Jl_inv eps (l_v3 (skipn 3 x)) in
  let Q := calcQ x in
  hcat (m3rows Ji) (m3rows (mmul3 (mmul3 (mneg3 Ji) Q) Ji)) ++ hcat (lzm 3 3) (m3rows Ji).
Definition rxso3_JlM (x : list F) : lmat := hcat (so3_JlM x) (lzm 3 1) ++ [lzeros 3 ++ [one]].
Definition rxso3_Jl_invM (x : list F) : lmat := hcat (so3_Jl_invM x) (lzm 3 1) ++ [lzeros 3 ++ [one]].
(* sim3: truncated series in Xi = ad(x) *)
Definition sim3_JlM (x : list F) : lmat :=
  let Xi := sim3_adjM x in
  let Xi2 := lmm Xi Xi 7 in let Xi4 := lmm Xi2 Xi2 7 in
  lmadd (lmadd (lmadd (lmadd (lmadd (lid 7) (lmscale (frac 1 2) Xi)) (lmscale (frac 1 6) Xi2))
        (lmscale (frac 1 24) (lmm Xi Xi2 7))) (lmscale (frac 1 120) Xi4)) (lmscale (frac 1 720) (lmm Xi Xi4 7)).
Definition sim3_Jl_invM (x : list F) : lmat :=
  let Xi := sim3_adjM x in
  let Xi2 := lmm Xi Xi 7 in let Xi4 := lmm Xi2 Xi2 7 in
  lmadd (lmadd (lmadd (lid 7) (lmscale (- frac 1 2) Xi)) (lmscale (frac 1 12) Xi2)) (lmscale (- frac 1 720) Xi4).

(* ---- per group tables: group ids 0 SO3, 1 SE3, 2 RxSO3, 3 Sim3 *)
Definition gdim (g : nat) : nat := match g with 0 => 4 | 1 => 7 | 2 => 5 | _ => 8 end.
Definition adim (g : nat) : nat := match g with 0 => 3 | 1 => 6 | 2 => 4 | _ => 7 end.
Definition AdjM (g : nat) (x : list F) : lmat :=
  match g with 0 => SO3_AdjM (l_q x) | 1 => SE3_AdjM (l_SE3 x) | 2 => RxSO3_AdjM (l_RxSO3 x) | _ => Sim3_AdjM (l_Sim3 x) end.
Definition adjM (g : nat) (x : list F) : lmat :=
  match g with 0 => so3_adjM x | 1 => se3_adjM x | 2 => rxso3_adjM x | _ => sim3_adjM x end.
Definition JlM (g : nat) (x : list F) : lmat :=
  match g with 0 => so3_JlM x | 1 => se3_JlM x | 2 => rxso3_JlM x | _ => sim3_JlM x end.
Definition Jl_invM (g : nat) (x : list F) : lmat :=
  match g with 0 => so3_Jl_invM x | 1 => se3_Jl_invM x | 2 => rxso3_Jl_invM x | _ => sim3_Jl_invM x end.
(* rotation-with-scale 3x3 block m[..., :3, :3] of *_Matrix, and translation *)
Definition sR_of (g : nat) (x : list F) : mat3 :=
  match g with
  | 0 => SO3_Adj (l_q x) | 1 => SO3_Adj (snd (l_SE3 x))
  | 2 => mscale3 (snd (l_RxSO3 x)) (SO3_Adj (fst (l_RxSO3 x)))
  | _ => mscale3 (snd (snd (l_Sim3 x))) (SO3_Adj (fst (snd (l_Sim3 x)))) end.
Definition t_of (g : nat) (x : list F) : list F := g_translation g x.

(* ---- backward of every Function: cotangent(s) of the inputs from the cotangent of the output *)
Definition zslot (v : list F) : list F := v ++ [zero].
(* *_Mul.backward: saved X *)
Definition mul_bwd (g : nat) (X gz : list F) : list F * list F :=
  let k := adim g in
  (zslot (firstn k gz), zslot (lvm (firstn k gz) (AdjM g X) k)).
(* *_Inv.backward: saved Y = output *)
Definition inv_bwd (g : nat) (Y gz : list F) : list F :=
  let k := adim g in zslot (lneg (lvm (firstn k gz) (AdjM g Y) k)).
(* *_Act.backward: saved X, out; *_Act_Jacobian(out) *)
Definition act_jac (g : nat) (p : list F) : lmat :=
  let S := m3rows (skew (vneg (l_v3 p))) in
  match g with
  | 0 => S | 1 => hcat (lid 3) S | 2 => hcat S (colv (firstn 3 p)) | _ => hcat (hcat (lid 3) S) (colv (firstn 3 p)) end.
Definition act_bwd (g : nat) (X out gp : list F) : list F * list F :=
  (zslot (lvm gp (act_jac g out) (adim g)), lvm gp (m3rows (sR_of g X)) 3).
(* *_Act4.backward *)
Definition act4_jac (g : nat) (p : list F) : lmat :=
  let S := m3rows (skew (vneg (l_v3 p))) in
  let pw := nth 3 p zero in
  match g with
  | 0 => S ++ [lzeros 3]
  | 1 => hcat (lmscale pw (lid 3)) S ++ [lzeros 6]
  | 2 => hcat S (colv (firstn 3 p)) ++ [lzeros 4]
  | _ => hcat (hcat (lmscale pw (lid 3)) S) (colv (firstn 3 p)) ++ [lzeros 7] end.
Definition matrix4x4 (g : nat) (X : list F) : lmat :=
  hcat (m3rows (sR_of g X)) (colv (t_of g X)) ++ [lzeros 3 ++ [one]].
Definition act4_bwd (g : nat) (X out gp : list F) : list F * list F :=
  (zslot (lvm gp (act4_jac g out) (adim g)), lvm gp (matrix4x4 g X) 4).
(* *_AdjXa.backward: saved out, adj_matrix *)
Definition adj_bwd (g : nat) (X out gz : list F) : list F * list F :=
  let k := adim g in
  (zslot (lneg (lvm gz (adjM g out) k)), lvm gz (AdjM g X) k).
(* *_AdjTXa.backward: saved X, a.
   SO3, RxSO3:  a_grad = AdjXa(X, grad); X_grad = -a @ adj(a_grad)
   SE3, Sim3 :  dq = grad @ Adj(Inv X);  a_grad = dq;  X_grad = dq @ adj(a)      (repaired in /repo 16e80b7) *)
Definition adjT_bwd_old (g : nat) (X a gz : list F) : list F * list F :=
  let k := adim g in
  let a_grad := lmv (AdjM g X) gz in
  (zslot (lneg (lvm a (adjM g a_grad) k)), a_grad).
Definition adjT_bwd (g : nat) (X a gz : list F) : list F * list F :=
  let k := adim g in
  match g with
  | 1 | 3 => let dq := lvm gz (AdjM g (g_inv g X)) k in (zslot (lvm dq (adjM g a) k), dq)
  | _ => adjT_bwd_old g X a gz
  end.
(* *_Exp.backward: saved input; grad_output[..., :-1] @ Jl *)
Definition exp_bwd (g : nat) (x gz : list F) : list F :=
  let k := adim g in lvm (firstn k gz) (JlM g x) k.
(* *_Log.backward: saved output; grad_output @ Jl_inv, zero slot *)
Definition log_bwd (g : nat) (out gz : list F) : list F :=
  let k := adim g in zslot (lvm gz (Jl_invM g out) k).

(* forward of the remaining list-level ops used by the evaluators *)
Definition exp_fwd (g : nat) (x : list F) : list F := exp_l eps g x.
Definition log_fwd (g : nat) (x : list F) : list F := log_l eps g x.
(* Jinvp(X, p) = Jl_inv(Log X) p ;  so3.Jr(x) = where(theta > eps, I - (1-cos)/theta^2 K + (theta-sin)/theta^3 K^2, I) *)
Definition jinvp (g : nat) (X p : list F) : list F := lmv (Jl_invM g (log_fwd g X)) p.
Definition so3_Jr (x : list F) : lmat :=
  let v := l_v3 x in let theta := vnorm v in let K := skew v in
  if eps <? theta then
    m3rows (madd3 (madd3 mid3 (mscale3 (- ((one - tcos theta) / (theta * theta))) K))
                  (mscale3 ((theta - tsin theta) / (theta * theta * theta)) (mmul3 K K)))
  else lid 3.
End LieJac.
