(* cumprod / cummul on LieTensors = the scan of Model/Cumops.v over the group product of
   Model/LieGroup.v (executed over Q for the C12 / C16 correspondence). *)
From Coq Require Import ZArith QArith List Bool.
Import ListNotations.
From PV Require Import Base.Num Model.Cumops Model.LieGroup.
Close Scope Q_scope.

Definition QLL_eqb (a b : list (list Q)) : bool :=
  (Nat.eqb (length a) (length b)) && forallb (fun p => Qlist_eqb (fst p) (snd p)) (combine a b).
Definition lie_cum_case := (nat * nat * bool * list (list Q) * option (list (list Q)))%type.
Definition lie_cum_bad (cs : list lie_cum_case) : list nat :=
  map (fun c => match c with (i, _, _, _, _) => i end)
      (filter (fun c => match c with (_, g, lf, items, out) =>
         match cumprod_model (g_mul g) lf items, out with
         | Some r, Some o => negb (QLL_eqb r o)
         | None, None => false
         | _, _ => true end end) cs).
