(* Model of pypose/function/geometry.py : svdtf, svdstf  (point-set alignment),
   of the conversions they end with (pypose/lietensor/convert.py : mat2SO3 / mat2SE3 / mat2Sim3),
   of pypose/module/icp.py : ICP.forward and of the linear system EPnP builds
   (pypose/module/pnp.py : EPnP._compute_nullv rows, control-point combination).

   Transcribed as coded.  External routines are Section variables:
     svd  : torch.linalg.svd   (contract [svd_ok] stated in Proofs/Align.v)
     knn  : pypose.knn, k = 1  (contract [knn_ok]  stated in Proofs/Align.v)
   The stopping controller of ICP is Model/Controller.v (ReduceToBason), reused unchanged.

   One deliberate normal form: `source_.norm(dim=-1)**2` (svdstf) is written [sqnorm p = p.p];
   over R this is the same number (sqrt(x)^2 = x for x >= 0, lemma [norm_sq] in Proofs/Align.v),
   and it keeps everything up to the final matrix -> LieTensor conversion rational, so that the
   part of the model the optimality theorems talk about runs over Q. *)
From Coq Require Import ZArith QArith List Bool Arith.
Import ListNotations.
From PV Require Import Base.Num Model.LieGroup Model.Controller.
Close Scope Q_scope.

Section Align.
Context {F : Type} {NF : Num F}.
Local Open Scope num_scope.

Definition cloud := list (@vec3 F).
Definition ofN (n : nat) : F := ofZ (Z.of_nat n).

(* ---------------- tensors ---------------- *)
Definition vsum3 (l : cloud) : vec3 := fold_right vadd vzero l.
Definition vdivs (v : vec3) (c : F) : vec3 := (vx v / c, vy v / c, vz v / c).
(* x.mean(dim=-2) *)
Definition centroid (l : cloud) : vec3 := vdivs (vsum3 l) (ofN (length l)).
Definition centered (l : cloud) : cloud := let c := centroid l in map (fun p => vsub p c) l.
Definition outer3 (a b : vec3) : mat3 := (vscale (vx a) b, vscale (vy a) b, vscale (vz a) b).
(* einsum('...Na,...Nb->...ab', t, s)  =  t^T s *)
Fixpoint crosscov (tgt src : cloud) : mat3 :=
  match tgt, src with
  | t :: tr, s :: sr => madd3 (outer3 t s) (crosscov tr sr)
  | _, _ => mzero3
  end.
Definition mneg3 (m : mat3) : mat3 := (vneg (mr0 m), vneg (mr1 m), vneg (mr2 m)).
Definition mdivs3 (m : mat3) (c : F) : mat3 := (vdivs (mr0 m) c, vdivs (mr1 m) c, vdivs (mr2 m) c).
Definition diag3 (d : vec3) : mat3 := ((vx d, zero, zero), (zero, vy d, zero), (zero, zero, vz d)).
Definition mtrace3 (m : mat3) : F := vx (mr0 m) + vy (mr1 m) + vz (mr2 m).
Definition sqnorm (p : vec3) : F := vdot p p.
Definition sumF (l : list F) : F := fold_right add zero l.
Definition meanF (l : list F) : F := sumF l / ofN (length l).
(* torch.sign *)
Definition signF (x : F) : F := if x <? zero then - one else if zero <? x then one else zero.
(* the `assert source.size(-2) == target.size(-2)`; an empty cloud has no mean (nan) *)
Definition sizes_ok (src tgt : cloud) : bool :=
  Nat.eqb (length src) (length tgt) && negb (Nat.eqb (length src) 0).

(* ---------------- svdtf ---------------- *)
(* M = einsum(target - ctntarget, source - ctnsource) *)
Definition svdtf_M (src tgt : cloud) : mat3 := crosscov (centered tgt) (centered src).
Definition det_tol : F := frac 1 1000000.
(* R = U @ Vh;  mask = (R.det() + 1).abs() < 1e-6 *)
Definition svdtf_flip (U Vh : mat3) : bool := absF (mdet3 (mmul3 U Vh) + one) <? det_tol.
(* current source (after fix 23d9fa1):
   D = ones_like(S);  D[..., -1] = 1 - 2 * mask;  R = (U * D.unsqueeze(-2)) @ Vh   [= U diag(D) Vh] *)
Definition svdtf_D (U Vh : mat3) : vec3 :=
  (one, one, one - two * (if svdtf_flip U Vh then one else zero)).
Definition svdtf_rot (U Vh : mat3) : mat3 := mmul3 (mmul3 U (diag3 (svdtf_D U Vh))) Vh.
(* t = ctntarget - R @ ctnsource *)
Definition svdtf_mat (src tgt : cloud) (U Vh : mat3) : mat3 * vec3 :=
  let R := svdtf_rot U Vh in (R, vsub (centroid tgt) (mvmul R (centroid src))).
(* history: the source before 23d9fa1 negated the whole matrix,  R[mask] = - R[mask] *)
Definition svdtf_rot_old (U Vh : mat3) : mat3 :=
  let R := mmul3 U Vh in if svdtf_flip U Vh then mneg3 R else R.
Definition svdtf_mat_old (src tgt : cloud) (U Vh : mat3) : mat3 * vec3 :=
  let R := svdtf_rot_old U Vh in (R, vsub (centroid tgt) (mvmul R (centroid src))).

(* the textbook form: flip the last singular direction only (the repaired code is proved equal to it) *)
Definition kabsch_rot (U Vh : mat3) : mat3 :=
  mmul3 (mmul3 U (diag3 (one, one, mdet3 (mmul3 U Vh)))) Vh.
Definition kabsch_mat (src tgt : cloud) (U Vh : mat3) : mat3 * vec3 :=
  let R := kabsch_rot U Vh in (R, vsub (centroid tgt) (mvmul R (centroid src))).

(* ---------------- svdstf (Umeyama) ---------------- *)
(* H = target_^T @ source_ / N *)
Definition svdstf_H (src tgt : cloud) : mat3 :=
  mdivs3 (crosscov (centered tgt) (centered src)) (ofN (length src)).
(* M = eye; M[-1,-1] = sign(det(U @ V)) *)
Definition umeyama_sign (U V : mat3) : vec3 := (one, one, signF (mdet3 (mmul3 U V))).
(* var_source = (source_.norm(dim=-1)**2).mean();  scale = sum(diag(M) * D) / var_source  |  1 *)
Definition var_source (src : cloud) : F := meanF (map sqnorm (centered src)).
Definition svdstf_scale (with_scale : bool) (src : cloud) (U V : mat3) (D : vec3) : F :=
  if with_scale then vdot (umeyama_sign U V) D / var_source src else one.
(* R = U @ M @ V *)
Definition svdstf_rot (U V : mat3) : mat3 := mmul3 (mmul3 U (diag3 (umeyama_sign U V))) V.
(* (scale, R, t)  with  t = ctntarget - scale * R @ ctnsource;  the code then builds cat(scale * R, t) *)
Definition svdstf_mat (with_scale : bool) (src tgt : cloud) (U : mat3) (D : vec3) (V : mat3) : F * mat3 * vec3 :=
  let s := svdstf_scale with_scale src U V D in
  let R := svdstf_rot U V in
  (s, R, vsub (centroid tgt) (mvmul (mscale3 s R) (centroid src))).

(* residuals the property talks about *)
Definition rigid_apply (R : mat3) (t : vec3) (p : vec3) : vec3 := vadd (mvmul R p) t.
Definition sim_apply (s : F) (R : mat3) (t : vec3) (p : vec3) : vec3 := vadd (mvmul (mscale3 s R) p) t.
Fixpoint resid (f : vec3 -> vec3) (src tgt : cloud) : F :=
  match src, tgt with
  | p :: sr, q :: tr => sqnorm (vsub q (f p)) + resid f sr tr
  | _, _ => zero
  end.

(* ---------------- EPnP: the linear system of _compute_nullv ---------------- *)
(* alpha_i = (a0,a1,a2,a3); rows 2i and 2i+1 of M (12 entries each) as coded *)
Definition vec4' := (F * F * F * F)%type.
Definition epnp_row_u (a : vec4') (fu u0 u : F) : list F :=
  let '(a0, a1, a2, a3) := a in
  [a0 * fu; zero; a0 * (u0 - u); a1 * fu; zero; a1 * (u0 - u);
   a2 * fu; zero; a2 * (u0 - u); a3 * fu; zero; a3 * (u0 - u)].
Definition epnp_row_v (a : vec4') (fv v0 v : F) : list F :=
  let '(a0, a1, a2, a3) := a in
  [zero; a0 * fv; a0 * (v0 - v); zero; a1 * fv; a1 * (v0 - v);
   zero; a2 * fv; a2 * (v0 - v); zero; a3 * fv; a3 * (v0 - v)].
(* x = [c1; c2; c3; c4] flattened (bases.unflatten(-1, (4, 3)) read backwards) *)
Definition ctrl := (@vec3 F * @vec3 F * @vec3 F * @vec3 F)%type.
Definition ctrl_flat (c : ctrl) : list F :=
  let '(c0, c1, c2, c3) := c in
  [vx c0; vy c0; vz c0; vx c1; vy c1; vz c1; vx c2; vy c2; vz c2; vx c3; vy c3; vz c3].
Fixpoint dotl (a b : list F) : F :=
  match a, b with x :: ar, y :: br => x * y + dotl ar br | _, _ => zero end.
(* transp = alpha @ bases *)
Definition ctrl_comb (a : vec4') (c : ctrl) : vec3 :=
  let '(a0, a1, a2, a3) := a in let '(c0, c1, c2, c3) := c in
  vadd (vadd (vadd (vscale a0 c0) (vscale a1 c1)) (vscale a2 c2)) (vscale a3 c3).
(* point2pixel with rectified intrinsics (fu, fv, u0, v0) of a camera-frame point *)
Definition project (fu fv u0 v0 : F) (p : vec3) : F * F := (fu * vx p / vz p + u0, fv * vy p / vz p + v0).
End Align.

(* ======================================================================================== *)
(* conversions matrix -> LieTensor (need sqrt, exp, ln) and the functions as called *)
Section AlignT.
Context {F : Type} {NF : Num F} {TF : Trans F}.
Local Open Scope num_scope.

Definition conv_tol : F := frac 1 100000.        (* rtol = atol = 1e-5 *)
(* torch.allclose element test |a - b| <= atol + rtol |b| *)
Definition close_b (a b : F) : bool := absF (a - b) <=? conv_tol + conv_tol * absF b.
Definition v3_close (a b : vec3) : bool := close_b (vx a) (vx b) && close_b (vy a) (vy b) && close_b (vz a) (vz b).
Definition m3_close (a b : mat3) : bool := v3_close (mr0 a) (mr0 b) && v3_close (mr1 a) (mr1 b) && v3_close (mr2 a) (mr2 b).

(* mat2SO3: numerators (w,x,y,z) and the radicand of the branch the masks select *)
Definition mat2SO3_sel (m : mat3) : F * (F * F * F * F) :=
  let '((m00, m01, m02), (m10, m11, m12), (m20, m21, m22)) := m in
  let t0 := one + m00 - m11 - m22 in
  let t1 := one - m00 + m11 - m22 in
  let t2 := one - m00 - m11 + m22 in
  let t3 := one + m00 + m11 + m22 in
  if m22 <? conv_tol then
    if m11 <? m00 then (t0, (m21 - m12, t0, m10 + m01, m02 + m20))
    else (t1, (m02 - m20, m10 + m01, t1, m21 + m12))
  else
    if m00 <? - m11 then (t2, (m10 - m01, m02 + m20, m21 + m12, t2))
    else (t3, (t3, m21 - m12, m02 - m20, m10 - m01)).
(* region index, for the branch histogram of the tie *)
Definition mat2SO3_region (m : mat3) : nat :=
  let '((m00, m01, m02), (m10, m11, m12), (m20, m21, m22)) := m in
  if m22 <? conv_tol then (if m11 <? m00 then 0 else 1) else (if m00 <? - m11 then 2 else 3).
Definition mat2SO3 (check : bool) (m : mat3) : option quat :=
  if check && negb (m3_close (mmul3 m (mtrans m)) mid3) then None     (* ValueError: not orthogonal *)
  else if check && negb (close_b (mdet3 m) one) then None            (* ValueError: determinant *)
  else
    let '(t, (w, x, y, z)) := mat2SO3_sel m in
    if t <=? zero then None                                          (* nan / inf *)
    else let d := two * tsqrt t in Some ((x / d, y / d, z / d), w / d).
(* mat2SE3(cat(R, t), check) *)
Definition mat2SE3 (check : bool) (T : mat3 * vec3) : option se3elt :=
  match mat2SO3 check (fst T) with Some q => Some (snd T, q) | None => None end.
(* torch.pow(x, 1/3): nan for x < 0 *)
Definition cbrt_pow (x : F) : option F :=
  if x <? zero then None else if x =? zero then Some zero else Some (texp (tln x / ofZ 3)).
(* mat2Sim3(cat(sR, t), check): s = det(sR)^(1/3); "not full rank" when allclose(s, 0);
   [mat2Sim3_k] is the rest of the function once the cube root is known *)
Definition mat2Sim3_k (check : bool) (T : mat3 * vec3) (s : F) : option sim3elt :=
  if absF s <=? conv_tol then None
  else match mat2SO3 check (mdivs3 (fst T) s) with
       | Some q => Some (snd T, (q, s))
       | None => None
       end.
Definition mat2Sim3 (check : bool) (T : mat3 * vec3) : option sim3elt :=
  match cbrt_pow (mdet3 (fst T)) with
  | None => None
  | Some s => mat2Sim3_k check T s
  end.

Section Oracles.
Variable svd : @mat3 F -> @mat3 F * @vec3 F * @mat3 F.       (* torch.linalg.svd: (U, Sg, Vh) *)

Definition svdtf (src tgt : cloud) : option se3elt :=
  if sizes_ok src tgt then
    let '(U, _, Vh) := svd (svdtf_M src tgt) in mat2SE3 false (svdtf_mat src tgt U Vh)
  else None.
Definition svdtf_old (src tgt : cloud) : option se3elt :=
  if sizes_ok src tgt then
    let '(U, _, Vh) := svd (svdtf_M src tgt) in mat2SE3 false (svdtf_mat_old src tgt U Vh)
  else None.
Definition svdstf (with_scale : bool) (src tgt : cloud) : option sim3elt :=
  if sizes_ok src tgt then
    let '(U, D, V) := svd (svdstf_H src tgt) in
    let '(s, R, t) := svdstf_mat with_scale src tgt U D V in
    mat2Sim3 true (mscale3 s R, t)
  else None.

(* ---------------- ICP.forward ---------------- *)
(* knn(temporal, target, k=1): for every point of the first cloud (distance, index) of its nearest
   neighbour in the second *)
Variable knn : @cloud F -> @cloud F -> list (F * nat).
Definition gather3 (tgt : cloud) (idx : list nat) : cloud := map (fun i => nth i tgt vzero) idx.
Definition se3_cloud (T : se3elt) (l : cloud) : cloud := map (SE3_act T) l.
(* one pass of the loop body: (error, next temporal) *)
Definition icp_body (temporal target : cloud) : option (F * cloud) :=
  let nn := knn temporal target in
  let err := meanF (map fst nn) in
  match svdtf temporal (gather3 target (map snd nn)) with
  | Some T => Some (err, se3_cloud T temporal)
  | None => None
  end.
(* while stepper.continual(): body; stepper.step(error) *)
Fixpoint icp_loop (fuel : nat) (cfg : rtb_cfg) (st : rtb_state) (temporal target : cloud)
  : option (cloud * rtb_state * list F) :=
  match fuel with
  | O => Some (temporal, st, [])
  | S f =>
      if rtb_cont st then
        match icp_body temporal target with
        | Some (err, temporal') =>
            match icp_loop f cfg (rtb_step cfg st [err]) temporal' target with
            | Some (tm, st', errs) => Some (tm, st', err :: errs)
            | None => None
            end
        | None => None
        end
      else Some (temporal, st, [])
  end.
(* forward(source, target, init): the budget of the controller bounds the loop (C20_icp_bound) *)
Definition icp_forward (cfg : rtb_cfg) (st0 : rtb_state) (init : option se3elt) (source target : cloud)
  : option (se3elt * rtb_state * list F) :=
  let temporal := match init with Some T => se3_cloud T source | None => source end in
  match icp_loop (S (Z.to_nat (rtb_max cfg))) cfg (rtb_reset st0) temporal target with
  | Some (tm, st, errs) =>
      match svdtf source tm with Some T => Some (T, st, errs) | None => None end
  | None => None
  end.
End Oracles.

(* flat-list interfaces for the enclosure route of the conversion tie *)
Definition se3_out (o : option se3elt) : list F := match o with Some X => SE3_l X | None => [] end.
Definition sim3_out (o : option sim3elt) : list F := match o with Some X => Sim3_l X | None => [] end.
(* the conversions alone, on a matrix given entry by entry (stage 2 of the conversion tie: stage 1
   evaluates svdtf_mat / svdstf_mat over Q and hands the exact (R, t) / (s R, t) over) *)
Definition mat2SE3_enc (R : mat3) (t : vec3) : list F := se3_out (mat2SE3 false (R, t)).
Definition cbrt_enc (sR : mat3) : list F := match cbrt_pow (mdet3 sR) with Some s => [s] | None => [] end.
Definition mat2Sim3_k_enc (sR : mat3) (t : vec3) (s : F) : list F := sim3_out (mat2Sim3_k true (sR, t) s).
End AlignT.

(* ======================================================================================== *)
(* exact-route evaluators (Q): the implementation's own U, S, Vh are fed to the model, the oracle
   contract is checked on them, and the model's (R, t, s) is compared with the implementation's
   output (quaternion turned back into a matrix with the C03 model) within the given tolerances. *)
Definition Qabs' (x : Q) : Q := absF x.
Definition q_le (a b : Q) : bool := Qle_bool a b.
Definition v3_maxabs (v : @vec3 Q) : Q := maxF (maxF (Qabs' (vx v)) (Qabs' (vy v))) (Qabs' (vz v)).
Definition m3_maxabs (m : @mat3 Q) : Q := maxF (maxF (v3_maxabs (mr0 m)) (v3_maxabs (mr1 m))) (v3_maxabs (mr2 m)).
Definition m3_sub (a b : @mat3 Q) : @mat3 Q := (vsub (mr0 a) (mr0 b), vsub (mr1 a) (mr1 b), vsub (mr2 a) (mr2 b)).
Definition m3_dist (a b : @mat3 Q) : Q := m3_maxabs (m3_sub a b).
Definition orth_err (U : @mat3 Q) : Q := m3_dist (mmul3 U (mtrans U)) mid3.
Definition sorted_nonneg (Sg : @vec3 Q) : bool :=
  q_le (vy Sg) (vx Sg) && q_le (vz Sg) (vy Sg) && q_le 0 (vz Sg).
(* the oracle contract, numerically: orthogonality within tol_o, M = U diag(S) Vh within tol_f *)
Definition svd_contract_b (M U : @mat3 Q) (Sg : @vec3 Q) (Vh : @mat3 Q) (tol_o tol_f : Q) : bool :=
  q_le (orth_err U) tol_o && q_le (orth_err Vh) tol_o && sorted_nonneg Sg &&
  q_le (m3_dist (mmul3 (mmul3 U (diag3 Sg)) Vh) M) tol_f.

Definition pts := list (Q * Q * Q).
(* case: index, source, target, (U, Sg, Vh), implementation output (t, (qv, qw)), tolerances
   (tol_o, tol_f, tol_R, tol_t).  Result code: 1 contract, 2 rotation, 4 translation, 8 flip branch
   differs from [flip] (the harness' own reading of the branch, for the histogram) *)
Definition tf_case := (nat * pts * pts * (@mat3 Q * @vec3 Q * @mat3 Q) * (@vec3 Q * @quat Q) * (Q * Q * Q * Q) * bool)%type.
Definition tf_code (c : tf_case) : nat :=
  let '(_, src, tgt, (U, Sg, Vh), (ti, qi), (tol_o, tol_f, tol_R, tol_t), flip) := c in
  let M := svdtf_M src tgt in
  let '(R, t) := svdtf_mat src tgt U Vh in
  (if sizes_ok src tgt && svd_contract_b M U Sg Vh tol_o tol_f then 0 else 1) +
  (if q_le (m3_dist R (SO3_matrix qi)) tol_R then 0 else 2) +
  (if q_le (v3_maxabs (vsub t ti)) tol_t then 0 else 4) +
  (if Bool.eqb (svdtf_flip U Vh) flip then 0 else 8).
Definition tf_bad (cs : list tf_case) : list nat :=
  flat_map (fun c => let k := tf_code c in
                     if Nat.eqb k 0 then [] else [(let '(i, _, _, _, _, _, _) := c in i) * 16 + k]) cs.

(* svdstf case: ..., with_scale, (U, D, V), output (t, (qv, qw), s), tolerances
   (tol_o, tol_f, tol_R, tol_t, tol_s).  Codes: 1 contract, 2 rotation, 4 translation, 8 scale *)
Definition stf_case := (nat * bool * pts * pts * (@mat3 Q * @vec3 Q * @mat3 Q) * (@vec3 Q * @quat Q * Q) * (Q * Q * Q * Q * Q))%type.
Definition stf_code (c : stf_case) : nat :=
  let '(_, ws, src, tgt, (U, D, V), (ti, qi, si), (tol_o, tol_f, tol_R, tol_t, tol_s)) := c in
  let H := svdstf_H src tgt in
  let '(s, R, t) := svdstf_mat ws src tgt U D V in
  (if sizes_ok src tgt && svd_contract_b H U D V tol_o tol_f then 0 else 1) +
  (if q_le (m3_dist R (SO3_matrix qi)) tol_R then 0 else 2) +
  (if q_le (v3_maxabs (vsub t ti)) tol_t then 0 else 4) +
  (if q_le (Qabs' (s - si)%num) tol_s then 0 else 8).
Definition stf_bad (cs : list stf_case) : list nat :=
  flat_map (fun c => let k := stf_code c in
                     if Nat.eqb k 0 then [] else [(let '(i, _, _, _, _, _, _) := c in i) * 16 + k]) cs.

(* ICP transition: temporal_k, target, the knn indices, (U, Sg, Vh) of that pass, the
   implementation's temporal_{k+1}; the pass of the model (with these oracle answers) must give
   the same cloud within tol_p (the pass applies p |-> R p + t with (R, t) = svdtf_mat: by
   Proofs/Align.svdtf_returns this is the action of the SE3 element svdtf returns, which keeps the
   evaluator rational).  knn contract (checked exactly, up to tol_k on squared distances):
   the index is in range and no target point is closer.  Codes: 1 svd contract, 2 knn contract,
   4 next cloud differs *)
Definition sqd (a b : Q * Q * Q) : Q := sqnorm (vsub a b).
Definition knn_ok_b (temporal target : pts) (idx : list nat) (tol_k : Q) : bool :=
  Nat.eqb (length idx) (length temporal) &&
  forallb (fun pi => let '(p, i) := pi in
             Nat.ltb i (length target) &&
             forallb (fun q => q_le (sqd p (nth i target vzero)) (sqd p q + tol_k)%num) target)
          (combine temporal idx).
Definition cloud_dist (a b : pts) : Q :=
  fold_right maxF 0%Q (map (fun pq => v3_maxabs (vsub (fst pq) (snd pq))) (combine a b)).
Definition icp_case := (nat * pts * pts * list nat * (@mat3 Q * @vec3 Q * @mat3 Q) * pts * (Q * Q * Q * Q))%type.
Definition icp_code (c : icp_case) : nat :=
  let '(_, temporal, target, idx, (U, Sg, Vh), next, (tol_o, tol_f, tol_k, tol_p)) := c in
  let kt := gather3 target idx in
  let '(R, t) := svdtf_mat temporal kt U Vh in
  (if sizes_ok temporal kt && svd_contract_b (svdtf_M temporal kt) U Sg Vh tol_o tol_f then 0 else 1) +
  (if knn_ok_b temporal target idx tol_k then 0 else 2) +
  (if Nat.eqb (length next) (length temporal) &&
      q_le (cloud_dist (map (rigid_apply R t) temporal) next) tol_p then 0 else 4).
Definition icp_bad (cs : list icp_case) : list nat :=
  flat_map (fun c => let k := icp_code c in
                     if Nat.eqb k 0 then [] else [(let '(i, _, _, _, _, _, _) := c in i) * 16 + k]) cs.

(* stage 1 of the conversion tie: the exact matrix and translation the code hands to mat2SE3 /
   mat2Sim3, as (numerator, denominator) pairs, row-major R (or s R) then t *)
Definition qz (q : Q) : Z * Z := (Qnum q, Zpos (Qden q)).
Definition m3t_qz (m : @mat3 Q) (t : @vec3 Q) : list (Z * Z) := map qz (m3_l m ++ v3_l t).
Definition tf_stage1 (c : pts * pts * (@mat3 Q * @mat3 Q)) : list (Z * Z) :=
  let '(src, tgt, (U, Vh)) := c in let '(R, t) := svdtf_mat src tgt U Vh in m3t_qz R t.
Definition stf_stage1 (c : bool * pts * pts * (@mat3 Q * @vec3 Q * @mat3 Q)) : list (Z * Z) :=
  let '(ws, src, tgt, (U, D, V)) := c in
  let '(s, R, t) := svdstf_mat ws src tgt U D V in m3t_qz (mscale3 s R) t.
