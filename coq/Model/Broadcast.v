(* Model of the batching / broadcasting / view logic shared by every LieTensor operation:

     pypose/lietensor/operation.py : broadcast_inputs
     pypose/lietensor/lietensor.py : *Type.Mul / Act / Adj / AdjT / Jinvp
                                        ( input, out_shape = broadcast_inputs(X, Y)
                                          out = KERNEL.apply( *input )
                                          dim = -1 if out.nelement() != 0 else <fallback>.shape[-1]
                                          out.view(out_shape + (dim,)) ),
                                     *Type.Inv / Exp / Log (item-wise on the last dimension),
                                     LieType.matrix / SO3Type.matrix (unsqueeze(-2).Act(I).transpose),
                                     rotation / translation / scale (slices of the last dimension),
                                     HANDLED_FUNCTIONS and the wrap rule of LieTensor.__torch_function__.

   A tensor is (lshape, size of the last dimension, row-major list of items); an item is the
   content of the last dimension (one group element / point / algebra vector).  PyTorch's
   [expand] is modelled as it is implemented: a view with stride 0 on the expanded dimensions;
   [reshape(-1, d).contiguous()] reads the view in row-major order of its (expanded) shape. *)
From Coq Require Import String.
From Coq Require Import List Arith Bool PeanoNat ZArith QArith.
Import ListNotations.
From PV Require Import Base.Num Model.LieGroup.
Close Scope Q_scope.
Close Scope string_scope.

Definition shape := list nat.
Definition numel (s : shape) : nat := fold_right Nat.mul 1 s.

(* ---------------- torch.broadcast_shapes ---------------- *)
(* one dimension: sizes must be equal or one of them 1 (0 is an ordinary size) *)
Definition bdim (a b : nat) : option nat :=
  if a =? b then Some a else if a =? 1 then Some b else if b =? 1 then Some a else None.
(* missing leading dimensions count as 1 *)
Definition pad (n : nat) (s : shape) : shape := repeat 1 (n - length s) ++ s.
Fixpoint bcast_eq (a b : shape) : option shape :=
  match a, b with
  | [], [] => Some []
  | x :: a', y :: b' =>
      match bdim x y, bcast_eq a' b' with Some d, Some r => Some (d :: r) | _, _ => None end
  | _, _ => None
  end.
Definition broadcast_shapes (a b : shape) : option shape :=
  let n := Nat.max (length a) (length b) in bcast_eq (pad n a) (pad n b).

(* ---------------- strides, expand, row-major read-out ---------------- *)
Fixpoint strides (s : shape) : list nat :=
  match s with [] => [] | _ :: s' => numel s' :: strides s' end.
Fixpoint offset (i st : list nat) : nat :=
  match i, st with k :: i', t :: st' => k * t + offset i' st' | _, _ => 0 end.
(* Tensor.expand(T): ranks aligned on the right; an existing dimension keeps its stride when the
   sizes agree, gets stride 0 when it has size 1, otherwise the call raises; new leading
   dimensions get stride 0; fewer target dimensions than tensor dimensions raises *)
Fixpoint exp_eq (s st T : list nat) : option (list nat) :=
  match s, st, T with
  | [], [], [] => Some []
  | d :: s', x :: st', t :: T' =>
      match (if d =? t then Some x else if d =? 1 then Some 0 else None), exp_eq s' st' T' with
      | Some e, Some r => Some (e :: r)
      | _, _ => None
      end
  | _, _, _ => None
  end.
Definition expand_strides (s : shape) (T : shape) : option (list nat) :=
  if length T <? length s then None
  else exp_eq (pad (length T) s) (repeat 0 (length T - length s) ++ strides s) T.
(* all multi-indices of a shape in row-major order *)
Fixpoint indices (T : shape) : list (list nat) :=
  match T with
  | [] => [[]]
  | d :: T' => flat_map (fun k => map (cons k) (indices T')) (seq 0 d)
  end.

Record tensor (A : Type) := mkT { tshape : shape; tdim : nat; titems : list A }.
Arguments mkT {A}. Arguments tshape {A}. Arguments tdim {A}. Arguments titems {A}.
Definition wf {A} (t : tensor A) : Prop := length (titems t) = numel (tshape t).

Section Ops.
Context {A B C : Type}.
Variable (dA : A) (dB : B) (dC : C).     (* defaults of [nth]; never reached on well-formed tensors *)

(* x.expand(T + (d,)).reshape(-1, d).contiguous() : None = expand raises, or reshape(-1, 0) *)
Definition flat_expand {E} (dE : E) (x : tensor E) (T : shape) : option (list E) :=
  if tdim x =? 0 then None else
  match expand_strides (tshape x) T with
  | None => None
  | Some st => Some (map (fun i => nth (offset i st) (titems x) dE) (indices T))
  end.

(* broadcast_inputs(x, y), two-argument form: ((x', y'), out_shape) *)
Definition broadcast_inputs (x : tensor A) (y : tensor B) : option (list A * list B * shape) :=
  match broadcast_shapes (tshape x) (tshape y) with
  | None => None
  | Some out_shape =>
      let sh := match out_shape with [] => [1] | _ => out_shape end in
      match flat_expand dA x sh, flat_expand dB y sh with
      | Some fx, Some fy => Some (fx, fy, out_shape)
      | _, _ => None
      end
  end.
(* broadcast_inputs(x, None): ((x.reshape(-1, d).contiguous(),), x.shape[:-1]) *)
Definition broadcast_inputs1 (x : tensor A) : option (list A * shape) :=
  if tdim x =? 0 then None else Some (titems x, tshape x).

(* out.view(out_shape + (dim,)) with dim = -1 if out.nelement() != 0 else dfb.
   [flat] are the N rows of the kernel output, each of size dout. *)
Definition view_last (flat : list C) (dout : nat) (out_shape : shape) (dfb : nat) : option (tensor C) :=
  let nel := length flat * dout in
  let P := numel out_shape in
  if nel =? 0 then
    if P * dfb =? 0 then Some (mkT out_shape dfb flat) else None
  else if P =? 0 then None
  else if nel mod P =? 0 then Some (mkT out_shape (nel / P) flat) else None.

Fixpoint map2 (f : A -> B -> C) (l : list A) (m : list B) : list C :=
  match l, m with a :: l', b :: m' => f a b :: map2 f l' m' | _, _ => [] end.

(* a binary LieTensor operation: kernel [op] applied row by row to the flattened operands *)
Definition lie_binop (op : A -> B -> C) (dout dfb : nat) (x : tensor A) (y : tensor B) : option (tensor C) :=
  match broadcast_inputs x y with
  | None => None
  | Some (fx, fy, out_shape) => view_last (map2 op fx fy) dout out_shape dfb
  end.
(* a unary LieTensor operation (Inv, Exp, Log; kernels index the last dimension with [...]) *)
Definition lie_unop (op : A -> C) (dout : nat) (x : tensor A) : tensor C :=
  mkT (tshape x) dout (map op (titems x)).

(* ---- what the property says: the operand item used for output multi-index i *)
Definition ravel (s : shape) (i : list nat) : nat := offset i (strides s).
Fixpoint bidx_eq (s : shape) (i : list nat) : list nat :=
  match s, i with d :: s', k :: i' => (if d =? 1 then 0 else k) :: bidx_eq s' i' | _, _ => [] end.
Definition bidx (s : shape) (i : list nat) : list nat :=
  skipn (length i - length s) (bidx_eq (pad (length i) s) i).
Definition valid_idx (s : shape) (i : list nat) : Prop := Forall2 lt i s.
Definition tget {E} (dE : E) (t : tensor E) (i : list nat) : E := nth (ravel (tshape t) i) (titems t) dE.
End Ops.

(* ---------------- the concrete operations (items are lists over a number type) ---------------- *)
Section Lie.
Context {F : Type} {NF : Num F}.

(* last-dimension sizes: group ids 0 SO3, 1 SE3, 2 RxSO3, 3 Sim3 *)
Definition gdim (g : nat) : nat := match g with 0 => 4 | 1 => 7 | 2 => 5 | _ => 8 end.
Definition adim (g : nat) : nat := match g with 0 => 3 | 1 => 6 | 2 => 4 | _ => 7 end.

(* X @ Y / X * Y (both groups): fallback dimension X.shape[-1] *)
Definition lt_mul (g : nat) (x y : tensor (list F)) := lie_binop [] [] (g_mul g) (gdim g) (tdim x) x y.
(* X.Act(p), p.shape[-1] in {3, 4} (anything else: assertion error); fallback p.shape[-1] *)
Definition lt_act (g : nat) (x p : tensor (list F)) : option (tensor (list F)) :=
  if tdim p =? 3 then lie_binop [] [] (g_act g) 3 (tdim p) x p
  else if tdim p =? 4 then lie_binop [] [] (g_act4 g) 4 (tdim p) x p
  else None.
(* X.Adj(a) / X.AdjT(a); fallback a.shape[-1] *)
Definition lt_adj (g : nat) (tr : bool) (x a : tensor (list F)) :=
  lie_binop [] [] (g_adj g tr) (adim g) (tdim a) x a.
Definition lt_inv (g : nat) (x : tensor (list F)) := lie_unop (g_inv g) (gdim g) x.
(* rotation / translation / scale: slices of the last dimension (zeros / ones of lshape + (3,) / (1,)
   for the types without a translation / scale) *)
Definition lt_rotation (g : nat) (x : tensor (list F)) := lie_unop (g_rotation g) 4 x.
Definition lt_translation (g : nat) (x : tensor (list F)) := lie_unop (g_translation g) 3 x.
Definition lt_scale (g : nat) (x : tensor (list F)) := lie_unop (g_scale g) 1 x.

(* matrix(): I = eye(n).view([1]*(X.dim()-1) + [n, n]); X.unsqueeze(-2).Act(I).transpose(-1,-2)
   (n = 3 for SO3, 4 otherwise).  The result has shape lshape + (n, n); it is returned here as a
   tensor of lshape whose items are the n*n entries in row-major order. *)
Definition basis (n : nat) : list (list F) :=
  map (fun c => map (fun r => if r =? c then one else zero) (seq 0 n)) (seq 0 n).
Fixpoint chunk {E} (k n : nat) (l : list E) : list (list E) :=
  match k with 0 => [] | S k' => firstn n l :: chunk k' n (skipn n l) end.
Definition transpose_flat (n : nat) (rows : list (list F)) : list F :=
  flat_map (fun r => map (fun row => nth r row zero) rows) (seq 0 n).
Definition lt_matrix (g : nat) (x : tensor (list F)) : option (tensor (list F)) :=
  let n := match g with 0 => 3 | _ => 4 end in
  let xu := mkT (tshape x ++ [1]) (tdim x) (titems x) in
  let I := mkT (repeat 1 (length (tshape x)) ++ [n]) n (basis n) in
  match lt_act g xu I with
  | None => None
  | Some r =>
      (* r has lshape (lshape x) ++ [n]; swap its last lshape dimension with the item dimension *)
      Some (mkT (tshape x) (n * n) (map (transpose_flat n) (chunk (numel (tshape x)) n (titems r))))
  end.
End Lie.

(* ---------------- ltypes and the result type of every operation ---------------- *)
Inductive ltype := SO3_t | SE3_t | RxSO3_t | Sim3_t | so3_t | se3_t | rxso3_t | sim3_t.
Definition ltype_eqb (a b : ltype) : bool :=
  match a, b with
  | SO3_t, SO3_t | SE3_t, SE3_t | RxSO3_t, RxSO3_t | Sim3_t, Sim3_t
  | so3_t, so3_t | se3_t, se3_t | rxso3_t, rxso3_t | sim3_t, sim3_t => true
  | _, _ => false end.
Definition dimension (t : ltype) : nat :=
  match t with SO3_t => 4 | SE3_t => 7 | RxSO3_t => 5 | Sim3_t => 8
             | so3_t => 3 | se3_t => 6 | rxso3_t => 4 | sim3_t => 7 end.
Definition group_of (g : nat) : ltype := match g with 0 => SO3_t | 1 => SE3_t | 2 => RxSO3_t | _ => Sim3_t end.
Definition algebra_of (g : nat) : ltype := match g with 0 => so3_t | 1 => se3_t | 2 => rxso3_t | _ => sim3_t end.
(* op codes as in Model/LieGroup.v (0 Mul 1 Inv 2 Act 3 Act4 4 matrix 6 rotation 7 translation 8 scale
   9 Adj 10 AdjT) plus 11 Retr, 12 Exp (of the algebra), 13 Log, 14 Jinvp.  None = plain torch.Tensor *)
Definition result_ltype (g op : nat) : option ltype :=
  match op with
  | 0 | 1 | 11 | 12 => Some (group_of g)
  | 6 => Some SO3_t
  | 9 | 10 | 13 | 14 => Some (algebra_of g)
  | _ => None
  end.

(* ---------------- HANDLED_FUNCTIONS and LieTensor.__torch_function__ ---------------- *)
Open Scope string_scope.
(* the list as written (with its duplicates) *)
Definition HANDLED_FUNCTIONS : list string :=
  ["__getitem__"; "__setitem__"; "cpu"; "cuda"; "float"; "double";
   "to"; "detach"; "view"; "view_as"; "squeeze"; "unsqueeze"; "cat";
   "stack"; "split"; "hsplit"; "dsplit"; "vsplit"; "tensor_split";
   "chunk"; "concat"; "column_stack"; "dstack"; "vstack"; "hstack";
   "index_select"; "masked_select"; "movedim"; "moveaxis"; "narrow";
   "permute"; "reshape"; "row_stack"; "scatter"; "scatter_add"; "clone";
   "swapaxes"; "swapdims"; "take"; "take_along_dim"; "tile"; "copy";
   "transpose"; "unbind"; "gather"; "repeat"; "expand"; "expand_as";
   "index_select"; "masked_select"; "index_copy"; "index_copy_";
   "select"; "select_scatter"; "index_put"; "index_put_"; "copy_"].
Close Scope string_scope.
Definition handled (name : string) : bool := existsb (String.eqb name) HANDLED_FUNCTIONS.

(* a leaf of the value returned by Tensor.__torch_function__ *)
Inductive leaf :=
| LPlain (shp : list nat)                    (* a torch.Tensor that is not a LieTensor; full shape *)
| LLie (lt : option ltype) (shp : list nat)  (* already an instance of cls (ltype attribute may be missing) *)
| LOther.                                    (* int, bool, None inside a container, ... *)
Inductive tf_result :=
| TFNone                                     (* data is None (e.g. __setitem__) *)
| TFData (leaves : list leaf) (warned : list bool)   (* returned structure (flattened) + one flag per leaf: a
                                                        'Tensor Shape Invalid' warning was issued for it *)
| TFIndexError.                              (* [arg.ltype for arg in args if isinstance(arg, LieTensor)][0] on [] *)
Definition last_is (shp : list nat) (d : nat) : bool :=
  match rev shp with x :: _ => x =? d | [] => false end.
Definition wrap_leaf (lt : ltype) (l : leaf) : leaf * bool :=
  match l with
  | LPlain shp => (LLie (Some lt) shp, negb (last_is shp (dimension lt)))
  | _ => (l, false)
  end.
(* name = func.__name__ if it has one; pos_ltypes / kw_ltypes = ltypes of the LieTensors among the
   flattened positional / keyword arguments, in order: the code flattens (args, kwargs) and takes the
   first LieTensor's ltype *)
Definition torch_function (name : option string) (data : option (list leaf)) (pos_ltypes kw_ltypes : list ltype) : tf_result :=
  match data with
  | None => TFNone
  | Some leaves =>
      match name with
      | Some n =>
          if handled n then
            match pos_ltypes ++ kw_ltypes with
            | [] => TFIndexError      (* unreachable through dispatch: some argument is a LieTensor *)
            | lt :: _ => let r := map (wrap_leaf lt) leaves in TFData (map fst r) (map snd r)
            end
          else TFData leaves (map (fun _ => false) leaves)
      | None => TFData leaves (map (fun _ => false) leaves)
      end
  end.
(* before fix 613c139: tree_flatten(args) -- keyword arguments were not looked at *)
Definition torch_function_old (name : option string) (data : option (list leaf)) (pos_ltypes kw_ltypes : list ltype) : tf_result :=
  torch_function name data pos_ltypes [].

(* ================= evaluators used by the correspondence check (vm_compute) ================= *)
(* index map of the two-argument broadcast for a pair of lshapes: operands hold their own flat
   positions, the kernel pairs them *)
Definition idx_tensor (s : shape) : tensor nat := mkT s 1 (seq 0 (numel s)).
Definition bcast_map (lx ly : shape) : option (shape * list (nat * nat)) :=
  match lie_binop 0 0 (fun a b => (a, b)) 1 1 (idx_tensor lx) (idx_tensor ly) with
  | Some r => Some (tshape r, titems r)
  | None => None
  end.
Definition bcast_table (ps : list (shape * shape)) : list (option (shape * list (nat * nat))) :=
  map (fun p => bcast_map (fst p) (snd p)) ps.

(* complete cases over Q: (index, group, op, (lshape, dim, items) of x, of y, implementation result) *)
Definition qtensor := (list nat * nat * list (list Q))%type.
Definition to_t (q : qtensor) : tensor (list Q) := match q with (s, d, l) => mkT s d l end.
Definition lt_eval (g op : nat) (x y : tensor (list Q)) : option (tensor (list Q)) :=
  match op with
  | 0 => lt_mul g x y
  | 1 => Some (lt_inv g x)
  | 2 | 3 => lt_act g x y
  | 4 => lt_matrix g x
  | 6 => Some (lt_rotation g x)
  | 7 => Some (lt_translation g x)
  | 8 => Some (lt_scale g x)
  | 9 => lt_adj g false x y
  | 10 => lt_adj g true x y
  | _ => None
  end.
Definition shape_eqb (a b : list nat) : bool :=
  (length a =? length b) && forallb (fun p => fst p =? snd p) (combine a b).
Definition items_eqb (a b : list (list Q)) : bool :=
  (length a =? length b) && forallb (fun p => Qlist_eqb (fst p) (snd p)) (combine a b).
Definition full_case := (nat * nat * nat * qtensor * qtensor * option qtensor)%type.
Definition full_ok (c : full_case) : bool :=
  match c with (_, g, op, x, y, expect) =>
    match lt_eval g op (to_t x) (to_t y), expect with
    | None, None => true
    | Some r, Some (s, d, l) => shape_eqb (tshape r) s && (tdim r =? d) && items_eqb (titems r) l
    | _, _ => false
    end end.
Definition full_bad (cs : list full_case) : list nat :=
  map (fun c => match c with (i, _, _, _, _, _) => i end) (filter (fun c => negb (full_ok c)) cs).

(* __torch_function__ decision: (index, name, data, positional ltypes, observed result) *)
Definition leaf_eqb (a b : leaf) : bool :=
  match a, b with
  | LPlain s, LPlain s' => shape_eqb s s'
  | LLie (Some t) s, LLie (Some t') s' => ltype_eqb t t' && shape_eqb s s'
  | LLie None s, LLie None s' => shape_eqb s s'
  | LOther, LOther => true
  | _, _ => false end.
Definition tf_eqb (a b : tf_result) : bool :=
  match a, b with
  | TFNone, TFNone | TFIndexError, TFIndexError => true
  | TFData l w, TFData l' w' =>
      (length l =? length l') && forallb (fun p => leaf_eqb (fst p) (snd p)) (combine l l')
      && (length w =? length w') && forallb (fun p => Bool.eqb (fst p) (snd p)) (combine w w')
  | _, _ => false end.
Definition tf_case := (nat * option string * option (list leaf) * list ltype * list ltype * tf_result)%type.
Definition tf_bad (cs : list tf_case) : list nat :=
  map (fun c => match c with (i, _, _, _, _, _) => i end)
      (filter (fun c => match c with (_, n, d, lts, kws, r) => negb (tf_eqb (torch_function n d lts kws) r) end) cs).

(* documented result type of every operation: (index, group, op, observed ltype code or None = Tensor);
   codes 0 SO3 1 SE3 2 RxSO3 3 Sim3 4 so3 5 se3 6 rxso3 7 sim3 *)
Definition ltype_of_code (n : nat) : ltype :=
  match n with 0 => SO3_t | 1 => SE3_t | 2 => RxSO3_t | 3 => Sim3_t | 4 => so3_t | 5 => se3_t | 6 => rxso3_t | _ => sim3_t end.
Definition ltype_bad (cs : list (nat * nat * nat * option nat)) : list nat :=
  map (fun c => match c with (i, _, _, _) => i end)
      (filter (fun c => match c with (_, g, op, obs) =>
                 negb (match result_ltype g op, obs with
                       | None, None => true
                       | Some t, Some n => ltype_eqb t (ltype_of_code n)
                       | _, _ => false end) end) cs).
